(* Props/C07.v — Every query returns exactly the documents its meaning selects.
   Only statements, each closed by `exact`, with Print Assumptions beneath. *)
From Coq Require Import ZArith List.
From Bluge Require Import Base.Res Search.Numeric Search.Postings Search.Searchers Search.Semantics Search.SearchersProofs.
Import ListNotations.
Open Scope Z_scope.

Example run_boolean_on_example_index :
  run ex_sn copts_default ex_q1 = Ok [0; 2] /\ sem_numbers ex_q1 ex_sn = [0; 2].
Proof. exact ex_run_boolean. Qed.
Print Assumptions run_boolean_on_example_index.

Example deleted_document_never_returned :
  run ex_sn copts_default (QTerm 0 t_ba) = Ok [0; 3; 4] /\ sem_ids (QTerm 0 t_ba) ex_sn = [1; 4; 5].
Proof. exact ex_deleted_skipped. Qed.
Print Assumptions deleted_document_never_returned.

Example advance_crosses_segments :
  (s <- compile ex_sn copts_default (QTerm 0 t_ab) ;; run_script 100 10 s [ONext; OAdvance 3; ONext]) = Ok [Some 0; Some 3; None].
Proof. exact ex_advance_across_segments. Qed.
Print Assumptions advance_crosses_segments.

Example sloppy_phrase_on_example_index :
  run ex_sn copts_default (QPhrase 0 [[t_ab]; [t_ab]] 1) = Ok [2] /\
  run ex_sn copts_default (QPhrase 0 [[t_ab]; [t_ab]] 0) = Ok [] /\
  sem_numbers (QPhrase 0 [[t_ab]; [t_ab]] 1) ex_sn = [2].
Proof. exact ex_phrase_slop. Qed.
Print Assumptions sloppy_phrase_on_example_index.

(* In the node theorems below CNew describes a child that was not called yet: such a child is only
   stepped with Next (every searcher initialises its children with Next). *)
(* ---- searcher_spec (DESIGN.md C07), proved node by node: each composite meets the iterator
   contract of Search/SearchersProofsBase.v (Next returns the least member of its denotation at or
   above the watermark, Advance n the least one at or above n, in strictly increasing order)
   whenever its children do.  Full statement of searcher_spec:
     for every searcher tree t over any snapshot, every script of Next / Advance n calls that starts
     with Next and whose Advance targets are above the last number returned and never decrease
     returns exactly the remaining members of filter (sem t), Advance n the least one >= n.
   Proved here: the conjunction and the slice disjunction (any number of children, any min).
   Not yet assembled into the tree theorem: boolean, heap disjunction, phrase, the leaves over
   index/postings.go (validated by the script correspondence on every run). ---- *)
From Bluge Require Import Search.SearchersProofsBase Search.SearchersProofsConj Search.SearchersProofsDisj Search.SearchersProofsHeap Search.SearchersProofsBool Search.SearchersProofsLeaf Search.SearchersProofsSnap Search.SearchersProofsExact.

Theorem searcher_spec_conjunction_partial :
  forall (C : Type) (cnext : C -> res (option dmatch * C)) (cadv : C -> Z -> res (option dmatch * C))
         (CInv CFin : C -> (Z -> bool) -> Z -> Prop),
    contract cnext cadv CInv CFin ->
    forall (CNew : C -> (Z -> bool) -> Prop), new_exact cnext CInv CFin CNew ->
    forall (N : Z) (Ss : list (Z -> bool)) (lf : nat) (st : conj_st C) (lo : Z),
      conj_inv C CInv CFin CNew N Ss st lo -> (conj_fuel N (length Ss) <= lf)%nat ->
      (exists r st', conj_next C cnext cadv lf st = Ok (r, st') /\ conj_exact_post C CInv CFin CNew N Ss lo r st') /\
      (forall n, lo <= n ->
         exists r st', conj_advance C cnext cadv lf st n = Ok (r, st') /\ conj_exact_post C CInv CFin CNew N Ss n r st').
Proof. exact conj_contract. Qed.
Print Assumptions searcher_spec_conjunction_partial.

Theorem searcher_spec_disjunction_slice_partial :
  forall (C : Type) (cnext : C -> res (option dmatch * C)) (cadv : C -> Z -> res (option dmatch * C))
         (CInv CFin : C -> (Z -> bool) -> Z -> Prop),
    contract cnext cadv CInv CFin ->
    forall (CNew : C -> (Z -> bool) -> Prop), new_exact cnext CInv CFin CNew ->
    forall (N : Z) (Ss : list (Z -> bool)) (dmin : Z) (lf : nat) (st : dsl_st C) (lo : Z),
      dsl_inv C CInv CFin CNew N Ss dmin st lo -> 0 <= lo -> (Z.to_nat N + 2 <= lf)%nat ->
      (exists r st', dsl_next C cnext lf st = Ok (r, st') /\ dsl_exact_post C CInv CFin N Ss dmin lo r st') /\
      (forall n, lo <= n ->
         exists r st', dsl_advance C cnext cadv lf st n = Ok (r, st') /\ dsl_exact_post C CInv CFin N Ss dmin n r st').
Proof. exact dsl_contract. Qed.
Print Assumptions searcher_spec_disjunction_slice_partial.

(* the heap disjunction (more than DisjunctionHeapTakeover = 10 clauses; container/heap from
   Base/GoHeap.v with the order / multiset lemmas of Base/GoHeapProofs.v): any number of children,
   any min.  A child that was not called yet (CNew) is only stepped with Next; a child that
   reported the end is dropped for good, so once the end was reported (dhp_fin) it is reported
   again whatever the target (dhp_fin_adv in SearchersProofsHeap.v). *)
Theorem searcher_spec_disjunction_heap :
  forall (C : Type) (cnext : C -> res (option dmatch * C)) (cadv : C -> Z -> res (option dmatch * C))
         (CInv CFin : C -> (Z -> bool) -> Z -> Prop),
    contract cnext cadv CInv CFin ->
    forall (CNew : C -> (Z -> bool) -> Prop),
      new_exact cnext CInv CFin CNew ->
    forall (N : Z) (Ss : list (Z -> bool)) (dmin : Z) (cdflt : C) (lf : nat) (st : dhp_st C) (lo : Z),
      dhp_inv C CInv CNew N Ss dmin cdflt st lo -> 0 <= lo -> (Z.to_nat N + 2 <= lf)%nat ->
      (exists r st', dhp_next C cnext lf cdflt st = Ok (r, st') /\ dhp_exact_post C CInv N Ss dmin cdflt lo r st') /\
      (forall n, lo <= n ->
         exists r st', dhp_advance C cnext cadv lf cdflt st n = Ok (r, st') /\ dhp_exact_post C CInv N Ss dmin cdflt n r st').
Proof. exact dhp_contract. Qed.
Print Assumptions searcher_spec_disjunction_heap.

(* the boolean searcher, Next: for every shape (must / should / must-not present or not, any
   should.Min()) and children that are exact for Next and forward Advance, Next returns the least
   number at or above the watermark that every must clause matches (else: that the should
   searcher returns), that the must-not searcher does not match and — with must clauses and
   should.Min() <> 0 — that the should searcher matches; or reports that there is none and
   sets `done`.  (Advance of a boolean nested below another searcher: not proved yet.) *)
Theorem searcher_spec_boolean_next_partial :
  forall (C : Type) (cnext : C -> res (option dmatch * C)) (cadv : C -> Z -> res (option dmatch * C))
         (cmin : C -> Z) (CInv CFin : C -> (Z -> bool) -> Z -> Prop),
    next_exact C cnext CInv CFin -> adv_exact C cadv CInv CFin ->
    forall (CNew : C -> (Z -> bool) -> Prop), new_exact cnext CInv CFin CNew ->
    (forall c r c', cnext c = Ok (r, c') -> cmin c' = cmin c) ->
    (forall c n r c', cadv c n = Ok (r, c') -> cmin c' = cmin c) ->
    forall (N : Z) (Sm Ss Sn : option (Z -> bool)) (smin : Z) (lf : nat) (st : bool_st C) (lo : Z),
      bool_inv C cmin CInv CFin CNew N Sm Ss Sn smin st lo -> 0 <= lo -> (Z.to_nat N + 2 <= lf)%nat ->
      exists r st', bool_next C cnext cadv cmin lf st = Ok (r, st') /\
                    bool_exact_post C cmin CInv CFin CNew N Sm Ss Sn smin lo r st'.
Proof. exact bool_next_spec. Qed.
Print Assumptions searcher_spec_boolean_next_partial.

(* the boolean searcher, Next AND Advance, for every shape and children that are exact for Next,
   exact for Advance at or above their watermark and that report the end again when advanced at
   or above the point where they reported it.  bool_ret is the state after a match was returned
   (BooleanSearcher.Advance as a FIRST call is not covered: it would skip the first match of the
   should child — every caller in search/searcher starts its children with Next).  The should
   child of a boolean with must clauses and should.Min() = 0 is also advanced to targets below
   its cursor (advanceIfTrailing); it only adds to the score, so all that is used of it is CAny:
   it answers every Advance.  Once the end was reported (done) it is reported for every call. *)
From Bluge Require Search.SearchersProofsBoolAdv.
Theorem searcher_spec_boolean :
  forall (C : Type) (cnext : C -> res (option dmatch * C)) (cadv : C -> Z -> res (option dmatch * C))
         (cmin : C -> Z) (CInv CFin : C -> (Z -> bool) -> Z -> Prop),
    next_exact C cnext CInv CFin -> adv_exact C cadv CInv CFin ->
    forall (CNew : C -> (Z -> bool) -> Prop), new_exact cnext CInv CFin CNew ->
    fin_adv C cadv CFin ->
    forall (CAny : C -> Prop),
    (forall c n, CAny c -> 0 <= n -> exists r c', cadv c n = Ok (r, c') /\ CAny c') ->
    forall (KS : C -> Prop),   (* the kinds of searcher serving as should child *)
    (forall c r c', KS c -> cnext c = Ok (r, c') -> KS c') ->
    (forall c S lo, KS c -> 0 < lo -> CInv c S lo -> CAny c) -> (forall c S lo, KS c -> CFin c S lo -> CAny c) ->
    (forall c r c', cnext c = Ok (r, c') -> cmin c' = cmin c) ->
    (forall c n r c', cadv c n = Ok (r, c') -> cmin c' = cmin c) ->
    forall (N : Z) (Sm Ss Sn : option (Z -> bool)) (smin : Z) (lf : nat), (Z.to_nat N + 2 <= lf)%nat ->
      (forall st lo, SearchersProofsBoolAdv.bool_inv C cmin CInv CFin CNew CAny KS N Sm Ss Sn smin st lo -> 0 <= lo ->
         exists r st', bool_next C cnext cadv cmin lf st = Ok (r, st') /\
                       SearchersProofsBoolAdv.bool_exact_post C cmin CInv CFin CAny N Sm Ss Sn smin lo r st') /\
      (forall st lo n, SearchersProofsBoolAdv.bool_ret C cmin CInv CFin CAny N Sm Ss Sn smin st lo -> 0 <= lo -> lo <= n ->
         exists r st', bool_advance C cnext cadv cmin lf st n = Ok (r, st') /\
                       SearchersProofsBoolAdv.bool_exact_post C cmin CInv CFin CAny N Sm Ss Sn smin n r st') /\
      (forall st n, b_done st = true ->
         bool_next C cnext cadv cmin lf st = Ok (None, st) /\ bool_advance C cnext cadv cmin lf st n = Ok (None, st)).
Proof. exact SearchersProofsBoolAdv.bool_contract. Qed.
Print Assumptions searcher_spec_boolean.

(* optimised_equal (partial: at the level of the per-segment document sets; the composition
   with the term searcher over the rewritten lists is covered by the correspondence only).
   Full statement: for every tree, run with the unadorned conjunction / disjunction rewrites and
   the conjunction push-down enabled returns the same numbers as with them disabled. *)
Theorem optimised_equal_partial :
  (forall ls x, In x (pnums (inter_seg ls)) <-> ls <> [] /\ forall l, In l ls -> In x (pnums l)) /\
  (forall ls x, In x (pnums (union_seg ls)) <-> exists l, In l ls /\ In x (pnums l)) /\
  (forall (col : list (list posting)) (l : list posting) p,
     In p (filter (fun p => forallb (fun l' => zmem (p_num p) (pnums l')) col) l) <->
     In p l /\ forall l', In l' col -> In (p_num p) (pnums l')).
Proof. exact (conj inter_seg_spec (conj union_seg_spec and_replace_filter_spec)). Qed.
Print Assumptions optimised_equal_partial.

(* the leaf: index/postings.go over several segments.  With offsets 0 = o_0 < o_1 < ... < N and
   per-segment lists of increasing local numbers inside their segment (iters_ok), an iterator
   that is exact from lo (PInv: the numbers visible from its segment offset on are exactly the
   members of S at or above lo, the last number returned lies below lo) answers Next with the least
   member >= lo and Advance n (lo <= n) with the least member >= n — found in the segment
   sort.Search points to or, when that one is exhausted, in a later one — and stays exact from
   that number + 1; after the end was reported (PFin) Advance reports it again. *)
Theorem searcher_spec_postings_leaf_partial :
  forall (offs : list Z) (N : Z),
    (forall it S lo, PInv offs N it S lo ->
       exists r it', pit_next it = Ok (r, it') /\ pit_post offs N S lo r it') /\
    (forall it S lo n, PInv offs N it S lo -> lo <= n ->
       exists r it', pit_advance it n = Ok (r, it') /\ pit_post offs N S n r it') /\
    (forall it S lo n, PFin offs N it S lo -> lo <= n ->
       exists it', pit_advance it n = Ok (None, it') /\ PFin offs N it' S lo).
Proof. exact (fun offs N => conj (pit_next_exact offs N) (conj (pit_advance_exact offs N) (pit_fin_advance offs N))). Qed.
Print Assumptions searcher_spec_postings_leaf_partial.

(* search_exact (DESIGN.md C07), full statement:
     forall sn q, wf_sn sn -> run sn copts_default q = Ok (sem_numbers q sn)
   (no live match missed, no deleted or non-matching document, none twice, in increasing order,
   never Panic / OutOfFuel).
   Proved here for every boolean query whose clauses are term queries — any number of must
   clauses, up to DisjunctionHeapTakeover (10) should and must-not clauses (slice disjunction),
   any minShould >= 0 — over every well-formed snapshot (any number of non-empty segments, any
   pending deletions), with the default options (the "conjunction" push-down of index/optimize.go
   included: every term child then keeps exactly the documents all must clauses hold) and with
   the push-down switched off.  The fuel `run` provides is shown sufficient (the result is Ok).
   Not covered: nested booleans (the Advance of a nested boolean), phrase, multi-term leaves,
   heap disjunctions, match-all, scoring "none" (refuted for min-should: see C08). *)
Theorem search_exact_partial : forall sn musts shoulds nots ms,
  wf_sn sn -> 0 <= ms -> (musts <> [] \/ shoulds <> []) ->
  (length shoulds <= 10)%nat -> (length nots <= 10)%nat ->
  run sn copts_default (flatq musts shoulds nots ms) = Ok (sem_numbers (flatq musts shoulds nots ms) sn).
Proof. exact search_exact_flat_default. Qed.
Print Assumptions search_exact_partial.

Theorem search_exact_pushdown_off_partial : forall sn musts shoulds nots ms,
  wf_sn sn -> 0 <= ms -> (musts <> [] \/ shoulds <> []) ->
  (length shoulds <= 10)%nat -> (length nots <= 10)%nat ->
  run sn copts_plain (flatq musts shoulds nots ms) = Ok (sem_numbers (flatq musts shoulds nots ms) sn).
Proof. exact search_exact_flat. Qed.
Print Assumptions search_exact_pushdown_off_partial.

Example search_exact_hypotheses_hold :
  wf_sn ex_sn /\
  run ex_sn copts_plain (flatq [(0, t_ab)] [(0, t_ba); (0, t_cab)] [(0, [122])] 1) = Ok [0; 2; 3].
Proof. exact search_exact_flat_example. Qed.
Print Assumptions search_exact_hypotheses_hold.

(* searcher_spec at the level of call scripts (DESIGN.md C07: "any interleaving of Next and
   Advance n returns, in strictly increasing order, exactly the docs not yet passed; Advance n
   the least one >= n").  script_ok S lo ops outs spells the expected answers out; the discipline:
   an Advance target lies at or above the watermark (above the last number returned, not below an
   earlier target).  Proved for a term searcher, a conjunction of term searchers and a slice
   disjunction of term searchers (any min) over any well-formed snapshot; the script may run until
   the end is reported.  Full statement: the same for every compiled searcher tree (scripts
   starting with Next). *)
Theorem searcher_spec_partial :
  (forall sn f t lf fuel ops outs,
     wf_sn sn -> script_ok (term_S sn f t) 0 ops outs ->
     run_script lf (S fuel) (term_searcher sn copts_default f t) ops = Ok outs) /\
  (forall sn l lf fuel ops outs,
     wf_sn sn -> l <> [] -> fuel_ok sn (length l) lf ->
     script_ok (conj_S (tdenots sn l)) 0 ops outs ->
     run_script lf (S (S fuel)) (mk_conj (tsearchers sn l)) ops = Ok outs) /\
  (forall sn l k lf fuel ops outs,
     wf_sn sn -> fuel_ok sn O lf ->
     script_ok (disj_S (tdenots sn l) k) 0 ops outs ->
     run_script lf (S (S fuel)) (mk_disj_slice (tsearchers sn l) k) ops = Ok outs).
Proof. exact (conj term_searcher_script (conj conjunction_of_terms_script disjunction_of_terms_script)). Qed.
Print Assumptions searcher_spec_partial.

(* ---- nested trees ---- *)
From Bluge Require Import Search.SearchersProofsTree Search.SearchersProofsGeneral.

(* search_exact for ARBITRARILY NESTED boolean queries: every clause is a term query, match-all,
   match-none or again a boolean query (qok d q: depth at most d, every minShould >= 0, no boolean consisting of
   must-not clauses only — that one compiles to a match-all searcher); any number of must / should /
   must-not clauses (slice disjunctions up to DisjunctionHeapTakeover = 10 clauses, heap
   disjunctions above), over every well-formed snapshot (segments, pending deletions).  The
   compiled tree is driven exactly as the collectors drive it; nested booleans are driven by their
   parents with Next and Advance.  The proof goes through the iterator contract of every node
   (SearchersProofsTree.Cl_good: induction on the depth) including the two places where the
   implementation leaves the forward discipline: a conjunction that ran dry is advanced again and
   re-advances its finished children below the point where they finished (postings iterators then
   restart or return left-over postings of segments they jumped over), and the optional should
   child of a boolean with must clauses is advanced to targets below its cursor.  The fuel `run`
   provides is shown sufficient (the result is Ok).
   Still open (full statement: forall sn q, wf_sn sn -> run sn copts_default q = Ok (sem_numbers q sn)):
   phrase, multi-term (prefix / range / fuzzy ...) and doc-set leaves, a boolean with must-not clauses
   only (match-all as the must searcher itself); the conjunction
   push-down (copts_default) for nested queries — it is proved for flat ones (search_exact_partial). *)
Theorem search_exact_nested_partial : forall sn q d,
  wf_sn sn -> qok d q -> (2 * d + 1 <= depth_fuel q)%nat ->
  run sn copts_plain q = Ok (sem_numbers q sn).
Proof. exact search_exact_nested. Qed.
Print Assumptions search_exact_nested_partial.

Example search_exact_nested_hypotheses_hold :
  wf_sn ex_sn /\ qok 2 ex_nested /\ (2 * 2 + 1 <= depth_fuel ex_nested)%nat /\
  run ex_sn copts_plain ex_nested = Ok [0; 3].
Proof. exact search_exact_nested_example. Qed.
Print Assumptions search_exact_nested_hypotheses_hold.

(* searcher_spec for the compiled tree of every such query: any script of Next / Advance n calls
   that starts with Next (Advance as the first call of a boolean searcher skips the first match of
   its should child: every caller starts with Next) and whose Advance targets lie at or above the
   watermark (above the last number returned, not below an earlier target) returns exactly the
   remaining members of the denotation qS (the live numbers whose document satisfies sem q),
   Advance n the least one >= n, until the end is reported. *)
Theorem searcher_spec_nested_partial : forall sn q d s W lf fuel ops outs,
  wf_sn sn -> qok d q -> compile sn copts_plain q = Ok s ->
  fuel_ok sn W lf -> (swidth s <= W)%nat -> (2 * d + 1 <= fuel)%nat ->
  starts_with_next ops -> script_ok (qS sn q) 0 ops outs ->
  run_script lf fuel s ops = Ok outs.
Proof. exact searcher_spec_nested. Qed.
Print Assumptions searcher_spec_nested_partial.

(* the node-by-node contract behind both: for every depth d the clause-level family Cl d (term
   searcher over index/postings.go, match-all over index/postings_all.go, match-none, booleans over conjunctions / slice and heap disjunctions of depth-(d-1)
   clauses) meets the whole contract for every fuel >= 2 d + 1: exact Next, exact forward Advance,
   a fresh searcher started with Next, the end reported again, and soundness outside the
   discipline (wk_adv / wk_next). *)
Theorem searcher_spec_tree : forall sn, wf_sn sn -> forall W lf, fuel_ok sn W lf ->
  forall d, good lf (Cl sn W d) (2 * d + 1).
Proof. exact Cl_good. Qed.
Print Assumptions searcher_spec_tree.

(* multi_term_spec: the searcher of a multi-term leaf (prefix, range, wildcard, regexp, fuzzy,
   numeric / date range: newMultiTermSearcherInternal) is a slice or heap disjunction with min 0
   over the term searchers of the candidate terms; for EVERY list of candidate terms, any script of
   Next / Advance calls (targets at or above the watermark) returns exactly the remaining numbers
   whose document holds at least one of the terms.  Not proved: that the candidate list computed
   from the dictionary (multi_terms) holds exactly the terms the predicate accepts, and the use
   of such leaves inside nested queries (the leaf family of searcher_spec_tree has terms only). *)
Theorem multi_term_spec_partial : forall sn f ts W lf fuel ops outs,
  wf_sn sn -> fuel_ok sn W lf -> (swidth (multi_term sn copts_plain f ts) <= W)%nat -> (2 <= fuel)%nat ->
  script_ok (multi_S sn f ts) 0 ops outs ->
  run_script lf fuel (multi_term sn copts_plain f ts) ops = Ok outs.
Proof. exact multi_term_spec. Qed.
Print Assumptions multi_term_spec_partial.
