(* Props/C01.v — Batches apply atomically and exactly as the abstract index says.
   Only statements, each closed by `exact`, with Print Assumptions beneath.
   Model: Index/Model.v (M-IDX), monitor: Index/Trace.v; proofs: Index/ModelProofs.v,
   Index/ModelProofsBatch.v, Index/TraceProofs.v. *)
From Coq Require Import ZArith List Bool Permutation Sorting.Sorted.
From Bluge Require Import Base.Res Index.Model Index.Trace Index.ModelProofs Index.ModelProofsBatch
  Index.ModelProofsMerge Index.TraceProofs.
Import ListNotations.
Open Scope Z_scope.

(* 1. introduceSegment computes exactly apply_batch on the live documents: segment order kept,
   emptied segments dropped, the new segment appended; obsoletes may be precomputed (obs) *)
Theorem introduce_refines : forall root b obs newid e,
  root_ok root = true -> obs_sound root b obs = true ->
  abs (introduce_segment root b obs newid e) = apply_batch (abs root) b.
Proof. exact introduce_refines_proof. Qed.
Print Assumptions introduce_refines.

(* the root invariant (deleted sets canonical and in range, distinct ids, no empty segment)
   is kept by introduceSegment *)
Theorem introduce_result_ok : forall root b obs newid e,
  root_ok root = true -> obs_sound root b obs = true -> zmem newid (seg_ids root) = false ->
  root_ok (introduce_segment root b obs newid e) = true.
Proof. exact introduce_result_ok_proof. Qed.
Print Assumptions introduce_result_ok.

(* 2. Count, match-all and lookup-by-id computed on the physical snapshot are those of abs;
   match-all numbers are strictly increasing and equal offset (full sizes of the earlier
   segments) + local number of a document that is not deleted *)
Theorem observables_agree : forall sn,
  (snap_wf sn = true -> snap_count sn = Z.of_nat (length (abs sn))) /\
  map snd (match_all sn) = abs sn /\
  StronglySorted Z.lt (map fst (match_all sn)) /\
  (forall g d, In (g, d) (match_all sn) <->
     exists pre s post n, sn_segs sn = pre ++ s :: post /\ In (n, d) (indexed (ss_docs s)) /\
       zmem n (ss_del s) = false /\ g = full_size pre + n) /\
  (forall id, lookup_id sn id = filter (fun d => doc_id d =? id) (abs sn)).
Proof. exact observables_agree_proof. Qed.
Print Assumptions observables_agree.

(* 3. every accepted root history (batches, persist swaps, merges, in any interleaving): the
   root holds the abstract index; the abstract index is the fold of apply_batch over the
   introduced batches, starting from the loaded content (empty without ELoad) *)
Theorem history_refines : forall evs st,
  accept_run init_state evs = Some st ->
  Permutation (abs (t_root st)) (t_A st) /\
  t_A st = fold_left apply_batch (t_batches st) (loaded evs) /\
  (no_load evs -> t_A st = apply_batches (t_batches st)).
Proof. exact history_refines_proof. Qed.
Print Assumptions history_refines.

(* 4. an id that is only ever updated (every batch carrying it names it and carries it once)
   has at most one live document; the last batch mentioning it decides: 1 if it carries a
   document with that id, 0 if it only deletes *)
Theorem update_only_unique : forall i bs,
  well_behaved i bs ->
  (count_id i (apply_batches bs) <= 1)%nat /\
  (forall pre b post, bs = pre ++ b :: post ->
     (forall b', In b' post -> mentions i b' = false) -> mentions i b = true ->
     (count_id i (b_docs b) <> 0%nat -> count_id i (apply_batches bs) = 1%nat) /\
     (count_id i (b_docs b) = 0%nat -> count_id i (apply_batches bs) = 0%nat)).
Proof. exact update_only_unique_proof. Qed.
Print Assumptions update_only_unique.

(* the property's own exclusion (known finding D6): one id twice in one batch leaves two live
   documents with that id, in the abstract index and in the snapshot *)
Theorem dup_in_batch_refuted :
  exists b i, zmem i (b_ids b) = true /\
    count_id i (apply_batches [b]) = 2%nat /\
    length (lookup_id (introduce_segment (t_root init_state) b [] 1 1) i) = 2%nat.
Proof. exact dup_in_batch_refuted_proof. Qed.
Print Assumptions dup_in_batch_refuted.

(* 5. non-vacuity: three batches (id 2 re-inserted, then a delete-only batch that empties the
   first segment), precomputed obsoletes in non-canonical order *)
Example history3_example :
  root_ok ex_r0 = true /\ obs_sound ex_r0 ex_b1 [] = true /\
  abs ex_r1 = apply_batch (abs ex_r0) ex_b1 /\
  root_ok ex_r1 = true /\ obs_sound ex_r1 ex_b2 ex_obs2 = true /\
  abs ex_r2 = apply_batch (abs ex_r1) ex_b2 /\
  root_ok ex_r2 = true /\ obs_sound ex_r2 ex_b3 ex_obs3 = true /\
  abs ex_r3 = apply_batch (abs ex_r2) ex_b3 /\
  root_ok ex_r3 = true /\
  abs ex_r2 = [(1, 10); (3, 30); (2, 21); (4, 40)] /\
  abs ex_r3 = apply_batches [ex_b1; ex_b2; ex_b3] /\
  abs ex_r3 = [(2, 21); (4, 40)] /\
  seg_ids ex_r3 = [2].
Proof. exact history3_example_proof. Qed.
Print Assumptions history3_example.

Example well_behaved_example :
  well_behaved 2 [ex_b1; ex_b2; ex_b3] /\ count_id 2 (apply_batches [ex_b1; ex_b2; ex_b3]) = 1%nat /\
  well_behaved 1 [ex_b1; ex_b2; ex_b3] /\ count_id 1 (apply_batches [ex_b1; ex_b2; ex_b3]) = 0%nat.
Proof. exact well_behaved_example_proof. Qed.
Print Assumptions well_behaved_example.

(* an accepted history with calls, returns, five introductions, a persist swap, a merge whose
   window contains a delete, and two reader observations *)
Example trace_example :
  no_load tx_trace /\
  exists st, accept_run init_state tx_trace = Some st /\
    t_keys st = [1; 2; 3; 4; 5] /\
    t_batches st = [ex_b1; ex_b2; ex_b3; tx_b4; tx_b5] /\
    seg_ids (t_root st) = [9] /\
    abs (t_root st) = [(2, 21); (5, 50)] /\
    apply_batches (t_batches st) = [(2, 21); (5, 50)].
Proof. exact trace_example_proof. Qed.
Print Assumptions trace_example.
