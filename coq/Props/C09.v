(* Props/C09.v — Top-N, sorting and paging return the right slice of the full ranking.
   Only statements, each closed by `exact`, with Print Assumptions beneath. *)
From Coq Require Import ZArith List.
From Bluge Require Import Base.Res Base.GoSort Gen.ParamsTopN Search.Sort Search.TopN Search.TopNProofs.
Import ListNotations.
Open Scope Z_scope.

(* SortOrder.Compare with the hit-number tie-break is a strict total order on matches with
   distinct hit numbers (sign-antisymmetric, never 0 for different hit numbers, transitive; a 0
   result identifies the two matches for every further comparison) *)
Theorem cmp_total_order : forall descs,
  (forall a b, compare descs b a = - compare descs a b) /\
  (forall a b, h_num a <> h_num b -> compare descs a b <> 0) /\
  (forall a b c, compare descs a b < 0 -> compare descs b c < 0 -> compare descs a c < 0) /\
  (forall a b, compare descs a b = 0 -> h_num a = h_num b /\ forall x, compare descs a x = compare descs b x).
Proof. exact cmp_total_order_all. Qed.
Print Assumptions cmp_total_order.
