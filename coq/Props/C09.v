(* Props/C09.v — Top-N, sorting and paging return the right slice of the full ranking.
   Only statements, each closed by `exact`, with Print Assumptions beneath. *)
From Coq Require Import ZArith List Bool.
From Bluge Require Import Base.Res Base.GoSort Gen.ParamsTopN Search.Sort Search.TopN Search.TopNProofs.
Import ListNotations.
Open Scope Z_scope.

(* SortOrder.Compare with the hit-number tie-break is a strict total order on matches with
   distinct hit numbers (sign-antisymmetric, never 0 for different hit numbers, transitive; a 0
   result identifies the two matches for every further comparison) *)
Theorem cmp_total_order : forall descs,
  (forall a b, compare descs b a = - compare descs a b) /\
  (forall a b, h_num a <> h_num b -> compare descs a b <> 0) /\
  (forall a b c, compare descs a b < 0 -> compare descs b c < 0 -> compare descs a c < 0) /\
  (forall a b, compare descs a b = 0 -> h_num a = h_num b /\ forall x, compare descs a x = compare descs b x).
Proof. exact cmp_total_order_all. Qed.
Print Assumptions cmp_total_order.

(* for every match list, every n >= 0 and from >= 0 (n = 0 and from beyond the result count
   included), every sort order, every consumer of the hits (aggregations): TopNSearch returns
   exactly elements [from, from+n) of the complete ranking = the insertion sort of all matches
   by Compare.  `ranking` does not mention the collector's stores. *)
Theorem topn_slice : forall (B : Type) (consume : hit -> B -> B) n from order aggf b0 hits,
  0 <= n -> 0 <= from ->
  rmap fst (topn_search consume n order (PFrom from) aggf b0 hits) =
  Ok (firstn (Z.to_nat n) (skipn (Z.to_nat from) (ranking order aggf hits))).
Proof. exact @topn_slice_all. Qed.
Print Assumptions topn_slice.

(* the same for a collector started on either store, whatever the switch threshold says *)
Theorem topn_slice_store_independent : forall (B : Type) (consume : hit -> B -> B) c b0 hits,
  (c_store c = SSlice [] \/ c_store c = SHeap []) -> c_lowest c = None ->
  c_after c = None -> c_reverse c = false ->
  fst (collect consume c b0 hits) =
  skipn (c_skip c) (firstn (c_cap c) (isort (compare (descs_of (c_order c))) (prepare_all (c_needed c) (c_order c) 0 hits))).
Proof. exact @topn_slice_both_stores. Qed.
Print Assumptions topn_slice_store_independent.

(* the slice is non-trivial and the two stores are really both exercised around the threshold *)
Example topn_slice_nonvacuous :
  rmap (fun r => map h_doc (fst r)) (topn_search (fun _ (b : unit) => b) 7 ex_order1 (PFrom 3) [] tt ex12)
    = Ok [103; 108; 101; 106; 111; 104; 109] /\
  rmap (fun r => map h_doc (fst r)) (topn_search (fun _ (b : unit) => b) 8 ex_order1 (PFrom 3) [] tt ex12)
    = Ok [103; 108; 101; 106; 111; 104; 109; 102] /\
  new_store 10 = SSlice [] /\ new_store 11 = SHeap [].
Proof. exact topn_slice_ex. Qed.
Print Assumptions topn_slice_nonvacuous.

(* topn_slice quantifies over all n and from, so it holds in particular when from + n exceeds
   PreAllocSizeSkipCap (Gen.ParamsTopN.prealloc_size_skip_cap, read from the source on every run):
   that constant only caps the capacity passed to make() (TopN.backing_size) and is read nowhere
   else in the model.  Concretely, with 1100 tied matches the page [995, 1005) is complete and a
   request for 1101 hits returns all 1100. *)
Example topn_slice_beyond_prealloc_cap :
  (prealloc_size_skip_cap <? 995 + 10) = true /\
  rmap (fun r => map h_doc (fst r)) (topn_search (fun _ (b : unit) => b) 10 ex_order1 (PFrom 995) [] tt exdeep)
    = Ok [370; 377; 384; 391; 398; 405; 412; 419; 426; 433] /\
  rmap (fun r => length (fst r)) (topn_search (fun _ (b : unit) => b) 1101 ex_order1 (PFrom 0) [] tt exdeep) = Ok 1100%nat.
Proof. exact topn_slice_deep_ex. Qed.
Print Assumptions topn_slice_beyond_prealloc_cap.

(* in every state reached after the hits P (inv), a hit rejected by the bound
   lowestMatchOutsideResults is not among the best k of P ++ [d], and those are unchanged *)
Theorem lowest_outside_sound : forall descs k sl P d,
  inv descs k sl P -> nodup_nums (P ++ [d]) ->
  match snd sl with Some lo => 0 <=? compare descs d lo | None => false end = true ->
  ~ In d (firstn k (isort (compare descs) (P ++ [d]))) /\
  firstn k (isort (compare descs) (P ++ [d])) = firstn k (isort (compare descs) P).
Proof. exact lowest_outside_sound_all. Qed.
Print Assumptions lowest_outside_sound.

(* the invariant `inv` is the one every run of Collect maintains *)
Theorem collector_invariant : forall (B : Type) (consume : hit -> B -> B) c b hits,
  (c_store c = SSlice [] \/ c_store c = SHeap []) -> c_lowest c = None ->
  let c' := fst (collect_loop consume c b 0 hits) in
  inv (descs_of (c_order c)) (c_cap c) (c_store c', c_lowest c') (kept c 0 hits).
Proof. exact @collect_loop_inv. Qed.
Print Assumptions collector_invariant.

Example lowest_outside_nonvacuous :
  let descs := [false] in
  let mk n k := {| h_num := n; h_raw := dummy_raw; h_dv := []; h_sort := [[k]] |} in
  let P := [mk 1 5; mk 2 3; mk 3 9] in
  let sl := fold_left (core_step descs 2) P (SSlice [], None) in
  snd sl = Some (mk 3 9) /\ (0 <=? compare descs (mk 4 9) (mk 3 9)) = true /\
  map h_num (store_elems (fst sl)) = [2; 1].
Proof. exact lowest_outside_ex. Qed.
Print Assumptions lowest_outside_nonvacuous.

(* for a present key strictly between lowTerm and highTerm (the generated constants), a hit
   without a value compares before it under MissingFirst and after it otherwise, asc and desc *)
Theorem missing_placement : forall s hm hp v,
  primary_value (s_src s) hm = None -> primary_value (s_src s) hp = Some v ->
  bcmp low_term v < 0 -> bcmp v high_term < 0 ->
  (s_first s = true -> cmp_component (s_desc s) (sort_value s hm) (sort_value s hp) < 0) /\
  (s_first s = false -> cmp_component (s_desc s) (sort_value s hm) (sort_value s hp) > 0).
Proof. exact missing_placement_all. Qed.
Print Assumptions missing_placement.

(* without the interval hypothesis the statement is false: an empty key (empty keyword) with
   MissingFirst ascending places the missing hit after it.  Replayed on the implementation:
   KNOWN_FINDINGS C09-sentinel-collision. *)
Theorem missing_placement_outside_interval_refuted :
  exists s hm hp v,
    primary_value (s_src s) hm = None /\ primary_value (s_src s) hp = Some v /\
    s_first s = true /\ s_desc s = false /\
    cmp_component (s_desc s) (sort_value s hm) (sort_value s hp) > 0.
Proof. exact missing_placement_outside_refuted. Qed.
Print Assumptions missing_placement_outside_interval_refuted.

(* After(key) with a key of full length returns the first n hits of the ranking of the hits
   whose sort key is strictly after `key` *)
Theorem after_page : forall (B : Type) (consume : hit -> B -> B) n order key aggf b0 hits,
  0 <= n -> (length order <= length key)%nat ->
  rmap fst (topn_search consume n order (PAfter key) aggf b0 hits) =
  Ok (firstn (Z.to_nat n)
        (isort (compare (descs_of order))
           (filter (after_key (descs_of order) key) (prepare_all (order_fields order ++ aggf) order 0 hits)))).
Proof. exact @after_page_all. Qed.
Print Assumptions after_page.

(* Before(key), under a sort order whose keys distinguish all matches: the LAST n hits of the
   forward ranking among those strictly before `key`, returned in forward order *)
Theorem before_page : forall (B : Type) (consume : hit -> B -> B) n order key aggf b0 hits,
  0 <= n -> (length order <= length key)%nat ->
  keys_distinct (descs_of order) (prepare_all (order_fields order ++ aggf) order 0 hits) ->
  rmap fst (topn_search consume n order (PBefore key) aggf b0 hits) =
  Ok (lastn (Z.to_nat n) (filter (before_key (descs_of order) key) (ranking order aggf hits))).
Proof. exact @before_page_full. Qed.
Print Assumptions before_page.

(* without the distinguishing hypothesis (ties are broken by ascending hit number in both
   directions): the reverse of the first n, under the reversed comparison, of the hits before `key` *)
Theorem before_page_general : forall (B : Type) (consume : hit -> B -> B) n order key aggf b0 hits,
  0 <= n -> (length order <= length key)%nat ->
  rmap fst (topn_search consume n order (PBefore key) aggf b0 hits) =
  Ok (rev (firstn (Z.to_nat n)
        (isort (compare (map negb (descs_of order)))
           (filter (fun d => cmp_keys (descs_of order) (h_sort d) key <? 0)
                   (prepare_all (order_fields order ++ aggf) order 0 hits))))).
Proof. exact @before_page_all. Qed.
Print Assumptions before_page_general.

(* paging_covers: any page size n > 0, an order whose keys distinguish all matches: the first
   page followed by After(last sort value) pages until an empty page is exactly the complete
   ranking: every match once, in order.  (The fuel |hits| + 1 suffices: never OutOfFuel.)
   The Before chain is paging_covers_before below. *)
Theorem paging_covers : forall (B : Type) (consume : hit -> B -> B) n order aggf b0 hits,
  0 < n ->
  keys_distinct (descs_of order) (prepare_all (order_fields order ++ aggf) order 0 hits) ->
  after_chain consume (S (length hits)) n order aggf b0 hits (PFrom 0) = Ok (ranking order aggf hits).
Proof. exact @paging_covers_after. Qed.
Print Assumptions paging_covers.

(* the hypotheses are satisfiable: pages of 5 over twelve hits with tied first keys and a unique
   second key (keys pairwise distinct, checked by computation) *)
Example paging_covers_nonvacuous :
  rmap (map h_doc) (after_chain (fun _ (b : unit) => b) 13 5 ex_order2 [] tt ex12u (PFrom 0))
    = Ok [110; 105; 100; 108; 103; 111; 106; 101; 109; 104; 107; 102] /\
  keys_distinctb (descs_of ex_order2) (prepare_all (order_fields ex_order2) ex_order2 0 ex12u) = true.
Proof. exact paging_covers_ex. Qed.
Print Assumptions paging_covers_nonvacuous.

(* paging_covers_before: any page size n > 0, an order whose keys distinguish all matches, x any
   hit of the ranking (ranking = pre ++ x :: suf; in particular the last hit, suf = []): chained
   Before(sort value of x), Before(sort value of the first hit of the previous page), ... until an
   empty page, the pages prepended, is exactly pre: every match in front of x once, in ranking
   order, each page in forward order.  Fuel |hits| suffices: never OutOfFuel. *)
Theorem paging_covers_before : forall (B : Type) (consume : hit -> B -> B) n order aggf b0 hits,
  0 < n ->
  keys_distinct (descs_of order) (prepare_all (order_fields order ++ aggf) order 0 hits) ->
  forall pre x suf, ranking order aggf hits = pre ++ x :: suf ->
  before_chain consume (length hits) n order aggf b0 hits (h_sort x) = Ok pre.
Proof. exact @paging_covers_before_all. Qed.
Print Assumptions paging_covers_before.

(* non-vacuous: pages of 5 backwards from the last of the twelve hits of ex12u *)
Example paging_covers_before_nonvacuous :
  rmap (map h_doc) (before_chain (fun _ (b : unit) => b) 12 5 ex_order2 [] tt ex12u [[4]; [2]])
    = Ok [110; 105; 100; 108; 103; 111; 106; 101; 109; 104; 107] /\
  map h_doc (ranking ex_order2 [] ex12u) = [110; 105; 100; 108; 103; 111; 106; 101; 109; 104; 107; 102] /\
  map h_sort (skipn 11 (ranking ex_order2 [] ex12u)) = [[[4]; [2]]].
Proof. exact paging_covers_before_ex. Qed.
Print Assumptions paging_covers_before_nonvacuous.
