(* Props/C13.v — The file-system directory reports success only for durable, exact files.
   Only statements, each closed by `exact`, with Print Assumptions beneath.
   `persist` = the model of FileSystemDirectory.Persist (Index/FsDir.v) run over the step list,
   cleanup list and open flags that T-gen reads from index/directory_fs.go on every run. *)
From Coq Require Import ZArith List Bool.
From Bluge Require Import Base.Res Gen.ParamsFsDir Index.FsDir Index.FsDirProofs.
Import ListNotations.
Open Scope Z_scope.

(* success => the file holds exactly the bytes written, for every prior state (absent, shorter,
   equal, LONGER), every chunk list, both item kinds (the kind only chooses the name) *)
Theorem persist_ok_exact : forall (pre : option (list Z)) (chunks : list (list Z)) (fl : failure),
  pr_err (persist pre chunks fl) = false ->
  exists f, pr_file (persist pre chunks fl) = Some f /\ fi_content f = concat chunks.
Proof. exact persist_ok_exact_all. Qed.
Print Assumptions persist_ok_exact.

(* success => what fsync made durable is the whole content, and in the sequence of operations
   an fsync comes after the last write/truncate and before the return *)
Theorem persist_ok_synced : forall (pre : option (list Z)) (chunks : list (list Z)) (fl : failure),
  pr_err (persist pre chunks fl) = false ->
  (exists f, pr_file (persist pre chunks fl) = Some f /\ fi_synced f = fi_content f) /\
  fsync_after_last_write (pr_trace (persist pre chunks fl)) = true.
Proof. exact persist_ok_synced_all. Qed.
Print Assumptions persist_ok_synced.

(* failure or cancellation at any point => nothing is left under the item's name; the only
   exception is a failure to open/lock the file, which leaves a pre-existing file untouched *)
Theorem persist_err_clean : forall (pre : option (list Z)) (chunks : list (list Z)) (fl : failure),
  pr_err (persist pre chunks fl) = true ->
  (fl = FailOpen /\ pr_file (persist pre chunks fl) = untouched pre) \/
  (fl <> FailOpen /\ pr_file (persist pre chunks fl) = None).
Proof. exact persist_err_clean_all. Qed.
Print Assumptions persist_err_clean.

(* every failing step is reported (no error is swallowed), and a fault-free call succeeds *)
Theorem persist_fail_reported : forall pre chunks fl, fl <> NoFail -> pr_err (persist pre chunks fl) = true.
Proof. exact persist_fail_reported_all. Qed.
Print Assumptions persist_fail_reported.

Theorem persist_nofail_ok : forall pre chunks, pr_err (persist pre chunks NoFail) = false.
Proof. exact persist_nofail_ok_all. Qed.
Print Assumptions persist_nofail_ok.

(* the step list of the pinned tree (no truncation, flags O_CREATE|O_RDWR) refutes exactness:
   defect D1, repaired by the Truncate step *)
Theorem persist_exact_refuted_without_truncate :
  exists pre chunks,
    let r := persist_with pinned_steps [5; 6] 66 (-1) pre chunks NoFail in
    pr_err r = false /\ exists f, pr_file r = Some f /\ fi_content f <> concat chunks.
Proof. exact persist_exact_refuted_pinned. Qed.
Print Assumptions persist_exact_refuted_without_truncate.

(* ... and it is the flag set that decides: the same step list is exact under O_TRUNC *)
Theorem persist_exact_with_otrunc : forall flags pre chunks,
  flag flags o_creat = true -> flag flags o_trunc = true ->
  flag flags o_excl = false -> flag flags o_append = false ->
  let r := persist_with pinned_steps [5; 6] flags (-1) pre chunks NoFail in
  pr_err r = false /\ exists f, pr_file r = Some f /\ fi_content f = concat chunks.
Proof. exact persist_exact_otrunc. Qed.
Print Assumptions persist_exact_with_otrunc.

(* hypotheses above are satisfiable on non-trivial instances *)
Example persist_ok_instance :
  pr_err (persist (Some [9; 9; 9; 9; 9; 9]) [[1]; [2; 3]] NoFail) = false /\
  option_map fi_content (pr_file (persist (Some [9; 9; 9; 9; 9; 9]) [[1]; [2; 3]] NoFail)) = Some [1; 2; 3].
Proof. exact persist_ok_example. Qed.
Print Assumptions persist_ok_instance.

Example persist_err_instance :
  pr_err (persist (Some [9; 9]) [[1]; [2; 3]] (FailWrite 2)) = true /\
  pr_file (persist (Some [9; 9]) [[1]; [2; 3]] (FailWrite 2)) = None.
Proof. exact persist_err_example. Qed.
Print Assumptions persist_err_instance.
