(* Props/C02.v — An acknowledged batch survives any later crash.
   Only statements, each closed by `exact`, with Print Assumptions beneath.
   Model: Index/Proto.v — the monitor paccept_ev / paccept_run over complete recorded runs of a writer
   (root history of Index/Trace.v + directory persist/remove events + persister grab + acknowledgements),
   crash images (crash_image: the complete files + a torn variant of every file in flight) and the
   recovery model (recover_writer = loadSnapshots of OpenWriter, recover_reader = OpenReader).
   Proofs: Index/ProtoProofsInv.v (invariant pinv), ProtoProofsRec.v (recovery in closed form,
   start_ok), ProtoProofsThm.v, ProtoProofsEx.v.
   no_collision table flies choice: no torn variant considered (prefix / zero-filled) of a snapshot in
   flight loads — a fact about CRC-32 and the bytes that no theorem can provide; the engine evaluates it
   on every image it materialises.
   content_at st m = the abstract index after the first m batches of the run, on top of the content the
   writer was opened on; n_intro st = number of batches introduced. *)
From Coq Require Import ZArith List Bool.
From Bluge Require Import Base.Res Index.Model Index.Trace Index.Proto Index.ProtoProofsPol Index.ProtoProofsInv
  Index.ProtoProofsRec Index.ProtoProofsThm Index.ProtoProofsEx.
Import ListNotations.
Open Scope Z_scope.

(* the invariant holds in every state of every accepted run from a well-formed start *)
Theorem run_invariant : forall table n st0 evs st,
  start_ok table n st0 -> paccept_run table st0 evs = Some st -> pinv table st.
Proof. exact run_pinv. Qed.
Print Assumptions run_invariant.

(* 1. PAck k true is accepted only when a complete snapshot file of this run, recorded for an epoch
   whose root held more than pos(k) batches, is on disk; its bytes parse to its segment list, every
   segment it names is a complete segment file, and its content is the abstract index after n batches *)
Theorem ack_after_snapshot_complete : forall table st k st',
  pinv table st -> paccept_ev table st (PAck k true) = Some st' ->
  exists pos e f n,
    pos_of k (t_keys (ps_t st)) = Some pos /\
    In (e, f) (d_snp (ps_disk st)) /\ lookup e (ps_epoch_n st) = Some n /\ (pos < n <= n_intro st)%nat /\
    loaded_ids table (sf_bytes f) = Some (map fst (sf_segs f)) /\
    (forall s, In s (map fst (sf_segs f)) -> In s (d_seg (ps_disk st))) /\
    (exists c, segs_content (ps_segdocs st) (sf_segs f) = Some c /\ same_docs c (content_at st n) = true).
Proof. exact ack_after_snapshot_complete_proof. Qed.
Print Assumptions ack_after_snapshot_complete.

(* 2. for every accepted run that contains an accepted PAck k true, and every crash instant at or
   after it (the run up to the crash is evs1 ++ PAck k true :: evs2; prefixes of accepted runs are
   accepted runs), for every torn variant of the files in flight: OpenWriter succeeds (never an error,
   never a fresh index, never outside the model), OpenReader opens the same snapshot, and its content
   is the abstract index after m batches with pos(k) < m <= n_intro *)
Theorem ack_implies_durable : forall table n st0, start_ok table n st0 ->
  forall evs1 k evs2 st2 choice,
  paccept_run table st0 (evs1 ++ PAck k true :: evs2) = Some st2 ->
  no_collision table (d_fly (ps_disk st2)) choice = true ->
  let im := crash_image (ps_disk st2) choice in
  exists r pos m c,
    recover_writer table n im = RecOk r /\
    recover_reader table im = Some (Some (r_epoch r, r_segs r)) /\
    pos_of k (t_keys (ps_t st2)) = Some pos /\ (pos < m <= n_intro st2)%nat /\
    segs_content (ps_segdocs st2) (r_segs r) = Some c /\ same_docs c (content_at st2 m) = true.
Proof. exact ack_implies_durable_proof. Qed.
Print Assumptions ack_implies_durable.

(* 3. every accepted PGrab e nacks took the current root and exactly the acknowledgements pending:
   the safe batches marked since the previous grab (pending_from [] evs1), all of them batches of the
   grabbed root (pos < n_intro, the count recorded for epoch e).  Hence the acknowledgements a persist
   round releases cover exactly batches of the grabbed root: as soon as a complete snapshot file of
   this run with an epoch >= e is on disk, each of them may be acknowledged (covered) *)
Theorem grab_atomic : forall table n st0 evs1 e nacks evs2 st,
  start_ok table n st0 ->
  paccept_run table st0 (evs1 ++ PGrab e nacks :: evs2) = Some st ->
  exists st1, paccept_run table st0 evs1 = Some st1 /\
    e = sn_epoch (t_root (ps_t st1)) /\
    nacks = Z.of_nat (length (ps_safe st1)) /\
    ps_safe st1 = pending_from [] evs1 /\ NoDup (ps_safe st1) /\
    (forall k, In k (ps_safe st1) -> exists pos, pos_of k (t_keys (ps_t st1)) = Some pos /\ (pos < n_intro st1)%nat) /\
    (ps_epoch_n st1 <> [] -> lookup e (ps_epoch_n st1) = Some (n_intro st1)) /\
    (forall e' f' n', In (e', f') (d_snp (ps_disk st)) -> lookup e' (ps_epoch_n st) = Some n' -> e <= e' ->
       forall k, In k (ps_safe st1) ->
         exists pos, pos_of k (t_keys (ps_t st)) = Some pos /\ covered st pos = true).
Proof. exact grab_atomic_proof. Qed.
Print Assumptions grab_atomic.

(* 4. a concrete accepted run: two safe batches; segment 1, then snapshot 1, then the acknowledgement
   of batch 1; segment 2; the machine dies while snapshot 2 is being written *)
Example ack_durable_example :
    start_ok [] 1 (st_fresh 1) /\ paccept_run [] (st_fresh 1) ex_run = Some ex_st /\
    In (PAck 1 true) ex_run /\ n_intro ex_st = 2%nat /\ length (d_fly (ps_disk ex_st)) = 1%nat /\
    no_collision [] (d_fly (ps_disk ex_st)) [TPrefix 5] = true /\
    (exists r, recover_writer [] 1 (crash_image (ps_disk ex_st) [TPrefix 5]) = RecOk r /\ r_epoch r = 1 /\
               segs_content (ps_segdocs ex_st) (r_segs r) = Some [(1, 10)] /\ content_at ex_st 1 = [(1, 10)]) /\
    recover_reader [] (crash_image (ps_disk ex_st) [TPrefix 5]) = Some (Some (1, [(1, [])])) /\
    no_collision [] (d_fly (ps_disk ex_st)) [TZeros] = true /\
    recover_reader [] (crash_image (ps_disk ex_st) [TZeros]) = Some (Some (1, [(1, [])])) /\
    recover_reader [] (crash_image (ps_disk ex_st) [TAbsent]) = Some (Some (1, [(1, [])])) /\
    (exists r, recover_writer [] 1 (crash_image (ps_disk ex_st) [TFull]) = RecOk r /\ r_epoch r = 2 /\
               segs_content (ps_segdocs ex_st) (r_segs r) = Some [(1, 10); (2, 20)] /\
               content_at ex_st 2 = [(1, 10); (2, 20)]).
Proof. exact ack_durable_example_proof. Qed.
Print Assumptions ack_durable_example.

(* the conditions added to the monitor for these theorems reject what they are meant to reject *)
Example monitor_rejects :
  paccept_run [] (st_fresh 1) (ex_run ++ [PPersistStart true 2 ex_bytes2 [(1, []); (2, [])]]) = None /\
  paccept_run [] (st_fresh 1) (ex_run ++ [PPersistStart false 2 [] []]) = None /\
  paccept_run [] (st_fresh 1) (ex_run ++ [PAck 2 true]) = None /\
  paccept_run [] (st_fresh 1) [PI (ELoad ex_r1)] = None /\
  paccept_run [] (st_fresh 1) (firstn 9 ex_run ++ [PRemoveOk false 1]) = None.
Proof. exact monitor_rejects_proof. Qed.
Print Assumptions monitor_rejects.
