(* Props/C10.v — Numeric encoding preserves order; range decomposition is exact.
   Only statements, each closed by `exact`, with Print Assumptions beneath. *)
From Coq Require Import ZArith List.
From Bluge Require Import Base.Int64 Base.Res Gen.ParamsNumeric Search.Numeric Search.NumericProofs.
Import ListNotations.
Open Scope Z_scope.

(* every one of the 2^64 float64 bit patterns round-trips through the sortable int64 *)
Theorem f2i_roundtrip : forall b, in_uint64 b -> i2f (f2i b) = b.
Proof. exact f2i_roundtrip_all. Qed.
Print Assumptions f2i_roundtrip.

Theorem i2f_roundtrip : forall i, in_int64 i -> f2i (i2f i) = i.
Proof. exact i2f_roundtrip_all. Qed.
Print Assumptions i2f_roundtrip.

(* order embedding: a sorts before b in the IEEE sign/magnitude order (with -0 < +0)
   exactly when the sortable integers compare that way *)
Theorem f2i_order : forall a b, in_uint64 a -> in_uint64 b -> (float_lt a b <-> f2i a < f2i b).
Proof. exact f2i_order_all. Qed.
Print Assumptions f2i_order.

Theorem f2i_zero_adjacent : f2i two63 = -1 /\ f2i 0 = 0.
Proof. exact f2i_zeros. Qed.
Print Assumptions f2i_zero_adjacent.
