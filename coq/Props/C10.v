(* Props/C10.v — Numeric encoding preserves order; range decomposition is exact.
   Only statements, each closed by `exact`, with Print Assumptions beneath. *)
From Coq Require Import ZArith List Bool Sorted.
From Bluge Require Import Base.Int64 Base.NumBits Base.Res Gen.ParamsNumeric Search.Numeric Search.NumericProofs
  Search.NumericPrefix Search.NumericSplit Search.NumericEnum Search.NumericRange Search.NumericBin
  Search.NumericExamples Search.NumericFloat Search.NumericSource Search.NumericSourceProofs Search.NumericPipeline.
From Coq Require Import SpecFloat Rdefinitions.
From Flocq Require IEEE754.Binary IEEE754.Bits.
Import Flocq.IEEE754.Binary Flocq.IEEE754.Bits.
Import ListNotations.
Open Scope Z_scope.

(* ---------- float64 <-> sortable int64 (numeric/float.go) ---------- *)

(* every one of the 2^64 float64 bit patterns round-trips through the sortable int64 *)
Theorem f2i_roundtrip : forall b, in_uint64 b -> i2f (f2i b) = b.
Proof. exact f2i_roundtrip_all. Qed.
Print Assumptions f2i_roundtrip.

Theorem i2f_roundtrip : forall i, in_int64 i -> f2i (i2f i) = i.
Proof. exact i2f_roundtrip_all. Qed.
Print Assumptions i2f_roundtrip.

(* order embedding: a sorts before b in the IEEE sign/magnitude order (with -0 < +0)
   exactly when the sortable integers compare that way *)
Theorem f2i_order : forall a b, in_uint64 a -> in_uint64 b -> (float_lt a b <-> f2i a < f2i b).
Proof. exact f2i_order_all. Qed.
Print Assumptions f2i_order.

Theorem f2i_zero_adjacent : f2i two63 = -1 /\ f2i 0 = 0.
Proof. exact f2i_zeros. Qed.
Print Assumptions f2i_zero_adjacent.

(* link to IEEE-754 as formalised by Flocq (stretch goal; these four theorems depend on the axioms of
   Coq's classical real numbers used throughout Flocq, the last one also on Coq's axiomatised
   specification of primitive floats -- see the Print Assumptions output): for finite patterns that
   are not both zeros, the binary64 comparison / the order of the denoted real numbers / the
   hardware `<` is the order of the sortable integers *)
Theorem f2i_order_flocq : forall a b, in_uint64 a -> in_uint64 b -> finite a -> finite b ->
  ~ (is_zero_pattern a /\ is_zero_pattern b) ->
  Bcompare 53 1024 (b64_of_bits a) (b64_of_bits b) = Some (Z.compare (f2i a) (f2i b)).
Proof. exact f2i_order_flocq_all. Qed.
Print Assumptions f2i_order_flocq.

(* -0 and +0: equal for IEEE, adjacent (f2i_zero_adjacent) for the encoding *)
Theorem f2i_order_flocq_both_zero : forall a b, in_uint64 a -> in_uint64 b ->
  is_zero_pattern a -> is_zero_pattern b ->
  Bcompare 53 1024 (b64_of_bits a) (b64_of_bits b) = Some Eq.
Proof. exact f2i_order_flocq_zeros. Qed.
Print Assumptions f2i_order_flocq_both_zero.

Theorem float_lt_is_real_order : forall a b, in_uint64 a -> in_uint64 b -> finite a -> finite b ->
  ~ (is_zero_pattern a /\ is_zero_pattern b) ->
  (float_lt a b <-> (B2R 53 1024 (b64_of_bits a) < B2R 53 1024 (b64_of_bits b))%R).
Proof. exact float_lt_real_all. Qed.
Print Assumptions float_lt_is_real_order.

Theorem f2i_order_primfloat : forall a b, in_uint64 a -> in_uint64 b -> finite a -> finite b ->
  ~ (is_zero_pattern a /\ is_zero_pattern b) ->
  PrimFloat.ltb (prim_of_bits a) (prim_of_bits b) = (f2i a <? f2i b).
Proof. exact f2i_order_prim_all. Qed.
Print Assumptions f2i_order_primfloat.

Example f2i_order_flocq_example :
  in_uint64 bits_1_5 /\ in_uint64 bits_3_0 /\ finite bits_1_5 /\ finite bits_3_0 /\
  ~ (is_zero_pattern bits_1_5 /\ is_zero_pattern bits_3_0) /\
  Z.compare (f2i bits_1_5) (f2i bits_3_0) = Lt.
Proof. exact ex_f2i_order_flocq. Qed.
Print Assumptions f2i_order_flocq_example.

(* ---------- prefix coding (numeric/prefix_coded.go) ---------- *)

(* NewPrefixCodedInt64(v, 0) succeeds and Int64() decodes it back to v; a shift-s term (s <= 62)
   decodes to v with its low s bits cleared; a shift-63 term is rejected by Shift() (`shift < 63`) *)
Theorem prefix_roundtrip : forall v, in_int64 v ->
  (exists p, prefix_coded v 0 = Some p) /\
  (forall p, prefix_coded v 0 = Some p -> pc_int64 p = Some v) /\
  (forall s p, 0 <= s <= 62 -> prefix_coded v s = Some p -> pc_int64 p = Some (Z.ldiff v (Z.ones s))) /\
  (forall p, prefix_coded v 63 = Some p -> pc_int64 p = None).
Proof. exact prefix_roundtrip_all. Qed.
Print Assumptions prefix_roundtrip.

Example prefix_roundtrip_example :
  in_int64 (-123456789) /\
  (exists p, prefix_coded (-123456789) 0 = Some p /\ pc_int64 p = Some (-123456789)) /\
  (exists p, prefix_coded (-123456789) 12 = Some p /\ pc_int64 p = Some (-123457536) /\
             Z.ldiff (-123456789) (Z.ones 12) = -123457536).
Proof. exact ex_prefix_roundtrip. Qed.
Print Assumptions prefix_roundtrip_example.

(* at every shift 0..63: equal lengths, and bytes.Compare of two terms = comparison of the
   sortable values (v + 2^63) truncated by the shift *)
Theorem prefix_order : forall s a b pa pb, 0 <= s <= 63 -> in_int64 a -> in_int64 b ->
  prefix_coded a s = Some pa -> prefix_coded b s = Some pb ->
  bytes_cmp pa pb = Z.compare ((a + 2 ^ 63) / 2 ^ s) ((b + 2 ^ 63) / 2 ^ s) /\ length pa = length pb.
Proof. exact prefix_order_all. Qed.
Print Assumptions prefix_order.

(* shift 0: bytewise order = numeric order *)
Theorem prefix_order_numeric : forall a b pa pb, in_int64 a -> in_int64 b ->
  prefix_coded a 0 = Some pa -> prefix_coded b 0 = Some pb -> bytes_cmp pa pb = Z.compare a b.
Proof. exact prefix_order_shift0. Qed.
Print Assumptions prefix_order_numeric.

Example prefix_order_example :
  in_int64 (-5) /\ in_int64 300 /\ in_int64 303 /\
  (exists pa pb pc, prefix_coded (-5) 4 = Some pa /\ prefix_coded 300 4 = Some pb /\ prefix_coded 303 4 = Some pc /\
     bytes_cmp pa pb = Lt /\ bytes_cmp pb pc = Eq /\ length pa = 10%nat).
Proof. exact ex_prefix_order. Qed.
Print Assumptions prefix_order_example.

(* every image of NewPrefixCodedInt64 is accepted by ValidPrefixCodedTermBytes, with its shift *)
Theorem valid_prefix_coded_images : forall v s p, in_int64 v -> 0 <= s <= 63 ->
  prefix_coded v s = Some p -> valid_prefix_coded p = (true, s).
Proof. exact valid_prefix_coded_images_all. Qed.
Print Assumptions valid_prefix_coded_images.

(* exactly what it accepts: first byte in [0x20, 0x20+63] and the length belonging to that shift *)
Theorem valid_prefix_coded_accepts : forall p s,
  valid_prefix_coded p = (true, s) <->
  exists b rest, p = b :: rest /\ shift_start_int64 <= b <= shift_start_int64 + 63 /\
                 s = b - shift_start_int64 /\ Z.of_nat (length p) = n_chars s + 1.
Proof. exact valid_prefix_coded_spec. Qed.
Print Assumptions valid_prefix_coded_accepts.

(* it does NOT check that the remaining bytes are 7-bit digits: "accepts exactly the images"
   (DESIGN.md C10) is refuted by 0x20 followed by ten 0xff bytes *)
Theorem valid_prefix_coded_exact_refuted :
  exists p, valid_prefix_coded p = (true, 0) /\ forall v s, prefix_coded v s <> Some p.
Proof. exact valid_prefix_coded_exact_refuted_all. Qed.
Print Assumptions valid_prefix_coded_exact_refuted.

(* the bytes after the header of every term are 7-bit digits (so the byte strings with a byte >= 0x80
   that Enumerate walks through are never terms of a numeric field) *)
Theorem prefix_coded_bytes_7bit : forall v s p,
  prefix_coded v s = Some p -> Forall (fun d => 0 <= d < 128) (tl p).
Proof. exact prefix_coded_7bit. Qed.
Print Assumptions prefix_coded_bytes_7bit.

Example valid_prefix_coded_example :
  exists p, prefix_coded 77 8 = Some p /\ valid_prefix_coded p = (true, 8) /\ length p = 9%nat.
Proof. exact ex_valid_prefix_coded. Qed.
Print Assumptions valid_prefix_coded_example.

(* ---------- index-time tokens (field.go numericAnalyzer / addShiftTokens) ---------- *)

Theorem index_tokens_are_prefix_codes : forall v, in_int64 v ->
  map Some (index_tokens v numeric_precision_step)
  = map (prefix_coded v) [0; 4; 8; 12; 16; 20; 24; 28; 32; 36; 40; 44; 48; 52; 56; 60].
Proof. exact index_tokens_prefix_coded. Qed.
Print Assumptions index_tokens_are_prefix_codes.

(* datetime fields use the same shifts; geo point fields index the Morton hash at shifts 0, 9, ..., 63 *)
Theorem index_tokens_datetime_same : forall v,
  index_tokens v datetime_precision_step = index_tokens v numeric_precision_step.
Proof. exact index_tokens_datetime. Qed.
Print Assumptions index_tokens_datetime_same.

Theorem index_tokens_geo_are_prefix_codes : forall v, in_int64 v ->
  map Some (index_tokens v geo_precision_step) = map (prefix_coded v) [0; 9; 18; 27; 36; 45; 54; 63].
Proof. exact index_tokens_geo. Qed.
Print Assumptions index_tokens_geo_are_prefix_codes.

(* query-time step = index-time steps, over the regenerated constants *)
Theorem index_query_steps_agree :
  query_precision_step = numeric_precision_step /\ query_precision_step = datetime_precision_step.
Proof. exact steps_agree. Qed.
Print Assumptions index_query_steps_agree.

(* ---------- splitInt64Range (search_numeric_range.go:141-188) ---------- *)

(* never out of fuel, never panics; 16 iterations suffice *)
Theorem split_fuel : forall lo hi, in_int64 lo -> in_int64 hi ->
  split_range lo hi query_precision_step <> OutOfFuel /\
  (forall c, split_range lo hi query_precision_step <> Panic c) /\
  (lo <= hi -> split_loop 16 lo hi 0 query_precision_step [] = split_range lo hi query_precision_step).
Proof. exact split_fuel_all. Qed.
Print Assumptions split_fuel.

(* THE decomposition is exact, for all 2^128 intervals and all 2^64 values: some emitted range
   contains some index token of v (same length, bytewise between its two terms) iff lo <= v <= hi *)
Theorem split_exact : forall lo hi, in_int64 lo -> in_int64 hi ->
  exists rs, split_range lo hi query_precision_step = Ok rs /\
    forall v, in_int64 v ->
      ((exists r, In r rs /\ exists t, In t (index_tokens v numeric_precision_step) /\ in_trange r t = true)
       <-> lo <= v <= hi).
Proof. exact split_exact_all. Qed.
Print Assumptions split_exact.

Example split_exact_example :
  in_int64 (-1000) /\ in_int64 70000 /\
  exists rs, split_range (-1000) 70000 query_precision_step = Ok rs /\ length rs = 8%nat /\
             covered rs 65536 /\ covered rs (-1000) /\ covered rs 70000 /\
             covered_b rs 70001 = false /\ covered_b rs (-1001) = false.
Proof. exact ex_split_exact. Qed.
Print Assumptions split_exact_example.

(* ---------- termRange.Enumerate / incrementBytes (search_numeric_range.go:88-118) ---------- *)

(* on a range of two equal-length byte strings a finished run returns exactly the dictionary
   terms among the strings of that length between them (bytes as base-256 digits), in increasing
   order, and has used one loop step per candidate string (plus the final failing comparison) *)
Theorem enumerate_spec : forall fuel r dict ts,
  wf_bytes (tr_start r) -> wf_bytes (tr_end r) -> length (tr_start r) = length (tr_end r) ->
  enumerate_range fuel r dict = Ok ts ->
  ts = filter dict (strings_between (tr_start r) (tr_end r)) /\
  (forall t, In t ts <-> length t = length (tr_start r) /\ wf_bytes t /\
                         bytes_le (tr_start r) t = true /\ bytes_le t (tr_end r) = true /\ dict t = true) /\
  StronglySorted (fun a b => bytes_lt a b = true) ts /\
  (bval (tr_start r) <= bval (tr_end r) -> bval (tr_end r) - bval (tr_start r) + 2 <= Z.of_nat fuel).
Proof. exact enumerate_spec_all. Qed.
Print Assumptions enumerate_spec.

Example enumerate_spec_example :
  exists r ts, split_range 100 107 query_precision_step = Ok [r] /\
    wf_bytes (tr_start r) /\ wf_bytes (tr_end r) /\ length (tr_start r) = length (tr_end r) /\
    enumerate_range 20 r (fun t => bytes_eqb t (enc 101 0) || bytes_eqb t (enc 107 0)) = Ok ts /\
    ts = [enc 101 0; enc 107 0].
Proof. exact ex_enumerate. Qed.
Print Assumptions enumerate_spec_example.

(* known finding D8 (KNOWN_FINDINGS enumerate-blowup-carry): "Enumerate terminates within the
   harness budget on every split range" is refuted by [-1, 0] = NumericRange[-0.0, +0.0] ... *)
Theorem enumerate_blowup_refuted :
  exists r, split_range (-1) 0 query_precision_step = Ok [r] /\
            enumerate_range enum_fuel r (fun _ => false) = OutOfFuel.
Proof. exact enumerate_blowup_witness. Qed.
Print Assumptions enumerate_blowup_refuted.

(* ... whose walk needs more than 2^71 steps whatever the dictionary *)
Theorem enumerate_blowup_steps : forall fuel dict ts r,
  split_range (-1) 0 query_precision_step = Ok [r] ->
  enumerate_range fuel r dict = Ok ts -> 2 ^ 71 < Z.of_nat fuel.
Proof. exact enumerate_blowup_cost. Qed.
Print Assumptions enumerate_blowup_steps.

(* ---------- NewNumericRangeSearcher front end + split + f2i_order ---------- *)

(* the int64 bounds for every pair of end-point patterns, guards included: an exclusive min whose
   sortable integer is MaxInt64 (resp. exclusive max at MinInt64) is left in place = inclusive *)
Theorem range_bounds_behaviour : forall lo hi il ih v, in_uint64 lo -> in_uint64 hi -> in_int64 v ->
  in_int64 (lo_bound lo il) /\ in_int64 (hi_bound hi ih) /\
  (lo_bound lo il <= v <->
     if lo =? bits_neg_inf then il = true \/ min_int64 < v
     else f2i lo < v \/ (f2i lo = v /\ (il = true \/ v = max_int64))) /\
  (v <= hi_bound hi ih <->
     if hi =? bits_pos_inf then ih = true \/ v < max_int64
     else v < f2i hi \/ (f2i hi = v /\ (ih = true \/ v = min_int64))).
Proof. exact range_bounds_guards. Qed.
Print Assumptions range_bounds_behaviour.

(* a finite document value x is selected iff it lies in the interval (float_lt order, -0 below +0,
   stated inclusivity); the -Inf pattern as min / the +Inf pattern as max are open ends; holds for
   all 2^64 end-point patterns (the guards are invisible to finite x) *)
Theorem numeric_range_exact : forall lo hi il ih x,
  in_uint64 lo -> in_uint64 hi -> in_uint64 x -> finite x ->
  exists rs,
    split_range (fst (range_bounds lo hi il ih)) (snd (range_bounds lo hi il ih)) query_precision_step = Ok rs /\
    (covered rs (f2i x) <-> lower_ok lo il x /\ upper_ok hi ih x).
Proof. exact numeric_range_exact_all. Qed.
Print Assumptions numeric_range_exact.

Example numeric_range_exact_example :
  in_uint64 bits_1_5 /\ in_uint64 bits_10_0 /\ in_uint64 bits_3_0 /\ finite bits_3_0 /\ finite bits_m2_0 /\
  lower_ok bits_1_5 true bits_3_0 /\ upper_ok bits_10_0 false bits_3_0 /\
  ~ lower_ok bits_1_5 true bits_m2_0.
Proof. exact ex_numeric_range. Qed.
Print Assumptions numeric_range_exact_example.

(* the executable pipeline that the correspondence cases run against the implementation
   (range_bounds ; split_range ; enumerate_ranges over the dictionary ; doc_matches) coincides with
   the declarative matching above: whenever the enumeration finishes (Ok, i.e. no OutOfFuel = no
   D8 blow-up), a document whose tokens the dictionary contains is matched iff it is in the interval *)
Theorem range_pipeline_exact : forall lo hi fuel dict terms v, in_int64 lo -> in_int64 hi -> in_int64 v ->
  (forall t, In t (index_tokens v numeric_precision_step) -> dict t = true) ->
  (rs <- split_range lo hi query_precision_step ;; enumerate_ranges fuel rs dict) = Ok terms ->
  (doc_matches terms v = true <-> lo <= v <= hi).
Proof. exact range_pipeline_exact_all. Qed.
Print Assumptions range_pipeline_exact.

Theorem numeric_pipeline_exact : forall lo hi il ih dict terms x,
  in_uint64 lo -> in_uint64 hi -> in_uint64 x -> finite x ->
  (forall t, In t (index_tokens (f2i x) numeric_precision_step) -> dict t = true) ->
  numeric_range_terms lo hi il ih dict = Ok terms ->
  (doc_matches terms (f2i x) = true <-> lower_ok lo il x /\ upper_ok hi ih x).
Proof. exact numeric_pipeline_exact_all. Qed.
Print Assumptions numeric_pipeline_exact.

Example numeric_pipeline_exact_example :
  exists terms, numeric_range_terms 0x3FF8000000000000 0x4024000000000000 true false ex_dict = Ok terms /\
                length terms = 1%nat /\
                doc_matches terms (f2i 0x4008000000000000) = true /\
                doc_matches terms (f2i 0xC000000000000000) = false.
Proof. exact ex_numeric_pipeline. Qed.
Print Assumptions numeric_pipeline_exact_example.

(* the guard observed: exclusive min at the pattern 0x7fffffffffffffff (sortable MaxInt64) still
   selects that value *)
Theorem range_guard_max_is_inclusive :
  let nan := max_int64 in
  exists rs, split_range (fst (range_bounds nan bits_pos_inf false true))
                         (snd (range_bounds nan bits_pos_inf false true)) query_precision_step = Ok rs /\
             covered rs (f2i nan) /\ ~ float_lt nan nan.
Proof. exact range_guard_max_inclusive. Qed.
Print Assumptions range_guard_max_is_inclusive.

(* date ranges (query.go DateRangeQuery: int64 nanoseconds through Int64ToFloat64): exact for all
   end points except the two instants whose float image is an infinity; guards stated *)
Theorem date_range_exact : forall a b il ih v, in_int64 a -> in_int64 b -> in_int64 v ->
  a <> nanos_neg_inf_alias -> b <> nanos_pos_inf_alias ->
  exists rs,
    split_range (fst (range_bounds (i2f a) (i2f b) il ih)) (snd (range_bounds (i2f a) (i2f b) il ih))
                datetime_precision_step = Ok rs /\
    (covered rs v <->
       (a < v \/ (a = v /\ (il = true \/ v = max_int64))) /\
       (v < b \/ (b = v /\ (ih = true \/ v = min_int64)))).
Proof. exact date_range_exact_all. Qed.
Print Assumptions date_range_exact.

Example date_range_exact_example :
  in_int64 1577836800000000000 /\ in_int64 1609459200000000000 /\
  1577836800000000000 <> nanos_neg_inf_alias /\ 1609459200000000000 <> nanos_pos_inf_alias.
Proof. exact ex_date_range. Qed.
Print Assumptions date_range_exact_example.

(* without that exclusion the statement is false: an inclusive end at 9218868437227405312 ns
   (2262-02-18) is read as +Inf and selects later instants too *)
Theorem date_range_inf_alias_refuted :
  exists a b v rs, in_int64 a /\ in_int64 b /\ in_int64 v /\
    split_range (fst (range_bounds (i2f a) (i2f b) true true)) (snd (range_bounds (i2f a) (i2f b) true true))
                datetime_precision_step = Ok rs /\
    covered rs v /\ b < v.
Proof. exact date_range_inf_alias_refuted_all. Qed.
Print Assumptions date_range_inf_alias_refuted.

(* ---------- numeric sorting (search/source.go FieldSource.Value / Numbers, search/sort.go:62) ---------- *)

(* the terms of a value are produced in dictionary (bytewise) order, the shift-0 term first *)
Theorem index_tokens_in_dictionary_order : forall v, in_int64 v ->
  StronglySorted (fun a b => bytes_lt a b = true) (index_tokens v numeric_precision_step).
Proof. exact index_tokens_sorted. Qed.
Print Assumptions index_tokens_in_dictionary_order.

(* over the doc values of a numeric field the sort key is the shift-0 term; bytes.Compare of two
   sort keys is the comparison of the sortable integers = the float order (-0 below +0);
   Numbers returns exactly the stored value *)
Theorem numeric_sort_exact : forall x y, in_uint64 x -> in_uint64 y ->
  exists kx ky,
    source_value (index_tokens (f2i x) numeric_precision_step) = Some kx /\
    source_value (index_tokens (f2i y) numeric_precision_step) = Some ky /\
    bytes_cmp kx ky = Z.compare (f2i x) (f2i y) /\
    (bytes_lt kx ky = true <-> float_lt x y) /\
    source_numbers (index_tokens (f2i x) numeric_precision_step) = [x].
Proof. exact numeric_sort_exact_all. Qed.
Print Assumptions numeric_sort_exact.

(* ---------- numeric/bin.go ---------- *)

Theorem interleave_roundtrip : forall a b, 0 <= a < 2 ^ 32 -> 0 <= b < 2 ^ 32 ->
  deinterleave (interleave a b) = a /\ deinterleave (Z.shiftr (interleave a b) 1) = b.
Proof. exact interleave_roundtrip_all. Qed.
Print Assumptions interleave_roundtrip.

Example interleave_roundtrip_example :
  0 <= 0xDEADBEEF < 2 ^ 32 /\ 0 <= 0x12345678 < 2 ^ 32 /\
  interleave 0xDEADBEEF 0x12345678 = 0x535C4E71677C7ED5.
Proof. exact ex_interleave. Qed.
Print Assumptions interleave_roundtrip_example.
