(* Props/C20.v — Highlighted fragments are faithful to the stored text.
   Only statements, each closed by `exact`, with Print Assumptions beneath.
   Model: Search/Highlight.v (the tree with the three `fix:` commits of C20); texts are arbitrary
   byte lists (valid UTF-8 or not) unless a theorem says otherwise; a TermLocationMap is a list of
   terms, each with its (Start, End) locations; `best_fragments_raw` are the fragments chosen by
   BestFragments before formatting, `best_fragments` the formatted strings. *)
From Coq Require Import ZArith List.
From Bluge Require Import Base.Res Base.UTF8 Base.UTF8Proofs Gen.ParamsHighlight Search.Highlight Search.HighlightProofs.
Import ListNotations.
Open Scope Z_scope.

(* "Highlighting never panics, whatever the text and locations": for EVERY byte list, EVERY location
   map (negative, inverted, beyond the text, unsorted, overlapping, duplicated), every formatter,
   separator, number of fragments and non-negative fragment size the model returns a value: no
   slice expression of the Go code is out of range and no loop runs out of fuel.
   (False on the pinned tree: defect D5, repaired by commit 799b84b.) *)
Theorem no_panic_adversarial : forall fm sep fs m orig num,
  0 <= fs -> exists out, best_fragments fm sep fs m orig num = Ok out.
Proof. exact no_panic_adversarial_all. Qed.
Print Assumptions no_panic_adversarial.

(* the public entry points Fragment and Format called directly with arbitrary location lists *)
Theorem fragment_total : forall orig fs ot,
  0 <= fs ->
  exists frs, fragment orig (zlen orig) fs ot = Ok frs /\
              Forall (fun f => 0 <= f_start f /\ f_start f <= f_end f /\ f_end f <= zlen orig) frs.
Proof. exact fragment_no_panic. Qed.
Print Assumptions fragment_total.

Theorem format_total : forall orig f l,
  (0 <= f_start f /\ f_start f <= f_end f /\ f_end f <= zlen orig) ->
  exists ps, format_pieces orig f l = Ok ps.
Proof. exact format_no_panic. Qed.
Print Assumptions format_total.

(* highlight_total: everything BestFragments does, in one statement: the chosen fragments exist, lie
   inside the text, are pairwise non-overlapping (Fragment.Overlaps false), number at most max(num,0),
   and every returned string is `sep? ++ render(pieces) ++ sep?` where the text of the pieces is
   exactly orig[Start:End] and every marked piece is the text of one element of the merged list *)
Theorem highlight_total : forall fm sep fs m orig num,
  0 <= fs ->
  exists best out,
    best_fragments_raw fs m orig num = Ok best /\
    best_fragments fm sep fs m orig num = Ok out /\
    Forall (fun f => 0 <= f_start f /\ f_start f <= f_end f /\ f_end f <= zlen orig) best /\
    ForallOrdPairs (fun a b => frag_overlaps a b = false) best /\
    zlen best <= Z.max num 0 /\
    Forall2 (fun f s =>
               exists ps,
                 format_pieces orig f (merge_overlapping (order_term_locations m)) = Ok ps /\
                 s = (if f_start f =? 0 then [] else sep) ++ render_with fm ps ++
                     (if f_end f =? zlen orig then [] else sep) /\
                 pieces_text ps = sl orig (f_start f) (f_end f) /\
                 Forall (marked_from orig (zlen orig) (f_start f) (f_end f)
                                     (merge_overlapping (order_term_locations m))) ps) best out.
Proof. exact best_fragments_total. Qed.
Print Assumptions highlight_total.

(* fragments number at most what was asked for *)
Theorem best_count : forall fm sep fs m orig num out,
  0 <= fs -> best_fragments fm sep fs m orig num = Ok out -> zlen out <= Z.max num 0.
Proof. exact best_count_all. Qed.
Print Assumptions best_count.

(* fragments do not overlap: no byte offset of the text belongs to two of them *)
Theorem best_disjoint : forall fs m orig num best,
  0 <= fs -> best_fragments_raw fs m orig num = Ok best ->
  ForallOrdPairs (fun a b => forall x, ~ (f_start a <= x < f_end a /\ f_start b <= x < f_end b)) best.
Proof. exact best_disjoint_all. Qed.
Print Assumptions best_disjoint.

(* every fragment is a piece orig[Start:End] of the text *)
Theorem fragment_in_text : forall fs m orig num best,
  0 <= fs -> best_fragments_raw fs m orig num = Ok best ->
  Forall (fun f => 0 <= f_start f /\ f_start f <= f_end f /\ f_end f <= zlen orig) best.
Proof. exact fragment_in_text_all. Qed.
Print Assumptions fragment_in_text.

(* removing the markup from a formatted fragment yields the contiguous piece orig[Start:End]:
   for the HTML formatter `strip_html` drops the tags and decodes the entities *)
Theorem strip_is_substring : forall orig f merged ps,
  (0 <= f_start f /\ f_start f <= f_end f /\ f_end f <= zlen orig) ->
  format_pieces orig f merged = Ok ps ->
  strip_html (render_with default_html ps) = sl orig (f_start f) (f_end f).
Proof. exact strip_html_is_substring. Qed.
Print Assumptions strip_is_substring.

(* for the ANSI formatter (nothing is escaped) when the text contains no ESC byte *)
Theorem strip_is_substring_ansi : forall orig f merged ps,
  (0 <= f_start f /\ f_start f <= f_end f /\ f_end f <= zlen orig) ->
  format_pieces orig f merged = Ok ps -> ~ In 27 orig ->
  strip_ansi (render_with default_ansi ps) = sl orig (f_start f) (f_end f).
Proof. exact strip_ansi_is_substring. Qed.
Print Assumptions strip_is_substring_ansi.

(* every marked span is orig[a:b] where [a,b) is exactly one location of the map, or the union of a
   run of locations each overlapping what the previous ones cover (`run`), all inside [a,b) *)
Theorem marks_are_matches : forall orig f m ps s,
  (0 <= f_start f /\ f_start f <= f_end f /\ f_end f <= zlen orig) ->
  format_pieces orig f (merge_overlapping (order_term_locations m)) = Ok ps ->
  In (Marked s) ps ->
  exists a b, s = sl orig a b /\ f_start f <= a /\ a <= b /\ b <= f_end f /\
    ((exists t, In t (concat m) /\ tl_start t = a /\ tl_end t = b) \/
     (exists ms, run a b ms /\ incl ms (concat m) /\
                 (forall t, In t ms -> a <= tl_start t /\ tl_end t <= Z.max b a) /\
                 (forall x, a <= x < b -> exists t, In t ms /\ tl_start t <= x < tl_end t))).
Proof. exact marks_are_matches_all. Qed.
Print Assumptions marks_are_matches.

(* the best fragment contains at least one match when there is one that fits the fragment size:
   valid UTF-8 text; every location inside the text with both ends on rune boundaries (`fchain orig 0 x j`:
   orig[0:x] decodes as j well-formed runes); some location at most fs runes long; num >= 1.
   Then the FIRST fragment returned contains a location of the map entirely.
   (False before commit 1bc04a0 for texts containing U+FFFD: no fragment was produced at all.) *)
Theorem best_has_match : forall fs m orig num,
  valid_utf8 orig = true ->
  Forall (fun t => in_bounds t (zlen orig) = true /\
                   (exists j, fchain orig 0 (tl_start t) j) /\ (exists j, fchain orig 0 (tl_end t) j)) (concat m) ->
  0 < num ->
  (exists t k, In t (concat m) /\ fchain orig (tl_start t) (tl_end t) k /\ Z.of_nat k <= fs) ->
  exists f rest t', best_fragments_raw fs m orig num = Ok (f :: rest) /\
                    In t' (concat m) /\ f_start f <= tl_start t' /\ tl_end t' <= f_end f.
Proof. exact best_has_match_all. Qed.
Print Assumptions best_has_match.

(* fragments built around locations consist of whole well-formed runes, for every text and every
   location list: orig[Start:End] decodes as j runes none of which is (RuneError, width <= 1) *)
Theorem fragment_on_rune_boundaries : forall orig fs ot frs,
  0 <= fs -> ot <> [] -> fragment orig (zlen orig) fs ot = Ok frs ->
  Forall (fun f => exists j, fchain orig (f_start f) (f_end f) j) frs.
Proof. exact fragment_whole_runes. Qed.
Print Assumptions fragment_on_rune_boundaries.

(* ... but the default fragment returned when there is no location at all is cut after fragmentSize
   BYTES, possibly inside a rune (it still is a contiguous piece of the text) *)
Theorem default_fragment_rune_boundary_refuted :
  exists orig fs frs, valid_utf8 orig = true /\ fragment orig (zlen orig) fs [] = Ok frs /\
                      ~ Forall (fun f => exists j, fchain orig (f_start f) (f_end f) j) frs.
Proof. exact HighlightProofs.default_fragment_rune_boundary_refuted. Qed.
Print Assumptions default_fragment_rune_boundary_refuted.

(* the hypotheses of best_has_match hold on a non-trivial instance (multi-byte text, two terms, fragment
   size 5 smaller than the text) and the model's answer on it *)
Example best_has_match_hypotheses_satisfiable :
  valid_utf8 ex_text = true /\
  Forall (wf_loc ex_text (zlen ex_text)) (concat ex_map) /\
  (exists t k, In t (concat ex_map) /\ fchain ex_text (tl_start t) (tl_end t) k /\ Z.of_nat k <= 5) /\
  best_fragments default_html default_separator 5 ex_map ex_text 2
  = Ok [[60; 109; 97; 114; 107; 62; 104; 195; 169; 108; 108; 111; 60; 47; 109; 97; 114; 107; 62; 226; 128; 166];
        [226; 128; 166; 60; 109; 97; 114; 107; 62; 119; 195; 182; 114; 108; 100; 60; 47; 109; 97; 114; 107; 62]].
Proof. exact ex_best_has_match_hyps. Qed.
Print Assumptions best_has_match_hypotheses_satisfiable.

(* the replayed defect D5 ({Start:-3, End:2} on "hello world"): no panic, the location is ignored *)
Example d5_input_is_ignored :
  best_fragments default_html default_separator 200 [[mkLoc (-3) 2]]
                 [104; 101; 108; 108; 111; 32; 119; 111; 114; 108; 100] 1 = Ok [].
Proof. exact ex_d5_input. Qed.
Print Assumptions d5_input_is_ignored.

(* a nested location does not shrink the marked span (fix 0996d48) *)
Example nested_location_keeps_span :
  best_fragments default_html default_separator 200 [[mkLoc 0 15]; [mkLoc 6 11]]
                 [113; 117; 105; 99; 107; 32; 98; 114; 111; 119; 110; 32; 102; 111; 120; 32; 106] 1
  = Ok [[60; 109; 97; 114; 107; 62; 113; 117; 105; 99; 107; 32; 98; 114; 111; 119; 110; 32; 102; 111; 120;
         60; 47; 109; 97; 114; 107; 62; 32; 106]].
Proof. exact ex_nested. Qed.
Print Assumptions nested_location_keeps_span.

(* DocumentMatch.Complete (which turns the postings' field-term locations into the map handed to the
   highlighter): every location of the map it builds is a location of that field and term of the input
   — so in-range, Start <= End, rune-boundary offsets of the postings stay so — whether or not the
   de-duplication pass runs *)
Theorem complete_locations_are_input : forall l m,
  complete l = Ok m ->
  forall f tlm t ls x, In (f, tlm) m -> In (t, ls) tlm -> In x ls -> In (f, t, x) l.
Proof. exact complete_sound. Qed.
Print Assumptions complete_locations_are_input.

(* Complete panics (assignment to entry in nil map) exactly when the FIRST location belongs to the
   field named "" (id 0), which no query can address *)
Theorem complete_panics_only_on_empty_field_name : forall l,
  (exists c, complete l = Panic c) <-> (exists t loc r, l = (0, t, loc) :: r).
Proof. exact complete_panics_iff. Qed.
Print Assumptions complete_panics_only_on_empty_field_name.

(* OrderTermLocations: the list handed to the fragmenter and the formatter is the map's locations,
   sorted by Start *)
Theorem order_is_sorted_permutation : forall m,
  Sorted.StronglySorted (fun a b => tl_start a <= tl_start b) (order_term_locations m) /\
  Permutation.Permutation (concat m) (order_term_locations m).
Proof. exact (fun m => sort_locs_spec (concat m)). Qed.
Print Assumptions order_is_sorted_permutation.
