(* Props/C17.v — Scores obey the BM25 laws and explanations derive the score.
   Only statements, each closed by `exact`, with Print Assumptions beneath.
   Real-number laws are stated for the formulas the code computes (Search/BM25R.v, written over
   the literals and message texts regenerated from the Go source in Gen/ParamsBM25.v). *)
From Coq Require Import ZArith QArith List String Reals Floats.
From Bluge Require Import Gen.ParamsBM25 Search.BM25R Search.BM25RProofs Search.BM25RWitness Search.BM25Rnd Search.BM25RndProofs Search.BM25F Search.BM25FProofs Search.BM25FBridge Search.Explain Search.ExplainProofs.
Import ListNotations.
Open Scope R_scope.

(* the similarity's default parameters lie inside the hypotheses of the laws *)
Theorem defaults_in_hypotheses : 0 < default_k1 /\ 0 <= default_b <= 1.
Proof. exact defaults_in_range. Qed.
Print Assumptions defaults_in_hypotheses.

(* scores of matching documents are positive (and bounded by the weight, hence finite) *)
Theorem score_pos_finite : forall boost k1 b n N f dl avgdl,
  stats_ok boost k1 b n N f dl avgdl ->
  0 < term_score boost k1 b n N f dl avgdl /\ term_score boost k1 b n N f dl avgdl < boost * idf n N.
Proof. exact score_pos_all. Qed.
Print Assumptions score_pos_finite.

(* more occurrences, everything else equal: strictly higher *)
Theorem score_mono_freq : forall boost k1 b n N f1 f2 dl avgdl,
  stats_ok boost k1 b n N f1 dl avgdl -> f1 < f2 ->
  term_score boost k1 b n N f1 dl avgdl < term_score boost k1 b n N f2 dl avgdl.
Proof. exact score_mono_freq_all. Qed.
Print Assumptions score_mono_freq.

(* a longer field, everything else equal: lower, strictly so when b > 0 *)
Theorem score_anti_len : forall boost k1 b n N f dl1 dl2 avgdl,
  stats_ok boost k1 b n N f dl1 avgdl -> dl1 < dl2 ->
  term_score boost k1 b n N f dl2 avgdl <= term_score boost k1 b n N f dl1 avgdl /\
  (0 < b -> term_score boost k1 b n N f dl2 avgdl < term_score boost k1 b n N f dl1 avgdl).
Proof. exact score_anti_len_all. Qed.
Print Assumptions score_anti_len.

(* a rarer term weighs more — for the idf the code computes, ln(1 + (N-n) + 0.5/(n+0.5)) *)
Theorem idf_anti_df : forall n1 n2 N, 1 <= n1 -> n1 < n2 -> n2 <= N -> idf n2 N < idf n1 N.
Proof. exact idf_anti_df_all. Qed.
Print Assumptions idf_anti_df.

Theorem idf_as_coded_anti_df : forall n N, 1 <= n -> n <= N ->
  0 < idf n N /\ (forall n', n < n' -> n' <= N -> idf n' N < idf n N).
Proof. exact idf_as_coded_anti_df_all. Qed.
Print Assumptions idf_as_coded_anti_df.

Theorem score_anti_df : forall boost k1 b n1 n2 N f dl avgdl,
  stats_ok boost k1 b n1 N f dl avgdl -> n1 < n2 -> n2 <= N ->
  term_score boost k1 b n2 N f dl avgdl < term_score boost k1 b n1 N f dl avgdl.
Proof. exact score_anti_df_all. Qed.
Print Assumptions score_anti_df.

(* a boost scales the score linearly *)
Theorem score_linear_boost : forall c boost k1 b n N f dl avgdl,
  term_score (c * boost) k1 b n N f dl avgdl = c * term_score boost k1 b n N f dl avgdl.
Proof. exact score_linear_boost_all. Qed.
Print Assumptions score_linear_boost.

(* a compound query scores the sum of its matching parts times its own boost *)
Theorem composite_sum : forall boost l, composite_score boost l = boost * fold_right Rplus 0 l.
Proof. exact composite_sum_all. Qed.
Print Assumptions composite_sum.

Theorem composite_pos : forall boost l,
  0 < boost -> l <> [] -> Forall (fun s => 0 < s) l -> 0 < composite_score boost l.
Proof. exact composite_pos_all. Qed.
Print Assumptions composite_pos.

(* the hypotheses are satisfiable: the default parameters with n=3, N=10, f=2, dl=7, avgdl=12 *)
Example stats_ok_example : stats_ok 1 default_k1 default_b 3 10 2 7 12.
Proof. exact stats_ok_instance. Qed.
Print Assumptions stats_ok_example.

(* ---- float64: weak monotonicity of the PrimFloat score the correspondence evaluates ----
   score_f (Search/BM25F.v) is bm25.go:99-103 over Coq's primitive binary64 floats.  Side
   conditions, all explicit and decidable by evaluation: every intermediate value of the two
   evaluations is finite (score_finite: no overflow, no division by zero, no NaN), the weight,
   k1, b are >= 0, avgdl > 0, the length normalisation k1*((1-b)+b*dl/avgdl) is > 0 (no
   underflow to zero), and freq, dl < 2^53 (their conversion to float64 is exact).  Then more
   occurrences never score lower and a longer field never scores higher.  Proof: Flocq's
   specification of the primitive operations (each is the real operation followed by rounding
   to nearest even when the result is finite) turns score_f into the rounded-real evaluation
   score_rnd rnd64, which is monotone because rounding is.  Strictness is a fact about the reals
   (score_mono_freq, score_anti_len): rounded values can coincide. *)
Theorem float_weak_mono : forall (w k1 b avgdl : PrimFloat.float) (freq1 freq2 dl1 dl2 : Z),
  (0 <= freq1 <= freq2)%Z -> (freq2 < 2 ^ 53)%Z -> (0 <= dl1 <= dl2)%Z -> (dl2 < 2 ^ 53)%Z ->
  score_finite w k1 b (f_of_int freq1) (f_of_u64 dl1) avgdl = true ->
  score_finite w k1 b (f_of_int freq2) (f_of_u64 dl1) avgdl = true ->
  score_finite w k1 b (f_of_int freq1) (f_of_u64 dl2) avgdl = true ->
  PrimFloat.leb 0 w = true -> PrimFloat.leb 0 k1 = true -> PrimFloat.leb 0 b = true -> PrimFloat.ltb 0 avgdl = true ->
  PrimFloat.ltb 0 (len_denominator_ff k1 b (f_of_u64 dl1) avgdl) = true ->
  PrimFloat.leb (score_f w k1 b freq1 dl1 avgdl) (score_f w k1 b freq2 dl1 avgdl) = true /\
  PrimFloat.leb (score_f w k1 b freq1 dl2 avgdl) (score_f w k1 b freq1 dl1 avgdl) = true.
Proof. exact float_weak_mono_all_f. Qed.
Print Assumptions float_weak_mono.

(* realistic statistics meet every side condition (weight = Idf(3,10), default k1 and b,
   avgdl = 12, frequencies 2 <= 3, field lengths 7 <= 9), and there the order is even strict *)
Example float_weak_mono_hypotheses :
  score_finite ex_w default_k1_f default_b_f (f_of_int 2) (f_of_u64 7) ex_avgdl = true /\
  score_finite ex_w default_k1_f default_b_f (f_of_int 3) (f_of_u64 7) ex_avgdl = true /\
  score_finite ex_w default_k1_f default_b_f (f_of_int 2) (f_of_u64 9) ex_avgdl = true /\
  PrimFloat.leb 0 ex_w = true /\ PrimFloat.leb 0 default_k1_f = true /\ PrimFloat.leb 0 default_b_f = true /\
  PrimFloat.ltb 0 ex_avgdl = true /\
  PrimFloat.ltb 0 (len_denominator_ff default_k1_f default_b_f (f_of_u64 7) ex_avgdl) = true /\
  PrimFloat.ltb (score_f ex_w default_k1_f default_b_f 2 7 ex_avgdl) (score_f ex_w default_k1_f default_b_f 3 7 ex_avgdl) = true /\
  PrimFloat.ltb (score_f ex_w default_k1_f default_b_f 2 9 ex_avgdl) (score_f ex_w default_k1_f default_b_f 2 7 ex_avgdl) = true.
Proof. exact float_weak_mono_instance_f. Qed.
Print Assumptions float_weak_mono_hypotheses.

(* the score as rounded real arithmetic: the value of the PrimFloat expression *)
Theorem score_is_rounded_real : forall w k1 b f dl avgdl,
  score_finite w k1 b f dl avgdl = true ->
  FR (score_ff w k1 b f dl avgdl) = score_rnd rnd64 (FR w) (FR k1) (FR b) (FR f) (FR dl) (FR avgdl).
Proof. exact score_FR. Qed.
Print Assumptions score_is_rounded_real.

(* the rounded-real evaluation itself is monotone *)
Theorem float_weak_mono_rounded : forall w k1 b f1 f2 dl1 dl2 avgdl,
  0 <= w -> 0 <= f1 -> f1 <= f2 -> 0 <= k1 -> 0 <= b -> 0 < avgdl -> dl1 <= dl2 ->
  0 < len_denominator_rnd rnd64 k1 b dl1 avgdl ->
  score_rnd rnd64 w k1 b f1 dl1 avgdl <= score_rnd rnd64 w k1 b f2 dl1 avgdl /\
  score_rnd rnd64 w k1 b f1 dl2 avgdl <= score_rnd rnd64 w k1 b f1 dl1 avgdl.
Proof. exact float_weak_mono_all. Qed.
Print Assumptions float_weak_mono_rounded.

(* ---- the field length carried in the norm (bm25.go:47-49, :100) ----
   ComputeNorm(n) = Float32frombits(uint32(n)); the posting returns float64(float32); Score reads
   docLen = Float32bits(float32(norm)).  For every length up to the float32 infinity pattern the
   round trip through Coq's binary64 is the identity (so "a longer field" is measured correctly). *)
Theorem norm_roundtrip : forall n, (0 <= n <= 255 * 2 ^ 23)%Z ->
  doc_len_of_norm (f64_of_f32bits (compute_norm_bits n)) = n.
Proof. exact norm_roundtrip_all. Qed.
Print Assumptions norm_roundtrip.

(* ---- explanations ---- *)
(* the explanation's root value is the score, for ANY arithmetic the similarity is run over: in
   particular bit for bit in binary64 (ops_F) *)
Theorem explain_root_is_score : forall V (o : ops V) (sc : scorer (V := V)) freq dl,
  ev (g_explain o sc freq dl) = g_score o sc freq dl.
Proof. exact explain_root_is_score_g. Qed.
Print Assumptions explain_root_is_score.

Theorem explain_root_is_score_composite : forall boost (cs : list (R * expl R)),
  ev (g_explain_composite ops_R boost cs) = g_composite_score ops_R boost (map fst cs).
Proof. exact explain_root_is_score_composite_R. Qed.
Print Assumptions explain_root_is_score_composite.

(* every node's value equals the formula stated in its message applied to its children (over the
   reals), for the tree Explain builds with the message texts of the current source.  On the
   pinned tree this failed at the idf node (idf_explain_refuted below); it holds since the
   message was corrected (fix commit 768aa58). *)
Theorem explain_nodes_faithful : forall (k1 b boost : R) (sum_ttf N n freq dl : Z),
  (1 <= n <= N)%Z -> (N < 2 ^ 64)%Z -> (1 <= freq)%Z -> (0 <= dl)%Z -> (0 < sum_ttf)%Z ->
  0 < k1 -> 0 <= b <= 1 -> 0 < boost -> b < 1 \/ (0 < dl)%Z ->
  all_nodes (node_faithful ops_R eq)
    (g_explain ops_R (g_scorer ops_R k1 b boost (Some (sum_ttf, N)) n) freq dl).
Proof. exact explain_nodes_faithful_all. Qed.
Print Assumptions explain_nodes_faithful.

Example explain_nodes_faithful_example :
  all_nodes (node_faithful ops_R eq)
    (g_explain ops_R (g_scorer ops_R default_k1 default_b 2 (Some (120, 10)%Z) 3%Z) 2%Z 7%Z).
Proof. exact explain_example. Qed.
Print Assumptions explain_nodes_faithful_example.

(* the composite scorer's own nodes: the root, and under a boost the boost leaf and the inner
   "sum of:" node; the remaining children are the constituents' explanations *)
Theorem composite_nodes_faithful : forall boost (cs : list (R * expl R)),
  Forall (fun p => ev (snd p) = fst p) cs ->
  node_faithful ops_R eq (g_explain_composite ops_R boost cs) /\
  Forall (fun c => In c (map snd cs) \/ all_nodes (node_faithful ops_R eq) c \/
                   (node_faithful ops_R eq c /\ echildren c = map snd cs))
         (echildren (g_explain_composite ops_R boost cs)).
Proof. exact composite_nodes_faithful_all. Qed.
Print Assumptions composite_nodes_faithful.

(* the tf node computes 1 - 1/(1 + f*normInverse); its message states f/(f + k1*(1-b+b*dl/avgdl)) *)
Theorem tf_stated_is_computed : forall k1 b f dl avgdl,
  0 < k1 -> 0 < f -> 0 < avgdl -> 0 < len_norm b dl avgdl ->
  tf k1 b f dl avgdl = tf_stated k1 b f dl avgdl.
Proof. exact tf_is_stated. Qed.
Print Assumptions tf_stated_is_computed.

(* D4: with the text of the pinned tree, "log(1 + (N - n + 0.5) / (n + 0.5))", the idf node is
   NOT the stated formula of its children: witness n = 3, N = 10 *)
Theorem idf_explain_refuted : exists n N : Z, (1 <= n <= N)%Z /\
  ~ node_faithful ops_R eq
      (ENode (g_idf ops_R n N) txt_idf_lucene
         [ENode (IZR n) (msg_at msg_idf_explain 1) []; ENode (IZR N) (msg_at msg_idf_explain 2) []]).
Proof. exact idf_explain_refuted_all. Qed.
Print Assumptions idf_explain_refuted.

(* … and the two formulas differ for every n < N (they agree only at n = N) *)
Theorem idf_coded_above_stated : forall n N, 1 <= n -> n < N -> idf_lucene n N < idf n N.
Proof. exact idf_coded_vs_lucene. Qed.
Print Assumptions idf_coded_above_stated.

(* the replayed witness in digits: Idf(3,10) = 2.0971…, the pinned message's formula gives 1.1451… *)
Theorem idf_witness_values :
  20971 / 10000 < idf 3 10 < 20972 / 10000 /\ 11451 / 10000 < idf_lucene 3 10 < 11452 / 10000.
Proof. exact idf_3_10_bounds. Qed.
Print Assumptions idf_witness_values.
