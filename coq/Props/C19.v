(* Props/C19.v — Merge plans are well-formed and keep the segment count bounded.
   Only statements, each closed by `exact`, with Print Assumptions beneath.
   Model: MergePlan/Plan.v (plan, apply), MergePlan/Budget.v (CalcBudget); proofs:
   MergePlan/PlanProofs.v, MergePlan/BudgetProofs.v.  Every theorem is for EVERY score
   function (Options.ScoreSegments is a parameter of the model). *)
From Coq Require Import ZArith QArith List Permutation.
From Bluge Require Import Base.Int64 Base.Res Gen.ParamsPlan MergePlan.Budget MergePlan.BudgetProofs
  MergePlan.Plan MergePlan.PlanProofs.
Import ListNotations.
Open Scope Z_scope.

(* the planner returns (never runs out of fuel, never fails) for every score function, every
   options value -- sane or not, nil = defaults -- and every list, duplicate ids included *)
Theorem plan_terminates : forall (score : list seg -> Z) (o : option options) (l : list seg),
  exists p, plan score o l = Ok p.
Proof. exact plan_terminates_all. Qed.
Print Assumptions plan_terminates.

(* same input, same plan: the plan does not even depend on the order of the input list when
   the ids are distinct (plain functional determinism holds by construction of the model) *)
Theorem plan_deterministic : forall (score : list seg -> Z) (o : option options) (l l' : list seg),
  Permutation l l' -> NoDup (ids l) -> plan score o l = plan score o l'.
Proof. exact plan_perm_invariant. Qed.
Print Assumptions plan_deterministic.

Theorem tasks_subset_input : forall (score : list seg -> Z) (o : option options) (l : list seg) ts,
  plan score o l = Ok (Some ts) -> forall t s, In t ts -> In s t -> In s l.
Proof. exact tasks_subset_input_all. Qed.
Print Assumptions tasks_subset_input.

(* no segment id twice, neither across tasks nor inside one *)
Theorem tasks_disjoint : forall (score : list seg -> Z) (o : option options) (l : list seg) ts,
  NoDup (ids l) -> plan score o l = Ok (Some ts) -> NoDup (ids (concat ts)).
Proof. exact tasks_disjoint_all. Qed.
Print Assumptions tasks_disjoint.

(* a task is either the empties task (every live size <= 0) or a roster of segments with
   positive live sizes whose sum is strictly below MaxSegmentSize *)
Theorem task_size_bound : forall (score : list seg -> Z) (o : option options) (l : list seg) ts,
  0 < o_max_size (effective o) <= plan_max_segment_size_limit ->
  plan score o l = Ok (Some ts) ->
  forall t, In t ts ->
    (Forall (fun s => seg_live s <= 0) t /\ sum_live t <= 0) \/
    (Forall (fun s => 0 < seg_live s) t /\ 0 < sum_live t < o_max_size (effective o)).
Proof. exact task_size_bound_all. Qed.
Print Assumptions task_size_bound.

Theorem only_small_segments : forall (score : list seg -> Z) (o : option options) (l : list seg) ts,
  plan score o l = Ok (Some ts) ->
  forall t s, In t ts -> In s t -> seg_live s < half_max (effective o).
Proof. exact only_small_segments_all. Qed.
Print Assumptions only_small_segments.

Theorem plan_postcondition : forall (score : list seg -> Z) (o : option options) (l : list seg) ts,
  sane_options (effective o) ->
  plan score o l = Ok (Some ts) ->
  exists b, budget_of (effective o) (sort_segs l) = Ok b /\
    let rest := remove_segs (eligibles (effective o) (sort_segs l)) (concat ts) in
    rest = [] \/ zlen rest + zlen ts <= b.
Proof. exact plan_postcondition_all. Qed.
Print Assumptions plan_postcondition.

(* the defaults read from the Go source are sane *)
Theorem default_options_are_sane : sane_options default_options.
Proof. exact default_options_sane. Qed.
Print Assumptions default_options_are_sane.

(* ---------------- CalcBudget ---------------- *)

Theorem budget_terminates : forall total first M (g : Q), exists b, calc_budget total first M g = Ok b.
Proof. exact calc_budget_terminates. Qed.
Print Assumptions budget_terminates.

(* integer growth G >= 2: total < M*first*G^k implies budget <= M*(k+1), the integer form of
   M * (ceil(log_G(total / (M*first))) + 1) *)
Theorem budget_log_bound : forall M first G total (k : nat) r,
  1 <= M -> 1 <= first -> 2 <= G ->
  total < M * first * G ^ Z.of_nat k ->
  calc_budget total first M (inject_Z G) = Ok r -> r <= M * (Z.of_nat k + 1).
Proof. exact budget_log_bound_int. Qed.
Print Assumptions budget_log_bound.

Example budget_log_bound_example :
  calc_budget (10 * 2000 * 10 ^ 3 - 1) 2000 10 (inject_Z 10) = Ok 39 /\
  10 * 2000 * 10 ^ 3 - 1 < 10 * 2000 * 10 ^ Z.of_nat 3 /\ 39 <= 10 * (Z.of_nat 3 + 1).
Proof. exact budget_log_bound_int_example. Qed.
Print Assumptions budget_log_bound_example.

(* any rational growth g >= 1 with an effective ratio a/b on the tiers >= first *)
Theorem budget_log_bound_rational : forall M first a b (g : Q) total (k : nat),
  1 <= M -> 1 <= first -> (1 <= g)%Q -> 0 < a -> 0 < b ->
  (forall t, first <= t -> a * t <= b * next_tier t g) ->
  total * b ^ Z.of_nat k < M * first * a ^ Z.of_nat k ->
  forall r, calc_budget total first M g = Ok r -> r <= M * (Z.of_nat k + 1).
Proof. exact budget_log_bound_general. Qed.
Print Assumptions budget_log_bound_rational.

(* the general bound, also for growth 1 and for growths below 1 (clamped): budget <= ceil(total/first) *)
Theorem budget_linear_bound : forall total first M (g : Q) b,
  0 <= total -> 1 <= first ->
  calc_budget total first M g = Ok b -> b * first < total + first.
Proof. exact budget_linear_bound_all. Qed.
Print Assumptions budget_linear_bound.

(* a fractional growth does not give a logarithmic budget when the first tier is 1 *)
Theorem budget_log_bound_fractional_refuted :
  exists M first total (g : Q) (k : nat) r,
    1 <= M /\ 1 <= first /\ (1 < g)%Q /\
    (inject_Z total < inject_Z (M * first) * g ^ Z.of_nat k)%Q /\
    calc_budget total first M g = Ok r /\ ~ r <= M * (Z.of_nat k + 1).
Proof. exact BudgetProofs.budget_log_bound_fractional_refuted. Qed.
Print Assumptions budget_log_bound_fractional_refuted.
