(* Props/C19.v — Merge plans are well-formed and keep the segment count bounded.
   Only statements, each closed by `exact`, with Print Assumptions beneath.
   Model: MergePlan/Plan.v (plan, apply), MergePlan/Budget.v (CalcBudget); proofs:
   MergePlan/PlanProofs.v, MergePlan/BudgetProofs.v.  Every theorem is for EVERY score
   function (Options.ScoreSegments is a parameter of the model). *)
From Coq Require Import ZArith QArith List Permutation.
From Bluge Require Import Base.Int64 Base.Res Gen.ParamsPlan MergePlan.Budget MergePlan.BudgetProofs
  MergePlan.Plan MergePlan.PlanProofs.
Import ListNotations.
Open Scope Z_scope.

(* the planner returns (never runs out of fuel, never fails) for every score function, every
   options value -- sane or not, nil = defaults -- and every list, duplicate ids included *)
Theorem plan_terminates : forall (score : list seg -> Z) (o : option options) (l : list seg),
  exists p, plan score o l = Ok p.
Proof. exact plan_terminates_all. Qed.
Print Assumptions plan_terminates.

(* same input, same plan: the plan does not even depend on the order of the input list when
   the ids are distinct (plain functional determinism holds by construction of the model) *)
Theorem plan_deterministic : forall (score : list seg -> Z) (o : option options) (l l' : list seg),
  Permutation l l' -> NoDup (ids l) -> plan score o l = plan score o l'.
Proof. exact plan_perm_invariant. Qed.
Print Assumptions plan_deterministic.

Theorem tasks_subset_input : forall (score : list seg -> Z) (o : option options) (l : list seg) ts,
  plan score o l = Ok (Some ts) -> forall t s, In t ts -> In s t -> In s l.
Proof. exact tasks_subset_input_all. Qed.
Print Assumptions tasks_subset_input.

(* no segment id twice, neither across tasks nor inside one *)
Theorem tasks_disjoint : forall (score : list seg -> Z) (o : option options) (l : list seg) ts,
  NoDup (ids l) -> plan score o l = Ok (Some ts) -> NoDup (ids (concat ts)).
Proof. exact tasks_disjoint_all. Qed.
Print Assumptions tasks_disjoint.

(* a task is either the empties task (every live size <= 0) or a roster of segments with
   positive live sizes whose sum is strictly below MaxSegmentSize *)
Theorem task_size_bound : forall (score : list seg -> Z) (o : option options) (l : list seg) ts,
  0 < o_max_size (effective o) <= plan_max_segment_size_limit ->
  plan score o l = Ok (Some ts) ->
  forall t, In t ts ->
    (Forall (fun s => seg_live s <= 0) t /\ sum_live t <= 0) \/
    (Forall (fun s => 0 < seg_live s) t /\ 0 < sum_live t < o_max_size (effective o)).
Proof. exact task_size_bound_all. Qed.
Print Assumptions task_size_bound.

Theorem only_small_segments : forall (score : list seg -> Z) (o : option options) (l : list seg) ts,
  plan score o l = Ok (Some ts) ->
  forall t s, In t ts -> In s t -> seg_live s < half_max (effective o).
Proof. exact only_small_segments_all. Qed.
Print Assumptions only_small_segments.

Theorem plan_postcondition : forall (score : list seg -> Z) (o : option options) (l : list seg) ts,
  sane_options (effective o) ->
  plan score o l = Ok (Some ts) ->
  exists b, budget_of (effective o) (sort_segs l) = Ok b /\
    let rest := remove_segs (eligibles (effective o) (sort_segs l)) (concat ts) in
    rest = [] \/ zlen rest + zlen ts <= b.
Proof. exact plan_postcondition_all. Qed.
Print Assumptions plan_postcondition.

(* the defaults read from the Go source are sane *)
Theorem default_options_are_sane : sane_options default_options.
Proof. exact default_options_sane. Qed.
Print Assumptions default_options_are_sane.

(* ---------------- CalcBudget ---------------- *)

Theorem budget_terminates : forall total first M (g : Q), exists b, calc_budget total first M g = Ok b.
Proof. exact calc_budget_terminates. Qed.
Print Assumptions budget_terminates.

(* integer growth G >= 2: total < M*first*G^k implies budget <= M*(k+1), the integer form of
   M * (ceil(log_G(total / (M*first))) + 1) *)
Theorem budget_log_bound : forall M first G total (k : nat) r,
  1 <= M -> 1 <= first -> 2 <= G ->
  total < M * first * G ^ Z.of_nat k ->
  calc_budget total first M (inject_Z G) = Ok r -> r <= M * (Z.of_nat k + 1).
Proof. exact budget_log_bound_int. Qed.
Print Assumptions budget_log_bound.

Example budget_log_bound_example :
  calc_budget (10 * 2000 * 10 ^ 3 - 1) 2000 10 (inject_Z 10) = Ok 39 /\
  10 * 2000 * 10 ^ 3 - 1 < 10 * 2000 * 10 ^ Z.of_nat 3 /\ 39 <= 10 * (Z.of_nat 3 + 1).
Proof. exact budget_log_bound_int_example. Qed.
Print Assumptions budget_log_bound_example.

(* any rational growth g >= 1 with an effective ratio a/b on the tiers >= first *)
Theorem budget_log_bound_rational : forall M first a b (g : Q) total (k : nat),
  1 <= M -> 1 <= first -> (1 <= g)%Q -> 0 < a -> 0 < b ->
  (forall t, first <= t -> a * t <= b * next_tier t g) ->
  total * b ^ Z.of_nat k < M * first * a ^ Z.of_nat k ->
  forall r, calc_budget total first M g = Ok r -> r <= M * (Z.of_nat k + 1).
Proof. exact budget_log_bound_general. Qed.
Print Assumptions budget_log_bound_rational.

(* the general bound, also for growth 1 and for growths below 1 (clamped): budget <= ceil(total/first) *)
Theorem budget_linear_bound : forall total first M (g : Q) b,
  0 <= total -> 1 <= first ->
  calc_budget total first M g = Ok b -> b * first < total + first.
Proof. exact budget_linear_bound_all. Qed.
Print Assumptions budget_linear_bound.

(* a fractional growth does not give a logarithmic budget when the first tier is 1 *)
Theorem budget_log_bound_fractional_refuted :
  exists M first total (g : Q) (k : nat) r,
    1 <= M /\ 1 <= first /\ (1 < g)%Q /\
    (inject_Z total < inject_Z (M * first) * g ^ Z.of_nat k)%Q /\
    calc_budget total first M g = Ok r /\ ~ r <= M * (Z.of_nat k + 1).
Proof. exact BudgetProofs.budget_log_bound_fractional_refuted. Qed.
Print Assumptions budget_log_bound_fractional_refuted.

Theorem budget_log_bound_growth_three_halves : forall M first total (k : nat) r,
  1 <= M -> 2 <= first ->
  total * 4 ^ Z.of_nat k < M * first * 5 ^ Z.of_nat k ->
  calc_budget total first M (3 # 2) = Ok r -> r <= M * (Z.of_nat k + 1).
Proof. exact budget_log_bound_three_halves. Qed.
Print Assumptions budget_log_bound_growth_three_halves.

Theorem budget_nonneg_and_positive : forall total first M (g : Q) b,
  calc_budget total first M g = Ok b -> 0 <= b /\ (0 < total -> 1 <= b) /\ (total <= 0 -> b = 0).
Proof. exact calc_budget_sign. Qed.
Print Assumptions budget_nonneg_and_positive.

(* ---------------- concrete instances: the hypotheses above are satisfiable ---------------- *)

Example plan_instance :
  sane_options ex_opts /\ NoDup (ids ex_segs) /\
  budget_of ex_opts (sort_segs ex_segs) = Ok 11 /\
  option_map (map ids) (match plan ex_score (Some ex_opts) ex_segs with Ok p => p | _ => None end)
  = Some [[3; 11]; [13; 5; 6]; [15; 18; 19]; [9; 17; 16]].
Proof. exact plan_example. Qed.
Print Assumptions plan_instance.

Example plan_deterministic_instance :
  Permutation ex_segs (rev ex_segs) /\
  plan ex_score (Some ex_opts) (rev ex_segs) = plan ex_score (Some ex_opts) ex_segs.
Proof. exact plan_deterministic_example. Qed.
Print Assumptions plan_deterministic_instance.

Example default_options_instance :
  budget_of default_options (sort_segs ex_default_segs) = Ok 11 /\
  option_map (map (fun t => zlen t)) (match plan ex_score None ex_default_segs with Ok p => p | _ => None end)
  = Some [10; 10; 10].
Proof. exact default_budget_example. Qed.
Print Assumptions default_options_instance.

(* the chosen roster has the smallest score among the rosters of all start indices *)
Theorem best_roster_is_minimal : forall (score : list seg -> Z) o elig r,
  best_roster score o elig = Some r ->
  In r (all_rosters o elig) /\ forall x, In x (all_rosters o elig) -> score r <= score x.
Proof. exact best_roster_spec. Qed.
Print Assumptions best_roster_is_minimal.

(* ---------------- executing plans ---------------- *)

(* executing a plan never raises #segments + #segments-with-deletions, and strictly lowers it
   when the plan is non-empty and has no no-op task (one segment, no deletions, live > 0) *)
Theorem apply_progress : forall (score : list seg -> Z) o segs next ts,
  NoDup (ids segs) -> Forall (fun s => seg_id s <= next) segs ->
  plan_with score o segs = Ok (Some ts) ->
  measure (fst (apply_plan (segs, next) ts)) <= measure segs /\
  (ts <> [] -> existsb noop_task ts = false -> measure (fst (apply_plan (segs, next) ts)) < measure segs) /\
  wf_state (apply_plan (segs, next) ts).
Proof. exact apply_progress_all. Qed.
Print Assumptions apply_progress.

Example apply_progress_instance :
  match plan_with ex_score ex_opts ex_segs with
  | Ok (Some ts) =>
      ts <> [] /\ existsb noop_task ts = false /\ measure ex_segs = 26 /\
      measure (fst (apply_plan (ex_segs, 19) ts)) = 16
  | _ => False
  end.
Proof. exact apply_progress_example. Qed.
Print Assumptions apply_progress_instance.

(* FULL STATEMENT WANTED (property text): repeated plan/apply reaches a state with no further
   work.  It is false (convergence_refuted below).  Proved: from any state, within
   #segments + #segments-with-deletions cycles the merger is handed a plan containing a no-op
   task, or reaches an empty plan; there the number of mergeable segments is at most
   max(budget, 1) (1: a single segment is never planned, merge_plan.go:140). *)
Theorem convergence_partial : forall (score : list seg -> Z) o, sane_options o ->
  forall (n : nat) segs next,
  NoDup (ids segs) -> Forall (fun s => seg_id s <= next) segs ->
  measure segs <= Z.of_nat n ->
  (exists st', run_cycles n score o (segs, next) = NoopPlanned st') \/
  (exists st' b, run_cycles n score o (segs, next) = Quiescent st' /\
                 budget_of o (sort_segs (fst st')) = Ok b /\
                 zlen (eligibles o (fst st')) <= Z.max 1 b /\
                 measure (fst st') <= measure segs).
Proof. exact convergence_partial_all. Qed.
Print Assumptions convergence_partial.

Example convergence_instance :
  match run_cycles 26 ex_score ex_opts (ex_segs, 19) with
  | Quiescent st =>
      zlen (fst st) = 11 /\ zlen (eligibles ex_opts (fst st)) = 9 /\
      budget_of ex_opts (sort_segs (fst st)) = Ok 10
  | _ => False
  end.
Proof. exact convergence_example. Qed.
Print Assumptions convergence_instance.

(* a score, sane options with SegmentsPerMergeTask = 2 and three segments without deletions:
   after any number of cycles the next plan is again three single-segment no-op tasks and
   executing it reproduces the same sizes *)
Theorem convergence_refuted :
  exists (score : list seg -> Z) (o : options) (segs : list seg) (next : Z),
    sane_options o /\ 2 <= o_per_task o /\ NoDup (ids segs) /\ Forall (fun s => seg_id s <= next) segs /\
    forall n : nat, exists st ts st',
      iter_cycles n score o (segs, next) = Ok st /\
      cycle score o st = Ok (Some ts, st') /\
      ts <> [] /\ forallb noop_task ts = true /\ sizes (fst st') = sizes segs.
Proof. exact convergence_refuted_all. Qed.
Print Assumptions convergence_refuted.

Example noop_task_instance :
  let o := mkopts 1 1000 4 3 10 2 in
  let l := [mkseg 1 700 600; mkseg 2 40 40; mkseg 3 50 0; mkseg 4 45 30; mkseg 5 20 20; mkseg 6 20 20;
            mkseg 7 499 499; mkseg 8 500 500; mkseg 9 15 15; mkseg 10 300 120; mkseg 11 0 0;
            mkseg 12 90 70; mkseg 13 25 22; mkseg 14 12 12] in
  option_map (map ids) (match plan ex_score (Some o) l with Ok p => p | _ => None end)
  = Some [[3; 11]; [13; 5; 6]; [2; 4; 9]; [10; 12; 14]; [7]] /\
  noop_task [mkseg 7 499 499] = true.
Proof. exact noop_task_example. Qed.
Print Assumptions noop_task_instance.

(* ---------------- histories: arrivals, deletions, merger cycles ---------------- *)

(* over ANY history the number of useful (non no-op) tasks executed, plus the final
   #segments + #segments-with-deletions, is at most the initial measure + 2 per arrival + 1 per
   deletion: the merger's work is linear in what arrives, for every score function *)
Theorem history_work_bound : forall (score : list seg -> Z) o h st work st' w,
  wf_state st ->
  run_history score o h st work = Ok (st', w) ->
  wf_state st' /\ w + measure (fst st') <= work + measure (fst st) + 2 * arrivals h + deletions h.
Proof. exact history_work_bound_all. Qed.
Print Assumptions history_work_bound.

Example history_instance :
  match run_history ex_score ex_opts
          [EArrive 30 30; ECycle; EArrive 12 12; EDelete 8 100; EArrive 9 9; ECycle; EArrive 11 11; ECycle]
          (ex_segs, 19) 0 with
  | Ok (st, w) => w = 5 /\ measure (fst st) = 18 /\ w + measure (fst st) <= 0 + measure ex_segs + 2 * 4 + 1
  | _ => False
  end.
Proof. exact history_example. Qed.
Print Assumptions history_instance.
