(* Props/C03.v — Crash recovery is atomic, prefix-consistent and repeatable.
   Only statements, each closed by `exact`, with Print Assumptions beneath.
   Model and notation: see Props/C02.v.  Proofs: Index/ProtoProofsRec.v, ProtoProofsThm.v,
   ProtoProofsRounds.v (rounds), ProtoProofsTorn.v (torn files). *)
From Coq Require Import ZArith List Bool.
From Coq Require Import Permutation.
From Bluge Require Import Base.Res Index.Model Index.Trace Index.Proto Index.ProtoCorr Index.ProtoProofsPol Index.ProtoProofsInv
  Index.ProtoProofsRec Index.ProtoProofsThm Index.ProtoProofsEx Index.ProtoProofsRounds Index.ProtoProofsTorn.
Import ListNotations.
Open Scope Z_scope.

(* 5a. recovery is a total function of the image: no fuel, no partial match *)
Theorem recover_total : forall (tbl : list (list Z)) (m : Z) (im : image),
  (exists x, recover_writer tbl m im = x) /\ (exists y, recover_reader tbl im = y).
Proof. exact recover_total_proof. Qed.
Print Assumptions recover_total.

(* 5b. in every state of every accepted run, for every torn variant: recovery stays inside the model
   (never RecUnknown: no torn segment file is referenced, no collision), and as soon as a snapshot was
   ever completed (on the directory the writer was opened on, or during the run) OpenWriter and
   OpenReader succeed, on the same snapshot *)
Theorem recover_succeeds : forall table n st0, start_ok table n st0 ->
  forall evs st choice,
  paccept_run table st0 evs = Some st ->
  no_collision table (d_fly (ps_disk st)) choice = true ->
  let im := crash_image (ps_disk st) choice in
  recover_writer table n im <> RecUnknown /\ recover_reader table im <> None /\
  (d_snp (ps_disk st0) <> [] \/ commits_of evs <> [] \/ d_snp (ps_disk st) <> [] ->
   exists r, recover_writer table n im = RecOk r /\
             recover_reader table im = Some (Some (r_epoch r, r_segs r))).
Proof. exact recover_succeeds_proof. Qed.
Print Assumptions recover_succeeds.

(* 6. what is recovered is the abstract index after a prefix of the applied batch sequence: m <= n_intro
   batches on top of the content the writer was opened on (m = 0: that content itself; never part of a
   batch, nothing resurrected, duplicated or lost in the middle).  While the writer has not yet loaded
   its root (a crash inside OpenWriter: ps_epoch_n = []) the newest complete snapshot file of the
   directory is recovered again.  A directory recovered as a fresh index belongs to a run that started
   from the empty index. *)
Theorem recover_prefix : forall table n st0, start_ok table n st0 ->
  forall evs st choice,
  paccept_run table st0 evs = Some st ->
  no_collision table (d_fly (ps_disk st)) choice = true ->
  let im := crash_image (ps_disk st) choice in
  (forall r, recover_writer table n im = RecOk r ->
     recover_reader table im = Some (Some (r_epoch r, r_segs r)) /\
     (ps_epoch_n st <> [] ->
        exists m c, (m <= n_intro st)%nat /\ segs_content (ps_segdocs st) (r_segs r) = Some c /\
                    same_docs c (content_at st m) = true) /\
     (ps_epoch_n st = [] ->
        exists f, In (r_epoch r, f) (d_snp (ps_disk st)) /\ r_segs r = sf_segs f /\
                  forall e, In e (map fst (d_snp (ps_disk st))) -> e <= r_epoch r)) /\
  (forall s, recover_writer table n im = RecFresh s -> d_snp (ps_disk st) = [] /\ content_at st 0 = []).
Proof. exact recover_prefix_proof. Qed.
Print Assumptions recover_prefix.

(* 7a. recover_then_invariant: the state init_pstate (Index/ProtoCorr.v) builds on the directory a
   crash leaves — next_disk: complete files stay, in-flight files written in full become complete,
   torn ones become left-over files, as the engine classifies them — is a well-formed start again.
   Hence run_invariant (C02), ack_implies_durable, recover_succeeds, recover_prefix, retention (C11) ...
   re-apply to the continued run, and so on for ever. *)
Theorem recover_then_invariant : forall table n st choice sd st0',
  1 <= n -> pinv table st ->
  no_collision table (d_fly (ps_disk st)) choice = true ->
  next_start table n st choice sd = Some st0' ->
  start_ok table n st0' /\ ps_disk st0' = next_disk (ps_disk st) choice /\ ps_segdocs st0' = sd.
Proof. exact recover_then_invariant_proof. Qed.
Print Assumptions recover_then_invariant.

(* the next round can always start when the crash image recovers (it does as soon as a snapshot was
   ever completed: recover_succeeds) *)
Theorem next_round_starts : forall table n st choice sd r,
  pinv table st -> no_collision table (d_fly (ps_disk st)) choice = true ->
  recover_writer table n (crash_image (ps_disk st) choice) = RecOk r ->
  exists st0', next_start table n st choice sd = Some st0'.
Proof. exact next_start_exists. Qed.
Print Assumptions next_round_starts.

(* 7b. rounds_compose.  chain table n st0 G (Index/ProtoProofsRounds.v): st0 is the start state of a
   round of a history  run_1, crash_1, recover, run_2, crash_2, recover, ...  where run_i is ANY
   accepted run from the start of round i that got as far as loading its root, crash_i ANY torn
   variant without collision that recovers a snapshot holding m_i batches of run_i, and the segment
   documents the next round is given agree with the ones known for the recovered segments; a round that
   dies inside OpenWriter before loading its root (chain_reopen) contributes nothing;
   G = firstn m_1 batches_1 ++ firstn m_2 batches_2 ++ ...  is the applied sequence so far.
   Then st0 is a well-formed start and the newest complete snapshot file of its directory holds
   exactly apply_batches G *)
Theorem rounds_compose : forall table n st0 G, chain table n st0 G ->
  start_ok table n st0 /\ disk_content st0 (apply_batches G) /\ (d_snp (ps_disk st0) = [] -> G = []).
Proof. exact rounds_compose_proof. Qed.
Print Assumptions rounds_compose.

(* ... and in that round, at every instant, every crash image recovers (never outside the model) to
   apply_batches (G ++ the first m batches of the round): a prefix of the applied sequence of the
   whole history, with m beyond every batch acknowledged in the round; the reader opens the same *)
Theorem rounds_durable : forall table n st0 G, chain table n st0 G ->
  forall evs st choice,
  paccept_run table st0 evs = Some st -> ps_epoch_n st <> [] ->
  no_collision table (d_fly (ps_disk st)) choice = true ->
  let im := crash_image (ps_disk st) choice in
  recover_writer table n im <> RecUnknown /\
  (forall r, recover_writer table n im = RecOk r ->
     exists m c, (m <= n_intro st)%nat /\ lookup (r_epoch r) (ps_epoch_n st) = Some m /\
       segs_content (ps_segdocs st) (r_segs r) = Some c /\
       Permutation c (apply_batches (G ++ firstn m (t_batches (ps_t st)))) /\
       recover_reader table im = Some (Some (r_epoch r, r_segs r)) /\
       forall k pos, In (PAck k true) evs -> pos_of k (t_keys (ps_t st)) = Some pos -> (pos < m)%nat).
Proof. exact rounds_durable_proof. Qed.
Print Assumptions rounds_durable.

(* within one round: once the root is loaded the content the writer works on is the content of the
   start directory *)
Theorem base_is_start_content : forall table n st0 C evs st,
  start_ok table n st0 -> disk_content st0 C -> (d_snp (ps_disk st0) = [] -> C = []) ->
  paccept_run table st0 evs = Some st -> ps_epoch_n st <> [] ->
  Permutation (ps_base st) C /\
  forall m, Permutation (content_at st m) (fold_left apply_batch (firstn m (t_batches (ps_t st))) C).
Proof. exact ProtoProofsRounds.base_is_start_content. Qed.
Print Assumptions base_is_start_content.

(* two rounds: round 1 = the run of Props/C02.v ack_durable_example, crash with snapshot 2 torn after 5
   bytes; round 2 loads snapshot 1 (batch 1), finds the torn file as a left-over, applies batch 3,
   persists snapshot 2 over it, acknowledges, removes snapshot 1 *)
Example rounds_example :
  chain [] 1 ex2_st0 [ex_b1] /\
  d_junk_snp (ps_disk ex2_st0) = [(2, ztake 5 ex_bytes2)] /\
  paccept_run [] ex2_st0 ex2_run = Some ex2_st /\ In (PAck 3 true) ex2_run /\
  no_collision [] (d_fly (ps_disk ex2_st)) [] = true /\
  (exists r, recover_writer [] 1 (crash_image (ps_disk ex2_st) []) = RecOk r /\ r_epoch r = 2 /\
             segs_content (ps_segdocs ex2_st) (r_segs r) = Some [(1, 10); (3, 30)]) /\
  apply_batches ([ex_b1] ++ firstn 1 (t_batches (ps_t ex2_st))) = [(1, 10); (3, 30)].
Proof. exact rounds_example_proof. Qed.
Print Assumptions rounds_example.

(* 8. torn_rejected: a zero-filled file of any length never loads (format version 0), a file shorter
   than five bytes never loads (Index/SnapshotCodecProofs.v short_rejected_all; five bytes can load:
   min_accept_example there) *)
Theorem torn_rejected : forall table,
  (forall bytes : list Z, loads table (map (fun _ => 0) bytes) = false) /\
  (forall b, Z.of_nat (length b) < 5 -> loads table b = false).
Proof. exact torn_rejected_proof. Qed.
Print Assumptions torn_rejected.

(* ... so no_collision holds by itself for absent, zero-filled, full variants and prefixes shorter than
   five bytes: it is a genuine hypothesis only for longer proper prefixes of a snapshot in flight *)
Theorem no_collision_auto : forall table fl choice,
  forallb harmless choice = true -> no_collision table fl choice = true.
Proof. exact no_collision_auto_proof. Qed.
Print Assumptions no_collision_auto.

(* an observation, inside the property text ("succeeds whenever at least one snapshot had ever been
   completed"): if the very first snapshot write of a fresh directory is torn, OpenWriter refuses the
   directory and OpenReader finds nothing, until the file is removed by hand *)
Example first_snapshot_torn :
  paccept_run [] (st_fresh 1) (firstn 7 ex_run) = Some ex_first_st /\
  d_snp (ps_disk ex_first_st) = [] /\ length (d_fly (ps_disk ex_first_st)) = 1%nat /\
  no_collision [] (d_fly (ps_disk ex_first_st)) [TPrefix 7] = true /\
  recover_writer [] 1 (crash_image (ps_disk ex_first_st) [TPrefix 7]) = RecFail /\
  recover_reader [] (crash_image (ps_disk ex_first_st) [TPrefix 7]) = Some None /\
  recover_writer [] 1 (crash_image (ps_disk ex_first_st) [TZeros]) = RecFail /\
  (exists s, recover_writer [] 1 (crash_image (ps_disk ex_first_st) [TAbsent]) = RecFresh s) /\
  (exists r, recover_writer [] 1 (crash_image (ps_disk ex_first_st) [TFull]) = RecOk r /\ r_epoch r = 1).
Proof. exact first_snapshot_torn_proof. Qed.
Print Assumptions first_snapshot_torn.

(* check c = true (Index/ProtoCorr.v: the start directory is well-formed — disk_okb —, the opened root
   is the recovered one, the recorded events are accepted, the crash probes agree) puts the recorded run
   under all the theorems above *)
Theorem check_run_invariant : forall c,
  1 <= pc_n c -> check c = true ->
  exists st0 st, init_pstate c = Some st0 /\ start_ok (pc_table c) (pc_n c) st0 /\
    paccept_run (pc_table c) st0 (pc_events c) = Some st /\ pinv (pc_table c) st.
Proof. exact ProtoProofsRounds.check_run_invariant. Qed.
Print Assumptions check_run_invariant.
