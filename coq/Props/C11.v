(* Props/C11.v — No needed file is ever removed (the part of C11 about the deletion policy and the
   directory; handles: Props/C04.v handles_balanced; lock protocol: checked by the engine).
   Only statements, each closed by `exact`, with Print Assumptions beneath.
   Model: Index/Proto.v (KeepNLatestDeletionPolicy of index/deletion.go; the monitor paccept_ev over
   recorded runs); proofs: Index/ProtoProofsPol.v, ProtoProofsInv.v, ProtoProofsRec.v, ProtoProofsThm.v.
   A run: start_ok table n st0 (a writer opened on an empty directory, or reopened on a directory whose
   complete snapshot files all load: Index/ProtoProofsRec.v) and paccept_run table st0 evs = Some st. *)
From Coq Require Import ZArith List Bool Sorted.
From Bluge Require Import Base.Res Index.Model Index.Trace Index.Proto Index.ProtoProofsPol Index.ProtoProofsInv
  Index.ProtoProofsRec Index.ProtoProofsThm Index.ProtoProofsEx Index.ProtoProofsRoot.
Import ListNotations.
Open Scope Z_scope.

(* 12. Commit(snapshot), deletion.go:39-56: the epoch is appended to liveEpochs, the window of the N
   newest is kept (firstn/skipn arithmetic of the Go slices), what falls out is appended to
   deletableEpochs in order; liveSegments[epoch] is set; every segment becomes known *)
Theorem pol_commit_spec : forall p e ids, 0 <= p_n p ->
  let p' := pol_commit p e ids in
  let live := p_live p ++ [e] in
  p_n p' = p_n p /\
  p_live p' = lastn (Z.to_nat (p_n p)) live /\
  p_deletable p' = p_deletable p ++ firstn (length live - Z.to_nat (p_n p)) live /\
  p_livesegs p' = map_set e ids (p_livesegs p) /\
  (forall s, In s (p_known p') <-> In s (p_known p) \/ In s ids) /\
  p_deletable p' ++ p_live p' = p_deletable p ++ p_live p ++ [e] /\
  length (p_live p') = Nat.min (S (length (p_live p))) (Z.to_nat (p_n p)).
Proof. exact pol_commit_spec_proof. Qed.
Print Assumptions pol_commit_spec.

Example pol_commit_n1 :
  let p := pol_run 1 [1; 2; 3; 4; 5] in p_live p = [5] /\ p_deletable p = [1; 2; 3; 4].
Proof. exact pol_commit_n1_proof. Qed.
Print Assumptions pol_commit_n1.

Example pol_commit_n2 :
  let p := pol_run 2 [1; 2; 3; 4; 5] in p_live p = [4; 5] /\ p_deletable p = [1; 2; 3].
Proof. exact pol_commit_n2_proof. Qed.
Print Assumptions pol_commit_n2.

Example pol_commit_n3 :
  let p := pol_run 3 [1; 2; 3; 4; 5] in
  p_live p = [3; 4; 5] /\ p_deletable p = [1; 2] /\
  pol_may_remove_seg p 101 = false /\
  pol_may_remove_seg (pol_removed_snp p 1) 101 = true /\
  pol_may_remove_seg (pol_removed_snp p 1) 103 = false.
Proof. exact pol_commit_n3_proof. Qed.
Print Assumptions pol_commit_n3.

(* 11. in every state of every accepted run: knownSegmentFiles contains the segments of every entry of
   liveSegments; the keys of liveSegments are the live and the not-yet-removed deletable epochs, and
   these are exactly the complete snapshot files on disk, each with its segment list; both lists
   together are strictly increasing (every deletable epoch is older than every live one); liveEpochs
   holds at most N epochs, the N newest of all commits (those loaded at open, then those of the run) *)
Theorem policy_inv : forall table n st0, start_ok table n st0 ->
  forall evs st, paccept_run table st0 evs = Some st ->
  let p := ps_pol st in
  p_n p = n /\
  (forall e segs s, In (e, segs) (p_livesegs p) -> In s segs -> In s (p_known p)) /\
  (forall e, In e (map fst (p_livesegs p)) <-> In e (p_live p) \/ In e (p_deletable p)) /\
  (forall e, In e (map fst (d_snp (ps_disk st))) <-> In e (p_live p) \/ In e (p_deletable p)) /\
  (forall e f, In (e, f) (d_snp (ps_disk st)) -> lookup e (p_livesegs p) = Some (map fst (sf_segs f))) /\
  StronglySorted Z.lt (p_deletable p ++ p_live p) /\
  Z.of_nat (length (p_live p)) <= n /\
  p_live p = lastn (Z.to_nat n) (all_commits st0 evs) /\
  length (p_live p) = Nat.min (length (d_snp (ps_disk st0)) + length (commits_of evs)) (Z.to_nat n).
Proof. exact policy_inv_proof. Qed.
Print Assumptions policy_inv.

(* 9. retention, any N >= 1 (start_ok demands 1 <= n): with c = snapshots loaded at open + snapshots
   persisted so far, at least min(N, c) complete snapshot files exist (distinct names, among them
   every live epoch), each of which parses to its segment list, names only complete segment files,
   and loads in every crash image *)
Theorem retention : forall table n st0, start_ok table n st0 ->
  forall evs st, paccept_run table st0 evs = Some st ->
  let d := ps_disk st in
  let c := (length (d_snp (ps_disk st0)) + length (commits_of evs))%nat in
  (Nat.min (Z.to_nat n) c <= length (d_snp d))%nat /\
  NoDup (map fst (d_snp d)) /\
  (forall e, In e (p_live (ps_pol st)) -> In e (map fst (d_snp d))) /\
  length (p_live (ps_pol st)) = Nat.min (Z.to_nat n) c /\
  (forall e f, In (e, f) (d_snp d) ->
     loaded_ids table (sf_bytes f) = Some (map fst (sf_segs f)) /\
     (forall s, In s (map fst (sf_segs f)) -> In s (d_seg d)) /\
     (forall choice, no_collision table (d_fly d) choice = true ->
        load_one table (crash_image d choice) (e, sf_bytes f, Some (sf_segs f)) = LOk (sf_segs f))).
Proof. exact retention_proof. Qed.
Print Assumptions retention.

(* 10a. a segment file whose removal succeeded was named neither by a complete snapshot file on disk
   nor by the snapshot being written (for the writer's root and the grabbed snapshot: 10d) *)
Theorem no_needed_removal_seg : forall table n st0, start_ok table n st0 ->
  forall evs1 id evs2 st,
  paccept_run table st0 (evs1 ++ PRemoveOk false id :: evs2) = Some st ->
  exists st1, paccept_run table st0 evs1 = Some st1 /\
    (forall e f, In (e, f) (d_snp (ps_disk st1)) -> ~ In id (map fst (sf_segs f))) /\
    (forall f, In f (d_fly (ps_disk st1)) -> if_snp f = true -> ~ In id (map fst (if_segs f))).
Proof. exact no_needed_removal_seg_proof. Qed.
Print Assumptions no_needed_removal_seg.

(* 10b. a snapshot file whose removal succeeded was deletable: not one of the N newest commits, and a
   newer live one is on disk *)
Theorem no_needed_removal_snp : forall table n st0, start_ok table n st0 ->
  forall evs1 e evs2 st,
  paccept_run table st0 (evs1 ++ PRemoveOk true e :: evs2) = Some st ->
  exists st1, paccept_run table st0 evs1 = Some st1 /\
    let p := ps_pol st1 in
    In e (p_deletable p) /\ ~ In e (p_live p) /\
    p_live p = lastn (Z.to_nat n) (all_commits st0 evs1) /\
    (exists e', In e' (p_live p) /\ e < e' /\ In e' (map fst (d_snp (ps_disk st1)))) /\
    (forall e', In e' (p_live p) -> e < e').
Proof. exact no_needed_removal_snp_proof. Qed.
Print Assumptions no_needed_removal_snp.

(* 10c. one step, any state: if the policy was told about every snapshot file on disk, an accepted
   segment removal touches no segment a snapshot file or the snapshot being written names *)
Theorem no_needed_removal_step : forall table st id st',
  policy_told st -> paccept_ev table st (PRemoveOk false id) = Some st' ->
  (forall e f, In (e, f) (d_snp (ps_disk st)) -> ~ In id (map fst (sf_segs f))) /\
  (forall f, In f (d_fly (ps_disk st)) -> if_snp f = true -> ~ In id (map fst (if_segs f))) /\
  d_snp (ps_disk st') = d_snp (ps_disk st) /\
  (forall s, In s (d_seg (ps_disk st')) <-> In s (d_seg (ps_disk st)) /\ s <> id).
Proof. exact no_needed_removal_step_proof. Qed.
Print Assumptions no_needed_removal_step.

(* 10d. the writer's live state.  persisted_ids sn = the file-backed segments of a snapshot; ps_grabbed =
   the snapshot the persister works on: (epoch, file-backed segments of the root it grabbed), from the
   grab until the commit of its snapshot file (grabbed_since).  In every state of every accepted run the
   policy marks none of them removable ... *)
Theorem live_state_protected : forall table n st0 evs st,
  start_ok table n st0 -> paccept_run table st0 evs = Some st ->
  (forall s, In s (persisted_ids (t_root (ps_t st))) -> pol_may_remove_seg (ps_pol st) s = false) /\
  (forall e G s, ps_grabbed st = Some (e, G) -> In s G -> pol_may_remove_seg (ps_pol st) s = false).
Proof. exact live_state_protected_proof. Qed.
Print Assumptions live_state_protected.

(* ... hence a segment file whose removal succeeded is neither a file-backed segment of the writer's root
   nor one of the snapshot the persister has grabbed *)
Theorem no_needed_removal_root : forall table n st0 evs1 id evs2 st,
  start_ok table n st0 ->
  paccept_run table st0 (evs1 ++ PRemoveOk false id :: evs2) = Some st ->
  exists st1, paccept_run table st0 evs1 = Some st1 /\
    ~ In id (persisted_ids (t_root (ps_t st1))) /\
    (forall e G, ps_grabbed st1 = Some (e, G) -> ~ In id G).
Proof. exact no_needed_removal_root_proof. Qed.
Print Assumptions no_needed_removal_root.

(* what ps_grabbed holds: after an accepted PGrab e, as long as no snapshot was committed and nothing was
   grabbed again, it is (e, the file-backed segments of the root at the grab) *)
Theorem grabbed_since : forall table st0 evs1 e nacks evs2 st,
  paccept_run table st0 (evs1 ++ PGrab e nacks :: evs2) = Some st ->
  (forall ev, In ev evs2 -> keeps_grab ev) ->
  exists st1, paccept_run table st0 evs1 = Some st1 /\
    ps_grabbed st = Some (e, persisted_ids (t_root (ps_t st1))) /\ e = sn_epoch (t_root (ps_t st1)).
Proof. exact grabbed_since_proof. Qed.
Print Assumptions grabbed_since.

(* the invariant behind it holds in every state of every accepted run: every file-backed root segment the
   policy knows is named by the liveSegments entry of a LIVE epoch; between a grab and the commit of its
   snapshot, every known file-backed root segment was file-backed in the grabbed root; the snapshot in
   flight is the grabbed one and keeps all of those *)
Theorem run_root_invariant : forall table n st0 evs st,
  start_ok table n st0 -> paccept_run table st0 evs = Some st -> root_inv st.
Proof. exact run_root_inv. Qed.
Print Assumptions run_root_invariant.

(* removal_only_by_policy: every Remove that succeeded, and every Remove that failed, was of a file the
   policy model marks removable: a deletable epoch; a known segment that no liveSegments entry names *)
Theorem removal_only_by_policy : forall table st0 evs1 snp id evs2 st,
  paccept_run table st0 (evs1 ++ PRemoveOk snp id :: evs2) = Some st ->
  exists st1, paccept_run table st0 evs1 = Some st1 /\
    if snp then pol_may_remove_snp (ps_pol st1) id = true /\ In id (p_deletable (ps_pol st1))
    else pol_may_remove_seg (ps_pol st1) id = true /\ In id (p_known (ps_pol st1)) /\
         forall e ids, In (e, ids) (p_livesegs (ps_pol st1)) -> ~ In id ids.
Proof. exact removal_only_by_policy_proof. Qed.
Print Assumptions removal_only_by_policy.

Theorem removal_attempt_by_policy : forall table st0 evs1 snp id evs2 st,
  paccept_run table st0 (evs1 ++ PRemoveErr snp id :: evs2) = Some st ->
  exists st1, paccept_run table st0 evs1 = Some st1 /\
    if snp then pol_may_remove_snp (ps_pol st1) id = true else pol_may_remove_seg (ps_pol st1) id = true.
Proof. exact removal_attempt_by_policy_proof. Qed.
Print Assumptions removal_attempt_by_policy.

(* N = 1: batch 1 persisted and committed; batch 2 replaces its only document, segment 1 leaves the root;
   batch 2 persisted and committed; epoch 1 and then segment 1 are removed.  The file-backed root segment
   2 is not removable; segment 1 was not while the root used it; a snapshot dropping a file-backed
   segment of the grabbed root is refused; an id the policy still knows cannot become file-backed again.
   (reader_pins — a file with an open handle is not removed — is a property of the Directory, flock /
   SimDir PinOpen: trusted, see docs/proofs-proto.md.) *)
Example root_example :
  paccept_run [] (st_fresh 1) rx_run = Some rx_st /\
  persisted_ids (t_root (ps_t rx_st)) = [2] /\ d_seg (ps_disk rx_st) = [2] /\
  map fst (d_snp (ps_disk rx_st)) = [3] /\ ps_grabbed rx_st = None /\
  paccept_run [] (st_fresh 1) (rx_run ++ [PRemoveOk false 2]) = None /\
  paccept_run [] (st_fresh 1) (firstn 10 rx_run ++ [PRemoveOk false 1]) = None /\
  paccept_run [] (st_fresh 1) (firstn 7 rx_run ++ [PPersistStart true 1 (SnapshotCodec.encode {| SnapshotCodec.sn_segs := [] |}) []]) = None /\
  paccept_run [] (st_fresh 1)
    (firstn 21 rx_run ++ [PI (ECall 3); PI (EIntro 3 ex_b1 [] 1 {| sn_epoch := 5; sn_segs := [rx_s2p; ex_s1] |});
                          PI (EPersistSwap [1] {| sn_epoch := 6; sn_segs := [rx_s2p; rx_s1p] |})]) = None /\
  paccept_run [] (st_fresh 1)
    (rx_run ++ [PI (ECall 3); PI (EIntro 3 ex_b1 [] 1 {| sn_epoch := 5; sn_segs := [rx_s2p; ex_s1] |});
                PI (EPersistSwap [1] {| sn_epoch := 6; sn_segs := [rx_s2p; rx_s1p] |})]) <> None.
Proof. exact root_example_proof. Qed.
Print Assumptions root_example.
