(* Props/C18.v — Analysis is total, deterministic and offset-correct on any bytes.
   Only statements, each closed by `exact`, with Print Assumptions beneath. *)
From Coq Require Import ZArith List Bool Sorted.
From Bluge Require Import Base.Res Base.Corr Base.UTF8 Gen.ParamsAnalysis
  Analysis.Pipeline Analysis.PipelineProofs Analysis.Tokenizers Analysis.TokenizersProofs
  Analysis.Filters Analysis.FiltersProofs Analysis.ShingleProofs Analysis.ReverseProofs Analysis.Filters2 Analysis.Filters2Proofs Analysis.CharFilters Analysis.CharFiltersProofs Analysis.Freq Analysis.FreqProofs Analysis.Merge Analysis.MergeProofs Analysis.ExamplesProofs.
Import ListNotations.
Open Scope Z_scope.

(* ---------- the pipeline ---------- *)

(* if the tokenizer meets tok_ok for the text it saw (the input after the char filters) and
   every token filter preserves tok_ok for that length, the analyzer output meets it — for any
   number of char filters and token filters *)
Theorem pipeline_preserves : forall (a : analyzer) (input : list Z) (out : tstream),
  (forall ts, a_tok a (char_filtered a input) = Ok ts -> tok_ok (len (char_filtered a input)) ts) ->
  Forall (preserves (len (char_filtered a input))) (a_filters a) ->
  analyze a input = Ok out ->
  tok_ok (len (char_filtered a input)) out.
Proof. exact pipeline_preserves_all. Qed.
Print Assumptions pipeline_preserves.

(* totality composes too: a total tokenizer and total filters give a total analyzer
   (no Panic, no OutOfFuel) *)
Theorem pipeline_total : forall (a : analyzer) (input : list Z),
  (exists ts, a_tok a (char_filtered a input) = Ok ts) ->
  Forall total_filter (a_filters a) ->
  exists out, analyze a input = Ok out.
Proof. exact pipeline_total_all. Qed.
Print Assumptions pipeline_total.

(* hypotheses satisfiable: letter tokenizer; lowercase; stop; length; 2..3-grams on
   "The Quick a fox\xff" gives ten tokens *)
Example pipeline_example :
  (forall ts, a_tok ex_analyzer (char_filtered ex_analyzer ex_input) = Ok ts ->
              tok_ok (len (char_filtered ex_analyzer ex_input)) ts) /\
  Forall (preserves (len (char_filtered ex_analyzer ex_input))) (a_filters ex_analyzer) /\
  exists out, analyze ex_analyzer ex_input = Ok out /\ length out = 10%nat /\
              tok_ok (len (char_filtered ex_analyzer ex_input)) out.
Proof. exact ex_pipeline. Qed.
Print Assumptions pipeline_example.

(* the executable contract checkers run on recorded stages decide the contracts *)
Theorem tok_ok_checker_sound : forall L ts, tok_okb L ts = true <-> tok_ok L ts.
Proof. exact tok_okb_spec. Qed.
Print Assumptions tok_ok_checker_sound.

Theorem pure_checker_sound : forall input ts, pure_tokb input ts = true <-> pure_tok input ts.
Proof. exact pure_tokb_spec. Qed.
Print Assumptions pure_checker_sound.

(* ---------- tokenizers: total and pure on every byte string ---------- *)

(* character tokenizer with any rune predicate (letter.go, whitespace.go are instances):
   returns (no panic, fuel never exhausted), offsets within the input, increments >= 0,
   term = input[start:end] *)
Theorem char_tokenize_pure : forall (is_tok : Z -> bool) (input : list Z),
  exists ts, char_tokenize is_tok input = Ok ts /\ pure_tok input ts.
Proof. exact char_tokenize_pure_all. Qed.
Print Assumptions char_tokenize_pure.

Theorem single_tokenize_pure : forall input : list Z,
  exists ts, single_tokenize input = Ok ts /\ pure_tok input ts.
Proof. exact single_tokenize_pure_all. Qed.
Print Assumptions single_tokenize_pure.

(* ---------- token filters: preserve the contract ---------- *)

Theorem length_preserves : forall L mn mx ts, tok_ok L ts -> tok_ok L (length_filter mn mx ts).
Proof. exact length_preserves_all. Qed.
Print Assumptions length_preserves.

Theorem stop_preserves : forall L (is_stop : list Z -> bool) ts, tok_ok L ts -> tok_ok L (stop_filter is_stop ts).
Proof. exact stop_preserves_all. Qed.
Print Assumptions stop_preserves.

Theorem unique_preserves : forall L ts, tok_ok L ts -> tok_ok L (unique_filter ts).
Proof. exact unique_preserves_all. Qed.
Print Assumptions unique_preserves.

Theorem keyword_preserves : forall L (is_kw : list Z -> bool) ts, tok_ok L ts -> tok_ok L (keyword_filter is_kw ts).
Proof. exact keyword_preserves_all. Qed.
Print Assumptions keyword_preserves.

Theorem truncate_preserves : forall L n, preserves L (truncate_filter n).
Proof. exact truncate_preserves_all. Qed.
Print Assumptions truncate_preserves.

Theorem truncate_total : forall n, 0 <= n -> total_filter (truncate_filter n).
Proof. exact truncate_total_all. Qed.
Print Assumptions truncate_total.

(* outside the parameter range: a negative length panics (runes[:len-num] with a negative bound) *)
Theorem truncate_negative_length_refuted : exists n ts, truncate_filter n ts = Panic 1.
Proof. exact truncate_negative_panics. Qed.
Print Assumptions truncate_negative_length_refuted.

Theorem lowercase_preserves : forall L (lower : Z -> Z), preserves L (lowercase_filter lower).
Proof. exact lowercase_preserves_all. Qed.
Print Assumptions lowercase_preserves.

Theorem ngram_preserves : forall L mn mx, preserves L (ngram_filter mn mx).
Proof. exact ngram_preserves_all. Qed.
Print Assumptions ngram_preserves.

Theorem edge_ngram_preserves : forall L back mn mx, preserves L (edge_filter back mn mx).
Proof. exact edge_preserves_all. Qed.
Print Assumptions edge_ngram_preserves.

Theorem reverse_preserves : forall L fixed (is_mark : Z -> bool), preserves L (reverse_filter fixed is_mark).
Proof. exact reverse_preserves_all. Qed.
Print Assumptions reverse_preserves.

Theorem apostrophe_preserves : forall L ts, tok_ok L ts -> tok_ok L (apostrophe_filter ts).
Proof. exact apostrophe_preserves_all. Qed.
Print Assumptions apostrophe_preserves.

Theorem elision_preserves : forall L (is_article : list Z -> bool) ts, tok_ok L ts -> tok_ok L (elision_filter is_article ts).
Proof. exact elision_preserves_all. Qed.
Print Assumptions elision_preserves.

(* ---------- token filters: total on their parameter ranges, on every byte string ---------- *)

Theorem ngram_total : forall mn mx, 0 <= mn -> total_filter (ngram_filter mn mx).
Proof. exact ngram_total_all. Qed.
Print Assumptions ngram_total.

Theorem edge_ngram_total : forall back mn mx, 0 <= mn -> total_filter (edge_filter back mn mx).
Proof. exact edge_total_all. Qed.
Print Assumptions edge_ngram_total.

(* outside the parameter range: a negative minimum slices runes[i:i+n] with n < 0 *)
Theorem ngram_negative_min_refuted : exists mn mx ts, ngram_filter mn mx ts = Panic 3.
Proof. exact ngram_negative_panics. Qed.
Print Assumptions ngram_negative_min_refuted.

(* lowercase.go returns for every lower-casing table that maps into valid runes (as
   unicode.ToLower does): the in-place writes never run out of room, the loop ends *)
Theorem lowercase_total : forall lower : Z -> Z,
  (forall r, valid_rune (lower r) = true) -> total_filter (lowercase_filter lower).
Proof. exact lowercase_total_all. Qed.
Print Assumptions lowercase_total.

(* what it computes when a replacement is narrower than the original (Kelvin sign -> k):
   "\xe2\x84\xaael" becomes "k\x84\xaa", the unchanged runes that follow are not moved down *)
Example lowercase_stale_bytes_example :
  lower_term (fun r => if r =? 8490 then 107 else r) [226; 132; 170; 101; 108] = Ok [107; 132; 170].
Proof. exact lowercase_stale_bytes. Qed.
Print Assumptions lowercase_stale_bytes_example.

(* reverse.go as pinned (fixed = false: rune widths from utf8.RuneLen of the decoded rune)
   panics on an invalid byte; the repaired line (fixed = true) returns on the same input *)
Theorem reverse_pinned_refuted : exists (is_mark : Z -> bool) ts, reverse_filter false is_mark ts = Panic 4.
Proof. exact reverse_pinned_panics. Qed.
Print Assumptions reverse_pinned_refuted.

Example reverse_fixed_example :
  reverse_filter true (fun _ => false) [Tk 0 3 [97; 255; 98] 1 0 false] = Ok [Tk 0 3 [98; 255; 97] 1 0 false].
Proof. exact reverse_fixed_witness. Qed.
Print Assumptions reverse_fixed_example.

(* the repaired reverse.go returns on every byte string (terms of bytes in [0,256); the mark
   classes Mn/Me/Mc do not contain U+FFFD): the repair is panic-free for all inputs *)
Theorem reverse_total : forall is_mark : Z -> bool,
  is_mark rune_error = false ->
  forall ts, Forall (fun t => bytes_ok (t_term t) = true) ts ->
             exists out, reverse_filter true is_mark ts = Ok out.
Proof. exact reverse_total_all. Qed.
Print Assumptions reverse_total.

(* shingle.go: the contract is preserved on streams whose offsets are in text order (every
   bundled tokenizer emits such streams), for every min, max, separator and filler ... *)
Theorem shingle_preserves : forall L mn mx oo sep fill ts out,
  tok_ok L ts -> ordered ts -> shingle_filter mn mx oo sep fill ts = Ok out -> tok_ok L out.
Proof. exact shingle_preserves_ordered_all. Qed.
Print Assumptions shingle_preserves.

Theorem shingle_total : forall mn mx oo sep fill, 0 < mx -> total_filter (shingle_filter mn mx oo sep fill).
Proof. exact shingle_total_all. Qed.
Print Assumptions shingle_total.

(* ... and NOT from tok_ok alone (full statement: forall ts, tok_ok L ts -> tok_ok L (shingle ts)):
   two tokens whose offsets run backwards give a shingle with start 5 > end 2 *)
Theorem shingle_preserves_refuted :
  exists L mn mx oo sep fill ts out,
    tok_ok L ts /\ shingle_filter mn mx oo sep fill ts = Ok out /\ ~ tok_ok L out.
Proof. exact shingle_unordered_refuted. Qed.
Print Assumptions shingle_preserves_refuted.

Theorem shingle_max_zero_refuted : exists mn mx oo sep fill ts, shingle_filter mn mx oo sep fill ts = Panic 5.
Proof. exact shingle_max_zero_panics. Qed.
Print Assumptions shingle_max_zero_refuted.

(* ---------- further exactly modelled filters (Filters2.v), as repaired ---------- *)

(* camelcase.go (+ parser, states): for every classification of the runes (IsLower, IsUpper,
   IsNumber) the repaired filter (offsets kept inside the source token, fefca47) preserves the
   contract; it is a structurally recursive function of the stream: total and deterministic *)
Theorem camel_preserves : forall (is_lower is_upper is_number : Z -> bool) L ts,
  tok_ok L ts -> tok_ok L (camel_filter is_lower is_upper is_number true ts).
Proof. exact camel_preserves_all. Qed.
Print Assumptions camel_preserves.

(* the offsets as computed before the repair (clamp = false) break it: "\xff\xff" gives End 6 on 2 bytes *)
Theorem camel_pinned_refuted :
  exists L ts, tok_ok L ts /\ ~ tok_ok L (camel_filter (fun _ => false) (fun _ => false) (fun _ => false) false ts).
Proof. exact camel_unclamped_refuted_w. Qed.
Print Assumptions camel_pinned_refuted.

Example camel_example :
  camel_filter ex_ascii_lower ex_ascii_upper ex_ascii_digit true
               [Tk 3 16 [72;84;84;80;83;101;114;118;101;114;50;71;111] 1 0 false]
  = [Tk 3 7 [72;84;84;80] 1 0 false; Tk 7 13 [83;101;114;118;101;114] 1 0 false;
     Tk 13 14 [50] 1 0 false; Tk 14 16 [71;111] 1 0 false].
Proof. exact ex_camel. Qed.
Print Assumptions camel_example.

(* dict.go: every dictionary, every size parameter, longest-match or not *)
Theorem dict_compound_preserves : forall (in_dict : list Z -> bool) min_word min_sub max_sub only_longest L,
  preserves L (dict_filter in_dict min_word min_sub max_sub only_longest true).
Proof. exact dict_preserves_all. Qed.
Print Assumptions dict_compound_preserves.

Theorem dict_compound_total : forall (in_dict : list Z -> bool) min_word min_sub max_sub only_longest clamp,
  0 <= min_sub -> total_filter (dict_filter in_dict min_word min_sub max_sub only_longest clamp).
Proof. exact dict_total_all. Qed.
Print Assumptions dict_compound_total.

(* before d348d1a (rune-counted offsets from the token start, clamp = false): term "abc" on a
   one-byte span with dictionary {"c"} gives a sub-word [2,3) on a 1-byte text *)
Theorem dict_compound_pinned_refuted :
  exists L ts out,
    tok_ok L ts /\ dict_filter (zlist_eqb [99]) 1 1 1 false false ts = Ok out /\ ~ tok_ok L out.
Proof. exact dict_unclamped_refuted_w. Qed.
Print Assumptions dict_compound_pinned_refuted.

(* outside the parameter range: a negative minimum sub-word size panics *)
Theorem dict_compound_negative_min_refuted :
  exists ts, dict_filter (fun _ => true) 1 (-1) 1 false true ts = Panic 6.
Proof. exact dict_negative_min_sub_panics. Qed.
Print Assumptions dict_compound_negative_min_refuted.

Example dict_compound_example :
  dict_filter (fun w => zlist_eqb w [115;111;102;116] || zlist_eqb w [98;97;108;108]) 5 2 15 false true
              [Tk 0 8 [115;111;102;116;98;97;108;108] 1 0 false]
  = Ok [Tk 0 8 [115;111;102;116;98;97;108;108] 1 0 false; Tk 0 4 [115;111;102;116] 0 0 false;
        Tk 4 8 [98;97;108;108] 0 0 false].
Proof. exact ex_dict. Qed.
Print Assumptions dict_compound_example.

(* cjk_bigram.go (rune widths from the bytes e95f6cc, offsets inside the source token 943dd1b),
   with and without unigrams; total and deterministic by construction *)
Theorem bigram_preserves : forall (output_unigram : bool) L ts,
  tok_ok L ts -> tok_ok L (bigram_filter output_unigram true ts).
Proof. exact bigram_preserves_all. Qed.
Print Assumptions bigram_preserves.

(* before 943dd1b: an ideographic token [1,4) whose term was rewritten to three U+FFFD *)
Theorem bigram_pinned_refuted :
  exists L ts, tok_ok L ts /\ ~ tok_ok L (bigram_filter false false ts).
Proof. exact bigram_unclamped_refuted_w. Qed.
Print Assumptions bigram_pinned_refuted.

Example bigram_example :
  bigram_filter false true [Tk 0 7 [230;188;162; 229;173;151; 120] 1 tt_ideographic false]
  = [Tk 0 6 [230;188;162; 229;173;151] 1 tt_double false; Tk 3 7 [229;173;151; 120] 1 tt_double false].
Proof. exact ex_bigram. Qed.
Print Assumptions bigram_example.

(* cjk_width.go over its own tables (kanaNorm, kanaCombineVoiced, kanaCombineHalfVoiced, T-gen):
   no table index leaves its table on any byte string *)
Theorem width_preserves : forall L kn cv ch, preserves L (width_filter kn cv ch).
Proof. exact width_preserves_all. Qed.
Print Assumptions width_preserves.

Theorem width_total : total_filter (width_filter cjk_kana_norm cjk_combine_voiced cjk_combine_half_voiced).
Proof. exact width_total_all. Qed.
Print Assumptions width_total.

Example width_example :
  width_term cjk_kana_norm cjk_combine_voiced cjk_combine_half_voiced [239;189;182; 239;190;158] = Ok [227;130;172].
Proof. exact ex_width. Qed.
Print Assumptions width_example.

(* possessive_filter_en.go *)
Theorem possessive_preserves : forall L ts, tok_ok L ts -> tok_ok L (possessive_filter ts).
Proof. exact possessive_preserves_all. Qed.
Print Assumptions possessive_preserves.

Example possessive_example : possessive_term [74;111;104;110;226;128;153;115] = [74;111;104;110].
Proof. exact ex_possessive. Qed.
Print Assumptions possessive_example.

(* ---------- character filters ---------- *)

(* asciifolding.go: the switch of foldToASCII is the table ascii_fold_table (1242 case values,
   regenerated from the Go AST on every run); every case extends the output slice by one less
   than the runes it writes and writes 1..maxRuneExpansion runes (checked by computation) ... *)
Theorem ascii_fold_table_wellformed : fold_table_ok ascii_fold_table ascii_fold_max_expansion = true.
Proof. exact ascii_fold_table_shape. Qed.
Print Assumptions ascii_fold_table_wellformed.

(* ... hence the filter returns on every byte string: no write past the output slice, no
   extension past its capacity *)
Theorem ascii_fold_total : forall input : list Z, exists out, ascii_fold input = Ok out.
Proof. exact ascii_fold_total_all. Qed.
Print Assumptions ascii_fold_total.

Example ascii_fold_example : ascii_fold [195;134;111;110;32;239;172;129;120] = Ok [65;69;111;110;32;102;105;120].
Proof. exact ex_ascii_fold. Qed.
Print Assumptions ascii_fold_example.

(* zerowidthnonjoiner.go: a total function of the bytes that never grows the text *)
Theorem zwnj_no_growth : forall input : list Z, len (zwnj_filter input) <= len input.
Proof. exact zwnj_no_growth_all. Qed.
Print Assumptions zwnj_no_growth.

Example zwnj_example : zwnj_filter [217;133;226;128;140;255;120] = [217;133;32;255;120].
Proof. exact ex_zwnj. Qed.
Print Assumptions zwnj_example.

(* the filters that drop tokens carry the increments over: every surviving token keeps the
   absolute position it had (PositionIncr is not lost) *)
Theorem stop_keeps_positions : forall (is_stop : list Z -> bool) ts start,
  located start (stop_filter is_stop ts) = filter (keep_not is_stop) (located start ts).
Proof. exact stop_keeps_positions_all. Qed.
Print Assumptions stop_keeps_positions.

Theorem length_keeps_positions : forall mn mx ts start,
  Forall (fun t => 0 <= t_incr t) ts ->
  located start (length_filter mn mx ts) = filter (keep_not (length_drop mn mx)) (located start ts).
Proof. exact length_keeps_positions_all. Qed.
Print Assumptions length_keeps_positions.

Example stop_positions_example :
  located 100 (stop_filter (zlist_eqb [99;100]) ex_stream) = [([97;98], Loc 0 2 101); ([97;98], Loc 10 12 105)].
Proof. exact ex_stop_positions. Qed.
Print Assumptions stop_positions_example.

(* ---------- TokenFrequency ---------- *)

(* positions are the running sum of the increments from the start offset, non-decreasing when
   the increments are >= 0; every location is recorded exactly once under its term (distinct
   keys; per term exactly the locations of its occurrences, in order); frequency = number of
   occurrences; the returned position is the last one *)
Theorem freq_positions : forall (ts : tstream) (start : Z),
  let m := fst (token_frequency ts true start) in
  (forall term, locs_for m term = locs_of term start ts) /\
  NoDup (indexed_terms m) /\
  map (fun x => l_pos (snd x)) (located start ts) = positions start ts /\
  (forall term, freq_for m term = occurrences term ts /\ Z.of_nat (length (locs_for m term)) = occurrences term ts) /\
  snd (token_frequency ts true start) = last (positions start ts) start /\
  (Forall (fun t => 0 <= t_incr t) ts -> StronglySorted Z.le (start :: positions start ts)).
Proof. exact freq_positions_all. Qed.
Print Assumptions freq_positions.

Theorem freq_without_locations : forall (ts : tstream) (start : Z),
  let m := fst (token_frequency ts false start) in
  (forall term, freq_for m term = occurrences term ts /\ locs_for m term = []) /\
  NoDup (indexed_terms m) /\ snd (token_frequency ts false start) = 0.
Proof. exact freq_plain_all. Qed.
Print Assumptions freq_without_locations.

Example freq_example :
  Forall (fun t => 0 <= t_incr t) ex_stream /\
  positions 100 ex_stream = [101; 104; 105] /\
  locs_for (fst (token_frequency ex_stream true 100)) [97;98] = [Loc 0 2 101; Loc 10 12 105] /\
  freq_for (fst (token_frequency ex_stream true 100)) [97;98] = 2 /\
  snd (token_frequency ex_stream true 100) = 105.
Proof. exact ex_freq. Qed.
Print Assumptions freq_example.

(* ---------- TokenFrequencies.MergeAll (composite fields) ---------- *)

(* merging a source map (distinct keys, as TokenFrequency returns them) into a destination map:
   the merged frequency is the sum, the merged locations are the destination's followed by the
   source's; the source keeps its terms, frequencies and the offsets/positions of its locations:
   the one thing the real code changes in the source is FieldVal of its locations (they are
   shared by pointer and `l.FieldVal = remoteField` rewrites them) *)
Theorem merge_all_correct : forall (dst : fmap) (remote : list Z) (src : fmap),
  NoDup (fterms src) ->
  let '(merged, src') := merge_all dst remote src in
  (forall term, ffreq_for merged term = ffreq_for dst term + ffreq_for src term) /\
  (forall term, flocs_for merged term =
                flocs_for dst term ++ map (fun l => FLoc remote (fl_loc l)) (flocs_for src term)) /\
  map ft_term src' = map ft_term src /\
  map ft_freq src' = map ft_freq src /\
  map (fun e => map fl_loc (ft_locs e)) src' = map (fun e => map fl_loc (ft_locs e)) src /\
  Forall (fun e => Forall (fun l => fl_field l = remote) (ft_locs e)) src'.
Proof. exact merge_all_spec. Qed.
Print Assumptions merge_all_correct.

(* the hypothesis holds of every map TokenFrequency returns *)
Theorem token_frequency_keys_distinct : forall ts tv start,
  NoDup (fterms (lift_map (fst (token_frequency ts tv start)))).
Proof. exact lift_map_nodup. Qed.
Print Assumptions token_frequency_keys_distinct.

(* two fields sharing the term "ab" (twice each), the first indexed without locations: merged
   frequency 4, both sources still 2 *)
Example merge_example :
  let '(merged, srcs) := merge_seq [] [([102], ex_src1); ([103], ex_src2)] in
  ffreq_for merged [97;98] = 4 /\ ffreq_for (nth 0 srcs []) [97;98] = 2 /\ ffreq_for (nth 1 srcs []) [97;98] = 2 /\
  map fl_field (flocs_for merged [97;98]) = [[103]; [103]].
Proof. exact ex_merge. Qed.
Print Assumptions merge_example.

(* ---------- match round trip ---------- *)

(* for any deterministic analyzer function A and any document text d: if A d yields a token,
   the conjunction of term queries on the terms of A d (the query-time analysis of the same
   text) is non-empty and every one of its terms is in the document's indexed term set *)
Theorem match_finds_own_text : forall (A : list Z -> tstream) (d : list Z) (tv : bool) (start : Z),
  A d <> [] ->
  map t_term (A d) <> [] /\
  match_and (map t_term (A d)) (fst (token_frequency (A d) tv start)) = true.
Proof. exact match_finds_own_text_all. Qed.
Print Assumptions match_finds_own_text.

Example match_example :
  (fun d => match analyze ex_analyzer d with Ok ts => ts | _ => [] end) ex_input <> [] /\
  match_and (map t_term ((fun d => match analyze ex_analyzer d with Ok ts => ts | _ => [] end) ex_input))
            (fst (token_frequency ((fun d => match analyze ex_analyzer d with Ok ts => ts | _ => [] end) ex_input) false 0)) = true.
Proof. exact ex_match. Qed.
Print Assumptions match_example.
