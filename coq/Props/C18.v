(* Props/C18.v — Analysis is total, deterministic and offset-correct on any bytes.
   Only statements, each closed by `exact`, with Print Assumptions beneath. *)
From Coq Require Import ZArith List Bool Sorted.
From Bluge Require Import Base.Res Base.Corr Base.UTF8 Gen.ParamsAnalysis
  Analysis.Pipeline Analysis.PipelineProofs Analysis.Tokenizers Analysis.TokenizersProofs
  Analysis.Filters Analysis.FiltersProofs Analysis.ShingleProofs Analysis.ReverseProofs Analysis.Freq Analysis.FreqProofs Analysis.ExamplesProofs.
Import ListNotations.
Open Scope Z_scope.

(* ---------- the pipeline ---------- *)

(* if the tokenizer meets tok_ok for the text it saw (the input after the char filters) and
   every token filter preserves tok_ok for that length, the analyzer output meets it — for any
   number of char filters and token filters *)
Theorem pipeline_preserves : forall (a : analyzer) (input : list Z) (out : tstream),
  (forall ts, a_tok a (char_filtered a input) = Ok ts -> tok_ok (len (char_filtered a input)) ts) ->
  Forall (preserves (len (char_filtered a input))) (a_filters a) ->
  analyze a input = Ok out ->
  tok_ok (len (char_filtered a input)) out.
Proof. exact pipeline_preserves_all. Qed.
Print Assumptions pipeline_preserves.

(* totality composes too: a total tokenizer and total filters give a total analyzer
   (no Panic, no OutOfFuel) *)
Theorem pipeline_total : forall (a : analyzer) (input : list Z),
  (exists ts, a_tok a (char_filtered a input) = Ok ts) ->
  Forall total_filter (a_filters a) ->
  exists out, analyze a input = Ok out.
Proof. exact pipeline_total_all. Qed.
Print Assumptions pipeline_total.

(* hypotheses satisfiable: letter tokenizer; lowercase; stop; length; 2..3-grams on
   "The Quick a fox\xff" gives ten tokens *)
Example pipeline_example :
  (forall ts, a_tok ex_analyzer (char_filtered ex_analyzer ex_input) = Ok ts ->
              tok_ok (len (char_filtered ex_analyzer ex_input)) ts) /\
  Forall (preserves (len (char_filtered ex_analyzer ex_input))) (a_filters ex_analyzer) /\
  exists out, analyze ex_analyzer ex_input = Ok out /\ length out = 10%nat /\
              tok_ok (len (char_filtered ex_analyzer ex_input)) out.
Proof. exact ex_pipeline. Qed.
Print Assumptions pipeline_example.

(* the executable contract checkers run on recorded stages decide the contracts *)
Theorem tok_ok_checker_sound : forall L ts, tok_okb L ts = true <-> tok_ok L ts.
Proof. exact tok_okb_spec. Qed.
Print Assumptions tok_ok_checker_sound.

Theorem pure_checker_sound : forall input ts, pure_tokb input ts = true <-> pure_tok input ts.
Proof. exact pure_tokb_spec. Qed.
Print Assumptions pure_checker_sound.

(* ---------- tokenizers: total and pure on every byte string ---------- *)

(* character tokenizer with any rune predicate (letter.go, whitespace.go are instances):
   returns (no panic, fuel never exhausted), offsets within the input, increments >= 0,
   term = input[start:end] *)
Theorem char_tokenize_pure : forall (is_tok : Z -> bool) (input : list Z),
  exists ts, char_tokenize is_tok input = Ok ts /\ pure_tok input ts.
Proof. exact char_tokenize_pure_all. Qed.
Print Assumptions char_tokenize_pure.

Theorem single_tokenize_pure : forall input : list Z,
  exists ts, single_tokenize input = Ok ts /\ pure_tok input ts.
Proof. exact single_tokenize_pure_all. Qed.
Print Assumptions single_tokenize_pure.

(* ---------- token filters: preserve the contract ---------- *)

Theorem length_preserves : forall L mn mx ts, tok_ok L ts -> tok_ok L (length_filter mn mx ts).
Proof. exact length_preserves_all. Qed.
Print Assumptions length_preserves.

Theorem stop_preserves : forall L (is_stop : list Z -> bool) ts, tok_ok L ts -> tok_ok L (stop_filter is_stop ts).
Proof. exact stop_preserves_all. Qed.
Print Assumptions stop_preserves.

Theorem unique_preserves : forall L ts, tok_ok L ts -> tok_ok L (unique_filter ts).
Proof. exact unique_preserves_all. Qed.
Print Assumptions unique_preserves.

Theorem keyword_preserves : forall L (is_kw : list Z -> bool) ts, tok_ok L ts -> tok_ok L (keyword_filter is_kw ts).
Proof. exact keyword_preserves_all. Qed.
Print Assumptions keyword_preserves.

Theorem truncate_preserves : forall L n, preserves L (truncate_filter n).
Proof. exact truncate_preserves_all. Qed.
Print Assumptions truncate_preserves.

Theorem truncate_total : forall n, 0 <= n -> total_filter (truncate_filter n).
Proof. exact truncate_total_all. Qed.
Print Assumptions truncate_total.

(* outside the parameter range: a negative length panics (runes[:len-num] with a negative bound) *)
Theorem truncate_negative_length_refuted : exists n ts, truncate_filter n ts = Panic 1.
Proof. exact truncate_negative_panics. Qed.
Print Assumptions truncate_negative_length_refuted.

Theorem lowercase_preserves : forall L (lower : Z -> Z), preserves L (lowercase_filter lower).
Proof. exact lowercase_preserves_all. Qed.
Print Assumptions lowercase_preserves.

Theorem ngram_preserves : forall L mn mx, preserves L (ngram_filter mn mx).
Proof. exact ngram_preserves_all. Qed.
Print Assumptions ngram_preserves.

Theorem edge_ngram_preserves : forall L back mn mx, preserves L (edge_filter back mn mx).
Proof. exact edge_preserves_all. Qed.
Print Assumptions edge_ngram_preserves.

Theorem reverse_preserves : forall L fixed (is_mark : Z -> bool), preserves L (reverse_filter fixed is_mark).
Proof. exact reverse_preserves_all. Qed.
Print Assumptions reverse_preserves.

Theorem apostrophe_preserves : forall L ts, tok_ok L ts -> tok_ok L (apostrophe_filter ts).
Proof. exact apostrophe_preserves_all. Qed.
Print Assumptions apostrophe_preserves.

Theorem elision_preserves : forall L (is_article : list Z -> bool) ts, tok_ok L ts -> tok_ok L (elision_filter is_article ts).
Proof. exact elision_preserves_all. Qed.
Print Assumptions elision_preserves.

(* ---------- token filters: total on their parameter ranges, on every byte string ---------- *)

Theorem ngram_total : forall mn mx, 0 <= mn -> total_filter (ngram_filter mn mx).
Proof. exact ngram_total_all. Qed.
Print Assumptions ngram_total.

Theorem edge_ngram_total : forall back mn mx, 0 <= mn -> total_filter (edge_filter back mn mx).
Proof. exact edge_total_all. Qed.
Print Assumptions edge_ngram_total.

(* outside the parameter range: a negative minimum slices runes[i:i+n] with n < 0 *)
Theorem ngram_negative_min_refuted : exists mn mx ts, ngram_filter mn mx ts = Panic 3.
Proof. exact ngram_negative_panics. Qed.
Print Assumptions ngram_negative_min_refuted.

(* lowercase.go returns for every lower-casing table that maps into valid runes (as
   unicode.ToLower does): the in-place writes never run out of room, the loop ends *)
Theorem lowercase_total : forall lower : Z -> Z,
  (forall r, valid_rune (lower r) = true) -> total_filter (lowercase_filter lower).
Proof. exact lowercase_total_all. Qed.
Print Assumptions lowercase_total.

(* what it computes when a replacement is narrower than the original (Kelvin sign -> k):
   "\xe2\x84\xaael" becomes "k\x84\xaa", the unchanged runes that follow are not moved down *)
Example lowercase_stale_bytes_example :
  lower_term (fun r => if r =? 8490 then 107 else r) [226; 132; 170; 101; 108] = Ok [107; 132; 170].
Proof. exact lowercase_stale_bytes. Qed.
Print Assumptions lowercase_stale_bytes_example.

(* reverse.go as pinned (fixed = false: rune widths from utf8.RuneLen of the decoded rune)
   panics on an invalid byte; the repaired line (fixed = true) returns on the same input *)
Theorem reverse_pinned_refuted : exists (is_mark : Z -> bool) ts, reverse_filter false is_mark ts = Panic 4.
Proof. exact reverse_pinned_panics. Qed.
Print Assumptions reverse_pinned_refuted.

Example reverse_fixed_example :
  reverse_filter true (fun _ => false) [Tk 0 3 [97; 255; 98] 1 0 false] = Ok [Tk 0 3 [98; 255; 97] 1 0 false].
Proof. exact reverse_fixed_witness. Qed.
Print Assumptions reverse_fixed_example.

(* the repaired reverse.go returns on every byte string (terms of bytes in [0,256); the mark
   classes Mn/Me/Mc do not contain U+FFFD): the repair is panic-free for all inputs *)
Theorem reverse_total : forall is_mark : Z -> bool,
  is_mark rune_error = false ->
  forall ts, Forall (fun t => bytes_ok (t_term t) = true) ts ->
             exists out, reverse_filter true is_mark ts = Ok out.
Proof. exact reverse_total_all. Qed.
Print Assumptions reverse_total.

(* shingle.go: the contract is preserved on streams whose offsets are in text order (every
   bundled tokenizer emits such streams), for every min, max, separator and filler ... *)
Theorem shingle_preserves : forall L mn mx oo sep fill ts out,
  tok_ok L ts -> ordered ts -> shingle_filter mn mx oo sep fill ts = Ok out -> tok_ok L out.
Proof. exact shingle_preserves_ordered_all. Qed.
Print Assumptions shingle_preserves.

Theorem shingle_total : forall mn mx oo sep fill, 0 < mx -> total_filter (shingle_filter mn mx oo sep fill).
Proof. exact shingle_total_all. Qed.
Print Assumptions shingle_total.

(* ... and NOT from tok_ok alone (full statement: forall ts, tok_ok L ts -> tok_ok L (shingle ts)):
   two tokens whose offsets run backwards give a shingle with start 5 > end 2 *)
Theorem shingle_preserves_refuted :
  exists L mn mx oo sep fill ts out,
    tok_ok L ts /\ shingle_filter mn mx oo sep fill ts = Ok out /\ ~ tok_ok L out.
Proof. exact shingle_unordered_refuted. Qed.
Print Assumptions shingle_preserves_refuted.

Theorem shingle_max_zero_refuted : exists mn mx oo sep fill ts, shingle_filter mn mx oo sep fill ts = Panic 5.
Proof. exact shingle_max_zero_panics. Qed.
Print Assumptions shingle_max_zero_refuted.

(* the filters that drop tokens carry the increments over: every surviving token keeps the
   absolute position it had (PositionIncr is not lost) *)
Theorem stop_keeps_positions : forall (is_stop : list Z -> bool) ts start,
  located start (stop_filter is_stop ts) = filter (keep_not is_stop) (located start ts).
Proof. exact stop_keeps_positions_all. Qed.
Print Assumptions stop_keeps_positions.

Theorem length_keeps_positions : forall mn mx ts start,
  Forall (fun t => 0 <= t_incr t) ts ->
  located start (length_filter mn mx ts) = filter (keep_not (length_drop mn mx)) (located start ts).
Proof. exact length_keeps_positions_all. Qed.
Print Assumptions length_keeps_positions.

Example stop_positions_example :
  located 100 (stop_filter (zlist_eqb [99;100]) ex_stream) = [([97;98], Loc 0 2 101); ([97;98], Loc 10 12 105)].
Proof. exact ex_stop_positions. Qed.
Print Assumptions stop_positions_example.

(* ---------- TokenFrequency ---------- *)

(* positions are the running sum of the increments from the start offset, non-decreasing when
   the increments are >= 0; every location is recorded exactly once under its term (distinct
   keys; per term exactly the locations of its occurrences, in order); frequency = number of
   occurrences; the returned position is the last one *)
Theorem freq_positions : forall (ts : tstream) (start : Z),
  let m := fst (token_frequency ts true start) in
  (forall term, locs_for m term = locs_of term start ts) /\
  NoDup (indexed_terms m) /\
  map (fun x => l_pos (snd x)) (located start ts) = positions start ts /\
  (forall term, freq_for m term = occurrences term ts /\ Z.of_nat (length (locs_for m term)) = occurrences term ts) /\
  snd (token_frequency ts true start) = last (positions start ts) start /\
  (Forall (fun t => 0 <= t_incr t) ts -> StronglySorted Z.le (start :: positions start ts)).
Proof. exact freq_positions_all. Qed.
Print Assumptions freq_positions.

Theorem freq_without_locations : forall (ts : tstream) (start : Z),
  let m := fst (token_frequency ts false start) in
  (forall term, freq_for m term = occurrences term ts /\ locs_for m term = []) /\
  NoDup (indexed_terms m) /\ snd (token_frequency ts false start) = 0.
Proof. exact freq_plain_all. Qed.
Print Assumptions freq_without_locations.

Example freq_example :
  Forall (fun t => 0 <= t_incr t) ex_stream /\
  positions 100 ex_stream = [101; 104; 105] /\
  locs_for (fst (token_frequency ex_stream true 100)) [97;98] = [Loc 0 2 101; Loc 10 12 105] /\
  freq_for (fst (token_frequency ex_stream true 100)) [97;98] = 2 /\
  snd (token_frequency ex_stream true 100) = 105.
Proof. exact ex_freq. Qed.
Print Assumptions freq_example.

(* ---------- match round trip ---------- *)

(* for any deterministic analyzer function A and any document text d: if A d yields a token,
   the conjunction of term queries on the terms of A d (the query-time analysis of the same
   text) is non-empty and every one of its terms is in the document's indexed term set *)
Theorem match_finds_own_text : forall (A : list Z -> tstream) (d : list Z) (tv : bool) (start : Z),
  A d <> [] ->
  map t_term (A d) <> [] /\
  match_and (map t_term (A d)) (fst (token_frequency (A d) tv start)) = true.
Proof. exact match_finds_own_text_all. Qed.
Print Assumptions match_finds_own_text.

Example match_example :
  (fun d => match analyze ex_analyzer d with Ok ts => ts | _ => [] end) ex_input <> [] /\
  match_and (map t_term ((fun d => match analyze ex_analyzer d with Ok ts => ts | _ => [] end) ex_input))
            (fst (token_frequency ((fun d => match analyze ex_analyzer d with Ok ts => ts | _ => [] end) ex_input) false 0)) = true.
Proof. exact ex_match. Qed.
Print Assumptions match_example.
