(* Props/C06.v — Background merges and persists never change logical content.
   Only statements, each closed by `exact`, with Print Assumptions beneath.
   Model: Index/Model.v (introduce_persist, introduce_merge, equiv_snapshot), side conditions:
   Index/Trace.v (root_ok, merge_compat), merge_wf in Model.v; proofs: Index/ModelProofs.v,
   Index/ModelProofsMerge.v, Index/TraceProofs.v. *)
From Coq Require Import ZArith List Bool Permutation.
From Bluge Require Import Base.Res Index.Model Index.Trace Index.ModelProofs Index.ModelProofsBatch
  Index.ModelProofsMerge Index.TraceProofs.
Import ListNotations.
Open Scope Z_scope.

(* 6. the persist swap keeps the content, the root's current deleted sets, ids, documents, order *)
Theorem persist_swap_preserves : forall root ids e,
  abs (introduce_persist root ids e) = abs root /\
  map ss_del (sn_segs (introduce_persist root ids e)) = map ss_del (sn_segs root) /\
  map ss_id (sn_segs (introduce_persist root ids e)) = map ss_id (sn_segs root) /\
  map ss_docs (sn_segs (introduce_persist root ids e)) = map ss_docs (sn_segs root).
Proof. exact persist_swap_preserves_proof. Qed.
Print Assumptions persist_swap_preserves.

Theorem persist_result_ok : forall root ids e,
  root_ok root = true -> root_ok (introduce_persist root ids e) = true.
Proof. exact persist_result_ok_proof. Qed.
Print Assumptions persist_result_ok.

(* 7. a merge planned on an earlier root (segments since then only gained deletions or were
   dropped) never changes the logical content: deletes inside the merge window, segments
   emptied or dropped meanwhile, merged segment entirely dead (skipped) *)
Theorem merge_intro_preserves : forall root m olddocs e r sk,
  root_ok root = true -> merge_wf m olddocs = true -> merge_compat root m olddocs = true ->
  introduce_merge root m olddocs e = Ok (r, sk) ->
  Permutation (abs r) (abs root).
Proof. exact merge_intro_preserves_proof. Qed.
Print Assumptions merge_intro_preserves.

(* 8. under the monitor's side conditions introduceMerge does not panic (no table index out of
   range, no nil entry dereferenced) *)
Theorem merge_never_panics : forall root m olddocs e,
  root_ok root = true -> merge_wf m olddocs = true -> merge_compat root m olddocs = true ->
  exists r sk, introduce_merge root m olddocs e = Ok (r, sk).
Proof. exact merge_never_panics_proof. Qed.
Print Assumptions merge_never_panics.

(* 9. the new root satisfies the root invariant again *)
Theorem merge_result_ok : forall root m olddocs e r sk,
  root_ok root = true -> merge_wf m olddocs = true -> merge_compat root m olddocs = true ->
  introduce_merge root m olddocs e = Ok (r, sk) ->
  root_ok r = true.
Proof. exact merge_result_ok_proof. Qed.
Print Assumptions merge_result_ok.

(* 10. the persister's `equiv` snapshot (in-memory segments replaced by their merge) has the
   content of the grabbed snapshot.  Needs distinct segment ids (root_ok gives that); with
   snap_wf alone it is false, see below *)
Theorem equiv_snapshot_equal : forall grabbed newid,
  nodupZ (seg_ids grabbed) = true ->
  Permutation (abs (equiv_snapshot grabbed newid)) (abs grabbed).
Proof. exact equiv_snapshot_equal_proof. Qed.
Print Assumptions equiv_snapshot_equal.

Theorem equiv_snapshot_dup_ids_refuted :
  exists grabbed newid, snap_wf grabbed = true /\
    abs grabbed = [(1, 10); (2, 20)] /\ abs (equiv_snapshot grabbed newid) = [(2, 20)].
Proof. exact equiv_snapshot_dup_ids_refuted_proof. Qed.
Print Assumptions equiv_snapshot_dup_ids_refuted.

(* 11. in every accepted history the number of live documents of every id is that of the
   abstract index, which only the batches determine *)
Theorem no_dup_no_loss : forall evs st i,
  accept_run init_state evs = Some st ->
  count_id i (abs (t_root st)) = count_id i (t_A st) /\
  (no_load evs -> count_id i (abs (t_root st)) = count_id i (apply_batches (t_batches st))).
Proof. exact no_dup_no_loss_proof. Qed.
Print Assumptions no_dup_no_loss.

(* 12. non-vacuity: three segments, merge of two of them planned when one had one deletion, a
   further deletion in each since; and the same merge when one of them has been dropped *)
Example merge_example :
  root_ok exm_root = true /\ merge_wf exm_merge exm_olddocs = true /\
  merge_compat exm_root exm_merge exm_olddocs = true /\
  introduce_merge exm_root exm_merge exm_olddocs 8 =
    Ok ({| sn_epoch := 8;
           sn_segs := [ {| ss_id := 2; ss_docs := [(4, 40); (5, 50)]; ss_del := []; ss_persisted := true |};
                        {| ss_id := 9; ss_docs := [(1, 10); (3, 30); (2, 21); (6, 60)]; ss_del := [1; 3];
                           ss_persisted := true |} ] |}, false) /\
  abs exm_root = [(1, 10); (4, 40); (5, 50); (2, 21)] /\
  root_ok exm_root_gone = true /\ merge_compat exm_root_gone exm_merge exm_olddocs = true /\
  introduce_merge exm_root_gone exm_merge exm_olddocs 9 =
    Ok ({| sn_epoch := 9;
           sn_segs := [ {| ss_id := 2; ss_docs := [(4, 40); (5, 50)]; ss_del := []; ss_persisted := true |};
                        {| ss_id := 9; ss_docs := [(1, 10); (3, 30); (2, 21); (6, 60)]; ss_del := [1; 2; 3];
                           ss_persisted := true |} ] |}, false).
Proof. exact merge_example_proof. Qed.
Print Assumptions merge_example.

(* a nil entry (LiveSize 0 at planning) whose segment has vanished would be a nil dereference in
   introduceMerge (Panic 4); merge_compat rejects such an event *)
Example merge_nil_entry_rejected :
  let root := {| sn_epoch := 3; sn_segs := [ {| ss_id := 1; ss_docs := [(1, 10)]; ss_del := []; ss_persisted := true |} ] |} in
  let m := {| m_id := 9; m_old := [(5, None)]; m_oldnew := []; m_new := None; m_new_persisted := true |} in
  let od := [(5, [(7, 70)])] in
  root_ok root = true /\ merge_wf m od = true /\ introduce_merge root m od 4 = Panic 4 /\
  merge_compat root m od = false.
Proof. exact merge_nil_entry_rejected_proof. Qed.
Print Assumptions merge_nil_entry_rejected.
