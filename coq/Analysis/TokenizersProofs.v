(* Analysis/TokenizersProofs.v — the character tokenizer (any rune predicate: letter,
   whitespace, ...) and the single-token tokenizer are total and pure on every byte string. *)
From Coq Require Import ZArith List Bool Lia Arith.
From Coq Require Import ZifyBool.
From Bluge Require Import Base.Res Base.Corr Base.UTF8 Gen.ParamsAnalysis
  Analysis.Pipeline Analysis.PipelineProofs Analysis.Utf8Facts Analysis.Tokenizers.
Import ListNotations.
Open Scope Z_scope.

Definition good (input : list Z) (t : token) : Prop := tok_ok1 (len input) t /\ pure1 input t.

Lemma good_pure input ts : Forall (good input) ts <-> pure_tok input ts.
Proof.
  unfold pure_tok, tok_ok, good. rewrite !Forall_forall. split.
  - intros H. split; intros t Ht; apply (H t Ht).
  - intros [H1 H2] t Ht. split; auto.
Qed.

Lemma char_emit_good input start end_ tail :
  0 <= start -> start <= end_ -> end_ <= len input ->
  Forall (good input) tail -> Forall (good input) (char_emit input start end_ tail).
Proof.
  intros H0 H1 H2 Ht. unfold char_emit. destruct (0 <? end_ - start); [|assumption].
  constructor; [|assumption]. split.
  - unfold tok_ok1, char_token. cbn [t_start t_end t_incr]. unfold char_tok_incr. lia.
  - unfold pure1, char_token. reflexivity.
Qed.

Lemma char_loop_ok (is_tok : Z -> bool) (input : list Z) :
  forall fuel rest n start end_,
    rest = skipn n input -> (n <= length input)%nat -> (length rest < fuel)%nat ->
    0 <= start -> start <= end_ -> end_ <= Z.of_nat n ->
    exists ts, char_loop fuel is_tok input rest (Z.of_nat n) start end_ = Ok ts /\ Forall (good input) ts.
Proof.
  induction fuel as [|f IH]; intros rest n start end_ Hrest Hn Hfuel Hs Hse Hen; [lia|].
  cbn [char_loop]. destruct (decode_rune rest) as [r size] eqn:Ed.
  assert (Hlen : end_ <= len input) by (unfold len; lia).
  destruct (r =? rune_error) eqn:Er.
  - eexists; split; [reflexivity|]. apply char_emit_good; auto.
  - assert (Hne : rest <> []).
    { intros ->. rewrite decode_rune_nil in Ed. inversion Ed; subst. rewrite Z.eqb_refl in Er. discriminate. }
    pose proof (decode_rune_size rest Hne) as Hsz. rewrite Ed in Hsz. cbn [snd] in Hsz.
    assert (Hlr : length rest = (length input - n)%nat) by (subst rest; apply skipn_length).
    assert (Hrest' : skipn size rest = skipn (n + size) input).
    { subst rest. apply skipn_add. }
    assert (Hoff : Z.of_nat n + Z.of_nat size = Z.of_nat (n + size)) by lia.
    rewrite Hoff.
    destruct (is_tok r).
    + apply IH; auto; try lia. rewrite skipn_length. lia.
    + destruct (IH (skipn size rest) (n + size)%nat (Z.of_nat (n + size)) (Z.of_nat (n + size)))
        as [ts [E G]]; auto; try lia.
      { rewrite skipn_length. lia. }
      rewrite E. cbn [rmap rbind]. eexists; split; [reflexivity|].
      apply char_emit_good; auto.
Qed.

(* totality and purity, for every rune predicate and every byte string *)
Lemma char_tokenize_pure_all (is_tok : Z -> bool) (input : list Z) :
  exists ts, char_tokenize is_tok input = Ok ts /\ pure_tok input ts.
Proof.
  unfold char_tokenize.
  destruct (char_loop_ok is_tok input (S (length input)) input 0%nat 0 0) as [ts [E G]]; auto; try lia.
  exists ts. split; [exact E|]. apply good_pure. exact G.
Qed.

Lemma char_tokenize_total_all is_tok input : exists ts, char_tokenize is_tok input = Ok ts.
Proof. destruct (char_tokenize_pure_all is_tok input) as [ts [E _]]. eauto. Qed.

Lemma char_tokenize_tok_ok_all is_tok input ts :
  char_tokenize is_tok input = Ok ts -> tok_ok (len input) ts.
Proof.
  intros E. destruct (char_tokenize_pure_all is_tok input) as [ts' [E' [H _]]].
  rewrite E in E'. inversion E'; subst. exact H.
Qed.

(* single.go *)
Lemma slice_all (input : list Z) : slice input 0 (len input) = input.
Proof.
  unfold slice, len. simpl. rewrite Z.sub_0_r, Nat2Z.id. apply firstn_all.
Qed.

Lemma single_tokenize_pure_all (input : list Z) :
  exists ts, single_tokenize input = Ok ts /\ pure_tok input ts.
Proof.
  eexists; split; [reflexivity|]. apply good_pure. constructor; [|constructor].
  split.
  - unfold tok_ok1, make_token. cbn [t_start t_end t_incr]. unfold single_tok_start, single_tok_incr, len. lia.
  - unfold pure1, make_token. cbn [t_start t_end t_term]. unfold single_tok_start. symmetry. apply slice_all.
Qed.
