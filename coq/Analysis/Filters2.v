(* Analysis/Filters2.v — exact models of further bundled token filters:
   analysis/token/camelcase.go + camelcase_parser.go + camelcase_states.go,
   analysis/token/dict.go, analysis/lang/cjk/cjk_bigram.go, analysis/lang/cjk/cjk_width.go,
   analysis/lang/en/possessive_filter_en.go.
   The code modelled is the repaired one (fix commits fefca47, d348d1a, e95f6cc, 943dd1b); the
   flag `clamp` = false gives the offsets as computed before the repair (kept to state what
   the repair changes).  unicode.IsLower/IsUpper/IsNumber and dictionary membership are
   parameters (tabulated per case by the harness).  No proofs in this file. *)
From Coq Require Import ZArith List Bool.
From Bluge Require Import Base.Res Base.Corr Base.UTF8 Gen.ParamsAnalysis Analysis.Pipeline Analysis.Filters.
Import ListNotations.
Open Scope Z_scope.

(* `if x > hi { x = hi }` of the repairs: offsets stay inside the source token *)
Definition clamp_to (clamp : bool) (hi x : Z) : Z := if clamp && (hi <? x) then hi else x.

(* ====================== camel case ====================== *)

(* camelcase_states.go: the four classes; UpperCaseState carries startedCollecting / collectingUpper *)
Inductive cc_state := CcLower | CcUpper (started collecting : bool) | CcNumber | CcOther.

Section CamelCase.
  Variables is_lower is_upper is_number : Z -> bool.   (* unicode.IsLower / IsUpper / IsNumber *)

  (* Parser.NewState (camelcase_parser.go:75-94): the first class whose StartSym accepts sym;
     UpperCaseState.StartSym (states.go:63-65) does not touch the state *)
  Definition cc_new (sym : Z) : cc_state :=
    if is_lower sym then CcLower
    else if is_upper sym then CcUpper false false
    else if is_number sym then CcNumber
    else CcOther.

  (* State.Member (states.go:33-35, 46-61, 69-71, 79-81); UpperCaseState.Member mutates itself *)
  Definition cc_member (st : cc_state) (sym : Z) (peek : option Z) : bool * cc_state :=
    match st with
    | CcLower => (is_lower sym, st)
    | CcUpper started collecting =>
        if negb (is_lower sym || is_upper sym) then (false, st)                       (* :47-49 *)
        else if match peek with Some p => is_upper sym && is_lower p | None => false end
             then (false, st)                                                          (* :51-53 *)
        else if negb started then (true, CcUpper true (is_upper sym))                  (* :55-59 *)
        else (Bool.eqb collecting (is_upper sym), st)                                  (* :61 *)
    | CcNumber => (is_number sym, st)
    | CcOther => (negb (is_lower sym) && negb (is_upper sym) && negb (is_number sym), st)
    end.

  (* Parser.buildTokenFromTerm (camelcase_parser.go:21-31): offsets follow the re-encoded term *)
  Definition cc_build (buf : list Z) (index : Z) : token :=
    let term := build_term buf in
    Tk index (index + len term) term camel_tok_incr 0 false.

  (* CamelCaseFilter.Filter :54-60 with Parser.Push (parser.go:54-72) and FlushTokens (:96-99);
     rs = the runes still to be pushed, peek = the next one *)
  Fixpoint cc_run (rs : list Z) (cur : option cc_state) (buf : list Z) (index : Z) : tstream :=
    match rs with
    | [] => [cc_build buf index]                                  (* FlushTokens, also for an empty buffer *)
    | sym :: rest =>
        let peek := match rest with [] => None | p :: _ => Some p end in
        match cur with
        | None => cc_run rest (Some (cc_new sym)) (buf ++ [sym]) index            (* :55-58 *)
        | Some st =>
            let '(m, st') := cc_member st sym peek in
            if m then cc_run rest (Some st') (buf ++ [sym]) index                 (* :59-61 *)
            else
              let t := cc_build buf index in                                      (* :62-64 *)
              t :: cc_run rest (Some (cc_new sym)) [sym] (index + len (t_term t)) (* :66-69 *)
        end
    end.

  (* camelcase.go:50-73 for one token; :61-72 keep the offsets inside the source token *)
  Definition camel_token (clamp : bool) (t : token) : tstream :=
    map (fun n => Tk (clamp_to clamp (t_end t) (t_start n)) (clamp_to clamp (t_end t) (t_end n))
                     (t_term n) (t_incr n) (t_type n) (t_kw n))
        (cc_run (runes (t_term t)) None [] (t_start t)).
  Definition camel_filter (clamp : bool) (ts : tstream) : tstream := flat_map (camel_token clamp) ts.
End CamelCase.

(* ====================== dictionary compound ====================== *)

Section DictCompound.
  Variable in_dict : list Z -> bool.            (* f.dict[string(runes[i:i+j])] *)
  Variables min_word min_sub max_sub : Z.
  Variable only_longest : bool.

  (* dict.go:77-96: the subword token for runes[i:i+j] *)
  Definition dict_sub (clamp : bool) (t : token) (rs : list Z) (i j : Z) : token :=
    Tk (clamp_to clamp (t_end t) (t_start t + i)) (clamp_to clamp (t_end t) (t_start t + i + j))
       (build_term (slice rs i (i + j))) dict_sub_incr (t_type t) (t_kw t).

  (* dict.go:67-107, the inner loop over j for one i: the tokens appended to rv (all matches, or
     the longest one); `break` at i+j > rlen; runes[i:i+j] panics for a negative j *)
  Fixpoint dict_inner (clamp : bool) (t : token) (rs : list Z) (i : Z) (js : list Z) (longest : option token)
    : res tstream :=
    match js with
    | [] => Ok (match longest with Some l => if only_longest then [l] else [] | None => [] end)   (* :104-106 *)
    | j :: js' =>
        if len rs <? i + j then
          Ok (match longest with Some l => if only_longest then [l] else [] | None => [] end)     (* :69-71 break *)
        else if bad_slice rs i (i + j) then Panic 6
        else if in_dict (build_term (slice rs i (i + j))) then
          let nt := dict_sub clamp t rs i j in
          if only_longest then
            let keep := match longest with                                                         (* :97-100 *)
                        | None => true
                        | Some l => zcount (t_term l) <? j
                        end in
            dict_inner clamp t rs i js' (if keep then Some nt else longest)
          else rmap (cons nt) (dict_inner clamp t rs i js' longest)                                (* :101-103 *)
        else dict_inner clamp t rs i js' longest
    end.

  (* dict.go:60-109 decompose *)
  Definition dict_decompose (clamp : bool) (t : token) : res tstream :=
    let rs := runes (t_term t) in
    rmap (@concat token)
         (rmapM (fun i => dict_inner clamp t rs i (zrange min_sub max_sub) None)
                (zrange 0 (len rs - min_sub))).

  (* dict.go:43-58 *)
  Definition dict_token (clamp : bool) (t : token) : res tstream :=
    if min_word <=? zcount (t_term t) then rmap (cons t) (dict_decompose clamp t) else Ok [t].
  Definition dict_filter (clamp : bool) (ts : tstream) : res tstream :=
    rmap (@concat token) (rmapM (dict_token clamp) ts).
End DictCompound.

(* ====================== CJK bigram ====================== *)

(* the ring of two (container/ring): cur = r.Value, other = r.Move(-1).Value = r.Next().Value *)
Record bg_ring := Ring { bg_cur : option token; bg_other : option token; bg_items : Z }.

Section Bigram.
  Variable output_unigram : bool.

  Definition bg_single (p : token) : token := Tk (t_start p) (t_end p) (t_term p) 0 tt_single false.

  (* buildUnigram (cjk_bigram.go:187-213) *)
  Definition bg_unigram (r : bg_ring) : option token :=
    if bg_items r =? 2 then option_map bg_single (bg_other r)
    else if bg_items r =? 1 then option_map bg_single (bg_cur r)
    else None.

  (* flush (:143-151): the unigram when one item is buffered; r.Value = nil; itemsInRing = 0 *)
  Definition bg_flush (r : bg_ring) : option token * bg_ring :=
    ((if bg_items r =? 1 then bg_unigram r else None), Ring None (bg_other r) 0).

  (* outputBigram (:153-185) *)
  Definition bg_bigram (r : bg_ring) : option token :=
    if bg_items r =? 2 then
      match bg_other r, bg_cur r with
      | Some prev, Some curr =>
          Some (Tk (t_start prev) (t_end curr) (t_term prev ++ t_term curr) 0 tt_double false)
      | _, _ => None
      end
    else None.

  Definition with_incr1 (o : option token) : tstream :=
    match o with Some t => [set_incr t 1] | None => [] end.

  (* one unigram token of an ideographic token entering the ring (:69-103) *)
  Definition bg_push (r : bg_ring) (tk : token) : tstream * bg_ring :=
    (* :70-82 not aligned with the buffered token: flush *)
    let '(out1, r1) :=
      if 0 <? bg_items r then
        match bg_cur r with
        | Some curr => if negb (t_start tk - t_end curr =? 0)
                       then let '(f, r') := bg_flush r in (with_incr1 f, r')
                       else ([], r)
        | None => ([], r)
        end
      else ([], r) in
    (* :84-88 r = r.Next(); r.Value = token; itemsInRing++ (at most 2) *)
    let r2 := Ring (Some tk) (bg_cur r1) (if bg_items r1 <? 2 then bg_items r1 + 1 else bg_items r1) in
    (* :89-95 *)
    let out2 := if (1 <? bg_items r2) && output_unigram then with_incr1 (bg_unigram r2) else [] in
    (* :96-102 *)
    let out3 := match bg_bigram r2 with
                | Some b => [if output_unigram then b else set_incr b 1]
                | None => []
                end in
    (out1 ++ out2 ++ out3, r2).

  (* :46-68: the unigram tokens of one ideographic token: the decode walk over its term, widths
     from utf8.DecodeRune (e95f6cc), offsets kept inside the source token (943dd1b) *)
  Fixpoint bg_pieces (clamp : bool) (t : token) (ds : list (Z * nat)) (sofar : Z) : list token :=
    match ds with
    | [] => []
    | d :: ds' =>
        let rlen := Z.of_nat (snd d) in
        let start := t_start t + sofar in
        Tk (clamp_to clamp (t_end t) start) (clamp_to clamp (t_end t) (start + rlen))
           (slice (t_term t) sofar (sofar + rlen)) bigram_piece_incr (t_type t) (t_kw t)
        :: bg_pieces clamp t ds' (sofar + rlen)
    end.

  Fixpoint bg_push_all (r : bg_ring) (tks : list token) : tstream * bg_ring :=
    match tks with
    | [] => ([], r)
    | tk :: rest =>
        let '(o1, r1) := bg_push r tk in
        let '(o2, r2) := bg_push_all r1 rest in
        (o1 ++ o2, r2)
    end.

  (* :44-115 *)
  Fixpoint bg_loop (clamp : bool) (ts : tstream) (r : bg_ring) : tstream :=
    match ts with
    | [] =>
        (* :118-128 the trailing unigram *)
        if (bg_items r =? 1) || output_unigram then
          let r' := if bg_items r =? 2 then Ring (bg_other r) (bg_cur r) (bg_items r) else r in
          with_incr1 (bg_unigram r')
        else []
    | t :: rest =>
        if t_type t =? tt_ideographic then
          let '(o, r') := bg_push_all r (bg_pieces clamp t (decode_all (t_term t)) 0) in
          o ++ bg_loop clamp rest r'
        else
          let '(f, r') := bg_flush r in                       (* :105-113 *)
          with_incr1 f ++ t :: bg_loop clamp rest r'
    end.

  Definition bigram_filter (clamp : bool) (ts : tstream) : tstream := bg_loop clamp ts (Ring None None 0).
End Bigram.

(* ====================== CJK width ====================== *)

Section Width.
  (* cjk_width.go:59-88: kanaNorm, kanaCombineVoiced, kanaCombineHalfVoiced (T-gen) *)
  Variables kana_norm combine_voiced combine_half : list Z.

  Definition nth_res (tbl : list Z) (i : Z) : res Z :=
    if (i <? 0) || (len tbl <=? i) then Panic 7 else Ok (nth (Z.to_nat i) tbl 0).

  (* combine (:90-101) on the last rune already processed; returns the new value of text[pos-1]
     and whether it changed *)
  Definition width_combine (prev ch : Z) : res (Z * bool) :=
    if (12454 <=? prev) && (prev <=? 12541) then                  (* 0x30A6..0x30FD *)
      d <- nth_res (if ch =? 65439 then combine_half else combine_voiced) (prev - 12454) ;;
      Ok (prev + d, negb (prev + d =? prev))
    else Ok (prev, false).

  (* :34-52; done = the runes already processed, last one first *)
  Fixpoint width_loop (rs : list Z) (done : list Z) : res (list Z) :=
    match rs with
    | [] => Ok (rev done)
    | ch :: rest =>
        if (65281 <=? ch) && (ch <=? 65374) then width_loop rest ((ch - 65248) :: done)       (* :36-38 *)
        else if (65381 <=? ch) && (ch <=? 65439) then                                         (* :39 *)
          match done with
          | prev :: done' =>
              if (ch =? 65438) || (ch =? 65439) then                                          (* :41 *)
                c <- width_combine prev ch ;;
                if snd c then width_loop rest (fst c :: done')                                (* :42-44 DeleteRune *)
                else k <- nth_res kana_norm (ch - 65381) ;; width_loop rest (k :: fst c :: done')
              else k <- nth_res kana_norm (ch - 65381) ;; width_loop rest (k :: done)
          | [] => k <- nth_res kana_norm (ch - 65381) ;; width_loop rest (k :: done)          (* i = 0 *)
          end
        else width_loop rest (ch :: done)
    end.

  (* :30-54: the term is always rebuilt from its runes *)
  Definition width_term (term : list Z) : res (list Z) := rmap build_term (width_loop (runes term) []).
  Definition width_filter (ts : tstream) : res tstream :=
    rmapM (fun t => rmap (set_term t) (width_term (t_term t))) ts.
End Width.

(* ====================== English possessive ====================== *)

(* possessive_filter_en.go:39-53 *)
Definition possessive_term (term : list Z) : list Z :=
  let '(last, last_size) := decode_last_rune term in
  if (last =? 115) || (last =? 83) then                                   (* 's' 'S' *)
    let rest := firstn (length term - last_size) term in
    let '(nxt, nxt_size) := decode_last_rune rest in
    if (nxt =? en_right_single_quote) || (nxt =? en_apostrophe) || (nxt =? en_fullwidth_apostrophe)
    then firstn (length term - last_size - nxt_size) term
    else term
  else term.
Definition possessive_filter (ts : tstream) : tstream := map (fun t => set_term t (possessive_term (t_term t))) ts.
