(* Analysis/FiltersProofs.v — the exactly modelled token filters preserve the offset /
   increment contract, and are total on their sensible parameter ranges. *)
From Coq Require Import ZArith List Bool Lia Arith.
From Coq Require Import ZifyBool.
From Bluge Require Import Base.Res Base.Corr Base.UTF8 Gen.ParamsAnalysis
  Analysis.Pipeline Analysis.PipelineProofs Analysis.Utf8Facts Analysis.Filters.
Import ListNotations.
Open Scope Z_scope.

(* ---------- generic: filters that drop tokens and carry their increments over ---------- *)

Lemma set_incr_ok L t i : tok_ok1 L t -> 0 <= i -> tok_ok1 L (set_incr t i).
Proof. unfold tok_ok1, set_incr. cbn [t_start t_end t_incr]. lia. Qed.

Lemma set_term_ok L t term : tok_ok1 L t -> tok_ok1 L (set_term t term).
Proof. unfold tok_ok1, set_term. cbn [t_start t_end t_incr]. lia. Qed.

Lemma set_kw_ok L t k : tok_ok1 L t -> tok_ok1 L (set_kw t k).
Proof. unfold tok_ok1, set_kw. cbn [t_start t_end t_incr]. lia. Qed.

Lemma incr_nonneg L t : tok_ok1 L t -> 0 <= t_incr t.
Proof. unfold tok_ok1. lia. Qed.

(* length.go *)
Lemma length_loop_ok L mn mx : forall ts skipped,
  0 <= skipped -> tok_ok L ts -> tok_ok L (length_loop mn mx ts skipped).
Proof.
  induction ts as [|t r IH]; intros skipped Hs Hts; cbn [length_loop]; [constructor|].
  inversion Hts as [|? ? Ht Hr]; subst. pose proof (incr_nonneg _ _ Ht) as Hi.
  destruct ((0 <? mn) && (zcount (t_term t) <? mn)); [apply IH; auto; lia|].
  destruct ((0 <? mx) && (mx <? zcount (t_term t))); [apply IH; auto; lia|].
  destruct (0 <? skipped).
  - constructor; [apply set_incr_ok; auto; lia | apply IH; auto; lia].
  - constructor; [assumption | apply IH; auto].
Qed.

Lemma length_preserves_all L mn mx ts : tok_ok L ts -> tok_ok L (length_filter mn mx ts).
Proof. intros H. apply length_loop_ok; auto; lia. Qed.

(* stop.go *)
Lemma stop_loop_ok L is_stop : forall ts skipped,
  0 <= skipped -> tok_ok L ts -> tok_ok L (stop_loop is_stop ts skipped).
Proof.
  induction ts as [|t r IH]; intros skipped Hs Hts; cbn [stop_loop]; [constructor|].
  inversion Hts as [|? ? Ht Hr]; subst. pose proof (incr_nonneg _ _ Ht) as Hi.
  destruct (is_stop (t_term t)); [apply IH; auto; lia|].
  constructor; [apply set_incr_ok; auto; lia | apply IH; auto; lia].
Qed.

Lemma stop_preserves_all L is_stop ts : tok_ok L ts -> tok_ok L (stop_filter is_stop ts).
Proof. intros H. apply stop_loop_ok; auto; lia. Qed.

(* unique.go *)
Lemma unique_loop_ok L : forall ts seen skipped,
  0 <= skipped -> tok_ok L ts -> tok_ok L (unique_loop ts seen skipped).
Proof.
  induction ts as [|t r IH]; intros seen skipped Hs Hts; cbn [unique_loop]; [constructor|].
  inversion Hts as [|? ? Ht Hr]; subst. pose proof (incr_nonneg _ _ Ht) as Hi.
  destruct (bmem (t_term t) seen); [apply IH; auto; lia|].
  constructor; [apply set_incr_ok; auto; lia | apply IH; auto; lia].
Qed.

Lemma unique_preserves_all L ts : tok_ok L ts -> tok_ok L (unique_filter ts).
Proof. intros H. apply unique_loop_ok; auto; lia. Qed.

(* keyword.go *)
Lemma keyword_preserves_all L is_kw ts : tok_ok L ts -> tok_ok L (keyword_filter is_kw ts).
Proof.
  unfold keyword_filter, tok_ok. intros H. apply Forall_map. eapply Forall_impl; [|exact H].
  intros t Ht. destruct (is_kw (t_term t)); [apply set_kw_ok|]; assumption.
Qed.

(* ---------- filters that rewrite terms only ---------- *)

Lemma rmapM_set_term_ok L (g : list Z -> res (list Z)) : forall ts ts',
  tok_ok L ts ->
  rmapM (fun t => rmap (set_term t) (g (t_term t))) ts = Ok ts' -> tok_ok L ts'.
Proof.
  induction ts as [|t r IH]; intros ts' Hts E; cbn [rmapM] in E.
  - inversion E; subst. constructor.
  - inversion Hts as [|? ? Ht Hr]; subst.
    destruct (g (t_term t)) as [term| | |]; cbn [rmap rbind] in E; try discriminate.
    destruct (rmapM (fun t0 => rmap (set_term t0) (g (t_term t0))) r) as [r'| | |] eqn:Er; cbn [rbind] in E; try discriminate.
    inversion E; subst. constructor; [apply set_term_ok; assumption | apply IH; auto].
Qed.

Lemma rmapM_total {A B} (f : A -> res B) : forall l,
  (forall a, In a l -> exists b, f a = Ok b) -> exists bs, rmapM f l = Ok bs.
Proof.
  induction l as [|a l IH]; intros H; cbn [rmapM]; [eauto|].
  destruct (H a (or_introl eq_refl)) as [b Eb]. rewrite Eb. cbn [rbind].
  destruct IH as [bs Ebs]; [intros; apply H; right; assumption|]. rewrite Ebs. cbn [rbind]. eauto.
Qed.

Lemma map_set_term_ok L (g : list Z -> list Z) ts :
  tok_ok L ts -> tok_ok L (map (fun t => set_term t (g (t_term t))) ts).
Proof.
  unfold tok_ok. intros H. apply Forall_map. eapply Forall_impl; [|exact H].
  intros t Ht. apply set_term_ok. assumption.
Qed.

(* truncate.go *)
Lemma truncate_preserves_all L n : preserves L (truncate_filter n).
Proof. intros ts ts' Hts E. unfold truncate_filter in E. eapply rmapM_set_term_ok; eauto. Qed.

Lemma runes_length (p : list Z) : length (runes p) = rune_count p.
Proof.
  unfold runes, rune_count, decode_all. rewrite map_length.
  generalize (length p) as fuel. intros fuel. revert p.
  induction fuel as [|f IH]; intros p; [reflexivity|].
  destruct p as [|b p]; [reflexivity|]. cbn [decode_all_fuel rune_count_fuel length]. f_equal. apply IH.
Qed.

Lemma truncate_term_total n term : 0 <= n -> exists term', truncate_term n term = Ok term'.
Proof.
  intros Hn. unfold truncate_term. destruct (n <? zcount term) eqn:E; [|eauto].
  unfold zcount in *. unfold len. rewrite runes_length.
  destruct ((Z.of_nat (rune_count term) - (Z.of_nat (rune_count term) - n) <? 0)
            || (Z.of_nat (rune_count term) <? Z.of_nat (rune_count term) - (Z.of_nat (rune_count term) - n))) eqn:Eb.
  - lia.
  - eauto.
Qed.

Lemma truncate_total_all n : 0 <= n -> total_filter (truncate_filter n).
Proof.
  intros Hn ts. unfold truncate_filter. apply rmapM_total. intros t _.
  destruct (truncate_term_total n (t_term t) Hn) as [term' E]. rewrite E. cbn [rmap rbind]. eauto.
Qed.

(* a negative length makes TruncateRunes slice with a negative bound *)
Lemma truncate_negative_panics : exists n ts, truncate_filter n ts = Panic 1.
Proof. exists (-1), [Tk 0 1 [97] 1 0 false]. vm_compute. reflexivity. Qed.

(* lowercase.go: only terms change *)
Lemma lowercase_preserves_all L lower : preserves L (lowercase_filter lower).
Proof. intros ts ts' Hts E. unfold lowercase_filter in E. eapply rmapM_set_term_ok; eauto. Qed.

(* reverse.go *)
Lemma reverse_preserves_all L fixed is_mark : preserves L (reverse_filter fixed is_mark).
Proof. intros ts ts' Hts E. unfold reverse_filter in E. eapply rmapM_set_term_ok; eauto. Qed.

(* apostrophe.go, elision.go *)
Lemma apostrophe_preserves_all L ts : tok_ok L ts -> tok_ok L (apostrophe_filter ts).
Proof. apply (map_set_term_ok L apostrophe_term). Qed.

Lemma elision_preserves_all L is_article ts : tok_ok L ts -> tok_ok L (elision_filter is_article ts).
Proof. apply (map_set_term_ok L (elision_term is_article)). Qed.

(* ---------- n-gram filters ---------- *)

Lemma mark_first_ok L ts : tok_ok L ts -> tok_ok L (mark_first ts).
Proof.
  intros H. destruct ts as [|t r]; [constructor|]. inversion H; subst.
  constructor; [apply set_incr_ok; auto; lia | assumption].
Qed.

Lemma gram_token_ok L lit t term : 0 <= lit -> tok_ok1 L t -> tok_ok1 L (gram_token lit t term).
Proof. unfold tok_ok1, gram_token. cbn [t_start t_end t_incr]. lia. Qed.

Lemma concat_ok L : forall tss, Forall (tok_ok L) tss -> tok_ok L (concat tss).
Proof.
  induction tss as [|ts r IH]; intros H; [constructor|]. inversion H; subst.
  cbn [concat]. apply tok_ok_app; auto.
Qed.

Lemma rmapM_forall {A B} (P : A -> Prop) (Q : B -> Prop) (f : A -> res B) :
  (forall a b, P a -> f a = Ok b -> Q b) ->
  forall l bs, Forall P l -> rmapM f l = Ok bs -> Forall Q bs.
Proof.
  intros Hf. induction l as [|a l IH]; intros bs Hl E; cbn [rmapM] in E.
  - inversion E; subst. constructor.
  - inversion Hl; subst. destruct (f a) as [b| | |] eqn:Ea; cbn [rbind] in E; try discriminate.
    destruct (rmapM f l) as [bs'| | |] eqn:El; cbn [rbind] in E; try discriminate.
    inversion E; subst. constructor; [eapply Hf; eauto | apply IH; auto].
Qed.

Lemma ngram_token_ok L mn mx t ts : tok_ok1 L t -> ngram_token mn mx t = Ok ts -> tok_ok L ts.
Proof.
  intros Ht E. unfold ngram_token in E.
  destruct (existsb _ _); [discriminate|]. inversion E; subst. apply mark_first_ok.
  unfold tok_ok. apply Forall_map. apply Forall_forall. intros c _.
  apply gram_token_ok; [unfold ngram_lit_incr; lia | assumption].
Qed.

Lemma ngram_preserves_all L mn mx : preserves L (ngram_filter mn mx).
Proof.
  intros ts ts' Hts E. unfold ngram_filter in E.
  destruct (rmapM (ngram_token mn mx) ts) as [tss| | |] eqn:Em; cbn [rmap rbind] in E; try discriminate.
  inversion E; subst. apply concat_ok.
  eapply (rmapM_forall (tok_ok1 L) (tok_ok L)); [|exact Hts|exact Em].
  intros a b Ha Eb. eapply ngram_token_ok; eauto.
Qed.

Lemma edge_token_ok L back mn mx t ts : tok_ok1 L t -> edge_token back mn mx t = Ok ts -> tok_ok L ts.
Proof.
  intros Ht E. unfold edge_token in E.
  destruct (existsb _ _); [discriminate|]. inversion E; subst. apply mark_first_ok.
  unfold tok_ok. apply Forall_map. apply Forall_forall. intros c _.
  apply gram_token_ok; [unfold edgengram_lit_incr; lia | assumption].
Qed.

Lemma edge_preserves_all L back mn mx : preserves L (edge_filter back mn mx).
Proof.
  intros ts ts' Hts E. unfold edge_filter in E.
  destruct (rmapM (edge_token back mn mx) ts) as [tss| | |] eqn:Em; cbn [rmap rbind] in E; try discriminate.
  inversion E; subst. apply concat_ok.
  eapply (rmapM_forall (tok_ok1 L) (tok_ok L)); [|exact Hts|exact Em].
  intros a b Ha Eb. eapply edge_token_ok; eauto.
Qed.

(* ---------- totality of the n-gram filters for non-negative sizes ---------- *)

Lemma in_zrange lo hi n : In n (zrange lo hi) -> lo <= n <= hi.
Proof.
  unfold zrange. rewrite in_map_iff. intros [k [Hk Hin]]. apply in_seq in Hin. lia.
Qed.

Lemma len_runes term : len (runes term) = zcount term.
Proof. unfold len, zcount. rewrite runes_length. reflexivity. Qed.

Lemma ngram_token_total mn mx t : 0 <= mn -> exists ts, ngram_token mn mx t = Ok ts.
Proof.
  intros Hmn. unfold ngram_token.
  destruct (existsb _ _) eqn:E; [|eauto]. exfalso.
  apply existsb_exists in E. destruct E as [[i n] [Hin Hbad]]. cbn [fst snd] in Hbad.
  unfold ngram_cands in Hin. apply in_flat_map in Hin. destruct Hin as [i' [Hi Hin]].
  apply in_flat_map in Hin. destruct Hin as [n' [Hn Hin]].
  destruct (i' + n' <=? zcount (t_term t)) eqn:Ele; [|destruct Hin].
  destruct Hin as [Heq|[]]. inversion Heq; subst i' n'.
  apply in_zrange in Hi. apply in_zrange in Hn.
  unfold bad_slice in Hbad. rewrite len_runes in Hbad. lia.
Qed.

Lemma ngram_total_all mn mx : 0 <= mn -> total_filter (ngram_filter mn mx).
Proof.
  intros Hmn ts. unfold ngram_filter.
  destruct (rmapM_total (ngram_token mn mx) ts) as [tss E].
  - intros t _. apply ngram_token_total. assumption.
  - rewrite E. cbn [rmap rbind]. eauto.
Qed.

Lemma ngram_negative_panics : exists mn mx ts, ngram_filter mn mx ts = Panic 3.
Proof. exists (-1), 1, [Tk 0 1 [97] 1 0 false]. vm_compute. reflexivity. Qed.

Lemma edge_token_total back mn mx t : 0 <= mn -> exists ts, edge_token back mn mx t = Ok ts.
Proof.
  intros Hmn. unfold edge_token.
  destruct (existsb _ _) eqn:E; [|eauto]. exfalso.
  apply existsb_exists in E. destruct E as [[lo hi] [Hin Hbad]]. cbn [fst snd] in Hbad.
  unfold bad_slice in Hbad. rewrite len_runes in Hbad.
  destruct back; apply in_flat_map in Hin; destruct Hin as [n [Hn Hin]]; apply in_zrange in Hn.
  - destruct (0 <=? zcount (t_term t) - n) eqn:Ele; [|destruct Hin].
    destruct Hin as [Heq|[]]. inversion Heq; subst. lia.
  - destruct (0 + n <=? zcount (t_term t)) eqn:Ele; [|destruct Hin].
    destruct Hin as [Heq|[]]. inversion Heq; subst. lia.
Qed.

Lemma edge_total_all back mn mx : 0 <= mn -> total_filter (edge_filter back mn mx).
Proof.
  intros Hmn ts. unfold edge_filter.
  destruct (rmapM_total (edge_token back mn mx) ts) as [tss E].
  - intros t _. apply edge_token_total. assumption.
  - rewrite E. cbn [rmap rbind]. eauto.
Qed.

(* ---------- reverse.go as pinned: an invalid byte panics ---------- *)
Lemma reverse_pinned_panics : exists (is_mark : Z -> bool) ts, reverse_filter false is_mark ts = Panic 4.
Proof. exists (fun _ => false), [Tk 0 3 [97; 255; 98] 1 0 false]. vm_compute. reflexivity. Qed.

(* the repaired line returns on the same input *)
Lemma reverse_fixed_witness :
  reverse_filter true (fun _ => false) [Tk 0 3 [97; 255; 98] 1 0 false] = Ok [Tk 0 3 [98; 255; 97] 1 0 false].
Proof. vm_compute. reflexivity. Qed.

(* ---------- lowercase.go: total for every table of valid runes ---------- *)

Lemma encode_rune_len l : valid_rune l = true -> len (encode_rune l) = rune_len l /\ 1 <= rune_len l <= 4.
Proof.
  intros Hv. unfold encode_rune. rewrite Hv. cbn [negb].
  unfold valid_rune in Hv. unfold rune_len, len, surrogate_min, surrogate_max, max_rune in *.
  destruct (l <? 0) eqn:E0; [lia|].
  destruct (l <? 128) eqn:E1; [cbn; lia|].
  destruct (l <? 2048) eqn:E2; [cbn; lia|].
  destruct ((55296 <=? l) && (l <=? 57343)) eqn:E3; [lia|].
  destruct (l <? 65536) eqn:E4; [cbn; lia|].
  destruct (l <=? 1114111) eqn:E5; [cbn; lia|lia].
Qed.

Lemma write_at_length buf j bs :
  0 <= j -> j + len bs <= len buf -> length (write_at buf j bs) = length buf.
Proof.
  unfold write_at, len. intros Hj Hb. rewrite !app_length, firstn_length, skipn_length. lia.
Qed.

Lemma lower_loop_total (lower : Z -> Z) :
  (forall r, valid_rune (lower r) = true) ->
  forall fuel s i j,
    0 <= j -> j <= i -> i <= len s -> (Z.to_nat (len s - i) < fuel)%nat ->
    exists out, lower_loop fuel lower s i j = Ok out.
Proof.
  intros Hv. induction fuel as [|f IH]; intros s i j Hj Hji Hi Hfuel; [lia|].
  cbn [lower_loop]. destruct (len s <=? i) eqn:Eend.
  - destruct ((j <? 0) || (len s <? j)) eqn:Eb; [lia|eauto].
  - cbv zeta. set (si := nth (Z.to_nat i) s 0).
    assert (Hw : exists r wid,
               (if si <? rune_self then (si, 1)
                else (fst (decode_rune (skipn (Z.to_nat i) s)), Z.of_nat (snd (decode_rune (skipn (Z.to_nat i) s))))) = (r, wid)
               /\ 1 <= wid /\ i + wid <= len s).
    { destruct (si <? rune_self).
      - exists si, 1. split; [reflexivity|]. lia.
      - eexists _, _. split; [reflexivity|].
        assert (Hne : skipn (Z.to_nat i) s <> []).
        { intros E. apply (f_equal (@length Z)) in E. rewrite skipn_length in E. unfold len in *. cbn in E. lia. }
        pose proof (decode_rune_size _ Hne) as Hsz. rewrite skipn_length in Hsz. unfold len in *. lia. }
    destruct Hw as [r [wid [Ew [Hw1 Hw2]]]]. rewrite Ew.
    destruct (lower r =? r) eqn:Eq.
    + apply IH; try lia.
    + set (l := if (lower r =? sigma_small) && (i + 2 =? len s) then sigma_final else lower r).
      assert (Hvl : valid_rune l = true).
      { unfold l. destruct ((lower r =? sigma_small) && (i + 2 =? len s)); [reflexivity | apply Hv]. }
      destruct (encode_rune_len l Hvl) as [Hlen Hrl].
      destruct (wid <? rune_len l) eqn:Ewid.
      * destruct ((j <? 0) || (len s <? j)) eqn:Eb; [lia|eauto].
      * destruct ((j <? 0) || (len s <? j + len (encode_rune l))) eqn:Eb; [lia|].
        assert (Hlw : len (write_at s j (encode_rune l)) = len s).
        { unfold len. f_equal. apply write_at_length; unfold len in *; lia. }
        apply IH; try lia.
Qed.

Lemma lower_term_total lower s :
  (forall r, valid_rune (lower r) = true) -> exists out, lower_term lower s = Ok out.
Proof.
  intros Hv. unfold lower_term. apply lower_loop_total; auto; unfold len; lia.
Qed.

Lemma lowercase_total_all lower :
  (forall r, valid_rune (lower r) = true) -> total_filter (lowercase_filter lower).
Proof.
  intros Hv ts. unfold lowercase_filter. apply rmapM_total. intros t _.
  destruct (lower_term_total lower (t_term t) Hv) as [out E]. rewrite E. cbn [rmap rbind]. eauto.
Qed.

(* what lowercase.go actually computes when a replacement is narrower than the original
   (Kelvin sign, 3 bytes -> k, 1 byte): the unchanged runes that follow are not moved down *)
Lemma lowercase_stale_bytes :
  lower_term (fun r => if r =? 8490 then 107 else r) [226; 132; 170; 101; 108] = Ok [107; 132; 170].
Proof. vm_compute. reflexivity. Qed.
