(* Analysis/ReverseProofs.v — the repaired reverse.go returns on every byte string. *)
From Coq Require Import ZArith List Bool Lia Arith.
From Coq Require Import ZifyBool.
From Bluge Require Import Base.Res Base.Corr Base.UTF8 Gen.ParamsAnalysis
  Analysis.Pipeline Analysis.PipelineProofs Analysis.Utf8Facts Analysis.Filters Analysis.FiltersProofs Analysis.ShingleProofs.
Import ListNotations.
Open Scope Z_scope.

(* for a rune other than RuneError, RuneLen is the decoded width (bytes in [0,256)) *)
Lemma decode_rune_len (p : list Z) r n :
  bytes_ok p = true -> decode_rune p = (r, n) -> r <> rune_error -> rune_len r = Z.of_nat n.
Proof.
  intros Hb Hd Hr. destruct p as [|p0 t]; [cbn in Hd; inversion Hd; subst; congruence|].
  cbn [bytes_ok forallb] in Hb. apply andb_true_iff in Hb as [Hp0 Ht]. unfold byte_ok in Hp0.
  unfold decode_rune in Hd. unfold rune_self, rune_error in *.
  destruct (p0 <? 128) eqn:E0.
  { inversion Hd; subst. unfold rune_len. destruct (r <? 0) eqn:A; [lia|]. destruct (r <? 128) eqn:B; lia. }
  unfold lead_size in Hd.
  destruct (p0 <? 194) eqn:E1; [inversion Hd; subst; congruence|].
  destruct (p0 <? 224) eqn:E2.
  { destruct t as [|b1 t]; [inversion Hd; subst; congruence|].
    destruct ((b1 <? accept_lo p0) || (accept_hi p0 <? b1)) eqn:Ea; [inversion Hd; subst; congruence|].
    inversion Hd; subst. unfold accept_lo, accept_hi in Ea.
    destruct (p0 =? 224) eqn:A1; [lia|]. destruct (p0 =? 240) eqn:A2; [lia|].
    destruct (p0 =? 237) eqn:A3; [lia|]. destruct (p0 =? 244) eqn:A4; [lia|].
    unfold rune_len, surrogate_min, surrogate_max, max_rune.
    destruct ((p0 - 192) * 64 + (b1 - 128) <? 0) eqn:B0; [lia|].
    destruct ((p0 - 192) * 64 + (b1 - 128) <? 128) eqn:B1; [lia|].
    destruct ((p0 - 192) * 64 + (b1 - 128) <? 2048) eqn:B2; lia. }
  destruct (p0 <? 240) eqn:E3.
  { destruct t as [|b1 [|b2 t]]; try (inversion Hd; subst; congruence).
    destruct ((b1 <? accept_lo p0) || (accept_hi p0 <? b1)) eqn:Ea; [inversion Hd; subst; congruence|].
    destruct (negb (is_cont b2)) eqn:Ec; [inversion Hd; subst; congruence|].
    inversion Hd; subst. unfold accept_lo, accept_hi in Ea. unfold is_cont in Ec.
    destruct (p0 =? 224) eqn:A1; destruct (p0 =? 240) eqn:A2; destruct (p0 =? 237) eqn:A3; destruct (p0 =? 244) eqn:A4; try lia;
    unfold rune_len, surrogate_min, surrogate_max, max_rune;
    set (rr := (p0 - 224) * 4096 + (b1 - 128) * 64 + (b2 - 128)) in *;
    destruct (rr <? 0) eqn:B0; try lia; destruct (rr <? 128) eqn:B1; try lia; destruct (rr <? 2048) eqn:B2; try lia;
    destruct ((55296 <=? rr) && (rr <=? 57343)) eqn:B3; try lia; destruct (rr <? 65536) eqn:B4; try lia. }
  destruct (p0 <? 245) eqn:E4; [|inversion Hd; subst; congruence].
  destruct t as [|b1 [|b2 [|b3 t]]]; try (inversion Hd; subst; congruence).
  destruct ((b1 <? accept_lo p0) || (accept_hi p0 <? b1)) eqn:Ea; [inversion Hd; subst; congruence|].
  destruct (negb (is_cont b2)) eqn:Ec; [inversion Hd; subst; congruence|].
  destruct (negb (is_cont b3)) eqn:Ec3; [inversion Hd; subst; congruence|].
  inversion Hd; subst. unfold accept_lo, accept_hi in Ea. unfold is_cont in Ec, Ec3.
  destruct (p0 =? 224) eqn:A1; destruct (p0 =? 240) eqn:A2; destruct (p0 =? 237) eqn:A3; destruct (p0 =? 244) eqn:A4; try lia;
  unfold rune_len, surrogate_min, surrogate_max, max_rune;
  set (rr := (p0 - 240) * 262144 + (b1 - 128) * 4096 + (b2 - 128) * 64 + (b3 - 128)) in *;
  destruct (rr <? 0) eqn:B0; try lia; destruct (rr <? 128) eqn:B1; try lia; destruct (rr <? 2048) eqn:B2; try lia;
  destruct ((55296 <=? rr) && (rr <=? 57343)) eqn:B3; try lia; destruct (rr <? 65536) eqn:B4; try lia;
  destruct (rr <=? 1114111) eqn:B5; try lia.
Qed.

(* ---------- the decode walk ---------- *)

Lemma decode_all_fuel_enough : forall f1 f2 p,
  (length p <= f1)%nat -> (length p <= f2)%nat -> decode_all_fuel f1 p = decode_all_fuel f2 p.
Proof.
  induction f1 as [|f1 IH]; intros f2 p H1 H2.
  - destruct p; [|cbn in H1; lia]. destruct f2; reflexivity.
  - destruct p as [|b p]; [destruct f2; reflexivity|].
    destruct f2 as [|f2]; [cbn in H2; lia|].
    cbn [decode_all_fuel]. f_equal.
    assert (Hne : b :: p <> []) by congruence.
    pose proof (decode_rune_size (b :: p) Hne) as Hs.
    apply IH; rewrite skipn_length; cbn [length] in *; lia.
Qed.

Lemma decode_all_cons p : p <> [] ->
  decode_all p = decode_rune p :: decode_all (skipn (snd (decode_rune p)) p).
Proof.
  intros Hne. unfold decode_all. destruct p as [|b p]; [congruence|].
  cbn [length decode_all_fuel]. f_equal.
  pose proof (decode_rune_size (b :: p) Hne) as Hs.
  apply decode_all_fuel_enough; rewrite skipn_length; cbn [length] in *; lia.
Qed.

Lemma runes_cons p : p <> [] ->
  runes p = fst (decode_rune p) :: runes (skipn (snd (decode_rune p)) p).
Proof. intros H. unfold runes. rewrite (decode_all_cons p H). reflexivity. Qed.

Lemma runes_nil : runes [] = [].
Proof. reflexivity. Qed.

Lemma bytes_ok_skipn n p : bytes_ok p = true -> bytes_ok (skipn n p) = true.
Proof.
  unfold bytes_ok. rewrite !forallb_forall. intros H x Hx. apply H. eapply in_skipn. exact Hx.
Qed.

Lemma take_marks_length is_mark : forall l w, (length (snd (take_marks is_mark l w)) <= length l)%nat.
Proof.
  induction l as [|r l IH]; intros w; cbn [take_marks]; [cbn; lia|].
  destruct (is_mark r); [specialize (IH (w + rune_len r)); cbn [length]; lia | cbn; lia].
Qed.

(* the marks taken off the rune list account for exactly the bytes they occupy *)
Lemma take_marks_runes (is_mark : Z -> bool) : is_mark rune_error = false ->
  forall n q wid, (length q <= n)%nat -> bytes_ok q = true ->
    exists k, (k <= length q)%nat /\
              fst (take_marks is_mark (runes q) wid) = wid + Z.of_nat k /\
              snd (take_marks is_mark (runes q) wid) = runes (skipn k q).
Proof.
  intros Hm. induction n as [|n IH]; intros q wid Hn Hb.
  - destruct q; [|cbn in Hn; lia]. exists 0%nat. cbn. repeat split; lia.
  - destruct q as [|b q'] eqn:Eq; [exists 0%nat; cbn; repeat split; lia|]. rewrite <- Eq in *.
    assert (Hne : q <> []) by (subst q; congruence).
    rewrite (runes_cons q Hne). cbn [take_marks].
    destruct (decode_rune q) as [r1 w1] eqn:Ed. cbn [fst snd].
    pose proof (decode_rune_size q Hne) as Hs. rewrite Ed in Hs. cbn [snd] in Hs.
    destruct (is_mark r1) eqn:Em.
    + assert (Hr : r1 <> rune_error) by (intros ->; congruence).
      rewrite (decode_rune_len q r1 w1 Hb Ed Hr).
      destruct (IH (skipn w1 q) (wid + Z.of_nat w1)) as [k [Hk [H1 H2]]].
      { rewrite skipn_length. lia. }
      { apply bytes_ok_skipn. exact Hb. }
      exists (w1 + k)%nat. rewrite skipn_length in Hk. repeat split; [lia | rewrite H1; lia |].
      rewrite H2. rewrite skipn_add. reflexivity.
    + exists 0%nat. cbn [fst snd skipn]. repeat split; [lia | lia |].
      rewrite (runes_cons q Hne), Ed. reflexivity.
Qed.

Lemma slice_length (s : list Z) (lo hi : Z) :
  0 <= lo -> lo <= hi -> hi <= len s -> len (slice s lo hi) = hi - lo.
Proof.
  unfold slice, len. intros H1 H2 H3. rewrite firstn_length, skipn_length. lia.
Qed.

Lemma reverse_loop_total (is_mark : Z -> bool) (s : list Z) :
  is_mark rune_error = false -> bytes_ok s = true ->
  forall fuel cin rs cout output,
    (cin <= length s)%nat -> rs = runes (skipn cin s) ->
    cout = len s - Z.of_nat cin -> length output = length s -> (length rs < fuel)%nat ->
    exists out, reverse_loop fuel true is_mark s rs (Z.of_nat cin) cout output = Ok out.
Proof.
  intros Hm Hb. induction fuel as [|f IH]; intros cin rs cout output Hcin Hrs Hcout Hout Hfuel; [lia|].
  cbn [reverse_loop]. destruct rs as [|r rs']; [eauto|].
  assert (Hne : skipn cin s <> []).
  { intros E. rewrite E, runes_nil in Hrs. discriminate. }
  rewrite (runes_cons _ Hne) in Hrs. inversion Hrs as [[Hr Hrs']]. clear Hrs.
  rewrite Nat2Z.id.
  pose proof (decode_rune_size _ Hne) as Hs. rewrite skipn_length in Hs.
  set (w := snd (decode_rune (skipn cin s))) in *.
  destruct (take_marks_runes is_mark Hm (length (skipn w (skipn cin s))) (skipn w (skipn cin s)) (Z.of_nat w)) as [k [Hk [H1 H2]]].
  { lia. }
  { apply bytes_ok_skipn. apply bytes_ok_skipn. exact Hb. }
  subst rs'.
  destruct (take_marks is_mark (runes (skipn w (skipn cin s))) (Z.of_nat w)) as [wid rest] eqn:Et. cbn [fst snd] in H1, H2.
  rewrite !skipn_length in Hk.
  assert (Hlen : len s = Z.of_nat (length s)) by reflexivity.
  destruct ((wid <? 0) || (cout - wid <? 0) || (len s <? Z.of_nat cin + wid)) eqn:Eb; [lia|].
  replace (Z.of_nat cin + wid) with (Z.of_nat (cin + w + k)) in * by lia.
  apply IH.
  - lia.
  - rewrite H2. rewrite !skipn_add. f_equal. f_equal. lia.
  - lia.
  - rewrite write_at_length; [exact Hout | lia |].
    rewrite slice_length; unfold len in *; lia.
  - pose proof (take_marks_length is_mark (runes (skipn w (skipn cin s))) (Z.of_nat w)) as Hl. rewrite Et in Hl. cbn [snd length] in *. lia.
Qed.

Lemma reverse_term_total (is_mark : Z -> bool) (s : list Z) :
  is_mark rune_error = false -> bytes_ok s = true ->
  exists out, reverse_term true is_mark s = Ok out.
Proof.
  intros Hm Hb. unfold reverse_term.
  apply (reverse_loop_total is_mark s Hm Hb (S (length (runes s))) 0%nat).
  - lia.
  - reflexivity.
  - lia.
  - apply repeat_length.
  - lia.
Qed.

(* the repaired ReverseFilter returns on every stream of byte strings (no rune class table
   calls U+FFFD a combining mark: unicode.Mn/Me/Mc do not contain it) *)
Lemma reverse_total_all (is_mark : Z -> bool) :
  is_mark rune_error = false ->
  forall ts, Forall (fun t => bytes_ok (t_term t) = true) ts ->
             exists out, reverse_filter true is_mark ts = Ok out.
Proof.
  intros Hm ts Hts. unfold reverse_filter. apply rmapM_total. intros t Ht.
  rewrite Forall_forall in Hts.
  destruct (reverse_term_total is_mark (t_term t) Hm (Hts t Ht)) as [out E]. rewrite E. cbn [rmap rbind]. eauto.
Qed.
