(* Analysis/CharFilters.v — exact models of two character filters:
   analysis/char/asciifolding.go (ASCIIFoldingFilter.Filter, foldToASCII; the 1242-value switch is
   the table Gen.ParamsAnalysis.ascii_fold_table, regenerated from the Go AST on every run) and
   analysis/char/zerowidthnonjoiner.go (regexp `\x{200C}` replaced by " ").
   No proofs in this file. *)
From Coq Require Import ZArith List Bool.
From Bluge Require Import Base.Res Base.Corr Base.UTF8 Gen.ParamsAnalysis Analysis.Pipeline.
Import ListNotations.
Open Scope Z_scope.

(* ---------- asciifolding.go ---------- *)

Section AsciiFold.
  Variable table : list (Z * (Z * list Z)).   (* case value -> (output = output[:len+k], runes written) *)
  Variable cap : Z.                           (* cap(output) = length*maxRuneExpansion (:37) *)

  Fixpoint fold_lookup (tbl : list (Z * (Z * list Z))) (c : Z) : option (Z * list Z) :=
    match tbl with
    | [] => None
    | (r, e) :: rest => if c =? r then Some e else fold_lookup rest c
    end.

  (* `output[outputPos] = x; outputPos++` for each x: index out of range when outputPos >= len(output) *)
  Fixpoint fold_writes (ws : list Z) (cur_len pos : Z) (acc : list Z) : res (Z * list Z) :=
    match ws with
    | [] => Ok (pos, acc)
    | x :: ws' => if cur_len <=? pos then Panic 8 else fold_writes ws' cur_len (pos + 1) (x :: acc)
    end.

  (* foldToASCII (:45-3556); acc = the runes written so far, last one first; the slots of output
     not written yet hold 0 (make([]rune, length, cap)) *)
  Fixpoint fold_loop (rs : list Z) (cur_len pos : Z) (acc : list Z) : res (list Z) :=
    match rs with
    | [] => Ok (rev acc ++ repeat 0 (Z.to_nat (cur_len - pos)))            (* return output *)
    | c :: rest =>
        if c <? 128 then                                                   (* :51-53 *)
          w <- fold_writes [c] cur_len pos acc ;; fold_loop rest cur_len (fst w) (snd w)
        else
          match fold_lookup table c with
          | Some (k, ws) =>
              (* output = output[:(len(output) + k)] panics beyond the capacity *)
              if cap <? cur_len + k then Panic 9
              else w <- fold_writes ws (cur_len + k) pos acc ;; fold_loop rest (cur_len + k) (fst w) (snd w)
          | None =>                                                        (* default: output[outputPos] = c *)
              w <- fold_writes [c] cur_len pos acc ;; fold_loop rest cur_len (fst w) (snd w)
          end
    end.
End AsciiFold.

(* ASCIIFoldingFilter.Filter (:29-41) *)
Definition ascii_fold_with (table : list (Z * (Z * list Z))) (max_expansion : Z) (input : list Z) : res (list Z) :=
  match input with
  | [] => Ok []                                                            (* :30-32 *)
  | _ =>
      let rs := runes input in                                             (* []rune(string(input)) *)
      let n := len rs in
      rmap encode_runes (fold_loop table (n * max_expansion) rs n 0 [])    (* []byte(string(out)) *)
  end.
Definition ascii_fold (input : list Z) : res (list Z) := ascii_fold_with ascii_fold_table ascii_fold_max_expansion input.

(* what the proofs need of the table: every case extends the output by one less than it writes,
   and writes between one and maxRuneExpansion runes *)
Definition fold_entry_ok (max_expansion : Z) (e : Z * (Z * list Z)) : bool :=
  let '(_, (k, ws)) := e in (k + 1 =? len ws) && (1 <=? len ws) && (len ws <=? max_expansion).
Definition fold_table_ok (table : list (Z * (Z * list Z))) (max_expansion : Z) : bool :=
  forallb (fold_entry_ok max_expansion) table.

(* ---------- zerowidthnonjoiner.go ---------- *)

Definition zwnj_rune : Z := 8204.      (* `\x{200C}` zerowidthnonjoiner.go:21 *)
Definition zwnj_replacement : list Z := [32].   (* []byte(" ") :24 *)

(* regexp.ReplaceAll of a one-rune literal: the decode walk, every U+200C replaced; invalid bytes
   decode to U+FFFD and are copied *)
Fixpoint zwnj_loop (fuel : nat) (p : list Z) : list Z :=
  match fuel, p with
  | S f, _ :: _ =>
      let '(r, w) := decode_rune p in
      (if r =? zwnj_rune then zwnj_replacement else firstn w p) ++ zwnj_loop f (skipn w p)
  | _, _ => []
  end.
Definition zwnj_filter (input : list Z) : list Z := zwnj_loop (length input) input.
