(* Analysis/AnalysisCorr.v — correspondence cases of the `analysis` engine (C18).
   (a) exactly modelled components: the implementation's output is recomputed with the model
       (rune-class predicates, unicode.ToLower, mark classes and TokenMap lookups are tabulated
       by the harness for the runes / terms present in the case);
   (b) every other component: the recorded input and output of one pipeline stage is run
       through the contract checkers of Analysis/Pipeline.v. *)
From Coq Require Import ZArith List Bool.
From Bluge Require Import Base.Res Base.Corr Base.UTF8 Gen.ParamsAnalysis
  Analysis.Pipeline Analysis.Tokenizers Analysis.Filters Analysis.Filters2 Analysis.CharFilters Analysis.Freq Analysis.Merge.
From Bluge Require Export Analysis.ByteNames.
Import ListNotations.
Open Scope Z_scope.

(* observed TokenFreq: term, locations (start, end, position), frequency *)
Definition ofreq := (list Z * list (Z * Z * Z) * Z)%type.

(* what tok_ok reads of a token: (start, end, increment) *)
Definition obounds := (Z * Z * Z)%type.
Definition of_bounds (b : obounds) : token := let '(s, e, i) := b in Tk s e [] i 0 false.
Definition bounds_okb (L : Z) (bs : list obounds) : bool := tok_okb L (map of_bounds bs).
Definition bounds_of (ts : tstream) : list obounds := map (fun t => (t_start t, t_end t, t_incr t)) ts.

(* observed TokenFreq with the FieldVal of every location: term, (field, (start, end, position)), frequency *)
Definition ofreqf := (list Z * list (list Z * (Z * Z * Z)) * Z)%type.

Inductive acase :=
(* --- contract checker on recorded stages --- *)
| CTokOk (L : Z) (ts : tstream)                      (* tokenizer / analyzer output satisfies tok_ok L *)
| CPure (input : list Z) (ts : tstream)              (* pure tokenizer: pure_tok input *)
| CStage (L : Z) (tin tout : list obounds)           (* a filter stage preserved tok_ok L on this input *)
| CRun (input : list Z) (first : tstream) (stages : list (list obounds))
                                                     (* one analysis, stage by stage: input = the text the
                                                        tokenizer saw, first = tokenizer output, stages = the
                                                        output of every token filter (offsets and increments:
                                                        all that tok_ok reads) *)
(* --- exact models --- *)
| CCharTok (tbl : list (Z * bool)) (input : list Z) (out : tstream)
| CSingle (input : list Z) (out : tstream)
| CLength (mn mx : Z) (tin tout : tstream)
| CTruncate (n : Z) (tin : tstream) (out : option tstream)          (* None: the call panicked *)
| CStop (stops : list (list Z)) (tin tout : tstream)
| CUnique (tin tout : tstream)
| CKeyword (kws : list (list Z)) (tin tout : tstream)
| CLower (tbl : list (Z * Z)) (tin : tstream) (out : option tstream)
| CNgram (mn mx : Z) (tin : tstream) (out : option tstream)
| CEdge (back : bool) (mn mx : Z) (tin : tstream) (out : option tstream)
| CReverse (fixed : bool) (marks : list Z) (tin : tstream) (out : option tstream)
| CApostrophe (tin tout : tstream)
| CElision (articles : list (list Z)) (tin tout : tstream)
| CShingle (mn mx : Z) (oo : bool) (sep fill : list Z) (tin : tstream) (out : option tstream)
(* further exact models (Filters2.v); clamp = true: the repaired offsets *)
| CCamel (clamp : bool) (lowers uppers numbers : list Z) (tin tout : tstream)
| CDict (clamp : bool) (dict : list (list Z)) (min_word min_sub max_sub : Z) (longest : bool)
        (tin : tstream) (out : option tstream)
| CBigram (clamp : bool) (unigram : bool) (tin tout : tstream)
| CWidth (tin : tstream) (out : option tstream)
| CPossessive (tin tout : tstream)
(* character filters *)
| CAsciiFold (input : list Z) (out : option (list Z))            (* None: the call panicked *)
| CZwnj (input out : list Z)
(* whole analyzers built only from exact components: letter tokenizer + lowercase (simple.go),
   single token (keyword.go) *)
| CSimple (letters : list (Z * bool)) (lower : list (Z * Z)) (input : list Z) (out : tstream)
| CKeywordAn (input : list Z) (out : tstream)
(* --- analysis.TokenFrequency / Document.Analyze --- *)
| CFreq (ts : tstream) (tv : bool) (start : Z) (out : list ofreq) (pos : Z)
| CDoc (fs : list field) (out : list (option (list ofreq)))
(* TokenFrequencies.MergeAll: sources = (field name, tokens, with locations?, start offset), merged in
   this order into an empty map; observed: the merged map and every source map after all merges *)
| CMerge (srcs : list (list Z * (tstream * (bool * Z)))) (merged : list ofreqf) (after : list (list ofreqf)).

Definition res_matches (r : res tstream) (o : option tstream) : bool :=
  match r, o with
  | Ok ts, Some ts' => tstream_eqb ts ts'
  | Panic _, None => true
  | _, _ => false
  end.

Definition loc_eqb (l : tloc) (o : Z * Z * Z) : bool :=
  let '(s, e, p) := o in (l_start l =? s) && (l_end l =? e) && (l_pos l =? p).

Fixpoint locs_eqb (a : list tloc) (b : list (Z * Z * Z)) : bool :=
  match a, b with
  | [], [] => true
  | x :: a', y :: b' => loc_eqb x y && locs_eqb a' b'
  | _, _ => false
  end.

(* the observed map (any order) equals the model's: same size, every observed entry present *)
Definition tfmap_matches (m : tfmap) (obs : list ofreq) : bool :=
  (length m =? length obs)%nat &&
  forallb (fun o => let '(term, locs, fr) := o in
                    match tf_lookup m term with
                    | Some e => locs_eqb (tf_locs e) locs && (tf_freq e =? fr)
                    | None => false
                    end) obs.

Fixpoint doc_matches (m : list (option (tfmap * Z))) (obs : list (option (list ofreq))) : bool :=
  match m, obs with
  | [], [] => true
  | None :: m', None :: o' => doc_matches m' o'
  | Some (tm, _) :: m', Some to :: o' => tfmap_matches tm to && doc_matches m' o'
  | _, _ => false
  end.

(* the tokenizer output is pure for the text it saw; every later stage keeps tok_ok *)
Fixpoint stages_ok (L : Z) (prev : list obounds) (rest : list (list obounds)) : bool :=
  match rest with
  | [] => true
  | s :: r => implb (bounds_okb L prev) (bounds_okb L s) && stages_ok L s r
  end.
Definition run_ok (input : list Z) (first : tstream) (stages : list (list obounds)) : bool :=
  pure_tokb input first && stages_ok (len input) (bounds_of first) stages.

Fixpoint flocs_eqb (a : list floc) (b : list (list Z * (Z * Z * Z))) : bool :=
  match a, b with
  | [], [] => true
  | x :: a', (f, o) :: b' => zlist_eqb (fl_field x) f && loc_eqb (fl_loc x) o && flocs_eqb a' b'
  | _, _ => false
  end.
Definition fmap_matches (m : fmap) (obs : list ofreqf) : bool :=
  (length m =? length obs)%nat &&
  forallb (fun o => let '(term, locs, fr) := o in
                    match ft_lookup m term with
                    | Some e => flocs_eqb (ft_locs e) locs && (ft_freq e =? fr)
                    | None => false
                    end) obs.
Fixpoint fmaps_match (ms : list fmap) (obs : list (list ofreqf)) : bool :=
  match ms, obs with
  | [], [] => true
  | m :: ms', o :: obs' => fmap_matches m o && fmaps_match ms' obs'
  | _, _ => false
  end.
Definition merge_sources (srcs : list (list Z * (tstream * (bool * Z)))) : list (list Z * fmap) :=
  map (fun s => let '(name, (ts, (tv, start))) := s in (name, lift_map (fst (token_frequency ts tv start)))) srcs.

Definition in_set (s : list (list Z)) (x : list Z) : bool := bmem x s.
Definition in_zset (s : list Z) (x : Z) : bool := existsb (Z.eqb x) s.

Definition simple_analyzer (letters : list (Z * bool)) (lower : list (Z * Z)) : analyzer :=
  Analyzer [] (char_tokenize (zassoc false letters)) [lowercase_filter (fun r => zassoc r lower r)].
Definition keyword_analyzer : analyzer := Analyzer [] single_tokenize [].

Definition check (c : acase) : bool :=
  match c with
  | CTokOk L ts => tok_okb L ts
  | CPure input ts => pure_tokb input ts
  | CStage L tin tout => implb (bounds_okb L tin) (bounds_okb L tout)
  | CRun input first stages => run_ok input first stages
  | CCharTok tbl input out => res_matches (char_tokenize (zassoc false tbl) input) (Some out)
  | CSingle input out => res_matches (single_tokenize input) (Some out)
  | CLength mn mx tin tout => tstream_eqb (length_filter mn mx tin) tout
  | CTruncate n tin out => res_matches (truncate_filter n tin) out
  | CStop stops tin tout => tstream_eqb (stop_filter (in_set stops) tin) tout
  | CUnique tin tout => tstream_eqb (unique_filter tin) tout
  | CKeyword kws tin tout => tstream_eqb (keyword_filter (in_set kws) tin) tout
  | CLower tbl tin out => res_matches (lowercase_filter (fun r => zassoc r tbl r) tin) out
  | CNgram mn mx tin out => res_matches (ngram_filter mn mx tin) out
  | CEdge back mn mx tin out => res_matches (edge_filter back mn mx tin) out
  | CReverse fixed marks tin out => res_matches (reverse_filter fixed (in_zset marks) tin) out
  | CApostrophe tin tout => tstream_eqb (apostrophe_filter tin) tout
  | CElision arts tin tout => tstream_eqb (elision_filter (in_set arts) tin) tout
  | CShingle mn mx oo sep fill tin out => res_matches (shingle_filter mn mx oo sep fill tin) out
  | CCamel clamp lowers uppers numbers tin tout =>
      tstream_eqb (camel_filter (in_zset lowers) (in_zset uppers) (in_zset numbers) clamp tin) tout
  | CDict clamp dict mw ms xs longest tin out =>
      res_matches (dict_filter (in_set dict) mw ms xs longest clamp tin) out
  | CBigram clamp unigram tin tout => tstream_eqb (bigram_filter unigram clamp tin) tout
  | CWidth tin out => res_matches (width_filter cjk_kana_norm cjk_combine_voiced cjk_combine_half_voiced tin) out
  | CPossessive tin tout => tstream_eqb (possessive_filter tin) tout
  | CAsciiFold input out =>
      match ascii_fold input, out with
      | Ok o, Some o' => zlist_eqb o o'
      | Panic _, None => true
      | _, _ => false
      end
  | CZwnj input out => zlist_eqb (zwnj_filter input) out
  | CSimple letters lower input out => res_matches (analyze (simple_analyzer letters lower) input) (Some out)
  | CKeywordAn input out => res_matches (analyze keyword_analyzer input) (Some out)
  | CFreq ts tv start out pos =>
      let '(m, p) := token_frequency ts tv start in tfmap_matches m out && (p =? pos)
  | CDoc fs out => doc_matches (doc_analyze fs) out
  | CMerge srcs merged after =>
      let '(m, srcs') := merge_seq [] (merge_sources srcs) in
      fmap_matches m merged && fmaps_match srcs' after
  end.

Definition mismatches (l : list acase) : list nat := failing check l.
