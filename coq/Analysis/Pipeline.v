(* Analysis/Pipeline.v — the analysis pipeline of analysis/type.go (C18).
   Token (type.go:40-53), TokenStream, Analyzer.Analyze (type.go:77-90), and the contracts
   the property states: offsets within the text the tokenizer saw, non-negative position
   increments, and for pure tokenizers term = input[start:end].
   Bytes are Z in [0,256), []byte = list Z, Go int = Z (positions and offsets are far from
   2^63: every tokenizer writes increments of 1 and offsets below len(input); no wrap modelled).
   A Go function that may panic returns `res` (Base/Res.v).  No proofs in this file. *)
From Coq Require Import ZArith List Bool.
From Bluge Require Import Base.Res Base.Corr Gen.ParamsAnalysis.
Import ListNotations.
Open Scope Z_scope.

(* analysis.Token (type.go:40-53); t_type is the TokenType enum value (Gen.ParamsAnalysis tt_* ) *)
Record token := Tk {
  t_start : Z;          (* Start: byte offset of the beginning of the term in the field *)
  t_end : Z;            (* End *)
  t_term : list Z;      (* Term *)
  t_incr : Z;           (* PositionIncr *)
  t_type : Z;           (* Type *)
  t_kw : bool           (* KeyWord *)
}.
Definition tstream := list token.

Definition set_term (t : token) (term : list Z) : token :=
  Tk (t_start t) (t_end t) term (t_incr t) (t_type t) (t_kw t).
Definition set_incr (t : token) (i : Z) : token :=
  Tk (t_start t) (t_end t) (t_term t) i (t_type t) (t_kw t).
Definition set_kw (t : token) (k : bool) : token :=
  Tk (t_start t) (t_end t) (t_term t) (t_incr t) (t_type t) k.

Definition len (l : list Z) : Z := Z.of_nat (length l).

(* Go slice expression s[lo:hi] (0 <= lo <= hi <= len s is the caller's obligation) *)
Definition slice {A} (s : list A) (lo hi : Z) : list A :=
  firstn (Z.to_nat (hi - lo)) (skipn (Z.to_nat lo) s).

(* ---------- contracts ---------- *)

(* one token: 0 <= start <= end <= L and PositionIncr >= 0 *)
Definition tok_ok1 (L : Z) (t : token) : Prop :=
  0 <= t_start t /\ t_start t <= t_end t /\ t_end t <= L /\ 0 <= t_incr t.
Definition tok_ok (L : Z) (ts : tstream) : Prop := Forall (tok_ok1 L) ts.

(* pure tokenizer: additionally the term is the slice of the input at the offsets *)
Definition pure1 (input : list Z) (t : token) : Prop := t_term t = slice input (t_start t) (t_end t).
Definition pure_tok (input : list Z) (ts : tstream) : Prop :=
  tok_ok (len input) ts /\ Forall (pure1 input) ts.

(* a filter preserves the contract for texts of length L *)
Definition preserves (L : Z) (f : tstream -> res tstream) : Prop :=
  forall ts ts', tok_ok L ts -> f ts = Ok ts' -> tok_ok L ts'.
(* a filter is total (returns, i.e. neither panics nor diverges) *)
Definition total_filter (f : tstream -> res tstream) : Prop := forall ts, exists ts', f ts = Ok ts'.

(* executable checkers (run on recorded stage inputs/outputs by Analysis/AnalysisCorr.v) *)
Definition tok_ok1b (L : Z) (t : token) : bool :=
  (0 <=? t_start t) && (t_start t <=? t_end t) && (t_end t <=? L) && (0 <=? t_incr t).
Definition tok_okb (L : Z) (ts : tstream) : bool := forallb (tok_ok1b L) ts.
Definition pure1b (input : list Z) (t : token) : bool :=
  zlist_eqb (t_term t) (slice input (t_start t) (t_end t)).
Definition pure_tokb (input : list Z) (ts : tstream) : bool :=
  tok_okb (len input) ts && forallb (pure1b input) ts.

(* start offsets never run backwards past a later end: for a before b, start a <= end b.
   (What shingle.go needs from its input beyond tok_ok; every bundled tokenizer emits tokens in
   text order, so the streams met in bundled pipelines have it.) *)
Fixpoint orderedb (ts : tstream) : bool :=
  match ts with
  | [] => true
  | a :: r => forallb (fun b => t_start a <=? t_end b) r && orderedb r
  end.
Definition ordered (ts : tstream) : Prop := orderedb ts = true.

(* token equality (all six fields) *)
Definition token_eqb (a b : token) : bool :=
  (t_start a =? t_start b) && (t_end a =? t_end b) && zlist_eqb (t_term a) (t_term b) &&
  (t_incr a =? t_incr b) && (t_type a =? t_type b) && Bool.eqb (t_kw a) (t_kw b).
Definition tstream_eqb : tstream -> tstream -> bool := list_eqb token_eqb.

(* ---------- the analyzer (type.go:71-90) ---------- *)

Record analyzer := Analyzer {
  a_char : list (list Z -> list Z);            (* CharFilters: Filter([]byte) []byte *)
  a_tok : list Z -> res tstream;               (* Tokenizer.Tokenize *)
  a_filters : list (tstream -> res tstream)    (* TokenFilters *)
}.

(* type.go:78-82: for _, cf := range a.CharFilters { input = cf.Filter(input) } *)
Definition char_filtered (a : analyzer) (input : list Z) : list Z :=
  fold_left (fun i cf => cf i) (a_char a) input.

(* type.go:84-88: for _, tf := range a.TokenFilters { tokens = tf.Filter(tokens) } *)
Fixpoint run_filters (fs : list (tstream -> res tstream)) (ts : tstream) : res tstream :=
  match fs with
  | [] => Ok ts
  | f :: r => ts' <- f ts ;; run_filters r ts'
  end.

(* Analyzer.Analyze (type.go:77-90) *)
Definition analyze (a : analyzer) (input : list Z) : res tstream :=
  ts <- a_tok a (char_filtered a input) ;; run_filters (a_filters a) ts.

(* a filter that cannot panic, lifted *)
Definition lift (f : tstream -> tstream) : tstream -> res tstream := fun ts => Ok (f ts).

(* membership of a byte string in a finite set given as a list (TokenMap lookups:
   the harness tabulates the map for the terms present in the case) *)
Definition bmem (x : list Z) (s : list (list Z)) : bool := existsb (zlist_eqb x) s.

(* rune -> value tables with a default (rune-class predicates, unicode.ToLower) *)
Fixpoint zassoc {B} (d : B) (tbl : list (Z * B)) (k : Z) : B :=
  match tbl with
  | [] => d
  | (k', v) :: r => if k =? k' then v else zassoc d r k
  end.
