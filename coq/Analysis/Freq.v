(* Analysis/Freq.v — analysis.TokenFrequency (analysis/freq.go:155-200), TermField.Analyze
   (field.go:165-182) and the position bookkeeping of Document.Analyze (document.go:63-87).
   The Go map term -> *TokenFreq is an association list in order of first occurrence (Go's
   map iteration order is not observable through the returned map).  No proofs in this file. *)
From Coq Require Import ZArith List Bool.
From Bluge Require Import Base.Res Base.Corr Gen.ParamsAnalysis Analysis.Pipeline.
Import ListNotations.
Open Scope Z_scope.

(* analysis.TokenLocation (freq.go:37-42): StartVal, EndVal, PositionVal *)
Record tloc := Loc { l_start : Z; l_end : Z; l_pos : Z }.
(* analysis.TokenFreq (freq.go:66-70) *)
Record tfreq := TF { tf_term : list Z; tf_locs : list tloc; tf_freq : Z }.
Definition tfmap := list tfreq.

(* freq.go:174-184 (with locations) and 189-197 (without): the entry of the term gets one
   more occurrence, a new entry starts at frequency 1 *)
Fixpoint tf_add (m : tfmap) (term : list Z) (loc : list tloc) : tfmap :=
  match m with
  | [] => [TF term loc 1]
  | e :: r =>
      if zlist_eqb (tf_term e) term
      then TF (tf_term e) (tf_locs e ++ loc) (tf_freq e + 1) :: r
      else e :: tf_add r term loc
  end.

(* freq.go:165-187 *)
Fixpoint tf_loop_tv (ts : tstream) (position : Z) (m : tfmap) : tfmap * Z :=
  match ts with
  | [] => (m, position)
  | t :: r =>
      let p := position + t_incr t in                                      (* :166 *)
      tf_loop_tv r p (tf_add m (t_term t) [Loc (t_start t) (t_end t) p])   (* :167-184 *)
  end.

(* freq.go:188-198: no locations; the named result `position` is never assigned: 0 *)
Fixpoint tf_loop_plain (ts : tstream) (m : tfmap) : tfmap :=
  match ts with
  | [] => m
  | t :: r => tf_loop_plain r (tf_add m (t_term t) [])
  end.

(* TokenFrequency(tokens, includeTermVectors, startOffset) (tokenFreqs, position) *)
Definition token_frequency (ts : tstream) (tv : bool) (start_offset : Z) : tfmap * Z :=
  if tv then tf_loop_tv ts start_offset [] else (tf_loop_plain ts [], 0).

(* ---------- views used by the theorems ---------- *)

(* the position of every token, in stream order: the running sum of the increments *)
Fixpoint positions (start : Z) (ts : tstream) : list Z :=
  match ts with
  | [] => []
  | t :: r => (start + t_incr t) :: positions (start + t_incr t) r
  end.

(* (term, location) of every token, in stream order *)
Fixpoint located (start : Z) (ts : tstream) : list (list Z * tloc) :=
  match ts with
  | [] => []
  | t :: r => (t_term t, Loc (t_start t) (t_end t) (start + t_incr t)) :: located (start + t_incr t) r
  end.

(* all (term, location) pairs stored in the map *)
Definition map_locs (m : tfmap) : list (list Z * tloc) :=
  flat_map (fun e => map (fun l => (tf_term e, l)) (tf_locs e)) m.

Definition indexed_terms (m : tfmap) : list (list Z) := map tf_term m.

Fixpoint tf_lookup (m : tfmap) (term : list Z) : option tfreq :=
  match m with
  | [] => None
  | e :: r => if zlist_eqb (tf_term e) term then Some e else tf_lookup r term
  end.

(* what the map holds for one term *)
Definition locs_for (m : tfmap) (term : list Z) : list tloc :=
  match tf_lookup m term with Some e => tf_locs e | None => [] end.
Definition freq_for (m : tfmap) (term : list Z) : Z :=
  match tf_lookup m term with Some e => tf_freq e | None => 0 end.

(* the locations of the occurrences of one term, in stream order *)
Definition locs_of (term : list Z) (start : Z) (ts : tstream) : list tloc :=
  map snd (filter (fun x => zlist_eqb (fst x) term) (located start ts)).

Definition occurrences (term : list Z) (ts : tstream) : Z :=
  Z.of_nat (length (filter (fun t => zlist_eqb (t_term t) term) ts)).

(* a conjunction of term queries matches a one-field document iff every queried term is a key
   of the field's token-frequency map (what MatchQuery with operator AND asks of the index) *)
Definition match_and (query_terms : list (list Z)) (m : tfmap) : bool :=
  forallb (fun q => bmem q (indexed_terms m)) query_terms.

(* ---------- TermField.Analyze (field.go:165-182), Document.Analyze (document.go:63-87) ---------- *)

(* a field as Document.Analyze sees it; f_tokens = analyzer.Analyze(copy of the value)
   (field.go:168-177), or the single base token when the field has no analyzer (field.go:147-158) *)
Record field := Field {
  f_name : list Z;
  f_index : bool;        (* field.Index() *)
  f_gap : Z;             (* PositionIncrementGap(), text_position_gap for text fields *)
  f_tv : bool;           (* IncludeLocations() *)
  f_tokens : tstream
}.

Fixpoint offset_get (offs : list (list Z * Z)) (name : list Z) : Z :=
  match offs with
  | [] => 0
  | (n, v) :: r => if zlist_eqb n name then v else offset_get r name
  end.
Fixpoint offset_set (offs : list (list Z * Z)) (name : list Z) (v : Z) : list (list Z * Z) :=
  match offs with
  | [] => [(name, v)]
  | (n, v') :: r => if zlist_eqb n name then (n, v) :: r else (n, v') :: offset_set r name v
  end.

(* document.go:65-75; the result lists, per field, None (not indexed) or the frequencies and
   the last position returned by field.Analyze(fieldOffset) *)
Fixpoint doc_loop (fs : list field) (offs : list (list Z * Z)) : list (option (tfmap * Z)) :=
  match fs with
  | [] => []
  | f :: r =>
      if negb (f_index f) then None :: doc_loop r offs               (* :66-68 *)
      else
        let off := offset_get offs (f_name f) in                     (* :69 *)
        let off' := if 0 <? off then off + f_gap f else off in       (* :70-72 *)
        let out := token_frequency (f_tokens f) (f_tv f) off' in     (* :73 field.Analyze(fieldOffset) *)
        Some out :: doc_loop r (offset_set offs (f_name f) (snd out))  (* :74 *)
  end.
Definition doc_analyze (fs : list field) : list (option (tfmap * Z)) := doc_loop fs [].
