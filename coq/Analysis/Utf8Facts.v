(* Analysis/Utf8Facts.v — the facts about Base/UTF8.v that the analysis proofs use
   (width of DecodeRune, lengths of the decode walk). *)
From Coq Require Import ZArith List Bool Lia Arith.
From Bluge Require Import Base.UTF8.
Import ListNotations.
Open Scope Z_scope.

(* DecodeRune consumes at least one and at most len(p) bytes of a non-empty slice *)
Lemma decode_rune_size (p : list Z) : p <> [] -> (1 <= snd (decode_rune p) <= length p)%nat.
Proof.
  intros Hne. destruct p as [|p0 t]; [congruence|]. clear Hne.
  unfold decode_rune. destruct (p0 <? rune_self); [simpl; lia|].
  destruct (lead_size p0) as [|[|[|[|[|n]]]]]; try (simpl; lia).
  - destruct t as [|b1 t]; [simpl; lia|].
    destruct ((b1 <? accept_lo p0) || (accept_hi p0 <? b1)); simpl; lia.
  - destruct t as [|b1 [|b2 t]]; try (simpl; lia).
    destruct ((b1 <? accept_lo p0) || (accept_hi p0 <? b1)); [simpl; lia|].
    destruct (negb (is_cont b2)); simpl; lia.
  - destruct t as [|b1 [|b2 [|b3 t]]]; try (simpl; lia).
    destruct ((b1 <? accept_lo p0) || (accept_hi p0 <? b1)); [simpl; lia|].
    destruct (negb (is_cont b2)); [simpl; lia|].
    destruct (negb (is_cont b3)); simpl; lia.
Qed.

Lemma decode_rune_nil : decode_rune [] = (rune_error, 0%nat).
Proof. reflexivity. Qed.

Lemma decode_rune_size_le (p : list Z) : (snd (decode_rune p) <= length p)%nat.
Proof.
  destruct p as [|p0 t]; [simpl; lia|]. apply decode_rune_size. congruence.
Qed.

Lemma length_skipn_decode (p : list Z) :
  p <> [] -> (length (skipn (snd (decode_rune p)) p) < length p)%nat.
Proof.
  intros H. pose proof (decode_rune_size p H). rewrite skipn_length. lia.
Qed.

Lemma skipn_add {A} (a b : nat) (l : list A) : skipn a (skipn b l) = skipn (b + a) l.
Proof.
  revert l. induction b as [|b IH]; intros l; [reflexivity|].
  destruct l as [|x l]; simpl; [destruct a; reflexivity|]. apply IH.
Qed.
