(* Analysis/Filters2Proofs.v — camel case, dictionary compound, CJK bigram, CJK width and
   English possessive filters (as repaired) keep the offset / increment contract and return;
   the offsets as computed before the repairs do not (witnesses). *)
From Coq Require Import ZArith List Bool Lia Arith.
From Coq Require Import ZifyBool.
From Bluge Require Import Base.Res Base.Corr Base.UTF8 Gen.ParamsAnalysis
  Analysis.Pipeline Analysis.PipelineProofs Analysis.Utf8Facts Analysis.Filters Analysis.FiltersProofs
  Analysis.ShingleProofs Analysis.Filters2.
Import ListNotations.
Open Scope Z_scope.

Lemma len_nonneg {A} (l : list A) : 0 <= Z.of_nat (length l).
Proof. lia. Qed.

(* a token cut out of the source token t at [x, y) (x <= y), kept inside t *)
Lemma clamped_ok L t x y term incr typ kw :
  tok_ok1 L t -> t_start t <= x -> x <= y -> 0 <= incr ->
  tok_ok1 L (Tk (clamp_to true (t_end t) x) (clamp_to true (t_end t) y) term incr typ kw).
Proof.
  unfold tok_ok1, clamp_to. cbn [t_start t_end t_incr andb]. intros [H0 [H1 [H2 H3]]] Hx Hxy Hi.
  destruct (t_end t <? x) eqn:E1; destruct (t_end t <? y) eqn:E2; lia.
Qed.

(* ====================== camel case ====================== *)

Section CamelProofs.
  Variables is_lower is_upper is_number : Z -> bool.

  Lemma cc_run_bounds : forall rs cur buf index,
    Forall (fun n => index <= t_start n /\ t_start n <= t_end n /\ t_incr n = camel_tok_incr)
           (cc_run is_lower is_upper is_number rs cur buf index).
  Proof.
    induction rs as [|sym rest IH]; intros cur buf index; cbn [cc_run].
    - constructor; [|constructor]. unfold cc_build, len. cbn [t_start t_end t_incr]. lia.
    - destruct cur as [st|].
      + destruct (cc_member is_lower is_upper is_number st sym
                            match rest with [] => None | p :: _ => Some p end) as [m st'].
        destruct m; [apply IH|].
        constructor.
        * unfold cc_build, len. cbn [t_start t_end t_incr]. lia.
        * eapply Forall_impl; [|apply IH]. cbn beta. intros n [H1 H2].
          split; [|exact H2]. unfold cc_build, len in *. cbn [t_term] in *. lia.
      + apply IH.
  Qed.

  Lemma camel_token_ok L t : tok_ok1 L t -> tok_ok L (camel_token is_lower is_upper is_number true t).
  Proof.
    intros Ht. unfold camel_token, tok_ok. apply Forall_map.
    eapply Forall_impl; [|apply cc_run_bounds]. cbn beta. intros n [H1 [H2 H3]].
    apply clamped_ok; auto. rewrite H3. unfold camel_tok_incr. lia.
  Qed.

  (* camelcase.go as repaired keeps the contract, for every classification of the runes *)
  Lemma camel_preserves_all L ts : tok_ok L ts -> tok_ok L (camel_filter is_lower is_upper is_number true ts).
  Proof.
    intros H. unfold camel_filter. apply forall_flat_map. intros t Ht.
    apply camel_token_ok. unfold tok_ok in H. rewrite Forall_forall in H. apply H. exact Ht.
  Qed.
End CamelProofs.

(* the offsets as computed before fefca47: two invalid bytes give End = 6 on a 2-byte text *)
Lemma camel_unclamped_refuted_w :
  exists L ts, tok_ok L ts /\ ~ tok_ok L (camel_filter (fun _ => false) (fun _ => false) (fun _ => false) false ts).
Proof.
  exists 2, [Tk 0 2 [255; 255] 1 0 false]. split.
  - apply tok_okb_spec. vm_compute. reflexivity.
  - intros H. apply tok_okb_spec in H. vm_compute in H. discriminate.
Qed.

(* ====================== dictionary compound ====================== *)

Section DictProofs.
  Variable in_dict : list Z -> bool.
  Variables min_word min_sub max_sub : Z.
  Variable only_longest : bool.

  Definition opt_ok (L : Z) (o : option token) : Prop := match o with Some l => tok_ok1 L l | None => True end.

  Lemma dict_sub_ok L t rs i j :
    tok_ok1 L t -> 0 <= i -> 0 <= j -> tok_ok1 L (dict_sub true t rs i j).
  Proof.
    intros Ht Hi Hj. unfold dict_sub. apply clamped_ok; auto; try lia. unfold dict_sub_incr. lia.
  Qed.

  Lemma dict_inner_ok L t rs i : tok_ok1 L t -> 0 <= i ->
    forall js longest out, opt_ok L longest ->
      dict_inner in_dict only_longest true t rs i js longest = Ok out -> tok_ok L out.
  Proof.
    intros Ht Hi. induction js as [|j js IH]; intros longest out Hl E; cbn [dict_inner] in E.
    - inversion E; subst. destruct longest as [l|]; [|constructor].
      destruct only_longest; [constructor; [exact Hl|constructor] | constructor].
    - destruct (len rs <? i + j).
      { inversion E; subst. destruct longest as [l|]; [|constructor].
        destruct only_longest; [constructor; [exact Hl|constructor] | constructor]. }
      destruct (bad_slice rs i (i + j)) eqn:Eb; [discriminate|].
      assert (Hj : 0 <= j) by (unfold bad_slice in Eb; lia).
      destruct (in_dict (build_term (slice rs i (i + j)))).
      + destruct only_longest.
        * eapply IH; [|exact E]. destruct longest as [l|].
          -- destruct (zcount (t_term l) <? j); [apply dict_sub_ok; auto | exact Hl].
          -- apply dict_sub_ok; auto.
        * destruct (dict_inner in_dict false true t rs i js longest) as [r| | |] eqn:Er; cbn [rmap rbind] in E; try discriminate.
          inversion E; subst. constructor; [apply dict_sub_ok; auto | eapply IH; eauto].
      + eapply IH; eauto.
  Qed.

  Lemma dict_token_ok L t out : tok_ok1 L t ->
    dict_token in_dict min_word min_sub max_sub only_longest true t = Ok out -> tok_ok L out.
  Proof.
    intros Ht E. unfold dict_token in E. destruct (min_word <=? zcount (t_term t)).
    - unfold dict_decompose in E.
      destruct (rmapM _ (zrange 0 (len (runes (t_term t)) - min_sub))) as [tss| | |] eqn:Em; cbn [rmap rbind] in E; try discriminate.
      inversion E; subst. constructor; [exact Ht|]. apply concat_ok.
      eapply (rmapM_forall (fun i => 0 <= i) (tok_ok L)); [| |exact Em].
      + intros i b Hi Eb. cbn beta in Eb. apply (dict_inner_ok L t (runes (t_term t)) i Ht Hi (zrange min_sub max_sub) None b I Eb).
      + apply Forall_forall. intros i Hin. apply in_zrange in Hin. lia.
    - inversion E; subst. constructor; [exact Ht|constructor].
  Qed.

  (* dict.go as repaired keeps the contract, for every dictionary and all sizes *)
  Lemma dict_preserves_all L : preserves L (dict_filter in_dict min_word min_sub max_sub only_longest true).
  Proof.
    intros ts out Hts E. unfold dict_filter in E.
    destruct (rmapM _ ts) as [tss| | |] eqn:Em; cbn [rmap rbind] in E; try discriminate.
    inversion E; subst. apply concat_ok.
    eapply (rmapM_forall (tok_ok1 L) (tok_ok L)); [|exact Hts|exact Em].
    intros a b Ha Eb. eapply dict_token_ok; eauto.
  Qed.

  (* ... and returns for a non-negative minimum sub-word size *)
  Lemma dict_inner_total clamp t rs i : 0 <= i -> 0 <= min_sub ->
    forall js longest, Forall (fun j => min_sub <= j) js ->
      exists out, dict_inner in_dict only_longest clamp t rs i js longest = Ok out.
  Proof.
    intros Hi Hm. induction js as [|j js IH]; intros longest Hjs; cbn [dict_inner]; [eauto|].
    inversion Hjs; subst.
    destruct (len rs <? i + j) eqn:E1; [eauto|].
    destruct (bad_slice rs i (i + j)) eqn:Eb; [unfold bad_slice in Eb; lia|].
    destruct (in_dict _); [|apply IH; auto].
    destruct only_longest; [apply IH; auto|].
    destruct (IH longest) as [r Er]; auto. rewrite Er. cbn [rmap rbind]. eauto.
  Qed.

  Lemma dict_total_all clamp : 0 <= min_sub ->
    total_filter (dict_filter in_dict min_word min_sub max_sub only_longest clamp).
  Proof.
    intros Hm ts. unfold dict_filter.
    destruct (rmapM_total (dict_token in_dict min_word min_sub max_sub only_longest clamp) ts) as [tss E].
    - intros t _. unfold dict_token. destruct (min_word <=? zcount (t_term t)); [|eauto].
      unfold dict_decompose.
      destruct (rmapM_total (fun i => dict_inner in_dict only_longest clamp t (runes (t_term t)) i (zrange min_sub max_sub) None)
                            (zrange 0 (len (runes (t_term t)) - min_sub))) as [r Er].
      + intros i Hin. apply in_zrange in Hin. apply dict_inner_total; try lia.
        apply Forall_forall. intros j Hj. apply in_zrange in Hj. lia.
      + rewrite Er. cbn [rmap rbind]. eauto.
    - rewrite E. cbn [rmap rbind]. eauto.
  Qed.
End DictProofs.

(* the offsets as computed before d348d1a (runes counted from the token start): the term "abc"
   of a token spanning one byte and the dictionary {"c"} give a sub-word [2,3) on a 1-byte text *)
Lemma dict_unclamped_refuted_w :
  exists L ts out,
    tok_ok L ts /\ dict_filter (zlist_eqb [99]) 1 1 1 false false ts = Ok out /\ ~ tok_ok L out.
Proof.
  exists 1, [Tk 0 1 [97; 98; 99] 1 0 false], [Tk 0 1 [97; 98; 99] 1 0 false; Tk 2 3 [99] 0 0 false].
  split; [apply tok_okb_spec; vm_compute; reflexivity|].
  split; [vm_compute; reflexivity|].
  intros H. apply tok_okb_spec in H. vm_compute in H. discriminate.
Qed.

(* a negative minimum sub-word size slices runes[i:i+j] with j < 0 *)
Lemma dict_negative_min_sub_panics :
  exists ts, dict_filter (fun _ => true) 1 (-1) 1 false true ts = Panic 6.
Proof. exists [Tk 0 1 [97] 1 0 false]. vm_compute. reflexivity. Qed.

(* ====================== CJK bigram ====================== *)

Section BigramProofs.
  Variable output_unigram : bool.
  Variable L : Z.

  (* ring invariant: buffered tokens meet the contract; two buffered tokens are adjacent *)
  Definition ring_inv (r : bg_ring) : Prop :=
    bg_items r = 0 \/
    (bg_items r = 1 /\ exists c, bg_cur r = Some c /\ tok_ok1 L c) \/
    (bg_items r = 2 /\ exists c p, bg_cur r = Some c /\ bg_other r = Some p /\
                                   tok_ok1 L c /\ tok_ok1 L p /\ t_end p = t_start c).

  Lemma bg_single_ok p i : tok_ok1 L p -> 0 <= i -> tok_ok1 L (set_incr (bg_single p) i).
  Proof. unfold tok_ok1, bg_single, set_incr. cbn [t_start t_end t_incr]. lia. Qed.

  Lemma with_incr1_unigram_ok r : ring_inv r -> tok_ok L (with_incr1 (bg_unigram r)).
  Proof.
    intros [H0|[[H1 [c [Hc Hok]]]|[H2 [c [p [Hc [Hp [Hokc [Hokp _]]]]]]]]]; unfold bg_unigram.
    - rewrite H0. cbn. constructor.
    - rewrite H1, Hc. cbn. constructor; [apply bg_single_ok; auto; lia|constructor].
    - rewrite H2, Hp. cbn. constructor; [apply bg_single_ok; auto; lia|constructor].
  Qed.

  Lemma bg_flush_ok r : ring_inv r ->
    tok_ok L (with_incr1 (fst (bg_flush r))) /\ ring_inv (snd (bg_flush r)).
  Proof.
    intros Hr. unfold bg_flush. cbn [fst snd]. split; [|left; reflexivity].
    destruct (bg_items r =? 1) eqn:E; [apply with_incr1_unigram_ok; exact Hr | constructor].
  Qed.

  Lemma bg_push_ok r tk : ring_inv r -> tok_ok1 L tk ->
    tok_ok L (fst (bg_push output_unigram r tk)) /\ ring_inv (snd (bg_push output_unigram r tk)).
  Proof.
    intros Hr Htk. unfold bg_push.
    (* the ring after the alignment test, with what the test emitted *)
    set (step1 := if 0 <? bg_items r then
                    match bg_cur r with
                    | Some curr => if negb (t_start tk - t_end curr =? 0)
                                   then let '(f, r') := bg_flush r in (with_incr1 f, r')
                                   else ([], r)
                    | None => ([], r)
                    end
                  else ([], r)).
    assert (H1 : tok_ok L (fst step1) /\ ring_inv (snd step1) /\
                 (bg_items (snd step1) = 0 \/
                  exists c, bg_cur (snd step1) = Some c /\ t_end c = t_start tk /\ tok_ok1 L c /\ 1 <= bg_items (snd step1) <= 2)).
    { unfold step1. destruct (0 <? bg_items r) eqn:E0.
      - destruct Hr as [H0|[[Hi [c [Hc Hok]]]|[Hi [c [p [Hc [Hp [Hokc [Hokp Hadj]]]]]]]]]; [lia| |].
        + rewrite Hc. destruct (negb (t_start tk - t_end c =? 0)) eqn:Ea.
          * destruct (bg_flush_ok r) as [Hf1 Hf2]; [right; left; eauto|].
            destruct (bg_flush r) as [f r'] eqn:Ef. cbn [fst snd] in *. split; [exact Hf1|]. split; [exact Hf2|].
            left. unfold bg_flush in Ef. inversion Ef; subst. reflexivity.
          * cbn [fst snd]. split; [constructor|]. split; [right; left; eauto|].
            right. exists c. split; [exact Hc|]. split; [lia|]. split; [exact Hok|lia].
        + rewrite Hc. destruct (negb (t_start tk - t_end c =? 0)) eqn:Ea.
          * destruct (bg_flush_ok r) as [Hf1 Hf2]; [right; right; split; [exact Hi|]; exists c, p; auto|].
            destruct (bg_flush r) as [f r'] eqn:Ef. cbn [fst snd] in *. split; [exact Hf1|]. split; [exact Hf2|].
            left. unfold bg_flush in Ef. inversion Ef; subst. reflexivity.
          * cbn [fst snd]. split; [constructor|]. split; [right; right; split; [exact Hi|]; exists c, p; auto|].
            right. exists c. split; [exact Hc|]. split; [lia|]. split; [exact Hokc|lia].
      - cbn [fst snd]. split; [constructor|]. split; [exact Hr|]. left.
        destruct Hr as [H0|[[Hi _]|[Hi _]]]; lia. }
    destruct step1 as [out1 r1]. cbn [fst snd] in H1. destruct H1 as [Ho1 [Hr1 Hal]].
    cbn [fst snd].
    set (r2 := Ring (Some tk) (bg_cur r1) (if bg_items r1 <? 2 then bg_items r1 + 1 else bg_items r1)).
    assert (Hr2 : ring_inv r2).
    { destruct Hal as [H0|[c [Hc [Hadj [Hokc Hit]]]]].
      - right; left. unfold r2. cbn [bg_items bg_cur]. rewrite H0. cbn. split; [reflexivity|]. eauto.
      - right; right. unfold r2. cbn [bg_items bg_cur bg_other]. split.
        + destruct (bg_items r1 <? 2) eqn:E; lia.
        + exists tk, c. split; [reflexivity|]. split; [exact Hc|]. split; [exact Htk|]. split; [exact Hokc|exact Hadj]. }
    split; [|exact Hr2].
    apply tok_ok_app; [exact Ho1|]. apply tok_ok_app.
    - destruct ((1 <? bg_items r2) && output_unigram); [apply with_incr1_unigram_ok; exact Hr2 | constructor].
    - unfold bg_bigram. destruct (bg_items r2 =? 2) eqn:E2; [|constructor].
      destruct Hr2 as [H0|[[Hi _]|[Hi [c [p [Hc [Hp [Hokc [Hokp Hadj]]]]]]]]]; try lia.
      rewrite Hc, Hp. constructor; [|constructor].
      unfold tok_ok1 in *. destruct output_unigram; unfold set_incr; cbn [t_start t_end t_incr]; lia.
  Qed.

  Lemma bg_push_all_ok : forall tks r, ring_inv r -> Forall (tok_ok1 L) tks ->
    tok_ok L (fst (bg_push_all output_unigram r tks)) /\ ring_inv (snd (bg_push_all output_unigram r tks)).
  Proof.
    induction tks as [|tk rest IH]; intros r Hr Htks; cbn [bg_push_all].
    - cbn. split; [constructor|exact Hr].
    - inversion Htks; subst.
      destruct (bg_push_ok r tk Hr) as [Ho Hr1]; auto.
      destruct (bg_push output_unigram r tk) as [o1 r1]. cbn [fst snd] in *.
      destruct (IH r1 Hr1) as [Ho2 Hr2]; auto.
      destruct (bg_push_all output_unigram r1 rest) as [o2 r2]. cbn [fst snd] in *.
      split; [apply tok_ok_app; auto | exact Hr2].
  Qed.

  Lemma bg_pieces_ok t : tok_ok1 L t -> forall ds sofar, 0 <= sofar ->
    Forall (tok_ok1 L) (bg_pieces true t ds sofar).
  Proof.
    intros Ht. induction ds as [|d ds IH]; intros sofar Hs; cbn [bg_pieces]; [constructor|].
    constructor; [|apply IH; lia].
    apply clamped_ok; auto; try lia. unfold bigram_piece_incr. lia.
  Qed.

  Lemma bg_loop_ok : forall ts r, ring_inv r -> tok_ok L ts -> tok_ok L (bg_loop output_unigram true ts r).
  Proof.
    induction ts as [|t rest IH]; intros r Hr Hts; cbn [bg_loop].
    - destruct ((bg_items r =? 1) || output_unigram); [|constructor].
      destruct (bg_items r =? 2) eqn:E2; [|apply with_incr1_unigram_ok; exact Hr].
      destruct Hr as [H0|[[Hi _]|[Hi [c [p [Hc [Hp [Hokc [Hokp Hadj]]]]]]]]]; try lia.
      (* the swapped ring is only read through bg_unigram: its `other` is the latest token *)
      unfold bg_unigram. cbn [bg_items bg_other]. rewrite Hi, Hc. cbn.
      constructor; [apply bg_single_ok; auto; lia|constructor].
    - inversion Hts; subst.
      destruct (t_type t =? tt_ideographic).
      + destruct (bg_push_all_ok (bg_pieces true t (decode_all (t_term t)) 0) r Hr) as [Ho Hr'].
        { apply bg_pieces_ok; auto; lia. }
        destruct (bg_push_all output_unigram r (bg_pieces true t (decode_all (t_term t)) 0)) as [o r']. cbn [fst snd] in *.
        apply tok_ok_app; [exact Ho | apply IH; auto].
      + destruct (bg_flush_ok r Hr) as [Hf Hr'].
        destruct (bg_flush r) as [f r']. cbn [fst snd] in *.
        apply tok_ok_app; [exact Hf|]. constructor; [assumption | apply IH; auto].
  Qed.

  (* cjk_bigram.go as repaired keeps the contract (both unigram settings) *)
  Lemma bigram_preserves_all ts : tok_ok L ts -> tok_ok L (bigram_filter output_unigram true ts).
  Proof. intros H. unfold bigram_filter. apply bg_loop_ok; [left; reflexivity | exact H]. Qed.
End BigramProofs.

(* offsets as computed before 943dd1b: an ideographic token spanning [1,4) whose term was
   rewritten to three U+FFFD (nine bytes) gives unigrams and bigrams ending at 7 and 10 on 8 bytes *)
Lemma bigram_unclamped_refuted_w :
  exists L ts, tok_ok L ts /\ ~ tok_ok L (bigram_filter false false ts).
Proof.
  exists 8, [Tk 1 4 [239;191;189; 239;191;189; 239;191;189] 1 tt_ideographic false]. split.
  - apply tok_okb_spec. vm_compute. reflexivity.
  - intros H. apply tok_okb_spec in H. vm_compute in H. discriminate.
Qed.

(* ====================== CJK width ====================== *)

Lemma width_preserves_all L kn cv ch : preserves L (width_filter kn cv ch).
Proof. intros ts ts' Hts E. unfold width_filter in E. eapply rmapM_set_term_ok; eauto. Qed.

Section WidthProofs.
  Variables kn cv ch : list Z.
  Hypothesis Hkn : len kn = 59.
  Hypothesis Hcv : len cv = 88.
  Hypothesis Hch : len ch = 88.

  Lemma nth_res_ok tbl i : 0 <= i -> i < len tbl -> exists v, nth_res tbl i = Ok v.
  Proof. intros H0 H1. unfold nth_res. destruct ((i <? 0) || (len tbl <=? i)) eqn:E; [lia|eauto]. Qed.

  Lemma width_combine_total prev c : exists r, width_combine cv ch prev c = Ok r.
  Proof.
    unfold width_combine. destruct ((12454 <=? prev) && (prev <=? 12541)) eqn:E; [|eauto].
    destruct (nth_res_ok (if c =? 65439 then ch else cv) (prev - 12454)) as [v Ev]; try lia.
    { destruct (c =? 65439); lia. }
    rewrite Ev. cbn [rbind]. eauto.
  Qed.

  Lemma width_loop_total : forall rs done, exists out, width_loop kn cv ch rs done = Ok out.
  Proof.
    induction rs as [|c rest IH]; intros done; cbn [width_loop]; [eauto|].
    destruct ((65281 <=? c) && (c <=? 65374)); [apply IH|].
    destruct ((65381 <=? c) && (c <=? 65439)) eqn:Eh; [|apply IH].
    assert (Hk : exists k, nth_res kn (c - 65381) = Ok k) by (apply nth_res_ok; lia).
    destruct Hk as [k Ek].
    destruct done as [|prev done'].
    - rewrite Ek. cbn [rbind]. apply IH.
    - destruct ((c =? 65438) || (c =? 65439)).
      + destruct (width_combine_total prev c) as [r Er]. rewrite Er. cbn [rbind].
        destruct (snd r); [apply IH|]. rewrite Ek. cbn [rbind]. apply IH.
      + rewrite Ek. cbn [rbind]. apply IH.
  Qed.

  Lemma width_total_tables : total_filter (width_filter kn cv ch).
  Proof.
    intros ts. unfold width_filter. apply rmapM_total. intros t _. unfold width_term.
    destruct (width_loop_total (runes (t_term t)) []) as [out E]. rewrite E. cbn [rmap rbind]. eauto.
  Qed.
End WidthProofs.

(* with the tables of cjk_width.go (T-gen): every index stays inside them *)
Lemma width_total_all : total_filter (width_filter cjk_kana_norm cjk_combine_voiced cjk_combine_half_voiced).
Proof. apply width_total_tables; reflexivity. Qed.

(* ====================== English possessive ====================== *)

Lemma possessive_preserves_all L ts : tok_ok L ts -> tok_ok L (possessive_filter ts).
Proof. apply (map_set_term_ok L possessive_term). Qed.

(* ---------- instances used as examples ---------- *)

Definition ex_ascii_lower (r : Z) : bool := (97 <=? r) && (r <=? 122).
Definition ex_ascii_upper (r : Z) : bool := (65 <=? r) && (r <=? 90).
Definition ex_ascii_digit (r : Z) : bool := (48 <=? r) && (r <=? 57).

(* "HTTPServer2Go" at [3,16) *)
Lemma ex_camel :
  camel_filter ex_ascii_lower ex_ascii_upper ex_ascii_digit true
               [Tk 3 16 [72;84;84;80;83;101;114;118;101;114;50;71;111] 1 0 false]
  = [Tk 3 7 [72;84;84;80] 1 0 false; Tk 7 13 [83;101;114;118;101;114] 1 0 false;
     Tk 13 14 [50] 1 0 false; Tk 14 16 [71;111] 1 0 false].
Proof. vm_compute. reflexivity. Qed.

(* "softball" with the dictionary {soft, ball}: the token and its two sub-words *)
Lemma ex_dict :
  dict_filter (fun w => zlist_eqb w [115;111;102;116] || zlist_eqb w [98;97;108;108]) 5 2 15 false true
              [Tk 0 8 [115;111;102;116;98;97;108;108] 1 0 false]
  = Ok [Tk 0 8 [115;111;102;116;98;97;108;108] 1 0 false; Tk 0 4 [115;111;102;116] 0 0 false;
        Tk 4 8 [98;97;108;108] 0 0 false].
Proof. vm_compute. reflexivity. Qed.

(* "漢字x": the repaired bigram on an ideographic token of three runes, one of them ASCII *)
Lemma ex_bigram :
  bigram_filter false true [Tk 0 7 [230;188;162; 229;173;151; 120] 1 tt_ideographic false]
  = [Tk 0 6 [230;188;162; 229;173;151] 1 tt_double false; Tk 3 7 [229;173;151; 120] 1 tt_double false].
Proof. vm_compute. reflexivity. Qed.

(* half-width "ｶﾞ" (KA + voiced mark) folds to "ガ" *)
Lemma ex_width :
  width_term cjk_kana_norm cjk_combine_voiced cjk_combine_half_voiced [239;189;182; 239;190;158] = Ok [227;130;172].
Proof. vm_compute. reflexivity. Qed.

Lemma ex_possessive : possessive_term [74;111;104;110;226;128;153;115] = [74;111;104;110].
Proof. vm_compute. reflexivity. Qed.
