(* Analysis/PipelineProofs.v — proofs about Analysis/Pipeline.v: the contract checkers are
   sound and complete, and contracts compose along a pipeline of any length. *)
From Coq Require Import ZArith List Bool Lia.
From Coq Require Import ZifyBool.
From Bluge Require Import Base.Res Base.Corr Gen.ParamsAnalysis Analysis.Pipeline.
Import ListNotations.
Open Scope Z_scope.

Lemma tok_ok1b_spec L t : tok_ok1b L t = true <-> tok_ok1 L t.
Proof. unfold tok_ok1b, tok_ok1. lia. Qed.

Lemma tok_okb_spec L ts : tok_okb L ts = true <-> tok_ok L ts.
Proof.
  unfold tok_okb, tok_ok. rewrite forallb_forall, Forall_forall.
  split; intros H t Ht; apply tok_ok1b_spec; auto.
Qed.

Lemma zlist_eqb_eq a : forall b, zlist_eqb a b = true <-> a = b.
Proof.
  induction a as [|x a IH]; intros [|y b]; simpl; split; intros H; try congruence; auto.
  - apply andb_true_iff in H as [Hx Hab]. apply Z.eqb_eq in Hx. apply IH in Hab. congruence.
  - inversion H; subst. rewrite Z.eqb_refl. simpl. apply IH. reflexivity.
Qed.

Lemma pure_tokb_spec input ts : pure_tokb input ts = true <-> pure_tok input ts.
Proof.
  unfold pure_tokb, pure_tok. rewrite andb_true_iff, tok_okb_spec, forallb_forall, Forall_forall.
  unfold pure1b, pure1. split; intros [H1 H2]; split; auto; intros t Ht; apply zlist_eqb_eq; auto.
Qed.

Lemma tok_ok_app L a b : tok_ok L a -> tok_ok L b -> tok_ok L (a ++ b).
Proof. unfold tok_ok. intros. apply Forall_app. auto. Qed.

Lemma tok_ok_weaken L L' ts : L <= L' -> tok_ok L ts -> tok_ok L' ts.
Proof.
  unfold tok_ok. intros HL H. eapply Forall_impl; [|exact H].
  unfold tok_ok1. intros t. lia.
Qed.

(* ---------- composition ---------- *)

Lemma run_filters_preserves L fs :
  Forall (preserves L) fs ->
  forall ts out, tok_ok L ts -> run_filters fs ts = Ok out -> tok_ok L out.
Proof.
  induction fs as [|f fs IH]; intros HF ts out Hts Hrun; simpl in Hrun.
  - inversion Hrun; subst; assumption.
  - inversion HF as [|? ? Hf HF']; subst.
    destruct (f ts) as [ts1| | |] eqn:Ef; simpl in Hrun; try discriminate.
    apply (IH HF' ts1 out); [apply (Hf ts ts1 Hts Ef) | exact Hrun].
Qed.

Lemma run_filters_total fs :
  Forall total_filter fs -> forall ts, exists out, run_filters fs ts = Ok out.
Proof.
  induction fs as [|f fs IH]; intros HF ts; simpl.
  - eauto.
  - inversion HF as [|? ? Hf HF']; subst.
    destruct (Hf ts) as [ts1 E]. rewrite E. simpl. apply IH; assumption.
Qed.

(* the tokenizer meets the contract for the text it saw, every filter preserves it:
   the analyzer output meets it (any number of char filters and token filters) *)
Lemma pipeline_preserves_all (a : analyzer) (input : list Z) (out : tstream) :
  (forall ts, a_tok a (char_filtered a input) = Ok ts -> tok_ok (len (char_filtered a input)) ts) ->
  Forall (preserves (len (char_filtered a input))) (a_filters a) ->
  analyze a input = Ok out ->
  tok_ok (len (char_filtered a input)) out.
Proof.
  intros Htok Hf Han. unfold analyze in Han.
  destruct (a_tok a (char_filtered a input)) as [ts| | |] eqn:Et; simpl in Han; try discriminate.
  apply (run_filters_preserves _ _ Hf ts out); [apply Htok; reflexivity | exact Han].
Qed.

(* totality composes as well *)
Lemma pipeline_total_all (a : analyzer) (input : list Z) :
  (exists ts, a_tok a (char_filtered a input) = Ok ts) ->
  Forall total_filter (a_filters a) ->
  exists out, analyze a input = Ok out.
Proof.
  intros [ts Et] Hf. unfold analyze. rewrite Et. simpl. apply run_filters_total; assumption.
Qed.

(* determinism: analysis is a function of the bytes (stated for the record: equal inputs,
   equal outputs) *)
Lemma analyze_deterministic (a : analyzer) (i1 i2 : list Z) : i1 = i2 -> analyze a i1 = analyze a i2.
Proof. intros ->. reflexivity. Qed.

Lemma lift_total f : total_filter (lift f).
Proof. intros ts. unfold lift. eauto. Qed.

Lemma lift_preserves L f : (forall ts, tok_ok L ts -> tok_ok L (f ts)) -> preserves L (lift f).
Proof. intros H ts ts' Hts E. unfold lift in E. inversion E; subst. auto. Qed.
