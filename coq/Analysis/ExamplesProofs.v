(* Analysis/ExamplesProofs.v — non-trivial instances showing that the hypotheses of the C18
   implications are satisfiable together (and what the models compute on them). *)
From Coq Require Import ZArith List Bool Lia Sorted.
From Bluge Require Import Base.Res Base.Corr Base.UTF8 Gen.ParamsAnalysis
  Analysis.Pipeline Analysis.PipelineProofs Analysis.Tokenizers Analysis.TokenizersProofs
  Analysis.Filters Analysis.FiltersProofs Analysis.Freq Analysis.FreqProofs.
Import ListNotations.
Open Scope Z_scope.

(* ASCII letters / ASCII lower-casing as the rune tables *)
Definition ex_letter (r : Z) : bool := ((65 <=? r) && (r <=? 90)) || ((97 <=? r) && (r <=? 122)).
Definition ex_lower (r : Z) : Z := if (65 <=? r) && (r <=? 90) then r + 32 else r.
Definition ex_the : list Z := [116; 104; 101].
(* letter tokenizer; lowercase; stop {"the"}; length >= 2; 2..3-grams *)
Definition ex_analyzer : analyzer :=
  Analyzer [] (char_tokenize ex_letter)
           [lowercase_filter ex_lower; lift (stop_filter (zlist_eqb ex_the)); lift (length_filter 2 0); ngram_filter 2 3].
(* "The Quick a fox" followed by an invalid byte *)
Definition ex_input : list Z := [84;104;101;32;81;117;105;99;107;32;97;32;102;111;120;255].

Lemma ex_pipeline :
  (forall ts, a_tok ex_analyzer (char_filtered ex_analyzer ex_input) = Ok ts ->
              tok_ok (len (char_filtered ex_analyzer ex_input)) ts) /\
  Forall (preserves (len (char_filtered ex_analyzer ex_input))) (a_filters ex_analyzer) /\
  exists out, analyze ex_analyzer ex_input = Ok out /\ length out = 10%nat /\
              tok_ok (len (char_filtered ex_analyzer ex_input)) out.
Proof.
  assert (Hf : Forall (preserves (len (char_filtered ex_analyzer ex_input))) (a_filters ex_analyzer)).
  { repeat constructor.
    - apply lowercase_preserves_all.
    - apply lift_preserves. intros. apply stop_preserves_all. assumption.
    - apply lift_preserves. intros. apply length_preserves_all. assumption.
    - apply ngram_preserves_all. }
  assert (Ht : forall ts, a_tok ex_analyzer (char_filtered ex_analyzer ex_input) = Ok ts ->
                          tok_ok (len (char_filtered ex_analyzer ex_input)) ts).
  { intros ts E. apply (char_tokenize_tok_ok_all ex_letter). exact E. }
  split; [exact Ht|]. split; [exact Hf|].
  destruct (analyze ex_analyzer ex_input) as [out| | |] eqn:E.
  - exists out. split; [reflexivity|]. split.
    + vm_compute in E. inversion E. reflexivity.
    + eapply pipeline_preserves_all; eauto.
  - vm_compute in E. discriminate.
  - vm_compute in E. discriminate.
  - vm_compute in E. discriminate.
Qed.

(* three tokens, one term twice, a position gap *)
Definition ex_stream : tstream :=
  [Tk 0 2 [97;98] 1 0 false; Tk 7 9 [99;100] 3 0 false; Tk 10 12 [97;98] 1 0 false].

Lemma ex_freq :
  Forall (fun t => 0 <= t_incr t) ex_stream /\
  positions 100 ex_stream = [101; 104; 105] /\
  locs_for (fst (token_frequency ex_stream true 100)) [97;98] = [Loc 0 2 101; Loc 10 12 105] /\
  freq_for (fst (token_frequency ex_stream true 100)) [97;98] = 2 /\
  snd (token_frequency ex_stream true 100) = 105.
Proof. repeat split; try reflexivity. repeat constructor; cbn; lia. Qed.

Lemma ex_match :
  (fun d => match analyze ex_analyzer d with Ok ts => ts | _ => [] end) ex_input <> [] /\
  match_and (map t_term ((fun d => match analyze ex_analyzer d with Ok ts => ts | _ => [] end) ex_input))
            (fst (token_frequency ((fun d => match analyze ex_analyzer d with Ok ts => ts | _ => [] end) ex_input) false 0)) = true.
Proof. split; [vm_compute; discriminate | vm_compute; reflexivity]. Qed.

(* the stop filter carries the dropped increment over: "ab" at 101, "cd" (dropped) at 104, "ab" at 105 *)
Lemma ex_stop_positions :
  located 100 (stop_filter (zlist_eqb [99;100]) ex_stream) = [([97;98], Loc 0 2 101); ([97;98], Loc 10 12 105)].
Proof. reflexivity. Qed.
