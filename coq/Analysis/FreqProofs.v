(* Analysis/FreqProofs.v — analysis.TokenFrequency: positions are the running sum of the
   increments, every location is recorded exactly once under its term, frequency = number of
   occurrences; a conjunction of term queries built from a text's own analysis matches it;
   filters that drop tokens keep the absolute positions of the survivors. *)
From Coq Require Import ZArith List Bool Lia Arith Sorted.
From Coq Require Import ZifyBool.
From Bluge Require Import Base.Res Base.Corr Gen.ParamsAnalysis
  Analysis.Pipeline Analysis.PipelineProofs Analysis.Filters Analysis.Freq.
Import ListNotations.
Open Scope Z_scope.

Lemma zlist_eqb_refl a : zlist_eqb a a = true.
Proof. apply zlist_eqb_eq. reflexivity. Qed.

Lemma zlist_eqb_neq a b : a <> b -> zlist_eqb a b = false.
Proof.
  intros H. destruct (zlist_eqb a b) eqn:E; [|reflexivity]. apply zlist_eqb_eq in E. contradiction.
Qed.

(* ---------- tf_add ---------- *)

Lemma tf_lookup_add m t l term :
  tf_lookup (tf_add m t l) term =
  if zlist_eqb t term
  then Some (TF (match tf_lookup m term with Some e => tf_term e | None => t end)
                (locs_for m term ++ l) (freq_for m term + 1))
  else tf_lookup m term.
Proof.
  unfold locs_for, freq_for.
  induction m as [|e r IH]; cbn [tf_add tf_lookup].
  - cbn [tf_term tf_locs tf_freq app Z.add]. destruct (zlist_eqb t term); reflexivity.
  - destruct (zlist_eqb (tf_term e) t) eqn:Eet.
    + apply zlist_eqb_eq in Eet. subst t. cbn [tf_lookup tf_term].
      destruct (zlist_eqb (tf_term e) term); reflexivity.
    + cbn [tf_lookup]. destruct (zlist_eqb (tf_term e) term) eqn:Ee.
      * apply zlist_eqb_eq in Ee. subst term. rewrite zlist_eqb_neq; [reflexivity|].
        intros ->. rewrite zlist_eqb_refl in Eet. discriminate.
      * exact IH.
Qed.

Lemma locs_for_add m t l term :
  locs_for (tf_add m t l) term = if zlist_eqb t term then locs_for m term ++ l else locs_for m term.
Proof.
  unfold locs_for at 1. rewrite tf_lookup_add. destruct (zlist_eqb t term); reflexivity.
Qed.

Lemma freq_for_add m t l term :
  freq_for (tf_add m t l) term = if zlist_eqb t term then freq_for m term + 1 else freq_for m term.
Proof.
  unfold freq_for at 1. rewrite tf_lookup_add. destruct (zlist_eqb t term); reflexivity.
Qed.

Lemma indexed_terms_add m t l :
  indexed_terms (tf_add m t l) = if bmem t (indexed_terms m) then indexed_terms m else indexed_terms m ++ [t].
Proof.
  unfold indexed_terms, bmem. induction m as [|e r IH]; cbn [tf_add map existsb]; [reflexivity|].
  destruct (zlist_eqb (tf_term e) t) eqn:E.
  - apply zlist_eqb_eq in E. rewrite E, zlist_eqb_refl. cbn [orb map tf_term]. reflexivity.
  - rewrite zlist_eqb_neq; [|intros ->; rewrite zlist_eqb_refl in E; discriminate].
    cbn [orb map]. rewrite IH. destruct (existsb (zlist_eqb t) (map tf_term r)); reflexivity.
Qed.

Lemma bmem_spec x s : bmem x s = true <-> In x s.
Proof.
  unfold bmem. rewrite existsb_exists. split.
  - intros [y [Hy E]]. apply zlist_eqb_eq in E. subst. assumption.
  - intros H. exists x. split; [assumption | apply zlist_eqb_refl].
Qed.

Lemma nodup_snoc {A} (l : list A) (x : A) : NoDup l -> ~ In x l -> NoDup (l ++ [x]).
Proof.
  induction l as [|y l IH]; intros Hn Hx; cbn [app].
  - constructor; [intros []|constructor].
  - inversion Hn; subst. constructor.
    + rewrite in_app_iff. intros [H|[H|[]]]; [contradiction|]. subst. apply Hx. left. reflexivity.
    + apply IH; [assumption|]. intros H. apply Hx. right. assumption.
Qed.

Lemma nodup_add m t l : NoDup (indexed_terms m) -> NoDup (indexed_terms (tf_add m t l)).
Proof.
  intros H. rewrite indexed_terms_add. destruct (bmem t (indexed_terms m)) eqn:E; [assumption|].
  apply nodup_snoc; [assumption|]. intros Hin. apply bmem_spec in Hin. congruence.
Qed.

Lemma in_terms_add m t l x : In x (indexed_terms m) \/ x = t -> In x (indexed_terms (tf_add m t l)).
Proof.
  rewrite indexed_terms_add. destruct (bmem t (indexed_terms m)) eqn:E.
  - intros [H| ->]; [assumption | apply bmem_spec; assumption].
  - rewrite in_app_iff. intros [H| ->]; [left; assumption | right; left; reflexivity].
Qed.

(* ---------- the loop with locations ---------- *)

Lemma tf_loop_tv_spec : forall ts pos m,
  (forall term, locs_for (fst (tf_loop_tv ts pos m)) term = locs_for m term ++ locs_of term pos ts) /\
  (forall term, freq_for (fst (tf_loop_tv ts pos m)) term = freq_for m term + occurrences term ts) /\
  (NoDup (indexed_terms m) -> NoDup (indexed_terms (fst (tf_loop_tv ts pos m)))) /\
  (forall x, In x (indexed_terms m) \/ In x (map t_term ts) -> In x (indexed_terms (fst (tf_loop_tv ts pos m)))) /\
  snd (tf_loop_tv ts pos m) = pos + fold_right (fun t a => t_incr t + a) 0 ts.
Proof.
  induction ts as [|t r IH]; intros pos m; cbn [tf_loop_tv].
  - unfold locs_of, occurrences. cbn. repeat split; intros; try rewrite app_nil_r; auto; try lia.
    destruct H as [H|[]]. assumption.
  - destruct (IH (pos + t_incr t) (tf_add m (t_term t) [Loc (t_start t) (t_end t) (pos + t_incr t)]))
      as [H1 [H2 [H3 [H4 H5]]]].
    repeat split.
    + intros term. rewrite H1, locs_for_add. unfold locs_of. cbn [located filter fst map].
      destruct (zlist_eqb (t_term t) term); cbn [map snd]; [rewrite <- app_assoc|]; reflexivity.
    + intros term. rewrite H2, freq_for_add. unfold occurrences. cbn [filter].
      destruct (zlist_eqb (t_term t) term); cbn [length]; lia.
    + intros Hn. apply H3. apply nodup_add. assumption.
    + intros x Hx. apply H4. cbn [map] in Hx. destruct Hx as [Hx|[Hx|Hx]].
      * left. apply in_terms_add. left. assumption.
      * left. apply in_terms_add. right. congruence.
      * right. assumption.
    + rewrite H5. cbn [fold_right]. lia.
Qed.

Lemma tf_loop_plain_spec : forall ts m,
  (forall term, freq_for (tf_loop_plain ts m) term = freq_for m term + occurrences term ts) /\
  (forall term, locs_for (tf_loop_plain ts m) term = locs_for m term) /\
  (NoDup (indexed_terms m) -> NoDup (indexed_terms (tf_loop_plain ts m))) /\
  (forall x, In x (indexed_terms m) \/ In x (map t_term ts) -> In x (indexed_terms (tf_loop_plain ts m))).
Proof.
  induction ts as [|t r IH]; intros m; cbn [tf_loop_plain].
  - unfold occurrences. cbn. repeat split; intros; auto; try lia. destruct H as [H|[]]. assumption.
  - destruct (IH (tf_add m (t_term t) [])) as [H1 [H2 [H3 H4]]]. repeat split.
    + intros term. rewrite H1, freq_for_add. unfold occurrences. cbn [filter].
      destruct (zlist_eqb (t_term t) term); cbn [length]; lia.
    + intros term. rewrite H2, locs_for_add. destruct (zlist_eqb (t_term t) term); [apply app_nil_r|reflexivity].
    + intros Hn. apply H3. apply nodup_add. assumption.
    + intros x Hx. apply H4. cbn [map] in Hx. destruct Hx as [Hx|[Hx|Hx]].
      * left. apply in_terms_add. left. assumption.
      * left. apply in_terms_add. right. congruence.
      * right. assumption.
Qed.

(* positions: running sums, non-decreasing for non-negative increments *)
Lemma positions_located start ts : map (fun x => l_pos (snd x)) (located start ts) = positions start ts.
Proof.
  revert start. induction ts as [|t r IH]; intros start; cbn [located positions map snd l_pos]; [reflexivity|].
  f_equal. apply IH.
Qed.

Lemma positions_lower_bound : forall ts start,
  Forall (fun t => 0 <= t_incr t) ts -> Forall (fun p => start <= p) (positions start ts).
Proof.
  induction ts as [|t r IH]; intros start H; cbn [positions]; [constructor|].
  inversion H; subst. constructor; [lia|].
  eapply Forall_impl; [|apply IH; assumption]. cbn. intros p Hp. lia.
Qed.

Lemma positions_sorted : forall ts start,
  Forall (fun t => 0 <= t_incr t) ts -> StronglySorted Z.le (start :: positions start ts).
Proof.
  induction ts as [|t r IH]; intros start H; cbn [positions].
  - constructor; constructor.
  - inversion H; subst. constructor.
    + apply IH. assumption.
    + constructor; [lia|]. eapply Forall_impl; [|apply positions_lower_bound; eassumption].
      cbn. intros p Hp. lia.
Qed.

Lemma tok_ok_incrs L ts : tok_ok L ts -> Forall (fun t => 0 <= t_incr t) ts.
Proof. unfold tok_ok, tok_ok1. intros H. eapply Forall_impl; [|exact H]. cbn. intros t Ht. lia. Qed.

Lemma last_default {A} (l : list A) (a d d' : A) : last (a :: l) d = last (a :: l) d'.
Proof. revert a. induction l as [|b l IH]; intros a; [reflexivity|]. cbn [last] in *. apply IH. Qed.

Lemma last_cons' {A} (l : list A) (x d : A) : last (x :: l) d = last l x.
Proof. destruct l as [|y l]; [reflexivity|]. cbn [last]. apply (last_default l y d x). Qed.

Lemma last_positions : forall ts start,
  last (positions start ts) start = start + fold_right (fun t a => t_incr t + a) 0 ts.
Proof.
  induction ts as [|t r IH]; intros start; cbn [positions fold_right]; [cbn; lia|].
  rewrite last_cons'. rewrite IH. lia.
Qed.

(* freq_positions, all clauses *)
Lemma freq_positions_all (ts : tstream) (start : Z) :
  let m := fst (token_frequency ts true start) in
  (* every location is recorded under its term, exactly once, in stream order, with the
     running-sum position *)
  (forall term, locs_for m term = locs_of term start ts) /\
  NoDup (indexed_terms m) /\
  map (fun x => l_pos (snd x)) (located start ts) = positions start ts /\
  (* frequency = number of occurrences = number of locations *)
  (forall term, freq_for m term = occurrences term ts /\ Z.of_nat (length (locs_for m term)) = occurrences term ts) /\
  (* the returned position is the last running sum *)
  snd (token_frequency ts true start) = last (positions start ts) start /\
  (* non-decreasing positions for non-negative increments *)
  (Forall (fun t => 0 <= t_incr t) ts -> StronglySorted Z.le (start :: positions start ts)).
Proof.
  cbn zeta. unfold token_frequency.
  destruct (tf_loop_tv_spec ts start []) as [H1 [H2 [H3 [H4 H5]]]].
  repeat split.
  - intros term. rewrite H1. reflexivity.
  - apply H3. constructor.
  - apply positions_located.
  - rewrite H2. unfold freq_for. cbn. lia.
  - rewrite H1. cbn [locs_for tf_lookup app]. unfold locs_of, occurrences. rewrite map_length.
    f_equal. clear. revert start. induction ts as [|t r IH]; intros start; cbn [located filter fst]; [reflexivity|].
    destruct (zlist_eqb (t_term t) term); cbn [length]; rewrite IH; reflexivity.
  - rewrite H5. symmetry. apply last_positions.
  - apply positions_sorted.
Qed.

(* without locations only frequencies are kept, and the returned position is 0 *)
Lemma freq_plain_all (ts : tstream) (start : Z) :
  let m := fst (token_frequency ts false start) in
  (forall term, freq_for m term = occurrences term ts /\ locs_for m term = []) /\
  NoDup (indexed_terms m) /\ snd (token_frequency ts false start) = 0.
Proof.
  cbn zeta. unfold token_frequency. cbn [fst snd].
  destruct (tf_loop_plain_spec ts []) as [H1 [H2 [H3 H4]]]. repeat split.
  - rewrite H1. unfold freq_for. cbn. lia.
  - rewrite H2. reflexivity.
  - apply H3. constructor.
Qed.

(* ---------- match_finds_own_text ---------- *)

Lemma terms_indexed ts tv start x :
  In x (map t_term ts) -> In x (indexed_terms (fst (token_frequency ts tv start))).
Proof.
  intros H. unfold token_frequency. destruct tv; cbn [fst].
  - destruct (tf_loop_tv_spec ts start []) as [_ [_ [_ [H4 _]]]]. apply H4. right. assumption.
  - destruct (tf_loop_plain_spec ts []) as [_ [_ [_ H4]]]. apply H4. right. assumption.
Qed.

Lemma match_finds_own_text_all (A : list Z -> tstream) (d : list Z) (tv : bool) (start : Z) :
  A d <> [] ->
  map t_term (A d) <> [] /\
  match_and (map t_term (A d)) (fst (token_frequency (A d) tv start)) = true.
Proof.
  intros Hne. split.
  - destruct (A d); [congruence|discriminate].
  - unfold match_and. apply forallb_forall. intros q Hq. apply bmem_spec. apply terms_indexed. assumption.
Qed.

(* ---------- dropping filters keep the absolute positions of the survivors ---------- *)

Definition keep_not (drop : list Z -> bool) (x : list Z * tloc) : bool := negb (drop (fst x)).

Lemma stop_loop_located is_stop : forall ts start skipped,
  located start (stop_loop is_stop ts skipped) = filter (keep_not is_stop) (located (start + skipped) ts).
Proof.
  induction ts as [|t r IH]; intros start skipped; cbn [stop_loop located filter]; [reflexivity|].
  unfold keep_not at 1. cbn [fst]. destruct (is_stop (t_term t)) eqn:E; cbn [negb].
  - rewrite IH. f_equal. f_equal. lia.
  - cbn [located set_incr t_term t_start t_end t_incr]. f_equal.
    + f_equal. f_equal. lia.
    + rewrite IH. f_equal. f_equal. lia.
Qed.

Lemma stop_keeps_positions_all is_stop ts start :
  located start (stop_filter is_stop ts) = filter (keep_not is_stop) (located start ts).
Proof. unfold stop_filter. rewrite stop_loop_located. f_equal. f_equal. lia. Qed.

Definition length_drop (mn mx : Z) (term : list Z) : bool :=
  ((0 <? mn) && (zcount term <? mn)) || ((0 <? mx) && (mx <? zcount term)).

Lemma length_loop_located mn mx : forall ts start skipped,
  0 <= skipped -> Forall (fun t => 0 <= t_incr t) ts ->
  located start (length_loop mn mx ts skipped) = filter (keep_not (length_drop mn mx)) (located (start + skipped) ts).
Proof.
  induction ts as [|t r IH]; intros start skipped Hs Hts; cbn [length_loop located filter]; [reflexivity|].
  inversion Hts; subst.
  unfold keep_not at 1, length_drop at 1. cbn [fst].
  destruct ((0 <? mn) && (zcount (t_term t) <? mn)) eqn:E1; cbn [orb negb].
  - rewrite IH by (auto; lia). f_equal. f_equal. lia.
  - destruct ((0 <? mx) && (mx <? zcount (t_term t))) eqn:E2; cbn [negb].
    + rewrite IH by (auto; lia). f_equal. f_equal. lia.
    + destruct (0 <? skipped) eqn:E3.
      * cbn [located set_incr t_term t_start t_end t_incr]. f_equal; [f_equal; f_equal; lia|].
        rewrite IH by (auto; lia). f_equal. f_equal. lia.
      * assert (skipped = 0) by lia. subst skipped.
        cbn [located]. f_equal; [f_equal; f_equal; lia|].
        rewrite IH by (auto; lia). f_equal. f_equal. lia.
Qed.

Lemma length_keeps_positions_all mn mx ts start :
  Forall (fun t => 0 <= t_incr t) ts ->
  located start (length_filter mn mx ts) = filter (keep_not (length_drop mn mx)) (located start ts).
Proof. intros H. unfold length_filter. rewrite length_loop_located; auto; try lia. f_equal. f_equal. lia. Qed.
