(* Analysis/ShingleProofs.v — shingle.go keeps the offset contract on streams whose offsets are
   in text order (`ordered`), and breaks it on others (witness). *)
From Coq Require Import ZArith List Bool Lia Arith.
From Coq Require Import ZifyBool.
From Bluge Require Import Base.Res Base.Corr Base.UTF8 Gen.ParamsAnalysis
  Analysis.Pipeline Analysis.PipelineProofs Analysis.Filters Analysis.FiltersProofs.
Import ListNotations.
Open Scope Z_scope.

Definition filler (t : token) : Prop := t_start t = -1 /\ t_end t = -1.
Definition wtok (L : Z) (t : token) : Prop := filler t \/ tok_ok1 L t.

(* a window: fillers and contract-abiding tokens, the real ones in text order *)
Fixpoint gseq (L : Z) (l : list token) : Prop :=
  match l with
  | [] => True
  | a :: r => wtok L a /\ (tok_ok1 L a -> Forall (fun b => filler b \/ t_start a <= t_end b) r) /\ gseq L r
  end.

Lemma gseq_wtok L l : gseq L l -> Forall (wtok L) l.
Proof. induction l as [|a r IH]; intros H; [constructor|]. destruct H as [H1 [_ H3]]. constructor; auto. Qed.

Lemma gseq_skipn L : forall n l, gseq L l -> gseq L (skipn n l).
Proof.
  induction n as [|n IH]; intros l H; [exact H|]. destruct l as [|a r]; [exact H|].
  cbn [skipn]. apply IH. destruct H as [_ [_ H]]. exact H.
Qed.

Lemma gseq_lastn L n l : gseq L l -> gseq L (lastn n l).
Proof. unfold lastn. apply gseq_skipn. Qed.

Lemma in_skipn {A} (x : A) : forall n l, In x (skipn n l) -> In x l.
Proof.
  induction n as [|n IH]; intros l H; [exact H|]. destruct l as [|a r]; [exact H|].
  right. apply IH. exact H.
Qed.

Lemma gseq_snoc L l t :
  gseq L l -> wtok L t ->
  (forall a, In a l -> tok_ok1 L a -> filler t \/ t_start a <= t_end t) ->
  gseq L (l ++ [t]).
Proof.
  induction l as [|a r IH]; intros Hg Ht Hc; cbn [app gseq].
  - repeat split; auto.
  - destruct Hg as [H1 [H2 H3]]. split; [exact H1|]. split.
    + intros Hok. apply Forall_app. split; [apply H2; exact Hok|].
      constructor; [|constructor]. apply Hc; [left; reflexivity | exact Hok].
    + apply IH; auto. intros b Hb. apply Hc. right. exact Hb.
Qed.

(* ---------- one shingle ---------- *)

Definition end_step (e : Z) (t : token) : Z := if t_end t =? -1 then e else t_end t.

Lemma shingle_end_unfold ts : shingle_end ts = fold_left end_step ts 0.
Proof. reflexivity. Qed.

Lemma fold_end_bounds L a_start : forall ws e,
  a_start <= e -> e <= L -> Forall (wtok L) ws ->
  Forall (fun b => filler b \/ a_start <= t_end b) ws ->
  a_start <= fold_left end_step ws e <= L.
Proof.
  induction ws as [|b r IH]; intros e H1 H2 Hw Hf; cbn [fold_left]; [lia|].
  inversion Hw as [|? ? Hb Hw']; subst. inversion Hf as [|? ? Hfb Hf']; subst.
  apply IH; auto; unfold end_step.
  - destruct Hb as [[_ Hb]|Hb].
    + rewrite Hb. cbn. exact H1.
    + unfold tok_ok1 in Hb. destruct (t_end b =? -1) eqn:E; [exact H1|].
      destruct Hfb as [[_ Hfb]|Hfb]; lia.
  - destruct Hb as [[_ Hb]|Hb].
    + rewrite Hb. cbn. exact H2.
    + unfold tok_ok1 in Hb. destruct (t_end b =? -1); lia.
Qed.

Lemma shingle_of_ok L sep : 0 <= L -> forall ws, gseq L ws -> tok_ok1 L (shingle_of sep ws).
Proof.
  intros HL. induction ws as [|a r IH]; intros Hg.
  - unfold shingle_of, tok_ok1. cbn. lia.
  - destruct Hg as [Ha [Hord Hg]]. destruct Ha as [[Hs He]|Hok].
    + (* a filler: start and end are those of the rest *)
      specialize (IH Hg). unfold shingle_of, tok_ok1 in *. cbn [t_start t_end t_incr] in *.
      cbn [shingle_start]. rewrite Hs, Z.eqb_refl.
      rewrite shingle_end_unfold in *. cbn [fold_left].
      replace (end_step 0 a) with 0 by (unfold end_step; rewrite He, Z.eqb_refl; reflexivity).
      exact IH.
    + pose proof Hok as Hok'. unfold tok_ok1 in Hok'.
      pose proof (fold_end_bounds L (t_start a) r (t_end a)) as Hb.
      assert (Hb' : t_start a <= fold_left end_step r (t_end a) <= L).
      { apply Hb; try lia; [apply gseq_wtok; exact Hg | apply Hord; exact Hok]. }
      unfold shingle_of, tok_ok1. cbn [t_start t_end t_incr shingle_start].
      rewrite shingle_end_unfold. cbn [fold_left].
      destruct (t_start a =? -1) eqn:E1; [lia|].
      replace (end_step 0 a) with (t_end a) by (unfold end_step; destruct (t_end a =? -1) eqn:E2; [lia|reflexivity]).
      destruct (fold_left end_step r (t_end a) =? -1) eqn:E3; cbv iota; rewrite ?E1; lia.
Qed.

Lemma forall_flat_map {A B} (P : B -> Prop) (f : A -> list B) l :
  (forall a, In a l -> Forall P (f a)) -> Forall P (flat_map f l).
Proof.
  induction l as [|a r IH]; intros H; cbn [flat_map]; [constructor|].
  apply Forall_app. split; [apply H; left; reflexivity | apply IH; intros; apply H; right; assumption].
Qed.

Lemma ring_state_ok L mn mx sep oo window items :
  0 <= L -> gseq L window -> tok_ok L (ring_state mn mx sep oo window items).
Proof.
  intros HL Hg. unfold ring_state.
  assert (H : tok_ok L (flat_map (fun n => if items <? n then []
             else [shingle_of sep (if n <=? 0 then [] else lastn (Z.to_nat n) window)]) (zrange mn mx))).
  { apply forall_flat_map. intros n _. destruct (items <? n); [constructor|].
    constructor; [|constructor]. apply shingle_of_ok; [exact HL|].
    destruct (n <=? 0); [exact I | apply gseq_lastn; exact Hg]. }
  destruct oo; [exact H | apply mark_first_ok; exact H].
Qed.

(* ---------- the loops ---------- *)

Lemma filler_token_filler fill : filler (filler_token fill).
Proof. unfold filler, filler_token, shingle_filler_start, shingle_filler_end. cbn. split; reflexivity. Qed.

Lemma filler_not_ok L t : filler t -> ~ tok_ok1 L t.
Proof. unfold filler, tok_ok1. lia. Qed.

Lemma push_ring_gseq L mx w t :
  gseq L w -> wtok L t ->
  (forall a, In a w -> tok_ok1 L a -> filler t \/ t_start a <= t_end t) ->
  gseq L (push_ring mx w t).
Proof. intros. unfold push_ring. apply gseq_lastn. apply gseq_snoc; assumption. Qed.

Lemma push_ring_in mx w t a : In a (push_ring mx w t) -> In a w \/ a = t.
Proof.
  unfold push_ring, lastn. intros H. apply in_skipn in H. apply in_app_or in H.
  destruct H as [H|[H|[]]]; [left; exact H | right; symmetry; exact H].
Qed.

Lemma shingle_fillers_ok L mn mx sep fill oo : 0 <= L ->
  forall k w items out w' it',
    gseq L w ->
    shingle_fillers k mn mx sep fill oo w items = (out, (w', it')) ->
    tok_ok L out /\ gseq L w' /\ (forall a, In a w' -> tok_ok1 L a -> In a w).
Proof.
  intros HL. induction k as [|k IH]; intros w items out w' it' Hg E; cbn [shingle_fillers] in E.
  - inversion E; subst. repeat split; auto. constructor.
  - set (w1 := push_ring mx w (filler_token fill)) in *.
    assert (Hg1 : gseq L w1).
    { apply push_ring_gseq; auto; [left; apply filler_token_filler | intros; left; apply filler_token_filler]. }
    destruct (shingle_fillers k mn mx sep fill oo w1 (bump mx items)) as [out1 [w2 it2]] eqn:E1.
    inversion E; subst.
    destruct (IH _ _ _ _ _ Hg1 E1) as [H1 [H2 H3]].
    repeat split.
    + apply tok_ok_app; [apply ring_state_ok; assumption | exact H1].
    + exact H2.
    + intros a Ha Hok. specialize (H3 a Ha Hok). apply push_ring_in in H3.
      destruct H3 as [H3|H3]; [exact H3|]. subst a. exfalso.
      apply (filler_not_ok L _ (filler_token_filler fill)). exact Hok.
Qed.

Definition after (L : Z) (w : list token) (rest : tstream) : Prop :=
  forall a, In a w -> tok_ok1 L a -> Forall (fun b => t_start a <= t_end b) rest.

Lemma shingle_loop_ok L mn mx sep fill oo : 0 <= L ->
  forall ts w items,
    tok_ok L ts -> ordered ts -> gseq L w -> after L w ts ->
    tok_ok L (shingle_loop mn mx sep fill oo ts w items).
Proof.
  intros HL. induction ts as [|t r IH]; intros w items Hts Hord Hg Haft; cbn [shingle_loop]; [constructor|].
  inversion Hts as [|? ? Ht Hr]; subst.
  unfold ordered in Hord. cbn [orderedb] in Hord. apply andb_true_iff in Hord as [Hhead Hord].
  destruct (shingle_fillers (Z.to_nat (t_incr t - 1)) mn mx sep fill oo w items) as [fout [w1 it1]] eqn:Ef.
  destruct (shingle_fillers_ok L mn mx sep fill oo HL _ _ _ _ _ _ Hg Ef) as [Hfout [Hg1 Hsub]].
  assert (Hg2 : gseq L (push_ring mx w1 t)).
  { apply push_ring_gseq; auto; [right; exact Ht|].
    intros a Ha Hok. right. specialize (Haft a (Hsub a Ha Hok) Hok). inversion Haft; subst. assumption. }
  apply tok_ok_app; [destruct oo; [constructor; [exact Ht|constructor] | constructor]|].
  apply tok_ok_app; [exact Hfout|].
  apply tok_ok_app; [apply ring_state_ok; assumption|].
  apply IH; auto.
  intros a Ha Hok. apply push_ring_in in Ha. destruct Ha as [Ha| ->].
  - specialize (Haft a (Hsub a Ha Hok) Hok). inversion Haft; subst. assumption.
  - apply Forall_forall. intros b Hb. rewrite forallb_forall in Hhead. specialize (Hhead b Hb). lia.
Qed.

(* shingle.go keeps the contract on streams in text order, for every min/max/separator/filler *)
Lemma shingle_preserves_ordered_all L mn mx oo sep fill ts out :
  tok_ok L ts -> ordered ts -> shingle_filter mn mx oo sep fill ts = Ok out -> tok_ok L out.
Proof.
  intros Hts Hord E. unfold shingle_filter in E. destruct ts as [|t r]; [inversion E; constructor|].
  destruct (mx <=? 0); [discriminate|].
  assert (Eo : out = shingle_loop mn mx sep fill oo (t :: r) [] 0) by congruence. clear E. subst out.
  assert (HL : 0 <= L). { inversion Hts as [|? ? Ht _]; subst. unfold tok_ok1 in Ht. lia. }
  apply (shingle_loop_ok L mn mx sep fill oo HL (t :: r) [] 0); auto; [exact I | intros a []].
Qed.

Lemma shingle_total_all mn mx oo sep fill : 0 < mx -> total_filter (shingle_filter mn mx oo sep fill).
Proof.
  intros Hmx ts. unfold shingle_filter. destruct ts; [eauto|].
  destruct (mx <=? 0) eqn:E; [lia|eauto].
Qed.

(* tok_ok alone is not enough: offsets that run backwards give a shingle with start > end *)
Lemma shingle_unordered_refuted :
  exists L mn mx oo sep fill ts out,
    tok_ok L ts /\ shingle_filter mn mx oo sep fill ts = Ok out /\ ~ tok_ok L out.
Proof.
  exists 8, 2, 2, false, [32], [95], [Tk 5 8 [97] 1 0 false; Tk 0 2 [98] 1 0 false],
         [Tk 5 2 [97; 32; 98] 1 tt_shingle false].
  split; [apply tok_okb_spec; vm_compute; reflexivity|].
  split; [vm_compute; reflexivity|].
  intros H. apply tok_okb_spec in H. vm_compute in H. discriminate.
Qed.

(* a non-positive max makes ring.New return nil: the first token panics *)
Lemma shingle_max_zero_panics : exists mn mx oo sep fill ts, shingle_filter mn mx oo sep fill ts = Panic 5.
Proof. exists 0, 0, false, [], [], [Tk 0 1 [97] 1 0 false]. vm_compute. reflexivity. Qed.
