(* Analysis/MergeProofs.v — TokenFrequencies.MergeAll: the merged frequency is the sum, the merged
   locations are the destination's followed by the source's, and the source map keeps its terms,
   frequencies and location offsets/positions: only FieldVal of its locations is rewritten. *)
From Coq Require Import ZArith List Bool Lia Arith.
From Coq Require Import ZifyBool.
From Bluge Require Import Base.Res Base.Corr Gen.ParamsAnalysis
  Analysis.Pipeline Analysis.PipelineProofs Analysis.Freq Analysis.FreqProofs Analysis.Merge.
Import ListNotations.
Open Scope Z_scope.

Lemma ft_lookup_merge_into dst e term :
  ft_lookup (merge_into dst e) term =
  if zlist_eqb (ft_term e) term
  then Some (FTF (match ft_lookup dst term with Some d => ft_term d | None => ft_term e end)
                 (flocs_for dst term ++ ft_locs e) (ffreq_for dst term + ft_freq e))
  else ft_lookup dst term.
Proof.
  unfold flocs_for, ffreq_for.
  induction dst as [|d r IH]; cbn [merge_into ft_lookup].
  - cbn [ft_term ft_locs ft_freq app Z.add]. destruct (zlist_eqb (ft_term e) term); reflexivity.
  - destruct (zlist_eqb (ft_term d) (ft_term e)) eqn:Ede.
    + apply zlist_eqb_eq in Ede. cbn [ft_lookup ft_term]. rewrite <- Ede.
      destruct (zlist_eqb (ft_term d) term); reflexivity.
    + cbn [ft_lookup]. destruct (zlist_eqb (ft_term d) term) eqn:Ed.
      * apply zlist_eqb_eq in Ed. subst term. rewrite zlist_eqb_neq; [reflexivity|].
        intros E. rewrite E, zlist_eqb_refl in Ede. discriminate.
      * exact IH.
Qed.

Lemma ffreq_merge_into dst e term :
  ffreq_for (merge_into dst e) term =
  if zlist_eqb (ft_term e) term then ffreq_for dst term + ft_freq e else ffreq_for dst term.
Proof. unfold ffreq_for at 1. rewrite ft_lookup_merge_into. destruct (zlist_eqb (ft_term e) term); reflexivity. Qed.

Lemma flocs_merge_into dst e term :
  flocs_for (merge_into dst e) term =
  if zlist_eqb (ft_term e) term then flocs_for dst term ++ ft_locs e else flocs_for dst term.
Proof. unfold flocs_for at 1. rewrite ft_lookup_merge_into. destruct (zlist_eqb (ft_term e) term); reflexivity. Qed.

Lemma ft_lookup_absent r term : ~ In term (fterms r) -> ft_lookup r term = None.
Proof.
  induction r as [|e r IH]; intros H; cbn [ft_lookup]; [reflexivity|].
  destruct (zlist_eqb (ft_term e) term) eqn:E.
  - apply zlist_eqb_eq in E. exfalso. apply H. left. exact E.
  - apply IH. intros Hin. apply H. right. exact Hin.
Qed.

Lemma fold_merge_spec term : forall src dst, NoDup (fterms src) ->
  ffreq_for (fold_left merge_into src dst) term = ffreq_for dst term + ffreq_for src term /\
  flocs_for (fold_left merge_into src dst) term = flocs_for dst term ++ flocs_for src term.
Proof.
  induction src as [|e r IH]; intros dst Hnd; cbn [fold_left].
  - change (ffreq_for [] term) with 0. change (flocs_for [] term) with (@nil floc).
    rewrite app_nil_r. split; [lia|reflexivity].
  - cbn [fterms map] in Hnd. inversion Hnd as [|? ? Hnotin Hnd']; subst.
    destruct (IH (merge_into dst e) Hnd') as [H1 H2]. rewrite H1, H2.
    rewrite ffreq_merge_into, flocs_merge_into.
    assert (Hf : ffreq_for (e :: r) term = if zlist_eqb (ft_term e) term then ft_freq e else ffreq_for r term).
    { unfold ffreq_for. cbn [ft_lookup]. destruct (zlist_eqb (ft_term e) term); reflexivity. }
    assert (Hl : flocs_for (e :: r) term = if zlist_eqb (ft_term e) term then ft_locs e else flocs_for r term).
    { unfold flocs_for. cbn [ft_lookup]. destruct (zlist_eqb (ft_term e) term); reflexivity. }
    rewrite Hf, Hl.
    destruct (zlist_eqb (ft_term e) term) eqn:E.
    + apply zlist_eqb_eq in E. subst term.
      assert (Hr0 : ffreq_for r (ft_term e) = 0) by (unfold ffreq_for; rewrite (ft_lookup_absent r (ft_term e) Hnotin); reflexivity).
      assert (Hr1 : flocs_for r (ft_term e) = []) by (unfold flocs_for; rewrite (ft_lookup_absent r (ft_term e) Hnotin); reflexivity).
      rewrite Hr0, Hr1, app_nil_r. split; [lia|reflexivity].
    + split; [lia|reflexivity].
Qed.

Lemma fterms_set_field remote src : fterms (map (set_field remote) src) = fterms src.
Proof. unfold fterms. rewrite map_map. reflexivity. Qed.

Lemma ft_lookup_set_field remote term : forall src,
  ft_lookup (map (set_field remote) src) term = option_map (set_field remote) (ft_lookup src term).
Proof.
  induction src as [|e r IH]; cbn [map ft_lookup]; [reflexivity|].
  cbn [set_field ft_term]. destruct (zlist_eqb (ft_term e) term); [reflexivity|exact IH].
Qed.

(* MergeAll, all clauses *)
Lemma merge_all_spec (dst : fmap) (remote : list Z) (src : fmap) :
  NoDup (fterms src) ->
  let '(merged, src') := merge_all dst remote src in
  (* merged frequency = sum; merged locations = the destination's, then the source's (rewritten) *)
  (forall term, ffreq_for merged term = ffreq_for dst term + ffreq_for src term) /\
  (forall term, flocs_for merged term =
                flocs_for dst term ++ map (fun l => FLoc remote (fl_loc l)) (flocs_for src term)) /\
  (* the source keeps its terms, frequencies and the offsets/positions of its locations;
     only FieldVal of its locations is now the remote field's name *)
  map ft_term src' = map ft_term src /\
  map ft_freq src' = map ft_freq src /\
  map (fun e => map fl_loc (ft_locs e)) src' = map (fun e => map fl_loc (ft_locs e)) src /\
  Forall (fun e => Forall (fun l => fl_field l = remote) (ft_locs e)) src'.
Proof.
  intros Hnd. unfold merge_all.
  assert (Hnd' : NoDup (fterms (map (set_field remote) src))) by (rewrite fterms_set_field; exact Hnd).
  repeat split.
  - intros term. destruct (fold_merge_spec term _ dst Hnd') as [H _]. rewrite H. f_equal.
    unfold ffreq_for. rewrite ft_lookup_set_field. destruct (ft_lookup src term); reflexivity.
  - intros term. destruct (fold_merge_spec term _ dst Hnd') as [_ H]. rewrite H. f_equal.
    unfold flocs_for. rewrite ft_lookup_set_field. destruct (ft_lookup src term); reflexivity.
  - rewrite map_map. reflexivity.
  - rewrite map_map. reflexivity.
  - rewrite map_map. apply map_ext. intros e. cbn [set_field ft_locs]. rewrite map_map. reflexivity.
  - apply Forall_forall. intros e He. apply in_map_iff in He. destruct He as [e0 [<- _]].
    cbn [set_field ft_locs]. apply Forall_forall. intros l Hl. apply in_map_iff in Hl.
    destruct Hl as [l0 [<- _]]. reflexivity.
Qed.

(* the keys of what TokenFrequency returns are distinct, so the theorem applies to every source *)
Lemma lift_map_nodup ts tv start : NoDup (fterms (lift_map (fst (token_frequency ts tv start)))).
Proof.
  unfold fterms, lift_map. rewrite map_map. cbn [lift_tf ft_term].
  change (NoDup (indexed_terms (fst (token_frequency ts tv start)))).
  destruct tv.
  - destruct (freq_positions_all ts start) as [_ [H _]]. exact H.
  - destruct (freq_plain_all ts start) as [_ [H _]]. exact H.
Qed.

(* two fields sharing the term "ab", the first one indexed without locations *)
Definition ex_mstream : tstream :=
  [Tk 0 2 [97;98] 1 0 false; Tk 7 9 [99;100] 3 0 false; Tk 10 12 [97;98] 1 0 false].
Definition ex_src1 : fmap := lift_map (fst (token_frequency ex_mstream false 0)).
Definition ex_src2 : fmap := lift_map (fst (token_frequency ex_mstream true 0)).
Lemma ex_merge :
  let '(merged, srcs) := merge_seq [] [([102], ex_src1); ([103], ex_src2)] in
  ffreq_for merged [97;98] = 4 /\ ffreq_for (nth 0 srcs []) [97;98] = 2 /\ ffreq_for (nth 1 srcs []) [97;98] = 2 /\
  map fl_field (flocs_for merged [97;98]) = [[103]; [103]].
Proof. vm_compute. repeat split; reflexivity. Qed.
