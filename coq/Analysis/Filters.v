(* Analysis/Filters.v — exact models of the configurable token filters of analysis/token/:
   length.go, truncate.go, stop.go, unique.go, keyword.go, lowercase.go, ngram.go,
   edgengram.go, reverse.go, apostrophe.go, elision.go, shingle.go.
   Go mutates token.Term in place and Term aliases the analysed buffer; the tokens of one
   stream own disjoint regions of that buffer (every bundled tokenizer emits non-overlapping
   slices), so the in-place writes of one token never reach another one and a token is
   modelled as a value; lowercase.go, which overwrites the region it reads, is modelled with
   an explicit buffer.  TokenMap lookups, unicode.ToLower and the unicode mark classes are
   parameters (tabulated per case by the harness).  Run-time panics are `Panic` results.
   No proofs in this file. *)
From Coq Require Import ZArith List Bool.
From Bluge Require Import Base.Res Base.Corr Base.UTF8 Gen.ParamsAnalysis Analysis.Pipeline.
Import ListNotations.
Open Scope Z_scope.

(* lo, lo+1, ..., hi (empty when hi < lo): `for n := lo; n <= hi; n++` *)
Definition zrange (lo hi : Z) : list Z :=
  map (fun k => lo + Z.of_nat k) (seq 0 (Z.to_nat (hi - lo + 1))).

Definition zcount (p : list Z) : Z := Z.of_nat (rune_count p).   (* utf8.RuneCount *)

(* analysis.BuildTermFromRunes (util.go:64-66, 48-62): the buffer of len(runes)*UTFMax bytes
   is never too small, every rune is written with utf8.EncodeRune (invalid ones as EF BF BD) *)
Definition build_term (rs : list Z) : list Z := encode_runes rs.

(* ---------- length.go:35-57 ---------- *)
Fixpoint length_loop (mn mx : Z) (ts : tstream) (skipped : Z) : tstream :=
  match ts with
  | [] => []
  | t :: r =>
      let wl := zcount (t_term t) in                               (* :40 *)
      if (0 <? mn) && (wl <? mn) then length_loop mn mx r (skipped + t_incr t)       (* :41-44 *)
      else if (0 <? mx) && (mx <? wl) then length_loop mn mx r (skipped + t_incr t)  (* :45-48 *)
      else if 0 <? skipped then set_incr t (t_incr t + skipped) :: length_loop mn mx r 0  (* :49-53 *)
      else t :: length_loop mn mx r skipped
  end.
Definition length_filter (mn mx : Z) (ts : tstream) : tstream := length_loop mn mx ts 0.

(* ---------- truncate.go:33-41 with util.go:68-73 TruncateRunes ---------- *)
(* runes := bytes.Runes(input); runes = runes[:len(runes)-num] panics when the bound is
   negative (a negative filter length); num = wordLen - length *)
Definition truncate_term (n : Z) (term : list Z) : res (list Z) :=
  let wl := zcount term in
  if n <? wl then
    let rs := runes term in
    let hi := len rs - (wl - n) in
    if (hi <? 0) || (len rs <? hi) then Panic 1
    else Ok (build_term (slice rs 0 hi))
  else Ok term.
Definition truncate_filter (n : Z) (ts : tstream) : res tstream :=
  rmapM (fun t => rmap (set_term t) (truncate_term n (t_term t))) ts.

(* ---------- stop.go:38-53 ---------- *)
Fixpoint stop_loop (is_stop : list Z -> bool) (ts : tstream) (skipped : Z) : tstream :=
  match ts with
  | [] => []
  | t :: r =>
      if is_stop (t_term t) then stop_loop is_stop r (skipped + t_incr t)     (* :47-49 *)
      else set_incr t (t_incr t + skipped) :: stop_loop is_stop r 0           (* :42-46 *)
  end.
Definition stop_filter (is_stop : list Z -> bool) (ts : tstream) : tstream := stop_loop is_stop ts 0.

(* ---------- unique.go:31-47 ---------- *)
Fixpoint unique_loop (ts : tstream) (seen : list (list Z)) (skipped : Z) : tstream :=
  match ts with
  | [] => []
  | t :: r =>
      if bmem (t_term t) seen then unique_loop r seen (skipped + t_incr t)    (* :36-39 *)
      else set_incr t (t_incr t + skipped) :: unique_loop r (t_term t :: seen) 0  (* :40-44 *)
  end.
Definition unique_filter (ts : tstream) : tstream := unique_loop ts [] 0.

(* ---------- keyword.go:31-39 ---------- *)
Definition keyword_filter (is_kw : list Z -> bool) (ts : tstream) : tstream :=
  map (fun t => if is_kw (t_term t) then set_kw t true else t) ts.

(* ---------- lowercase.go:33-91 ---------- *)

(* EncodeRune(s[j:], l) for j + |bs| <= len s *)
Definition write_at (buf : list Z) (j : Z) (bs : list Z) : list Z :=
  firstn (Z.to_nat j) buf ++ bs ++ skipn (Z.to_nat j + length bs) buf.

(* bytes.Map(mapping, s) (go1.23 bytes.go): invalid bytes decode to RuneError and are
   written back as EF BF BD; a negative mapped rune is dropped *)
Definition bytes_map (mapping : Z -> Z) (p : list Z) : list Z :=
  flat_map (fun d => let r := mapping (fst d) in if 0 <=? r then encode_rune r else []) (decode_all p).
(* bytes.ToLower: ASCII-only input takes the byte-wise path, anything else bytes.Map(unicode.ToLower) *)
Definition bytes_to_lower (lower : Z -> Z) (p : list Z) : list Z :=
  if forallb (fun c => c <? rune_self) p
  then map (fun c => if (65 <=? c) && (c <=? 90) then c + 32 else c) p
  else bytes_map lower p.

Definition sigma_small : Z := 963.        (* 'σ' lowercase.go:68 *)
Definition sigma_final : Z := 962.        (* 'ς' lowercase.go:69 *)

(* toLowerDeferredCopy (lowercase.go:46-91); s is the buffer being overwritten.
   Note lowercase.go:59-63: a rune that is already lower case advances j without copying,
   so once a narrower replacement has been written (j < i) the following unchanged runes are
   NOT moved down and the result s[:j] keeps stale bytes. *)
Fixpoint lower_loop (fuel : nat) (lower : Z -> Z) (s : list Z) (i j : Z) : res (list Z) :=
  match fuel with
  | O => OutOfFuel
  | S f =>
      if len s <=? i then
        if (j <? 0) || (len s <? j) then Panic 2 else Ok (firstn (Z.to_nat j) s)     (* :90 s[:j] *)
      else
        let si := nth (Z.to_nat i) s 0 in
        let '(r, wid) :=
          if si <? rune_self then (si, 1)
          else let d := decode_rune (skipn (Z.to_nat i) s) in (fst d, Z.of_nat (snd d)) in   (* :49-53 *)
        let l := lower r in                                                        (* :55 *)
        if l =? r then lower_loop f lower s (i + wid) (j + wid)                    (* :59-63 *)
        else
          let l := if (l =? sigma_small) && (i + 2 =? len s) then sigma_final else l in   (* :68-70 *)
          let lwid := rune_len l in                                                (* :72 *)
          if wid <? lwid then
            (* :73-85 punt to bytes.ToLower for the remainder *)
            if (j <? 0) || (len s <? j) then Panic 2
            else Ok (firstn (Z.to_nat j) s ++ bytes_to_lower lower (skipn (Z.to_nat i) s))
          else
            let enc := encode_rune l in
            if (j <? 0) || (len s <? j + len enc) then Panic 2                     (* :86 EncodeRune(s[j:], l) *)
            else lower_loop f lower (write_at s j enc) (i + wid) (j + lwid)        (* :87-88 *)
  end.
Definition lower_term (lower : Z -> Z) (s : list Z) : res (list Z) := lower_loop (S (length s)) lower s 0 0.
Definition lowercase_filter (lower : Z -> Z) (ts : tstream) : res tstream :=
  rmapM (fun t => rmap (set_term t) (lower_term lower (t_term t))) ts.

(* ---------- ngram.go:36-67 ---------- *)

(* ngram.go:56-59 / edgengram.go: the first n-gram of an input token gets PositionIncr 1 *)
Definition mark_first (l : tstream) : tstream :=
  match l with
  | [] => []
  | t :: r => set_incr t 1 :: r
  end.

(* ngram.go:49-55: Token{PositionIncr: 0, Start, End, Type of the input token, Term: the n-gram};
   KeyWord is not carried over *)
Definition gram_token (lit_incr : Z) (t : token) (term : list Z) : token :=
  Tk (t_start t) (t_end t) term lit_incr (t_type t) false.

(* the (i, ngramSize) pairs that pass `i+ngramSize <= runeCount`, in loop order (ngram.go:43-47) *)
Definition ngram_cands (mn mx rc : Z) : list (Z * Z) :=
  flat_map (fun i => flat_map (fun n => if i + n <=? rc then [(i, n)] else []) (zrange mn mx))
           (zrange 0 (rc - 1)).

(* runes[lo:hi] panics unless 0 <= lo <= hi <= len(runes) *)
Definition bad_slice (rs : list Z) (lo hi : Z) : bool := (lo <? 0) || (hi <? lo) || (len rs <? hi).

Definition ngram_token (mn mx : Z) (t : token) : res tstream :=
  let rc := zcount (t_term t) in                   (* :41 *)
  let rs := runes (t_term t) in                    (* :42 *)
  let cands := ngram_cands mn mx rc in
  if existsb (fun c => bad_slice rs (fst c) (fst c + snd c)) cands then Panic 3
  else Ok (mark_first (map (fun c => gram_token ngram_lit_incr t (build_term (slice rs (fst c) (fst c + snd c)))) cands)).
Definition ngram_filter (mn mx : Z) (ts : tstream) : res tstream :=
  rmap (@concat token) (rmapM (ngram_token mn mx) ts).

(* ---------- edgengram.go:43-96 ---------- *)
Definition edge_token (back : bool) (mn mx : Z) (t : token) : res tstream :=
  let rc := zcount (t_term t) in
  let rs := runes (t_term t) in
  let bounds :=
    if back
    then flat_map (fun n => if 0 <=? rc - n then [(rc - n, rc)] else []) (zrange mn mx)   (* :51-56 *)
    else flat_map (fun n => if 0 + n <=? rc then [(0, 0 + n)] else []) (zrange mn mx) in  (* :72-77 *)
  if existsb (fun c => bad_slice rs (fst c) (snd c)) bounds then Panic 3
  else Ok (mark_first (map (fun c => gram_token edgengram_lit_incr t (build_term (slice rs (fst c) (snd c)))) bounds)).
Definition edge_filter (back : bool) (mn mx : Z) (ts : tstream) : res tstream :=
  rmap (@concat token) (rmapM (edge_token back mn mx) ts).

(* ---------- reverse.go:30-62 ---------- *)

(* reverse.go:47-55: following combining marks (Mn, Me, Mc) stay attached to their base *)
Fixpoint take_marks (is_mark : Z -> bool) (rs : list Z) (wid : Z) : Z * list Z :=
  match rs with
  | r :: rs' => if is_mark r then take_marks is_mark rs' (wid + rune_len r) else (wid, rs)
  | [] => (wid, [])
  end.

(* `fixed` = false: the code as pinned (reverse.go:45 `wid := utf8.RuneLen(inputRunes[i])`:
   an invalid byte, one byte wide in s, counts as RuneLen(U+FFFD) = 3);
   `fixed` = true: the repaired line `_, wid := utf8.DecodeRune(s[cursorIn:])`. *)
Fixpoint reverse_loop (fuel : nat) (fixed : bool) (is_mark : Z -> bool) (s rs : list Z)
         (cursor_in cursor_out : Z) (output : list Z) : res (list Z) :=
  match fuel with
  | O => OutOfFuel
  | S f =>
      match rs with
      | [] => Ok output
      | r :: rs' =>
          let wid0 := if fixed then Z.of_nat (snd (decode_rune (skipn (Z.to_nat cursor_in) s))) else rune_len r in
          let '(wid, rest) := take_marks is_mark rs' wid0 in
          (* :56 copy(output[cursorOut-wid:cursorOut], s[cursorIn:cursorIn+wid]) *)
          if (wid <? 0) || (cursor_out - wid <? 0) || (len s <? cursor_in + wid) then Panic 4
          else reverse_loop f fixed is_mark s rest (cursor_in + wid) (cursor_out - wid)
                            (write_at output (cursor_out - wid) (slice s cursor_in (cursor_in + wid)))
      end
  end.
Definition reverse_term (fixed : bool) (is_mark : Z -> bool) (s : list Z) : res (list Z) :=
  let rs := runes s in
  reverse_loop (S (length rs)) fixed is_mark s rs 0 (len s) (repeat 0 (length s)).
Definition reverse_filter (fixed : bool) (is_mark : Z -> bool) (ts : tstream) : res tstream :=
  rmapM (fun t => rmap (set_term t) (reverse_term fixed is_mark (t_term t))) ts.

(* ---------- apostrophe.go:31-41 ---------- *)

(* bytes.IndexAny(term, "'’"): byte index of the first rune of the decode walk that is one of
   the two apostrophes (RuneError is not among them, so invalid bytes never match) *)
Fixpoint index_any (ds : list (Z * nat)) (pos : Z) (chars : list Z) : option Z :=
  match ds with
  | [] => None
  | d :: ds' => if existsb (Z.eqb (fst d)) chars then Some pos else index_any ds' (pos + Z.of_nat (snd d)) chars
  end.
Definition apostrophes : list Z := [rune_apostrophe; rune_right_single_quote].   (* apostrophe.go:23 *)
Definition apostrophe_term (term : list Z) : list Z :=
  match index_any (decode_all term) 0 apostrophes with
  | Some k => firstn (Z.to_nat k) term            (* :36 token.Term = token.Term[0:firstApostrophe] *)
  | None => term
  end.
Definition apostrophe_filter (ts : tstream) : tstream := map (fun t => set_term t (apostrophe_term (t_term t))) ts.

(* ---------- elision.go:36-54 ---------- *)
(* rest = term[i:]; every iteration consumes size >= 1 bytes: fuel = len(term) is never short *)
Fixpoint elision_loop (fuel : nat) (is_article : list Z -> bool) (term rest : list Z) (i : Z) : list Z :=
  match fuel, rest with
  | S f, _ :: _ =>
      let '(r, size) := decode_rune rest in                                             (* :40 *)
      if ((r =? rune_apostrophe) || (r =? rune_right_single_quote))                     (* :41 *)
         && is_article (firstn (Z.to_nat i) term)                                       (* :43-45 *)
      then skipn (Z.to_nat (i + Z.of_nat size)) term                                    (* :46 term[i+size:] *)
      else elision_loop f is_article term (skipn size rest) (i + Z.of_nat size)         (* :50 *)
  | _, _ => term
  end.
Definition elision_term (is_article : list Z -> bool) (term : list Z) : list Z :=
  elision_loop (length term) is_article term term 0.
Definition elision_filter (is_article : list Z -> bool) (ts : tstream) : tstream :=
  map (fun t => set_term t (elision_term is_article (t_term t))) ts.

(* ---------- shingle.go:41-124 ---------- *)

Definition lastn {A} (n : nat) (l : list A) : list A := skipn (length l - n) l.

Fixpoint join_terms (sep : list Z) (ts : list token) : list Z :=
  match ts with
  | [] => []
  | [t] => t_term t
  | t :: r => t_term t ++ sep ++ join_terms sep r
  end.

(* shingle.go:91-105: start = Start of the first token whose Start is not -1; end = End of the
   last token whose End is not -1 (0 when none) *)
Fixpoint shingle_start (ts : list token) : Z :=
  match ts with
  | [] => -1
  | t :: r => if t_start t =? -1 then shingle_start r else t_start t
  end.
Definition shingle_end (ts : list token) : Z :=
  fold_left (fun e t => if t_end t =? -1 then e else t_end t) ts 0.

(* shingle.go:107-117: Start/End keep their zero value when start/end is -1 *)
Definition shingle_of (sep : list Z) (ts : list token) : token :=
  let s := shingle_start ts in
  let e := shingle_end ts in
  Tk (if s =? -1 then 0 else s) (if e =? -1 then 0 else e) (join_terms sep ts) 0 tt_shingle false.

(* shingleCurrentRingState (shingle.go:81-124); window = the values held by the ring, oldest
   first (at most max of them); a size n <= 0 passes the `itemsInRing < shingleN` test and
   reads no ring entry *)
Definition ring_state (mn mx : Z) (sep : list Z) (output_original : bool) (window : list token) (items : Z) : tstream :=
  let shs := flat_map (fun n => if items <? n then []
                                else [shingle_of sep (if n <=? 0 then [] else lastn (Z.to_nat n) window)])
                      (zrange mn mx) in
  if output_original then shs else mark_first shs.     (* :118-120 *)

Definition push_ring (mx : Z) (window : list token) (t : token) : list token := lastn (Z.to_nat mx) (window ++ [t]).
Definition bump (mx items : Z) : Z := if items <? mx then items + 1 else items.   (* :62-64, 71-73 *)

(* the filler token of shingle.go:54-60 *)
Definition filler_token (fill : list Z) : token :=
  Tk shingle_filler_start shingle_filler_end fill shingle_filler_incr tt_alphanumeric false.

(* shingle.go:52-68: `for offset > 0` fillers *)
Fixpoint shingle_fillers (k : nat) (mn mx : Z) (sep fill : list Z) (oo : bool) (window : list token) (items : Z)
  : tstream * (list token * Z) :=
  match k with
  | O => ([], (window, items))
  | S k' =>
      let w := push_ring mx window (filler_token fill) in
      let it := bump mx items in
      let '(out, st) := shingle_fillers k' mn mx sep fill oo w it in
      (ring_state mn mx sep oo w it ++ out, st)
  end.

Fixpoint shingle_loop (mn mx : Z) (sep fill : list Z) (oo : bool) (ts : tstream) (window : list token) (items : Z) : tstream :=
  match ts with
  | [] => []
  | t :: r =>
      let '(fout, (w1, it1)) := shingle_fillers (Z.to_nat (t_incr t - 1)) mn mx sep fill oo window items in
      let w2 := push_ring mx w1 t in
      let it2 := bump mx it1 in
      (if oo then [t] else []) ++ fout ++ ring_state mn mx sep oo w2 it2 ++ shingle_loop mn mx sep fill oo r w2 it2
  end.

(* ring.New(max) is nil for max <= 0 and `aRing.Value = ...` (shingle.go:61/70) then panics
   on the first token *)
Definition shingle_filter (mn mx : Z) (oo : bool) (sep fill : list Z) (ts : tstream) : res tstream :=
  match ts with
  | [] => Ok []
  | _ => if mx <=? 0 then Panic 5 else Ok (shingle_loop mn mx sep fill oo ts [] 0)
  end.
