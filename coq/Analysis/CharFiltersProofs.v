(* Analysis/CharFiltersProofs.v — the ASCII folding filter returns on every byte string (no write
   past the output slice, no extension past its capacity), given the table shape that is
   re-checked by computation on the regenerated table; the ZWNJ filter never grows the text. *)
From Coq Require Import ZArith List Bool Lia Arith.
From Coq Require Import ZifyBool.
From Bluge Require Import Base.Res Base.Corr Base.UTF8 Gen.ParamsAnalysis
  Analysis.Pipeline Analysis.Utf8Facts Analysis.CharFilters.
Import ListNotations.
Open Scope Z_scope.

Section FoldProofs.
  Variable table : list (Z * (Z * list Z)).
  Variable mx : Z.
  Hypothesis Htable : fold_table_ok table mx = true.
  Hypothesis Hmx : 1 <= mx.

  Lemma fold_lookup_ok : forall tbl c k ws,
    forallb (fold_entry_ok mx) tbl = true -> fold_lookup tbl c = Some (k, ws) ->
    k + 1 = len ws /\ 1 <= len ws <= mx.
  Proof.
    induction tbl as [|[r e] rest IH]; intros c k ws Hok Hl; cbn [fold_lookup] in Hl; [discriminate|].
    cbn [forallb] in Hok. apply andb_true_iff in Hok as [He Hrest].
    destruct (c =? r).
    - inversion Hl; subst. unfold fold_entry_ok in He. lia.
    - eapply IH; eauto.
  Qed.

  Lemma fold_writes_ok : forall ws cur_len pos acc,
    pos + len ws <= cur_len ->
    exists acc', fold_writes ws cur_len pos acc = Ok (pos + len ws, acc').
  Proof.
    induction ws as [|x ws IH]; intros cur_len pos acc H; cbn [fold_writes].
    - unfold len. cbn. rewrite Z.add_0_r. eauto.
    - unfold len in *. cbn [length] in *. destruct (cur_len <=? pos) eqn:E; [lia|].
      destruct (IH cur_len (pos + 1) (x :: acc)) as [acc' E']; [lia|].
      rewrite E'. exists acc'. f_equal. f_equal. lia.
  Qed.

  (* invariant: one free slot per rune still to read, and room for mx-1 more per such rune *)
  Lemma fold_loop_total cap : forall rs cur_len pos acc,
    cur_len - pos = len rs -> cur_len + (mx - 1) * len rs <= cap ->
    exists out, fold_loop table cap rs cur_len pos acc = Ok out.
  Proof.
    induction rs as [|c rest IH]; intros cur_len pos acc Hfree Hcap; cbn [fold_loop]; [eauto|].
    assert (Hl : len (c :: rest) = len rest + 1) by (unfold len; cbn [length]; lia).
    assert (Hlr : 0 <= len rest) by (unfold len; lia).
    rewrite Hl in Hfree, Hcap.
    assert (Hone : forall acc0, exists out,
               (w <- fold_writes [c] cur_len pos acc0 ;; fold_loop table cap rest cur_len (fst w) (snd w)) = Ok out).
    { intros acc0. destruct (fold_writes_ok [c] cur_len pos acc0) as [acc' E].
      { change (len [c]) with 1. lia. }
      change (len [c]) with 1 in E. rewrite E. cbn [rbind fst snd]. apply IH; nia. }
    destruct (c <? 128); [apply Hone|].
    destruct (fold_lookup table c) as [[k ws]|] eqn:El; [|apply Hone].
    destruct (fold_lookup_ok table c k ws Htable El) as [Hk Hws].
    destruct (cap <? cur_len + k) eqn:Ec; [nia|].
    destruct (fold_writes_ok ws (cur_len + k) pos acc) as [acc' E]; [lia|].
    rewrite E. cbn [rbind fst snd]. apply IH; nia.
  Qed.

  Lemma ascii_fold_with_total input : exists out, ascii_fold_with table mx input = Ok out.
  Proof.
    unfold ascii_fold_with. destruct input as [|b p]; [eauto|].
    destruct (fold_loop_total (len (runes (b :: p)) * mx) (runes (b :: p)) (len (runes (b :: p))) 0 []) as [out E].
    - lia.
    - nia.
    - rewrite E. cbn [rmap rbind]. eauto.
  Qed.
End FoldProofs.

(* the table of asciifolding.go as it is in /repo now *)
Lemma ascii_fold_table_shape : fold_table_ok ascii_fold_table ascii_fold_max_expansion = true.
Proof. vm_compute. reflexivity. Qed.

Lemma ascii_fold_total_all (input : list Z) : exists out, ascii_fold input = Ok out.
Proof.
  unfold ascii_fold. apply ascii_fold_with_total; [apply ascii_fold_table_shape|].
  unfold ascii_fold_max_expansion. lia.
Qed.

(* "Æon ﬁx" folds to "AEon fix" *)
Lemma ex_ascii_fold : ascii_fold [195;134;111;110;32;239;172;129;120] = Ok [65;69;111;110;32;102;105;120].
Proof. vm_compute. reflexivity. Qed.

(* ---------- ZWNJ ---------- *)

Lemma zwnj_loop_length : forall fuel p, (length (zwnj_loop fuel p) <= length p)%nat.
Proof.
  induction fuel as [|f IH]; intros p; cbn [zwnj_loop]; [destruct p; cbn; lia|].
  destruct p as [|b p']; [cbn; lia|]. set (q := b :: p').
  destruct (decode_rune q) as [r w] eqn:Ed.
  assert (Hne : q <> []) by (unfold q; congruence).
  pose proof (decode_rune_size q Hne) as Hs. rewrite Ed in Hs. cbn [snd] in Hs.
  rewrite app_length. specialize (IH (skipn w q)). rewrite skipn_length in IH.
  destruct (r =? zwnj_rune).
  - unfold zwnj_replacement. cbn [length]. lia.
  - rewrite firstn_length. lia.
Qed.

Lemma zwnj_no_growth_all input : len (zwnj_filter input) <= len input.
Proof. unfold zwnj_filter, len. pose proof (zwnj_loop_length (length input) input). lia. Qed.

(* "می‌خورد": the ZWNJ (E2 80 8C) becomes a space, an invalid byte is copied *)
Lemma ex_zwnj : zwnj_filter [217;133;226;128;140;255;120] = [217;133;32;255;120].
Proof. vm_compute. reflexivity. Qed.
