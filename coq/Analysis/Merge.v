(* Analysis/Merge.v — TokenFrequencies.MergeAll / mergeOne / MergeOneBytes (analysis/freq.go:104-153)
   and the composite-field path that uses them (field.go CompositeField.Consume, called from
   document.go:77-86).  A TokenLocation is shared by pointer between the source field's map and
   the merged map and mergeOne writes its FieldVal (`l.FieldVal = remoteField`): locations carry
   their field name here, and a merge returns the merged map AND the source map as it is after
   the call.  Go's map iteration order in MergeAll is not observable: entries with different
   keys do not interact.  No proofs in this file. *)
From Coq Require Import ZArith List Bool.
From Bluge Require Import Base.Res Base.Corr Gen.ParamsAnalysis Analysis.Pipeline Analysis.Freq.
Import ListNotations.
Open Scope Z_scope.

(* TokenLocation with its FieldVal (freq.go:37-42) *)
Record floc := FLoc { fl_field : list Z; fl_loc : tloc }.
Record ftf := FTF { ft_term : list Z; ft_locs : list floc; ft_freq : Z }.
Definition fmap := list ftf.

(* what TokenFrequency returns: FieldVal is the empty string *)
Definition lift_tf (e : tfreq) : ftf := FTF (tf_term e) (map (FLoc []) (tf_locs e)) (tf_freq e).
Definition lift_map (m : tfmap) : fmap := map lift_tf m.

(* freq.go:117-120 / 137-140: for _, l := range tf.Locations { l.FieldVal = remoteField } *)
Definition set_field (remote : list Z) (e : ftf) : ftf :=
  FTF (ft_term e) (map (fun l => FLoc remote (fl_loc l)) (ft_locs e)) (ft_freq e).

(* freq.go:121-133 (mergeOne) = 141-153 (MergeOneBytes): e is the source entry after its
   locations were rewritten *)
Fixpoint merge_into (dst : fmap) (e : ftf) : fmap :=
  match dst with
  | [] => [FTF (ft_term e) (ft_locs e) (ft_freq e)]                          (* :126-132 a new TokenFreq, locations copied *)
  | d :: r =>
      if zlist_eqb (ft_term d) (ft_term e)
      then FTF (ft_term d) (ft_locs d ++ ft_locs e) (ft_freq d + ft_freq e) :: r   (* :123-125 *)
      else d :: merge_into r e
  end.

(* MergeAll (freq.go:108-113): returns (merged map, source map after the call) *)
Definition merge_all (dst : fmap) (remote : list Z) (src : fmap) : fmap * fmap :=
  let src' := map (set_field remote) src in
  (fold_left merge_into src' dst, src').

(* a sequence of MergeAll calls into one map (CompositeField.Consume, field.go:427-432, for the
   included fields in document order); returns the merged map and every source afterwards *)
Fixpoint merge_seq (dst : fmap) (srcs : list (list Z * fmap)) : fmap * list fmap :=
  match srcs with
  | [] => (dst, [])
  | (name, src) :: rest =>
      let '(dst', src') := merge_all dst name src in
      let '(out, srcs') := merge_seq dst' rest in
      (out, src' :: srcs')
  end.

Fixpoint ft_lookup (m : fmap) (term : list Z) : option ftf :=
  match m with
  | [] => None
  | e :: r => if zlist_eqb (ft_term e) term then Some e else ft_lookup r term
  end.
Definition ffreq_for (m : fmap) (term : list Z) : Z := match ft_lookup m term with Some e => ft_freq e | None => 0 end.
Definition flocs_for (m : fmap) (term : list Z) : list floc := match ft_lookup m term with Some e => ft_locs e | None => [] end.
Definition fterms (m : fmap) : list (list Z) := map ft_term m.
