(* Analysis/Tokenizers.v — exact models of analysis/tokenizer/character.go (with
   letter.go, whitespace.go: the same loop over another rune predicate) and single.go.
   No proofs in this file. *)
From Coq Require Import ZArith List Bool.
From Bluge Require Import Base.Res Base.Corr Base.UTF8 Gen.ParamsAnalysis Analysis.Pipeline.
Import ListNotations.
Open Scope Z_scope.

(* ---------- analysis/tokenizer/character.go:35-73 ---------- *)

(* character.go:48-54 / 64-70: &analysis.Token{Term: input[start:end], Start, End, PositionIncr: 1, Type: AlphaNumeric} *)
Definition char_token (input : list Z) (start end_ : Z) : token :=
  Tk start end_ (slice input start end_) char_tok_incr tt_alphanumeric false.

(* character.go:46 / 62: `if end-start > 0 { rv = append(rv, token) }` *)
Definition char_emit (input : list Z) (start end_ : Z) (tail : tstream) : tstream :=
  if 0 <? end_ - start then char_token input start end_ :: tail else tail.

(* character.go:41-60.  rest = input[offset:].  The loop condition is
   `currRune != utf8.RuneError`: it ends at the end of the input (DecodeRune of the empty
   slice is (RuneError,0)), at the first invalid byte (RuneError,1) and also at a well-formed
   U+FFFD (RuneError,3); whatever follows is not tokenized.  Every iteration consumes
   size >= 1 bytes, so len(input)+1 units of fuel are never exhausted. *)
Fixpoint char_loop (fuel : nat) (is_tok : Z -> bool) (input rest : list Z) (offset start end_ : Z) : res tstream :=
  match fuel with
  | O => OutOfFuel
  | S f =>
      let '(r, size) := decode_rune rest in
      if r =? rune_error then
        (* character.go:61-71: if we ended in the middle of a token, finish it *)
        Ok (char_emit input start end_ [])
      else
        let off' := offset + Z.of_nat size in        (* character.go:59 offset += size *)
        if is_tok r then
          (* character.go:43-44: end = offset + size *)
          char_loop f is_tok input (skipn size rest) off' start off'
        else
          (* character.go:45-58: emit the pending token, start = offset + size; end = start *)
          rmap (char_emit input start end_) (char_loop f is_tok input (skipn size rest) off' off' off')
  end.

Definition char_tokenize (is_tok : Z -> bool) (input : list Z) : res tstream :=
  char_loop (S (length input)) is_tok input input 0 0 0.

(* ---------- analysis/tokenizer/single.go:27-45 ---------- *)

(* MakeToken (single.go:31-39) *)
Definition make_token (input : list Z) : token :=
  Tk single_tok_start (len input) input single_tok_incr tt_alphanumeric false.
(* MakeTokenStream (single.go:41-45), SingleTokenTokenizer.Tokenize (single.go:27-29) *)
Definition make_token_stream (input : list Z) : tstream := [make_token input].
Definition single_tokenize (input : list Z) : res tstream := Ok (make_token_stream input).
