(* Search/NumericSplit.v — splitInt64Range (search/searcher/search_numeric_range.go:141-188) is exact:
   the per-shift term ranges it emits match an indexed value (through the value's shift tokens)
   iff the value lies in [min, max].  Proof in the signed domain with floor quotients v / 2^s
   (a shift-s term orders like v / 2^s, NumericPrefix.enc_cmp_signed); at shift s the bounds are
   A * 2^s and B * 2^s and the loop works on the block numbers A, B. *)
From Coq Require Import ZArith List Bool Lia.
From Coq Require Import ZifyBool.
From Bluge Require Import Base.Int64 Base.NumBits Base.Res Gen.ParamsNumeric Search.Numeric Search.NumericPrefix.
Import ListNotations.
Open Scope Z_scope.

(* ---------- matching of one value against term ranges ---------- *)

(* r matches v: one of the index-time tokens of v lies in r (declarative form of the
   dictionary walk: Enumerate keeps exactly the dictionary terms inside the range) *)
Definition covers (r : trange) (v : Z) : Prop :=
  exists t, In t (index_tokens v numeric_precision_step) /\ in_trange r t = true.
Definition covered (rs : list trange) (v : Z) : Prop := exists r, In r rs /\ covers r v.

Lemma covered_nil v : covered [] v <-> False.
Proof. split; [intros (r & [] & _)|tauto]. Qed.

Lemma covered_app a b v : covered (a ++ b) v <-> covered a v \/ covered b v.
Proof.
  unfold covered. split.
  - intros (r & Hin & Hc). apply in_app_iff in Hin. destruct Hin; [left|right]; exists r; tauto.
  - intros [(r & Hin & Hc)|(r & Hin & Hc)]; exists r; rewrite in_app_iff; tauto.
Qed.

Lemma covered_single r v : covered [r] v <-> covers r v.
Proof.
  unfold covered. split.
  - intros (r' & [<-|[]] & Hc). exact Hc.
  - intros Hc. exists r. split; [left; reflexivity|exact Hc].
Qed.

Lemma bytes_le_cmp a b : bytes_le a b = true <-> bytes_cmp a b <> Gt.
Proof. unfold bytes_le. destruct (bytes_cmp a b); split; congruence. Qed.

(* a shift-s' token of v lies in the range [enc x s, enc y s] iff s' = s and the quotients are ordered *)
Lemma in_trange_enc x y v s s' : in_int64 x -> in_int64 y -> in_int64 v -> 0 <= s <= 63 -> 0 <= s' <= 63 ->
  in_trange {| tr_start := enc x s; tr_end := enc y s |} (enc v s') = true
  <-> s' = s /\ x / 2 ^ s <= v / 2 ^ s <= y / 2 ^ s.
Proof.
  intros Hx Hy Hv Hs Hs'. unfold in_trange. cbn [tr_start tr_end].
  rewrite !andb_true_iff, Nat.eqb_eq, !bytes_le_cmp. split.
  - intros [[Hl H1] H2].
    assert (Hl2 : length (enc v s') = length (enc y s)).
    { rewrite Hl. apply Nat2Z.inj. rewrite !enc_length by assumption. reflexivity. }
    rewrite enc_cmp in H1 by (assumption || (symmetry; assumption)).
    rewrite enc_cmp in H2 by assumption.
    assert (s' = s).
    { revert H1 H2. destruct (Z.compare_spec s s'); destruct (Z.compare_spec s' s); try lia; congruence. }
    subst s'. split; [reflexivity|].
    rewrite Z.compare_refl in H1, H2. rewrite !div_add_two63 in H1, H2 by assumption.
    pose proof (proj1 (Z.compare_le_iff _ _) H1) as H1'. pose proof (proj1 (Z.compare_le_iff _ _) H2) as H2'. lia.
  - intros [-> [H1 H2]].
    rewrite !enc_cmp_signed by assumption.
    split; [split|].
    + apply Nat2Z.inj. rewrite !enc_length by assumption. reflexivity.
    + apply Z.compare_le_iff. exact H1.
    + apply Z.compare_le_iff. exact H2.
Qed.

(* (int64(1) << shift) - 1 *)
Lemma low_mask_ones s : 0 <= s <= 63 -> wrap64 (shl64 1 s - 1) = Z.ones s.
Proof.
  intros Hs. destruct (Z.eq_dec s 63) as [->|Hne]; [reflexivity|].
  unfold shl64. destruct (Z.ltb_spec s 64); [|lia].
  rewrite Z.shiftl_mul_pow2, Z.mul_1_l by lia.
  assert (Hp : 0 < 2 ^ s <= 2 ^ 62) by (split; [apply pow2_pos; lia | apply Z.pow_le_mono_r; lia]).
  rewrite (wrap64_id (2 ^ s)) by (unfold in_int64, min_int64, max_int64; lia).
  rewrite wrap64_id by (unfold in_int64, min_int64, max_int64; lia).
  rewrite Z.ones_equiv. lia.
Qed.

Lemma new_range_enc x y s : in_int64 x -> in_int64 y -> 0 <= s <= 63 ->
  new_range x y s = Ok {| tr_start := enc x s; tr_end := enc (Z.lor y (Z.ones s)) s |}.
Proof.
  intros Hx Hy Hs. unfold new_range. rewrite low_mask_ones by assumption.
  rewrite !prefix_coded_enc by (try apply lor_ones_range; assumption). reflexivity.
Qed.

Lemma covers_new_range x y s v : in_int64 x -> in_int64 y -> in_int64 v ->
  0 <= s <= 60 -> s mod 4 = 0 ->
  covers {| tr_start := enc x s; tr_end := enc (Z.lor y (Z.ones s)) s |} v
  <-> x / 2 ^ s <= v / 2 ^ s <= y / 2 ^ s.
Proof.
  intros Hx Hy Hv Hs Hm. unfold covers, numeric_precision_step.
  pose proof (lor_ones_range y s ltac:(lia) Hy) as Hy'.
  split.
  - intros (t & Hin & Hr). apply in_index_tokens in Hin; [|assumption].
    destruct Hin as (s' & Hs' & Hm' & ->).
    apply in_trange_enc in Hr; try assumption; try lia.
    destruct Hr as [-> Hr]. rewrite lor_ones_div in Hr by lia. exact Hr.
  - intros H. exists (enc v s). split.
    + apply in_index_tokens; [assumption|]. exists s. tauto.
    + apply in_trange_enc; try assumption; try lia. rewrite lor_ones_div by lia. tauto.
Qed.

(* ---------- one iteration of the loop, named piece by piece ---------- *)

Definition sl_mask (s : Z) : Z := shl64 (wrap64 (shl64 1 4 - 1)) s.
Definition sl_diff (s : Z) : Z := shl64 1 (s + 4).
Definition sl_hasLower (minB s : Z) : bool := negb (Z.land minB (sl_mask s) =? 0).
Definition sl_hasUpper (maxB s : Z) : bool := negb (Z.land maxB (sl_mask s) =? sl_mask s).
Definition sl_nextMin (minB s : Z) : Z :=
  if sl_hasLower minB s then Z.ldiff (wrap64 (minB + sl_diff s)) (sl_mask s) else Z.ldiff minB (sl_mask s).
Definition sl_nextMax (maxB s : Z) : Z :=
  if sl_hasUpper maxB s then Z.ldiff (wrap64 (maxB - sl_diff s)) (sl_mask s) else Z.ldiff maxB (sl_mask s).
Definition sl_exit (minB maxB s : Z) : bool :=
  (64 <=? s + 4) || (sl_nextMax maxB s <? sl_nextMin minB s) || (sl_nextMin minB s <? minB) || (maxB <? sl_nextMax maxB s).

Lemma split_loop_S f minB maxB s acc :
  split_loop (S f) minB maxB s 4 acc =
    if sl_exit minB maxB s then r <- new_range minB maxB s ;; Ok (acc ++ [r])
    else
      acc1 <- (if sl_hasLower minB s then r <- new_range minB (Z.lor minB (sl_mask s)) s ;; Ok (acc ++ [r]) else Ok acc) ;;
      acc2 <- (if sl_hasUpper maxB s then r <- new_range (Z.ldiff maxB (sl_mask s)) maxB s ;; Ok (acc1 ++ [r]) else Ok acc1) ;;
      split_loop f (sl_nextMin minB s) (sl_nextMax maxB s) (s + 4) 4 acc2.
Proof. reflexivity. Qed.

(* ---------- block arithmetic ---------- *)

Section Block.
  Variables (s P M' : Z).
  Hypothesis Hs : 0 <= s <= 56.
  Hypothesis HP : P = 2 ^ s.
  Hypothesis HM : M' = 2 ^ (59 - s).
  Let M := 16 * M'.

  Lemma blk_P_pos : 0 < P. Proof. subst P. apply pow2_pos. lia. Qed.
  Lemma blk_M'_pos : 1 <= M'. Proof. subst M'. pose proof (pow2_pos (59 - s)). lia. Qed.
  Lemma blk_PM : P * M = two63.
  Proof.
    unfold M. subst P M'. change 16 with (2 ^ 4). rewrite <- !Z.pow_add_r by lia.
    rewrite two63_eq. f_equal. lia.
  Qed.
  Lemma blk_P_le : P <= 2 ^ 56. Proof. subst P. apply Z.pow_le_mono_r; lia. Qed.

  Lemma blk_int64 X : -M <= X < M -> in_int64 (X * P).
  Proof.
    intros HX. pose proof blk_P_pos. pose proof blk_PM as E.
    unfold in_int64, min_int64, max_int64. unfold two63 in E. nia.
  Qed.

  Lemma blk_int64_inv X : in_int64 (X * P) -> -M <= X < M.
  Proof.
    intros HX. pose proof blk_P_pos. pose proof blk_PM as E.
    unfold in_int64, min_int64, max_int64 in HX. unfold two63 in E. nia.
  Qed.

  Lemma blk_div X : X * P / P = X.
  Proof. apply Z.div_mul. pose proof blk_P_pos. lia. Qed.

  Lemma blk_wrap X : wrap64 (X * P) = ((X + M) mod (2 * M) - M) * P.
  Proof.
    unfold wrap64. pose proof blk_P_pos. pose proof blk_M'_pos. pose proof blk_PM as E.
    replace (X * P + two63) with ((X + M) * P) by lia.
    replace two64 with ((2 * M) * P) by (unfold two64, two63 in *; lia).
    rewrite Z.mul_mod_distr_r by (unfold M; lia). lia.
  Qed.

  Lemma blk_mask : sl_mask s = 15 * P.
  Proof.
    unfold sl_mask. change (wrap64 (shl64 1 4 - 1)) with 15.
    unfold shl64. destruct (Z.ltb_spec s 64); [|lia].
    rewrite Z.shiftl_mul_pow2 by lia. rewrite <- HP.
    apply wrap64_id. pose proof blk_P_pos. pose proof blk_P_le.
    unfold in_int64, min_int64, max_int64. lia.
  Qed.

  Lemma blk_diff : sl_diff s = 16 * P.
  Proof.
    unfold sl_diff, shl64. destruct (Z.ltb_spec (s + 4) 64); [|lia].
    rewrite Z.shiftl_mul_pow2, Z.mul_1_l by lia. rewrite Z.pow_add_r by lia. rewrite <- HP.
    change (2 ^ 4) with 16. rewrite Z.mul_comm.
    apply wrap64_id. pose proof blk_P_pos. pose proof blk_P_le.
    unfold in_int64, min_int64, max_int64. lia.
  Qed.

  Lemma blk_land X : Z.land (X * P) (15 * P) = (X mod 16) * P.
  Proof.
    change 15 with (2 ^ 4 - 1). rewrite HP, land_mask_arith by lia. rewrite <- HP, blk_div.
    reflexivity.
  Qed.

  Lemma blk_ldiff X : Z.ldiff (X * P) (15 * P) = (X - X mod 16) * P.
  Proof. rewrite ldiff_sub_land, blk_land. ring. Qed.

  Lemma blk_lor X : Z.lor (X * P) (15 * P) = (X + 15 - X mod 16) * P.
  Proof. rewrite lor_add_land, blk_land. ring. Qed.

  Lemma blk_ltb X Y : (X * P <? Y * P) = (X <? Y).
  Proof. pose proof blk_P_pos. destruct (Z.ltb_spec X Y); destruct (Z.ltb_spec (X * P) (Y * P)); try reflexivity; nia. Qed.

  Lemma blk_hasLower A : sl_hasLower (A * P) s = negb (A mod 16 =? 0).
  Proof.
    unfold sl_hasLower. rewrite blk_mask, blk_land. f_equal. pose proof blk_P_pos.
    destruct (Z.eqb_spec (A mod 16) 0) as [E|E]; destruct (Z.eqb_spec (A mod 16 * P) 0) as [E'|E']; try reflexivity; nia.
  Qed.

  Lemma blk_hasUpper B : sl_hasUpper (B * P) s = negb (B mod 16 =? 15).
  Proof.
    unfold sl_hasUpper. rewrite blk_mask, blk_land. f_equal. pose proof blk_P_pos.
    destruct (Z.eqb_spec (B mod 16) 15) as [E|E]; destruct (Z.eqb_spec (B mod 16 * P) (15 * P)) as [E'|E']; try reflexivity; nia.
  Qed.

  (* wrap of a block number that left [-M, M) by less than 2M on either side *)
  Lemma blk_wrapM_up X : -M <= X < 3 * M -> (X + M) mod (2 * M) - M = if X <? M then X else X - 2 * M.
  Proof.
    intros HX. pose proof blk_M'_pos. destruct (Z.ltb_spec X M).
    - rewrite Z.mod_small; unfold M in *; lia.
    - replace (X + M) with ((X - M) + 1 * (2 * M)) by ring.
      rewrite Z.mod_add by (unfold M; lia). rewrite Z.mod_small; unfold M in *; lia.
  Qed.

  Lemma blk_wrapM_down X : -3 * M <= X < M -> (X + M) mod (2 * M) - M = if X <? -M then X + 2 * M else X.
  Proof.
    intros HX. pose proof blk_M'_pos. destruct (Z.ltb_spec X (-M)).
    - replace (X + M) with ((X + 3 * M) + (-1) * (2 * M)) by ring.
      rewrite Z.mod_add by (unfold M; lia). rewrite Z.mod_small; unfold M in *; lia.
    - rewrite Z.mod_small; unfold M in *; lia.
  Qed.

  Definition blk_nextMin (A : Z) : Z :=
    if A mod 16 =? 0 then A
    else let W := if A + 16 <? M then A + 16 else A + 16 - 2 * M in W - W mod 16.
  Definition blk_nextMax (B : Z) : Z :=
    if B mod 16 =? 15 then B - 15
    else let W := if B - 16 <? -M then B - 16 + 2 * M else B - 16 in W - W mod 16.

  Lemma blk_nextMin_eq A : -M <= A < M -> sl_nextMin (A * P) s = blk_nextMin A * P.
  Proof.
    intros HA. unfold sl_nextMin, blk_nextMin. rewrite blk_hasLower, blk_mask, blk_diff.
    pose proof blk_M'_pos.
    destruct (Z.eqb_spec (A mod 16) 0) as [E|E]; cbn [negb].
    - rewrite blk_ldiff, E. f_equal. lia.
    - replace (A * P + 16 * P) with ((A + 16) * P) by ring.
      rewrite blk_wrap, blk_wrapM_up by (unfold M in *; lia).
      cbv zeta. rewrite blk_ldiff. reflexivity.
  Qed.

  Lemma blk_nextMax_eq B : -M <= B < M -> sl_nextMax (B * P) s = blk_nextMax B * P.
  Proof.
    intros HB. unfold sl_nextMax, blk_nextMax. rewrite blk_hasUpper, blk_mask, blk_diff.
    pose proof blk_M'_pos.
    destruct (Z.eqb_spec (B mod 16) 15) as [E|E]; cbn [negb].
    - rewrite blk_ldiff, E. reflexivity.
    - replace (B * P - 16 * P) with ((B - 16) * P) by ring.
      rewrite blk_wrap, blk_wrapM_down by (unfold M in *; lia).
      cbv zeta. rewrite blk_ldiff. reflexivity.
  Qed.

  (* the wrap flags fire exactly when the unbounded next bound leaves int64; otherwise the next
     bounds are the first 16-block at or after A and the last 16-block wholly at or below B *)
  Lemma blk_exit_arith A B : -M <= A -> A <= B -> B < M ->
    (blk_nextMax B <? blk_nextMin A) || (blk_nextMin A <? A) || (B <? blk_nextMax B) = false ->
    blk_nextMin A = 16 * ((A + 15) / 16) /\ blk_nextMax B = 16 * ((B + 1) / 16 - 1) /\
    (A + 15) / 16 <= (B + 1) / 16 - 1 /\ - M' <= (A + 15) / 16 /\ (B + 1) / 16 - 1 < M'.
  Proof.
    intros HA HAB HB. unfold blk_nextMin, blk_nextMax, M in *. pose proof blk_M'_pos.
    cbv zeta.
    destruct (Z.eqb_spec (A mod 16) 0); destruct (Z.eqb_spec (B mod 16) 15);
      try destruct (Z.ltb_spec (A + 16) (16 * M')); try destruct (Z.ltb_spec (B - 16) (- (16 * M')));
      intros Hex; Z.div_mod_to_equations; lia.
  Qed.

  Lemma blk_exit_eq A B : -M <= A < M -> -M <= B < M ->
    sl_exit (A * P) (B * P) s =
      (blk_nextMax B <? blk_nextMin A) || (blk_nextMin A <? A) || (B <? blk_nextMax B).
  Proof.
    intros HA HB. unfold sl_exit. rewrite blk_nextMin_eq, blk_nextMax_eq by assumption.
    rewrite !blk_ltb. destruct (Z.leb_spec 64 (s + 4)); [lia|]. reflexivity.
  Qed.
End Block.

(* ---------- the loop ---------- *)

Lemma pow2_step s : 0 <= s -> 2 ^ (s + 4) = 16 * 2 ^ s.
Proof. intros. rewrite Z.pow_add_r by lia. change (2 ^ 4) with 16. ring. Qed.

Lemma div_div_16 v s : 0 <= s -> v / 2 ^ (s + 4) = v / 2 ^ s / 16.
Proof.
  intros Hs. rewrite pow2_step by assumption. rewrite (Z.mul_comm 16).
  rewrite Z.div_div; [reflexivity | pose proof (pow2_pos s Hs); lia | lia].
Qed.

(* union of the two edge pieces and the coarser middle = the whole block interval *)
Lemma cover_arith A B w : (A + 15) / 16 <= (B + 1) / 16 - 1 ->
  ((A mod 16 <> 0 /\ A <= w <= A + 15 - A mod 16) \/ (B mod 16 <> 15 /\ B - B mod 16 <= w <= B) \/
   ((A + 15) / 16 <= w / 16 <= (B + 1) / 16 - 1)) <-> A <= w <= B.
Proof. intros H. Z.div_mod_to_equations. lia. Qed.

(* invariant: at shift s (a multiple of 4) the bounds are A * 2^s and B * 2^s with
   -2^(63-s) <= A <= B < 2^(63-s); the ranges appended from here on match exactly the v with
   A <= v / 2^s <= B *)
Lemma split_loop_spec fuel : forall s A B acc,
  0 <= s <= 60 -> s mod 4 = 0 -> 64 <= 4 * Z.of_nat fuel + s ->
  - 2 ^ (63 - s) <= A -> A <= B -> B < 2 ^ (63 - s) ->
  exists rs, split_loop fuel (A * 2 ^ s) (B * 2 ^ s) s 4 acc = Ok (acc ++ rs) /\
             forall v, in_int64 v -> (covered rs v <-> A <= v / 2 ^ s <= B).
Proof.
  induction fuel as [|f IH]; intros s A B acc Hs Hm Hf HA HAB HB; [lia|].
  assert (Hp : 0 < 2 ^ s) by (apply pow2_pos; lia).
  assert (H63 : two63 = 2 ^ s * 2 ^ (63 - s)) by (apply pow2_63_split; lia).
  assert (HiA : in_int64 (A * 2 ^ s)) by (unfold in_int64, min_int64, max_int64; unfold two63 in H63; nia).
  assert (HiB : in_int64 (B * 2 ^ s)) by (unfold in_int64, min_int64, max_int64; unfold two63 in H63; nia).
  (* the exit branch: one range for all of [A, B] at this shift *)
  assert (Hexit : exists rs, (r <- new_range (A * 2 ^ s) (B * 2 ^ s) s ;; Ok (acc ++ [r])) = Ok (acc ++ rs) /\
             forall v, in_int64 v -> (covered rs v <-> A <= v / 2 ^ s <= B)).
  { rewrite new_range_enc by (assumption || lia). cbn [rbind]. eexists. split; [reflexivity|].
    intros v Hv. rewrite covered_single, covers_new_range by (assumption || lia).
    rewrite !Z.div_mul by lia. reflexivity. }
  rewrite split_loop_S.
  destruct (Z.eq_dec s 60) as [->|Hne].
  { replace (sl_exit (A * 2 ^ 60) (B * 2 ^ 60) 60) with true; [exact Hexit|].
    unfold sl_exit. reflexivity. }
  assert (Hs56 : 0 <= s <= 56) by (Z.div_mod_to_equations; lia).
  set (P := 2 ^ s) in *. set (M' := 2 ^ (59 - s)).
  assert (HM : 2 ^ (63 - s) = 16 * M').
  { unfold M'. change 16 with (2 ^ 4). rewrite <- Z.pow_add_r by lia. f_equal. lia. }
  rewrite HM in HA, HB.
  rewrite (blk_exit_eq s P M' Hs56 eq_refl eq_refl) by lia.
  destruct (_ || _ || _) eqn:Hex; [exact Hexit|].
  pose proof (blk_exit_arith s M' Hs56 eq_refl A B HA HAB HB Hex) as (ENmin & ENmax & HA'B' & HA' & HB').
  set (A' := (A + 15) / 16) in *. set (B' := (B + 1) / 16 - 1) in *.
  rewrite (blk_nextMin_eq s P M' Hs56 eq_refl eq_refl) by lia.
  rewrite (blk_nextMax_eq s P M' Hs56 eq_refl eq_refl) by lia.
  rewrite ENmin, ENmax.
  replace (16 * A' * P) with (A' * 2 ^ (s + 4)) by (rewrite pow2_step by lia; fold P; ring).
  replace (16 * B' * P) with (B' * 2 ^ (s + 4)) by (rewrite pow2_step by lia; fold P; ring).
  rewrite (blk_hasLower s P M' Hs56 eq_refl), (blk_hasUpper s P M' Hs56 eq_refl).
  rewrite (blk_mask s P M' Hs56 eq_refl).
  (* the two edge pieces *)
  assert (HiL : in_int64 (Z.lor (A * P) (15 * P))).
  { rewrite (blk_lor s P M' Hs56 eq_refl). apply (blk_int64 s P M' Hs56 eq_refl eq_refl).
    Z.div_mod_to_equations. lia. }
  assert (HiU : in_int64 (Z.ldiff (B * P) (15 * P))).
  { rewrite (blk_ldiff s P M' Hs56 eq_refl). apply (blk_int64 s P M' Hs56 eq_refl eq_refl).
    Z.div_mod_to_equations. lia. }
  rewrite !new_range_enc by (assumption || lia).
  (* the recursive call *)
  assert (HMs : 2 ^ (63 - (s + 4)) = M') by (unfold M'; f_equal; lia).
  set (lowerPiece := {| tr_start := enc (A * P) s; tr_end := enc (Z.lor (Z.lor (A * P) (15 * P)) (Z.ones s)) s |}).
  set (upperPiece := {| tr_start := enc (Z.ldiff (B * P) (15 * P)) s; tr_end := enc (Z.lor (B * P) (Z.ones s)) s |}).
  assert (CL : forall v, in_int64 v -> (covers lowerPiece v <-> A <= v / P <= A + 15 - A mod 16)).
  { intros v Hv. unfold lowerPiece. rewrite covers_new_range by (assumption || lia). fold P.
    rewrite (blk_lor s P M' Hs56 eq_refl), !Z.div_mul by lia. reflexivity. }
  assert (CU : forall v, in_int64 v -> (covers upperPiece v <-> B - B mod 16 <= v / P <= B)).
  { intros v Hv. unfold upperPiece. rewrite covers_new_range by (assumption || lia). fold P.
    rewrite (blk_ldiff s P M' Hs56 eq_refl), !Z.div_mul by lia. reflexivity. }
  clearbody lowerPiece upperPiece.
  assert (Hrec : forall acc2, exists rs,
             split_loop f (A' * 2 ^ (s + 4)) (B' * 2 ^ (s + 4)) (s + 4) 4 acc2 = Ok (acc2 ++ rs) /\
             forall v, in_int64 v -> (covered rs v <-> A' <= v / P / 16 <= B')).
  { intros acc2.
    destruct (IH (s + 4) A' B' acc2) as (rs & E & C); try rewrite HMs; try lia.
    { Z.div_mod_to_equations. lia. }
    exists rs. split; [exact E|]. intros v Hv. rewrite (C v Hv), div_div_16 by lia. reflexivity. }
  destruct (Z.eqb_spec (A mod 16) 0) as [EA|EA]; destruct (Z.eqb_spec (B mod 16) 15) as [EB|EB];
    cbn [negb rbind].
  - destruct (Hrec acc) as (rs & E & C). exists rs. split; [exact E|].
    intros v Hv. rewrite (C v Hv), <- (cover_arith A B (v / P) HA'B'). fold A' B'. tauto.
  - destruct (Hrec (acc ++ [upperPiece])) as (rs & E & C). exists ([upperPiece] ++ rs).
    split; [rewrite E, <- app_assoc; reflexivity|].
    intros v Hv. rewrite covered_app, covered_single, (C v Hv), (CU v Hv).
    rewrite <- (cover_arith A B (v / P) HA'B'). fold A' B'. tauto.
  - destruct (Hrec (acc ++ [lowerPiece])) as (rs & E & C). exists ([lowerPiece] ++ rs).
    split; [rewrite E, <- app_assoc; reflexivity|].
    intros v Hv. rewrite covered_app, covered_single, (C v Hv), (CL v Hv).
    rewrite <- (cover_arith A B (v / P) HA'B'). fold A' B'. tauto.
  - destruct (Hrec ((acc ++ [lowerPiece]) ++ [upperPiece])) as (rs & E & C).
    exists ([lowerPiece] ++ [upperPiece] ++ rs).
    split; [rewrite E, <- !app_assoc; reflexivity|].
    intros v Hv. rewrite (covered_app [lowerPiece]), (covered_app [upperPiece]), (covered_single lowerPiece), (covered_single upperPiece), (C v Hv), (CL v Hv), (CU v Hv).
    rewrite <- (cover_arith A B (v / P) HA'B'). fold A' B'. tauto.
Qed.

(* ---------- split_exact / split_fuel ---------- *)

Lemma split_exact_4 lo hi : in_int64 lo -> in_int64 hi ->
  exists rs, split_range lo hi 4 = Ok rs /\
             forall v, in_int64 v -> (covered rs v <-> lo <= v <= hi).
Proof.
  intros Hlo Hhi. unfold split_range. destruct (Z.ltb_spec hi lo) as [Hlt|Hle].
  - exists []. split; [reflexivity|]. intros v Hv. rewrite covered_nil. lia.
  - destruct (split_loop_spec 65 0 lo hi []) as (rs & E & C);
      try (unfold in_int64, min_int64, max_int64 in *; change (2 ^ (63 - 0)) with 9223372036854775808; lia);
      try reflexivity.
    rewrite Z.pow_0_r, !Z.mul_1_r in E. exists rs. split; [exact E|].
    intros v Hv. rewrite (C v Hv), Z.pow_0_r, Z.div_1_r. reflexivity.
Qed.

(* the full statement over the generated constants: query-time step and index-time step *)
Lemma split_exact_all lo hi : in_int64 lo -> in_int64 hi ->
  exists rs, split_range lo hi query_precision_step = Ok rs /\
    forall v, in_int64 v ->
      ((exists r, In r rs /\ exists t, In t (index_tokens v numeric_precision_step) /\ in_trange r t = true)
       <-> lo <= v <= hi).
Proof. exact (split_exact_4 lo hi). Qed.

(* more fuel does not change a finished run *)
Lemma split_loop_mono f : forall f' minB maxB s acc rs, (f <= f')%nat ->
  split_loop f minB maxB s 4 acc = Ok rs -> split_loop f' minB maxB s 4 acc = Ok rs.
Proof.
  induction f as [|f IH]; intros f' minB maxB s acc rs Hle E; [discriminate|].
  destruct f' as [|f']; [lia|]. rewrite split_loop_S in *.
  destruct (sl_exit minB maxB s); [exact E|].
  match goal with |- rbind ?X _ = _ => destruct X as [acc1|c|c|] end; cbn [rbind] in *; try discriminate.
  match goal with |- rbind ?X _ = _ => destruct X as [acc2|c|c|] end; cbn [rbind] in *; try discriminate.
  apply IH; [lia|exact E].
Qed.

(* fuel: 16 iterations are enough for step 4 (shifts 0, 4, ..., 60); the model's 65 never runs out,
   and newRange never panics (its shift stays <= 60) *)
Lemma split_fuel_all lo hi : in_int64 lo -> in_int64 hi ->
  split_range lo hi query_precision_step <> OutOfFuel /\
  (forall c, split_range lo hi query_precision_step <> Panic c) /\
  (lo <= hi -> split_loop 16 lo hi 0 query_precision_step [] = split_range lo hi query_precision_step).
Proof.
  intros Hlo Hhi. destruct (split_exact_4 lo hi Hlo Hhi) as (rs & E & _).
  unfold query_precision_step. rewrite E. repeat split; try discriminate.
  intros Hle. revert E. unfold split_range. destruct (Z.ltb_spec hi lo); [lia|]. intros E.
  destruct (split_loop_spec 16 0 lo hi []) as (rs1 & E1 & C1);
    try (unfold in_int64, min_int64, max_int64 in *; change (2 ^ (63 - 0)) with 9223372036854775808; lia);
    try reflexivity.
  rewrite Z.pow_0_r, !Z.mul_1_r in E1.
  rewrite (split_loop_mono 16 65 _ _ _ _ _ ltac:(lia) E1) in E. rewrite E1. exact E.
Qed.
