(* Search/BM25Corr.v — correspondence cases for the bm25 engine: each case carries the
   implementation's observed output (float64 values as bit patterns, explanation trees with
   their messages); check re-computes it with the model, bit for bit. *)
From Coq Require Import ZArith List Bool String Floats.
From Bluge Require Import Base.Int64 Base.Corr Gen.ParamsBM25 Search.BM25F Search.Explain.
Import ListNotations.
Open Scope Z_scope.

Definition stats := option (Z * Z).   (* Some (SumTotalTermFrequency, DocumentCount) | nil *)

Inductive bcase :=
(* BM25Similarity.Idf(n, N) = out; arg = the harness's evaluation of the pre-log argument; t = math.Log table *)
| CIdf (n N arg out : Z) (t : log_table)
(* BM25Similarity.AverageFieldLength(stats) *)
| CAvg (s : stats) (out : Z)
(* NewBM25SimilarityBK1(b,k1).Scorer(boost, stats, n).Score(freq, norm) *)
| CScore (k1 b boost : Z) (s : stats) (n : Z) (t : log_table) (freq norm out : Z)
(* … .Explain(freq, norm) *)
| CExplain (k1 b boost : Z) (s : stats) (n : Z) (t : log_table) (freq norm : Z) (tree : expl Z)
(* IdfExplainTerm(stats, n) *)
| CIdfExplain (s : stats) (n : Z) (t : log_table) (tree : expl Z)
(* ComputeNorm(numTerms) as float32 bits; dl = math.Float32bits(float32(float64(norm))) *)
| CNorm (num_terms f32bits dl : Z)
(* the default similarity's parameters as observed through an explanation: k1, b *)
| CDefaults (k1 b : Z)
(* CompositeSumScorer{boost}.ScoreComposite(scores) *)
| CComposite (boost : Z) (scores : list Z) (out : Z)
(* … .ExplainComposite(constituents (score, explanation)) *)
| CCompositeExplain (boost : Z) (parts : list (Z * expl Z)) (tree : expl Z)
(* ConstantScorer(c): Score, ScoreComposite, Explain, ExplainComposite *)
| CConstant (c score cscore : Z) (tree ctree : expl Z)
(* an explanation tree observed end to end, rebuilt from its leaves *)
| CTree (s : shape) (t : log_table) (tree : expl Z)
(* end to end: score of a term query hit without explanation, from the corpus statistics the
   harness knows (ground truth): stats, n = documents containing the term, freq, dl = field length *)
| CE2E (k1 b boost : Z) (s : stats) (n : Z) (t : log_table) (freq dl out : Z).

Fixpoint expl_of_bits (e : expl Z) : expl float :=
  match e with
  | ENode v m cs => ENode (f64_of_bits v) m (map expl_of_bits cs)
  end.

Definition mk_scorer (t : log_table) (k1 b boost : Z) (s : stats) (n : Z) :=
  g_scorer (ops_F t) (f64_of_bits k1) (f64_of_bits b) (f64_of_bits boost) s n.

Definition check (c : bcase) : bool :=
  match c with
  | CIdf n N arg out t => feqb (idf_arg_f n N) arg && feqb (idf_f t n N) out && feqb (g_idf (ops_F t) n N) out
  | CAvg s out => feqb (avg_field_length_f s) out && feqb (g_avgdl (ops_F []) s) out
  | CScore k1 b boost s n t freq norm out =>
      let sc := mk_scorer t k1 b boost s n in
      let dl := doc_len_of_norm (f64_of_bits norm) in
      feqb (g_score (ops_F t) sc freq dl) out &&
      feqb (score_f (weight_f (f64_of_bits boost) (idf_f t n (doc_count s))) (f64_of_bits k1) (f64_of_bits b) freq dl (avg_field_length_f s)) out
  | CExplain k1 b boost s n t freq norm tree =>
      let sc := mk_scorer t k1 b boost s n in
      expl_eqb (g_explain (ops_F t) sc freq (doc_len_of_norm (f64_of_bits norm))) tree
  | CIdfExplain s n t tree => expl_eqb (g_idf_explain (ops_F t) s n) tree
  | CNorm num_terms f32bits dl =>
      (compute_norm_bits num_terms =? f32bits) && (doc_len_of_norm (f64_of_f32bits f32bits) =? dl)
  | CDefaults k1 b => feqb default_k1_f k1 && feqb default_b_f b
  | CComposite boost scores out =>
      feqb (composite_score_f (f64_of_bits boost) (map f64_of_bits scores)) out &&
      feqb (g_composite_score (ops_F []) (f64_of_bits boost) (map f64_of_bits scores)) out
  | CCompositeExplain boost parts tree =>
      expl_eqb (g_explain_composite (ops_F []) (f64_of_bits boost)
                  (map (fun p => (f64_of_bits (fst p), expl_of_bits (snd p))) parts)) tree
  | CConstant c score cscore tree ctree =>
      (c =? score) && (c =? cscore) &&
      expl_eqb (g_explain_constant (f64_of_bits c)) tree && expl_eqb (g_explain_constant_composite (f64_of_bits c)) ctree
  | CTree s t tree => expl_eqb (build t s) tree
  | CE2E k1 b boost s n t freq dl out => feqb (g_score (ops_F t) (mk_scorer t k1 b boost s n) freq dl) out
  end.

Definition mismatches (l : list bcase) : list nat := failing check l.
