(* Search/NumericCorr.v — correspondence cases for the numeric engine: each case carries
   the implementation's observed output; check re-computes it with the model. *)
From Coq Require Import ZArith List Bool.
From Bluge Require Import Base.Int64 Base.Res Base.Corr Gen.ParamsNumeric Search.Numeric Search.NumericSource.
Import ListNotations.
Open Scope Z_scope.

Inductive ncase :=
| CF2I (bits out back : Z)
| CPrefix (v shift : Z) (out : option (list Z))
| CDecode (p : list Z) (out : option Z) (valid : bool) (vshift : Z)
| CIncr (p out : list Z)
| CTokens (v : Z) (out : list (list Z))
| CSplit (lo hi step : Z) (out : list (list Z * list Z))
| CRangeQ (loBits hiBits : Z) (il ih : bool) (docs : list Z) (out : list bool)
| CEnum (start endT : list Z) (dict : list (list Z)) (out : option (list (list Z)))
| CInterleave (a b x da db : Z)
(* kind 0 = datetime field (datetime_precision_step), 1 = geo point field (geo_precision_step) *)
| CTokensKind (kind : Z) (v : Z) (out : list (list Z))
(* DateRangeQuery end to end: end points as the float64 bit patterns handed to the numeric searcher
   (Int64ToFloat64 of the nanoseconds, or an infinity for an open end), document values in nanoseconds *)
| CDateQ (loBits hiBits : Z) (il ih : bool) (docs : list Z) (out : list bool)
(* a match-all search sorted on the numeric field: document values (bit patterns) in document
   order, and in the order returned (ascending, or descending when desc) *)
| CSort (desc : bool) (docs : list Z) (out : list Z).

(* insertion sort of byte strings (the harness sorts observed token sets bytewise) *)
Fixpoint insert_bytes (t : list Z) (l : list (list Z)) : list (list Z) :=
  match l with
  | [] => [t]
  | h :: r => if bytes_le t h then t :: l else h :: insert_bytes t r
  end.
Definition sort_bytes (l : list (list Z)) : list (list Z) := fold_right insert_bytes [] l.

(* insertion sort of values by their sort key (FieldSource.Value over the index tokens) *)
Fixpoint insert_keyed (x : Z) (k : list Z) (l : list (Z * list Z)) : list (Z * list Z) :=
  match l with
  | [] => [(x, k)]
  | (y, ky) :: r => if bytes_le k ky then (x, k) :: l else (y, ky) :: insert_keyed x k r
  end.
Definition sort_key (x : Z) : list Z :=
  match source_value (index_tokens (f2i x) numeric_precision_step) with Some k => k | None => [] end.
Definition sort_values (docs : list Z) : list Z :=
  map fst (fold_right (fun x acc => insert_keyed x (sort_key x) acc) [] docs).

Definition check (c : ncase) : bool :=
  match c with
  | CF2I bits out back => (f2i bits =? out) && (i2f out =? back)
  | CPrefix v shift out => option_eqb zlist_eqb (prefix_coded v shift) out
  | CDecode p out valid vshift =>
      option_eqb Z.eqb (pc_int64 p) out &&
      (let '(b, s) := valid_prefix_coded p in Bool.eqb b valid && (s =? vshift))
  | CIncr p out => zlist_eqb (increment_bytes p) out
  | CTokens v out => zzlist_eqb (sort_bytes (index_tokens v numeric_precision_step)) out
  | CSplit lo hi step out =>
      match split_range lo hi step with
      | Ok rs => list_eqb (pair_eqb zlist_eqb zlist_eqb) (map (fun r => (tr_start r, tr_end r)) rs) out
      | _ => false
      end
  | CRangeQ lo hi il ih docs out =>
      let vals := map f2i docs in
      let alltoks := flat_map (fun v => index_tokens v numeric_precision_step) vals in
      let dict := fun t => existsb (bytes_eqb t) alltoks in
      match numeric_range_terms lo hi il ih dict with
      | Ok terms => list_eqb Bool.eqb (map (doc_matches terms) vals) out
      | _ => false
      end
  | CEnum st en dict out =>
      match enumerate_range enum_fuel {| tr_start := st; tr_end := en |} (fun t => existsb (bytes_eqb t) dict), out with
      | Ok ts, Some o => zzlist_eqb ts o
      | OutOfFuel, None => true
      | _, _ => false
      end
  | CInterleave a b x da db =>
      (interleave a b =? x) && (deinterleave x =? da) && (deinterleave (Z.shiftr x 1) =? db)
  | CTokensKind kind v out =>
      let step := if kind =? 0 then datetime_precision_step else geo_precision_step in
      zzlist_eqb (sort_bytes (index_tokens v step)) out
  | CDateQ lo hi il ih docs out =>
      let toks := fun v => index_tokens v datetime_precision_step in
      let alltoks := flat_map toks docs in
      let dict := fun t => existsb (bytes_eqb t) alltoks in
      match numeric_range_terms lo hi il ih dict with
      | Ok terms => list_eqb Bool.eqb (map (fun v => existsb (fun t => existsb (bytes_eqb t) terms) (toks v)) docs) out
      | _ => false
      end
  | CSort desc docs out =>
      let sorted := sort_values docs in
      list_eqb Z.eqb (if desc then rev sorted else sorted) out &&
      forallb (fun x => list_eqb Z.eqb (source_numbers (index_tokens (f2i x) numeric_precision_step)) [x]) docs
  end.

Definition mismatches (l : list ncase) : list nat := failing check l.
