(* Search/NumericEnum.v — termRange.Enumerate / incrementBytes
   (search/searcher/search_numeric_range.go:88-118): on a range whose two terms have equal length the
   walk visits, in increasing order, every byte string of that length between them (bytes read as
   base-256 digits), keeping those the dictionary contains; it needs one step per such string. *)
From Coq Require Import ZArith List Bool Lia Sorted.
From Coq Require Import ZifyBool.
From Bluge Require Import Base.Int64 Base.NumBits Base.Res Gen.ParamsNumeric Search.Numeric Search.NumericPrefix.
Import ListNotations.
Open Scope Z_scope.

Definition wf_bytes (l : list Z) : Prop := digitsB 256 l.
Definition bval (l : list Z) : Z := valB 256 l.

(* ---------- incrementBytes = +1 modulo 256^len ---------- *)

Fixpoint valLE (r : list Z) : Z :=
  match r with
  | [] => 0
  | b :: t => b + 256 * valLE t
  end.

Lemma valB_rev r : valB 256 (rev r) = valLE r.
Proof.
  induction r as [|b t IH]; [reflexivity|].
  cbn [rev valLE]. rewrite valB_app by lia. rewrite IH. cbn [valB length].
  change (Z.of_nat 1) with 1. change (Z.of_nat 0) with 0. rewrite Z.pow_1_r, Z.pow_0_r. lia.
Qed.

Lemma valLE_bound r : digitsB 256 r -> 0 <= valLE r < 256 ^ Z.of_nat (length r).
Proof.
  induction 1 as [|b t Hb Ht IH]; cbn [valLE length].
  - rewrite Z.pow_0_r. lia.
  - rewrite Nat2Z.inj_succ, Z.pow_succ_r by lia. lia.
Qed.

Lemma incr_rev_spec r : digitsB 256 r ->
  digitsB 256 (incr_rev r) /\ length (incr_rev r) = length r /\
  valLE (incr_rev r) = (valLE r + 1) mod 256 ^ Z.of_nat (length r).
Proof.
  induction 1 as [|b t Hb Ht IH]; cbn [incr_rev valLE length].
  - split; [constructor|]. split; [reflexivity|]. rewrite Z.pow_0_r, Z.mod_1_r. reflexivity.
  - destruct IH as (D & L & V). pose proof (valLE_bound t Ht) as Bt.
    rewrite Nat2Z.inj_succ, Z.pow_succ_r by lia.
    assert (Hp : 0 < 256 ^ Z.of_nat (length t)) by (apply Z.pow_pos_nonneg; lia).
    destruct (Z.eqb_spec ((b + 1) mod 256) 0) as [E|E].
    + assert (b = 255) by (Z.div_mod_to_equations; lia). subst b.
      repeat split.
      * constructor; [rewrite E; lia|exact D].
      * cbn [length]. lia.
      * cbn [valLE]. rewrite E, V.
        replace (255 + 256 * valLE t + 1) with (256 * (valLE t + 1)) by ring.
        rewrite Z.mul_mod_distr_l by lia. lia.
    + assert (b < 255) by (Z.div_mod_to_equations; lia).
      rewrite (Z.mod_small (b + 1)) by lia.
      repeat split.
      * constructor; [lia|exact Ht].
      * cbn [valLE]. rewrite Z.mod_small; lia.
Qed.

Lemma digitsB_rev B l : digitsB B l -> digitsB B (rev l).
Proof. unfold digitsB. intros H. apply Forall_rev. exact H. Qed.

Lemma increment_bytes_spec l : wf_bytes l ->
  wf_bytes (increment_bytes l) /\ length (increment_bytes l) = length l /\
  bval (increment_bytes l) = (bval l + 1) mod 256 ^ Z.of_nat (length l).
Proof.
  intros Hl. unfold increment_bytes, wf_bytes, bval.
  destruct (incr_rev_spec (rev l) (digitsB_rev _ _ Hl)) as (D & L & V).
  repeat split.
  - apply digitsB_rev. exact D.
  - rewrite rev_length, L, rev_length. reflexivity.
  - rewrite valB_rev, V, rev_length. rewrite <- valB_rev, rev_involutive. reflexivity.
Qed.

(* ---------- comparing equal-length byte strings ---------- *)

Lemma bytes_le_val a b : wf_bytes a -> wf_bytes b -> length a = length b ->
  bytes_le a b = (bval a <=? bval b).
Proof.
  intros Ha Hb Hl. unfold bytes_le. rewrite (bytes_cmp_val 256) by (assumption || lia).
  fold (bval a) (bval b). unfold Z.leb. destruct (bval a ?= bval b); reflexivity.
Qed.

Lemma bytes_lt_val a b : wf_bytes a -> wf_bytes b -> length a = length b ->
  bytes_lt a b = (bval a <? bval b).
Proof.
  intros Ha Hb Hl. unfold bytes_lt. rewrite (bytes_cmp_val 256) by (assumption || lia).
  fold (bval a) (bval b). unfold Z.ltb. destruct (bval a ?= bval b); reflexivity.
Qed.

(* ---------- the n-byte big-endian string of a number ---------- *)

Fixpoint to_bytes (n : nat) (x : Z) : list Z :=
  match n with
  | O => []
  | S n' => to_bytes n' (x / 256) ++ [x mod 256]
  end.

Lemma to_bytes_length n : forall x, length (to_bytes n x) = n.
Proof. induction n as [|n IH]; intros x; [reflexivity|]. cbn [to_bytes]. rewrite app_length, IH. cbn. lia. Qed.

Lemma to_bytes_wf n : forall x, wf_bytes (to_bytes n x).
Proof.
  induction n as [|n IH]; intros x; [constructor|]. cbn [to_bytes]. apply Forall_app. split; [apply IH|].
  constructor; [|constructor]. apply Z.mod_pos_bound. lia.
Qed.

Lemma to_bytes_val n : forall x, bval (to_bytes n x) = x mod 256 ^ Z.of_nat n.
Proof.
  unfold bval. induction n as [|n IH]; intros x.
  - cbn. rewrite Z.mod_1_r. reflexivity.
  - cbn [to_bytes]. rewrite valB_app by lia. rewrite IH. cbn [valB length].
    change (Z.of_nat 1) with 1. change (Z.of_nat 0) with 0. rewrite Z.pow_1_r, Z.pow_0_r.
    rewrite (Nat2Z.inj_succ n), Z.pow_succ_r by lia.
    rewrite Z.rem_mul_r by (try apply Z.pow_pos_nonneg; lia). lia.
Qed.

Lemma to_bytes_of_val l : wf_bytes l -> to_bytes (length l) (bval l) = l.
Proof.
  intros Hl. apply (valB_inj 256); [lia | apply to_bytes_wf | exact Hl | apply to_bytes_length |].
  fold (bval (to_bytes (length l) (bval l))). rewrite to_bytes_val.
  apply Z.mod_small. apply valB_bound; [lia|exact Hl].
Qed.

(* ---------- integer intervals as lists ---------- *)

Definition zseq (a k : Z) : list Z := map (fun i => a + Z.of_nat i) (seq 0 (Z.to_nat k)).

Lemma zseq_nil a k : k <= 0 -> zseq a k = [].
Proof. intros H. unfold zseq. replace (Z.to_nat k) with 0%nat by lia. reflexivity. Qed.

Lemma zseq_cons a k : 0 < k -> zseq a k = a :: zseq (a + 1) (k - 1).
Proof.
  intros H. unfold zseq. replace (Z.to_nat k) with (S (Z.to_nat (k - 1))) by lia.
  cbn [seq map]. f_equal; [lia|]. rewrite <- seq_shift, map_map. apply map_ext. intros i. lia.
Qed.

Lemma in_zseq a k x : In x (zseq a k) <-> a <= x < a + k.
Proof.
  unfold zseq. rewrite in_map_iff. split.
  - intros (i & <- & Hi). apply in_seq in Hi. lia.
  - intros H. exists (Z.to_nat (x - a)). split; [lia|]. apply in_seq. lia.
Qed.

(* the candidate strings between two equal-length terms, in increasing order *)
Definition strings_between (st en : list Z) : list (list Z) :=
  map (to_bytes (length st)) (zseq (bval st) (bval en - bval st + 1)).

(* ---------- the loop ---------- *)

Section Enumerate.
  Variable dict : list Z -> bool.
  Variable en : list Z.
  Hypothesis Hen : wf_bytes en.

  (* when the end term is all 0xff the comparison never fails: the loop cannot finish *)
  Lemma enum_loop_never fuel : bval en = 256 ^ Z.of_nat (length en) - 1 ->
    forall next acc, wf_bytes next -> length next = length en ->
    enumerate_loop fuel next en dict acc = OutOfFuel.
  Proof.
    intros Hmax. induction fuel as [|f IH]; intros next acc Hn Hl; [reflexivity|].
    cbn [enumerate_loop]. rewrite bytes_le_val by assumption.
    pose proof (valB_bound 256 next ltac:(lia) Hn) as B. fold (bval next) in B. rewrite Hl in B.
    destruct (Z.leb_spec (bval next) (bval en)); [|lia].
    destruct (increment_bytes_spec next Hn) as (W & L & _).
    apply IH; [exact W | rewrite L; exact Hl].
  Qed.

  Lemma enum_loop_spec fuel : forall next acc ts, wf_bytes next -> length next = length en ->
    enumerate_loop fuel next en dict acc = Ok ts ->
    ts = acc ++ filter dict (strings_between next en) /\
    (bval next <= bval en -> bval en - bval next + 2 <= Z.of_nat fuel).
  Proof.
    induction fuel as [|f IH]; intros next acc ts Hn Hl E; [discriminate|].
    cbn [enumerate_loop] in E. rewrite bytes_le_val in E by assumption.
    unfold strings_between.
    destruct (Z.leb_spec (bval next) (bval en)) as [Hle|Hgt].
    - destruct (increment_bytes_spec next Hn) as (W & L & V).
      pose proof (valB_bound 256 next ltac:(lia) Hn) as B. fold (bval next) in B.
      pose proof (valB_bound 256 en ltac:(lia) Hen) as Be. fold (bval en) in Be. rewrite <- Hl in Be.
      destruct (Z.eq_dec (bval next + 1) (256 ^ Z.of_nat (length next))) as [Emax|Hlt].
      + (* next = end = 0xff..ff: the wrapped walk never ends *)
        rewrite (enum_loop_never f) in E; [discriminate | rewrite <- Hl; lia | exact W | rewrite L; exact Hl].
      + rewrite Z.mod_small in V by lia.
        destruct (IH _ _ _ W ltac:(rewrite L; exact Hl) E) as (Ets & Hf).
        rewrite zseq_cons by lia. cbn [map filter].
        rewrite to_bytes_of_val by exact Hn.
        unfold strings_between in Ets. rewrite L, V in Ets.
        replace (bval en - bval next + 1 - 1) with (bval en - (bval next + 1) + 1) by lia.
        assert (Hf1 : (1 <= f)%nat) by (destruct f; [discriminate E | lia]).
        rewrite V in Hf. split; [|lia].
        rewrite Ets. destruct (dict next); [rewrite <- app_assoc|]; reflexivity.
    - injection E as <-. rewrite zseq_nil by lia. cbn [map filter]. rewrite app_nil_r.
      split; [reflexivity|lia].
  Qed.
End Enumerate.

(* ---------- enumerate_spec ---------- *)

Lemma strings_between_in st en t : wf_bytes st -> wf_bytes en -> length st = length en ->
  (In t (strings_between st en) <->
   length t = length st /\ wf_bytes t /\ bytes_le st t = true /\ bytes_le t en = true).
Proof.
  intros Hs He Hl. unfold strings_between. rewrite in_map_iff. split.
  - intros (x & <- & Hx). apply in_zseq in Hx.
    pose proof (valB_bound 256 en ltac:(lia) He) as Be. fold (bval en) in Be. rewrite <- Hl in Be.
    pose proof (valB_bound 256 st ltac:(lia) Hs) as Bs. fold (bval st) in Bs.
    assert (V : bval (to_bytes (length st) x) = x) by (rewrite to_bytes_val; apply Z.mod_small; lia).
    repeat split.
    + apply to_bytes_length.
    + apply to_bytes_wf.
    + rewrite bytes_le_val by (try apply to_bytes_wf; try assumption; rewrite to_bytes_length; reflexivity).
      rewrite V. lia.
    + rewrite bytes_le_val by (try apply to_bytes_wf; try assumption; rewrite to_bytes_length; assumption).
      rewrite V. lia.
  - intros (Lt & Wt & H1 & H2).
    rewrite bytes_le_val in H1 by (assumption || (symmetry; assumption)).
    rewrite bytes_le_val in H2 by (assumption || congruence).
    exists (bval t). split.
    + rewrite <- Lt. apply to_bytes_of_val. exact Wt.
    + apply in_zseq. lia.
Qed.

Lemma strings_between_sorted st en : wf_bytes st -> wf_bytes en -> length st = length en ->
  StronglySorted (fun a b => bytes_lt a b = true) (strings_between st en).
Proof.
  intros Hs He Hl. unfold strings_between. set (n := length st).
  assert (G : forall k a, 0 <= a -> a + Z.of_nat k <= 256 ^ Z.of_nat n ->
            StronglySorted (fun a b => bytes_lt a b = true) (map (to_bytes n) (zseq a (Z.of_nat k)))).
  { induction k as [|k IH]; intros a Ha Hb.
    - cbn. constructor.
    - rewrite zseq_cons by lia. cbn [map].
      replace (Z.of_nat (S k) - 1) with (Z.of_nat k) by lia.
      constructor; [apply IH; lia|].
      apply Forall_forall. intros t Ht. apply in_map_iff in Ht. destruct Ht as (x & <- & Hx).
      apply in_zseq in Hx.
      rewrite bytes_lt_val by (try apply to_bytes_wf; rewrite !to_bytes_length; reflexivity).
      rewrite !to_bytes_val. rewrite !Z.mod_small by lia. lia. }
  pose proof (valB_bound 256 en ltac:(lia) He) as Be. fold (bval en) in Be. rewrite <- Hl in Be. fold n in Be.
  pose proof (valB_bound 256 st ltac:(lia) Hs) as Bs. fold (bval st) in Bs. fold n in Bs.
  destruct (Z_le_gt_dec (bval en - bval st + 1) 0) as [Hk|Hk].
  - rewrite zseq_nil by lia. constructor.
  - rewrite <- (Z2Nat.id (bval en - bval st + 1)) by lia. apply G; lia.
Qed.

Lemma sorted_filter {A} (R : A -> A -> Prop) (f : A -> bool) l :
  StronglySorted R l -> StronglySorted R (filter f l).
Proof.
  induction 1 as [|a l Hl IH Ha]; cbn [filter]; [constructor|].
  destruct (f a); [|exact IH]. constructor; [exact IH|].
  apply Forall_forall. intros x Hx. apply filter_In in Hx.
  rewrite Forall_forall in Ha. apply Ha. tauto.
Qed.

(* termRange.Enumerate on a range of two equal-length terms: exactly the dictionary terms among
   the strings between them, in increasing order; one loop step per candidate string *)
Lemma enumerate_spec_all fuel r dict ts :
  wf_bytes (tr_start r) -> wf_bytes (tr_end r) -> length (tr_start r) = length (tr_end r) ->
  enumerate_range fuel r dict = Ok ts ->
  ts = filter dict (strings_between (tr_start r) (tr_end r)) /\
  (forall t, In t ts <-> length t = length (tr_start r) /\ wf_bytes t /\
                         bytes_le (tr_start r) t = true /\ bytes_le t (tr_end r) = true /\ dict t = true) /\
  StronglySorted (fun a b => bytes_lt a b = true) ts /\
  (bval (tr_start r) <= bval (tr_end r) -> bval (tr_end r) - bval (tr_start r) + 2 <= Z.of_nat fuel).
Proof.
  intros Hs He Hl E. unfold enumerate_range in E.
  destruct (enum_loop_spec dict (tr_end r) He fuel _ _ _ Hs Hl E) as (Ets & Hf).
  cbn [app] in Ets. subst ts. split; [reflexivity|]. split; [|split].
  - intros t. rewrite filter_In, (strings_between_in _ _ _ Hs He Hl). tauto.
  - apply sorted_filter. apply strings_between_sorted; assumption.
  - exact Hf.
Qed.

(* every prefix-coded term is a well-formed byte string, and both ends of a split range have
   the same length: the hypothesis of enumerate_spec holds for all ranges of splitInt64Range *)
Lemma enc_wf v s : 0 <= s <= 63 -> wf_bytes (enc v s).
Proof.
  intros Hs. unfold enc, wf_bytes. constructor; [unfold shift_start_int64; lia|].
  eapply Forall_impl; [|apply digits7_digits]. cbn. intros a Ha. lia.
Qed.

(* known finding D8: the range [-1, 0] (= NumericRange[-0.0, +0.0]) is one shift-0 range whose terms
   differ in the second byte; Enumerate runs out of the harness's candidate budget ... *)
Lemma enumerate_blowup_witness :
  exists r, split_range (-1) 0 query_precision_step = Ok [r] /\
            enumerate_range enum_fuel r (fun _ => false) = OutOfFuel.
Proof. eexists. split; [vm_compute; reflexivity|]. vm_compute. reflexivity. Qed.

(* ... and by enumerate_spec any successful run needs more than 2^71 steps *)
Lemma enumerate_blowup_cost fuel dict ts r :
  split_range (-1) 0 query_precision_step = Ok [r] ->
  enumerate_range fuel r dict = Ok ts -> 2 ^ 71 < Z.of_nat fuel.
Proof.
  intros Hr E.
  assert (Er : r = {| tr_start := enc (-1) 0; tr_end := enc 0 0 |}).
  { revert Hr. vm_compute. intros H. injection H as <-. reflexivity. }
  subst r.
  destruct (enumerate_spec_all fuel {| tr_start := enc (-1) 0; tr_end := enc 0 0 |} dict ts) as (_ & _ & _ & Hf);
    [apply enc_wf; lia | apply enc_wf; lia | reflexivity | exact E |].
  cbn [tr_start tr_end] in Hf.
  assert (V : bval (enc 0 0) - bval (enc (-1) 0) = 2370442783558096420993) by (vm_compute; reflexivity).
  change (2 ^ 71) with 2361183241434822606848. lia.
Qed.
