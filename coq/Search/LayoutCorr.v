(* Search/LayoutCorr.v — correspondence cases of the `layout` engine (C08): a table of
   document versions, the observed layouts of every build of one corpus (segments as lists of
   table indices with their deleted local numbers), the index groups searched with MultiSearch,
   and queries with the single answer every build gave.  check: every layout has the logical
   content of the first one; the state machines (with the build's options) and the denotation
   give the observed ids on every layout; a MultiSearch group gives them by concatenation. *)
From Coq Require Import ZArith List Bool.
From Bluge Require Import Base.Res Base.Corr Search.Numeric Search.Postings Search.Searchers Search.Semantics
  Search.SearchCorr Search.Layout.
Import ListNotations.
Open Scope Z_scope.

Definition lay := list (list nat * list Z).

Definition doc_dflt : doc := {| d_id := -1; d_fields := [] |}.

Definition mk_sn (docs : list doc) (l : lay) : snapshot :=
  map (fun s => {| seg_docs := map (fun i => nth i docs doc_dflt) (fst s); seg_del := snd s |}) l.

Definition tf_eqb (a b : tf) : bool := zlist_eqb (tf_term a) (tf_term b) && zlist_eqb (tf_pos a) (tf_pos b).
Definition doc_eqb (a b : doc) : bool :=
  (d_id a =? d_id b) &&
  list_eqb (fun x y => (fst x =? fst y) && list_eqb tf_eqb (snd x) (snd y)) (d_fields a) (d_fields b).

Definition countb (d : doc) (l : list doc) : nat := length (filter (doc_eqb d) l).

(* multiset equality of the logical contents *)
Definition logical_eqb (a b : list doc) : bool :=
  Nat.eqb (length a) (length b) && forallb (fun d => Nat.eqb (countb d a) (countb d b)) a.

Definition ids_ok (r : res (list Z)) (obs : list Z) : bool :=
  match r with
  | Ok ids => zlist_eqb (zsort ids) obs
  | _ => false
  end.

Inductive lcase :=
| CLayouts (docs : list doc) (singles : list (copts * lay)) (multis : list (list lay)) (qs : list (query * list Z)).

Definition check (c : lcase) : bool :=
  match c with
  | CLayouts docs singles multis qs =>
      match singles with
      | [] => true
      | (_, l0) :: _ =>
          let sn0 := mk_sn docs l0 in
          let sns := map (fun x => (fst x, mk_sn docs (snd x))) singles in
          let groups := map (map (mk_sn docs)) multis in
          forallb (fun x => logical_eqb (logical sn0) (logical (snd x))) sns &&
          forallb (fun g => logical_eqb (logical sn0) (flat_map logical g)) groups &&
          forallb (fun qo =>
                     zlist_eqb (zsort (sem_ids (fst qo) sn0)) (snd qo) &&
                     forallb (fun x => ids_ok (answer (snd x) (fst x) (fst qo)) (snd qo)) sns &&
                     forallb (fun g => ids_ok (multi_answer g copts_default (fst qo)) (snd qo)) groups) qs
      end
  end.

Definition mismatches (l : list lcase) : list nat := failing check l.
