(* Search/SearchCorr.v — correspondence cases of the `search` engine (C07).
   CQuery: one corpus (layout as observed on the implementation: segments, deleted sets, the
     analysed terms and positions of every document as produced by the implementation's
     analysis) with a batch of queries; for each the ids returned by Reader.Search.  check
     recomputes them twice: with the searcher state machines (run) and with the denotation (sem).
   CScript: a query compiled to its searcher and driven by a script of Next / Advance calls
     directly; the observed sequence of internal numbers is recomputed step by step. *)
From Coq Require Import ZArith List Bool.
From Bluge Require Import Base.Res Base.Corr Search.Numeric Search.Postings Search.Searchers Search.Semantics.
Import ListNotations.
Open Scope Z_scope.

(* short constructor names for the generated terms *)
Definition T := Build_tf.
Definition D := Build_doc.
Definition SG := Build_segment.
Definition OPT := Build_copts.

Fixpoint zinsert (x : Z) (l : list Z) : list Z :=
  match l with
  | [] => [x]
  | h :: r => if x <=? h then x :: l else h :: zinsert x r
  end.
Definition zsort (l : list Z) : list Z := fold_right zinsert [] l.

Definition id_of_number (sn : snapshot) (n : Z) : Z :=
  match filter (fun p => fst p =? n) (live_docs sn) with
  | p :: _ => d_id (snd p)
  | [] => -1
  end.

Definition unmasked (mask : list Z) (l : list Z) : list Z := filter (fun x => negb (zmem x mask)) l.

(* one query observation: the query, the ids observed (ascending, with repetitions if any),
   ids excluded from the comparison (geo points inside the 1e-3 edge band) *)
Definition qobs := (query * list Z * list Z)%type.

Definition check_query (sn : snapshot) (o : copts) (x : qobs) : bool :=
  let '(q, obs, mask) := x in
  match run sn o q with
  | Ok nums =>
      zlist_eqb (unmasked mask (zsort (map (id_of_number sn) nums))) (unmasked mask obs) &&
      zlist_eqb (unmasked mask (zsort (sem_ids q sn))) (unmasked mask obs)
  | _ => false
  end.

(* only the state machines (used for inputs on which the implementation is known to deviate
   from the documented meaning: the model must reproduce the deviation) *)
Definition check_run_only (sn : snapshot) (o : copts) (x : qobs) : bool :=
  let '(q, obs, mask) := x in
  match run sn o q with
  | Ok nums => zlist_eqb (unmasked mask (zsort (map (id_of_number sn) nums))) (unmasked mask obs)
  | _ => false
  end.

(* only the denotation (queries whose term enumeration is too long to replay with vm_compute) *)
Definition check_sem_only (sn : snapshot) (o : copts) (x : qobs) : bool :=
  let '(q, obs, mask) := x in
  zlist_eqb (unmasked mask (zsort (sem_ids q sn))) (unmasked mask obs).

Definition sobs := (query * list op * list (option Z))%type.

Definition check_script (sn : snapshot) (o : copts) (x : sobs) : bool :=
  let '(q, ops, out) := x in
  match compile sn o q with
  | Ok s =>
      match run_script (loop_fuel sn (swidth s)) (depth_fuel q) s ops with
      | Ok res => list_eqb (option_eqb Z.eqb) res out
      | _ => false
      end
  | _ => false
  end.

(* one observation on a corpus *)
Inductive item :=
| IQuery (o : copts) (x : qobs)       (* Reader.Search: run and sem must both give the observed ids *)
| IRunOnly (o : copts) (x : qobs)     (* an input on which the implementation is known to deviate from sem *)
| ISemOnly (o : copts) (x : qobs)     (* term enumeration too long to replay *)
| IScript (o : copts) (x : sobs).     (* Next / Advance script on the query's searcher *)

Definition check_item (sn : snapshot) (i : item) : bool :=
  match i with
  | IQuery o x => check_query sn o x
  | IRunOnly o x => check_run_only sn o x
  | ISemOnly o x => check_sem_only sn o x
  | IScript o x => check_script sn o x
  end.

Inductive scase :=
| CCorpus (sn : snapshot) (items : list item).

Definition check (c : scase) : bool :=
  match c with
  | CCorpus sn items => forallb (check_item sn) items
  end.

Definition mismatches (l : list scase) : list nat := failing check l.

(* which items of a case disagree (used when reading a failure) *)
Definition failing_items (c : scase) : list nat :=
  match c with
  | CCorpus sn items => failing (check_item sn) items
  end.
