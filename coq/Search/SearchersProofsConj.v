(* Search/SearchersProofsConj.v — the conjunction searcher (search_conjunction.go) meets the
   iterator contract when its children do: leap-frog on maxIDIdx returns exactly the numbers
   every child matches, in increasing order; Advance n the least one at or above n.
   Invariant (DESIGN.md 3.5): every currs[i] is the head of child i's remainder; no number
   below any cursor (and at or above the watermark) is a match of the conjunction. *)
From Coq Require Import ZArith List Bool Lia Arith.
From Bluge Require Import Base.Res Search.Numeric Search.Postings Search.Searchers Search.SearchersProofsBase.
Import ListNotations.
Open Scope Z_scope.

(* the denotation of a conjunction of children with denotations Ss (none: nothing) *)
Definition conj_S (Ss : list (Z -> bool)) (x : Z) : bool :=
  match Ss with
  | [] => false
  | _ => forallb (fun s => s x) Ss
  end.

Inductive all3 {A B D} (P : A -> B -> D -> Prop) : list A -> list B -> list D -> Prop :=
| all3_nil : all3 P [] [] []
| all3_cons a b d la lb ld : P a b d -> all3 P la lb ld -> all3 P (a :: la) (b :: lb) (d :: ld).

Lemma all3_length {A B D} (P : A -> B -> D -> Prop) la lb ld :
  all3 P la lb ld -> length la = length lb /\ length lb = length ld.
Proof. induction 1; simpl; [auto|]. destruct IHall3. split; congruence. Qed.

Lemma all3_nth {A B D} (P : A -> B -> D -> Prop) la lb ld i a b d :
  all3 P la lb ld -> nth_error la i = Some a -> nth_error lb i = Some b -> nth_error ld i = Some d -> P a b d.
Proof.
  intros H. revert i. induction H; intros [| i] Ha Hb Hd; simpl in *; try discriminate.
  - congruence.
  - eapply IHall3; eauto.
Qed.

Lemma all3_set {A B D} (P : A -> B -> D -> Prop) la lb ld i a b d :
  all3 P la lb ld -> nth_error lb i = Some b -> P a b d -> all3 P (set_nth la i a) lb (set_nth ld i d).
Proof.
  intros H. revert i. induction H; intros [| i] Hb HP; simpl in *; try discriminate.
  - inversion Hb; subst. constructor; assumption.
  - constructor; [assumption|]. apply IHall3; assumption.
Qed.

Lemma all3_impl {A B D} (P Q : A -> B -> D -> Prop) la lb ld :
  (forall a b d, P a b d -> Q a b d) -> all3 P la lb ld -> all3 Q la lb ld.
Proof. intros HI H. induction H; constructor; auto. Qed.

Lemma all3_lookup_gen {A B D} (P : A -> B -> D -> Prop) : forall la lb ld i,
  all3 P la lb ld -> (i < length ld)%nat ->
  exists a b d, nth_error la i = Some a /\ nth_error lb i = Some b /\ nth_error ld i = Some d /\ P a b d.
Proof.
  intros la lb ld i H. revert i. induction H; intros i Hi; simpl in *; [lia|].
  destruct i as [| i]; simpl.
  - exists a, b, d. split; [reflexivity|split; [reflexivity|split; [reflexivity|assumption]]].
  - apply IHall3. lia.
Qed.

Section Conj.
  Variable C : Type.
  Variable cnext : C -> res (option dmatch * C).
  Variable cadv : C -> Z -> res (option dmatch * C).
  Variable CInv CFin : C -> (Z -> bool) -> Z -> Prop.
  Hypothesis Hct : contract cnext cadv CInv CFin.
  Variable CNew : C -> (Z -> bool) -> Prop.
  Hypothesis Hnew : new_exact cnext CInv CFin CNew.
  Variable N : Z.    (* every denotation lives in [0, N) *)
  Variable Ss0 : list (Z -> bool).   (* the children's denotations *)

  Definition bounded (S : Z -> bool) : Prop := forall x, S x = true -> 0 <= x < N.

  (* child i with denotation S and current match cur *)
  Definition child_ok (c : C) (S : Z -> bool) (cur : option dmatch) : Prop :=
    bounded S /\
    match cur with
    | Some m => S (dm_num m) = true /\ CInv c S (dm_num m + 1)
    | None => exists lo', CFin c S lo'
    end.

  (* no match of the conjunction at or above lo lies below a cursor; a finished child ends it *)
  Definition gap_ok (Ss : list (Z -> bool)) (currs : list (option dmatch)) (lo : Z) : Prop :=
    (forall i m x, nth_error currs i = Some (Some m) -> lo <= x < dm_num m -> conj_S Ss x = false) /\
    (forall i, nth_error currs i = Some None -> none_from (conj_S Ss) lo).

  Definition cursors_from (currs : list (option dmatch)) (lo : Z) : Prop :=
    forall i m, nth_error currs i = Some (Some m) -> lo <= dm_num m.

  (* a finished child was finished at or below lo *)
  Definition fins_below (cs : list C) (Ss : list (Z -> bool)) (currs : list (option dmatch)) (lo : Z) : Prop :=
    forall i c S, nth_error cs i = Some c -> nth_error Ss i = Some S -> nth_error currs i = Some None ->
                  exists lo', lo' <= lo /\ CFin c S lo'.

  Lemma conj_S_false_of_child Ss i S x : nth_error Ss i = Some S -> S x = false -> conj_S Ss x = false.
  Proof.
    intros Hn Hx. unfold conj_S. destruct Ss as [| s0 r]; [reflexivity|].
    apply not_true_is_false. intros HT. rewrite forallb_forall in HT.
    assert (In S (s0 :: r)) by (eapply nth_error_In; eauto).
    specialize (HT S H). congruence.
  Qed.

  Lemma conj_S_true Ss x : Ss <> [] -> (forall i S, nth_error Ss i = Some S -> S x = true) -> conj_S Ss x = true.
  Proof.
    intros Hne H. unfold conj_S. destruct Ss as [| s0 r]; [congruence|].
    apply forallb_forall. intros S HIn. apply In_nth_error in HIn. destruct HIn as [i Hi]. eapply H; eauto.
  Qed.

  (* ---------- next_all: every child steps once ---------- *)

  (* after a match at d every child is exact from d+1; stepping all of them re-establishes the invariant at d+1 *)
  Lemma next_all_gen : forall (P : C -> (Z -> bool) -> Prop) d,
    (forall c S, P c S -> exists r c', cnext c = Ok (r, c') /\ exact_post CInv CFin S (d + 1) r c') ->
    forall cs Ss,
    length cs = length Ss ->
    (forall i c S, nth_error cs i = Some c -> nth_error Ss i = Some S -> bounded S /\ P c S) ->
    exists currs cs', next_all C cnext cs = Ok (currs, cs') /\
      all3 child_ok cs' Ss currs /\
      (forall i m S x, nth_error currs i = Some (Some m) -> nth_error Ss i = Some S -> d + 1 <= x < dm_num m -> S x = false) /\
      (forall i S, nth_error currs i = Some None -> nth_error Ss i = Some S -> none_from S (d + 1)) /\
      (forall i m, nth_error currs i = Some (Some m) -> d + 1 <= dm_num m) /\
      (forall i c S, nth_error cs' i = Some c -> nth_error Ss i = Some S -> nth_error currs i = Some None -> CFin c S (d + 1)).
  Proof.
    intros P d HP. induction cs as [| c cs IH]; intros Ss Hlen Hall.
    - destruct Ss; [|discriminate]. exists [], []. simpl. split; [reflexivity|].
      split; [constructor|]. repeat split; intros [| i]; simpl; intros; discriminate.
    - destruct Ss as [| S Ss]; [discriminate|]. simpl in Hlen.
      destruct (Hall O c S eq_refl eq_refl) as [HB HI].
      destruct (HP c S HI) as [r [c' [E Hpost]]].
      destruct (IH Ss) as [currs [cs' [E2 [H3 [Hgap [Hnone [Hfrom Hfin]]]]]]].
      { lia. }
      { intros i c0 S0 Hc HS. apply (Hall (Datatypes.S i) c0 S0); assumption. }
      exists (r :: currs), (c' :: cs'). simpl. rewrite E. simpl. rewrite E2. simpl.
      split; [reflexivity|].
      split.
      { constructor; [|exact H3]. split; [exact HB|].
        destruct r as [m|]; simpl in Hpost.
        - destruct Hpost as [[Hm _] HI']. split; assumption.
        - destruct Hpost as [_ HF]. eexists; exact HF. }
      repeat split.
      + intros [| i] m S0 x Hc HS Hx; simpl in *.
        * inversion Hc; subst. inversion HS; subst. simpl in Hpost. destruct Hpost as [[_ [_ Hl]] _]. apply Hl. exact Hx.
        * eapply Hgap; eauto.
      + intros [| i] S0 Hc HS; simpl in *.
        * inversion Hc; subst. inversion HS; subst. simpl in Hpost. apply Hpost.
        * eapply Hnone; eauto.
      + intros [| i] m Hc; simpl in *.
        * inversion Hc; subst. simpl in Hpost. destruct Hpost as [[_ [Hl _]] _]. exact Hl.
        * eapply Hfrom; eauto.
      + intros [| i] c0 S0 Hc HS Hn; simpl in *.
        * inversion Hc; subst. inversion HS; subst. inversion Hn; subst. simpl in Hpost. apply Hpost.
        * eapply Hfin; eauto.
  Qed.

  Lemma next_all_spec : forall cs Ss d,
    length cs = length Ss ->
    (forall i c S, nth_error cs i = Some c -> nth_error Ss i = Some S -> bounded S /\ CInv c S (d + 1)) ->
    exists currs cs', next_all C cnext cs = Ok (currs, cs') /\
      all3 child_ok cs' Ss currs /\
      (forall i m S x, nth_error currs i = Some (Some m) -> nth_error Ss i = Some S -> d + 1 <= x < dm_num m -> S x = false) /\
      (forall i S, nth_error currs i = Some None -> nth_error Ss i = Some S -> none_from S (d + 1)) /\
      (forall i m, nth_error currs i = Some (Some m) -> d + 1 <= dm_num m) /\
      (forall i c S, nth_error cs' i = Some c -> nth_error Ss i = Some S -> nth_error currs i = Some None -> CFin c S (d + 1)).
  Proof.
    intros cs Ss d. apply (next_all_gen (fun c S => CInv c S (d + 1)) d).
    intros c S HI. exact (ct_next _ _ _ _ _ Hct c S (d + 1) HI).
  Qed.

  Lemma next_all_new : forall cs Ss,
    length cs = length Ss ->
    (forall i c S, nth_error cs i = Some c -> nth_error Ss i = Some S -> bounded S /\ CNew c S) ->
    exists currs cs', next_all C cnext cs = Ok (currs, cs') /\
      all3 child_ok cs' Ss currs /\
      (forall i m S x, nth_error currs i = Some (Some m) -> nth_error Ss i = Some S -> -1 + 1 <= x < dm_num m -> S x = false) /\
      (forall i S, nth_error currs i = Some None -> nth_error Ss i = Some S -> none_from S (-1 + 1)) /\
      (forall i m, nth_error currs i = Some (Some m) -> -1 + 1 <= dm_num m) /\
      (forall i c S, nth_error cs' i = Some c -> nth_error Ss i = Some S -> nth_error currs i = Some None -> CFin c S (-1 + 1)).
  Proof.
    intros cs Ss. apply (next_all_gen CNew (-1)). intros c S HI. exact (Hnew c S HI).
  Qed.

  (* ---------- advancing one child to a target ---------- *)

  Lemma all3_lookup : forall cs Ss currs i,
    all3 child_ok cs Ss currs -> (i < length currs)%nat ->
    exists c S cur, nth_error cs i = Some c /\ nth_error Ss i = Some S /\ nth_error currs i = Some cur /\ child_ok c S cur.
  Proof.
    intros cs Ss currs i H. revert i. induction H; intros i Hi; simpl in *; [lia|].
    destruct i as [| i]; simpl.
    - exists a, b, d. split; [reflexivity|split; [reflexivity|split; [reflexivity|assumption]]].
    - apply IHall3. lia.
  Qed.

  (* child i sits at cursor m below the target n, and the conjunction has no match in [lo, n) *)
  Lemma cursors_from_set : forall currs i r lo,
    cursors_from currs lo -> match r with Some m' => lo <= dm_num m' | None => True end ->
    cursors_from (set_nth currs i r) lo.
  Proof.
    intros currs i r lo Hf Hr j mj Hj.
    destruct (Nat.eq_dec i j) as [<-|Hne].
    - destruct (le_lt_dec (length currs) i) as [Hge|Hlt].
      + assert (nth_error (set_nth currs i r) i = None) by (apply nth_error_None; rewrite set_nth_length; lia). congruence.
      + rewrite nth_error_set_nth_eq in Hj by exact Hlt. inversion Hj; subst r. exact Hr.
    - rewrite nth_error_set_nth_neq in Hj by exact Hne. eapply Hf; eauto.
  Qed.

  Lemma adv_child_spec : forall cs Ss currs i m n lo,
    all3 child_ok cs Ss currs -> gap_ok Ss currs lo ->
    nth_error currs i = Some (Some m) -> dm_num m < n -> lo <= n ->
    (forall x, lo <= x < n -> conj_S Ss x = false) ->
    exists cs' r, adv_child C cadv cs currs i n = Ok (cs', set_nth currs i r) /\
      all3 child_ok cs' Ss (set_nth currs i r) /\ gap_ok Ss (set_nth currs i r) lo /\
      match r with Some m' => n <= dm_num m' < N | None => True end /\
      (forall j, j <> i -> nth_error cs' j = nth_error cs j) /\
      (forall c' S, nth_error cs' i = Some c' -> nth_error Ss i = Some S -> r = None -> CFin c' S n).
  Proof.
    intros cs Ss currs i m n lo H3 [Hg1 Hg2] Hi Hlt Hlo Hnone.
    destruct (all3_lookup cs Ss currs i H3 (nth_error_Some_lt _ _ _ Hi)) as [c [S [cur [Hc [HS [Hcur Hok]]]]]].
    rewrite Hi in Hcur. inversion Hcur; subst cur. destruct Hok as [HB [Hm HI]].
    destruct (ct_adv _ _ _ _ _ Hct c S (dm_num m + 1) n HI ltac:(lia)) as [r [c' [E Hpost]]].
    exists (set_nth cs i c'), r. unfold adv_child. rewrite Hc. simpl. rewrite E. simpl.
    split; [reflexivity|].
    assert (Hok' : child_ok c' S r).
    { split; [exact HB|]. destruct r as [m'|]; simpl in Hpost.
      - destruct Hpost as [[A _] B]. split; assumption.
      - destruct Hpost as [_ B]. eexists; exact B. }
    split; [eapply all3_set; eauto|].
    assert (Hlen : (i < length currs)%nat) by (eapply nth_error_Some_lt; eauto).
    split.
    - split.
      + intros j mj x Hj Hx. destruct (Nat.eq_dec i j) as [<-|Hne].
        * rewrite nth_error_set_nth_eq in Hj by exact Hlen. inversion Hj; subst r. simpl in Hpost.
          destruct Hpost as [[_ [_ Hl]] _].
          destruct (Z_lt_ge_dec x n) as [Hxn|Hxn]; [apply Hnone; lia|].
          eapply conj_S_false_of_child; [exact HS|]. apply Hl. lia.
        * rewrite nth_error_set_nth_neq in Hj by exact Hne. eapply Hg1; eauto.
      + intros j Hj. destruct (Nat.eq_dec i j) as [<-|Hne].
        * rewrite nth_error_set_nth_eq in Hj by exact Hlen. inversion Hj; subst r. simpl in Hpost.
          destruct Hpost as [Hn _]. intros x Hx.
          destruct (Z_lt_ge_dec x n) as [Hxn|Hxn]; [apply Hnone; lia|].
          eapply conj_S_false_of_child; [exact HS|]. apply Hn. lia.
        * rewrite nth_error_set_nth_neq in Hj by exact Hne. eapply Hg2; eauto.
    - split; [|split].
      + destruct r as [m'|]; [|exact I]. simpl in Hpost. destruct Hpost as [[A [B0 _]] _].
        specialize (HB _ A). lia.
      + intros j Hj. apply nth_error_set_nth_neq. congruence.
      + intros c2 S2 Hc2 HS2 ->. simpl in Hpost.
        assert (Hlc : (i < length cs)%nat) by (eapply nth_error_Some_lt; eauto).
        rewrite nth_error_set_nth_eq in Hc2 by exact Hlc. inversion Hc2; subst c2.
        rewrite HS in HS2. inversion HS2; subst S2. apply Hpost.
  Qed.

  (* ---------- the termination measure ---------- *)

  Definition slack (cur : option dmatch) : nat :=
    match cur with Some m => Z.to_nat (N - dm_num m) | None => O end.
  Definition total_slack (currs : list (option dmatch)) : nat := fold_right (fun c a => (slack c + a)%nat) O currs.

  Lemma total_slack_set : forall currs i old r,
    nth_error currs i = Some old ->
    (total_slack (set_nth currs i r) + slack old = total_slack currs + slack r)%nat.
  Proof.
    induction currs as [| c currs IH]; intros [| i] old r H; simpl in *; try discriminate.
    - inversion H; subst. lia.
    - specialize (IH i old r H). lia.
  Qed.

  (* ---------- advancing the children [x, x+cnt) to a target ---------- *)

  Lemma adv_range_spec : forall cnt x cs currs n lo,
    all3 child_ok cs Ss0 currs -> gap_ok Ss0 currs lo -> cursors_from currs lo -> lo <= n ->
    (forall x', lo <= x' < n -> conj_S Ss0 x' = false) ->
    (forall j, (x <= j < x + cnt)%nat -> exists m, nth_error currs j = Some (Some m) /\ dm_num m < n) ->
    exists cs' currs', adv_range C cadv cnt x cs currs n = Ok (cs', currs') /\
      all3 child_ok cs' Ss0 currs' /\ gap_ok Ss0 currs' lo /\ cursors_from currs' lo /\
      (total_slack currs' <= total_slack currs)%nat /\ length currs' = length currs /\
      (forall j, ~ (x <= j < x + cnt)%nat -> nth_error currs' j = nth_error currs j).
  Proof.
    induction cnt as [| cnt IH]; intros x cs currs n lo H3 Hg Hf Hlo Hnone Hpre.
    - exists cs, currs. simpl. split; [reflexivity|]. split; [exact H3|]. split; [exact Hg|]. split; [exact Hf|].
      split; [lia|]. split; [reflexivity|]. intros; reflexivity.
    - destruct (Hpre x ltac:(lia)) as [m [Hx Hm]].
      destruct (adv_child_spec cs Ss0 currs x m n lo H3 Hg Hx Hm Hlo Hnone) as [cs1 [r [E [H31 [Hg1 [Hr _]]]]]].
      assert (Hf1 : cursors_from (set_nth currs x r) lo).
      { apply cursors_from_set; [exact Hf|]. destruct r; [lia|exact I]. }
      assert (Hlen : (x < length currs)%nat) by (eapply nth_error_Some_lt; eauto).
      destruct (IH (S x) cs1 (set_nth currs x r) n lo H31 Hg1 Hf1 Hlo Hnone) as [cs2 [currs2 [E2 [H32 [Hg2 [Hf2 [Hs2 [Hl2 Hun2]]]]]]]].
      { intros j Hj. destruct (Hpre j ltac:(lia)) as [mj [Hj1 Hj2]]. exists mj.
        rewrite nth_error_set_nth_neq by lia. split; assumption. }
      exists cs2, currs2. simpl. rewrite E. simpl. rewrite E2.
      split; [reflexivity|]. split; [exact H32|]. split; [exact Hg2|]. split; [exact Hf2|].
      split.
      { pose proof (total_slack_set currs x (Some m) r Hx) as HT.
        assert (slack r <= slack (Some m))%nat.
        { destruct r as [m'|]; simpl; [|lia]. apply Z2Nat.inj_le; lia. }
        lia. }
      split; [rewrite Hl2; apply set_nth_length|].
      intros j Hj. rewrite Hun2 by lia. apply nth_error_set_nth_neq. lia.
  Qed.

  (* ---------- the leap-frog loop ---------- *)

  Definition phase (len : nat) (oi : option nat) : nat :=
    match oi with None => (len + 2)%nat | Some i => (len + 1 - i)%nat end.

  Definition mu (currs : list (option dmatch)) (mx : nat) (oi : option nat) : nat :=
    ((length currs + 2) * (total_slack currs + slack (nth mx currs None)) + phase (length currs) oi)%nat.

  Definition loop_state_ok (currs : list (option dmatch)) (mx : nat) (oi : option nat) : Prop :=
    match oi with
    | None => True
    | Some i => (i <= length currs)%nat /\
                exists m, nth_error currs mx = Some (Some m) /\
                          forall j, (j < i)%nat -> exists c, nth_error currs j = Some (Some c) /\ dm_num c = dm_num m
    end.

  Definition conj_post (lo : Z) (r : option dmatch) (cs : list C) (currs : list (option dmatch)) (mx : nat) : Prop :=
    match r with
    | Some rv =>
        least_from (conj_S Ss0) lo (dm_num rv) /\
        all3 child_ok cs Ss0 currs /\ gap_ok Ss0 currs (dm_num rv + 1) /\
        cursors_from currs (dm_num rv + 1) /\ fins_below cs Ss0 currs (dm_num rv + 1) /\
        ((mx < length currs)%nat \/ currs = [])
    | None => none_from (conj_S Ss0) lo /\ all3 child_ok cs Ss0 currs
    end.

  Lemma nth_nth_error {A} (l : list A) i d x : nth_error l i = Some x -> nth i l d = x.
  Proof. revert i. induction l as [| a l IH]; intros [| i] H; simpl in *; try discriminate; [congruence|auto]. Qed.

  Lemma somes_all : forall currs m,
    (forall j, (j < length currs)%nat -> exists c, nth_error currs j = Some (Some c) /\ dm_num c = m) ->
    currs <> [] -> exists c0 r, somes currs = c0 :: r /\ dm_num c0 = m.
  Proof.
    intros [| [c|] currs] m H Hne; [congruence| |].
    - simpl. destruct (H O ltac:(simpl; lia)) as [c' [E1 E2]]. simpl in E1. inversion E1; subst. eauto.
    - destruct (H O ltac:(simpl; lia)) as [c' [E1 _]]. simpl in E1. discriminate.
  Qed.

  Lemma conj_loop_spec : forall fuel cs currs mx oi lo,
    all3 child_ok cs Ss0 currs -> gap_ok Ss0 currs lo -> cursors_from currs lo ->
    loop_state_ok currs mx oi -> ((mx < length currs)%nat \/ currs = []) ->
    (mu currs mx oi < fuel)%nat ->
    exists r cs' currs' mx', conj_loop C cnext cadv fuel cs currs mx oi = Ok (r, (cs', currs', mx')) /\
                             conj_post lo r cs' currs' mx'.
  Proof.
    induction fuel as [| fuel IH]; intros cs currs mx oi lo H3 Hg Hf Hst Hmx Hmu; [lia|].
    destruct (all3_length _ _ _ _ H3) as [Hl1 Hl2].
    destruct oi as [i|]; simpl.
    - (* inside the inner loop at index i *)
      destruct Hst as [Hi [m [Hm Heq]]]. rewrite Hm.
      assert (Hmxlt : (mx < length currs)%nat) by (eapply nth_error_Some_lt; eauto).
      destruct (nth_error currs i) as [[c|]|] eqn:Ei.
      + (* a cursor at i *)
        assert (Hilt : (i < length currs)%nat) by (eapply nth_error_Some_lt; eauto).
        destruct (Nat.eqb i mx) eqn:Eim.
        { apply Nat.eqb_eq in Eim. subst i.
          apply IH; auto.
          - split; [lia|]. exists m. split; [exact Hm|]. intros j Hj.
            destruct (Nat.eq_dec j mx) as [->|Hne]; [exists m; auto|]. apply Heq. lia.
          - unfold mu, phase in *. lia. }
        destruct (dm_num m =? dm_num c) eqn:Eeq.
        { apply Z.eqb_eq in Eeq. apply IH; auto.
          - split; [lia|]. exists m. split; [exact Hm|]. intros j Hj.
            destruct (Nat.eq_dec j i) as [->|Hne]; [exists c; split; [exact Ei|lia]|]. apply Heq. lia.
          - unfold mu, phase in *. lia. }
        apply Z.eqb_neq in Eeq. apply Nat.eqb_neq in Eim.
        destruct (dm_num m <? dm_num c) eqn:Elt.
        { (* a new maximum at i: advance [0, i) to it and restart *)
          apply Z.ltb_lt in Elt.
          assert (HcN : dm_num c < N).
          { destruct (all3_lookup cs Ss0 currs i H3 Hilt) as [c0 [S0 [cur [_ [_ [Hcur [HB Hok]]]]]]].
            rewrite Ei in Hcur. inversion Hcur; subst cur. destruct Hok as [HS _]. apply HB in HS. lia. }
          destruct (adv_range_spec i O cs currs (dm_num c) lo H3 Hg Hf) as [cs1 [currs1 [E [H31 [Hg1 [Hf1 [Hs1 [Hlen1 Hun1]]]]]]]].
          { exact (Hf i c Ei). }
          { intros x Hx. destruct Hg as [Hg1 _]. exact (Hg1 i c x Ei Hx). }
          { intros j Hj. destruct (Heq j ltac:(lia)) as [cj [Hcj Hnum]]. exists cj. split; [exact Hcj|lia]. }
          rewrite E. simpl.
          assert (Hci : nth_error currs1 i = Some (Some c)) by (rewrite Hun1 by lia; exact Ei).
          apply IH; auto.
          - exact I.
          - left. lia.
          - unfold mu in *. rewrite Hlen1.
            rewrite (nth_nth_error currs1 i None _ Hci). rewrite (nth_nth_error currs mx None _ Hm) in Hmu.
            simpl slack in *. unfold phase in *.
            assert (Z.to_nat (N - dm_num c) < Z.to_nat (N - dm_num m))%nat by (apply Z2Nat.inj_lt; lia).
            nia. }
        { (* the cursor at i trails the maximum: advance it, look at it again *)
          apply Z.ltb_ge in Elt. assert (Hcm : dm_num c < dm_num m) by lia.
          assert (HmN : dm_num m < N).
          { destruct (all3_lookup cs Ss0 currs mx H3 Hmxlt) as [c0 [S0 [cur [_ [_ [Hcur [HB Hok]]]]]]].
            rewrite Hm in Hcur. inversion Hcur; subst cur. destruct Hok as [HS _]. apply HB in HS. lia. }
          destruct (adv_child_spec cs Ss0 currs i c (dm_num m) lo H3 Hg Ei Hcm) as [cs1 [r [E [H31 [Hg1 [Hr _]]]]]].
          { exact (Hf mx m Hm). }
          { intros x Hx. destruct Hg as [Hg1 _]. exact (Hg1 mx m x Hm Hx). }
          assert (Hf1 : cursors_from (set_nth currs i r) lo).
          { apply cursors_from_set; [exact Hf|]. pose proof (Hf mx m Hm). destruct r; [lia|exact I]. }
          rewrite E. simpl.
          apply IH; auto.
          - split; [rewrite set_nth_length; lia|]. exists m. split.
            + rewrite nth_error_set_nth_neq by lia. exact Hm.
            + intros j Hj. rewrite nth_error_set_nth_neq by lia. apply Heq. exact Hj.
          - left. rewrite set_nth_length. exact Hmxlt.
          - unfold mu in *. rewrite set_nth_length.
            pose proof (total_slack_set currs i (Some c) r Ei) as HT.
            assert (Hnth : nth mx (set_nth currs i r) None = nth mx currs None).
            { erewrite (nth_nth_error (set_nth currs i r) mx None); [|rewrite nth_error_set_nth_neq by lia; exact Hm].
              symmetry. eapply nth_nth_error; eauto. }
            rewrite Hnth.
            assert (slack r < slack (Some c))%nat.
            { destruct r as [m'|]; simpl.
              - apply Z2Nat.inj_lt; lia.
              - assert (0 < Z.to_nat (N - dm_num c))%nat by (apply Z2Nat.inj_lt with (n := 0); lia). lia. }
            unfold phase in *. nia. }
      + (* a finished child at i *)
        do 4 eexists. split; [reflexivity|]. simpl. split; [|exact H3].
        destruct Hg as [_ Hg2]. eapply Hg2; eauto.
      + (* i = len: every cursor equals the maximum: a match *)
        assert (Hilen : i = length currs).
        { apply nth_error_None in Ei. lia. }
        subst i.
        destruct (somes_all currs (dm_num m)) as [c0 [rs [Es Ec0]]].
        { intros j Hj. apply Heq. exact Hj. }
        { intros ->. simpl in Hmxlt. lia. }
        rewrite Es. cbn [build_match].
        destruct (next_all_spec cs Ss0 (dm_num m)) as [currs1 [cs1 [E [H31 [Hgap [Hnone [Hfrom Hfin]]]]]]].
        { lia. }
        { intros j cj Sj Hcj HSj.
          assert (Hj : (j < length currs)%nat) by (apply nth_error_Some_lt in Hcj; lia).
          destruct (Heq j Hj) as [curj [Hcurj Hnum]].
          pose proof (all3_nth _ _ _ _ _ _ _ _ H3 Hcj HSj Hcurj) as [HB [_ HI]].
          rewrite Hnum in HI. split; assumption. }
        rewrite E. simpl. do 4 eexists. split; [reflexivity|]. simpl. rewrite Ec0.
        split.
        { (* least_from *)
          split; [|split].
          - apply conj_S_true.
            + intros ->. simpl in Hl2. destruct currs; [simpl in Hmxlt; lia|discriminate].
            + intros j Sj HSj.
              assert (Hj : (j < length currs)%nat) by (apply nth_error_Some_lt in HSj; lia).
              destruct (Heq j Hj) as [curj [Hcurj Hnum]].
              destruct (nth_error cs j) as [cj|] eqn:Hcj; [|apply nth_error_None in Hcj; lia].
              pose proof (all3_nth _ _ _ _ _ _ _ _ H3 Hcj HSj Hcurj) as [_ [HS _]]. rewrite <- Hnum. exact HS.
          - eapply Hf; eauto.
          - intros x Hx. destruct Hg as [Hg1 _]. eapply Hg1; eauto. }
        split; [exact H31|].
        destruct (all3_length _ _ _ _ H31) as [Hl11 Hl12].
        split; [|split].
        { split.
          - intros j mj x Hj Hx.
            destruct (nth_error Ss0 j) as [Sj|] eqn:HSj; [|apply nth_error_None in HSj; apply nth_error_Some_lt in Hj; lia].
            eapply conj_S_false_of_child; [exact HSj|]. eapply Hgap; eauto.
          - intros j Hj x Hx.
            destruct (nth_error Ss0 j) as [Sj|] eqn:HSj; [|apply nth_error_None in HSj; apply nth_error_Some_lt in Hj; lia].
            eapply conj_S_false_of_child; [exact HSj|]. eapply Hnone; eauto. }
        { exact Hfrom. }
        split.
        { intros j cj Sj Hcj HSj Hnj. exists (dm_num m + 1). split; [lia|]. eapply Hfin; eauto. }
        { left. lia. }
    - (* the head of OUTER *)
      destruct (nth_error currs mx) as [[m|]|] eqn:Em.
      + apply IH; auto.
        * split; [lia|]. exists m. split; [exact Em|]. intros j Hj. lia.
        * unfold mu, phase in *. lia.
      + do 4 eexists. split; [reflexivity|]. simpl. split; [|exact H3].
        destruct Hg as [_ Hg2]. eapply Hg2; eauto.
      + do 4 eexists. split; [reflexivity|]. simpl. split; [|exact H3].
        destruct Hmx as [Hmx|Hmx]; [apply nth_error_None in Em; lia|]. subst currs.
        assert (Ss0 = []) by (destruct Ss0; [reflexivity|simpl in Hl2; discriminate]).
        intros x _. rewrite H. reflexivity.
  Qed.

  (* ---------- Next and Advance of the conjunction ---------- *)

  Definition conj_ready (st : conj_st C) (lo : Z) : Prop :=
    cj_init st = true /\
    all3 child_ok (cj_s st) Ss0 (cj_currs st) /\ gap_ok Ss0 (cj_currs st) lo /\
    cursors_from (cj_currs st) lo /\ fins_below (cj_s st) Ss0 (cj_currs st) lo /\
    ((cj_max st < length (cj_currs st))%nat \/ cj_currs st = []).

  Definition conj_fresh (st : conj_st C) : Prop :=
    cj_init st = false /\ cj_max st = O /\ length (cj_s st) = length Ss0 /\
    forall i c S, nth_error (cj_s st) i = Some c -> nth_error Ss0 i = Some S -> bounded S /\ CNew c S.

  Definition conj_inv (st : conj_st C) (lo : Z) : Prop := conj_ready st lo \/ (conj_fresh st /\ lo = 0).

  (* a conjunction that reported the end is not called again by its callers (boolean, phrase) *)
  Definition conj_fin (st : conj_st C) : Prop := cj_init st = true /\ all3 child_ok (cj_s st) Ss0 (cj_currs st).

  Definition conj_fuel (len : nat) : nat := ((len + 2) * ((len + 1) * Z.to_nat N) + len + 3)%nat.

  Lemma slack_le : forall c S cur, child_ok c S cur -> (slack cur <= Z.to_nat N)%nat.
  Proof.
    intros c S [m|] [HB H]; simpl; [|lia]. destruct H as [HS _]. apply HB in HS. apply Z2Nat.inj_le; lia.
  Qed.

  Lemma total_slack_le : forall cs Ss currs, all3 child_ok cs Ss currs -> (total_slack currs <= length currs * Z.to_nat N)%nat.
  Proof.
    intros cs Ss currs H. induction H; simpl; [lia|]. pose proof (slack_le _ _ _ H). lia.
  Qed.

  Lemma mu_le : forall cs currs mx oi, all3 child_ok cs Ss0 currs -> (mu currs mx oi < conj_fuel (length currs))%nat.
  Proof.
    intros cs currs mx oi H. unfold mu, conj_fuel.
    pose proof (total_slack_le _ _ _ H) as HT.
    assert (HM : (slack (nth mx currs None) <= Z.to_nat N)%nat).
    { destruct (nth_error currs mx) as [cur|] eqn:E.
      - rewrite (nth_nth_error _ _ _ _ E).
        destruct (all3_lookup cs Ss0 currs mx H (nth_error_Some_lt _ _ _ E)) as [c [S [cur' [_ [_ [E' Hok]]]]]].
        rewrite E in E'. inversion E'; subst. eapply slack_le; eauto.
      - rewrite nth_overflow by (apply nth_error_None; exact E). simpl. lia. }
    assert (phase (length currs) oi <= length currs + 2)%nat by (destruct oi; simpl; lia).
    nia.
  Qed.

  Lemma conj_initialise_spec : forall st lo, conj_inv st lo ->
    exists st1, conj_initialise C cnext st = Ok st1 /\ conj_ready st1 lo.
  Proof.
    intros st lo [HR|[[Hi [Hmx [Hlen Hall]]] ->]].
    - exists st. unfold conj_initialise. destruct HR as [Hi HR]. rewrite Hi. split; [reflexivity|split; assumption].
    - unfold conj_initialise. rewrite Hi.
      destruct (next_all_new (cj_s st) Ss0 Hlen) as [currs [cs' [E [H3 [Hgap [Hnone [Hfrom Hfin]]]]]]].
      { intros i c S Hc HS. exact (Hall i c S Hc HS). }
      rewrite E. simpl. eexists. split; [reflexivity|].
      destruct (all3_length _ _ _ _ H3) as [Hl1 Hl2].
      unfold conj_ready. simpl. split; [reflexivity|]. split; [exact H3|].
      split; [|split; [|split]].
      + split.
        * intros j mj x Hj Hx.
          destruct (nth_error Ss0 j) as [Sj|] eqn:HSj; [|apply nth_error_None in HSj; apply nth_error_Some_lt in Hj; lia].
          eapply conj_S_false_of_child; [exact HSj|]. eapply Hgap; eauto.
        * intros j Hj x Hx.
          destruct (nth_error Ss0 j) as [Sj|] eqn:HSj; [|apply nth_error_None in HSj; apply nth_error_Some_lt in Hj; lia].
          eapply conj_S_false_of_child; [exact HSj|]. eapply Hnone; eauto.
      + exact Hfrom.
      + intros j cj Sj Hcj HSj Hnj. exists 0. split; [lia|]. exact (Hfin j cj Sj Hcj HSj Hnj).
      + rewrite Hmx. destruct currs; [right; reflexivity|left; simpl; lia].
  Qed.

  Definition conj_exact_post (lo : Z) (r : option dmatch) (st' : conj_st C) : Prop :=
    match r with
    | Some rv => least_from (conj_S Ss0) lo (dm_num rv) /\ conj_inv st' (dm_num rv + 1)
    | None => none_from (conj_S Ss0) lo /\ conj_fin st'
    end.

  Lemma conj_ready_loop : forall lf st lo, conj_ready st lo -> (conj_fuel (length Ss0) <= lf)%nat ->
    exists r cs' currs' mx', conj_loop C cnext cadv lf (cj_s st) (cj_currs st) (cj_max st) None = Ok (r, (cs', currs', mx')) /\
      conj_exact_post lo r {| cj_s := cs'; cj_currs := currs'; cj_max := mx'; cj_init := true |}.
  Proof.
    intros lf st lo [Hi [H3 [Hg [Hf [Hfb Hmx]]]]] Hlf.
    destruct (all3_length _ _ _ _ H3) as [Hl1 Hl2].
    destruct (conj_loop_spec lf (cj_s st) (cj_currs st) (cj_max st) None lo H3 Hg Hf I Hmx) as [r [cs' [currs' [mx' [E Hpost]]]]].
    { pose proof (mu_le (cj_s st) (cj_currs st) (cj_max st) None H3). rewrite <- Hl2 in H. lia. }
    exists r, cs', currs', mx'. split; [exact E|].
    destruct r as [rv|]; simpl in *.
    - destruct Hpost as [Hl [H3' [Hg' [Hf' [Hfb' Hmx']]]]]. split; [exact Hl|]. left.
      unfold conj_ready. simpl. split; [reflexivity|]. split; [exact H3'|]. split; [exact Hg'|].
      split; [exact Hf'|]. split; [exact Hfb'|exact Hmx'].
    - destruct Hpost as [Hn H3']. split; [exact Hn|]. split; [reflexivity|exact H3'].
  Qed.

  Lemma conj_next_spec : forall lf st lo, conj_inv st lo -> (conj_fuel (length Ss0) <= lf)%nat ->
    exists r st', conj_next C cnext cadv lf st = Ok (r, st') /\ conj_exact_post lo r st'.
  Proof.
    intros lf st lo Hinv Hlf. unfold conj_next.
    destruct (conj_initialise_spec st lo Hinv) as [st1 [E1 HR]]. rewrite E1. simpl.
    destruct (conj_ready_loop lf st1 lo HR Hlf) as [r [cs' [currs' [mx' [E Hpost]]]]].
    rewrite E. simpl. eauto.
  Qed.

  Lemma set_nth_same {A} (l : list A) i x : nth_error l i = Some x -> set_nth l i x = l.
  Proof. revert i. induction l as [| a l IH]; intros [| i] H; simpl in *; try discriminate; [congruence|f_equal; auto]. Qed.

  Lemma gap_ok_mono Ss currs lo n : gap_ok Ss currs lo -> lo <= n -> gap_ok Ss currs n.
  Proof.
    intros [G1 G2] Hle. split.
    - intros i m x Hi Hx. eapply G1; eauto. lia.
    - intros i Hi. eapply none_from_mono; eauto.
  Qed.

  (* Advance: the children trailing the target are advanced, the finished ones report the end again *)
  Lemma adv_trailing_spec : forall cnt i cs currs n,
    all3 child_ok cs Ss0 currs -> gap_ok Ss0 currs n -> fins_below cs Ss0 currs n ->
    (i + cnt = length currs)%nat ->
    (forall j m, (j < i)%nat -> nth_error currs j = Some (Some m) -> n <= dm_num m) ->
    exists cs' currs', adv_trailing C cadv cnt i cs currs n = Ok (cs', currs') /\
      all3 child_ok cs' Ss0 currs' /\ gap_ok Ss0 currs' n /\ cursors_from currs' n /\
      fins_below cs' Ss0 currs' n /\ length currs' = length currs.
  Proof.
    induction cnt as [| cnt IH]; intros i cs currs n H3 Hg Hfb Hlen Hdone.
    - exists cs, currs. simpl. split; [reflexivity|]. split; [exact H3|]. split; [exact Hg|].
      split; [|split; [exact Hfb|reflexivity]].
      intros j m Hj. apply (Hdone j m); [|exact Hj]. apply nth_error_Some_lt in Hj. lia.
    - assert (Hi : (i < length currs)%nat) by lia.
      destruct (all3_lookup cs Ss0 currs i H3 Hi) as [c [S [cur [Hc [HS [Hcur Hok]]]]]].
      simpl. rewrite Hcur.
      destruct cur as [m|].
      + destruct (n <=? dm_num m) eqn:En.
        * apply Z.leb_le in En. apply IH; auto; [lia|].
          intros j mj Hj Hnj. destruct (Nat.eq_dec j i) as [->|Hne]; [rewrite Hcur in Hnj; inversion Hnj; subst; exact En|].
          apply (Hdone j mj); [lia|exact Hnj].
        * apply Z.leb_gt in En.
          destruct (adv_child_spec cs Ss0 currs i m n n H3 Hg Hcur En ltac:(lia)) as [cs1 [r [E [H31 [Hg1 [Hr [Hun Hfin]]]]]]].
          { intros x Hx. lia. }
          rewrite E. simpl.
          destruct (IH (Datatypes.S i) cs1 (set_nth currs i r) n H31 Hg1) as [cs2 [currs2 [E2 [H32 [Hg2 [Hf2 [Hfb2 Hl2]]]]]]].
          { intros j cj Sj Hcj HSj Hnj. destruct (Nat.eq_dec j i) as [->|Hne].
            - rewrite nth_error_set_nth_eq in Hnj by exact Hi. inversion Hnj; subst r.
              exists n. split; [lia|]. eapply Hfin; eauto.
            - rewrite nth_error_set_nth_neq in Hnj by congruence. rewrite Hun in Hcj by exact Hne.
              eapply Hfb; eauto. }
          { rewrite set_nth_length. lia. }
          { intros j mj Hj Hnj. destruct (Nat.eq_dec j i) as [->|Hne].
            - rewrite nth_error_set_nth_eq in Hnj by exact Hi. inversion Hnj; subst r. lia.
            - rewrite nth_error_set_nth_neq in Hnj by congruence. apply (Hdone j mj); [lia|exact Hnj]. }
          exists cs2, currs2. split; [exact E2|]. split; [exact H32|]. split; [exact Hg2|]. split; [exact Hf2|].
          split; [exact Hfb2|]. rewrite Hl2. apply set_nth_length.
      + (* a finished child: Advance on it reports the end again *)
        destruct (Hfb i c S Hc HS Hcur) as [lo' [Hlo' HF]].
        destruct (ct_fin_adv _ _ _ _ _ Hct c S lo' n HF Hlo') as [c' [lo2 [E [Hlo2 HF']]]].
        unfold adv_child. rewrite Hc. simpl. rewrite E. simpl.
        rewrite (set_nth_same currs i None Hcur).
        assert (H31 : all3 child_ok (set_nth cs i c') Ss0 currs).
        { rewrite <- (set_nth_same currs i None Hcur) at 1. eapply all3_set; eauto.
          destruct Hok as [HB _]. split; [exact HB|]. eexists; exact HF'. }
        apply IH; auto.
        * intros j cj Sj Hcj HSj Hnj. destruct (Nat.eq_dec j i) as [->|Hne].
          -- assert (Hlc : (i < length cs)%nat) by (eapply nth_error_Some_lt; eauto).
             rewrite nth_error_set_nth_eq in Hcj by exact Hlc. inversion Hcj; subst cj.
             rewrite HS in HSj. inversion HSj; subst Sj. exists lo2. split; assumption.
          -- rewrite nth_error_set_nth_neq in Hcj by congruence. eapply Hfb; eauto.
        * lia.
        * intros j mj Hj Hnj. destruct (Nat.eq_dec j i) as [->|Hne]; [congruence|].
          apply (Hdone j mj); [lia|exact Hnj].
  Qed.

  Lemma conj_advance_spec : forall lf st lo n, conj_inv st lo -> lo <= n -> (conj_fuel (length Ss0) <= lf)%nat ->
    exists r st', conj_advance C cnext cadv lf st n = Ok (r, st') /\ conj_exact_post n r st'.
  Proof.
    intros lf st lo n Hinv Hn Hlf. unfold conj_advance.
    destruct (conj_initialise_spec st lo Hinv) as [st1 [E1 [Hi [H3 [Hg [Hf [Hfb Hmx]]]]]]]. rewrite E1. simpl.
    destruct (all3_length _ _ _ _ H3) as [Hl1 Hl2].
    destruct (adv_trailing_spec (length (cj_s st1)) O (cj_s st1) (cj_currs st1) n H3) as [cs' [currs' [E2 [H3' [Hg' [Hf' [Hfb' Hl']]]]]]].
    { eapply gap_ok_mono; eauto. }
    { intros j cj Sj Hcj HSj Hnj. destruct (Hfb j cj Sj Hcj HSj Hnj) as [lo' [A B]]. exists lo'. split; [lia|exact B]. }
    { lia. }
    { intros j m Hj. lia. }
    rewrite E2. simpl.
    assert (HR : conj_ready {| cj_s := cs'; cj_currs := currs'; cj_max := cj_max st1; cj_init := true |} n).
    { unfold conj_ready. simpl. split; [reflexivity|]. split; [exact H3'|]. split; [exact Hg'|]. split; [exact Hf'|].
      split; [exact Hfb'|]. destruct Hmx as [Hmx|Hmx]; [left; lia|right].
      destruct currs'; [reflexivity|]. rewrite Hmx in Hl'. discriminate. }
    unfold conj_next, conj_initialise. simpl.
    destruct (conj_ready_loop lf _ n HR Hlf) as [r [cs2 [currs2 [mx2 [E Hpost]]]]]. simpl in E.
    rewrite E. simpl. eauto.
  Qed.

  Lemma conj_contract : forall lf st lo,
    conj_inv st lo -> (conj_fuel (length Ss0) <= lf)%nat ->
    (exists r st', conj_next C cnext cadv lf st = Ok (r, st') /\ conj_exact_post lo r st') /\
    (forall n, lo <= n -> exists r st', conj_advance C cnext cadv lf st n = Ok (r, st') /\ conj_exact_post n r st').
  Proof.
    intros lf st lo Hinv Hlf. split; [apply conj_next_spec; assumption|].
    intros n Hn. eapply conj_advance_spec; eauto.
  Qed.
End Conj.
