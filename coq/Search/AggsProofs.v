(* Search/AggsProofs.v — facts about Search/Aggs.v (C16). *)
From Coq Require Import ZArith QArith Qreduction Qabs List Bool Arith Lia Permutation.
From Coq Require Import ZifyBool.
From Bluge Require Import Base.Int64 Base.Res Base.Corr Base.GoSort Gen.ParamsTopN
     Search.Numeric Search.Sort Search.TopN Search.TopNProofs Search.Aggs.
Import ListNotations.
Open Scope Z_scope.

(* ---------- induction over aggregation trees ---------- *)
Section AggInd.
  Variable P : agg -> Prop.
  Hypothesis HSingle : forall op s i, P (ASingle op s i).
  Hypothesis HWAvg : forall s w, P (AWAvg s w).
  Hypothesis HCard : forall t, P (ACard t).
  Hypothesis HQuant : forall s, P (AQuant s).
  Hypothesis HTerms : forall t size subs, Forall (fun p => P (snd p)) subs -> P (ATerms t size subs).
  Hypothesis HRange : forall s ranges subs, Forall (fun p => P (snd p)) subs -> P (ARange s ranges subs).
  Hypothesis HDate : forall f ranges subs, Forall (fun p => P (snd p)) subs -> P (ADateRange f ranges subs).

  Fixpoint agg_ind' (a : agg) : P a :=
    let subs_ind := fix go (l : list (Z * agg)) : Forall (fun p => P (snd p)) l :=
        match l with
        | [] => Forall_nil _
        | p :: r => Forall_cons p (agg_ind' (snd p)) (go r)
        end in
    match a with
    | ASingle op s i => HSingle op s i
    | AWAvg s w => HWAvg s w
    | ACard t => HCard t
    | AQuant s => HQuant s
    | ATerms t size subs => HTerms t size subs (subs_ind subs)
    | ARange s ranges subs => HRange s ranges subs (subs_ind subs)
    | ADateRange f ranges subs => HDate f ranges subs (subs_ind subs)
    end.
End AggInd.

(* the local fixpoints of Aggs.v coincide with the top-level ones *)
Lemma init_subs_eq subs :
  (fix go (subs : list (Z * agg)) : list calc :=
     match subs with [] => [] | (_, a') :: r => init a' :: go r end) subs = init_subs subs.
Proof. induction subs as [|[n a] r IH]; [reflexivity|]. cbn [init_subs]. rewrite <- IH. reflexivity. Qed.

Lemma consume_subs_eq h subs : forall cs,
  (fix go (subs : list (Z * agg)) (cs : list calc) : list calc :=
     match subs, cs with
     | (_, a') :: sr, c :: cr => consume a' h c :: go sr cr
     | _, _ => []
     end) subs cs = consume_subs subs h cs.
Proof.
  induction subs as [|[n a] r IH]; intros [|c cr]; try reflexivity.
  cbn [consume_subs]. rewrite <- IH. reflexivity.
Qed.

(* ---------- what consume reads from a hit ---------- *)

Definition agree (fields : list Z) (h h' : hit) : Prop :=
  h_score h = h_score h' /\ forall f, In f fields -> doc_values (h_dv h) f = doc_values (h_dv h') f.

Lemma agree_sub fields fields' h h' : (forall f, In f fields' -> In f fields) -> agree fields h h' -> agree fields' h h'.
Proof. intros S [H1 H2]. split; [exact H1|]. intros f Hf. apply H2, S, Hf. Qed.

Lemma numbers_agree s : forall h h', agree (nsource_fields s) h h' -> numbers s h = numbers s h'.
Proof.
  induction s as [f| | |p IHp r IHr|s IH c]; intros h h' A; cbn [numbers nsource_fields] in *.
  - destruct A as [_ A]. rewrite (A f); [reflexivity | left; reflexivity].
  - destruct A as [A _]. rewrite A. reflexivity.
  - reflexivity.
  - rewrite (IHp h h'), (IHr h h'); [reflexivity | |].
    + apply (agree_sub _ _ h h' (fun f Hf => in_or_app _ _ f (or_intror Hf)) A).
    + apply (agree_sub _ _ h h' (fun f Hf => in_or_app _ _ f (or_introl Hf)) A).
  - rewrite (IH h h' A). reflexivity.
Qed.

Lemma tvalues_agree t : forall h h', agree (vsource_fields t) h h' -> tvalues t h = tvalues t h'.
Proof.
  induction t as [f|s IH p]; intros h h' A; cbn [tvalues vsource_fields] in *.
  - destruct A as [_ A]. apply A. left; reflexivity.
  - rewrite (IH h h' A). reflexivity.
Qed.

Lemma dates_agree f h h' : agree [f] h h' -> dates f h = dates f h'.
Proof. intros [_ A]. unfold dates. rewrite (A f); [reflexivity | left; reflexivity]. Qed.

Lemma upsert_ext step step' fresh term bks : (forall cs, step cs = step' cs) ->
  upsert step fresh term bks = upsert step' fresh term bks.
Proof.
  intro E. induction bks as [|[nm cs] r IH]; cbn [upsert].
  - rewrite E. reflexivity.
  - destruct (beqb nm term); [rewrite E; reflexivity | rewrite IH; reflexivity].
Qed.

Lemma feed_ext {R V} step step' (inr : R -> V -> bool) ranges : (forall cs, step cs = step' cs) ->
  forall bs v, feed step inr ranges bs v = feed step' inr ranges bs v.
Proof.
  intro E. induction ranges as [|r rr IH]; intros [|b br] v; try reflexivity.
  cbn [feed]. rewrite E, IH. reflexivity.
Qed.

Lemma fold_left_ext {A B} (f g : A -> B -> A) l : (forall a b, f a b = g a b) -> forall a, fold_left f l a = fold_left g l a.
Proof. intro E. induction l as [|x l IH]; intro a; [reflexivity|]. cbn. rewrite E. apply IH. Qed.

(* unfolding lemmas: consume in terms of the top-level consume_subs *)
Lemma consume_terms t size subs h bks total :
  consume (ATerms t size subs) h (KTerms bks total) =
  KTerms (fold_left (fun b term => upsert (consume_subs subs h) (init_subs subs) term b) (tvalues t h) bks) (total + 1).
Proof.
  cbn [consume]. f_equal. apply fold_left_ext. intros b term. apply upsert_ext. intro cs. apply consume_subs_eq.
Qed.

Lemma consume_range s ranges subs h bs :
  consume (ARange s ranges subs) h (KBuckets bs) =
  KBuckets (fold_left (feed (consume_subs subs h) in_range ranges) (numbers s h) bs).
Proof.
  cbn [consume]. f_equal. apply fold_left_ext. intros b v. apply feed_ext. intro cs. apply consume_subs_eq.
Qed.

Lemma consume_daterange f ranges subs h bs :
  consume (ADateRange f ranges subs) h (KBuckets bs) =
  KBuckets (fold_left (feed (consume_subs subs h) in_date_range ranges) (dates f h) bs).
Proof.
  cbn [consume]. f_equal. apply fold_left_ext. intros b v. apply feed_ext. intro cs. apply consume_subs_eq.
Qed.

Lemma agg_fields_terms t size subs : agg_fields (ATerms t size subs) = vsource_fields t ++ aggs_fields subs.
Proof.
  unfold aggs_fields. change (agg_fields (ATerms t size subs)) with
    (vsource_fields t ++ (fix sf (subs : list (Z * agg)) : list Z :=
          match subs with [] => [] | (_, a') :: r => agg_fields a' ++ sf r end) subs).
  f_equal. induction subs as [|[n a] r IH]; [reflexivity|]. cbn [flat_map snd]. rewrite IH. reflexivity.
Qed.

Lemma agg_fields_range s ranges subs : agg_fields (ARange s ranges subs) = nsource_fields s ++ aggs_fields subs.
Proof.
  unfold aggs_fields. change (agg_fields (ARange s ranges subs)) with
    (nsource_fields s ++ (fix sf (subs : list (Z * agg)) : list Z :=
          match subs with [] => [] | (_, a') :: r => agg_fields a' ++ sf r end) subs).
  f_equal. induction subs as [|[n a] r IH]; [reflexivity|]. cbn [flat_map snd]. rewrite IH. reflexivity.
Qed.

Lemma agg_fields_daterange f ranges subs : agg_fields (ADateRange f ranges subs) = f :: aggs_fields subs.
Proof.
  unfold aggs_fields. change (agg_fields (ADateRange f ranges subs)) with
    (f :: (fix sf (subs : list (Z * agg)) : list Z :=
          match subs with [] => [] | (_, a') :: r => agg_fields a' ++ sf r end) subs).
  f_equal. induction subs as [|[n a] r IH]; [reflexivity|]. cbn [flat_map snd]. rewrite IH. reflexivity.
Qed.

Lemma aggs_fields_in subs n a f : In (n, a) subs -> In f (agg_fields a) -> In f (aggs_fields subs).
Proof.
  intros Hin Hf. unfold aggs_fields. apply in_flat_map. exists (n, a). split; [exact Hin | exact Hf].
Qed.

Lemma consume_subs_agree' subs h h' :
  Forall (fun p => forall h h' k, agree (agg_fields (snd p)) h h' -> consume (snd p) h k = consume (snd p) h' k) subs ->
  agree (aggs_fields subs) h h' ->
  forall cs, consume_subs subs h cs = consume_subs subs h' cs.
Proof.
  intros F A. induction subs as [|[n a] r IH]; intros [|c cr]; try reflexivity.
  cbn [consume_subs]. inversion F as [|? ? Hp Fr]; subst. cbn [snd] in Hp.
  rewrite (Hp h h' c).
  - rewrite IH; [reflexivity | exact Fr|].
    apply (agree_sub _ _ h h' (fun f Hf => in_or_app (agg_fields a) (aggs_fields r) f (or_intror Hf)) A).
  - apply (agree_sub _ _ h h' (fun f Hf => in_or_app (agg_fields a) (aggs_fields r) f (or_introl Hf)) A).
Qed.

Lemma consume_agree a : forall h h' k, agree (agg_fields a) h h' -> consume a h k = consume a h' k.
Proof.
  induction a as [op s i|s w|t|s|t size subs IH|s ranges subs IH|f ranges subs IH] using agg_ind';
    intros h h' k A.
  - destruct k; try reflexivity. cbn [consume]. change (agree (nsource_fields s) h h') in A.
    rewrite (numbers_agree s h h' A). reflexivity.
  - destruct k; try reflexivity. cbn [consume].
    change (agree (nsource_fields s ++ match w with Some w' => nsource_fields w' | None => [] end) h h') in A.
    rewrite (numbers_agree s h h'); [|apply (agree_sub _ _ h h' (fun f Hf => in_or_app _ _ f (or_introl Hf)) A)].
    destruct w as [w'|]; [|reflexivity].
    rewrite (numbers_agree w' h h'); [reflexivity|].
    apply (agree_sub _ _ h h' (fun f Hf => in_or_app _ _ f (or_intror Hf)) A).
  - destruct k; try reflexivity. cbn [consume]. change (agree (vsource_fields t) h h') in A.
    rewrite (tvalues_agree t h h' A). reflexivity.
  - destruct k; try reflexivity. cbn [consume]. change (agree (nsource_fields s) h h') in A.
    rewrite (numbers_agree s h h' A). reflexivity.
  - destruct k; try reflexivity. rewrite !consume_terms. rewrite agg_fields_terms in A.
    rewrite (tvalues_agree t h h'); [|apply (agree_sub _ _ h h' (fun f Hf => in_or_app _ _ f (or_introl Hf)) A)].
    f_equal. apply fold_left_ext. intros b term. apply upsert_ext.
    apply consume_subs_agree'; [exact IH|].
    apply (agree_sub _ _ h h' (fun f Hf => in_or_app _ _ f (or_intror Hf)) A).
  - destruct k; try reflexivity. rewrite !consume_range. rewrite agg_fields_range in A.
    rewrite (numbers_agree s h h'); [|apply (agree_sub _ _ h h' (fun f Hf => in_or_app _ _ f (or_introl Hf)) A)].
    f_equal. apply fold_left_ext. intros b v. apply feed_ext.
    apply consume_subs_agree'; [exact IH|].
    apply (agree_sub _ _ h h' (fun f Hf => in_or_app _ _ f (or_intror Hf)) A).
  - destruct k; try reflexivity. rewrite !consume_daterange. rewrite agg_fields_daterange in A.
    rewrite (dates_agree f h h').
    + f_equal. apply fold_left_ext. intros b v. apply feed_ext.
      apply consume_subs_agree'; [exact IH|].
      apply (agree_sub (f :: aggs_fields subs) (aggs_fields subs) h h'); [|exact A]. intros g Hg. right. exact Hg.
    + apply (agree_sub (f :: aggs_fields subs) [f] h h'); [|exact A]. intros g [E|[]]. left. exact E.
Qed.

Lemma consume_subs_agree subs h h' cs : agree (aggs_fields subs) h h' -> consume_subs subs h cs = consume_subs subs h' cs.
Proof.
  intro A. apply consume_subs_agree'; [|exact A].
  apply Forall_forall. intros p _ h1 h2 k. apply consume_agree.
Qed.

(* ---------- loading the needed doc values (each field once) ---------- *)

Lemma dedup_fields_in l : forall seen f, In f (dedup_fields seen l) <-> In f l /\ ~ In f seen.
Proof.
  induction l as [|x l IH]; intros seen f; cbn [dedup_fields].
  - split; [intros [] | intros [[] _]].
  - destruct (existsb (Z.eqb x) seen) eqn:E.
    + rewrite IH. apply existsb_exists in E. destruct E as (y & Hy & Exy). assert (x = y) by lia. subst y.
      split; [intros [H1 H2]; split; [right; exact H1 | exact H2] | intros [[->|H1] H2]; [contradiction | split; assumption]].
    + assert (Nx : ~ In x seen).
      { intro Hx. assert (existsb (Z.eqb x) seen = true) by (apply existsb_exists; exists x; split; [exact Hx | lia]). congruence. }
      cbn [In]. rewrite IH. cbn [In]. split.
      * intros [<-|[H1 H2]]; [split; [left; reflexivity | exact Nx] | split; [right; exact H1 | intro H; apply H2; right; exact H]].
      * intros [[->|H1] H2]; [left; reflexivity|].
        destruct (Z.eq_dec x f) as [->|N]; [left; reflexivity|]. right. split; [exact H1|]. intros [E'|H3]; [contradiction | contradiction].
Qed.

Lemma dedup_fields_nodup l : forall seen, NoDup (dedup_fields seen l).
Proof.
  induction l as [|x l IH]; intro seen; cbn [dedup_fields]; [constructor|].
  destruct (existsb (Z.eqb x) seen); [apply IH|].
  constructor; [|apply IH]. rewrite dedup_fields_in. intros [_ H]. apply H. left. reflexivity.
Qed.

Lemma doc_values_map_nodup (g : Z -> list bytes) l f : NoDup l ->
  doc_values (map (fun x => (x, g x)) l) f = if existsb (Z.eqb f) l then g f else [].
Proof.
  unfold doc_values. induction l as [|x l IH]; intro N; [reflexivity|].
  inversion N as [|? ? Nx Nl]; subst. cbn [map flat_map fst snd existsb].
  rewrite (IH Nl). destruct (x =? f) eqn:E.
  - assert (x = f) by lia. subst x. replace (f =? f) with true by lia. cbn [orb].
    replace (existsb (Z.eqb f) l) with false; [apply app_nil_r|].
    symmetry. apply not_true_is_false. intro H. apply existsb_exists in H. destruct H as (y & Hy & Ey).
    assert (f = y) by lia. subst y. contradiction.
  - replace (f =? x) with false by lia. reflexivity.
Qed.

Lemma doc_values_load needed r f :
  doc_values (load_doc_values needed r) f = if existsb (Z.eqb f) needed then doc_values (r_dv r) f else [].
Proof.
  unfold load_doc_values. rewrite (doc_values_map_nodup (fun x => doc_values (r_dv r) x)); [|apply dedup_fields_nodup].
  destruct (existsb (Z.eqb f) needed) eqn:E.
  - replace (existsb (Z.eqb f) (dedup_fields [] needed)) with true; [reflexivity|].
    symmetry. apply existsb_exists in E. destruct E as (y & Hy & Ey). assert (f = y) by lia. subst y.
    apply existsb_exists. exists f. split; [|lia]. apply dedup_fields_in. split; [exact Hy | intros []].
  - replace (existsb (Z.eqb f) (dedup_fields [] needed)) with false; [reflexivity|].
    symmetry. apply not_true_is_false. intro H. apply existsb_exists in H. destruct H as (y & Hy & Ey).
    assert (f = y) by lia. subst y. apply dedup_fields_in in Hy. destruct Hy as [Hy _].
    assert (existsb (Z.eqb f) needed = true) by (apply existsb_exists; exists f; split; [exact Hy | lia]). congruence.
Qed.

Lemma prepare_dv needed order num r : h_dv (prepare needed order num r) = load_doc_values needed r.
Proof. unfold prepare, compute. cbn [h_dv]. destruct needed; reflexivity. Qed.

Lemma prepare_score needed order num r : h_score (prepare needed order num r) = r_score r.
Proof. reflexivity. Qed.

(* two preparations of the same match agree on every field both have loaded *)
Lemma prepare_agree fields needed order num needed' order' num' r :
  (forall f, In f fields -> In f needed) -> (forall f, In f fields -> In f needed') ->
  agree fields (prepare needed order num r) (prepare needed' order' num' r).
Proof.
  intros S S'. split; [reflexivity|]. intros f Hf. rewrite !prepare_dv, !doc_values_load.
  replace (existsb (Z.eqb f) needed) with true
    by (symmetry; apply existsb_exists; exists f; split; [apply S, Hf | lia]).
  replace (existsb (Z.eqb f) needed') with true
    by (symmetry; apply existsb_exists; exists f; split; [apply S', Hf | lia]).
  reflexivity.
Qed.

Lemma prepare_all_agree fields needed order needed' order' hits :
  (forall f, In f fields -> In f needed) -> (forall f, In f fields -> In f needed') ->
  forall num num', Forall2 (agree fields) (prepare_all needed order num hits) (prepare_all needed' order' num' hits).
Proof.
  intros S S'. induction hits as [|r t IH]; intros num num'; cbn [prepare_all]; constructor.
  - apply prepare_agree; assumption.
  - apply IH.
Qed.

Lemma run_bucket_agree aggs l l' : Forall2 (agree (aggs_fields aggs)) l l' ->
  forall cs, fold_left (fun cs h => bucket_consume aggs h cs) l cs = fold_left (fun cs h => bucket_consume aggs h cs) l' cs.
Proof.
  induction 1 as [|h h' l l' A F IH]; intro cs; [reflexivity|].
  cbn [fold_left]. unfold bucket_consume at 2 4. rewrite (consume_subs_agree aggs h h' cs A). apply IH.
Qed.

(* ---------- aggs_ignore_paging ---------- *)

(* whatever n, from, the sort order, the paging key and the direction: when the search returns,
   the root bucket holds exactly the aggregations of the complete match list *)
Theorem aggs_ignore_paging_all aggs n order p hits results cs :
  topn_aggs aggs n order p hits = Ok (results, cs) -> cs = aggs_of aggs hits.
Proof.
  unfold topn_aggs, topn_search. destruct (request_collector n order p (aggs_fields aggs)) as [c| | |] eqn:Ec; cbn [rbind]; try discriminate.
  unfold run_collector. destruct (match c_after c with Some a => _ | None => true end); [|discriminate].
  intro H. injection H as H2.
  pose proof (collect_bucket (bucket_consume aggs) c (init_subs aggs) hits) as Hb.
  rewrite H2 in Hb. cbn [snd] in Hb. rewrite Hb.
  unfold aggs_of, all_aggs, run_bucket.
  apply (run_bucket_agree aggs). apply prepare_all_agree.
  - assert (Hn : c_needed c = order_fields (c_order c) ++ aggs_fields aggs).
    { unfold request_collector, direct_collector in Ec.
      destruct p; destruct (_ || _) in Ec; try discriminate; inversion Ec; reflexivity. }
    rewrite Hn. intros f Hf. apply in_or_app. right. exact Hf.
  - intros f Hf. exact Hf.
Qed.

Theorem aggs_ignore_paging_direct aggs size skip order reverse after hits results cs :
  direct_aggs aggs size skip order reverse after hits = Ok (results, cs) -> cs = aggs_of aggs hits.
Proof.
  unfold direct_aggs. destruct (direct_collector size skip order reverse after (aggs_fields aggs)) as [c| | |] eqn:Ec; cbn [rbind]; try discriminate.
  unfold run_collector. destruct (match c_after c with Some a => _ | None => true end); [|discriminate].
  intro H. injection H as H2.
  pose proof (collect_bucket (bucket_consume aggs) c (init_subs aggs) hits) as Hb.
  rewrite H2 in Hb. cbn [snd] in Hb. rewrite Hb.
  unfold aggs_of, all_aggs, run_bucket.
  apply (run_bucket_agree aggs). apply prepare_all_agree.
  - assert (Hn : c_needed c = order_fields (c_order c) ++ aggs_fields aggs).
    { unfold direct_collector in Ec. destruct (_ || _) in Ec; try discriminate; inversion Ec; reflexivity. }
    rewrite Hn. intros f Hf. apply in_or_app. right. exact Hf.
  - intros f Hf. exact Hf.
Qed.

(* the search never ends in an error value or out of fuel: it returns or panics (bad arguments) *)
Lemma topn_aggs_total aggs n order p hits :
  (exists r, topn_aggs aggs n order p hits = Ok r) \/ (exists c, topn_aggs aggs n order p hits = Panic c).
Proof.
  unfold topn_aggs, topn_search, request_collector, direct_collector, run_collector.
  destruct p; destruct (_ || _); cbn [rbind]; eauto;
    match goal with |- context [if ?b then Ok _ else Panic _] => destruct b; eauto end.
Qed.

(* non-vacuity: paging by size / offset / key does return and leaves the bucket as AllMatches has it *)
Definition ex_hits : list rawhit :=
  [ {| r_doc := 7; r_score := 4607182418800017408; r_dv := [(1, [[32;1;64;8;0;0;0;0;0;0;0]])]; r_tab := [] |};
    {| r_doc := 9; r_score := 4611686018427387904; r_dv := [(1, [[32;1;64;16;0;0;0;0;0;0;0]])]; r_tab := [] |};
    {| r_doc := 12; r_score := 4607182418800017408; r_dv := []; r_tab := [] |} ].
Definition ex_aggs : list (Z * agg) := [(0, a_count); (1, a_sum (NSField 1)); (2, a_max (NSField 1))].
Definition ex_order : list sortspec := [ {| s_src := TSField 1; s_desc := true; s_first := false |} ].

Example aggs_ignore_paging_ex :
  rmap snd (topn_aggs ex_aggs 1 ex_order (PFrom 1) ex_hits) = Ok [KVal (XFin 3); KVal (XFin 12); KVal (XFin 8)] /\
  aggs_of ex_aggs ex_hits = [KVal (XFin 3); KVal (XFin 12); KVal (XFin 8)] /\
  rmap (fun r => map h_doc (fst r)) (topn_aggs ex_aggs 1 ex_order (PFrom 1) ex_hits) = Ok [7].
Proof. vm_compute. repeat split. Qed.

(* ---------- one calculator at a time ---------- *)

Definition run_one (a : agg) (ms : list hit) : calc := fold_left (fun k h => consume a h k) ms (init a).

Definition states (aggs : list (Z * agg)) (g : agg -> calc) : list calc := map (fun p => g (snd p)) aggs.

Lemma init_subs_states aggs : init_subs aggs = states aggs init.
Proof. induction aggs as [|[n a] r IH]; [reflexivity|]. cbn [init_subs states map snd]. rewrite IH. reflexivity. Qed.

Lemma consume_subs_states aggs h g : consume_subs aggs h (states aggs g) = states aggs (fun a => consume a h (g a)).
Proof. induction aggs as [|[n a] r IH]; [reflexivity|]. cbn [consume_subs states map snd]. f_equal. apply IH. Qed.

Lemma run_bucket_states aggs ms : forall g,
  fold_left (fun cs h => bucket_consume aggs h cs) ms (states aggs g) =
  states aggs (fun a => fold_left (fun k h => consume a h k) ms (g a)).
Proof.
  induction ms as [|h ms IH]; intro g; [reflexivity|]. cbn [fold_left]. unfold bucket_consume at 2.
  rewrite consume_subs_states. apply (IH (fun a => consume a h (g a))).
Qed.

(* the root bucket is the list of its calculators, each run on its own over the matches *)
Lemma run_bucket_each aggs ms : run_bucket aggs ms = map (fun p => run_one (snd p) ms) aggs.
Proof. unfold run_bucket. rewrite init_subs_states, run_bucket_states. reflexivity. Qed.

Definition matched (aggs : list (Z * agg)) (hits : list rawhit) : list hit := prepare_all (aggs_fields aggs) [] 0 hits.

Lemma aggs_of_each aggs hits : aggs_of aggs hits = map (fun p => run_one (snd p) (matched aggs hits)) aggs.
Proof. apply run_bucket_each. Qed.

(* ---------- metrics ---------- *)
Open Scope Q_scope.

Definition all_numbers (s : nsource) (ms : list hit) : list xq := flat_map (numbers s) ms.

Lemma run_single op s i ms : run_one (ASingle op s i) ms = KVal (fold_left (single_step op) (all_numbers s ms) i).
Proof.
  unfold run_one, all_numbers. cbn [init]. generalize i. induction ms as [|h ms IH]; intro v; [reflexivity|].
  cbn [fold_left flat_map]. rewrite fold_left_app. cbn [consume]. apply IH.
Qed.

Definition xq_equiv (a b : xq) : Prop :=
  match a, b with
  | XFin p, XFin q => p == q
  | XNaN, XNaN => True
  | XInf s, XInf t => s = t
  | _, _ => False
  end.

Definition sumQ (l : list Q) : Q := fold_right Qplus 0 l.

Lemma fold_sum qs : forall q0, exists q, fold_left (single_step OpSum) (map XFin qs) (XFin q0) = XFin q /\ q == q0 + sumQ qs.
Proof.
  induction qs as [|x qs IH]; intro q0.
  - exists q0. split; [reflexivity|]. unfold sumQ. cbn [fold_right]. ring.
  - cbn [map fold_left single_step xadd].
    destruct (IH (Qred (q0 + x))) as (q & E & Hq). exists q. split; [exact E|].
    rewrite Hq, Qred_correct. unfold sumQ. cbn [fold_right]. ring.
Qed.

(* sum_exact: over finite values the sum calculator holds the exact rational sum of all values
   of all matched documents (multi-valued and missing included: a missing value contributes nothing) *)
Theorem sum_exact_all s ms qs : all_numbers s ms = map XFin qs ->
  exists q, run_one (a_sum s) ms = KVal (XFin q) /\ q == sumQ qs.
Proof.
  intro H. unfold a_sum. rewrite run_single, H.
  destruct (fold_sum qs 0) as (q & E & Hq). exists q. split; [rewrite E; reflexivity|]. rewrite Hq. ring.
Qed.

Lemma all_numbers_count ms : all_numbers NSCount ms = map XFin (map (fun _ => 1) ms).
Proof.
  unfold all_numbers. induction ms as [|h ms IH]; [reflexivity|].
  cbn [flat_map map]. rewrite IH. reflexivity.
Qed.

Lemma sumQ_ones {A} (l : list A) : sumQ (map (fun _ => 1) l) == inject_Z (Z.of_nat (length l)).
Proof.
  induction l as [|x l IH]; [reflexivity|]. cbn [map sumQ fold_right length]. fold (sumQ (map (fun _ : A => 1) l)).
  rewrite IH. rewrite Nat2Z.inj_succ. unfold Z.succ. rewrite inject_Z_plus. ring.
Qed.

(* count_exact: CountMatches holds the number of matched documents *)
Theorem count_exact_all ms : exists q, run_one a_count ms = KVal (XFin q) /\ q == inject_Z (Z.of_nat (length ms)).
Proof.
  destruct (sum_exact_all NSCount ms _ (all_numbers_count ms)) as (q & E & Hq).
  exists q. split; [exact E|]. rewrite Hq. apply sumQ_ones.
Qed.

Lemma fold_min qs : forall m0, (forall q, In q qs -> True) ->
  exists m, fold_left (single_step OpMin) (map XFin qs) (XFin m0) = XFin m /\
            (m = m0 \/ In m qs) /\ m <= m0 /\ forall q, In q qs -> m <= q.
Proof.
  induction qs as [|x qs IH]; intros m0 _.
  - exists m0. repeat split; auto. apply Qle_refl. intros q [].
  - cbn [map fold_left single_step xlt].
    destruct (Qle_bool m0 x) eqn:E; cbn [negb].
    + apply Qle_bool_iff in E. destruct (IH m0 (fun _ _ => I)) as (m & Em & Hin & Hle & Hall).
      exists m. split; [exact Em|]. split; [destruct Hin; [left; assumption | right; right; assumption]|].
      split; [exact Hle|]. intros q [<-|Hq]; [apply Qle_trans with m0; assumption | apply Hall; exact Hq].
    + assert (Hx : x <= m0).
      { destruct (Qlt_le_dec m0 x) as [Hlt|Hge]; [|exact Hge]. apply Qlt_le_weak, Qle_bool_iff in Hlt. congruence. }
      destruct (IH x (fun _ _ => I)) as (m & Em & Hin & Hle & Hall).
      exists m. split; [exact Em|]. split; [right; destruct Hin; [left; congruence | right; assumption]|].
      split; [apply Qle_trans with x; assumption|]. intros q [<-|Hq]; [exact Hle | apply Hall; exact Hq].
Qed.

(* min_exact: +Inf when no matched document has a value, otherwise one of the values and a
   lower bound of all of them *)
Theorem min_exact_all s ms qs : all_numbers s ms = map XFin qs ->
  (qs = [] -> run_one (a_min s) ms = KVal (XInf false)) /\
  (qs <> [] -> exists m, run_one (a_min s) ms = KVal (XFin m) /\ In m qs /\ forall q, In q qs -> m <= q).
Proof.
  intro H. unfold a_min. rewrite run_single, H. split.
  - intros ->. reflexivity.
  - intro N. destruct qs as [|x qs]; [contradiction|]. cbn [map fold_left single_step xlt negb].
    destruct (fold_min qs x (fun _ _ => I)) as (m & Em & Hin & Hle & Hall).
    exists m. split; [rewrite Em; reflexivity|]. split; [destruct Hin; [left; congruence | right; assumption]|].
    intros q [<-|Hq]; [exact Hle | apply Hall; exact Hq].
Qed.

Lemma fold_max qs : forall m0,
  exists m, fold_left (single_step OpMax) (map XFin qs) (XFin m0) = XFin m /\
            (m = m0 \/ In m qs) /\ m0 <= m /\ forall q, In q qs -> q <= m.
Proof.
  induction qs as [|x qs IH]; intros m0.
  - exists m0. repeat split; auto. apply Qle_refl. intros q [].
  - cbn [map fold_left single_step xlt].
    destruct (Qle_bool x m0) eqn:E; cbn [negb].
    + apply Qle_bool_iff in E. destruct (IH m0) as (m & Em & Hin & Hle & Hall).
      exists m. split; [exact Em|]. split; [destruct Hin; [left; assumption | right; right; assumption]|].
      split; [exact Hle|]. intros q [<-|Hq]; [apply Qle_trans with m0; assumption | apply Hall; exact Hq].
    + assert (Hx : m0 <= x).
      { destruct (Qlt_le_dec x m0) as [Hlt|Hge]; [|exact Hge]. apply Qlt_le_weak, Qle_bool_iff in Hlt. congruence. }
      destruct (IH x) as (m & Em & Hin & Hle & Hall).
      exists m. split; [exact Em|]. split; [right; destruct Hin; [left; congruence | right; assumption]|].
      split; [apply Qle_trans with x; assumption|]. intros q [<-|Hq]; [exact Hle | apply Hall; exact Hq].
Qed.

(* max_exact: -Inf when there is no value, otherwise one of the values and an upper bound *)
Theorem max_exact_all s ms qs : all_numbers s ms = map XFin qs ->
  (qs = [] -> run_one (a_max s) ms = KVal (XInf true)) /\
  (qs <> [] -> exists m, run_one (a_max s) ms = KVal (XFin m) /\ In m qs /\ forall q, In q qs -> q <= m).
Proof.
  intro H. unfold a_max. rewrite run_single, H. split.
  - intros ->. reflexivity.
  - intro N. destruct qs as [|x qs]; [contradiction|]. cbn [map fold_left single_step xlt].
    destruct (fold_max qs x) as (m & Em & Hin & Hle & Hall).
    exists m. split; [rewrite Em; reflexivity|]. split; [destruct Hin; [left; congruence | right; assumption]|].
    intros q [<-|Hq]; [exact Hle | apply Hall; exact Hq].
Qed.

Open Scope Z_scope.

(* ---------- sketches: fed exactly the matched values, in hit order ---------- *)

Lemma card_fold t ms : forall acc,
  fold_left (fun k h => consume (ACard t) h k) ms (KFedT acc) = KFedT (acc ++ flat_map (tvalues t) ms).
Proof.
  induction ms as [|h ms IH]; intro acc; cbn [fold_left flat_map consume].
  - rewrite app_nil_r. reflexivity.
  - rewrite IH, app_assoc. reflexivity.
Qed.

Theorem cardinality_fed_exactly_all t ms : run_one (ACard t) ms = KFedT (flat_map (tvalues t) ms).
Proof. unfold run_one. cbn [init]. apply (card_fold t ms []). Qed.

Lemma quant_fold s ms : forall acc,
  fold_left (fun k h => consume (AQuant s) h k) ms (KFedN acc) = KFedN (acc ++ flat_map (numbers s) ms).
Proof.
  induction ms as [|h ms IH]; intro acc; cbn [fold_left flat_map consume].
  - rewrite app_nil_r. reflexivity.
  - rewrite IH, app_assoc. reflexivity.
Qed.

Theorem quantile_fed_exactly_all s ms : run_one (AQuant s) ms = KFedN (all_numbers s ms).
Proof. unfold run_one, all_numbers. cbn [init]. apply (quant_fold s ms []). Qed.

(* ---------- averages ---------- *)

Definition weight_of (w : option nsource) (h : hit) : xq :=
  match w with
  | Some w' => match numbers w' h with wv :: _ => wv | [] => XFin 1 end
  | None => XFin 1
  end.

(* every value of every matched document, paired with that document's weight (first weight
   value, 1 when the weight source has none or no weight source is given) *)
Definition weighted_values (s : nsource) (w : option nsource) (ms : list hit) : list (xq * xq) :=
  flat_map (fun h => map (fun v => (v, weight_of w h)) (numbers s h)) ms.

Definition wstep (acc : xq * xq) (p : xq * xq) : xq * xq :=
  (xadd (fst acc) (xmul (fst p) (snd p)), xadd (snd acc) (snd p)).

Lemma wavg_consume s w h val weights :
  consume (AWAvg s w) h (KWAvg val weights) =
  let r := fold_left wstep (map (fun v => (v, weight_of w h)) (numbers s h)) (val, weights) in KWAvg (fst r) (snd r).
Proof.
  cbn [consume]. fold (weight_of w h). generalize (weight_of w h) as wt. intro wt.
  generalize val, weights. induction (numbers s h) as [|v l IH]; intros a b; [reflexivity|].
  cbn [map fold_left]. unfold wstep at 2. cbn [fst snd]. apply IH.
Qed.

Lemma run_wavg_gen s w ms : forall a b,
  fold_left (fun k h => consume (AWAvg s w) h k) ms (KWAvg a b) =
  let r := fold_left wstep (weighted_values s w ms) (a, b) in KWAvg (fst r) (snd r).
Proof.
  unfold weighted_values. induction ms as [|h ms IH]; intros a b; [reflexivity|].
  cbn [fold_left flat_map]. rewrite fold_left_app, wavg_consume. cbv zeta.
  destruct (fold_left wstep (map (fun v => (v, weight_of w h)) (numbers s h)) (a, b)) as [a' b']. cbn [fst snd].
  apply IH.
Qed.

Lemma run_wavg s w ms :
  run_one (AWAvg s w) ms =
  let r := fold_left wstep (weighted_values s w ms) (XFin 0, XFin 0) in KWAvg (fst r) (snd r).
Proof. unfold run_one. cbn [init]. apply run_wavg_gen. Qed.

Open Scope Q_scope.
Definition sum_vw (l : list (Q * Q)) : Q := fold_right (fun p acc => fst p * snd p + acc) 0 l.
Definition sum_w (l : list (Q * Q)) : Q := fold_right (fun p acc => snd p + acc) 0 l.

Lemma fold_wstep pq : forall a b, exists a' b',
  fold_left wstep (map (fun p => (XFin (fst p), XFin (snd p))) pq) (XFin a, XFin b) = (XFin a', XFin b') /\
  a' == a + sum_vw pq /\ b' == b + sum_w pq.
Proof.
  induction pq as [|[v wt] pq IH]; intros a b.
  - exists a, b. split; [reflexivity|]. unfold sum_vw, sum_w. cbn [fold_right]. split; ring.
  - cbn [map fold_left fst snd]. unfold wstep at 2. cbn [fst snd xadd xmul].
    destruct (IH (Qred (a + Qred (v * wt))) (Qred (b + wt))) as (a' & b' & E & Ha & Hb).
    exists a', b'. split; [exact E|]. unfold sum_vw, sum_w in *. cbn [fold_right fst snd].
    rewrite Ha, Hb, !Qred_correct. split; ring.
Qed.

(* wavg_exact: numerator = sum over all values of value * document weight, denominator = sum of
   the weights, as exact rationals; the metric is their quotient (NaN for 0/0 as in Go) *)
Theorem wavg_exact_all s w ms pq :
  weighted_values s w ms = map (fun p => (XFin (fst p), XFin (snd p))) pq ->
  exists a b, run_one (AWAvg s w) ms = KWAvg (XFin a) (XFin b) /\ a == sum_vw pq /\ b == sum_w pq /\
              (~ b == 0 -> xq_equiv (calc_value (KWAvg (XFin a) (XFin b))) (XFin (sum_vw pq / sum_w pq))).
Proof.
  intro H. rewrite run_wavg, H. destruct (fold_wstep pq 0 0) as (a & b & E & Ha & Hb).
  exists a, b. cbv zeta. rewrite E. cbn [fst snd]. split; [reflexivity|].
  split; [rewrite Ha; ring|]. split; [rewrite Hb; ring|].
  intro Nb. cbn [calc_value xdiv]. unfold qsign.
  assert (Hn : (Z.sgn (Qnum b) =? 0)%Z = false).
  { apply Z.eqb_neq. intro Hs. apply Nb. apply Z.sgn_null_iff in Hs. destruct b as [bn bd]. unfold Qeq. cbn in *. lia. }
  rewrite Hn. cbn [xq_equiv]. rewrite Qred_correct, Ha, Hb.
  assert (E1 : 0 + sum_vw pq == sum_vw pq) by ring. assert (E2 : 0 + sum_w pq == sum_w pq) by ring.
  rewrite E1, E2. reflexivity.
Qed.

Lemma sum_vw_ones qs : sum_vw (map (fun q => (q, 1)) qs) == sumQ qs.
Proof. unfold sum_vw, sumQ. induction qs as [|q qs IH]; [reflexivity|]. cbn [map fold_right fst snd]. rewrite IH. ring. Qed.

Lemma sum_w_ones qs : sum_w (map (fun q : Q => (q, 1)) qs) == inject_Z (Z.of_nat (length qs)).
Proof.
  unfold sum_w. induction qs as [|q qs IH]; [reflexivity|]. cbn [map fold_right snd length].
  rewrite IH, Nat2Z.inj_succ. unfold Z.succ. rewrite inject_Z_plus. ring.
Qed.

(* avg_exact: without a weight source every weight is 1: sum of the values over their number *)
Theorem avg_exact_all s ms qs : all_numbers s ms = map XFin qs ->
  exists a b, run_one (AWAvg s None) ms = KWAvg (XFin a) (XFin b) /\ a == sumQ qs /\
              b == inject_Z (Z.of_nat (length qs)) /\
              (qs = [] -> calc_value (KWAvg (XFin a) (XFin b)) = XNaN).
Proof.
  intro H.
  assert (Hw : weighted_values s None ms = map (fun p => (XFin (fst p), XFin (snd p))) (map (fun q => (q, 1)) qs)).
  { unfold weighted_values, all_numbers in *. cbn [weight_of].
    rewrite map_map. cbn [fst snd]. rewrite <- (map_map XFin (fun v => (v, XFin 1))). rewrite <- H.
    clear H. induction ms as [|h ms IH]; [reflexivity|]. cbn [flat_map]. rewrite map_app, IH. reflexivity. }
  destruct (wavg_exact_all s None ms _ Hw) as (a & b & E & Ha & Hb & _).
  exists a, b. split; [exact E|].
  pose proof (sum_vw_ones qs) as S1. pose proof (sum_w_ones qs) as S2.
  split; [rewrite Ha; exact S1|]. split; [rewrite Hb; exact S2|].
  intros ->. cbn in S1, S2. cbn [calc_value xdiv]. unfold qsign.
  assert (Qnum b = 0%Z) by (rewrite S2 in Hb; unfold Qeq in Hb; cbn in Hb; lia).
  assert (Qnum a = 0%Z) by (rewrite S1 in Ha; unfold Qeq in Ha; cbn in Ha; lia).
  rewrite H0, H1. reflexivity.
Qed.
Open Scope Z_scope.

(* ---------- bucket aggregations ---------- *)

(* the calculators of one bucket, run over the list of documents that entered the bucket *)
Definition run_subs (subs : list (Z * agg)) (l : list hit) : list calc :=
  fold_left (fun cs h => consume_subs subs h cs) l (init_subs subs).

(* each nested calculator is the calculator of that aggregation run on the bucket's documents:
   the metric theorems above apply to nested metrics verbatim *)
Lemma run_subs_each subs l : run_subs subs l = map (fun p => run_one (snd p) l) subs.
Proof. apply (run_bucket_each subs l). Qed.

Lemma run_subs_snoc subs l h : run_subs subs (l ++ [h]) = consume_subs subs h (run_subs subs l).
Proof. unfold run_subs. rewrite fold_left_app. reflexivity. Qed.

(* ----- ranges ----- *)

(* the documents entering the bucket of range r: one entry per value of the document inside r *)
Definition range_members {R V : Type} (inr : R -> V -> bool) (vals : hit -> list V) (r : R) (ms : list hit) : list hit :=
  flat_map (fun h => map (fun _ => h) (filter (inr r) (vals h))) ms.

Lemma feed_as_map {R V} step (inr : R -> V -> bool) ranges (st : R -> list calc) v :
  feed step inr ranges (map st ranges) v = map (fun r => if inr r v then step (st r) else st r) ranges.
Proof. induction ranges as [|r rr IH]; [reflexivity|]. cbn [map feed]. rewrite IH. reflexivity. Qed.

Lemma feed_values {R V} step (inr : R -> V -> bool) ranges vs : forall (st : R -> list calc),
  fold_left (feed step inr ranges) vs (map st ranges) =
  map (fun r => fold_left (fun cs (_ : V) => step cs) (filter (inr r) vs) (st r)) ranges.
Proof.
  induction vs as [|v vs IH]; intro st; [reflexivity|].
  cbn [fold_left]. rewrite feed_as_map. rewrite (IH (fun r => if inr r v then step (st r) else st r)).
  apply map_ext. intro r. cbn [filter]. destruct (inr r v); reflexivity.
Qed.

Lemma fold_const_map {V} (f : list calc -> list calc) (l : list V) h subs : forall cs,
  (forall c, f c = consume_subs subs h c) ->
  fold_left (fun cs (_ : V) => f cs) l cs = fold_left (fun cs h' => consume_subs subs h' cs) (map (fun _ => h) l) cs.
Proof.
  induction l as [|v l IH]; intros cs E; [reflexivity|]. cbn [fold_left map]. rewrite E. apply IH. exact E.
Qed.

Lemma range_fold {R V} (inr : R -> V -> bool) (vals : hit -> list V) ranges subs ms : forall (st : R -> list calc),
  fold_left (fun bs h => fold_left (feed (consume_subs subs h) inr ranges) (vals h) bs) ms (map st ranges) =
  map (fun r => fold_left (fun cs h => consume_subs subs h cs) (range_members inr vals r ms) (st r)) ranges.
Proof.
  unfold range_members. induction ms as [|h ms IH]; intro st; [reflexivity|].
  cbn [fold_left flat_map]. rewrite feed_values.
  rewrite (IH (fun r => fold_left (fun cs (_ : V) => consume_subs subs h cs) (filter (inr r) (vals h)) (st r))).
  apply map_ext. intro r. rewrite fold_left_app. f_equal.
  apply (fold_const_map (consume_subs subs h)). reflexivity.
Qed.

Lemma init_subs_eq' subs :
  (fix go (subs : list (Z * agg)) : list calc :=
     match subs with [] => [] | (_, a') :: r => init a' :: go r end) subs = init_subs subs.
Proof. apply init_subs_eq. Qed.

Lemma init_range s ranges subs : init (ARange s ranges subs) = KBuckets (map (fun _ => init_subs subs) ranges).
Proof. reflexivity. Qed.

Lemma init_daterange f ranges subs : init (ADateRange f ranges subs) = KBuckets (map (fun _ => init_subs subs) ranges).
Proof. reflexivity. Qed.

Lemma range_run_gen s ranges subs ms : forall bs,
  fold_left (fun k h => consume (ARange s ranges subs) h k) ms (KBuckets bs) =
  KBuckets (fold_left (fun bs h => fold_left (feed (consume_subs subs h) in_range ranges) (numbers s h) bs) ms bs).
Proof.
  induction ms as [|h ms IH]; intro bs; [reflexivity|]. cbn [fold_left]. rewrite consume_range. apply IH.
Qed.

Lemma daterange_run_gen f ranges subs ms : forall bs,
  fold_left (fun k h => consume (ADateRange f ranges subs) h k) ms (KBuckets bs) =
  KBuckets (fold_left (fun bs h => fold_left (feed (consume_subs subs h) in_date_range ranges) (dates f h) bs) ms bs).
Proof.
  induction ms as [|h ms IH]; intro bs; [reflexivity|]. cbn [fold_left]. rewrite consume_daterange. apply IH.
Qed.

(* range_counts_exact (numeric): the bucket of [low, high) holds the nested calculators run over
   exactly the matched documents having a value v with low <= v < high, once per such value *)
Theorem range_counts_exact_all s ranges subs ms :
  run_one (ARange s ranges subs) ms =
  KBuckets (map (fun r => run_subs subs (range_members in_range (numbers s) r ms)) ranges).
Proof.
  unfold run_one. rewrite init_range, range_run_gen. f_equal.
  apply (range_fold in_range (numbers s) ranges subs ms (fun _ => init_subs subs)).
Qed.

(* range_counts_exact (dates): start <= v < end on the nanosecond instants, open ends allowed *)
Theorem date_range_counts_exact_all f ranges subs ms :
  run_one (ADateRange f ranges subs) ms =
  KBuckets (map (fun r => run_subs subs (range_members in_date_range (dates f) r ms)) ranges).
Proof.
  unfold run_one. rewrite init_daterange, daterange_run_gen. f_equal.
  apply (range_fold in_date_range (dates f) ranges subs ms (fun _ => init_subs subs)).
Qed.

(* the count of a range bucket is the number of (document, value) pairs inside the range *)
Corollary range_bucket_count subs l : forall rest, subs = (count_id, a_count) :: rest ->
  exists q others, run_subs subs l = KVal (XFin q) :: others /\ (q == inject_Z (Z.of_nat (length l)))%Q.
Proof.
  intros rest ->. rewrite run_subs_each. cbn [map snd].
  destruct (count_exact_all l) as (q & E & Hq). exists q, (map (fun p => run_one (snd p) l) rest).
  rewrite E. split; [reflexivity | exact Hq].
Qed.

(* ----- terms ----- *)

Lemma beqb_true_iff a : forall b, beqb a b = true <-> a = b.
Proof.
  induction a as [|x a IH]; intros [|y b]; cbn [beqb]; split; intro H; try reflexivity; try discriminate.
  - apply andb_true_iff in H. destruct H as [H1 H2]. f_equal; [lia | apply IH; exact H2].
  - inversion H; subst. apply andb_true_iff. split; [lia | apply IH; reflexivity].
Qed.

Lemma beqb_refl a : beqb a a = true.
Proof. apply beqb_true_iff. reflexivity. Qed.

(* the documents entering the bucket of term nm: one entry per occurrence of nm among the
   document's values (doc values are distinct terms, so at most one per document in practice) *)
Definition terms_members (t : vsource) (nm : bytes) (ms : list hit) : list hit :=
  flat_map (fun h => map (fun _ => h) (filter (beqb nm) (tvalues t h))) ms.

(* occurrences (document, term) in processing order *)
Definition occurrences (t : vsource) (ms : list hit) : list (hit * bytes) :=
  flat_map (fun h => map (fun term => (h, term)) (tvalues t h)) ms.

Definition members_occ (nm : bytes) (occ : list (hit * bytes)) : list hit :=
  map fst (filter (fun o => beqb nm (snd o)) occ).

Lemma members_occ_app nm o1 o2 : members_occ nm (o1 ++ o2) = members_occ nm o1 ++ members_occ nm o2.
Proof. unfold members_occ. rewrite filter_app, map_app. reflexivity. Qed.

Lemma members_occurrences t nm ms : members_occ nm (occurrences t ms) = terms_members t nm ms.
Proof.
  unfold occurrences, terms_members. induction ms as [|h ms IH]; [reflexivity|].
  cbn [flat_map]. rewrite members_occ_app, IH. f_equal.
  unfold members_occ. induction (tvalues t h) as [|x l IHl]; [reflexivity|].
  cbn [map filter snd]. destruct (beqb nm x); cbn [map fst]; rewrite IHl; reflexivity.
Qed.

Section TermsInv.
  Variable subs : list (Z * agg).

  (* what the bucket list satisfies after the occurrences occ *)
  Definition terms_inv (bks : list (bytes * list calc)) (occ : list (hit * bytes)) : Prop :=
    NoDup (map fst bks) /\
    (forall nm, In nm (map fst bks) <-> In nm (map snd occ)) /\
    (forall nm cs, In (nm, cs) bks -> cs = run_subs subs (members_occ nm occ)).

  Lemma upsert_names step fresh term bks :
    map fst (upsert step fresh term bks) =
    if existsb (beqb term) (map fst bks) then map fst bks else map fst bks ++ [term].
  Proof.
    induction bks as [|[nm cs] r IH]; [reflexivity|]. cbn [upsert map fst existsb].
    destruct (beqb nm term) eqn:E.
    - apply beqb_true_iff in E. subst nm. rewrite beqb_refl. reflexivity.
    - replace (beqb term nm) with false.
      + cbn [orb map fst]. rewrite IH. destruct (existsb (beqb term) (map fst r)); reflexivity.
      + symmetry. apply not_true_is_false. intro H. apply beqb_true_iff in H. subst.
        rewrite beqb_refl in E. discriminate.
  Qed.

  Lemma existsb_beqb term l : existsb (beqb term) l = true <-> In term l.
  Proof.
    rewrite existsb_exists. split.
    - intros (x & Hx & E). apply beqb_true_iff in E. subst. exact Hx.
    - intro H. exists term. split; [exact H | apply beqb_refl].
  Qed.

  Lemma upsert_in step fresh term bks nm cs : NoDup (map fst bks) -> In (nm, cs) (upsert step fresh term bks) ->
    (nm <> term /\ In (nm, cs) bks) \/
    (nm = term /\ ((exists cs0, In (term, cs0) bks /\ cs = step cs0) \/ (~ In term (map fst bks) /\ cs = step fresh))).
  Proof.
    induction bks as [|[n0 c0] r IH]; intros N H.
    - cbn in H. destruct H as [E|[]]. inversion E; subst. right. split; [reflexivity|]. right. split; [intros [] | reflexivity].
    - cbn [map fst] in N. inversion N as [|? ? Nx Nr]; subst. cbn [upsert] in H.
      destruct (beqb n0 term) eqn:E.
      + apply beqb_true_iff in E. subst n0. destruct H as [H|H].
        * inversion H; subst. right. split; [reflexivity|]. left. exists c0. split; [left; reflexivity | reflexivity].
        * left. split; [|right; exact H]. intro E. subst nm. apply Nx. apply in_map_iff. exists (term, cs). split; [reflexivity | exact H].
      + assert (Nt : n0 <> term) by (intro E'; subst; rewrite beqb_refl in E; discriminate).
        destruct H as [H|H].
        * inversion H; subst. left. split; [exact Nt | left; reflexivity].
        * destruct (IH Nr H) as [[H1 H2]|[H1 [ (cs0 & H2 & H3) | [H2 H3] ]]].
          -- left. split; [exact H1 | right; exact H2].
          -- right. split; [exact H1|]. left. exists cs0. split; [right; exact H2 | exact H3].
          -- right. split; [exact H1|]. right. split; [|exact H3]. cbn [map fst]. intros [E'|H4]; [contradiction | contradiction].
  Qed.

  Lemma terms_inv_step bks occ h term : terms_inv bks occ ->
    terms_inv (upsert (consume_subs subs h) (init_subs subs) term bks) (occ ++ [(h, term)]).
  Proof.
    intros (N & Hn & Hc). unfold terms_inv. rewrite upsert_names. split; [|split].
    - destruct (existsb (beqb term) (map fst bks)) eqn:E; [exact N|].
      apply NoDup_app_remove_r with (l' := []). rewrite app_nil_r.
      apply (Permutation_NoDup (l := term :: map fst bks)); [apply Permutation_cons_append|].
      constructor; [|exact N]. intro H. apply existsb_beqb in H. congruence.
    - intro nm. rewrite map_app, in_app_iff. cbn [map snd In].
      destruct (existsb (beqb term) (map fst bks)) eqn:E.
      + rewrite Hn. apply existsb_beqb in E. apply Hn in E. split; [auto|]. intros [H|[<-|[]]]; assumption.
      + rewrite in_app_iff, Hn. cbn [In]. tauto.
    - intros nm cs Hin. rewrite members_occ_app. unfold members_occ at 2. cbn [filter snd].
      destruct (upsert_in _ _ term bks nm cs N Hin) as [[H1 H2]|[H1 [ (cs0 & H2 & H3) | [H2 H3] ]]].
      + replace (beqb nm term) with false
          by (symmetry; apply not_true_is_false; intro H; apply beqb_true_iff in H; contradiction).
        cbn [map]. rewrite app_nil_r. apply Hc. exact H2.
      + subst nm. rewrite beqb_refl. cbn [map fst]. rewrite run_subs_snoc, H3. f_equal. apply Hc. exact H2.
      + subst nm. rewrite beqb_refl. cbn [map fst]. rewrite run_subs_snoc, H3. f_equal.
        assert (Hm : members_occ term occ = []).
        { unfold members_occ. rewrite (filter_ext_in _ (fun _ => false)).
          - clear. induction occ as [|o occ IH]; [reflexivity | exact IH].
          - intros [h' t'] Ho. cbn [snd]. apply not_true_is_false. intro Hb. apply beqb_true_iff in Hb. subst t'.
            apply H2, Hn. apply in_map_iff. exists (h', term). split; [reflexivity | exact Ho]. }
        rewrite Hm. reflexivity.
  Qed.
End TermsInv.

Lemma terms_run_gen t size subs ms : forall bks total occ, terms_inv subs bks occ ->
  exists bks', fold_left (fun k h => consume (ATerms t size subs) h k) ms (KTerms bks total) =
               KTerms bks' (total + Z.of_nat (length ms)) /\
               terms_inv subs bks' (occ ++ occurrences t ms).
Proof.
  induction ms as [|h ms IH]; intros bks total occ I.
  - exists bks. cbn [fold_left length occurrences flat_map]. rewrite Z.add_0_r, app_nil_r. split; [reflexivity | exact I].
  - cbn [fold_left]. rewrite consume_terms.
    assert (Hstep : forall terms bks0 occ0, terms_inv subs bks0 occ0 ->
              terms_inv subs (fold_left (fun b term => upsert (consume_subs subs h) (init_subs subs) term b) terms bks0)
                        (occ0 ++ map (fun term => (h, term)) terms)).
    { induction terms as [|x l IHl]; intros bks0 occ0 I0; [cbn; rewrite app_nil_r; exact I0|].
      cbn [fold_left map]. replace (occ0 ++ (h, x) :: map (fun term => (h, term)) l)
        with ((occ0 ++ [(h, x)]) ++ map (fun term => (h, term)) l) by (rewrite <- app_assoc; reflexivity).
      apply IHl. apply terms_inv_step. exact I0. }
    destruct (IH _ (total + 1) _ (Hstep (tvalues t h) bks occ I)) as (bks' & E & I').
    exists bks'. split.
    + rewrite E. f_equal. cbn [length]. lia.
    + unfold occurrences in *. cbn [flat_map]. rewrite app_assoc. exact I'.
Qed.

(* terms_counts_exact: after all matches, total = number of matches; the buckets are exactly
   the distinct terms of the matched documents, once each; the bucket of term nm holds the
   nested calculators (count first) run over exactly the matched documents carrying nm *)
Theorem terms_counts_exact_all t size subs ms :
  exists bks, run_one (ATerms t size subs) ms = KTerms bks (Z.of_nat (length ms)) /\
    NoDup (map fst bks) /\
    (forall nm, In nm (map fst bks) <-> exists h, In h ms /\ In nm (tvalues t h)) /\
    (forall nm cs, In (nm, cs) bks -> cs = run_subs subs (terms_members t nm ms)).
Proof.
  unfold run_one. cbn [init].
  destruct (terms_run_gen t size subs ms [] 0 []) as (bks & E & (N & Hn & Hc)).
  - split; [constructor|]. split; [intro nm; cbn; tauto | intros nm cs []].
  - exists bks. split; [rewrite E; f_equal|]. split; [exact N|]. split.
    + intro nm. rewrite Hn. cbn [app]. unfold occurrences. rewrite in_map_iff. split.
      * intros ([h term] & E1 & Ho). cbn [snd] in E1. subst term. apply in_flat_map in Ho.
        destruct Ho as (h' & Hh & Hm). apply in_map_iff in Hm. destruct Hm as (x & E2 & Hx). inversion E2; subst.
        exists h. split; assumption.
      * intros (h & Hh & Hx). exists (h, nm). split; [reflexivity|]. apply in_flat_map. exists h. split; [exact Hh|].
        apply in_map_iff. exists nm. split; [reflexivity | exact Hx].
    + intros nm cs Hin. rewrite (Hc nm cs Hin). cbn [app]. rewrite members_occurrences. reflexivity.
Qed.

(* ----- the remainder `other` ----- *)

Definition in_names (t : vsource) (names : list bytes) (h : hit) : bool :=
  existsb (fun nm => existsb (beqb nm) (tvalues t h)) names.

Definition sum_counts (t : vsource) (names : list bytes) (ms : list hit) : Z :=
  fold_right (fun nm acc => Z.of_nat (length (terms_members t nm ms)) + acc) 0 names.

Lemma sum_counts_cons t names h ms :
  sum_counts t names (h :: ms) = sum_counts t names [h] + sum_counts t names ms.
Proof.
  unfold sum_counts. induction names as [|nm names IH]; [reflexivity|]. cbn [fold_right]. rewrite IH.
  unfold terms_members. cbn [flat_map]. rewrite !app_length. cbn [length]. lia.
Qed.

Lemma members_single_length t nm h : length (terms_members t nm [h]) = length (filter (beqb nm) (tvalues t h)).
Proof. unfold terms_members. cbn [flat_map]. rewrite app_nil_r, map_length. reflexivity. Qed.

Lemma sum_counts_single_eq t names h :
  sum_counts t names [h] = fold_right (fun nm acc => Z.of_nat (length (filter (beqb nm) (tvalues t h))) + acc) 0 names.
Proof.
  unfold sum_counts. induction names as [|nm names IH]; [reflexivity|]. cbn [fold_right].
  rewrite IH, members_single_length. reflexivity.
Qed.

Lemma sum_counts_single t names h : NoDup names -> (length (tvalues t h) <= 1)%nat ->
  sum_counts t names [h] = if in_names t names h then 1 else 0.
Proof.
  intros N Hl. rewrite sum_counts_single_eq. unfold in_names.
  destruct (tvalues t h) as [|x [|y l]]; [| |cbn in Hl; lia].
  - clear. induction names as [|nm names IH]; [reflexivity|]. cbn in *. exact IH.
  - set (g := fun nm : bytes => Z.of_nat (length (filter (beqb nm) [x]))).
    change (fold_right (fun nm acc => g nm + acc) 0 names =
            if existsb (fun nm => existsb (beqb nm) [x]) names then 1 else 0).
    induction names as [|nm names IH]; [reflexivity|]. inversion N as [|? ? Nx Nn]; subst.
    cbn [fold_right existsb]. rewrite (IH Nn). unfold g at 1. cbn [filter].
    destruct (beqb nm x) eqn:E; cbn [length orb].
    + apply beqb_true_iff in E. subst nm.
      replace (existsb (fun nm => existsb (beqb nm) [x]) names) with false; [reflexivity|].
      symmetry. apply not_true_is_false. intro H. apply existsb_exists in H. destruct H as (z & Hz & Ez).
      cbn [existsb] in Ez. rewrite orb_false_r in Ez. apply beqb_true_iff in Ez. subst z. contradiction.
    + change (Z.of_nat 0) with 0. rewrite Z.add_0_l. reflexivity.
Qed.

(* for a single-valued field (every matched document has at most one value) and any list of
   distinct returned bucket names: matches - sum of the returned buckets' document counts =
   number of matches lying in no returned bucket (documents without a value included).
   check_obs demands other = total - sum of the returned counts, so Other() accounts for
   exactly those matches. *)
Theorem terms_other_exact_all t names ms : NoDup names -> (forall h, In h ms -> (length (tvalues t h) <= 1)%nat) ->
  Z.of_nat (length ms) - sum_counts t names ms = Z.of_nat (length (filter (fun h => negb (in_names t names h)) ms)).
Proof.
  intros N Hs. induction ms as [|h ms IH].
  - unfold sum_counts. cbn [length filter]. induction names as [|nm names IHn]; [reflexivity|].
    inversion N; subst. cbn [fold_right]. unfold terms_members at 1. cbn [flat_map length].
    specialize (IHn H2). cbn [length] in IHn. lia.
  - rewrite sum_counts_cons, sum_counts_single; [|exact N | apply Hs; left; reflexivity].
    cbn [length filter]. specialize (IH (fun h' Hh => Hs h' (or_intror Hh))).
    destruct (in_names t names h); cbn [negb length]; lia.
Qed.

(* ---------- Merge ---------- *)

Lemma merge_subs_eq subs : forall cs1 cs2,
  (fix go (subs : list (Z * agg)) (cs1 cs2 : list calc) : list calc :=
     match subs, cs1, cs2 with
     | (_, a') :: sr, c1 :: r1, c2 :: r2 => merge a' c1 c2 :: go sr r1 r2
     | _, _, _ => []
     end) subs cs1 cs2 = merge_subs subs cs1 cs2.
Proof.
  induction subs as [|[n a] r IH]; intros [|c1 r1] [|c2 r2]; reflexivity.
Qed.

Lemma all_numbers_app s ms1 ms2 : all_numbers s (ms1 ++ ms2) = all_numbers s ms1 ++ all_numbers s ms2.
Proof. unfold all_numbers. apply flat_map_app. Qed.

Open Scope Q_scope.
Lemma sumQ_app l1 l2 : sumQ (l1 ++ l2) == sumQ l1 + sumQ l2.
Proof.
  unfold sumQ. induction l1 as [|x l1 IH]; cbn [app fold_right]; [ring|]. rewrite IH. ring.
Qed.

(* merge_exact, sums (Sum, CountMatches): merging two shards' calculators gives the exact sum over
   both shards' values = what one calculator over the concatenated match list holds *)
Theorem merge_sum_exact_all s ms1 ms2 q1 q2 :
  all_numbers s ms1 = map XFin q1 -> all_numbers s ms2 = map XFin q2 ->
  exists q q', merge (a_sum s) (run_one (a_sum s) ms1) (run_one (a_sum s) ms2) = KVal (XFin q) /\
               run_one (a_sum s) (ms1 ++ ms2) = KVal (XFin q') /\ q == sumQ (q1 ++ q2) /\ q' == sumQ (q1 ++ q2).
Proof.
  intros H1 H2.
  destruct (sum_exact_all s ms1 q1 H1) as (a & E1 & Ha). destruct (sum_exact_all s ms2 q2 H2) as (b & E2 & Hb).
  assert (H12 : all_numbers s (ms1 ++ ms2) = map XFin (q1 ++ q2)) by (rewrite all_numbers_app, H1, H2, map_app; reflexivity).
  destruct (sum_exact_all s (ms1 ++ ms2) _ H12) as (c & E3 & Hc).
  exists (Qred (a + b)), c. rewrite E1, E2. split; [reflexivity|]. split; [exact E3|]. split; [|exact Hc].
  rewrite Qred_correct, Ha, Hb, sumQ_app. reflexivity.
Qed.

Theorem merge_count_exact_all ms1 ms2 :
  exists q, merge a_count (run_one a_count ms1) (run_one a_count ms2) = KVal (XFin q) /\
            q == inject_Z (Z.of_nat (length (ms1 ++ ms2))).
Proof.
  destruct (merge_sum_exact_all NSCount ms1 ms2 _ _ (all_numbers_count ms1) (all_numbers_count ms2)) as (q & q' & E & _ & Hq & _).
  exists q. split; [exact E|]. rewrite Hq, <- map_app. apply sumQ_ones.
Qed.

(* merge_exact, Min: +Inf when neither shard has a value, otherwise a member of the union of the
   values bounding all of them: the specification min_exact gives for the concatenated list *)
Theorem merge_min_exact_all s ms1 ms2 q1 q2 :
  all_numbers s ms1 = map XFin q1 -> all_numbers s ms2 = map XFin q2 ->
  let v := merge (a_min s) (run_one (a_min s) ms1) (run_one (a_min s) ms2) in
  (q1 ++ q2 = [] -> v = KVal (XInf false)) /\
  (q1 ++ q2 <> [] -> exists m, v = KVal (XFin m) /\ In m (q1 ++ q2) /\ forall q, In q (q1 ++ q2) -> m <= q).
Proof.
  intros H1 H2.
  destruct (min_exact_all s ms1 q1 H1) as [A1 A2]. destruct (min_exact_all s ms2 q2 H2) as [B1 B2].
  cbv zeta. split.
  - intro E. apply app_eq_nil in E. destruct E as [-> ->]. rewrite (A1 eq_refl), (B1 eq_refl). reflexivity.
  - intro N. destruct q1 as [|x1 t1]; destruct q2 as [|x2 t2]; try (exfalso; apply N; reflexivity).
    + rewrite (A1 eq_refl). destruct (B2 ltac:(discriminate)) as (m & E & Hin & Hall). rewrite E.
      exists m. cbn [merge a_min single_step xlt negb]. split; [reflexivity|]. split; [exact Hin | exact Hall].
    + rewrite (B1 eq_refl). destruct (A2 ltac:(discriminate)) as (m & E & Hin & Hall). rewrite E.
      exists m. cbn [merge a_min single_step xlt negb]. rewrite app_nil_r. split; [reflexivity|]. split; [exact Hin | exact Hall].
    + destruct (A2 ltac:(discriminate)) as (m1 & E1 & Hin1 & Hall1). destruct (B2 ltac:(discriminate)) as (m2 & E2 & Hin2 & Hall2).
      rewrite E1, E2. cbn [merge a_min single_step xlt].
      destruct (Qle_bool m1 m2) eqn:E; cbn [negb].
      * apply Qle_bool_iff in E. exists m1. split; [reflexivity|]. split; [apply in_or_app; left; exact Hin1|].
        intros q Hq. apply in_app_or in Hq. destruct Hq as [Hq|Hq]; [apply Hall1; exact Hq|].
        apply Qle_trans with m2; [exact E | apply Hall2; exact Hq].
      * assert (Hlt : m2 <= m1).
        { destruct (Qlt_le_dec m2 m1) as [Hl|Hg]; [apply Qlt_le_weak; exact Hl|]. apply Qle_bool_iff in Hg. congruence. }
        exists m2. split; [reflexivity|]. split; [apply in_or_app; right; exact Hin2|].
        intros q Hq. apply in_app_or in Hq. destruct Hq as [Hq|Hq]; [|apply Hall2; exact Hq].
        apply Qle_trans with m1; [exact Hlt | apply Hall1; exact Hq].
Qed.

Theorem merge_max_exact_all s ms1 ms2 q1 q2 :
  all_numbers s ms1 = map XFin q1 -> all_numbers s ms2 = map XFin q2 ->
  let v := merge (a_max s) (run_one (a_max s) ms1) (run_one (a_max s) ms2) in
  (q1 ++ q2 = [] -> v = KVal (XInf true)) /\
  (q1 ++ q2 <> [] -> exists m, v = KVal (XFin m) /\ In m (q1 ++ q2) /\ forall q, In q (q1 ++ q2) -> q <= m).
Proof.
  intros H1 H2.
  destruct (max_exact_all s ms1 q1 H1) as [A1 A2]. destruct (max_exact_all s ms2 q2 H2) as [B1 B2].
  cbv zeta. split.
  - intro E. apply app_eq_nil in E. destruct E as [-> ->]. rewrite (A1 eq_refl), (B1 eq_refl). reflexivity.
  - intro N. destruct q1 as [|x1 t1]; destruct q2 as [|x2 t2]; try (exfalso; apply N; reflexivity).
    + rewrite (A1 eq_refl). destruct (B2 ltac:(discriminate)) as (m & E & Hin & Hall). rewrite E.
      exists m. cbn [merge a_max single_step xlt]. split; [reflexivity|]. split; [exact Hin | exact Hall].
    + rewrite (B1 eq_refl). destruct (A2 ltac:(discriminate)) as (m & E & Hin & Hall). rewrite E.
      exists m. cbn [merge a_max single_step xlt negb]. rewrite app_nil_r. split; [reflexivity|]. split; [exact Hin | exact Hall].
    + destruct (A2 ltac:(discriminate)) as (m1 & E1 & Hin1 & Hall1). destruct (B2 ltac:(discriminate)) as (m2 & E2 & Hin2 & Hall2).
      rewrite E1, E2. cbn [merge a_max single_step xlt].
      destruct (Qle_bool m2 m1) eqn:E; cbn [negb].
      * apply Qle_bool_iff in E. exists m1. split; [reflexivity|]. split; [apply in_or_app; left; exact Hin1|].
        intros q Hq. apply in_app_or in Hq. destruct Hq as [Hq|Hq]; [apply Hall1; exact Hq|].
        apply Qle_trans with m2; [apply Hall2; exact Hq | exact E].
      * assert (Hlt : m1 <= m2).
        { destruct (Qlt_le_dec m1 m2) as [Hl|Hg]; [apply Qlt_le_weak; exact Hl|]. apply Qle_bool_iff in Hg. congruence. }
        exists m2. split; [reflexivity|]. split; [apply in_or_app; right; exact Hin2|].
        intros q Hq. apply in_app_or in Hq. destruct Hq as [Hq|Hq]; [|apply Hall2; exact Hq].
        apply Qle_trans with m1; [apply Hall1; exact Hq | exact Hlt].
Qed.

Lemma weighted_values_app s w ms1 ms2 : weighted_values s w (ms1 ++ ms2) = weighted_values s w ms1 ++ weighted_values s w ms2.
Proof. unfold weighted_values. apply flat_map_app. Qed.

Lemma sum_vw_app l1 l2 : sum_vw (l1 ++ l2) == sum_vw l1 + sum_vw l2.
Proof. unfold sum_vw. induction l1 as [|x l1 IH]; cbn [app fold_right]; [ring|]. rewrite IH. ring. Qed.

Lemma sum_w_app l1 l2 : sum_w (l1 ++ l2) == sum_w l1 + sum_w l2.
Proof. unfold sum_w. induction l1 as [|x l1 IH]; cbn [app fold_right]; [ring|]. rewrite IH. ring. Qed.

(* merge_exact, Avg / WeightedAvg: numerators and denominators add up to those of the concatenation *)
Theorem merge_wavg_exact_all s w ms1 ms2 p1 p2 :
  weighted_values s w ms1 = map (fun p => (XFin (fst p), XFin (snd p))) p1 ->
  weighted_values s w ms2 = map (fun p => (XFin (fst p), XFin (snd p))) p2 ->
  exists a b, merge (AWAvg s w) (run_one (AWAvg s w) ms1) (run_one (AWAvg s w) ms2) = KWAvg (XFin a) (XFin b) /\
              a == sum_vw (p1 ++ p2) /\ b == sum_w (p1 ++ p2).
Proof.
  intros H1 H2.
  destruct (wavg_exact_all s w ms1 p1 H1) as (a1 & b1 & E1 & Ha1 & Hb1 & _).
  destruct (wavg_exact_all s w ms2 p2 H2) as (a2 & b2 & E2 & Ha2 & Hb2 & _).
  exists (Qred (a1 + a2)), (Qred (b1 + b2)). rewrite E1, E2. split; [reflexivity|].
  rewrite !Qred_correct, Ha1, Ha2, Hb1, Hb2, sum_vw_app, sum_w_app. split; reflexivity.
Qed.
Open Scope Z_scope.

(* merge_exact, sketches: the merged calculator stands for a sketch over the concatenation *)
Theorem merge_card_exact_all t ms1 ms2 :
  merge (ACard t) (run_one (ACard t) ms1) (run_one (ACard t) ms2) = run_one (ACard t) (ms1 ++ ms2).
Proof. rewrite !cardinality_fed_exactly_all. cbn [merge]. rewrite flat_map_app. reflexivity. Qed.

Theorem merge_quant_exact_all s ms1 ms2 :
  merge (AQuant s) (run_one (AQuant s) ms1) (run_one (AQuant s) ms2) = run_one (AQuant s) (ms1 ++ ms2).
Proof. rewrite !quantile_fed_exactly_all. cbn [merge]. rewrite all_numbers_app. reflexivity. Qed.

(* the assumption about the third-party sketches under which the two theorems above speak about
   the implementation: merging two sketches = one sketch fed both inputs *)
Section SketchMerge.
  Variables (S V : Type) (sketch : list V -> S) (smerge : S -> S -> S).
  Hypothesis sketch_merge : forall a b, smerge (sketch a) (sketch b) = sketch (a ++ b).
  Lemma sketch_merge_fed (f : hit -> list V) ms1 ms2 :
    smerge (sketch (flat_map f ms1)) (sketch (flat_map f ms2)) = sketch (flat_map f (ms1 ++ ms2)).
  Proof. rewrite sketch_merge, flat_map_app. reflexivity. Qed.
End SketchMerge.

(* ----- ranges ----- *)

Lemma merge_buckets_map {R} mb (f g : R -> list calc) ranges :
  merge_buckets mb (map f ranges) (map g ranges) = map (fun r => mb (f r) (g r)) ranges.
Proof. induction ranges as [|r rr IH]; [reflexivity|]. cbn [map merge_buckets]. rewrite IH. reflexivity. Qed.

Lemma merge_buckets_ext mb mb' bs1 : forall bs2, (forall a b, mb a b = mb' a b) -> merge_buckets mb bs1 bs2 = merge_buckets mb' bs1 bs2.
Proof. induction bs1 as [|c1 r1 IH]; intros [|c2 r2] E; try reflexivity. cbn [merge_buckets]. rewrite E, IH by exact E. reflexivity. Qed.

Lemma range_members_app {R V} (inr : R -> V -> bool) vals r ms1 ms2 :
  range_members inr vals r (ms1 ++ ms2) = range_members inr vals r ms1 ++ range_members inr vals r ms2.
Proof. unfold range_members. apply flat_map_app. Qed.

(* merge_exact, ranges: bucket by bucket, the merge of the two shards' nested calculators, each of
   which ran over its shard's part of the bucket; the bucket of the concatenation is the
   concatenation of the parts (range_members_app), so the metric theorems apply bucket-wise *)
Theorem merge_range_exact_all s ranges subs ms1 ms2 :
  merge (ARange s ranges subs) (run_one (ARange s ranges subs) ms1) (run_one (ARange s ranges subs) ms2) =
  KBuckets (map (fun r => merge_subs subs (run_subs subs (range_members in_range (numbers s) r ms1))
                                          (run_subs subs (range_members in_range (numbers s) r ms2))) ranges).
Proof.
  rewrite !range_counts_exact_all. cbn [merge]. rewrite !map_length, Nat.eqb_refl. f_equal.
  rewrite (merge_buckets_ext _ (merge_subs subs)) by (intros; apply merge_subs_eq).
  apply merge_buckets_map.
Qed.

Theorem merge_date_range_exact_all f ranges subs ms1 ms2 :
  merge (ADateRange f ranges subs) (run_one (ADateRange f ranges subs) ms1) (run_one (ADateRange f ranges subs) ms2) =
  KBuckets (map (fun r => merge_subs subs (run_subs subs (range_members in_date_range (dates f) r ms1))
                                          (run_subs subs (range_members in_date_range (dates f) r ms2))) ranges).
Proof.
  rewrite !date_range_counts_exact_all. cbn [merge]. rewrite !map_length, Nat.eqb_refl. f_equal.
  rewrite (merge_buckets_ext _ (merge_subs subs)) by (intros; apply merge_subs_eq).
  apply merge_buckets_map.
Qed.

(* merging buckets = merging their calculators one by one *)
Lemma merge_subs_each subs : forall cs1 cs2 (f g : agg -> calc),
  cs1 = map (fun p => f (snd p)) subs -> cs2 = map (fun p => g (snd p)) subs ->
  merge_subs subs cs1 cs2 = map (fun p => merge (snd p) (f (snd p)) (g (snd p))) subs.
Proof.
  induction subs as [|[n a] r IH]; intros cs1 cs2 f g -> ->; [reflexivity|].
  cbn [map merge_subs snd]. f_equal. apply IH; reflexivity.
Qed.

(* ----- terms ----- *)

Section MergeTerms.
  Variable mb : list calc -> list calc -> list calc.

  Lemma merge_into_names b1 ob :
    map fst (merge_into mb b1 ob) =
    if existsb (beqb (fst ob)) (map fst b1) then map fst b1 else map fst b1 ++ [fst ob].
  Proof.
    induction b1 as [|[nm cs] r IH]; [reflexivity|]. cbn [merge_into map fst existsb].
    destruct (beqb nm (fst ob)) eqn:E.
    - apply beqb_true_iff in E. rewrite <- E. rewrite beqb_refl. reflexivity.
    - replace (beqb (fst ob) nm) with false.
      + cbn [orb map fst]. rewrite IH. destruct (existsb (beqb (fst ob)) (map fst r)); reflexivity.
      + symmetry. apply not_true_is_false. intro H. apply beqb_true_iff in H. rewrite H, beqb_refl in E. discriminate.
  Qed.

  Lemma merge_into_in b1 nm2 c2 nm cs : NoDup (map fst b1) -> In (nm, cs) (merge_into mb b1 (nm2, c2)) ->
    (nm <> nm2 /\ In (nm, cs) b1) \/
    (nm = nm2 /\ ((exists c1, In (nm2, c1) b1 /\ cs = mb c1 c2) \/ (~ In nm2 (map fst b1) /\ cs = c2))).
  Proof.
    induction b1 as [|[n0 c0] r IH]; intros N H.
    - cbn in H. destruct H as [E|[]]. inversion E; subst. right. split; [reflexivity|]. right. split; [intros [] | reflexivity].
    - cbn [map fst] in N. inversion N as [|? ? Nx Nr]; subst. cbn [merge_into fst snd] in H.
      destruct (beqb n0 nm2) eqn:E.
      + apply beqb_true_iff in E. subst n0. destruct H as [H|H].
        * inversion H; subst. right. split; [reflexivity|]. left. exists c0. split; [left; reflexivity | reflexivity].
        * left. split; [|right; exact H]. intro E. subst nm. apply Nx. apply in_map_iff. exists (nm2, cs). split; [reflexivity | exact H].
      + assert (Nt : n0 <> nm2) by (intro E'; subst; rewrite beqb_refl in E; discriminate).
        destruct H as [H|H].
        * inversion H; subst. left. split; [exact Nt | left; reflexivity].
        * destruct (IH Nr H) as [[H1 H2]|[H1 [ (cs0 & H2 & H3) | [H2 H3] ]]].
          -- left. split; [exact H1 | right; exact H2].
          -- right. split; [exact H1|]. left. exists cs0. split; [right; exact H2 | exact H3].
          -- right. split; [exact H1|]. right. split; [|exact H3]. cbn [map fst]. intros [E'|H4]; [contradiction | contradiction].
  Qed.

  Lemma merge_into_nodup b1 ob : NoDup (map fst b1) -> NoDup (map fst (merge_into mb b1 ob)).
  Proof.
    intro N. rewrite merge_into_names. destruct (existsb (beqb (fst ob)) (map fst b1)) eqn:E; [exact N|].
    apply NoDup_app_remove_r with (l' := []). rewrite app_nil_r.
    apply (Permutation_NoDup (l := fst ob :: map fst b1)); [apply Permutation_cons_append|].
    constructor; [|exact N]. intro H. apply existsb_beqb in H. congruence.
  Qed.

  Lemma merge_into_names_in b1 ob nm : In nm (map fst (merge_into mb b1 ob)) <-> In nm (map fst b1) \/ nm = fst ob.
  Proof.
    rewrite merge_into_names. destruct (existsb (beqb (fst ob)) (map fst b1)) eqn:E.
    - apply existsb_beqb in E. split; [auto|]. intros [H| ->]; assumption.
    - rewrite in_app_iff. cbn [In]. split; [intros [H|[H|[]]]; auto | intros [H|H]; auto].
  Qed.

  (* the merged bucket list of two lists with distinct names *)
  Lemma merge_terms_spec b2 : forall b1, NoDup (map fst b1) -> NoDup (map fst b2) ->
    let r := merge_terms mb b1 b2 in
    NoDup (map fst r) /\
    (forall nm, In nm (map fst r) <-> In nm (map fst b1) \/ In nm (map fst b2)) /\
    (forall nm cs, In (nm, cs) r ->
       (exists c1 c2, In (nm, c1) b1 /\ In (nm, c2) b2 /\ cs = mb c1 c2) \/
       (In (nm, cs) b1 /\ ~ In nm (map fst b2)) \/
       (In (nm, cs) b2 /\ ~ In nm (map fst b1))).
  Proof.
    induction b2 as [|[nm2 c2] t IH]; intros b1 N1 N2; cbv zeta.
    - cbn [merge_terms fold_left map]. split; [exact N1|]. split; [intro nm; cbn; tauto|].
      intros nm cs H. right. left. split; [exact H | intros []].
    - cbn [map fst] in N2. inversion N2 as [|? ? Nx Nt]; subst.
      unfold merge_terms. cbn [fold_left]. fold (merge_terms mb (merge_into mb b1 (nm2, c2)) t).
      destruct (IH (merge_into mb b1 (nm2, c2)) (merge_into_nodup b1 (nm2, c2) N1) Nt) as (R1 & R2 & R3).
      split; [exact R1|]. split.
      + intro nm. rewrite R2, merge_into_names_in. cbn [fst map In]. split; [intros [[H|H]|H]; auto | intros [H|[H|H]]; auto].
      + intros nm cs H. destruct (R3 nm cs H) as [(c1' & c2' & H1 & H2 & H3)|[[H1 H2]|[H1 H2]]].
        * assert (Nn : nm <> nm2).
          { intro E. subst nm. apply Nx. apply in_map_iff. exists (nm2, c2'). split; [reflexivity | exact H2]. }
          destruct (merge_into_in b1 nm2 c2 nm c1' N1 H1) as [[_ H4]|[H4 _]]; [|contradiction].
          left. exists c1', c2'. split; [exact H4|]. split; [right; exact H2 | exact H3].
        * destruct (merge_into_in b1 nm2 c2 nm cs N1 H1) as [[H4 H5]|[H4 [ (c1 & H5 & H6) | [H5 H6] ]]].
          -- right. left. split; [exact H5|]. cbn [map fst]. intros [E|H6]; [apply H4; symmetry; exact E | contradiction].
          -- subst nm. left. exists c1, c2. split; [exact H5|]. split; [left; reflexivity | exact H6].
          -- subst nm cs. right. right. split; [left; reflexivity | exact H5].
        * right. right. split; [right; exact H1|]. intro H3. apply H2. apply merge_into_names_in. left. exact H3.
  Qed.
End MergeTerms.

(* merge_exact, terms, when neither side was trimmed (size at least the number of distinct terms of
   each shard): totals add up to the number of matches of the concatenation; one bucket per term
   of either shard; a term of both shards holds the merge of the two shards' nested calculators,
   a term of one shard that shard's calculators *)
Theorem merge_terms_exact_all t size subs ms1 ms2 :
  exists bks1 bks2 bks,
    run_one (ATerms t size subs) ms1 = KTerms bks1 (Z.of_nat (length ms1)) /\
    run_one (ATerms t size subs) ms2 = KTerms bks2 (Z.of_nat (length ms2)) /\
    merge (ATerms t size subs) (KTerms bks1 (Z.of_nat (length ms1))) (KTerms bks2 (Z.of_nat (length ms2))) =
      KTerms bks (Z.of_nat (length (ms1 ++ ms2))) /\
    NoDup (map fst bks) /\
    (forall nm, In nm (map fst bks) <-> exists h, In h (ms1 ++ ms2) /\ In nm (tvalues t h)) /\
    (forall nm cs, In (nm, cs) bks ->
       let c1 := run_subs subs (terms_members t nm ms1) in
       let c2 := run_subs subs (terms_members t nm ms2) in
       (In nm (map fst bks1) /\ In nm (map fst bks2) /\ cs = merge_subs subs c1 c2) \/
       (In nm (map fst bks1) /\ ~ In nm (map fst bks2) /\ cs = c1) \/
       (~ In nm (map fst bks1) /\ In nm (map fst bks2) /\ cs = c2)).
Proof.
  destruct (terms_counts_exact_all t size subs ms1) as (bks1 & E1 & N1 & Hn1 & Hc1).
  destruct (terms_counts_exact_all t size subs ms2) as (bks2 & E2 & N2 & Hn2 & Hc2).
  exists bks1, bks2, (merge_terms (merge_subs subs) bks1 bks2).
  split; [exact E1|]. split; [exact E2|].
  destruct (merge_terms_spec (merge_subs subs) bks2 bks1 N1 N2) as (R1 & R2 & R3).
  split.
  - cbn [merge]. f_equal. rewrite app_length. lia.
  - split; [exact R1|]. split.
    + intro nm. rewrite R2, Hn1, Hn2. split.
      * intros [(h & Hh & Hx)|(h & Hh & Hx)]; exists h; (split; [apply in_or_app; auto | exact Hx]).
      * intros (h & Hh & Hx). apply in_app_or in Hh. destruct Hh as [Hh|Hh]; [left | right]; exists h; split; assumption.
    + intros nm cs Hin. cbv zeta. destruct (R3 nm cs Hin) as [(c1 & c2 & H1 & H2 & H3)|[[H1 H2]|[H1 H2]]].
      * left. split; [apply in_map_iff; exists (nm, c1); split; [reflexivity | exact H1]|].
        split; [apply in_map_iff; exists (nm, c2); split; [reflexivity | exact H2]|].
        rewrite H3, (Hc1 nm c1 H1), (Hc2 nm c2 H2). reflexivity.
      * right. left. split; [apply in_map_iff; exists (nm, cs); split; [reflexivity | exact H1]|].
        split; [exact H2 | apply Hc1; exact H1].
      * right. right. split; [exact H2|]. split; [apply in_map_iff; exists (nm, cs); split; [reflexivity | exact H1]|].
        apply Hc2; exact H1.
Qed.

(* when a side WAS trimmed the merge cannot be exact (the usual approximation of distributed terms
   aggregations): shard 1 = terms a, a, b trimmed to size 1 keeps [a:2]; shard 2 = b, b keeps
   [b:2]; merged b has count 2, while b occurs 3 times in the concatenation *)
Definition mk_term_hit (n : Z) (term : Z) : hit :=
  {| h_num := n; h_raw := dummy_raw; h_dv := [(0, [[term]])]; h_sort := [] |}.

Example terms_merge_trimmed_ex :
  let a := ATerms (VSField 0) 1 [(count_id, a_count)] in
  let s1 := [mk_term_hit 1 97; mk_term_hit 2 97; mk_term_hit 3 98] in
  let s2 := [mk_term_hit 1 98; mk_term_hit 2 98] in
  let f1 := finish_with a (run_one a s1) (OTerms [([97], [])] 1) in
  let f2 := finish_with a (run_one a s2) (OTerms [([98], [])] 0) in
  merge a f1 f2 = KTerms [([97], [KVal (XFin 2)]); ([98], [KVal (XFin 2)])] 5 /\
  run_one a (s1 ++ s2) = KTerms [([97], [KVal (XFin 2)]); ([98], [KVal (XFin 3)])] 5.
Proof. vm_compute. split; reflexivity. Qed.
