(* Search/TopN.v — executable model of search/collector/topn.go (newTopNCollector, Collect,
   collectSingle, finalizeResults), collector/slice.go, collector/heap.go (through the shared
   container/heap model Base/GoHeap.v), collector/iterator.go and the request front end
   search.go (TopNSearch.Collector: n / from / After / Before).
   The collector is modelled jointly with the aggregation bucket it feeds: the bucket state is
   an arbitrary type B with a `consume` step (instantiated by Search/Aggs.v), so that the
   position of bucket.Consume relative to the paging filter and the pruning bound is part of
   the model.  No proofs in this file. *)
From Coq Require Import ZArith List Bool Arith.
From Bluge Require Import Base.Int64 Base.Res Base.GoHeap Base.GoSort Gen.ParamsTopN Search.Numeric Search.Sort.
Import ListNotations.
Open Scope Z_scope.

Definition dummy_raw : rawhit := {| r_doc := 0; r_score := 0; r_dv := []; r_tab := [] |}.
Definition dummy_hit : hit := {| h_num := 0; h_raw := dummy_raw; h_dv := []; h_sort := [] |}.

(* ---------- collector/slice.go ---------- *)
Section Stores.
  Variable cmp : hit -> hit -> Z.      (* collectorCompare = hc.sort.Compare *)

  (* slice.go:41-53 add: `for i := len; i > 0; i-- { if compare(doc, slice[i-1]) >= 0 { break } }`
     then insert at i.  rl is the slice read from its end. *)
  Fixpoint add_from_end (d : hit) (rl : list hit) : list hit :=
    match rl with
    | [] => [d]
    | h :: t => if 0 <=? cmp d h then d :: rl else h :: add_from_end d t
    end.
  Definition slice_add (d : hit) (l : list hit) : list hit := rev (add_from_end d (rev l)).

  (* slice.go:32-39 AddNotExceedingSize + removeLast *)
  Definition slice_add_nes (d : hit) (l : list hit) (size : nat) : list hit * option hit :=
    let l' := slice_add d l in
    if (size <? length l')%nat then (removelast l', Some (last l' d)) else (l', None).

  (* slice.go:61-72 Final (skip >= 0 here; the fixup only completes locations) *)
  Definition slice_final (skip : nat) (l : list hit) : list hit := skipn skip l.

  (* ---------- collector/heap.go ---------- *)
  (* heap.go:77-80 Less: so := compare(heap[i], heap[j]); return -so < 0 *)
  Definition heap_less (a b : hit) : bool := - cmp a b <? 0.

  (* heap.go:36-51 AddNotExceedingSize: heap.Push, then heap.Pop when Len() > size *)
  Definition heap_add_nes (d : hit) (h : list hit) (size : nat) : list hit * option hit :=
    let h' := heap_push heap_less dummy_hit h d in
    if (size <? length h')%nat then
      match heap_pop heap_less dummy_hit h' with
      | Some (x, h'') => (h'', Some x)
      | None => (h', None)
      end
    else (h', None).

  (* heap.go:53-69 Final: size := count - skip; rv[size-1] .. rv[0] are filled by successive pops *)
  Fixpoint heap_drain (n : nat) (h acc : list hit) : list hit :=
    match n with
    | O => acc
    | S n' => match heap_pop heap_less dummy_hit h with
              | Some (x, h') => heap_drain n' h' (x :: acc)
              | None => acc
              end
    end.
  Definition heap_final (skip : nat) (h : list hit) : list hit :=
    if (length h <=? skip)%nat then [] else heap_drain (length h - skip) h [].
End Stores.

Inductive store :=
| SSlice (l : list hit)
| SHeap (h : list hit).

Definition store_add_nes (cmp : hit -> hit -> Z) (d : hit) (s : store) (size : nat) : store * option hit :=
  match s with
  | SSlice l => let '(l', r) := slice_add_nes cmp d l size in (SSlice l', r)
  | SHeap h => let '(h', r) := heap_add_nes cmp d h size in (SHeap h', r)
  end.

Definition store_final (cmp : hit -> hit -> Z) (skip : nat) (s : store) : list hit :=
  match s with
  | SSlice l => slice_final skip l
  | SHeap h => heap_final cmp skip h
  end.

Definition store_elems (s : store) : list hit := match s with SSlice l => l | SHeap h => h end.

(* ---------- collector/topn.go ---------- *)
Record coll := {
  c_cap : nat;                       (* size + skip: what the store may hold *)
  c_skip : nat;
  c_order : list sortspec;
  c_reverse : bool;
  c_needed : list Z;                 (* neededFields: sort.Fields() ++ aggs.Fields() *)
  c_after : option (list bytes);     (* searchAfter.SortValue *)
  c_store : store;
  c_lowest : option hit              (* lowestMatchOutsideResults *)
}.

(* topn.go:84-118 newTopNCollector: the store is chosen by size+skip > switchFromSliceToHeap *)
Definition new_store (cap : nat) : store :=
  if switch_from_slice_to_heap <? Z.of_nat cap then SHeap [] else SSlice [].

Definition new_collector (cap skip : nat) (order : list sortspec) (reverse : bool)
           (after : option (list bytes)) (agg_fields : list Z) : coll :=
  {| c_cap := cap; c_skip := skip; c_order := order; c_reverse := reverse;
     c_needed := order_fields order ++ agg_fields; c_after := after;
     c_store := new_store cap; c_lowest := None |}.

Definition set_store (c : coll) (s : store) (lo : option hit) : coll :=
  {| c_cap := c_cap c; c_skip := c_skip c; c_order := c_order c; c_reverse := c_reverse c;
     c_needed := c_needed c; c_after := c_after c; c_store := s; c_lowest := lo |}.

(* the match as collectSingle sees it after topn.go:179-187: doc values of the needed fields
   loaded (only when there is a needed field), sort value computed *)
Definition prepare (needed : list Z) (order : list sortspec) (num : Z) (r : rawhit) : hit :=
  compute order {| h_num := num; h_raw := r;
                   h_dv := match needed with [] => [] | _ => load_doc_values needed r end;
                   h_sort := [] |}.

(* topn.go:197-205: exact sort-key matches are skipped too: the pseudo match takes the hit's number *)
Definition after_skips (descs : list bool) (after : option (list bytes)) (d : hit) : bool :=
  match after with
  | None => false
  | Some a => compare descs d {| h_num := h_num d; h_raw := dummy_raw; h_dv := []; h_sort := a |} <=? 0
  end.

Section Collect.
  Context {B : Type}.
  Variable consume : hit -> B -> B.    (* bucket.Consume(d), topn.go:190 *)

  (* topn.go:176-247 collectSingle on the prepared match d *)
  Definition collect_hit (c : coll) (b : B) (d : hit) : coll * B :=
    let cmp := compare (descs_of (c_order c)) in
    let b' := consume d b in                                             (* :190 *)
    if after_skips (descs_of (c_order c)) (c_after c) d then (c, b')      (* :195-205 *)
    else
      let pruned := match c_lowest c with
                    | Some lo => 0 <=? cmp d lo                           (* :210-217 *)
                    | None => false
                    end in
      if pruned then (c, b')
      else
        let '(s', removed) := store_add_nes cmp d (c_store c) (c_cap c) in   (* :219 *)
        let lo' := match removed with
                   | None => c_lowest c
                   | Some r => match c_lowest c with
                               | None => Some r                           (* :221-222 *)
                               | Some lo => if cmp r lo <? 0 then Some r else Some lo  (* :224-229 *)
                               end
                   end in
        (set_store c s' lo', b').

  (* topn.go:150-163: hitNumber++; next.HitNumber = hitNumber; collectSingle *)
  Fixpoint collect_loop (c : coll) (b : B) (num : Z) (hits : list rawhit) : coll * B :=
    match hits with
    | [] => (c, b)
    | r :: t =>
        let d := prepare (c_needed c) (c_order c) (num + 1) r in
        let '(c', b') := collect_hit c b d in
        collect_loop c' b' (num + 1) t
    end.

  (* topn.go:252-264 finalizeResults *)
  Definition finalize (c : coll) : list hit :=
    let l := store_final (compare (descs_of (c_order c))) (c_skip c) (c_store c) in
    if c_reverse c then rev l else l.

  Definition collect (c : coll) (b0 : B) (hits : list rawhit) : list hit * B :=
    let '(c', b') := collect_loop c b0 0 hits in (finalize c', b').
End Collect.

(* hits as numbered and prepared by Collect, independent of any store *)
Fixpoint prepare_all (needed : list Z) (order : list sortspec) (num : Z) (hits : list rawhit) : list hit :=
  match hits with
  | [] => []
  | r :: t => prepare needed order (num + 1) r :: prepare_all needed order (num + 1) t
  end.

(* ---------- run-time panics of the entry points ---------- *)

(* Compare(d, searchAfter) reads searchAfter.SortValue[x] while the earlier components tie *)
Fixpoint cmp_keys_in_range (descs : list bool) (a b : list bytes) : bool :=
  match descs with
  | [] => true
  | _ :: ds =>
      match a, b with
      | x :: a', y :: b' => if bcmp x y =? 0 then cmp_keys_in_range ds a' b' else true
      | _, _ => false
      end
  end.

Inductive paging :=
| PFrom (from : Z)                     (* SetFrom *)
| PAfter (key : list bytes)            (* After(key) *)
| PBefore (key : list bytes).          (* Before(key): s.after = key, s.reversed = true *)

(* collector.NewTopNCollector(size, skip, sort) / NewTopNCollectorAfter(size, sort, after, reverse)
   called directly.  topn.go:96: make(..., 0, backingSize) panics for a negative capacity; a
   negative skip panics in Final (slice[skip] / heap.Pop on an empty heap).  size + skip = -1
   behaves as 0 (every added hit is removed again). *)
(* topn.go:92-95: backingSize = size+skip+1, capped at PreAllocSizeSkipCap+1.  It is only the
   capacity handed to make() (and the size of the match pool): the limit given to
   AddNotExceedingSize stays size+skip (topn.go:219), so nothing else in the model reads it. *)
Definition backing_size (size skip : Z) : Z :=
  if prealloc_size_skip_cap <? size + skip then prealloc_size_skip_cap + 1 else size + skip + 1.

Definition direct_collector (size skip : Z) (o : list sortspec) (rev : bool)
           (after : option (list bytes)) (agg_fields : list Z) : res coll :=
  if (backing_size size skip <? 0) || (skip <? 0) then Panic 1
  else Ok (new_collector (Z.to_nat (size + skip)) (Z.to_nat skip) o rev after agg_fields).

(* search.go:169-181 TopNSearch.Collector *)
Definition request_collector (n : Z) (order : list sortspec) (p : paging) (agg_fields : list Z) : res coll :=
  match p with
  | PFrom from => direct_collector n from order false None agg_fields
  | PAfter k => direct_collector n 0 order false (Some k) agg_fields
  | PBefore k => direct_collector n 0 (reverse_order order) true (Some k) agg_fields
  end.

Section Search.
  Context {B : Type}.
  Variable consume : hit -> B -> B.

  Definition run_collector (c : coll) (b0 : B) (hits : list rawhit) : res (list hit * B) :=
    let prepared := prepare_all (c_needed c) (c_order c) 0 hits in
    let in_range := match c_after c with
                    | None => true
                    | Some a => forallb (fun d => cmp_keys_in_range (descs_of (c_order c)) (h_sort d) a) prepared
                    end in
    if in_range then Ok (collect consume c b0 hits) else Panic 2.

  Definition topn_search (n : Z) (order : list sortspec) (p : paging) (agg_fields : list Z)
             (b0 : B) (hits : list rawhit) : res (list hit * B) :=
    c <- request_collector n order p agg_fields ;;
    run_collector c b0 hits.
End Search.

(* the paging protocol of the property: first page with From(0), every further page with
   After(sort value of the last hit of the previous page), until a page comes back empty *)
Fixpoint after_chain {B : Type} (consume : hit -> B -> B) (fuel : nat) (n : Z) (order : list sortspec)
         (aggf : list Z) (b0 : B) (hits : list rawhit) (p : paging) : res (list hit) :=
  match fuel with
  | O => OutOfFuel
  | S f =>
      page <- rmap fst (topn_search consume n order p aggf b0 hits) ;;
      match page with
      | [] => Ok []
      | _ => rest <- after_chain consume f n order aggf b0 hits (PAfter (h_sort (last page dummy_hit))) ;;
             Ok (page ++ rest)
      end
  end.

(* the backward paging protocol: Before(key), then Before(sort value of the FIRST hit of the page
   just received), until a page comes back empty; pages are prepended *)
Fixpoint before_chain {B : Type} (consume : hit -> B -> B) (fuel : nat) (n : Z) (order : list sortspec)
         (aggf : list Z) (b0 : B) (hits : list rawhit) (key : list bytes) : res (list hit) :=
  match fuel with
  | O => OutOfFuel
  | S f =>
      page <- rmap fst (topn_search consume n order (PBefore key) aggf b0 hits) ;;
      match page with
      | [] => Ok []
      | first :: _ => rest <- before_chain consume f n order aggf b0 hits (h_sort first) ;; Ok (rest ++ page)
      end
  end.

(* the observable of a result list: document numbers and sort values, in order *)
Definition result_obs (l : list hit) : list (Z * list bytes) := map (fun h => (h_doc h, h_sort h)) l.
