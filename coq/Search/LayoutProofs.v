(* Search/LayoutProofs.v — C08: what a search answers depends only on the logical content. *)
From Coq Require Import ZArith List Bool Lia Permutation.
From Bluge Require Import Base.Res Search.Numeric Search.Postings Search.Searchers Search.Semantics Search.Layout.
Import ListNotations.
Open Scope Z_scope.

(* ---------- generic list facts ---------- *)

Lemma perm_filter {A} (f : A -> bool) (l l' : list A) :
  Permutation l l' -> Permutation (filter f l) (filter f l').
Proof.
  intros HP. induction HP as [| x l l' HP IH | x y l | l l' l'' HP1 IH1 HP2 IH2]; simpl.
  - constructor.
  - destruct (f x); [constructor|]; exact IH.
  - destruct (f x), (f y); try apply Permutation_refl; apply perm_swap.
  - eapply Permutation_trans; eauto.
Qed.

Lemma filter_map_comm {A B} (g : A -> B) (f : B -> bool) (l : list A) :
  filter f (map g l) = map g (filter (fun x => f (g x)) l).
Proof.
  induction l as [| a l IH]; simpl; [reflexivity|].
  destruct (f (g a)); simpl; rewrite IH; reflexivity.
Qed.

Lemma perm_sum {A} (g : A -> Z) (l l' : list A) :
  Permutation l l' -> fold_right (fun d a => g d + a) 0 l = fold_right (fun d a => g d + a) 0 l'.
Proof.
  intros HP. induction HP as [| x l l' HP IH | x y l | l l' l'' HP1 IH1 HP2 IH2]; simpl; try lia.
Qed.

(* ---------- the denotation depends only on the logical content ---------- *)

Definition matched_docs (q : query) (sn : snapshot) : list doc := filter (sem q) (logical sn).

Lemma sem_ids_logical q sn : sem_ids q sn = map d_id (matched_docs q sn).
Proof.
  unfold sem_ids, matched_docs, logical. rewrite filter_map_comm, map_map. reflexivity.
Qed.

(* same logical content: the same documents match (hence the same stored fields) *)
Lemma matched_docs_layout_independent q sn1 sn2 :
  Permutation (logical sn1) (logical sn2) -> Permutation (matched_docs q sn1) (matched_docs q sn2).
Proof. intros HP. apply perm_filter. exact HP. Qed.

Lemma sem_ids_layout_independent q sn1 sn2 :
  Permutation (logical sn1) (logical sn2) -> Permutation (sem_ids q sn1) (sem_ids q sn2).
Proof.
  intros HP. rewrite !sem_ids_logical. apply Permutation_map. apply matched_docs_layout_independent. exact HP.
Qed.

(* any aggregation that does not depend on the order of its input gives the same value *)
Lemma aggregation_layout_independent {A} (agg : list doc -> A) q sn1 sn2 :
  (forall l l', Permutation l l' -> agg l = agg l') ->
  Permutation (logical sn1) (logical sn2) -> agg (matched_docs q sn1) = agg (matched_docs q sn2).
Proof. intros Hagg HP. apply Hagg. apply matched_docs_layout_independent. exact HP. Qed.

(* ---------- sorting under a distinguishing key ---------- *)

Fixpoint sorted_by (key : Z -> Z) (l : list Z) : Prop :=
  match l with
  | [] => True
  | x :: r => (forall y, In y r -> key x <= key y) /\ sorted_by key r
  end.

Lemma insert_by_perm key x l : Permutation (x :: l) (insert_by key x l).
Proof.
  induction l as [| h r IH]; simpl; [apply Permutation_refl|].
  destruct (key x <=? key h); [apply Permutation_refl|].
  eapply Permutation_trans; [apply perm_swap|]. constructor. exact IH.
Qed.

Lemma sort_by_perm key l : Permutation l (sort_by key l).
Proof.
  induction l as [| x r IH]; simpl; [constructor|].
  eapply Permutation_trans; [constructor; exact IH|]. apply insert_by_perm.
Qed.

Lemma insert_by_sorted key x l : sorted_by key l -> sorted_by key (insert_by key x l).
Proof.
  induction l as [| h r IH]; simpl; intros HS.
  - split; [intros y []|exact I].
  - destruct HS as [Hh HS].
    destruct (key x <=? key h) eqn:E.
    + apply Z.leb_le in E. simpl. split; [|split; assumption].
      intros y [<-|Hy]; [exact E|]. specialize (Hh y Hy). lia.
    + apply Z.leb_gt in E. simpl. split; [|apply IH; exact HS].
      intros y Hy. apply (Permutation_in _ (Permutation_sym (insert_by_perm key x r))) in Hy.
      destruct Hy as [<-|Hy]; [lia|apply Hh; exact Hy].
Qed.

Lemma sort_by_sorted key l : sorted_by key l -> True -> sorted_by key l.
Proof. auto. Qed.

Lemma sort_by_is_sorted key l : sorted_by key (sort_by key l).
Proof.
  induction l as [| x r IH]; simpl; [exact I|]. apply insert_by_sorted. exact IH.
Qed.

(* two sorted lists with the same elements and pairwise different keys are equal *)
Lemma sorted_perm_unique key l1 : forall l2,
  sorted_by key l1 -> sorted_by key l2 -> Permutation l1 l2 ->
  (forall x y, In x l1 -> In y l1 -> key x = key y -> x = y) -> l1 = l2.
Proof.
  induction l1 as [| a r1 IH]; intros l2 HS1 HS2 HP Hinj.
  - apply Permutation_nil in HP. subst. reflexivity.
  - destruct l2 as [| b r2]; [apply Permutation_sym, Permutation_nil in HP; discriminate|].
    destruct HS1 as [Ha HS1]. destruct HS2 as [Hb HS2].
    assert (Hab : a = b).
    { assert (Hin_b : In b (a :: r1)) by (apply (Permutation_in _ (Permutation_sym HP)); left; reflexivity).
      assert (Hin_a : In a (b :: r2)) by (apply (Permutation_in _ HP); left; reflexivity).
      destruct Hin_b as [E|Hb1]; [exact E|].
      destruct Hin_a as [E|Ha2]; [symmetry; exact E|].
      apply Hinj; [left; reflexivity|right; exact Hb1|].
      specialize (Ha b Hb1). specialize (Hb a Ha2). lia. }
    subst b. f_equal. apply IH; try assumption.
    + eapply Permutation_cons_inv; exact HP.
    + intros x y Hx Hy. apply Hinj; right; assumption.
Qed.

(* the order under a sort whose keys distinguish all matches is the same for every layout *)
Lemma sort_order_layout_independent key q sn1 sn2 :
  Permutation (logical sn1) (logical sn2) ->
  (forall x y, In x (sem_ids q sn1) -> In y (sem_ids q sn1) -> key x = key y -> x = y) ->
  sort_by key (sem_ids q sn1) = sort_by key (sem_ids q sn2).
Proof.
  intros HP Hinj. apply (sorted_perm_unique key).
  - apply sort_by_is_sorted.
  - apply sort_by_is_sorted.
  - eapply Permutation_trans; [apply Permutation_sym, sort_by_perm|].
    eapply Permutation_trans; [apply sem_ids_layout_independent; exact HP|]. apply sort_by_perm.
  - intros x y Hx Hy. apply Hinj; eapply Permutation_in; try eassumption; apply Permutation_sym, sort_by_perm.
Qed.

(* ---------- MultiSearch over a partition ---------- *)

Lemma sem_ids_multisearch q (sns : list snapshot) sn :
  Permutation (flat_map logical sns) (logical sn) ->
  Permutation (flat_map (sem_ids q) sns) (sem_ids q sn).
Proof.
  intros HP. rewrite sem_ids_logical.
  assert (E : flat_map (sem_ids q) sns = map d_id (filter (sem q) (flat_map logical sns))).
  { clear HP. induction sns as [| s r IH]; simpl; [reflexivity|].
    rewrite filter_app, map_app, IH, sem_ids_logical. reflexivity. }
  rewrite E. apply Permutation_map. apply perm_filter. exact HP.
Qed.

(* ---------- statistics summed over segments ---------- *)

Lemma number_from_snd k ds : map snd (number_from k ds) = ds.
Proof. revert k. induction ds as [| d r IH]; intros k; simpl; [reflexivity|]. rewrite IH. reflexivity. Qed.

Lemma filter_all_true {A} (f : A -> bool) (l : list A) : (forall x, f x = true) -> filter f l = l.
Proof. intros H. induction l as [| a l IH]; simpl; [reflexivity|]. rewrite H, IH. reflexivity. Qed.

Lemma seg_live_no_deletes s : seg_del s = [] -> map snd (seg_live s) = seg_docs s.
Proof.
  intros E. unfold seg_live. rewrite E.
  rewrite filter_all_true by (intros x; reflexivity). apply number_from_snd.
Qed.

Lemma live_from_snd k sn : map snd (live_from k sn) = flat_map (fun s => map snd (seg_live s)) sn.
Proof.
  revert k. induction sn as [| s r IH]; intros k; simpl; [reflexivity|].
  rewrite map_app, map_map, IH. simpl. reflexivity.
Qed.

Lemma logical_segments sn : logical sn = flat_map (fun s => map snd (seg_live s)) sn.
Proof. unfold logical, live_docs. apply live_from_snd. Qed.

Lemma logical_no_deletes sn : no_pending_deletes sn -> logical sn = flat_map seg_docs sn.
Proof.
  intros HN. rewrite logical_segments. induction sn as [| s r IH]; simpl; [reflexivity|].
  rewrite seg_live_no_deletes by (apply HN; left; reflexivity).
  rewrite IH; [reflexivity|]. intros s' Hs'. apply HN. right. exact Hs'.
Qed.

Lemma fold_sum_app (g : doc -> Z) (l1 l2 : list doc) :
  fold_right (fun d a => g d + a) 0 (l1 ++ l2) =
  fold_right (fun d a => g d + a) 0 l1 + fold_right (fun d a => g d + a) 0 l2.
Proof. induction l1 as [| x l1 IH]; cbn [app fold_right]; [lia|]. rewrite IH. lia. Qed.

Lemma seg_stats_spec f s :
  cs_docs (seg_stats f s) = Z.of_nat (length (filter (has_field f) (seg_docs s))) /\
  cs_sumtf (seg_stats f s) = fold_right (fun d a => field_length f d + a) 0 (filter (has_field f) (seg_docs s)).
Proof.
  unfold seg_stats. destruct (filter (has_field f) (seg_docs s)) as [| d l]; split; reflexivity.
Qed.

Lemma cstats_docs_sum f sn :
  cs_docs (collection_stats f sn) = docs_with_field f (flat_map seg_docs sn) /\
  cs_sumtf (collection_stats f sn) = docs_sumtf f (flat_map seg_docs sn).
Proof.
  unfold docs_with_field, docs_sumtf. induction sn as [| s r [IH1 IH2]]; [split; reflexivity|].
  change (collection_stats f (s :: r)) with (cstats_add (seg_stats f s) (collection_stats f r)).
  unfold cstats_add. cbn [cs_docs cs_sumtf flat_map].
  destruct (seg_stats_spec f s) as [A B].
  rewrite A, B, IH1, IH2, filter_app, app_length, Nat2Z.inj_add, fold_sum_app. split; reflexivity.
Qed.

Lemma seg_postings_length f t s :
  Z.of_nat (length (seg_postings f t s)) = docs_freq f t (map snd (seg_live s)).
Proof.
  unfold seg_postings, docs_freq. induction (seg_live s) as [| p l IH]; simpl; [reflexivity|].
  unfold has_term at 1. destruct (term_positions (snd p) f t); simpl; rewrite ?app_length; simpl; lia.
Qed.

Lemma doc_freq_logical f t sn : doc_freq f t sn = docs_freq f t (logical sn).
Proof.
  rewrite logical_segments. unfold doc_freq. induction sn as [| s r IH]; simpl; [reflexivity|].
  rewrite IH, seg_postings_length. unfold docs_freq. rewrite filter_app, app_length. lia.
Qed.

Lemma docs_stats_perm f t l l' : Permutation l l' ->
  docs_with_field f l = docs_with_field f l' /\ docs_sumtf f l = docs_sumtf f l' /\ docs_freq f t l = docs_freq f t l'.
Proof.
  intros HP. unfold docs_with_field, docs_sumtf, docs_freq. repeat split.
  - f_equal. apply Permutation_length. apply perm_filter. exact HP.
  - apply perm_sum. apply perm_filter. exact HP.
  - f_equal. apply Permutation_length. apply perm_filter. exact HP.
Qed.

(* With no pending deletions, the statistics the similarity reads (documents with the field,
   total tokens of the field, document frequency of a term) are the same for any two layouts
   of the same logical content.  (TotalDocumentCount is not: a segment without the field
   reports 0 — BM25 does not read it.) *)
Theorem stats_layout_independent f t sn1 sn2 :
  no_pending_deletes sn1 -> no_pending_deletes sn2 ->
  Permutation (logical sn1) (logical sn2) ->
  cs_docs (collection_stats f sn1) = cs_docs (collection_stats f sn2) /\
  cs_sumtf (collection_stats f sn1) = cs_sumtf (collection_stats f sn2) /\
  doc_freq f t sn1 = doc_freq f t sn2.
Proof.
  intros N1 N2 HP.
  destruct (cstats_docs_sum f sn1) as [A1 B1]. destruct (cstats_docs_sum f sn2) as [A2 B2].
  rewrite A1, A2, B1, B2, !doc_freq_logical.
  rewrite <- !logical_no_deletes by assumption.
  destruct (docs_stats_perm f t _ _ HP) as [X [Y Z0]]. auto.
Qed.

(* a score is a function of those statistics and of the document's own frequency and length *)
Section Scores.
  Variable score_fn : Z -> Z -> Z -> Z -> Z -> Z.   (* docFreq docCount sumTotalTermFreq freq fieldLength: BM25, C17 *)

  Definition term_score (sn : snapshot) (f : Z) (t : list Z) (d : doc) : Z :=
    score_fn (doc_freq f t sn) (cs_docs (collection_stats f sn)) (cs_sumtf (collection_stats f sn))
             (Z.of_nat (length (doc_tlm d f t))) (field_length f d).

  Theorem term_scores_equal_no_deletes f t d sn1 sn2 :
    no_pending_deletes sn1 -> no_pending_deletes sn2 ->
    Permutation (logical sn1) (logical sn2) ->
    term_score sn1 f t d = term_score sn2 f t d.
  Proof.
    intros N1 N2 HP. unfold term_score.
    destruct (stats_layout_independent f t sn1 sn2 N1 N2 HP) as [A [B C]]. rewrite A, B, C. reflexivity.
  Qed.
End Scores.

(* with pending deletions the statistics do differ: the hypothesis is needed *)
Example stats_differ_with_pending_deletes :
  exists sn1 sn2, Permutation (logical sn1) (logical sn2) /\
                  cs_docs (collection_stats 0 sn1) <> cs_docs (collection_stats 0 sn2).
Proof.
  pose (d1 := {| d_id := 1; d_fields := [(0, [ {| tf_term := [97]; tf_pos := [1] |} ])] |}).
  pose (d2 := {| d_id := 2; d_fields := [(0, [ {| tf_term := [98]; tf_pos := [1] |} ])] |}).
  exists [ {| seg_docs := [d1; d2]; seg_del := [1] |} ], [ {| seg_docs := [d1]; seg_del := [] |} ].
  split; [vm_compute; apply Permutation_refl|vm_compute; discriminate].
Qed.

(* the hypotheses of the statistics theorem are satisfiable on different layouts *)
Example stats_hypotheses_satisfiable :
  exists sn1 sn2, sn1 <> sn2 /\ no_pending_deletes sn1 /\ no_pending_deletes sn2 /\
                  Permutation (logical sn1) (logical sn2) /\ length sn1 <> length sn2.
Proof.
  pose (d1 := {| d_id := 1; d_fields := [(0, [ {| tf_term := [97]; tf_pos := [1] |} ])] |}).
  pose (d2 := {| d_id := 2; d_fields := [(0, [ {| tf_term := [98]; tf_pos := [1] |} ])] |}).
  exists [ {| seg_docs := [d1; d2]; seg_del := [] |} ],
         [ {| seg_docs := [d2]; seg_del := [] |}; {| seg_docs := [d1]; seg_del := [] |} ].
  repeat split.
  - discriminate.
  - intros s [<-|[]]; reflexivity.
  - intros s [<-|[<-|[]]]; reflexivity.
  - vm_compute. apply perm_swap.
  - simpl. discriminate.
Qed.

(* ---------- scoring "none": the match set is NOT preserved (known finding) ---------- *)

Definition sn_doc (id : Z) (ts : list (list Z)) : doc :=
  {| d_id := id; d_fields := [(0, map (fun t => {| tf_term := t; tf_pos := [1] |}) ts)] |}.

Definition none_sn : snapshot := [ {| seg_docs := [sn_doc 1 [[97; 98]; [99; 98]]; sn_doc 2 [[99; 98]]]; seg_del := [] |} ].
Definition none_q : query := QBool [QTerm 0 [99; 98]] [QTerm 0 [97; 98]; QTerm 0 [122; 122]] [] 1.
Definition copts_score_none : copts :=
  {| co_score_none := true; co_tv := false; co_conj := true; co_conj_un := true; co_disj_un := true |}.

(* with scoring "none" the should list is rewritten into one bitmap term searcher whose Min()
   is 0: document 2 matches no should clause and is returned all the same *)
Lemma score_mode_none_counterexample :
  answer none_sn copts_default none_q = Ok [1] /\
  answer none_sn copts_score_none none_q = Ok [1; 2] /\
  sem_ids none_q none_sn = [1].
Proof. vm_compute. repeat split; reflexivity. Qed.

(* ---------- run level, for the fragment search_exact is proved for ---------- *)
From Bluge Require Import Search.SearchersProofsSnap Search.SearchersProofsExact.

Lemma id_at_live : forall sn n d, In (n, d) (live_docs sn) -> id_at sn n = d_id d.
Proof.
  intros sn n d Hin. unfold id_at.
  destruct (filter (fun p : Z * doc => fst p =? n) (live_docs sn)) as [| p l] eqn:E.
  - exfalso. assert (Hf : In (n, d) (filter (fun p : Z * doc => fst p =? n) (live_docs sn))).
    { apply filter_In. split; [exact Hin|]. simpl. apply Z.eqb_refl. }
    rewrite E in Hf. destruct Hf.
  - assert (Hp : In p (filter (fun p : Z * doc => fst p =? n) (live_docs sn))) by (rewrite E; left; reflexivity).
    apply filter_In in Hp. destruct Hp as [Hp Hn]. apply Z.eqb_eq in Hn. destruct p as [n' d']. simpl in Hn. subst n'.
    simpl. f_equal. eapply live_docs_unique; eauto.
Qed.

Lemma answer_ids : forall sn q, map (id_at sn) (sem_numbers q sn) = sem_ids q sn.
Proof.
  intros sn q. unfold sem_numbers, sem_ids. rewrite map_map.
  apply map_ext_in. intros [n d] Hin. apply filter_In in Hin. destruct Hin as [Hin _]. simpl.
  apply id_at_live. exact Hin.
Qed.

(* two well-formed layouts with the same logical content return the same ids (as multisets) for
   every boolean query over term clauses *)
Theorem layout_independent_matches_flat : forall sn1 sn2 musts shoulds nots ms,
  wf_sn sn1 -> wf_sn sn2 -> 0 <= ms -> (musts <> [] \/ shoulds <> []) ->
  (length shoulds <= 10)%nat -> (length nots <= 10)%nat ->
  Permutation (logical sn1) (logical sn2) ->
  exists ids1 ids2,
    answer sn1 copts_plain (flatq musts shoulds nots ms) = Ok ids1 /\
    answer sn2 copts_plain (flatq musts shoulds nots ms) = Ok ids2 /\ Permutation ids1 ids2.
Proof.
  intros sn1 sn2 musts shoulds nots ms W1 W2 Hms Hne Hs Hn HP.
  unfold answer. rewrite (search_exact_flat sn1 musts shoulds nots ms W1 Hms Hne Hs Hn).
  rewrite (search_exact_flat sn2 musts shoulds nots ms W2 Hms Hne Hs Hn). cbn [rbind].
  eexists _, _. split; [reflexivity|]. split; [reflexivity|]. rewrite !answer_ids.
  apply sem_ids_layout_independent. exact HP.
Qed.

(* the conjunction push-down on or off: the same answer (for the fragment both are proved for) *)
Theorem optimisation_same_answer_flat : forall sn musts shoulds nots ms,
  wf_sn sn -> 0 <= ms -> (musts <> [] \/ shoulds <> []) ->
  (length shoulds <= 10)%nat -> (length nots <= 10)%nat ->
  answer sn copts_default (flatq musts shoulds nots ms) = answer sn copts_plain (flatq musts shoulds nots ms).
Proof.
  intros sn musts shoulds nots ms W Hms Hne Hs Hn. unfold answer.
  rewrite (search_exact_flat sn musts shoulds nots ms W Hms Hne Hs Hn).
  rewrite (search_exact_flat_default sn musts shoulds nots ms W Hms Hne Hs Hn). reflexivity.
Qed.

(* the same for arbitrarily nested boolean queries over term / match-none clauses (any number of
   clauses, any minShould >= 0; push-down off): SearchersProofsGeneral.search_exact_nested *)
From Bluge Require Import Search.SearchersProofsGeneral.

Theorem layout_independent_matches_nested : forall sn1 sn2 q d,
  wf_sn sn1 -> wf_sn sn2 -> qok d q -> (2 * d + 1 <= depth_fuel q)%nat ->
  Permutation (logical sn1) (logical sn2) ->
  exists ids1 ids2,
    answer sn1 copts_plain q = Ok ids1 /\ answer sn2 copts_plain q = Ok ids2 /\ Permutation ids1 ids2.
Proof.
  intros sn1 sn2 q d W1 W2 Hq Hd HP.
  unfold answer. rewrite (search_exact_nested sn1 q d W1 Hq Hd), (search_exact_nested sn2 q d W2 Hq Hd). cbn [rbind].
  eexists _, _. split; [reflexivity|]. split; [reflexivity|]. rewrite !answer_ids.
  apply sem_ids_layout_independent. exact HP.
Qed.
