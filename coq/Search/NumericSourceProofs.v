(* Search/NumericSourceProofs.v — numeric sorting is exact: over the index tokens of a numeric field
   the sort key is the shift-0 term, whose bytewise order is the float order; Numbers recovers the value. *)
From Coq Require Import ZArith List Bool Lia Sorted.
From Coq Require Import ZifyBool.
From Bluge Require Import Base.Int64 Base.NumBits Base.Res Gen.ParamsNumeric Search.Numeric Search.NumericProofs
  Search.NumericPrefix Search.NumericSource.
Import ListNotations.
Open Scope Z_scope.

Lemma pc_shift_enc_some v s : 0 <= s <= 62 -> pc_shift (enc v s) = Some s.
Proof. intros Hs. rewrite pc_shift_enc by lia. destruct (Z.ltb_spec s 63); [reflexivity|lia]. Qed.

(* terms of different shifts: the header byte decides *)
Lemma enc_lt_header v v' s s' : s < s' -> bytes_lt (enc v s) (enc v' s') = true.
Proof.
  intros H. unfold bytes_lt, enc. cbn [bytes_cmp].
  destruct (Z.compare_spec (shift_start_int64 + s) (shift_start_int64 + s')); first [reflexivity | lia].
Qed.

Lemma map_enc_sorted v l : StronglySorted Z.lt l ->
  StronglySorted (fun a b => bytes_lt a b = true) (map (enc v) l).
Proof.
  induction 1 as [|s l Hl IH Hs]; cbn [map]; constructor; [exact IH|].
  apply Forall_forall. intros t Ht. apply in_map_iff in Ht. destruct Ht as (s' & <- & Hin).
  rewrite Forall_forall in Hs. apply enc_lt_header. apply Hs. exact Hin.
Qed.

(* the token list of a value is already in dictionary (bytewise) order, shift-0 term first *)
Lemma index_tokens_sorted v : in_int64 v ->
  StronglySorted (fun a b => bytes_lt a b = true) (index_tokens v numeric_precision_step).
Proof.
  intros Hv. unfold numeric_precision_step. rewrite index_tokens_4 by assumption.
  apply map_enc_sorted.
  repeat (constructor; [|repeat (constructor; [lia|]); constructor]). constructor.
Qed.

Lemma source_value_tokens v : in_int64 v ->
  source_value (index_tokens v numeric_precision_step) = Some (enc v 0).
Proof.
  intros Hv. unfold numeric_precision_step. rewrite index_tokens_4 by assumption.
  unfold source_value, remove_numeric_padded_terms. cbn [map rnpt_scan].
  rewrite (pc_shift_enc_some v 0) by lia. cbn [app]. rewrite (pc_shift_enc_some v 4) by lia.
  reflexivity.
Qed.

Lemma source_numbers_tokens v : in_int64 v ->
  source_numbers (index_tokens v numeric_precision_step) = [i2f v].
Proof.
  intros Hv. unfold numeric_precision_step. rewrite index_tokens_4 by assumption.
  unfold source_numbers. cbn [map flat_map].
  rewrite (pc_shift_enc_some v 0) by lia. rewrite pc_int64_enc by (assumption || lia).
  replace (Z.ldiff v (Z.ones 0)) with v by (cbn; rewrite Z.ldiff_0_r; reflexivity).
  rewrite !pc_shift_enc_some by lia. reflexivity.
Qed.

(* sorting on a numeric field compares the shift-0 terms, i.e. the float values (-0 below +0);
   Numbers returns the stored value *)
Lemma numeric_sort_exact_all x y : in_uint64 x -> in_uint64 y ->
  exists kx ky,
    source_value (index_tokens (f2i x) numeric_precision_step) = Some kx /\
    source_value (index_tokens (f2i y) numeric_precision_step) = Some ky /\
    bytes_cmp kx ky = Z.compare (f2i x) (f2i y) /\
    (bytes_lt kx ky = true <-> float_lt x y) /\
    source_numbers (index_tokens (f2i x) numeric_precision_step) = [x].
Proof.
  intros Hx Hy. pose proof (f2i_range x Hx) as Rx. pose proof (f2i_range y Hy) as Ry.
  exists (enc (f2i x) 0), (enc (f2i y) 0).
  rewrite !source_value_tokens, source_numbers_tokens by assumption.
  assert (C : bytes_cmp (enc (f2i x) 0) (enc (f2i y) 0) = Z.compare (f2i x) (f2i y)).
  { rewrite enc_cmp_signed by (assumption || lia). rewrite Z.pow_0_r, !Z.div_1_r. reflexivity. }
  repeat split; try assumption.
  - unfold bytes_lt. rewrite C. intros H. apply f2i_order_all; try assumption.
    destruct (Z.compare_spec (f2i x) (f2i y)); try discriminate. assumption.
  - intros H. apply f2i_order_all in H; try assumption. unfold bytes_lt. rewrite C.
    apply Z.compare_lt_iff in H. rewrite H. reflexivity.
  - rewrite f2i_roundtrip_all by assumption. reflexivity.
Qed.
