(* Search/TopNProofs.v — facts about Search/Sort.v and Search/TopN.v (C09). *)
From Coq Require Import ZArith List Bool Arith Lia Permutation Sorted.
From Coq Require Import ZifyBool.
From Bluge Require Import Base.Int64 Base.Res Base.GoHeap Base.GoSort Gen.ParamsTopN
     Search.Numeric Search.Sort Search.TopN.
Import ListNotations.
Open Scope Z_scope.

(* ---------- bytes.Compare ---------- *)

Lemma bcmp_antisym a : forall b, bcmp b a = - bcmp a b.
Proof.
  induction a as [|x a IH]; intros [|y b]; cbn [bcmp]; try reflexivity.
  destruct (x <? y) eqn:Hxy; destruct (y <? x) eqn:Hyx; try lia; try reflexivity.
  apply IH.
Qed.

Lemma bcmp_refl a : bcmp a a = 0.
Proof. pose proof (bcmp_antisym a a). lia. Qed.

Lemma bcmp_eq a : forall b, bcmp a b = 0 -> a = b.
Proof.
  induction a as [|x a IH]; intros [|y b]; cbn [bcmp]; intro H; try reflexivity; try discriminate.
  destruct (x <? y) eqn:Hxy; [discriminate|].
  destruct (y <? x) eqn:Hyx; [discriminate|].
  f_equal; [lia | apply IH; exact H].
Qed.

Lemma bcmp_range a : forall b, bcmp a b = -1 \/ bcmp a b = 0 \/ bcmp a b = 1.
Proof.
  induction a as [|x a IH]; intros [|y b]; cbn [bcmp]; auto.
  destruct (x <? y); auto. destruct (y <? x); auto.
Qed.

Lemma bcmp_trans a : forall b c, bcmp a b < 0 -> bcmp b c < 0 -> bcmp a c < 0.
Proof.
  induction a as [|x a IH]; intros [|y b] [|z c]; cbn [bcmp]; try lia.
  destruct (x <? y) eqn:Hxy; destruct (y <? x) eqn:Hyx; try lia;
  destruct (y <? z) eqn:Hyz; destruct (z <? y) eqn:Hzy; try lia;
  destruct (x <? z) eqn:Hxz; destruct (z <? x) eqn:Hzx; try lia.
  apply IH.
Qed.

(* ---------- SortOrder.Compare is a lawful three-way comparison ---------- *)
From Bluge Require Import Base.GoSortProofs.

Lemma lawful_ext {A} (c c' : A -> A -> Z) : (forall a b, c a b = c' a b) -> lawful c -> lawful c'.
Proof.
  intros E [H1 H2 H3]. constructor.
  - intros a b. rewrite <- !E. apply H1.
  - intros a b H x. rewrite <- !E. apply H2. rewrite E. exact H.
  - intros a b d. rewrite <- !E. apply H3.
Qed.

Lemma lawful_bcmp : lawful bcmp.
Proof.
  constructor.
  - intros a b. apply bcmp_antisym.
  - intros a b E x. apply bcmp_eq in E. subst. reflexivity.
  - apply bcmp_trans.
Qed.

Lemma lawful_zero {A} : lawful (fun _ _ : A => 0).
Proof. constructor; intros; lia. Qed.

Lemma lawful_cmp_keys descs : lawful (cmp_keys descs).
Proof.
  induction descs as [|d ds IH].
  - apply lawful_zero.
  - pose (c1 := fun a b : list bytes => if d then - bcmp (hd [] a) (hd [] b) else bcmp (hd [] a) (hd [] b)).
    pose (c2 := fun a b : list bytes => cmp_keys ds (tl a) (tl b)).
    assert (L1 : lawful c1).
    { unfold c1. destruct d.
      - apply (lawful_neg (fun a b : list bytes => bcmp (hd [] a) (hd [] b))).
        apply (lawful_on (@hd bytes []) bcmp lawful_bcmp).
      - apply (lawful_on (@hd bytes []) bcmp lawful_bcmp). }
    assert (L2 : lawful c2) by (apply (lawful_on (@tl bytes) _ IH)).
    apply (lawful_ext (fun a b => if c1 a b =? 0 then c2 a b else c1 a b)).
    + intros a b. unfold c1, c2. cbn [cmp_keys]. cbv zeta.
      destruct d; destruct (bcmp (hd [] a) (hd [] b) =? 0) eqn:E.
      * replace (- bcmp (hd [] a) (hd [] b) =? 0) with true by lia. reflexivity.
      * replace (- bcmp (hd [] a) (hd [] b) =? 0) with false by lia. reflexivity.
      * reflexivity.
      * reflexivity.
    + apply lawful_lex; assumption.
Qed.

Lemma lawful_cmp_num : lawful cmp_num.
Proof.
  constructor; unfold cmp_num.
  - intros a b. destruct (a =? b) eqn:E1; destruct (b =? a) eqn:E2; try lia.
    destruct (b <? a) eqn:E3; destruct (a <? b) eqn:E4; lia.
  - intros a b E x. destruct (a =? b) eqn:E1.
    + assert (a = b) by lia. subst. reflexivity.
    + destruct (b <? a); discriminate.
  - intros a b c. destruct (a =? b) eqn:E1; [lia|]. destruct (b <? a) eqn:E2; [lia|].
    destruct (b =? c) eqn:E3; [lia|]. destruct (c <? b) eqn:E4; [lia|]. intros _ _.
    destruct (a =? c) eqn:E5; [lia|]. destruct (c <? a) eqn:E6; lia.
Qed.

Lemma lawful_compare descs : lawful (compare descs).
Proof.
  apply (lawful_ext (fun i j => if cmp_keys descs (h_sort i) (h_sort j) =? 0
                                then cmp_num (h_num i) (h_num j)
                                else cmp_keys descs (h_sort i) (h_sort j))).
  - intros a b. reflexivity.
  - apply (lawful_lex (fun i j => cmp_keys descs (h_sort i) (h_sort j)) (fun i j => cmp_num (h_num i) (h_num j))).
    + apply (lawful_on h_sort _ (lawful_cmp_keys descs)).
    + apply (lawful_on h_num _ lawful_cmp_num).
Qed.

Lemma compare_zero_num descs i j : compare descs i j = 0 -> h_num i = h_num j.
Proof.
  unfold compare. destruct (cmp_keys descs (h_sort i) (h_sort j) =? 0) eqn:E; [|lia].
  unfold cmp_num. destruct (h_num i =? h_num j) eqn:E1; [lia|]. destruct (h_num j <? h_num i); lia.
Qed.

Lemma compare_range descs i j : compare descs i j = -1 \/ compare descs i j = 0 \/ compare descs i j = 1.
Proof.
  assert (K : forall ds a b, cmp_keys ds a b = -1 \/ cmp_keys ds a b = 0 \/ cmp_keys ds a b = 1).
  { induction ds as [|d ds IH]; intros a b; cbn [cmp_keys]; [auto|]. cbv zeta.
    destruct (bcmp (hd [] a) (hd [] b) =? 0); [apply IH|].
    pose proof (bcmp_range (hd [] a) (hd [] b)). destruct d; lia. }
  unfold compare. destruct (cmp_keys descs (h_sort i) (h_sort j) =? 0) eqn:E.
  - unfold cmp_num. destruct (h_num i =? h_num j); [auto|]. destruct (h_num j <? h_num i); auto.
  - apply K.
Qed.

(* cmp_total_order: on matches with distinct hit numbers SortOrder.Compare is a strict total
   order: exactly one of a<b, b<a holds for distinct hit numbers, and < is transitive *)
Theorem cmp_total_order_all descs :
  (forall a b, compare descs b a = - compare descs a b) /\
  (forall a b, h_num a <> h_num b -> compare descs a b <> 0) /\
  (forall a b c, compare descs a b < 0 -> compare descs b c < 0 -> compare descs a c < 0) /\
  (forall a b, compare descs a b = 0 -> h_num a = h_num b /\ forall x, compare descs a x = compare descs b x).
Proof.
  pose proof (lawful_compare descs) as L. repeat split.
  - apply (law_antisym _ L).
  - intros a b N E. apply N, (compare_zero_num descs a b E).
  - apply (law_trans _ L).
  - apply (compare_zero_num descs a b H).
  - apply (law_eq_cong _ L a b H).
Qed.

(* ---------- the bucket is fed every hit, whatever the paging and the store do ---------- *)
Section BucketFed.
  Context {B : Type}.
  Variable consume : hit -> B -> B.

  Lemma collect_hit_bucket c b d : snd (collect_hit consume c b d) = consume d b.
  Proof.
    unfold collect_hit. destruct (after_skips _ _ d); [reflexivity|].
    destruct (match c_lowest c with Some lo => _ | None => false end); [reflexivity|].
    destruct (store_add_nes _ d (c_store c) (c_cap c)) as [s' removed]. reflexivity.
  Qed.

  Lemma collect_hit_static c b d :
    let c' := fst (collect_hit consume c b d) in
    c_needed c' = c_needed c /\ c_order c' = c_order c /\ c_after c' = c_after c /\
    c_cap c' = c_cap c /\ c_skip c' = c_skip c /\ c_reverse c' = c_reverse c.
  Proof.
    unfold collect_hit. destruct (after_skips _ _ d); [cbn; auto 10|].
    destruct (match c_lowest c with Some lo => _ | None => false end); [cbn; auto 10|].
    destruct (store_add_nes _ d (c_store c) (c_cap c)) as [s' removed]. cbn. auto 10.
  Qed.

  Lemma collect_loop_bucket hits : forall c b num,
    snd (collect_loop consume c b num hits) =
    fold_left (fun b d => consume d b) (prepare_all (c_needed c) (c_order c) num hits) b.
  Proof.
    induction hits as [|r t IH]; intros c b num; [reflexivity|].
    cbn [collect_loop prepare_all fold_left].
    pose proof (collect_hit_bucket c b (prepare (c_needed c) (c_order c) (num + 1) r)) as Hb.
    pose proof (collect_hit_static c b (prepare (c_needed c) (c_order c) (num + 1) r)) as Hs.
    destruct (collect_hit consume c b (prepare (c_needed c) (c_order c) (num + 1) r)) as [c' b'].
    cbn [fst snd] in Hb, Hs. destruct Hs as (H1 & H2 & _).
    rewrite IH, H1, H2, Hb. reflexivity.
  Qed.

  Theorem collect_bucket c b0 hits :
    snd (collect consume c b0 hits) =
    fold_left (fun b d => consume d b) (prepare_all (c_needed c) (c_order c) 0 hits) b0.
  Proof.
    unfold collect. pose proof (collect_loop_bucket hits c b0 0) as H.
    destruct (collect_loop consume c b0 0 hits) as [c' b']. exact H.
  Qed.
End BucketFed.

(* ---------- the collector keeps the best k of the ranking ---------- *)
From Bluge Require Import Base.GoHeapProofs.

Lemma nodup_map_inj {A B} (f : A -> B) l : NoDup (map f l) -> forall a b, In a l -> In b l -> f a = f b -> a = b.
Proof.
  induction l as [|x l IH]; intros N a b Ha Hb E; [destruct Ha|].
  cbn [map] in N. inversion N as [|? ? Nx Nl]; subst.
  destruct Ha as [<-|Ha]; destruct Hb as [<-|Hb]; try reflexivity.
  - exfalso. apply Nx. rewrite E. apply in_map. exact Hb.
  - exfalso. apply Nx. rewrite <- E. apply in_map. exact Ha.
  - apply IH; assumption.
Qed.

Lemma NoDup_app_remove_r {A} (l l' : list A) : NoDup (l ++ l') -> NoDup l.
Proof.
  induction l as [|x l IH]; intro N; [constructor|].
  cbn [app] in N. inversion N as [|? ? Nx Nl]; subst. constructor; [|apply IH; exact Nl].
  intro H. apply Nx, in_or_app. left. exact H.
Qed.

Lemma NoDup_app_remove_l {A} (l l' : list A) : NoDup (l ++ l') -> NoDup l'.
Proof.
  induction l as [|x l IH]; intro N; [exact N|].
  cbn [app] in N. inversion N; subst. apply IH. assumption.
Qed.

Section Collector.
  Variable descs : list bool.
  Notation cmp := (compare descs).
  Let L : lawful cmp := lawful_compare descs.

  Definition nodup_nums (l : list hit) : Prop := NoDup (map h_num l).

  Lemma nodup_nums_perm l l' : Permutation l l' -> nodup_nums l -> nodup_nums l'.
  Proof. intros P N. unfold nodup_nums in *. apply (Permutation_NoDup (Permutation_map h_num P) N). Qed.

  Lemma nodup_nums_nodup l : nodup_nums l -> NoDup l.
  Proof. apply NoDup_map_inv. Qed.

  Lemma nodup_separates l : nodup_nums l -> separates cmp l.
  Proof.
    intros N a b Ha Hb E. apply (nodup_map_inj h_num l N a b Ha Hb). apply (compare_zero_num descs a b E).
  Qed.

  Lemma nodup_fresh l d : nodup_nums (l ++ [d]) -> fresh cmp d l.
  Proof.
    intros N y Hy E. pose proof (nodup_nums_nodup _ N) as N'.
    assert (d = y).
    { apply (nodup_separates _ N); [apply in_or_app; right; left; reflexivity | apply in_or_app; left; exact Hy | exact E]. }
    subst y. apply NoDup_remove_2 in N'. rewrite app_nil_r in N'. contradiction.
  Qed.

  (* ----- collector/slice.go: scanning from the end inserts a fresh hit where insert does ----- *)
  Lemma slice_add_snoc d l x :
    slice_add cmp d (l ++ [x]) = if 0 <=? cmp d x then l ++ [x; d] else slice_add cmp d l ++ [x].
  Proof.
    unfold slice_add. rewrite rev_app_distr. cbn [rev app add_from_end].
    destruct (0 <=? cmp d x).
    - cbn [rev]. rewrite rev_involutive, <- !app_assoc. reflexivity.
    - cbn [rev]. reflexivity.
  Qed.

  Lemma slice_add_insert d l : StronglySorted (le cmp) l -> fresh cmp d l -> slice_add cmp d l = insert cmp d l.
  Proof.
    induction l as [|x l IH] using rev_ind; intros Hs F; [reflexivity|].
    rewrite slice_add_snoc, (fresh_insert_snoc cmp L d l x Hs F).
    destruct (0 <=? cmp d x); [reflexivity|]. f_equal. apply IH.
    - apply (sorted_app_inv cmp l [x] Hs).
    - intros y Hy. apply F, in_or_app. left. exact Hy.
  Qed.

  (* ----- collector/heap.go: Less is a strict weak order ----- *)
  Lemma heap_less_irrefl a : heap_less cmp a a = false.
  Proof. unfold heap_less. rewrite (law_refl cmp L a). reflexivity. Qed.

  Lemma heap_less_trans a b c : heap_less cmp a b = true -> heap_less cmp b c = true -> heap_less cmp a c = true.
  Proof.
    unfold heap_less. intros H1 H2.
    pose proof (law_antisym cmp L a b). pose proof (law_antisym cmp L b c). pose proof (law_antisym cmp L a c).
    pose proof (law_trans cmp L c b a). lia.
  Qed.

  Lemma heap_nless_trans a b c : heap_less cmp a b = false -> heap_less cmp b c = false -> heap_less cmp a c = false.
  Proof.
    unfold heap_less. intros H1 H2. pose proof (law_le_trans cmp L a b c). lia.
  Qed.

  Notation hok := (heap_ok (heap_less cmp) dummy_hit).

  (* what a store holds, against the sorted list t of the same hits *)
  Definition store_rel (s : store) (t : list hit) : Prop :=
    match s with
    | SSlice l => l = t
    | SHeap h => hok h /\ Permutation h t
    end.

  Lemma store_add_abs s t d k : store_rel s t -> StronglySorted (le cmp) t -> fresh cmp d t ->
    separates cmp (d :: t) ->
    snd (store_add_nes cmp d s k) = snd (abs_add cmp k d t) /\
    store_rel (fst (store_add_nes cmp d s k)) (fst (abs_add cmp k d t)).
  Proof.
    intros R Hs F Sep. destruct s as [l|h]; cbn [store_rel] in R.
    - subst l. cbn [store_add_nes]. unfold slice_add_nes, abs_add. rewrite (slice_add_insert d t Hs F).
      destruct (k <? length (insert cmp d t))%nat; cbn [fst snd store_rel]; split; reflexivity.
    - destruct R as [O P]. cbn [store_add_nes]. unfold heap_add_nes, abs_add.
      destruct (push_correct (heap_less cmp) dummy_hit heap_less_irrefl heap_less_trans heap_nless_trans h d O)
        as (O1 & P1 & L1).
      set (h1 := heap_push (heap_less cmp) dummy_hit h d) in *.
      assert (Pl : Permutation h1 (insert cmp d t)).
      { apply Permutation_trans with (d :: h); [apply Permutation_sym; exact P1|].
        apply Permutation_trans with (d :: t); [apply perm_skip; exact P | apply Permutation_sym, insert_perm]. }
      rewrite (Permutation_length Pl).
      destruct (k <? length (insert cmp d t))%nat eqn:Ek; cbn [fst snd store_rel]; [|split; [reflexivity | split; assumption]].
      assert (N1 : h1 <> []) by (intro E; rewrite E in L1; discriminate).
      destruct (pop_correct (heap_less cmp) dummy_hit heap_less_irrefl heap_less_trans heap_nless_trans h1 O1 N1)
        as (x & h2 & Ep & O2 & P2 & L2 & Hmin).
      rewrite Ep. cbn [fst snd store_rel].
      set (l' := insert cmp d t) in *.
      assert (Nl : l' <> []) by (intro E; apply (f_equal (@length hit)) in E; unfold l' in E; rewrite insert_length in E; discriminate).
      assert (Sl : StronglySorted (le cmp) l') by (apply insert_sorted; assumption).
      assert (Sepl : separates cmp l') by (apply (separates_perm cmp (d :: t)); [apply Permutation_sym, insert_perm | exact Sep]).
      assert (Hx : In x l') by (apply (Permutation_in _ Pl), (Permutation_in _ (Permutation_sym P2)); left; reflexivity).
      assert (Ex : x = last l' d).
      { apply Sepl; [exact Hx | apply last_in; exact Nl|].
        pose proof (sorted_last_max cmp L l' d Sl x Hx) as M1.
        assert (M2 : heap_less cmp (last l' d) x = false).
        { apply Hmin. apply (Permutation_in _ (Permutation_sym Pl)). apply last_in. exact Nl. }
        unfold heap_less in M2. pose proof (law_antisym cmp L x (last l' d)). lia. }
      split; [f_equal; exact Ex|]. split; [exact O2|].
      apply Permutation_cons_inv with x.
      apply Permutation_trans with h1; [apply Permutation_sym; exact P2|].
      apply Permutation_trans with l'; [exact Pl|].
      rewrite (app_removelast_last d Nl) at 1. rewrite <- Ex. apply Permutation_sym, Permutation_cons_append.
  Qed.

  (* ----- topn.go:207-245 on the pair (store, lowestMatchOutsideResults) ----- *)
  Definition core_step (k : nat) (sl : store * option hit) (d : hit) : store * option hit :=
    let '(st, lo) := sl in
    if match lo with Some x => 0 <=? cmp d x | None => false end then (st, lo)
    else
      let '(s', removed) := store_add_nes cmp d st k in
      (s', match removed with
           | None => lo
           | Some r => match lo with
                       | None => Some r
                       | Some x => if cmp r x <? 0 then Some r else Some x
                       end
           end).

  (* the invariant: the store holds the best k of the hits seen, the bound is the next one *)
  Definition inv (k : nat) (sl : store * option hit) (P : list hit) : Prop :=
    store_rel (fst sl) (firstn k (isort cmp P)) /\ snd sl = nth_error (isort cmp P) k.

  Lemma core_step_inv k sl P d : inv k sl P -> nodup_nums (P ++ [d]) -> inv k (core_step k sl d) (P ++ [d]).
  Proof.
    intros [R Hlo] N. destruct sl as [st lo]. cbn [fst snd] in R, Hlo.
    set (Sp := isort cmp P) in *.
    assert (Hs : StronglySorted (le cmp) Sp) by apply (isort_sorted cmp L).
    assert (NSp : nodup_nums (Sp ++ [d])).
    { apply (nodup_nums_perm (P ++ [d])); [|exact N]. apply Permutation_app_tail, Permutation_sym, isort_perm. }
    assert (F : fresh cmp d Sp) by (apply nodup_fresh; exact NSp).
    assert (NS : nodup_nums Sp).
    { unfold nodup_nums in *. rewrite map_app in NSp. apply NoDup_app_remove_r in NSp. exact NSp. }
    unfold inv. rewrite (isort_snoc cmp P d). fold Sp. unfold core_step.
    destruct (match lo with Some x => 0 <=? cmp d x | None => false end) eqn:Epr.
    - (* pruned by the bound *)
      destruct lo as [x|]; [|discriminate]. cbn [fst snd].
      assert (Hx : In x Sp) by (apply (nth_error_In Sp k); symmetry; exact Hlo).
      assert (0 < cmp d x) by (pose proof (F x Hx); lia).
      destruct (topk_beyond cmp L k d Sp x Hs (eq_sym Hlo) H) as [T1 T2].
      rewrite T1, T2. split; [exact R | reflexivity].
    - assert (Hw : forall lo', nth_error Sp k = Some lo' -> cmp d lo' < 0).
      { intros lo' E. rewrite Hlo, E in Epr. lia. }
      destruct (topk_within cmp k d Sp Hs Hw) as [T1 T2].
      set (t := firstn k Sp) in *.
      assert (Et : Sp = t ++ skipn k Sp) by (symmetry; apply firstn_skipn).
      assert (St : StronglySorted (le cmp) t) by (rewrite Et in Hs; apply (sorted_app_inv cmp _ _ Hs)).
      assert (Ht : forall y, In y t -> In y Sp) by (intros y Hy; rewrite Et; apply in_or_app; left; exact Hy).
      assert (Ft : fresh cmp d t) by (intros y Hy; apply F, Ht, Hy).
      assert (Sept : separates cmp (d :: t)).
      { apply (separates_perm cmp (t ++ [d])); [apply Permutation_sym, Permutation_cons_append|].
        apply nodup_separates. unfold nodup_nums in *. rewrite Et in NSp.
        rewrite <- app_assoc, !map_app in NSp. rewrite map_app.
        apply (NoDup_app_remove_l (map h_num (skipn k Sp))).
        apply (Permutation_NoDup (l := map h_num t ++ map h_num (skipn k Sp) ++ map h_num [d])); [|exact NSp].
        rewrite app_assoc. rewrite (Permutation_app_comm (map h_num t) (map h_num (skipn k Sp))).
        rewrite <- app_assoc. reflexivity. }
      destruct (store_add_abs st t d k R St Ft Sept) as [A1 A2].
      destruct (store_add_nes cmp d st k) as [s' removed]. cbn [fst snd] in A1, A2 |- *.
      rewrite T1, T2. split; [exact A2|]. rewrite <- A1.
      destruct removed as [r|].
      + destruct lo as [x|]; [|reflexivity].
        destruct (nth_error_split Sp k (eq_sym Hlo)) as (l1 & l2 & E12 & Hl1).
        assert (Etl : t = l1).
        { unfold t. rewrite E12, firstn_app, Hl1, Nat.sub_diag. cbn [firstn]. rewrite app_nil_r. apply firstn_all2. lia. }
        assert (Hr : cmp r x < 0).
        { apply (abs_add_removed_lt cmp k d t x l2); try assumption.
          - rewrite Etl, <- E12. exact Hs.
          - rewrite Etl. exact Hl1.
          - apply Hw. symmetry. exact Hlo.
          - intros y Hy E0. pose proof (nodup_nums_nodup _ NS) as ND. rewrite E12 in ND.
            apply NoDup_remove_2 in ND. apply ND. rewrite Etl in Hy. apply in_or_app. left.
            replace x with y; [exact Hy|].
            apply (nodup_separates Sp NS); [apply Ht; rewrite Etl; exact Hy | rewrite E12; apply in_or_app; right; left; reflexivity | exact E0].
          - symmetry. exact A1. }
        replace (cmp r x <? 0) with true by lia. reflexivity.
      + (* nothing removed: the ranking has at most k elements *)
        assert (Hn : nth_error (insert cmp d Sp) k = None) by (rewrite T2, <- A1; reflexivity).
        apply nth_error_None in Hn. rewrite insert_length in Hn.
        rewrite Hlo. apply nth_error_None. lia.
  Qed.

  Lemma core_steps_inv k rest : forall sl P, inv k sl P -> nodup_nums (P ++ rest) ->
    inv k (fold_left (core_step k) rest sl) (P ++ rest).
  Proof.
    induction rest as [|d rest IH]; intros sl P I N; [rewrite app_nil_r; exact I|].
    cbn [fold_left]. replace (P ++ d :: rest) with ((P ++ [d]) ++ rest) by (rewrite <- app_assoc; reflexivity).
    apply IH.
    - apply core_step_inv; [exact I|].
      unfold nodup_nums in *. rewrite map_app in N. cbn [map] in N.
      replace (map h_num P ++ h_num d :: map h_num rest) with ((map h_num P ++ [h_num d]) ++ map h_num rest) in N
        by (rewrite <- app_assoc; reflexivity).
      apply NoDup_app_remove_r in N. rewrite map_app. exact N.
    - rewrite <- app_assoc. exact N.
  Qed.

  Definition empty_store (st : store) : Prop := st = SSlice [] \/ st = SHeap [].

  Lemma inv_init_any k st : empty_store st -> inv k (st, None) [].
  Proof.
    intro E. unfold inv. cbn [fst snd isort fold_left]. rewrite firstn_nil.
    split; [|destruct k; reflexivity].
    destruct E as [->| ->]; cbn [store_rel]; [reflexivity|].
    split; [|apply Permutation_refl]. intros j Hj. cbn in Hj. lia.
  Qed.

  Lemma new_store_empty k : empty_store (new_store k).
  Proof. unfold new_store, empty_store. destruct (switch_from_slice_to_heap <? Z.of_nat k); auto. Qed.

  (* ----- Final ----- *)
  Lemma heap_drain_sorted n : forall h t acc, hok h -> Permutation h t -> StronglySorted (le cmp) t ->
    separates cmp t -> (n <= length t)%nat ->
    heap_drain cmp n h acc = skipn (length t - n) t ++ acc.
  Proof.
    induction n as [|n IH]; intros h t acc O P Hs Sep Hn.
    - cbn [heap_drain]. rewrite Nat.sub_0_r, skipn_all. reflexivity.
    - cbn [heap_drain].
      assert (Nh : h <> []).
      { intro E. rewrite E in P. apply Permutation_nil in P. rewrite P in Hn. cbn in Hn. lia. }
      destruct (pop_correct (heap_less cmp) dummy_hit heap_less_irrefl heap_less_trans heap_nless_trans h O Nh)
        as (x & h2 & Ep & O2 & P2 & L2 & Hmin).
      rewrite Ep.
      assert (Nt : t <> []) by (intro E; rewrite E in Hn; cbn in Hn; lia).
      assert (Hx : In x t) by (apply (Permutation_in _ P), (Permutation_in _ (Permutation_sym P2)); left; reflexivity).
      assert (Ex : x = last t dummy_hit).
      { apply Sep; [exact Hx | apply last_in; exact Nt|].
        pose proof (sorted_last_max cmp L t dummy_hit Hs x Hx) as M1.
        assert (M2 : heap_less cmp (last t dummy_hit) x = false).
        { apply Hmin. apply (Permutation_in _ (Permutation_sym P)). apply last_in. exact Nt. }
        unfold heap_less in M2. pose proof (law_antisym cmp L x (last t dummy_hit)). lia. }
      pose proof (app_removelast_last dummy_hit Nt) as Et. rewrite <- Ex in Et.
      set (t' := removelast t) in *.
      assert (Lt : length t = S (length t')) by (rewrite Et, app_length; cbn; lia).
      rewrite (IH h2 t' (x :: acc)).
      + rewrite Et at 2. rewrite skipn_app.
        replace (length t - S n - length t')%nat with 0%nat by lia. cbn [skipn].
        replace (length t' - n)%nat with (length t - S n)%nat by lia.
        rewrite <- app_assoc. reflexivity.
      + exact O2.
      + apply Permutation_cons_inv with x. apply Permutation_trans with h; [apply Permutation_sym; exact P2|].
        apply Permutation_trans with t; [exact P|]. rewrite Et at 1. apply Permutation_sym, Permutation_cons_append.
      + rewrite Et in Hs. apply (sorted_app_inv cmp _ _ Hs).
      + intros a b Ha Hb. apply Sep; rewrite Et; apply in_or_app; left; assumption.
      + lia.
  Qed.

  Lemma store_final_rel s t skip : store_rel s t -> StronglySorted (le cmp) t -> separates cmp t ->
    store_final cmp skip s = skipn skip t.
  Proof.
    intros R Hs Sep. destruct s as [l|h]; cbn [store_rel store_final] in *.
    - subst l. reflexivity.
    - destruct R as [O P]. unfold heap_final. rewrite (Permutation_length P).
      destruct (length t <=? skip)%nat eqn:E.
      + symmetry. apply skipn_all2. apply Nat.leb_le. exact E.
      + apply Nat.leb_gt in E. rewrite (heap_drain_sorted _ h t [] O P Hs Sep) by lia.
        rewrite app_nil_r. f_equal. lia.
  Qed.
End Collector.

(* ---------- Collect = the slice of the ranking ---------- *)

Lemma prepare_all_nums needed order hits : forall num d, In d (prepare_all needed order num hits) -> num < h_num d.
Proof.
  induction hits as [|r t IH]; intros num d Hd; [destruct Hd|].
  cbn [prepare_all] in Hd. destruct Hd as [<-|Hd].
  - unfold prepare, compute. cbn [h_num]. lia.
  - pose proof (IH (num + 1) d Hd). lia.
Qed.

Lemma prepare_all_nodup needed order hits : forall num, nodup_nums (prepare_all needed order num hits).
Proof.
  unfold nodup_nums. induction hits as [|r t IH]; intro num; cbn [prepare_all map]; [constructor|].
  constructor; [|apply IH].
  intro H. apply in_map_iff in H. destruct H as (d & E & Hd).
  pose proof (prepare_all_nums needed order t (num + 1) d Hd).
  unfold prepare, compute in E. cbn [h_num] in E. lia.
Qed.

Lemma nodup_nums_filter f l : nodup_nums l -> nodup_nums (filter f l).
Proof.
  unfold nodup_nums. induction l as [|x l IH]; intro N; [constructor|].
  cbn [map] in N. inversion N as [|? ? Nx Nl]; subst. cbn [filter].
  destruct (f x); [|apply IH; exact Nl]. cbn [map]. constructor; [|apply IH; exact Nl].
  intro H. apply Nx. apply in_map_iff in H. destruct H as (d & E & Hd). apply filter_In in Hd.
  rewrite <- E. apply in_map. apply Hd.
Qed.

Lemma prepare_all_length needed order hits : forall num, length (prepare_all needed order num hits) = length hits.
Proof. induction hits as [|r t IH]; intro num; cbn [prepare_all length]; [reflexivity | rewrite IH; reflexivity]. Qed.

Lemma firstn_In {A} (l : list A) n x : In x (firstn n l) -> In x l.
Proof. intro H. rewrite <- (firstn_skipn n l). apply in_or_app. left. exact H. Qed.

Lemma skipn_In {A} (l : list A) n x : In x (skipn n l) -> In x l.
Proof. intro H. rewrite <- (firstn_skipn n l). apply in_or_app. right. exact H. Qed.

Section Slice.
  Context {B : Type}.
  Variable consume : hit -> B -> B.

  (* the hits that pass the search-after filter *)
  Definition kept (c : coll) (num : Z) (hits : list rawhit) : list hit :=
    filter (fun d => negb (after_skips (descs_of (c_order c)) (c_after c) d))
           (prepare_all (c_needed c) (c_order c) num hits).

  Lemma collect_hit_core c b d :
    let c' := fst (collect_hit consume c b d) in
    (c_store c', c_lowest c') =
    if after_skips (descs_of (c_order c)) (c_after c) d then (c_store c, c_lowest c)
    else core_step (descs_of (c_order c)) (c_cap c) (c_store c, c_lowest c) d.
  Proof.
    unfold collect_hit, core_step. destruct (after_skips _ _ d); [reflexivity|].
    destruct (match c_lowest c with Some lo => _ | None => false end); [reflexivity|].
    destruct (store_add_nes _ d (c_store c) (c_cap c)) as [s' removed]. reflexivity.
  Qed.

  Lemma collect_loop_core hits : forall c b num,
    let c' := fst (collect_loop consume c b num hits) in
    (c_store c', c_lowest c') = fold_left (core_step (descs_of (c_order c)) (c_cap c)) (kept c num hits) (c_store c, c_lowest c) /\
    c_order c' = c_order c /\ c_cap c' = c_cap c /\ c_skip c' = c_skip c /\ c_reverse c' = c_reverse c.
  Proof.
    induction hits as [|r t IH]; intros c b num; [cbn; auto|].
    cbn [collect_loop]. unfold kept. cbn [prepare_all filter].
    set (d := prepare (c_needed c) (c_order c) (num + 1) r).
    pose proof (collect_hit_core c b d) as Hc. pose proof (collect_hit_static consume c b d) as Hs.
    destruct (collect_hit consume c b d) as [c1 b1]. cbn [fst] in Hc, Hs.
    destruct Hs as (S1 & S2 & S3 & S4 & S5 & S6).
    destruct (IH c1 b1 (num + 1)) as (I1 & I2 & I3 & I4 & I5).
    rewrite I2, I3, I4, I5, S2, S4, S5, S6. repeat split; try reflexivity.
    rewrite I1. unfold kept. rewrite S1, S2, S3, S4, Hc.
    destruct (after_skips (descs_of (c_order c)) (c_after c) d); cbn [negb fold_left]; reflexivity.
  Qed.

  (* every fresh collector returns the [skip, cap) slice of the insertion-sorted ranking of the
     hits it keeps, whichever store it uses *)
  Theorem collect_spec c b0 hits :
    empty_store (c_store c) -> c_lowest c = None ->
    fst (collect consume c b0 hits) =
    let l := skipn (c_skip c) (firstn (c_cap c) (isort (compare (descs_of (c_order c))) (kept c 0 hits))) in
    if c_reverse c then rev l else l.
  Proof.
    intros Hst Hlo. unfold collect.
    pose proof (collect_loop_core hits c b0 0) as H.
    destruct (collect_loop consume c b0 0 hits) as [c' b']. cbn [fst] in *.
    destruct H as (H1 & H2 & H3 & H4 & H5).
    unfold finalize. rewrite H2, H4, H5.
    set (descs := descs_of (c_order c)) in *. set (P := kept c 0 hits) in *.
    assert (N : nodup_nums P) by (apply nodup_nums_filter, prepare_all_nodup).
    pose proof (core_steps_inv descs (c_cap c) P (c_store c, c_lowest c) []) as I.
    rewrite Hlo in I. specialize (I (inv_init_any descs (c_cap c) (c_store c) Hst) N).
    rewrite Hlo in H1. rewrite <- H1 in I. cbn [app] in I. destruct I as [I1 _]. cbn [fst] in I1.
    rewrite (store_final_rel descs (c_store c') (firstn (c_cap c) (isort (compare descs) P)) (c_skip c) I1).
    - reflexivity.
    - pose proof (isort_sorted (compare descs) (lawful_compare descs) P) as Hs.
      rewrite <- (firstn_skipn (c_cap c)) in Hs. apply (sorted_app_inv _ _ _ Hs).
    - intros a b Ha Hb. apply (nodup_separates descs (isort (compare descs) P)).
      + apply (nodup_nums_perm P); [apply Permutation_sym, isort_perm | exact N].
      + apply (firstn_In _ (c_cap c)). exact Ha.
      + apply (firstn_In _ (c_cap c)). exact Hb.
  Qed.
End Slice.

(* ---------- the request level: n / from ---------- *)

Lemma filter_true {A} (f : A -> bool) l : (forall x, In x l -> f x = true) -> filter f l = l.
Proof.
  induction l as [|x l IH]; intro H; [reflexivity|]. cbn [filter].
  rewrite (H x (or_introl eq_refl)). f_equal. apply IH. intros y Hy. apply H. right. exact Hy.
Qed.

(* the complete ranking of a match list under a sort order: what AllMatches + the documented
   comparison define, independent of any collector state *)
Definition ranking (order : list sortspec) (aggf : list Z) (hits : list rawhit) : list hit :=
  isort (compare (descs_of order)) (prepare_all (order_fields order ++ aggf) order 0 hits).

(* the preallocation never panics for non-negative arguments, whatever size+skip is relative to
   PreAllocSizeSkipCap (the generated constant only has to be >= -1) *)
Lemma backing_size_ok size skip : 0 <= size + skip -> (backing_size size skip <? 0) = false.
Proof.
  intro H. unfold backing_size, prealloc_size_skip_cap.
  destruct (_ <? size + skip); lia.
Qed.

Section Requests.
  Context {B : Type}.
  Variable consume : hit -> B -> B.

  (* topn_slice: for every match list, n >= 0, from >= 0 (including n = 0 and from beyond the
     result count) and every sort order, TopNSearch returns exactly elements [from, from+n) of the
     complete ranking.  The proof goes through collect_spec, which holds for the slice store and
     for the heap store alike, so the value of switchFromSliceToHeap is irrelevant. *)
  Theorem topn_slice_all n from order aggf b0 hits : 0 <= n -> 0 <= from ->
    rmap fst (topn_search consume n order (PFrom from) aggf b0 hits) =
    Ok (firstn (Z.to_nat n) (skipn (Z.to_nat from) (ranking order aggf hits))).
  Proof.
    intros Hn Hf. unfold topn_search, request_collector, direct_collector.
    replace ((backing_size n from <? 0) || (from <? 0)) with false by (rewrite backing_size_ok by lia; lia).
    cbn [rbind]. unfold run_collector. cbn [c_after new_collector rmap rbind].
    f_equal. rewrite collect_spec; [|apply new_store_empty | reflexivity].
    cbn [c_reverse c_skip c_cap c_order new_collector]. unfold kept.
    cbn [c_after c_order c_needed new_collector after_skips].
    rewrite filter_true by (intros; reflexivity).
    unfold ranking. rewrite firstn_skipn_comm. f_equal. f_equal. lia.
  Qed.

  (* the same for a collector forced onto either store *)
  Theorem topn_slice_both_stores c b0 hits : empty_store (c_store c) -> c_lowest c = None ->
    c_after c = None -> c_reverse c = false ->
    fst (collect consume c b0 hits) =
    skipn (c_skip c) (firstn (c_cap c) (isort (compare (descs_of (c_order c))) (prepare_all (c_needed c) (c_order c) 0 hits))).
  Proof.
    intros He Hl Ha Hr. rewrite collect_spec by assumption. rewrite Hr. unfold kept. rewrite Ha.
    cbn [after_skips]. rewrite filter_true by (intros; reflexivity). reflexivity.
  Qed.
End Requests.

(* non-vacuity and the store switch: the same 12 hits through the slice store (n + from = 10) and
   the heap store (n + from = 11) *)
Definition ex12 : list rawhit :=
  map (fun i => {| r_doc := 100 + i; r_score := 0; r_dv := []; r_tab := [Some [ (i * 7) mod 5 ]] |})
      [0;1;2;3;4;5;6;7;8;9;10;11].
Definition ex_order1 : list sortspec := [ {| s_src := TSTab 0; s_desc := false; s_first := false |} ].

Example topn_slice_ex :
  rmap (fun r => map h_doc (fst r)) (topn_search (fun _ (b : unit) => b) 7 ex_order1 (PFrom 3) [] tt ex12)
    = Ok [103; 108; 101; 106; 111; 104; 109] /\
  rmap (fun r => map h_doc (fst r)) (topn_search (fun _ (b : unit) => b) 8 ex_order1 (PFrom 3) [] tt ex12)
    = Ok [103; 108; 101; 106; 111; 104; 109; 102] /\
  new_store 10 = SSlice [] /\ new_store 11 = SHeap [].
Proof. vm_compute. repeat split. Qed.

(* ---------- search-after ---------- *)

Lemma compute_sort_length order h : length (h_sort (compute order h)) = (length (h_sort h) + length order)%nat.
Proof. unfold compute. cbn [h_sort]. rewrite app_length, map_length. reflexivity. Qed.

Lemma prepare_all_sort_length needed order hits : forall num d,
  In d (prepare_all needed order num hits) -> length (h_sort d) = length order.
Proof.
  induction hits as [|r t IH]; intros num d Hd; [destruct Hd|].
  cbn [prepare_all] in Hd. destruct Hd as [<-|Hd]; [|apply (IH _ _ Hd)].
  unfold prepare. rewrite compute_sort_length. reflexivity.
Qed.

Lemma cmp_keys_in_range_ok descs : forall a b, (length descs <= length a)%nat -> (length descs <= length b)%nat ->
  cmp_keys_in_range descs a b = true.
Proof.
  induction descs as [|d ds IH]; intros a b Ha Hb; [reflexivity|].
  destruct a as [|x a]; [cbn in Ha; lia|]. destruct b as [|y b]; [cbn in Hb; lia|].
  cbn [cmp_keys_in_range]. destruct (bcmp x y =? 0); [|reflexivity]. apply IH; cbn in *; lia.
Qed.

(* topn.go:197-205: with the pseudo match carrying the hit's own number, the test is on the keys alone *)
Lemma after_skips_keys descs key d :
  after_skips descs (Some key) d = (cmp_keys descs (h_sort d) key <=? 0).
Proof.
  unfold after_skips, compare. cbn [h_sort h_num].
  destruct (cmp_keys descs (h_sort d) key =? 0) eqn:E; [|reflexivity].
  unfold cmp_num. rewrite Z.eqb_refl. lia.
Qed.

Lemma descs_of_length order : length (descs_of order) = length order.
Proof. apply map_length. Qed.

(* hits strictly after a sort key *)
Definition after_key (descs : list bool) (key : list bytes) (d : hit) : bool := 0 <? cmp_keys descs (h_sort d) key.

Lemma filter_ext_in {A} (f g : A -> bool) l : (forall x, In x l -> f x = g x) -> filter f l = filter g l.
Proof.
  induction l as [|x l IH]; intro H; [reflexivity|]. cbn [filter].
  rewrite (H x (or_introl eq_refl)), IH; [reflexivity|]. intros y Hy. apply H. right. exact Hy.
Qed.

Lemma firstn_firstn_isort {A} (l : list A) n : firstn n (firstn n l) = firstn n l.
Proof. rewrite firstn_firstn. f_equal. lia. Qed.

Section AfterPage.
  Context {B : Type}.
  Variable consume : hit -> B -> B.

  (* after_page: search-after(key) returns the first n hits, in ranking order, among those whose
     sort key is strictly after `key` (hits with exactly that key are skipped) *)
  Theorem after_page_all n order key aggf b0 hits : 0 <= n -> (length order <= length key)%nat ->
    rmap fst (topn_search consume n order (PAfter key) aggf b0 hits) =
    Ok (firstn (Z.to_nat n)
          (isort (compare (descs_of order))
             (filter (after_key (descs_of order) key) (prepare_all (order_fields order ++ aggf) order 0 hits)))).
  Proof.
    intros Hn Hk. unfold topn_search, request_collector, direct_collector.
    replace ((backing_size n 0 <? 0) || (0 <? 0)) with false by (rewrite backing_size_ok by lia; lia).
    cbn [rbind]. unfold run_collector. cbn [c_after c_order c_needed new_collector].
    replace (forallb _ _) with true.
    - cbn [rmap rbind]. f_equal. rewrite collect_spec; [|apply new_store_empty | reflexivity].
      cbn [c_reverse c_skip c_cap c_order new_collector skipn]. unfold kept.
      cbn [c_after c_order c_needed new_collector].
      rewrite (filter_ext_in _ (after_key (descs_of order) key)).
      + replace (Z.to_nat (n + 0)) with (Z.to_nat n) by lia. reflexivity.
      + intros d _. rewrite after_skips_keys. unfold after_key. lia.
    - symmetry. apply forallb_forall. intros d Hd. apply cmp_keys_in_range_ok.
      + rewrite descs_of_length, (prepare_all_sort_length _ _ _ _ _ Hd). lia.
      + rewrite descs_of_length. exact Hk.
  Qed.
End AfterPage.

(* ---------- the pruning bound ---------- *)

(* every state the collector reaches satisfies the invariant *)
Lemma collect_loop_inv {B} (consume : hit -> B -> B) c b hits :
  empty_store (c_store c) -> c_lowest c = None ->
  let c' := fst (collect_loop consume c b 0 hits) in
  inv (descs_of (c_order c)) (c_cap c) (c_store c', c_lowest c') (kept c 0 hits).
Proof.
  intros He Hl. pose proof (collect_loop_core consume hits c b 0) as H.
  destruct (collect_loop consume c b 0 hits) as [c' b']. cbn [fst] in *. destruct H as (H1 & _).
  rewrite H1, Hl.
  apply (core_steps_inv (descs_of (c_order c)) (c_cap c) (kept c 0 hits) (c_store c, None) []).
  - apply inv_init_any. exact He.
  - apply nodup_nums_filter, prepare_all_nodup.
Qed.

(* lowest_outside_sound: in a state reached after the hits P, a hit d that the bound rejects
   (topn.go:210-217, Compare(d, lowestMatchOutsideResults) >= 0) is not among the best k of
   P ++ [d], and the best k are unchanged: skipping the store operations loses nothing *)
Theorem lowest_outside_sound_all descs k sl P d : inv descs k sl P -> nodup_nums (P ++ [d]) ->
  match snd sl with Some lo => 0 <=? compare descs d lo | None => false end = true ->
  ~ In d (firstn k (isort (compare descs) (P ++ [d]))) /\
  firstn k (isort (compare descs) (P ++ [d])) = firstn k (isort (compare descs) P).
Proof.
  intros [R Hlo] N Hp. destruct (snd sl) as [x|] eqn:Esl; [|discriminate].
  pose proof (lawful_compare descs) as L.
  set (Sp := isort (compare descs) P) in *.
  assert (Hs : StronglySorted (le (compare descs)) Sp) by apply (isort_sorted _ L).
  assert (NSp : nodup_nums (Sp ++ [d])).
  { apply (nodup_nums_perm (P ++ [d])); [|exact N]. apply Permutation_app_tail, Permutation_sym, isort_perm. }
  assert (F : fresh (compare descs) d Sp) by (apply nodup_fresh; exact NSp).
  assert (Hx : In x Sp) by (apply (nth_error_In Sp k); symmetry; exact Hlo).
  assert (0 < compare descs d x) by (pose proof (F x Hx); lia).
  destruct (topk_beyond _ L k d Sp x Hs (eq_sym Hlo) H) as [T1 _].
  rewrite (isort_snoc (compare descs) P d). fold Sp. rewrite T1. split; [|reflexivity].
  intro Hin. apply firstn_In in Hin.
  pose proof (nodup_nums_nodup _ NSp) as ND. apply NoDup_remove_2 in ND. rewrite app_nil_r in ND. contradiction.
Qed.

(* the hypotheses are satisfiable with the bound firing *)
Example lowest_outside_ex :
  let descs := [false] in
  let mk n k := {| h_num := n; h_raw := dummy_raw; h_dv := []; h_sort := [[k]] |} in
  let P := [mk 1 5; mk 2 3; mk 3 9] in
  let sl := fold_left (core_step descs 2) P (SSlice [], None) in
  snd sl = Some (mk 3 9) /\ (0 <=? compare descs (mk 4 9) (mk 3 9)) = true /\
  map h_num (store_elems (fst sl)) = [2; 1].
Proof. vm_compute. repeat split. Qed.

(* ---------- missing values ---------- *)

(* one component of Compare on two single-component keys *)
Definition cmp_component (desc : bool) (a b : bytes) : Z := cmp_keys [desc] [a] [b].

(* missing_placement: for a present key strictly between lowTerm and highTerm, a hit without a
   value compares before it when MissingFirst was requested and after it otherwise, ascending
   and descending alike *)
Theorem missing_placement_all s hm hp v :
  primary_value (s_src s) hm = None -> primary_value (s_src s) hp = Some v ->
  bcmp low_term v < 0 -> bcmp v high_term < 0 ->
  (s_first s = true -> cmp_component (s_desc s) (sort_value s hm) (sort_value s hp) < 0) /\
  (s_first s = false -> cmp_component (s_desc s) (sort_value s hm) (sort_value s hp) > 0).
Proof.
  intros Hm Hp Hlo Hhi. unfold sort_value, cmp_component. rewrite Hm, Hp. cbn [cmp_keys hd tl]. cbv zeta.
  pose proof (bcmp_antisym v high_term) as A1. pose proof (bcmp_antisym v low_term) as A2.
  unfold first_last. split; intro Hf; rewrite Hf; destruct (s_desc s); cbn [andb];
    match goal with |- context [bcmp ?a v =? 0] => destruct (bcmp a v =? 0) eqn:E end; lia.
Qed.

(* outside the open interval the sentinel no longer dominates: an empty key (an empty keyword
   field) sorts before the low sentinel, so a hit without a value is placed after it although
   MissingFirst was requested *)
Theorem missing_placement_outside_refuted :
  exists s hm hp v,
    primary_value (s_src s) hm = None /\ primary_value (s_src s) hp = Some v /\
    s_first s = true /\ s_desc s = false /\
    cmp_component (s_desc s) (sort_value s hm) (sort_value s hp) > 0.
Proof.
  exists {| s_src := TSTab 0; s_desc := false; s_first := true |},
         {| h_num := 1; h_raw := {| r_doc := 1; r_score := 0; r_dv := []; r_tab := [None] |}; h_dv := []; h_sort := [] |},
         {| h_num := 2; h_raw := {| r_doc := 2; r_score := 0; r_dv := []; r_tab := [Some []] |}; h_dv := []; h_sort := [] |},
         [].
  vm_compute. repeat split; congruence.
Qed.

(* ---------- search-before: the reversed order ---------- *)

Lemma first_last_reverse d f : first_last (negb d) (negb f) = first_last d f.
Proof. destruct d, f; reflexivity. Qed.

Lemma order_fields_reverse o : order_fields (reverse_order o) = order_fields o.
Proof. unfold order_fields, reverse_order. induction o as [|s o IH]; [reflexivity|]. cbn. rewrite IH. reflexivity. Qed.

(* Reverse leaves every computed sort value unchanged (the sentinel flips twice) *)
Lemma compute_reverse o h : compute (reverse_order o) h = compute o h.
Proof.
  unfold compute, reverse_order. f_equal. f_equal. rewrite map_map. apply map_ext. intro s.
  unfold sort_value. cbn [s_src s_desc s_first]. rewrite first_last_reverse. reflexivity.
Qed.

Lemma prepare_all_reverse needed o hits : forall num, prepare_all needed (reverse_order o) num hits = prepare_all needed o num hits.
Proof.
  induction hits as [|r t IH]; intro num; [reflexivity|]. cbn [prepare_all]. rewrite IH. f_equal.
  unfold prepare. apply compute_reverse.
Qed.

Lemma descs_of_reverse o : descs_of (reverse_order o) = map negb (descs_of o).
Proof. unfold descs_of, reverse_order. rewrite !map_map. reflexivity. Qed.

Lemma cmp_keys_negb descs : forall a b, cmp_keys (map negb descs) a b = - cmp_keys descs a b.
Proof.
  induction descs as [|d ds IH]; intros a b; [reflexivity|]. cbn [map cmp_keys]. cbv zeta.
  destruct (bcmp (hd [] a) (hd [] b) =? 0); [apply IH|]. destruct d; cbn [negb]; lia.
Qed.

Section BeforePage.
  Context {B : Type}.
  Variable consume : hit -> B -> B.

  (* before_page (general form): Before(key) collects, under the reversed order, the n hits
     closest below the key and returns them reversed, i.e. in forward order *)
  Theorem before_page_all n order key aggf b0 hits : 0 <= n -> (length order <= length key)%nat ->
    rmap fst (topn_search consume n order (PBefore key) aggf b0 hits) =
    Ok (rev (firstn (Z.to_nat n)
          (isort (compare (map negb (descs_of order)))
             (filter (fun d => cmp_keys (descs_of order) (h_sort d) key <? 0)
                     (prepare_all (order_fields order ++ aggf) order 0 hits))))).
  Proof.
    intros Hn Hk. unfold topn_search, request_collector, direct_collector.
    replace ((backing_size n 0 <? 0) || (0 <? 0)) with false by (rewrite backing_size_ok by lia; lia).
    cbn [rbind]. unfold run_collector. cbn [c_after c_order c_needed new_collector].
    rewrite order_fields_reverse, prepare_all_reverse, descs_of_reverse.
    replace (forallb _ _) with true.
    - cbn [rmap rbind]. f_equal. rewrite collect_spec; [|apply new_store_empty | reflexivity].
      cbn [c_reverse c_skip c_cap c_order new_collector skipn]. unfold kept.
      cbn [c_after c_order c_needed new_collector].
      rewrite order_fields_reverse, prepare_all_reverse, descs_of_reverse.
      rewrite (filter_ext_in _ (fun d => cmp_keys (descs_of order) (h_sort d) key <? 0)).
      + replace (Z.to_nat (n + 0)) with (Z.to_nat n) by lia. reflexivity.
      + intros d _. rewrite after_skips_keys, cmp_keys_negb. lia.
    - symmetry. apply forallb_forall. intros d Hd. apply cmp_keys_in_range_ok.
      + rewrite map_length, descs_of_length, (prepare_all_sort_length _ _ _ _ _ Hd). lia.
      + rewrite map_length, descs_of_length. exact Hk.
  Qed.
End BeforePage.

(* ---------- chained search-after ---------- *)

Lemma StronglySorted_filter {A} (R : A -> A -> Prop) f l : StronglySorted R l -> StronglySorted R (filter f l).
Proof.
  induction 1 as [|x l Hs IH Hall]; [constructor|]. cbn [filter]. destruct (f x); [|exact IH].
  constructor; [exact IH|]. apply Forall_forall. intros y Hy. apply filter_In in Hy.
  rewrite Forall_forall in Hall. apply Hall, Hy.
Qed.

Lemma Permutation_filter' {A} (f : A -> bool) l l' : Permutation l l' -> Permutation (filter f l) (filter f l').
Proof.
  induction 1 as [|x l l' P IH|x y l|l l' l'' P1 IH1 P2 IH2]; cbn [filter].
  - constructor.
  - destruct (f x); [constructor; exact IH | exact IH].
  - destruct (f x), (f y); try apply Permutation_refl. apply perm_swap.
  - eapply Permutation_trans; eassumption.
Qed.

Section Chain.
  Variable descs : list bool.
  Notation cmp := (compare descs).
  Let L : lawful cmp := lawful_compare descs.

  Lemma isort_filter f P : nodup_nums P -> isort cmp (filter f P) = filter f (isort cmp P).
  Proof.
    intro N. apply (sorted_perm_unique cmp L).
    - apply (isort_sorted cmp L).
    - apply StronglySorted_filter, (isort_sorted cmp L).
    - apply Permutation_trans with (filter f P); [apply isort_perm|].
      apply Permutation_filter', Permutation_sym, isort_perm.
    - apply (separates_perm cmp (filter f P)); [apply Permutation_sym, isort_perm|].
      apply nodup_separates, nodup_nums_filter, N.
  Qed.

  (* the sort keys alone distinguish the hits *)
  Definition keys_distinct (P : list hit) : Prop :=
    forall a b, In a P -> In b P -> cmp_keys descs (h_sort a) (h_sort b) = 0 -> a = b.

  Lemma compare_keys a b : cmp_keys descs (h_sort a) (h_sort b) <> 0 -> cmp a b = cmp_keys descs (h_sort a) (h_sort b).
  Proof. intro H. unfold compare. destruct (cmp_keys descs (h_sort a) (h_sort b) =? 0) eqn:E; [lia | reflexivity]. Qed.

  (* in a ranking whose keys are distinct, the hits strictly after the key of x are the suffix behind x *)
  Lemma after_suffix pre x suf : StronglySorted (le cmp) (pre ++ x :: suf) -> NoDup (pre ++ x :: suf) ->
    keys_distinct (pre ++ x :: suf) ->
    filter (after_key descs (h_sort x)) (pre ++ x :: suf) = suf.
  Proof.
    intros Hs ND KD. rewrite filter_app. cbn [filter].
    destruct (sorted_app_inv cmp pre (x :: suf) Hs) as (_ & Hs2 & H12).
    inversion Hs2 as [|? ? Hs3 Hx]; subst. rewrite Forall_forall in Hx.
    assert (Hkx : cmp_keys descs (h_sort x) (h_sort x) = 0) by apply (law_refl _ (lawful_cmp_keys descs)).
    unfold after_key at 2. rewrite Hkx. cbn [Z.ltb Z.compare].
    assert (Hxin : In x (pre ++ x :: suf)) by (apply in_or_app; right; left; reflexivity).
    assert (E1 : filter (after_key descs (h_sort x)) pre = []).
    { rewrite (filter_ext_in _ (fun _ => false)); [clear; induction pre as [|p0 pre IHp]; [reflexivity | exact IHp]|].
      intros d Hd. unfold after_key.
      assert (Hdin : In d (pre ++ x :: suf)) by (apply in_or_app; left; exact Hd).
      assert (Nk : cmp_keys descs (h_sort d) (h_sort x) <> 0).
      { intro E. pose proof (KD d x Hdin Hxin E). subst d.
        apply NoDup_remove_2 in ND. apply ND, in_or_app. left. exact Hd. }
      pose proof (H12 d x Hd (or_introl eq_refl)) as Hle. unfold le in Hle. rewrite (compare_keys d x Nk) in Hle. lia. }
    assert (E2 : filter (after_key descs (h_sort x)) suf = suf).
    { apply filter_true. intros d Hd. unfold after_key.
      assert (Hdin : In d (pre ++ x :: suf)) by (apply in_or_app; right; right; exact Hd).
      assert (Nk : cmp_keys descs (h_sort x) (h_sort d) <> 0).
      { intro E. pose proof (KD x d Hxin Hdin E). subst d.
        apply NoDup_remove_2 in ND. apply ND, in_or_app. right. exact Hd. }
      pose proof (Hx d Hd) as Hle. unfold le in Hle. rewrite (compare_keys x d Nk) in Hle.
      pose proof (law_antisym _ (lawful_cmp_keys descs) (h_sort x) (h_sort d)). lia. }
    rewrite E1, E2. reflexivity.
  Qed.
End Chain.

Section Covers.
  Context {B : Type}.
  Variable consume : hit -> B -> B.
  Variables (n : Z) (order : list sortspec) (aggf : list Z) (b0 : B) (hits : list rawhit).
  Hypothesis Hn : 0 < n.
  Notation descs := (descs_of order).
  Notation prepared := (prepare_all (order_fields order ++ aggf) order 0 hits).
  Hypothesis KD : keys_distinct descs prepared.

  Let Rk := ranking order aggf hits.

  Lemma Rk_sorted : StronglySorted (le (compare descs)) Rk.
  Proof. apply (isort_sorted _ (lawful_compare descs)). Qed.

  Lemma Rk_nodup : NoDup Rk.
  Proof.
    apply (nodup_nums_nodup). apply (nodup_nums_perm prepared); [apply Permutation_sym, isort_perm | apply prepare_all_nodup].
  Qed.

  Lemma Rk_keys : keys_distinct descs Rk.
  Proof. intros a b Ha Hb. apply KD; apply (isort_in (compare descs)); assumption. Qed.

  Lemma Rk_in_prepared x : In x Rk -> In x prepared.
  Proof. apply (isort_in (compare descs)). Qed.

  (* the request that follows the prefix pre of the ranking *)
  Definition next_paging (pre : list hit) : paging :=
    match pre with
    | [] => PFrom 0
    | _ => PAfter (h_sort (last pre dummy_hit))
    end.

  Lemma page_after_prefix pre suf : Rk = pre ++ suf ->
    rmap fst (topn_search consume n order (next_paging pre) aggf b0 hits) = Ok (firstn (Z.to_nat n) suf).
  Proof.
    intro E. destruct pre as [|p0 pre'] eqn:Ep.
    - cbn [next_paging]. rewrite topn_slice_all by lia. cbn [Z.to_nat skipn]. fold Rk. rewrite E. reflexivity.
    - rewrite <- Ep in *. assert (Np : pre <> []) by (rewrite Ep; discriminate).
      unfold next_paging. rewrite Ep. rewrite <- Ep.
      destruct (@exists_last _ pre Np) as (pre0 & x & Epx). rewrite Epx, last_last.
      assert (Hx : In x Rk) by (rewrite E, Epx; apply in_or_app; left; apply in_or_app; right; left; reflexivity).
      rewrite after_page_all; [|lia|].
      + f_equal. f_equal. rewrite (isort_filter descs) by apply prepare_all_nodup.
        change (isort (compare descs) prepared) with Rk.
        assert (E' : Rk = pre0 ++ x :: suf) by (rewrite E, Epx, <- app_assoc; reflexivity).
        rewrite E'. apply after_suffix; rewrite <- E'; [apply Rk_sorted | apply Rk_nodup | apply Rk_keys].
      + rewrite (prepare_all_sort_length _ _ _ _ x (Rk_in_prepared x Hx)). lia.
  Qed.

  Lemma chain_covers fuel : forall pre suf, Rk = pre ++ suf -> (length suf < fuel)%nat ->
    after_chain consume fuel n order aggf b0 hits (next_paging pre) = Ok suf.
  Proof.
    induction fuel as [|f IH]; intros pre suf E Hf; [lia|].
    cbn [after_chain]. rewrite (page_after_prefix pre suf E). cbn [rbind].
    remember (firstn (Z.to_nat n) suf) as page eqn:Epage.
    destruct page as [|p1 page'].
    - destruct suf as [|y suf']; [reflexivity|]. destruct (Z.to_nat n) eqn:En; [lia | discriminate Epage].
    - assert (Es2 : suf = (p1 :: page') ++ skipn (Z.to_nat n) suf) by (rewrite Epage; symmetry; apply firstn_skipn).
      assert (Hnext : next_paging (pre ++ p1 :: page') = PAfter (h_sort (last (p1 :: page') dummy_hit))).
      { unfold next_paging. destruct (pre ++ p1 :: page') as [|z zs] eqn:Ez.
        - apply app_eq_nil in Ez. destruct Ez as [_ Ez]. discriminate.
        - rewrite <- Ez. f_equal. f_equal.
          destruct (@exists_last _ (p1 :: page') ltac:(discriminate)) as (pg0 & lz & Elz).
          rewrite Elz, app_assoc, !last_last. reflexivity. }
      rewrite <- Hnext.
      rewrite (IH (pre ++ p1 :: page') (skipn (Z.to_nat n) suf)).
      + cbn [rbind]. rewrite <- Es2. reflexivity.
      + rewrite <- app_assoc, <- Es2. exact E.
      + rewrite skipn_length. pose proof (f_equal (@length hit) Es2) as Hl.
        rewrite app_length, skipn_length in Hl. cbn [length] in Hl. lia.
  Qed.

  (* paging_covers: with any page size n > 0, under an order whose keys distinguish all matches,
     chaining search-after from the first page until an empty page visits every match exactly
     once, in ranking order *)
  Theorem paging_covers_after :
    after_chain consume (Datatypes.S (length hits)) n order aggf b0 hits (PFrom 0) = Ok (ranking order aggf hits).
  Proof.
    change (PFrom 0) with (next_paging []). apply chain_covers; [reflexivity|].
    unfold ranking. rewrite isort_length, prepare_all_length. lia.
  Qed.
End Covers.

(* ---------- search-before in forward terms ---------- *)

Lemma StronglySorted_snoc {A} (R : A -> A -> Prop) l x : StronglySorted R l -> (forall y, In y l -> R y x) ->
  StronglySorted R (l ++ [x]).
Proof.
  induction 1 as [|h t Hs IH Hall]; intro H; cbn [app]; [constructor; constructor|].
  constructor.
  - apply IH. intros y Hy. apply H. right. exact Hy.
  - apply Forall_forall. intros y Hy. apply in_app_or in Hy. destruct Hy as [Hy|[<-|[]]].
    + rewrite Forall_forall in Hall. apply Hall, Hy.
    + apply H. left. reflexivity.
Qed.

Lemma StronglySorted_rev {A} (R : A -> A -> Prop) l : StronglySorted R l -> StronglySorted (fun a b => R b a) (rev l).
Proof.
  induction 1 as [|h t Hs IH Hall]; cbn [rev]; [constructor|].
  apply StronglySorted_snoc; [exact IH|]. intros y Hy. apply in_rev in Hy.
  rewrite Forall_forall in Hall. apply Hall, Hy.
Qed.

Lemma StronglySorted_impl_in {A} (R R' : A -> A -> Prop) l : StronglySorted R l ->
  (forall a b, In a l -> In b l -> R a b -> R' a b) -> StronglySorted R' l.
Proof.
  induction 1 as [|h t Hs IH Hall]; intro H; [constructor|]. constructor.
  - apply IH. intros a b Ha Hb. apply H; right; assumption.
  - rewrite Forall_forall in *. intros y Hy. apply H; [left; reflexivity | right; exact Hy | apply Hall, Hy].
Qed.

Section Reverse.
  Variable descs : list bool.

  (* under keys that distinguish the hits, the ranking by the reversed order is the reversed ranking *)
  Lemma isort_reversed P : nodup_nums P -> keys_distinct descs P ->
    isort (compare (map negb descs)) P = rev (isort (compare descs) P).
  Proof.
    intros N KD. pose proof (lawful_compare descs) as L. pose proof (lawful_compare (map negb descs)) as L'.
    apply (sorted_perm_unique _ L').
    - apply (isort_sorted _ L').
    - apply (StronglySorted_impl_in (fun a b => le (compare descs) b a)).
      + apply StronglySorted_rev, (isort_sorted _ L).
      + intros a b Ha Hb Hle. unfold le in *.
        apply in_rev in Ha. apply in_rev in Hb. apply (proj1 (isort_in (compare descs) P a)) in Ha. apply (proj1 (isort_in (compare descs) P b)) in Hb.
        destruct (Z.eq_dec (cmp_keys descs (h_sort a) (h_sort b)) 0) as [E|NE].
        * pose proof (KD a b Ha Hb E). subst b. rewrite (law_refl _ L'). lia.
        * assert (NE' : cmp_keys (map negb descs) (h_sort a) (h_sort b) <> 0) by (rewrite cmp_keys_negb; lia).
          rewrite (compare_keys (map negb descs) a b NE'), cmp_keys_negb.
          assert (NE2 : cmp_keys descs (h_sort b) (h_sort a) <> 0).
          { pose proof (law_antisym _ (lawful_cmp_keys descs) (h_sort a) (h_sort b)). lia. }
          rewrite (compare_keys descs b a NE2) in Hle.
          pose proof (law_antisym _ (lawful_cmp_keys descs) (h_sort a) (h_sort b)). lia.
    - apply Permutation_trans with P; [apply isort_perm|].
      apply Permutation_trans with (isort (compare descs) P); [apply Permutation_sym, isort_perm | apply Permutation_rev].
    - apply (separates_perm _ P); [apply Permutation_sym, isort_perm | apply nodup_separates; exact N].
  Qed.
End Reverse.

(* hits strictly before a sort key *)
Definition before_key (descs : list bool) (key : list bytes) (d : hit) : bool := cmp_keys descs (h_sort d) key <? 0.

Section BeforeFull.
  Context {B : Type}.
  Variable consume : hit -> B -> B.

  (* before_page: under an order whose keys distinguish the matches, Before(key) returns the
     LAST n hits of the forward ranking among those strictly before `key`, in forward order *)
  Theorem before_page_full n order key aggf b0 hits : 0 <= n -> (length order <= length key)%nat ->
    keys_distinct (descs_of order) (prepare_all (order_fields order ++ aggf) order 0 hits) ->
    rmap fst (topn_search consume n order (PBefore key) aggf b0 hits) =
    Ok (lastn (Z.to_nat n) (filter (before_key (descs_of order) key) (ranking order aggf hits))).
  Proof.
    intros Hn Hk KD. rewrite before_page_all by assumption. f_equal.
    set (P := prepare_all (order_fields order ++ aggf) order 0 hits) in *.
    set (bf := fun d => cmp_keys (descs_of order) (h_sort d) key <? 0).
    assert (N : nodup_nums P) by apply prepare_all_nodup.
    rewrite (isort_reversed (descs_of order) (filter bf P)).
    - rewrite (isort_filter (descs_of order) bf P N). fold (ranking order aggf hits).
      unfold lastn, before_key. fold bf. rewrite firstn_rev, rev_involutive. reflexivity.
    - apply nodup_nums_filter, N.
    - intros a b Ha Hb. apply KD; [apply filter_In in Ha; apply Ha | apply filter_In in Hb; apply Hb].
  Qed.
End BeforeFull.

(* twelve hits with a heavily tied first key and a unique second key: a distinguishing order *)
Definition ex12u : list rawhit :=
  map (fun i => {| r_doc := 100 + i; r_score := 0; r_dv := []; r_tab := [Some [ (i * 7) mod 5 ]; Some [ i ]] |})
      [0;1;2;3;4;5;6;7;8;9;10;11].
Definition ex_order2 : list sortspec :=
  [ {| s_src := TSTab 0; s_desc := false; s_first := false |}; {| s_src := TSTab 1; s_desc := true; s_first := false |} ].

Fixpoint keys_distinctb (descs : list bool) (l : list hit) : bool :=
  match l with
  | [] => true
  | a :: t => forallb (fun b => negb (cmp_keys descs (h_sort a) (h_sort b) =? 0)) t && keys_distinctb descs t
  end.

Example paging_covers_ex :
  rmap (map h_doc) (after_chain (fun _ (b : unit) => b) 13 5 ex_order2 [] tt ex12u (PFrom 0))
    = Ok [110; 105; 100; 108; 103; 111; 106; 101; 109; 104; 107; 102] /\
  keys_distinctb (descs_of ex_order2) (prepare_all (order_fields ex_order2) ex_order2 0 ex12u) = true.
Proof. vm_compute. split; reflexivity. Qed.

(* beyond PreAllocSizeSkipCap: 1100 matches with heavy ties, the page [995, 1005) and a request
   for 1101 hits; the preallocation cap bounds make() only, never what the collector retains *)
Definition exdeep : list rawhit :=
  map (fun i => let z := Z.of_nat i in {| r_doc := z; r_score := 0; r_dv := []; r_tab := [Some [ z mod 7 ]] |}) (seq 0 1100).

Example topn_slice_deep_ex :
  (prealloc_size_skip_cap <? 995 + 10) = true /\
  rmap (fun r => map h_doc (fst r)) (topn_search (fun _ (b : unit) => b) 10 ex_order1 (PFrom 995) [] tt exdeep)
    = Ok [370; 377; 384; 391; 398; 405; 412; 419; 426; 433] /\
  rmap (fun r => length (fst r)) (topn_search (fun _ (b : unit) => b) 1101 ex_order1 (PFrom 0) [] tt exdeep) = Ok 1100%nat.
Proof. vm_compute. repeat split. Qed.

(* ---------- chained search-before ---------- *)

Section BeforeChain.
  Variable descs : list bool.
  Notation cmp := (compare descs).

  (* mirror of after_suffix: the hits strictly before the key of x are the prefix in front of x *)
  Lemma before_prefix pre x suf : StronglySorted (le cmp) (pre ++ x :: suf) -> NoDup (pre ++ x :: suf) ->
    keys_distinct descs (pre ++ x :: suf) ->
    filter (before_key descs (h_sort x)) (pre ++ x :: suf) = pre.
  Proof.
    intros Hs ND KD. rewrite filter_app. cbn [filter].
    destruct (sorted_app_inv cmp pre (x :: suf) Hs) as (_ & Hs2 & H12).
    inversion Hs2 as [|? ? Hs3 Hx]; subst. rewrite Forall_forall in Hx.
    assert (Hkx : cmp_keys descs (h_sort x) (h_sort x) = 0) by apply (law_refl _ (lawful_cmp_keys descs)).
    unfold before_key at 2. rewrite Hkx. cbn [Z.ltb Z.compare].
    assert (Hxin : In x (pre ++ x :: suf)) by (apply in_or_app; right; left; reflexivity).
    assert (E1 : filter (before_key descs (h_sort x)) pre = pre).
    { apply filter_true. intros d Hd. unfold before_key.
      assert (Hdin : In d (pre ++ x :: suf)) by (apply in_or_app; left; exact Hd).
      assert (Nk : cmp_keys descs (h_sort d) (h_sort x) <> 0).
      { intro E. pose proof (KD d x Hdin Hxin E). subst d.
        apply NoDup_remove_2 in ND. apply ND, in_or_app. left. exact Hd. }
      pose proof (H12 d x Hd (or_introl eq_refl)) as Hle. unfold le in Hle. rewrite (compare_keys descs d x Nk) in Hle. lia. }
    assert (E2 : filter (before_key descs (h_sort x)) suf = []).
    { rewrite (filter_ext_in _ (fun _ => false)); [clear; induction suf as [|s0 suf IHs]; [reflexivity | exact IHs]|].
      intros d Hd. unfold before_key.
      assert (Hdin : In d (pre ++ x :: suf)) by (apply in_or_app; right; right; exact Hd).
      assert (Nk : cmp_keys descs (h_sort x) (h_sort d) <> 0).
      { intro E. pose proof (KD x d Hxin Hdin E). subst d.
        apply NoDup_remove_2 in ND. apply ND, in_or_app. right. exact Hd. }
      pose proof (Hx d Hd) as Hle. unfold le in Hle. rewrite (compare_keys descs x d Nk) in Hle.
      pose proof (law_antisym _ (lawful_cmp_keys descs) (h_sort x) (h_sort d)). lia. }
    rewrite E1, E2, app_nil_r. reflexivity.
  Qed.
End BeforeChain.

Section CoversBefore.
  Context {B : Type}.
  Variable consume : hit -> B -> B.
  Variables (n : Z) (order : list sortspec) (aggf : list Z) (b0 : B) (hits : list rawhit).
  Hypothesis Hn : 0 < n.
  Notation descs := (descs_of order).
  Notation prepared := (prepare_all (order_fields order ++ aggf) order 0 hits).
  Hypothesis KD : keys_distinct descs prepared.

  Let Rk := ranking order aggf hits.

  Lemma page_before pre x suf : Rk = pre ++ x :: suf ->
    rmap fst (topn_search consume n order (PBefore (h_sort x)) aggf b0 hits) = Ok (lastn (Z.to_nat n) pre).
  Proof.
    intro E.
    assert (Hx : In x Rk) by (rewrite E; apply in_or_app; right; left; reflexivity).
    rewrite before_page_full; [|lia| |exact KD].
    - f_equal. f_equal. fold Rk. rewrite E. apply before_prefix; rewrite <- E.
      + apply (isort_sorted _ (lawful_compare descs)).
      + apply nodup_nums_nodup. apply (nodup_nums_perm prepared); [apply Permutation_sym, isort_perm | apply prepare_all_nodup].
      + intros a b Ha Hb. apply KD; apply (isort_in (compare descs)); assumption.
    - rewrite (prepare_all_sort_length _ _ _ _ x (proj1 (isort_in (compare descs) prepared x) Hx)). lia.
  Qed.

  Lemma before_chain_covers fuel : forall pre x suf, Rk = pre ++ x :: suf -> (length pre < fuel)%nat ->
    before_chain consume fuel n order aggf b0 hits (h_sort x) = Ok pre.
  Proof.
    induction fuel as [|f IH]; intros pre x suf E Hf; [lia|].
    cbn [before_chain]. rewrite (page_before pre x suf E). cbn [rbind].
    unfold lastn. set (k := (length pre - Z.to_nat n)%nat).
    remember (skipn k pre) as page eqn:Epage.
    destruct page as [|y page'].
    - (* empty page: pre is empty *)
      destruct pre as [|p0 pre']; [reflexivity|].
      assert (length (skipn k (p0 :: pre')) = 0%nat) by (rewrite <- Epage; reflexivity).
      rewrite skipn_length in H. cbn [length] in *. lia.
    - assert (Es : pre = firstn k pre ++ y :: page') by (rewrite Epage; symmetry; apply firstn_skipn).
      rewrite (IH (firstn k pre) y (page' ++ x :: suf)).
      + cbn [rbind]. rewrite <- Es. reflexivity.
      + rewrite E at 1. rewrite Es at 1. rewrite <- app_assoc. reflexivity.
      + rewrite firstn_length. pose proof (f_equal (@length hit) Es) as Hl.
        rewrite app_length in Hl. cbn [length] in Hl. lia.
  Qed.

  (* paging_covers_before: starting from the sort value of any hit x of the ranking (in
     particular the last one), chained search-before with any page size n > 0 returns, page by
     page from the back and each page in forward order, exactly the hits in front of x: every
     one once, in ranking order.  Fuel |hits| suffices. *)
  Theorem paging_covers_before_all pre x suf : Rk = pre ++ x :: suf ->
    before_chain consume (length hits) n order aggf b0 hits (h_sort x) = Ok pre.
  Proof.
    intro E. apply (before_chain_covers (length hits) pre x suf E).
    pose proof (f_equal (@length hit) E) as Hl. unfold Rk, ranking in Hl.
    rewrite isort_length, prepare_all_length, app_length in Hl. cbn [length] in Hl. lia.
  Qed.
End CoversBefore.

Example paging_covers_before_ex :
  rmap (map h_doc) (before_chain (fun _ (b : unit) => b) 12 5 ex_order2 [] tt ex12u [[4]; [2]])
    = Ok [110; 105; 100; 108; 103; 111; 106; 101; 109; 104; 107] /\
  map h_doc (ranking ex_order2 [] ex12u) = [110; 105; 100; 108; 103; 111; 106; 101; 109; 104; 107; 102] /\
  map h_sort (skipn 11 (ranking ex_order2 [] ex12u)) = [[[4]; [2]]].
Proof. vm_compute. repeat split. Qed.
