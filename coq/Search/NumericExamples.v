(* Search/NumericExamples.v — for each implication of Props/C10.v, an instance showing that its
   hypotheses are satisfiable on non-trivial values (computed with the model). *)
From Coq Require Import ZArith List Bool Lia.
From Bluge Require Import Base.Int64 Base.NumBits Base.Res Gen.ParamsNumeric Search.Numeric
  Search.NumericProofs Search.NumericPrefix Search.NumericSplit Search.NumericEnum Search.NumericRange.
Import ListNotations.
Open Scope Z_scope.

Definition covered_b (rs : list trange) (v : Z) : bool :=
  existsb (fun r => existsb (in_trange r) (index_tokens v numeric_precision_step)) rs.

Lemma covered_b_true rs v : covered_b rs v = true -> covered rs v.
Proof.
  unfold covered_b, covered, covers. rewrite existsb_exists. intros (r & Hin & H).
  rewrite existsb_exists in H. destruct H as (t & Ht & Hr). exists r. split; [exact Hin|]. exists t. tauto.
Qed.

(* prefix_roundtrip: a negative value, shift 0 and shift 12 *)
Lemma ex_prefix_roundtrip :
  in_int64 (-123456789) /\
  (exists p, prefix_coded (-123456789) 0 = Some p /\ pc_int64 p = Some (-123456789)) /\
  (exists p, prefix_coded (-123456789) 12 = Some p /\ pc_int64 p = Some (-123457536) /\
             Z.ldiff (-123456789) (Z.ones 12) = -123457536).
Proof.
  split; [unfold in_int64, min_int64, max_int64; lia|].
  split; eexists; (split; [vm_compute; reflexivity|]); vm_compute; split; reflexivity || reflexivity.
Qed.

(* prefix_order: values of both signs whose shift-4 truncations differ, and two that collide *)
Lemma ex_prefix_order :
  in_int64 (-5) /\ in_int64 300 /\ in_int64 303 /\
  (exists pa pb pc, prefix_coded (-5) 4 = Some pa /\ prefix_coded 300 4 = Some pb /\ prefix_coded 303 4 = Some pc /\
     bytes_cmp pa pb = Lt /\ bytes_cmp pb pc = Eq /\ length pa = 10%nat).
Proof.
  repeat split; try (unfold in_int64, min_int64, max_int64; lia).
  do 3 eexists. repeat split; vm_compute; reflexivity.
Qed.

Lemma ex_valid_prefix_coded :
  exists p, prefix_coded 77 8 = Some p /\ valid_prefix_coded p = (true, 8) /\ length p = 9%nat.
Proof. eexists. repeat split; vm_compute; reflexivity. Qed.

(* split_exact: an interval crossing zero; 8 ranges over shifts 0..12; inside / outside probes *)
Lemma ex_split_exact :
  in_int64 (-1000) /\ in_int64 70000 /\
  exists rs, split_range (-1000) 70000 query_precision_step = Ok rs /\ length rs = 8%nat /\
             covered rs 65536 /\ covered rs (-1000) /\ covered rs 70000 /\
             covered_b rs 70001 = false /\ covered_b rs (-1001) = false.
Proof.
  split; [unfold in_int64, min_int64, max_int64; lia|].
  split; [unfold in_int64, min_int64, max_int64; lia|].
  eexists. split; [vm_compute; reflexivity|]. split; [vm_compute; reflexivity|].
  repeat split; try (apply covered_b_true); vm_compute; reflexivity.
Qed.

(* enumerate_spec: the shift-0 range [100,111] of [100,115]... with a two-term dictionary *)
Lemma ex_enumerate :
  exists r ts, split_range 100 107 query_precision_step = Ok [r] /\
    wf_bytes (tr_start r) /\ wf_bytes (tr_end r) /\ length (tr_start r) = length (tr_end r) /\
    enumerate_range 20 r (fun t => bytes_eqb t (enc 101 0) || bytes_eqb t (enc 107 0)) = Ok ts /\
    ts = [enc 101 0; enc 107 0].
Proof.
  do 2 eexists. split; [vm_compute; reflexivity|].
  split; [cbn [tr_start]; repeat (apply Forall_cons; [lia|]); apply Forall_nil|].
  split; [cbn [tr_end]; repeat (apply Forall_cons; [lia|]); apply Forall_nil|].
  split; [vm_compute; reflexivity|]. split; vm_compute; reflexivity.
Qed.

(* numeric_range_exact: 1.5 <= 3.0 < 10.0 *)
Definition bits_1_5 : Z := 0x3FF8000000000000.
Definition bits_3_0 : Z := 0x4008000000000000.
Definition bits_10_0 : Z := 0x4024000000000000.
Definition bits_m2_0 : Z := 0xC000000000000000.

Lemma ex_numeric_range :
  in_uint64 bits_1_5 /\ in_uint64 bits_10_0 /\ in_uint64 bits_3_0 /\ finite bits_3_0 /\ finite bits_m2_0 /\
  lower_ok bits_1_5 true bits_3_0 /\ upper_ok bits_10_0 false bits_3_0 /\
  ~ lower_ok bits_1_5 true bits_m2_0.
Proof.
  unfold in_uint64, finite, lower_ok, upper_ok, float_lt, f_sign, f_mag, bits_1_5, bits_3_0, bits_10_0,
    bits_m2_0, bits_pos_inf, bits_neg_inf, two63, two64.
  repeat split; try (vm_compute; reflexivity); try (vm_compute; discriminate).
  - right. left. right. left. vm_compute. repeat split; reflexivity.
  - right. left. right. left. vm_compute. repeat split; reflexivity.
  - intros [H|[H|[_ H]]]; try discriminate.
    destruct H as [H|[H|H]]; vm_compute in H; destruct H as (H1 & H2); try discriminate;
      destruct H2 as (H2 & H3); discriminate.
Qed.

(* date_range_exact: two instants in 2020 (nanoseconds), neither aliasing an infinity *)
Lemma ex_date_range :
  in_int64 1577836800000000000 /\ in_int64 1609459200000000000 /\
  1577836800000000000 <> nanos_neg_inf_alias /\ 1609459200000000000 <> nanos_pos_inf_alias.
Proof.
  repeat split; try (unfold in_int64, min_int64, max_int64; lia); vm_compute; discriminate.
Qed.

Lemma ex_interleave :
  0 <= 0xDEADBEEF < 2 ^ 32 /\ 0 <= 0x12345678 < 2 ^ 32 /\
  interleave 0xDEADBEEF 0x12345678 = 0x535C4E71677C7ED5.
Proof. repeat split; try lia; vm_compute; reflexivity. Qed.
