(* Search/BM25FBridge.v — the bridge from the PrimFloat model (Search/BM25F.v, what the
   correspondence cases evaluate) to rounded real arithmetic (Search/BM25Rnd.v), through Flocq's
   specification of Coq's primitive floats: for finite operands whose result is finite, each
   of + - * / is the real operation followed by rounding to nearest even in binary64. *)
From Coq Require Import ZArith Reals Lra Lia List Bool Floats.
From Flocq Require Import Core BinarySingleNaN.
From Flocq Require IEEE754.PrimFloat.
From Bluge Require Import Gen.ParamsBM25 Search.BM25F Search.BM25Rnd Search.BM25RndProofs.
Import ListNotations.
Open Scope R_scope.

Module FP := Flocq.IEEE754.PrimFloat.
Notation pfloat := Coq.Floats.PrimFloat.float.
Notation Prim2B := FP.Prim2B.

Definition FR (x : pfloat) : R := B2R (Prim2B x).
Definition fin (x : pfloat) : Prop := Coq.Floats.PrimFloat.is_finite x = true.

Lemma fin_B : forall x, fin x -> is_finite (Prim2B x) = true.
Proof. intros x H. unfold fin in H. rewrite FP.is_finite_equiv in H. exact H. Qed.

Lemma rnd64_is_round : forall r, round radix2 (SpecFloat.fexp prec emax) (round_mode mode_NE) r = rnd64 r.
Proof. reflexivity. Qed.

Lemma overflow_not_finite : forall (z : binary_float prec emax) s,
  B2SF z = binary_overflow prec emax mode_NE s -> is_finite z = false.
Proof. intros z s H. destruct z; cbn in H; try discriminate; reflexivity. Qed.

Lemma add_R : forall x y, fin x -> fin y -> fin (x + y)%float -> FR (x + y)%float = rnd64 (FR x + FR y).
Proof.
  intros x y Fx Fy Fz. apply fin_B in Fx, Fy, Fz. unfold FR. rewrite FP.add_equiv in *.
  pose proof (Bplus_correct prec emax FP.Hprec FP.Hmax mode_NE (Prim2B x) (Prim2B y) Fx Fy) as H.
  destruct (Rlt_bool _ _).
  - destruct H as [H _]. rewrite H. reflexivity.
  - destruct H as [H _]. apply overflow_not_finite in H. congruence.
Qed.

Lemma sub_R : forall x y, fin x -> fin y -> fin (x - y)%float -> FR (x - y)%float = rnd64 (FR x - FR y).
Proof.
  intros x y Fx Fy Fz. apply fin_B in Fx, Fy, Fz. unfold FR. rewrite FP.sub_equiv in *.
  pose proof (Bminus_correct prec emax FP.Hprec FP.Hmax mode_NE (Prim2B x) (Prim2B y) Fx Fy) as H.
  destruct (Rlt_bool _ _).
  - destruct H as [H _]. rewrite H. reflexivity.
  - destruct H as [H _]. apply overflow_not_finite in H. congruence.
Qed.

Lemma mul_R : forall x y, fin (x * y)%float -> FR (x * y)%float = rnd64 (FR x * FR y).
Proof.
  intros x y Fz. apply fin_B in Fz. unfold FR. rewrite FP.mul_equiv in *.
  pose proof (Bmult_correct prec emax FP.Hprec FP.Hmax mode_NE (Prim2B x) (Prim2B y)) as H.
  destruct (Rlt_bool _ _).
  - destruct H as [H _]. rewrite H. reflexivity.
  - apply overflow_not_finite in H. congruence.
Qed.

Lemma div_R : forall x y, fin x -> fin y -> fin (x / y)%float -> FR (x / y)%float = rnd64 (FR x / FR y).
Proof.
  intros x y Fx Fy Fz. apply fin_B in Fx, Fy, Fz. unfold FR. rewrite FP.div_equiv in *.
  assert (Hy : B2R (Prim2B y) <> 0).
  { destruct (Prim2B y) as [sy|sy| |sy my ey By]; try discriminate.
    - destruct (Prim2B x) as [sx|sx| |sx mx ex Bx]; try discriminate; cbn in Fz; discriminate.
    - intros Hy0. cbn in Hy0. apply eq_0_F2R in Hy0. destruct sy; discriminate. }
  pose proof (Bdiv_correct prec emax FP.Hprec FP.Hmax mode_NE (Prim2B x) (Prim2B y) Hy) as H.
  destruct (Rlt_bool _ _).
  - destruct H as [H _]. rewrite H. reflexivity.
  - apply overflow_not_finite in H. congruence.
Qed.

Lemma FR_one : FR 1%float = 1.
Proof. unfold FR. change 1%float with one. rewrite FP.one_equiv, FP.Prim2B_B2Prim. apply Bone_correct. Qed.

Lemma le_R : forall x y, fin x -> fin y -> (Coq.Floats.PrimFloat.leb x y = true <-> FR x <= FR y).
Proof.
  intros x y Fx Fy. apply fin_B in Fx, Fy. rewrite FP.leb_equiv. rewrite (Bleb_correct _ _ _ _ Fx Fy). unfold FR.
  split; intros H.
  - destruct (Rle_bool_spec (B2R (Prim2B x)) (B2R (Prim2B y))) as [Hle|Hlt]; [exact Hle | discriminate].
  - apply Rle_bool_true. exact H.
Qed.

Lemma lt_R : forall x y, fin x -> fin y -> (Coq.Floats.PrimFloat.ltb x y = true <-> FR x < FR y).
Proof.
  intros x y Fx Fy. apply fin_B in Fx, Fy. rewrite FP.ltb_equiv. rewrite (Bltb_correct _ _ _ _ Fx Fy). unfold FR.
  split; intros H.
  - destruct (Rlt_bool_spec (B2R (Prim2B x)) (B2R (Prim2B y))) as [Hlt|Hle]; [exact Hlt | discriminate].
  - apply Rlt_bool_true. exact H.
Qed.

Lemma FR_zero : FR 0%float = 0.
Proof. unfold FR. change 0%float with zero. rewrite FP.zero_equiv, FP.Prim2B_B2Prim. reflexivity. Qed.
Lemma fin_zero : fin 0%float.
Proof. reflexivity. Qed.
Lemma fin_one : fin 1%float.
Proof. reflexivity. Qed.

Lemma score_lits : litF score_literals 0 = 1%float /\ litF score_literals 1 = 1%float /\ litF score_literals 2 = 1%float.
Proof. repeat split; vm_compute; reflexivity. Qed.

(* ---- Score, operation by operation ---- *)
Section ScoreBridge.
  Variables w k1 b f dl avgdl : pfloat.
  Hypothesis Hfin : score_finite w k1 b f dl avgdl = true.

  Let t1 := (1 - b)%float.
  Let t2 := (b * dl)%float.
  Let t3 := (t2 / avgdl)%float.
  Let t4 := (t1 + t3)%float.
  Let t5 := (k1 * t4)%float.
  Let ni := (1 / t5)%float.
  Let t6 := (f * ni)%float.
  Let t7 := (1 + t6)%float.
  Let t8 := (w / t7)%float.

  Lemma trace_fin : fin w /\ fin k1 /\ fin b /\ fin f /\ fin dl /\ fin avgdl /\
    fin t1 /\ fin t2 /\ fin t3 /\ fin t4 /\ fin t5 /\ fin ni /\ fin t6 /\ fin t7 /\ fin t8 /\ fin (w - t8)%float.
  Proof.
    pose proof Hfin as H. unfold score_finite, score_trace in H. destruct score_lits as (L0 & L1 & L2). rewrite L0, L1, L2 in H.
    cbn [forallb] in H. unfold fin, t1, t2, t3, t4, t5, ni, t6, t7, t8.
    repeat (apply andb_prop in H; destruct H as [? H]). repeat split; assumption.
  Qed.

  Lemma score_ff_eq : score_ff w k1 b f dl avgdl = (w - t8)%float.
  Proof.
    unfold score_ff, norm_inverse_ff. destruct score_lits as (L0 & L1 & L2). rewrite L0, L1, L2. reflexivity.
  Qed.

  Lemma len_denominator_FR : FR t5 = len_denominator_rnd rnd64 (FR k1) (FR b) (FR dl) (FR avgdl).
  Proof.
    destruct trace_fin as (Fw & Fk & Fb & Ff & Fd & Fa & F1 & F2 & F3 & F4 & F5 & Fn & F6 & F7 & F8 & Fs).
    unfold len_denominator_rnd, t5. rewrite mul_R by exact F5. unfold t4. rewrite add_R by assumption.
    unfold t1. rewrite sub_R by (assumption || exact fin_one). rewrite FR_one.
    unfold t3. rewrite div_R by assumption. unfold t2. rewrite mul_R by exact F2. reflexivity.
  Qed.

  Lemma norm_inverse_FR : FR ni = norm_inverse_rnd rnd64 (FR k1) (FR b) (FR dl) (FR avgdl).
  Proof.
    destruct trace_fin as (Fw & Fk & Fb & Ff & Fd & Fa & F1 & F2 & F3 & F4 & F5 & Fn & F6 & F7 & F8 & Fs).
    unfold ni. rewrite div_R by (assumption || exact fin_one). rewrite FR_one, len_denominator_FR. reflexivity.
  Qed.

  Lemma score_FR : FR (score_ff w k1 b f dl avgdl) = score_rnd rnd64 (FR w) (FR k1) (FR b) (FR f) (FR dl) (FR avgdl).
  Proof.
    destruct trace_fin as (Fw & Fk & Fb & Ff & Fd & Fa & F1 & F2 & F3 & F4 & F5 & Fn & F6 & F7 & F8 & Fs).
    rewrite score_ff_eq. unfold score_rnd, score_rnd_ni. rewrite sub_R by assumption.
    unfold t8. rewrite div_R by assumption. unfold t7. rewrite add_R by (assumption || exact fin_one). rewrite FR_one.
    unfold t6. rewrite mul_R by exact F6. rewrite norm_inverse_FR. reflexivity.
  Qed.

  Lemma score_fin : fin (score_ff w k1 b f dl avgdl).
  Proof. rewrite score_ff_eq. apply trace_fin. Qed.
End ScoreBridge.

(* ---- float64(x) for integers below 2^53 is exact ---- *)
Lemma rnd64_int : forall z : Z, (Z.abs z < 2 ^ 53)%Z -> rnd64 (IZR z) = IZR z.
Proof.
  intros z Hz. unfold rnd64. apply round_generic; [apply valid_rnd_N|].
  apply generic_format_FLT. exists (Float radix2 z 0).
  - unfold F2R. cbn. lra.
  - cbn. exact Hz.
  - cbn. lia.
Qed.

Lemma of_uint63_exact : forall z : Z, (0 <= z < 2 ^ 53)%Z ->
  FR (of_uint63 (Uint63.of_Z z)) = IZR z /\ fin (of_uint63 (Uint63.of_Z z)).
Proof.
  intros z Hz. unfold FR, fin. rewrite FP.is_finite_equiv.
  rewrite FP.of_int63_equiv.
  assert (Hto : Uint63.to_Z (Uint63.of_Z z) = z).
  { rewrite Uint63.of_Z_spec. apply Z.mod_small. unfold Uint63.wB, Uint63.size. cbn. lia. }
  rewrite Hto.
  pose proof (binary_normalize_correct prec emax FP.Hprec FP.Hmax mode_NE z 0 false) as H.
  cbv zeta in H.
  assert (HF : F2R (Float radix2 z 0) = IZR z) by (unfold F2R; cbn; lra).
  rewrite HF in H. rewrite rnd64_is_round, rnd64_int in H by (rewrite Z.abs_eq; lia).
  rewrite Rlt_bool_true in H.
  - destruct H as (H1 & H2 & _). split; assumption.
  - rewrite Rabs_pos_eq by (apply IZR_le; lia).
    apply Rlt_trans with (IZR (2 ^ 53)); [apply IZR_lt; lia|].
    replace (IZR (2 ^ 53)) with (bpow radix2 53) by (rewrite <- IZR_Zpower by lia; reflexivity).
    apply bpow_lt. reflexivity.
Qed.

Lemma f_of_int_exact : forall z, (0 <= z < 2 ^ 53)%Z -> FR (f_of_int z) = IZR z /\ fin (f_of_int z).
Proof.
  intros z Hz. unfold f_of_int, f_of_u64.
  destruct (z <? 0)%Z eqn:E; [lia|]. destruct (z <? 2 ^ 63)%Z eqn:E2; [|lia]. apply of_uint63_exact. exact Hz.
Qed.

Lemma f_of_u64_exact : forall z, (0 <= z < 2 ^ 53)%Z -> FR (f_of_u64 z) = IZR z /\ fin (f_of_u64 z).
Proof.
  intros z Hz. unfold f_of_u64. destruct (z <? 2 ^ 63)%Z eqn:E2; [|lia]. apply of_uint63_exact. exact Hz.
Qed.

(* ---- weak monotonicity of the PrimFloat score ---- *)
Notation fleb := Coq.Floats.PrimFloat.leb.
Notation fltb := Coq.Floats.PrimFloat.ltb.

(* the float64 length normalisation k1*((1-b) + b*dl/avgdl) before the reciprocal *)
Definition len_denominator_ff (k1 b dl avgdl : pfloat) : pfloat :=
  (k1 * ((litF score_literals 1 - b) + b * dl / avgdl))%float.

Lemma len_denominator_ff_FR : forall w k1 b f dl avgdl, score_finite w k1 b f dl avgdl = true ->
  FR (len_denominator_ff k1 b dl avgdl) = len_denominator_rnd rnd64 (FR k1) (FR b) (FR dl) (FR avgdl) /\
  fin (len_denominator_ff k1 b dl avgdl).
Proof.
  intros w k1 b f dl avgdl H. unfold len_denominator_ff. destruct score_lits as (_ & L1 & _). rewrite L1.
  split; [apply (len_denominator_FR w k1 b f dl avgdl H) | apply (trace_fin w k1 b f dl avgdl H)].
Qed.

Lemma float_weak_mono_ff_freq : forall w k1 b f1 f2 dl avgdl,
  score_finite w k1 b f1 dl avgdl = true -> score_finite w k1 b f2 dl avgdl = true ->
  fleb 0 w = true -> fleb 0 f1 = true -> fleb f1 f2 = true ->
  fltb 0 (len_denominator_ff k1 b dl avgdl) = true ->
  fleb (score_ff w k1 b f1 dl avgdl) (score_ff w k1 b f2 dl avgdl) = true.
Proof.
  intros w k1 b f1 f2 dl avgdl H1 H2 Hw Hf1 Hf Hd.
  pose proof (trace_fin _ _ _ _ _ _ H1) as (Fw & Fk & Fb & Ff1 & Fd & Fa & _).
  pose proof (trace_fin _ _ _ _ _ _ H2) as (_ & _ & _ & Ff2 & _).
  destruct (len_denominator_ff_FR _ _ _ _ _ _ H1) as [HD FD].
  apply (le_R _ _ (score_fin _ _ _ _ _ _ H1) (score_fin _ _ _ _ _ _ H2)).
  rewrite (score_FR _ _ _ _ _ _ H1), (score_FR _ _ _ _ _ _ H2).
  apply (le_R _ _ fin_zero Fw) in Hw. apply (le_R _ _ fin_zero Ff1) in Hf1. apply (le_R _ _ Ff1 Ff2) in Hf.
  apply (lt_R _ _ fin_zero FD) in Hd. rewrite FR_zero in *. rewrite HD in Hd.
  apply float_weak_mono_freq64; try assumption.
  unfold norm_inverse_rnd. fold (len_denominator_rnd rnd64 (FR k1) (FR b) (FR dl) (FR avgdl)).
  rewrite <- rnd64_0. apply rnd64_le. unfold Rdiv. rewrite Rmult_1_l. left. apply Rinv_0_lt_compat. exact Hd.
Qed.

Lemma float_weak_mono_ff_len : forall w k1 b f dl1 dl2 avgdl,
  score_finite w k1 b f dl1 avgdl = true -> score_finite w k1 b f dl2 avgdl = true ->
  fleb 0 w = true -> fleb 0 f = true -> fleb 0 k1 = true -> fleb 0 b = true -> fltb 0 avgdl = true ->
  fleb dl1 dl2 = true ->
  fltb 0 (len_denominator_ff k1 b dl1 avgdl) = true ->
  fleb (score_ff w k1 b f dl2 avgdl) (score_ff w k1 b f dl1 avgdl) = true.
Proof.
  intros w k1 b f dl1 dl2 avgdl H1 H2 Hw Hf Hk Hb Ha Hdl Hd.
  pose proof (trace_fin _ _ _ _ _ _ H1) as (Fw & Fk & Fb & Ff & Fd1 & Fa & _).
  pose proof (trace_fin _ _ _ _ _ _ H2) as (_ & _ & _ & _ & Fd2 & _).
  destruct (len_denominator_ff_FR _ _ _ _ _ _ H1) as [HD FD].
  apply (le_R _ _ (score_fin _ _ _ _ _ _ H2) (score_fin _ _ _ _ _ _ H1)).
  rewrite (score_FR _ _ _ _ _ _ H1), (score_FR _ _ _ _ _ _ H2).
  apply (le_R _ _ fin_zero Fw) in Hw. apply (le_R _ _ fin_zero Ff) in Hf. apply (le_R _ _ fin_zero Fk) in Hk.
  apply (le_R _ _ fin_zero Fb) in Hb. apply (lt_R _ _ fin_zero Fa) in Ha. apply (le_R _ _ Fd1 Fd2) in Hdl.
  apply (lt_R _ _ fin_zero FD) in Hd. rewrite FR_zero in *. rewrite HD in Hd.
  apply float_weak_anti_len64; assumption.
Qed.

(* with the integer statistics Score receives: freq and docLen below 2^53 convert exactly *)
Theorem float_weak_mono_all_f : forall (w k1 b avgdl : pfloat) (freq1 freq2 dl1 dl2 : Z),
  (0 <= freq1 <= freq2)%Z -> (freq2 < 2 ^ 53)%Z -> (0 <= dl1 <= dl2)%Z -> (dl2 < 2 ^ 53)%Z ->
  score_finite w k1 b (f_of_int freq1) (f_of_u64 dl1) avgdl = true ->
  score_finite w k1 b (f_of_int freq2) (f_of_u64 dl1) avgdl = true ->
  score_finite w k1 b (f_of_int freq1) (f_of_u64 dl2) avgdl = true ->
  fleb 0 w = true -> fleb 0 k1 = true -> fleb 0 b = true -> fltb 0 avgdl = true ->
  fltb 0 (len_denominator_ff k1 b (f_of_u64 dl1) avgdl) = true ->
  fleb (score_f w k1 b freq1 dl1 avgdl) (score_f w k1 b freq2 dl1 avgdl) = true /\
  fleb (score_f w k1 b freq1 dl2 avgdl) (score_f w k1 b freq1 dl1 avgdl) = true.
Proof.
  intros w k1 b avgdl freq1 freq2 dl1 dl2 Hf Hf2 Hdl Hdl2 H11 H21 H12 Hw Hk Hb Ha Hd.
  destruct (f_of_int_exact freq1 ltac:(lia)) as [E1 F1]. destruct (f_of_int_exact freq2 ltac:(lia)) as [E2 F2].
  destruct (f_of_u64_exact dl1 ltac:(lia)) as [D1 G1]. destruct (f_of_u64_exact dl2 ltac:(lia)) as [D2 G2].
  unfold score_f. split.
  - apply float_weak_mono_ff_freq; try assumption.
    + apply (le_R _ _ fin_zero F1). rewrite FR_zero, E1. apply IZR_le. lia.
    + apply (le_R _ _ F1 F2). rewrite E1, E2. apply IZR_le. lia.
  - apply float_weak_mono_ff_len; try assumption.
    + apply (le_R _ _ fin_zero F1). rewrite FR_zero, E1. apply IZR_le. lia.
    + apply (le_R _ _ G1 G2). rewrite D1, D2. apply IZR_le. lia.
Qed.

(* realistic statistics meet every side condition: weight = Idf(3,10) (bits), the default k1 and
   b, avgdl = 12, frequencies 2 <= 3, field lengths 7 <= 9 — all checked by evaluation *)
Definition ex_w : pfloat := f64_of_bits 4611875276222010990.
Definition ex_avgdl : pfloat := f_of_u64 12.
Lemma float_weak_mono_instance_f :
  score_finite ex_w default_k1_f default_b_f (f_of_int 2) (f_of_u64 7) ex_avgdl = true /\
  score_finite ex_w default_k1_f default_b_f (f_of_int 3) (f_of_u64 7) ex_avgdl = true /\
  score_finite ex_w default_k1_f default_b_f (f_of_int 2) (f_of_u64 9) ex_avgdl = true /\
  fleb 0 ex_w = true /\ fleb 0 default_k1_f = true /\ fleb 0 default_b_f = true /\ fltb 0 ex_avgdl = true /\
  fltb 0 (len_denominator_ff default_k1_f default_b_f (f_of_u64 7) ex_avgdl) = true /\
  fltb (score_f ex_w default_k1_f default_b_f 2 7 ex_avgdl) (score_f ex_w default_k1_f default_b_f 3 7 ex_avgdl) = true /\
  fltb (score_f ex_w default_k1_f default_b_f 2 9 ex_avgdl) (score_f ex_w default_k1_f default_b_f 2 7 ex_avgdl) = true.
Proof. vm_compute. repeat split; reflexivity. Qed.
