(* Search/BM25RWitness.v — the D4 witness in digits (Coq-Interval; this is the only lemma of
   C17 that depends on the Uint63 primitives through Interval's big-number arithmetic). *)
From Coq Require Import Reals Lra.
From Interval Require Import Tactic.
From Bluge Require Import Search.BM25R Search.BM25RProofs.
Open Scope R_scope.

Lemma idf_3_10_bounds :
  20971 / 10000 < idf 3 10 < 20972 / 10000 /\ 11451 / 10000 < idf_lucene 3 10 < 11452 / 10000.
Proof.
  rewrite idf_coded_3_10, idf_lucene_3_10. split; split; interval with (i_prec 50).
Qed.
