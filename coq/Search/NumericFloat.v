(* Search/NumericFloat.v — link between the sortable-integer order of numeric/float.go and the
   IEEE-754 binary64 comparison as formalised by Flocq (bit patterns through Bits.b64_of_bits,
   comparison Binary.Bcompare, real value B2R) and by Coq's primitive floats (PrimFloat.ltb).
   For finite patterns a, b that are not both zeros:
       Bcompare (b64_of_bits a) (b64_of_bits b) = Some (f2i a ?= f2i b)
   (for -0 / +0 the IEEE comparison says Eq while f2i puts -0 immediately below +0). *)
From Coq Require Import ZArith Lia Bool SpecFloat Reals.
From Flocq Require Import Core.Raux IEEE754.Binary IEEE754.Bits.
From Bluge Require Import Base.Int64 Search.Numeric Search.NumericProofs Search.NumericRange Search.NumericExamples.
Open Scope Z_scope.

(* ---------- the decoded fields of a pattern ---------- *)

Definition f_exp (a : Z) : Z := (a / 2 ^ 52) mod 2 ^ 11.
Definition f_man (a : Z) : Z := a mod 2 ^ 52.
Definition f_neg (a : Z) : bool := 2 ^ 63 <=? a.

Lemma fields a : in_uint64 a ->
  a = (if f_neg a then 2 ^ 63 else 0) + f_exp a * 2 ^ 52 + f_man a /\
  0 <= f_exp a < 2048 /\ 0 <= f_man a < 2 ^ 52 /\
  f_mag a = f_exp a * 2 ^ 52 + f_man a /\ f_sign a = (if f_neg a then 1 else 0).
Proof.
  intros Ha. unfold f_exp, f_man, f_neg, f_mag, f_sign, in_uint64, two63, two64 in *.
  change (2 ^ 52) with 4503599627370496. change (2 ^ 11) with 2048. change (2 ^ 63) with 9223372036854775808.
  destruct (Z.leb_spec 9223372036854775808 a); Z.div_mod_to_equations; lia.
Qed.

(* the spec_float a pattern decodes to (Bits.binary_float_of_bits_aux for mw = 52, ew = 11) *)
Definition sf_of (s : bool) (e m : Z) : spec_float :=
  if e =? 0 then
    match m with
    | Z0 => S754_zero s
    | Zpos p => S754_finite s p (-1074)
    | Zneg _ => S754_nan
    end
  else if e =? 2047 then
    match m with
    | Z0 => S754_infinity s
    | _ => S754_nan
    end
  else
    match m + 2 ^ 52 with
    | Zpos p => S754_finite s p (e - 1075)
    | _ => S754_nan
    end.

Lemma Zeq_bool_eqb x y : Zeq_bool x y = (x =? y).
Proof.
  destruct (Z.eqb_spec x y) as [E|E].
  - apply Zeq_is_eq_bool. exact E.
  - destruct (Zeq_bool x y) eqn:H; [|reflexivity]. apply Zeq_bool_eq in H. contradiction.
Qed.

Lemma aux_sf_of a :
  FF2SF (binary_float_of_bits_aux 52 11 a) = sf_of (f_neg a) (f_exp a) (f_man a).
Proof.
  unfold binary_float_of_bits_aux, split_bits, sf_of, f_neg, f_exp, f_man.
  change (2 ^ 52 * 2 ^ 11) with (2 ^ 63).
  change (2 ^ 11 - 1) with 2047.
  rewrite !Zeq_bool_eqb.
  destruct ((a / 2 ^ 52) mod 2 ^ 11 =? 0); [destruct (a mod 2 ^ 52); reflexivity|].
  destruct ((a / 2 ^ 52) mod 2 ^ 11 =? 2047); [destruct (a mod 2 ^ 52); reflexivity|].
  destruct (a mod 2 ^ 52 + 2 ^ 52); try reflexivity.
  cbn [FF2SF]. f_equal. change (emin (52 + 1) (2 ^ (11 - 1))) with (-1074). lia.
Qed.

(* ---------- SFcompare on decoded fields = comparison of the sortable integers ---------- *)

Definition key (s : bool) (e m : Z) : Z :=
  if s then - (e * 2 ^ 52 + m) - 1 else e * 2 ^ 52 + m.

Ltac cmp_solve :=
  repeat match goal with
         | |- context [Z.compare ?a ?b] => destruct (Z.compare_spec a b)
         end; cbn [CompOpp]; try reflexivity; try lia.

Lemma sf_cmp s e m s' e' m' :
  0 <= e < 2047 -> 0 <= m < 2 ^ 52 -> 0 <= e' < 2047 -> 0 <= m' < 2 ^ 52 ->
  ~ (e = 0 /\ m = 0 /\ e' = 0 /\ m' = 0) ->
  SFcompare (sf_of s e m) (sf_of s' e' m') = Some (Z.compare (key s e m) (key s' e' m')).
Proof.
  intros He Hm He' Hm' Hz. unfold sf_of, key.
  change (2 ^ 52) with 4503599627370496 in *.
  destruct (Z.eqb_spec e 2047); [lia|]. destruct (Z.eqb_spec e' 2047); [lia|].
  destruct (Z.eqb_spec e 0) as [E0|E0]; destruct (Z.eqb_spec e' 0) as [E0'|E0'].
  - (* subnormal or zero on both sides *)
    subst e e'. destruct m as [|p|p]; destruct m' as [|p'|p']; try lia; cbn [SFcompare]; f_equal.
    + destruct s, s'; cmp_solve.
    + destruct s, s'; cmp_solve.
    + change (Pos.compare_cont Eq p p') with (Z.pos p ?= Z.pos p').
      destruct s, s'; cmp_solve.
  - subst e. destruct (m' + 4503599627370496) as [|q'|q'] eqn:HQ'; try lia.
    destruct m as [|p|p]; try lia; cbn [SFcompare]; f_equal.
    + destruct s, s'; cmp_solve.
    + change (Pos.compare_cont Eq p q') with (Z.pos p ?= Z.pos q'). rewrite <- HQ'.
      destruct s, s'; cmp_solve.
  - subst e'. destruct (m + 4503599627370496) as [|q|q] eqn:HQ; try lia.
    destruct m' as [|p'|p']; try lia; cbn [SFcompare]; f_equal.
    + destruct s, s'; cmp_solve.
    + change (Pos.compare_cont Eq q p') with (Z.pos q ?= Z.pos p'). rewrite <- HQ.
      destruct s, s'; cmp_solve.
  - destruct (m + 4503599627370496) as [|q|q] eqn:HQ; try lia.
    destruct (m' + 4503599627370496) as [|q'|q'] eqn:HQ'; try lia.
    cbn [SFcompare]. f_equal.
    change (Pos.compare_cont Eq q q') with (Z.pos q ?= Z.pos q'). rewrite <- HQ, <- HQ'.
    destruct s, s'; cmp_solve.
Qed.

Lemma sf_cmp_zeros s s' : SFcompare (sf_of s 0 0) (sf_of s' 0 0) = Some Eq.
Proof. reflexivity. Qed.

Lemma key_f2i a : in_uint64 a -> key (f_neg a) (f_exp a) (f_man a) = f2i a.
Proof.
  intros Ha. rewrite f2i_arith by assumption. destruct (fields a Ha) as (E & _ & _ & _ & _).
  unfold key. unfold f_neg in *. unfold two63, in_uint64, two64 in *.
  change (2 ^ 63) with 9223372036854775808 in *.
  destruct (Z.leb_spec 9223372036854775808 a); destruct (Z.ltb_spec a 9223372036854775808); lia.
Qed.

Lemma finite_exp a : in_uint64 a -> finite a -> 0 <= f_exp a < 2047.
Proof.
  intros Ha Hf. destruct (fields a Ha) as (_ & He & Hm & Hmag & _).
  unfold finite, bits_pos_inf in Hf. rewrite Hmag in Hf.
  change (2 ^ 52) with 4503599627370496 in *. lia.
Qed.

Definition is_zero_pattern (a : Z) : Prop := f_mag a = 0.

(* ---------- Flocq: Bcompare on b64_of_bits ---------- *)

Lemma Bcompare_bits a b :
  Bcompare 53 1024 (b64_of_bits a) (b64_of_bits b)
  = SFcompare (sf_of (f_neg a) (f_exp a) (f_man a)) (sf_of (f_neg b) (f_exp b) (f_man b)).
Proof.
  unfold Bcompare, BinarySingleNaN.Bcompare. rewrite !B2SF_B2BSN.
  unfold b64_of_bits, binary_float_of_bits. rewrite !B2SF_FF2B, !aux_sf_of. reflexivity.
Qed.

(* the IEEE-754 comparison of two finite binary64 values, not both zeros, is the comparison of
   their sortable integers *)
Lemma f2i_order_flocq_all a b : in_uint64 a -> in_uint64 b -> finite a -> finite b ->
  ~ (is_zero_pattern a /\ is_zero_pattern b) ->
  Bcompare 53 1024 (b64_of_bits a) (b64_of_bits b) = Some (Z.compare (f2i a) (f2i b)).
Proof.
  intros Ha Hb Fa Fb Hz. rewrite Bcompare_bits.
  destruct (fields a Ha) as (_ & Hea & Hma & Hmaga & _).
  destruct (fields b Hb) as (_ & Heb & Hmb & Hmagb & _).
  rewrite sf_cmp; try assumption; try (apply finite_exp; assumption).
  - rewrite !key_f2i by assumption. reflexivity.
  - intros (E1 & E2 & E3 & E4). apply Hz. unfold is_zero_pattern. rewrite Hmaga, Hmagb, E1, E2, E3, E4. split; reflexivity.
Qed.

(* both zeros: IEEE says equal; f2i puts -0 immediately below +0 (f2i_zero_adjacent) *)
Lemma f2i_order_flocq_zeros a b : in_uint64 a -> in_uint64 b -> is_zero_pattern a -> is_zero_pattern b ->
  Bcompare 53 1024 (b64_of_bits a) (b64_of_bits b) = Some Eq.
Proof.
  intros Ha Hb Za Zb. rewrite Bcompare_bits.
  destruct (fields a Ha) as (_ & Hea & Hma & Hmaga & _).
  destruct (fields b Hb) as (_ & Heb & Hmb & Hmagb & _).
  unfold is_zero_pattern in *. change (2 ^ 52) with 4503599627370496 in *.
  assert (f_exp a = 0 /\ f_man a = 0 /\ f_exp b = 0 /\ f_man b = 0) as (-> & -> & -> & ->) by lia.
  apply sf_cmp_zeros.
Qed.

(* ---------- real values ---------- *)

Lemma is_finite_FF_SF x : is_finite_FF x = BinarySingleNaN.is_finite_SF (FF2SF x).
Proof. destruct x; reflexivity. Qed.

Lemma b64_finite a : in_uint64 a -> finite a -> is_finite 53 1024 (b64_of_bits a) = true.
Proof.
  intros Ha Fa. unfold b64_of_bits, binary_float_of_bits. rewrite is_finite_FF2B, is_finite_FF_SF, aux_sf_of.
  pose proof (finite_exp a Ha Fa) as He. destruct (fields a Ha) as (_ & _ & Hm & _ & _).
  unfold sf_of. change (2 ^ 52) with 4503599627370496 in *.
  destruct (Z.eqb_spec (f_exp a) 2047); [lia|].
  destruct (f_exp a =? 0).
  - destruct (f_man a); try reflexivity. lia.
  - destruct (f_man a + 4503599627370496) eqn:HQ; try reflexivity; lia.
Qed.

(* the real numbers denoted by two finite patterns (not both zeros) compare like the sortable
   integers: Float64ToInt64 is an order embedding of the finite float64 VALUES *)
Lemma f2i_order_real_all a b : in_uint64 a -> in_uint64 b -> finite a -> finite b ->
  ~ (is_zero_pattern a /\ is_zero_pattern b) ->
  Rcompare (B2R 53 1024 (b64_of_bits a)) (B2R 53 1024 (b64_of_bits b)) = Z.compare (f2i a) (f2i b).
Proof.
  intros Ha Hb Fa Fb Hz.
  pose proof (Bcompare_correct 53 1024 _ _ (b64_finite a Ha Fa) (b64_finite b Hb Fb)) as C.
  rewrite f2i_order_flocq_all in C by assumption. injection C as C. symmetry. exact C.
Qed.

Lemma float_lt_real_all a b : in_uint64 a -> in_uint64 b -> finite a -> finite b ->
  ~ (is_zero_pattern a /\ is_zero_pattern b) ->
  (float_lt a b <-> (B2R 53 1024 (b64_of_bits a) < B2R 53 1024 (b64_of_bits b))%R).
Proof.
  intros Ha Hb Fa Fb Hz. rewrite (f2i_order_all a b Ha Hb).
  pose proof (f2i_order_real_all a b Ha Hb Fa Fb Hz) as C.
  destruct (Rcompare_spec (B2R 53 1024 (b64_of_bits a)) (B2R 53 1024 (b64_of_bits b))) as [L|E|G];
    symmetry in C.
  - apply Z.compare_lt_iff in C. tauto.
  - apply Z.compare_eq_iff in C. split; [lia|]. intros H. rewrite E in H. exfalso. exact (Rlt_irrefl _ H).
  - apply Z.compare_gt_iff in C. split; [lia|]. intros H. exfalso. exact (Rlt_asym _ _ H G).
Qed.

(* ---------- Coq primitive floats ---------- *)

Require Flocq.IEEE754.PrimFloat.

(* the primitive float with bit pattern a (through Flocq's binary64) *)
Definition prim_of_bits (a : Z) : PrimFloat.float :=
  Flocq.IEEE754.PrimFloat.B2Prim (B2BSN 53 1024 (b64_of_bits a)).

(* hardware comparison `<` of two finite floats, not both zeros = order of the sortable integers;
   rests on Coq's axiomatised specification of the primitive float operations (Floats library) *)
Lemma f2i_order_prim_all a b : in_uint64 a -> in_uint64 b -> finite a -> finite b ->
  ~ (is_zero_pattern a /\ is_zero_pattern b) ->
  PrimFloat.ltb (prim_of_bits a) (prim_of_bits b) = (f2i a <? f2i b).
Proof.
  intros Ha Hb Fa Fb Hz. unfold prim_of_bits.
  rewrite Flocq.IEEE754.PrimFloat.ltb_equiv, !Flocq.IEEE754.PrimFloat.Prim2B_B2Prim.
  unfold BinarySingleNaN.Bltb, SFltb.
  pose proof (f2i_order_flocq_all a b Ha Hb Fa Fb Hz) as C.
  unfold Bcompare, BinarySingleNaN.Bcompare in C.
  match goal with |- match ?X with _ => _ end = _ =>
    assert (HX : X = Some (f2i a ?= f2i b)) by exact C; rewrite HX end.
  unfold Z.ltb. destruct (f2i a ?= f2i b); reflexivity.
Qed.

(* an instance: 1.5 < 3.0, -2.0 < 1.5 *)
Lemma ex_f2i_order_flocq :
  in_uint64 bits_1_5 /\ in_uint64 bits_3_0 /\ finite bits_1_5 /\ finite bits_3_0 /\
  ~ (is_zero_pattern bits_1_5 /\ is_zero_pattern bits_3_0) /\
  Z.compare (f2i bits_1_5) (f2i bits_3_0) = Lt.
Proof.
  unfold in_uint64, finite, is_zero_pattern, f_mag, bits_1_5, bits_3_0, bits_pos_inf, two63, two64.
  repeat split; try (vm_compute; reflexivity); try (vm_compute; discriminate).
  intros [H _]. vm_compute in H. discriminate.
Qed.
