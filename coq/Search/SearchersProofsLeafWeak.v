(* Search/SearchersProofsLeafWeak.v — index/postings.go outside the forward discipline.
   Advance to a number at or below the current posting restarts the iterator from the full
   per-segment lists; Advance on an iterator that reported the end can still find postings in a
   segment that an earlier Advance jumped over.  Both return documents that were passed before.
   What always holds (PW it S p): every posting left in the iterators is one of the full lists,
   every number of the full lists is a member of S, and after an answer p the iterator's
   position is consistent: the postings visible from the current segment on lie above p.  Then
   Advance t (t above the last answer) returns a member of S at or above t and Next a member
   above the last answer. *)
From Coq Require Import ZArith List Bool Lia Arith.
From Bluge Require Import Base.Res Search.Numeric Search.Postings Search.Searchers
  Search.SearchersProofsBase Search.SearchersProofsLeaf.
Import ListNotations.
Open Scope Z_scope.

Section LeafWeak.
  Variable offs : list Z.
  Variable N : Z.
  Notation offx := (offx offs N).
  Notation iters_ok := (iters_ok offs N).
  Notation visible := (visible offs N).
  Hypothesis Hok : offs_ok offs N.

  Definition PW (it : pit) (S : Z -> bool) (p : option Z) : Prop :=
    pi_offs it = offs /\ iters_ok (pi_iters it) /\ iters_ok (pi_segs it) /\
    (forall k q, In q (nth_or (pi_iters it) k []) -> In q (nth_or (pi_segs it) k [])) /\
    (forall x, visible (pi_segs it) O x -> S x = true) /\
    match p with
    | Some q => (forall c, pi_curr it = Some c -> c <= q) /\
                (forall x, visible (pi_iters it) (pi_segoff it) x -> q < x)
    | None => True
    end.

  Definition pw_res (S : Z -> bool) (low : Z) (r : option posting) (it' : pit) : Prop :=
    match r with
    | Some x => S (p_num x) = true /\ low <= p_num x /\ PW it' S (Some (p_num x))
    | None => PW it' S None
    end.

  Lemma visible_iters_S : forall it S p x, PW it S p -> visible (pi_iters it) O x -> S x = true.
  Proof.
    intros it S p x [_ [_ [_ [Hsub [HS _]]]]] [k [q [Hk [Hq ->]]]]. apply HS. exists k, q. split; [exact Hk|]. split; [apply Hsub; exact Hq|reflexivity].
  Qed.

  (* the scan of Next from a state whose iterators are sound *)
  Lemma pw_scan : forall it S low,
    pi_offs it = offs -> iters_ok (pi_iters it) -> iters_ok (pi_segs it) ->
    (forall k q, In q (nth_or (pi_iters it) k []) -> In q (nth_or (pi_segs it) k [])) ->
    (forall x, visible (pi_segs it) O x -> S x = true) ->
    (forall x, visible (pi_iters it) (pi_segoff it) x -> low <= x) ->
    exists r it', pit_next it = Ok (r, it') /\ pw_res S low r it'.
  Proof.
    intros it S low Hoffs Hit Hsegs Hsub HS Hlow.
    pose proof Hit as [Hlen [Hsort Hrange]].
    unfold pit_next.
    destruct (pit_next_loop_spec (Datatypes.S (length (pi_iters it))) it ltac:(lia))
      as [[j [p [r [Hj [Hn [He E]]]]]]|[He [so [Hso1 [Hso2 E]]]]].
    - rewrite E. eexists _, _. split; [reflexivity|].
      rewrite Hoffs, (nth_or_offx offs N) by lia. cbn [pw_res p_num].
      assert (Hvis : visible (pi_iters it) (pi_segoff it) (p_num p + offx j)).
      { exists j, p. split; [lia|]. split; [rewrite Hn; left; reflexivity|reflexivity]. }
      split.
      { apply HS. exists j, p. split; [lia|]. split; [apply Hsub; rewrite Hn; left; reflexivity|reflexivity]. }
      split; [apply Hlow; exact Hvis|].
      assert (Hjl : (j < length (pi_iters it))%nat) by lia.
      unfold PW. cbn [pi_offs pi_iters pi_segs pi_curr pi_segoff].
      split; [first [reflexivity | exact Hoffs]|]. split.
      { apply iters_ok_set; [exact Hit|specialize (Hsort j); rewrite Hn in Hsort; eapply psorted_tail; eauto|].
        intros q Hq. rewrite Hn. right. exact Hq. }
      split; [exact Hsegs|]. split.
      { intros k q Hq. destruct (Nat.eq_dec j k) as [<-|Hne].
        - rewrite nth_or_set_eq in Hq by exact Hjl. apply Hsub. rewrite Hn. right. exact Hq.
        - rewrite nth_or_set_neq in Hq by exact Hne. apply Hsub. exact Hq. }
      split; [exact HS|]. split.
      { intros c Hc. inversion Hc; subst. lia. }
      intros x [k [q [Hk [Hq ->]]]]. destruct (Nat.eq_dec j k) as [<-|Hne].
      + rewrite nth_or_set_eq in Hq by exact Hjl.
        specialize (Hsort j). rewrite Hn in Hsort. pose proof (psorted_head_min p r Hsort q Hq). lia.
      + rewrite nth_or_set_neq in Hq by exact Hne.
        destruct (Hrange k q Hq) as [Hq0 _]. destruct (Hrange j p ltac:(rewrite Hn; left; reflexivity)) as [_ Hp1].
        pose proof (offx_mono offs N Hok (Datatypes.S j) k ltac:(lia) ltac:(lia)). lia.
    - rewrite E. eexists _, _. split; [reflexivity|]. cbn [pw_res]. unfold PW. cbn [pi_offs pi_iters pi_segs pi_curr pi_segoff].
      split; [exact Hoffs|]. split; [exact Hit|]. split; [exact Hsegs|]. split; [exact Hsub|]. split; [exact HS|exact I].
  Qed.

  Lemma pw_next : forall it S q, PW it S (Some q) ->
    exists r it', pit_next it = Ok (r, it') /\ pw_res S (q + 1) r it'.
  Proof.
    intros it S q [Hoffs [Hit [Hsegs [Hsub [HS [_ Hvis]]]]]].
    apply pw_scan; auto. intros x Hx. pose proof (Hvis x Hx). lia.
  Qed.

  Lemma pw_adv : forall it S pos t, PW it S pos -> 0 <= t -> (forall q, pos = Some q -> q < t) ->
    exists r it', pit_advance it t = Ok (r, it') /\ pw_res S t r it'.
  Proof.
    intros it S pos t HW Ht Hp.
    pose proof HW as [Hoffs [Hit [Hsegs [Hsub [HS Hpos]]]]].
    unfold pit_advance.
    (* the state after the restart test *)
    set (it1 := match pi_curr it with
                | Some c => if t <=? c
                            then {| pi_segs := pi_segs it; pi_iters := pi_segs it; pi_offs := pi_offs it;
                                    pi_segoff := O; pi_curr := None |}
                            else it
                | None => it
                end).
    assert (H1 : pi_offs it1 = offs /\ iters_ok (pi_iters it1) /\ pi_segs it1 = pi_segs it /\
                 (forall k q, In q (nth_or (pi_iters it1) k []) -> In q (nth_or (pi_segs it) k [])) /\
                 (forall c, pi_curr it1 = Some c -> c < t)).
    { unfold it1. destruct (pi_curr it) as [c|] eqn:Ec.
      - destruct (t <=? c) eqn:E.
        + simpl. split; [exact Hoffs|]. split; [exact Hsegs|]. split; [reflexivity|]. split; [auto|]. intros c0 Hc0. discriminate.
        + apply Z.leb_gt in E. split; [exact Hoffs|]. split; [exact Hit|]. split; [reflexivity|]. split; [exact Hsub|].
          intros c0 Hc0. rewrite Ec in Hc0. inversion Hc0; subst. exact E.
      - split; [exact Hoffs|]. split; [exact Hit|]. split; [reflexivity|]. split; [exact Hsub|].
        intros c0 Hc0. rewrite Ec in Hc0. discriminate. }
    clearbody it1. destruct H1 as [Hoffs1 [Hit1 [Hsegs1 [Hsub1 Hcur1]]]].
    pose proof Hit1 as [Hlen [Hsort Hrange]].
    rewrite Hoffs1.
    destruct (count_le_spec offs N t Hok Ht) as [j [Ec [Hj [Hjle Hjlt]]]]. rewrite Ec.
    assert (Hlj : (length (pi_iters it1) <=? j)%nat = false) by (apply Nat.leb_gt; lia). rewrite Hlj.
    rewrite (nth_or_offx offs N) by exact Hj.
    assert (Hjl : (j < length (pi_iters it1))%nat) by lia.
    destruct (drop_below (t - offx j) (nth_or (pi_iters it1) j [])) as [| p r] eqn:Edl.
    - (* nothing at or above t in the target segment: scan the later ones *)
      apply pw_scan; cbn [pi_offs pi_iters pi_segs pi_segoff].
      + reflexivity.
      + apply iters_ok_set; [exact Hit1|exact I|intros q []].
      + rewrite Hsegs1. exact Hsegs.
      + intros k q Hq. rewrite Hsegs1. destruct (Nat.eq_dec j k) as [<-|Hne].
        * rewrite nth_or_set_eq in Hq by exact Hjl. destruct Hq.
        * rewrite nth_or_set_neq in Hq by exact Hne. apply Hsub1. exact Hq.
      + rewrite Hsegs1. exact HS.
      + intros x [k [q [Hk [Hq ->]]]]. destruct (Nat.eq_dec j k) as [<-|Hne].
        * rewrite nth_or_set_eq in Hq by exact Hjl. destruct Hq.
        * rewrite nth_or_set_neq in Hq by exact Hne. destruct (Hrange k q Hq) as [Hq0 _].
          specialize (Hjlt ltac:(lia)).
          pose proof (offx_mono offs N Hok (Datatypes.S j) k ltac:(lia) ltac:(lia)). lia.
    - eexists _, _. split; [reflexivity|]. cbn [pw_res p_num].
      assert (Hpin : In p (nth_or (pi_iters it1) j [])) by (eapply drop_below_In; rewrite Edl; left; reflexivity).
      assert (Hpge : t - offx j <= p_num p) by (eapply drop_below_ge; [apply Hsort|rewrite Edl; left; reflexivity]).
      split.
      { apply HS. exists j, p. split; [lia|]. split; [apply Hsub1; exact Hpin|reflexivity]. }
      split; [lia|].
      unfold PW. cbn [pi_offs pi_iters pi_segs pi_curr pi_segoff].
      assert (Hsr : psorted (p :: r)) by (rewrite <- Edl; apply drop_below_sorted; apply Hsort).
      assert (Hrin : forall q, In q r -> In q (nth_or (pi_iters it1) j [])).
      { intros q Hq. eapply drop_below_In. rewrite Edl. right. exact Hq. }
      split; [first [reflexivity | exact Hoffs1]|]. split.
      { apply iters_ok_set; [exact Hit1|eapply psorted_tail; eauto|exact Hrin]. }
      split; [rewrite Hsegs1; exact Hsegs|]. split.
      { intros k q Hq. rewrite Hsegs1. destruct (Nat.eq_dec j k) as [<-|Hne].
        - rewrite nth_or_set_eq in Hq by exact Hjl. apply Hsub1. apply Hrin. exact Hq.
        - rewrite nth_or_set_neq in Hq by exact Hne. apply Hsub1. exact Hq. }
      split; [rewrite Hsegs1; exact HS|]. split.
      { intros c Hc. inversion Hc; subst. lia. }
      intros x [k [q [Hk [Hq ->]]]]. destruct (Nat.eq_dec j k) as [<-|Hne].
      + rewrite nth_or_set_eq in Hq by exact Hjl. pose proof (psorted_head_min p r Hsr q Hq). lia.
      + rewrite nth_or_set_neq in Hq by exact Hne.
        destruct (Hrange k q Hq) as [Hq0 _]. destruct (Hrange j p Hpin) as [_ Hp1].
        pose proof (offx_mono offs N Hok (Datatypes.S j) k ltac:(lia) ltac:(lia)). lia.
  Qed.

  (* exact states are sound states *)
  Definition PStatic (it : pit) (S : Z -> bool) : Prop :=
    iters_ok (pi_segs it) /\
    (forall k q, In q (nth_or (pi_iters it) k []) -> In q (nth_or (pi_segs it) k [])) /\
    (forall x, visible (pi_segs it) O x -> S x = true).

  Lemma PW_static : forall it S p, PW it S p -> PStatic it S.
  Proof. intros it S p [_ [_ [A [B0 [D _]]]]]. split; [exact A|split; assumption]. Qed.

  Lemma PInv_PW : forall it S lo m, PInv offs N it S lo -> PStatic it S -> m + 1 = lo -> PW it S (Some m).
  Proof.
    intros it S lo m [Hoffs [_ [Hit [Hlo [Hcurr [s0 [Hs0 [Hs0l [Hoff0 [Hempty [Hvis HM]]]]]]]]]]] [A [B0 D]] Hm.
    split; [exact Hoffs|]. split; [exact Hit|]. split; [exact A|]. split; [exact B0|]. split; [exact D|]. split.
    - intros c Hc. rewrite Hc in Hcurr. lia.
    - intros x [k [q [Hk [Hq ->]]]]. assert (lo <= p_num q + offx k); [|lia].
      apply Hvis. exists k, q. split; [lia|]. split; [exact Hq|reflexivity].
  Qed.

  Lemma PFin_PW : forall it S lo, PFin offs N it S lo -> PStatic it S -> PW it S None.
  Proof.
    intros it S lo [Hoffs [_ [Hit _]]] [A [B0 D]].
    split; [exact Hoffs|]. split; [exact Hit|]. split; [exact A|]. split; [exact B0|]. split; [exact D|exact I].
  Qed.
End LeafWeak.
