(* Search/BM25R.v — the BM25 similarity of /repo/search/similarity/{bm25,composite,constant}.go
   over the real numbers, in the algebraic form the code uses.  No proofs here.

   Numeric literals come from Gen/ParamsBM25.v (regenerated from the Go AST on every run):
   <fn>_literals lists the literals of the Go function in source order. *)
From Coq Require Import Reals QArith Qreals List.
From Bluge Require Import Gen.ParamsBM25.
Import ListNotations.
Open Scope R_scope.

Definition litR (l : list Q) (i : nat) : R := Q2R (nth i l 0%Q).

(* bm25.go:26-27  const defaultB = 0.75, defaultK1 = 1.2;  NewBM25Similarity (34-36) *)
Definition default_b : R := Q2R bm25_default_b.
Definition default_k1 : R := Q2R bm25_default_k1.

(* bm25.go:51-53
     func (b *BM25Similarity) Idf(docFreq, docCount uint64) float64 {
       return math.Log(1.0 + float64(docCount-docFreq) + 0.5/(float64(docFreq)+0.5)) }
   Go precedence: (1.0 + (N-n)) + (0.5 / (n + 0.5)).  n = docFreq, N = docCount. *)
Definition idf_arg (n N : R) : R :=
  litR idf_literals 0 + (N - n) + litR idf_literals 1 / (n + litR idf_literals 2).
Definition idf (n N : R) : R := ln (idf_arg n N).

(* the formula the classic BM25 / Lucene text states:  log(1 + (N - n + 0.5) / (n + 0.5)) *)
Definition idf_lucene_arg (n N : R) : R := 1 + (N - n + 1 / 2) / (n + 1 / 2).
Definition idf_lucene (n N : R) : R := ln (idf_lucene_arg n N).

(* bm25.go:67-72 AverageFieldLength: float64(SumTotalTermFrequency) / float64(DocumentCount) *)
Definition avg_field_length (sum_ttf doc_count : R) : R := sum_ttf / doc_count.

(* bm25.go:101 (and 107, 129)
     normInverse := 1 / (b.k1 * ((1 - b.b) + b.b*float64(docLen)/b.avgDocLen)) *)
Definition norm_inverse (lits : list Q) (k1 b dl avgdl : R) : R :=
  litR lits 0 / (k1 * ((litR lits 1 - b) + b * dl / avgdl)).

(* bm25.go:96 weight: boost * idf.Value *)
Definition weight (boost idfv : R) : R := boost * idfv.

(* bm25.go:99-103 Score:  return b.weight - b.weight/(1+float64(freq)*normInverse) *)
Definition score (w k1 b f dl avgdl : R) : R :=
  w - w / (litR score_literals 2 + f * norm_inverse score_literals k1 b dl avgdl).

(* bm25.go:105-120 explainTf:  score := 1.0 - 1.0/(1.0+float64(freq)*normInverse) *)
Definition tf (k1 b f dl avgdl : R) : R :=
  litR explain_tf_literals 2 -
  litR explain_tf_literals 3 / (litR explain_tf_literals 4 + f * norm_inverse explain_tf_literals k1 b dl avgdl).

(* what the tf message states: freq / (freq + k1 * (1 - b + b * dl / avgdl)) *)
Definition tf_stated (k1 b f dl avgdl : R) : R := f / (f + k1 * (1 - b + b * dl / avgdl)).

(* bm25.go:124-136 Explain: same expression as Score, with Explain's own literals *)
Definition explain_score (w k1 b f dl avgdl : R) : R :=
  w - w / (litR explain_literals 2 + f * norm_inverse explain_literals k1 b dl avgdl).

(* score of one term for one document from the raw statistics (search_term.go:55-63 feeds
   collection and term statistics into Similarity.Scorer; bm25.go:74-77, 88-97) *)
Definition term_score (boost k1 b n N f dl avgdl : R) : R :=
  score (weight boost (idf n N)) k1 b f dl avgdl.

(* composite.go:39-45 ScoreComposite:  rv += constituent.Score ... ; return rv * c.boost *)
Definition sum_scores (l : list R) : R := fold_left Rplus l 0.
Definition composite_score (boost : R) (l : list R) : R := sum_scores l * boost.

(* constant.go: ConstantScorer.Score / ScoreComposite return the constant *)
Definition constant_score (c : R) : R := c.

(* The hypotheses under which the property states its laws (DESIGN.md C17). *)
Record stats_ok (boost k1 b n N f dl avgdl : R) : Prop := {
  so_n : 1 <= n;  so_nN : n <= N;  so_f : 1 <= f;  so_dl : 0 <= dl;  so_avgdl : 0 < avgdl;
  so_k1 : 0 < k1;  so_b0 : 0 <= b;  so_b1 : b <= 1;  so_boost : 0 < boost;
  (* the length normalisation (1-b) + b*dl/avgdl must not vanish: with b = 1 and dl = 0 the code
     divides by zero (float64: +Inf, the score saturates at the weight; see BM25F cases).  A
     matching document has f >= 1 occurrences and hence dl >= 1, so this excludes nothing real. *)
  so_len : b < 1 \/ 0 < dl }.
