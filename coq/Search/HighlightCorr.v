(* Search/HighlightCorr.v — correspondence cases for the highlight engine: each case carries
   the implementation's observed output (None = the call panicked in the child process);
   check re-computes it with the model. *)
From Coq Require Import ZArith List Bool.
From Bluge Require Import Base.Res Base.Corr Base.UTF8 Gen.ParamsHighlight Search.Highlight.
Import ListNotations.
Open Scope Z_scope.

Inductive hcase :=
(* utf8.DecodeRune / DecodeLastRune / RuneCount / Valid on p *)
| CUtf8 (p : list Z) (dr : Z) (ds : nat) (lr : Z) (ls : nat) (cnt : nat) (valid : bool)
(* utf8.EncodeRune, utf8.RuneLen, utf8.ValidRune *)
| CEncode (r : Z) (out : list Z) (rl : Z) (vr : bool)
(* TermLocations.MergeOverlapping on an ordered list *)
| CMerge (ot : list (Z * Z)) (out : list (option (Z * Z)))
(* OrderTermLocations: only (Start) sequence is compared (ties may be permuted) *)
| COrder (m : list (list (Z * Z))) (starts : list Z)
(* SimpleFragmenter{fs}.Fragment(orig, ot) *)
| CFragment (orig : list Z) (fs : Z) (ot : list (Z * Z)) (out : option (list (Z * Z)))
(* Format(fragment{orig,fstart,fend}, locations) for the HTML (true) / ANSI (false) formatter *)
| CFormat (html : bool) (orig : list Z) (fstart fend : Z) (l : list (option (Z * Z))) (out : option (list Z))
(* SimpleFragmentScorer.Score *)
| CScore (m : list (list (Z * Z))) (fstart fend : Z) (score : Z)
(* DocumentMatch.Complete on a hand-made FieldTermLocations list (field/term names as ids, 0 = "");
   out = dm.Locations with fields and terms sorted by id, None = panic *)
| CComplete (ftls : list (Z * Z * (Z * Z * Z))) (out : option (list (Z * list (Z * list (Z * Z * Z)))))
(* BestFragments end to end *)
| CBest (html : bool) (fs : Z) (m : list (list (Z * Z))) (orig : list Z) (num : Z) (out : option (list (list Z))).

Definition mk (p : Z * Z) : tloc := mkLoc (fst p) (snd p).
Definition un (t : tloc) : Z * Z := (tl_start t, tl_end t).
Definition zz_eqb := pair_eqb Z.eqb Z.eqb.

Definition res_eqb {A} (eqb : A -> A -> bool) (r : res A) (o : option A) : bool :=
  match r, o with
  | Ok a, Some b => eqb a b
  | Panic _, None => true
  | _, _ => false
  end.

Fixpoint insert_key {V} (kv : Z * V) (l : list (Z * V)) : list (Z * V) :=
  match l with
  | [] => [kv]
  | h :: r => if fst kv <? fst h then kv :: l else h :: insert_key kv r
  end.
Definition sort_keys {V} (l : list (Z * V)) : list (Z * V) := fold_right insert_key [] l.

Definition mk3 (x : Z * Z * Z) : sloc := let '(p, s, e) := x in mkSLoc p s e.
Definition un3 (l : sloc) : Z * Z * Z := (sp_pos l, sp_start l, sp_end l).
Definition zzz_eqb (a b : Z * Z * Z) : bool :=
  let '(a1, a2, a3) := a in let '(b1, b2, b3) := b in (a1 =? b1) && (a2 =? b2) && (a3 =? b3).
Definition canon_locmap (m : locmap) : list (Z * list (Z * list (Z * Z * Z))) :=
  sort_keys (map (fun ft => (fst ft, sort_keys (map (fun tl => (fst tl, map un3 (snd tl))) (snd ft)))) m).
Definition locmap_eqb : list (Z * list (Z * list (Z * Z * Z))) -> list (Z * list (Z * list (Z * Z * Z))) -> bool :=
  list_eqb (pair_eqb Z.eqb (list_eqb (pair_eqb Z.eqb (list_eqb zzz_eqb)))).

Definition fmt_of (html : bool) : formatter := if html then default_html else default_ansi.

Definition check (c : hcase) : bool :=
  match c with
  | CUtf8 p dr ds lr ls cnt valid =>
      let d := decode_rune p in let l := decode_last_rune p in
      (fst d =? dr) && Nat.eqb (snd d) ds && (fst l =? lr) && Nat.eqb (snd l) ls &&
      Nat.eqb (rune_count p) cnt && Bool.eqb (valid_utf8 p) valid
  | CEncode r out rl vr => zlist_eqb (encode_rune r) out && (rune_len r =? rl) && Bool.eqb (valid_rune r) vr
  | CMerge ot out =>
      list_eqb (option_eqb zz_eqb) (map (option_map un) (merge_overlapping (map mk ot))) out
  | COrder m starts =>
      zlist_eqb (map tl_start (order_term_locations (map (map mk) m))) starts
  | CFragment orig fs ot out =>
      res_eqb (list_eqb zz_eqb)
              (rmap (map (fun f => (f_start f, f_end f))) (fragment orig (zlen orig) fs (map mk ot))) out
  | CFormat html orig fstart fend l out =>
      res_eqb zlist_eqb
              (rmap (render_with (fmt_of html)) (format_pieces orig (mkFrag fstart fend 0) (map (option_map mk) l))) out
  | CScore m fstart fend score =>
      f_score (score_fragment (map (map mk) m) (mkFrag fstart fend 0)) =? score
  | CComplete ftls out =>
      res_eqb locmap_eqb
              (rmap canon_locmap (complete (map (fun x => let '(f, t, l) := x in (f, t, mk3 l)) ftls))) out
  | CBest html fs m orig num out =>
      res_eqb zzlist_eqb (best_fragments (fmt_of html) default_separator fs (map (map mk) m) orig num) out
  end.

Definition mismatches (l : list hcase) : list nat := failing check l.
