(* Search/SearchersProofsBase.v — the iterator contract and list lemmas shared by the proofs of
   the searcher state machines (DESIGN.md 3.5).

   A searcher over a denotation S (the set of matching document numbers, S : Z -> bool) is
   abstracted by a watermark `lo`:
     Inv c S lo   the searcher is exact from lo: Next returns the least member of S at or above
                  lo; Advance n (lo <= n) the least member at or above n
     Fin c S lo   the searcher has reported the end: S has no member at or above lo; Advance n
                  with lo <= n reports the end again
   Callers obey the forward discipline of every caller in search/searcher: an Advance target
   is above the last number returned and never below an earlier target. *)
From Coq Require Import ZArith List Bool Lia Arith.
From Bluge Require Import Base.Res Search.Numeric Search.Postings Search.Searchers.
Import ListNotations.
Open Scope Z_scope.

Definition least_from (S : Z -> bool) (lo d : Z) : Prop :=
  S d = true /\ lo <= d /\ forall x, lo <= x < d -> S x = false.

Definition none_from (S : Z -> bool) (lo : Z) : Prop := forall x, lo <= x -> S x = false.

Lemma least_from_unique S lo d d' : least_from S lo d -> least_from S lo d' -> d = d'.
Proof.
  intros [A [B C0]] [A' [B' C']].
  destruct (Z.lt_trichotomy d d') as [H|[H|H]]; [|exact H|].
  - rewrite C' in A by lia. discriminate.
  - rewrite C0 in A' by lia. discriminate.
Qed.

Lemma none_from_mono S lo lo' : none_from S lo -> lo <= lo' -> none_from S lo'.
Proof. intros H L x Hx. apply H. lia. Qed.

Lemma least_none_false S lo d : least_from S lo d -> none_from S lo -> False.
Proof. intros [A [B _]] N. rewrite N in A by lia. discriminate. Qed.

Section Contract.
  Variable C : Type.
  Variable cnext : C -> res (option dmatch * C).
  Variable cadv : C -> Z -> res (option dmatch * C).
  Variable CInv CFin : C -> (Z -> bool) -> Z -> Prop.

  Definition exact_post (S : Z -> bool) (lo : Z) (r : option dmatch) (c' : C) : Prop :=
    match r with
    | Some m => least_from S lo (dm_num m) /\ CInv c' S (dm_num m + 1)
    | None => none_from S lo /\ CFin c' S lo
    end.

  Definition next_exact : Prop := forall c S lo, CInv c S lo ->
      exists r c', cnext c = Ok (r, c') /\ exact_post S lo r c'.
  Definition adv_exact : Prop := forall c S lo n, CInv c S lo -> lo <= n ->
      exists r c', cadv c n = Ok (r, c') /\ exact_post S n r c'.
  Definition fin_adv : Prop := forall c S lo n, CFin c S lo -> lo <= n ->
      exists c' lo2, cadv c n = Ok (None, c') /\ lo2 <= n /\ CFin c' S lo2.

  (* a child that was not called yet: its first call is Next (every searcher initialises its
     children with Next; BooleanSearcher.Advance as a first call would skip the first should match) *)
  Definition new_exact (CNew : C -> (Z -> bool) -> Prop) : Prop := forall c S, CNew c S ->
      exists r c', cnext c = Ok (r, c') /\ exact_post S 0 r c'.

  Record contract : Prop := {
    ct_next : next_exact;
    ct_adv : adv_exact;
    ct_fin_adv : fin_adv
  }.
End Contract.

Arguments exact_post {C}.
Arguments contract {C}.
Arguments new_exact {C}.

(* ---------- nth_error / set_nth ---------- *)

Lemma set_nth_length {A} (l : list A) i x : length (set_nth l i x) = length l.
Proof. revert i. induction l as [| a l IH]; intros [| i]; simpl; auto. Qed.

Lemma nth_error_set_nth_eq {A} (l : list A) i x : (i < length l)%nat -> nth_error (set_nth l i x) i = Some x.
Proof. revert i. induction l as [| a l IH]; intros [| i] H; simpl in *; try lia; auto. apply IH. lia. Qed.

Lemma nth_error_set_nth_neq {A} (l : list A) i j x : i <> j -> nth_error (set_nth l i x) j = nth_error l j.
Proof.
  revert i j. induction l as [| a l IH]; intros [| i] [| j] H; simpl; auto; try congruence.
Qed.

Lemma nth_error_Some_lt {A} (l : list A) i x : nth_error l i = Some x -> (i < length l)%nat.
Proof. intros H. apply nth_error_Some. congruence. Qed.
