(* Search/Semantics.v — the documented meaning of the queries as a denotation over analysed
   documents: `sem q d : bool`.  Nothing here mentions searchers, cursors or segments.

   term          the field holds the term
   boolean       every must, no must-not, at least minShould of the shoulds; a query without
                 must clauses needs at least one should to match; only must-not clauses: every
                 document except those; no clause at all: nothing
   phrase        there is a path of token positions, one per non-empty phrase position and chosen
                 among its alternative terms, no token used twice, whose displacements from the
                 expected positions sum to at most slop (phrase_path / phrase_sem below)
   multi-term    the field holds a term satisfying the predicate (prefix and range in byte order;
                 numeric and date ranges on the decoded shift-0 token: Search/Numeric.v; regexp,
                 wildcard and fuzzy as the supplied term set)
   No proofs in this file. *)
From Coq Require Import ZArith List Bool.
From Bluge Require Import Base.Res Base.Int64 Search.Numeric Search.Postings Search.Searchers.
Import ListNotations.
Open Scope Z_scope.

Fixpoint is_prefix (p t : list Z) : bool :=
  match p, t with
  | [], _ => true
  | _ :: _, [] => false
  | a :: p', b :: t' => (a =? b) && is_prefix p' t'
  end.

(* the numeric value range [lo, hi] of a numeric range query in the sortable int64 domain *)
Definition num_in_range (lo hi : Z) (il ih : bool) (t : list Z) : bool :=
  let '(a, b) := range_bounds lo hi il ih in
  match pc_shift t, pc_int64 t with
  | Some 0, Some v => (a <=? v) && (v <=? b)
  | _, _ => false
  end.

Definition tpred_sem (p : tpred) (t : list Z) : bool :=
  match p with
  | PPrefix pre => is_prefix pre t
  | PRange mn mx incMin incMax =>
      match mn with
      | Some m => if incMin then bytes_le m t else bytes_lt m t
      | None => true
      end &&
      match mx with
      | Some m => if incMax then bytes_le t m else bytes_lt t m
      | None => true
      end
  | PNumRange lo hi il ih => num_in_range lo hi il ih t
  | PSet ts => existsb (bytes_eqb t) ts
  end.

(* ---------- phrases ---------- *)

(* the non-empty positions of the phrase with their index in the phrase *)
Fixpoint phrase_slots (k : Z) (terms : list (list (list Z))) : list (Z * list (list Z)) :=
  match terms with
  | [] => []
  | car :: cdr => if empty_car car then phrase_slots (k + 1) cdr else (k, car) :: phrase_slots (k + 1) cdr
  end.

(* every way of choosing one (term, position) per slot *)
Fixpoint choices (tlm : list Z -> list Z) (slots : list (Z * list (list Z))) : list (list (Z * (list Z * Z))) :=
  match slots with
  | [] => [[]]
  | (k, car) :: r =>
      let here := flat_map (fun t => map (fun pos => (k, (t, pos))) (tlm t)) car in
      flat_map (fun c => map (fun rest => c :: rest) (choices tlm r)) here
  end.

Fixpoint path_cost (path : list (Z * (list Z * Z))) : Z :=
  match path with
  | (k1, (_, p1)) :: (((k2, (_, p2)) :: _) as r) => Z.abs (p1 + (k2 - k1) - p2) + path_cost r
  | _ => 0
  end.

Fixpoint distinct_parts (path : list (list Z * Z)) : bool :=
  match path with
  | [] => true
  | x :: r => negb (existsb (tl_eqb x) r) && distinct_parts r
  end.

Definition path_ok (slop : Z) (path : list (Z * (list Z * Z))) : bool :=
  distinct_parts (map snd path) &&
  match path with
  | [] => false                       (* a phrase without any term matches nothing *)
  | [_] => true
  | _ => path_cost path <=? slop
  end.

Definition phrase_sem (tlm : list Z -> list Z) (terms : list (list (list Z))) (slop : Z) : bool :=
  existsb (path_ok slop) (choices tlm (phrase_slots 0 terms)).

(* the same, declaratively *)
Definition phrase_path (tlm : list Z -> list Z) (terms : list (list (list Z))) (slop : Z) : Prop :=
  exists path : list (Z * (list Z * Z)),
    map fst path = map fst (phrase_slots 0 terms) /\
    Forall2 (fun x slot => In (fst (snd x)) (snd slot) /\ In (snd (snd x)) (tlm (fst (snd x)))) path (phrase_slots 0 terms) /\
    path_ok slop path = true.

Definition doc_tlm (d : doc) (f : Z) (t : list Z) : list Z :=
  match term_positions d f t with Some ps => ps | None => [] end.

(* ---------- the denotation ---------- *)

Fixpoint sem (q : query) (d : doc) {struct q} : bool :=
  match q with
  | QTerm f t => has_term d f t
  | QAll => true
  | QNone => false
  | QBool must should mustnot minShould =>
      let all := fix all (l : list query) : bool := match l with [] => true | x :: r => sem x d && all r end in
      let count := fix count (l : list query) : Z := match l with [] => 0 | x :: r => (if sem x d then 1 else 0) + count r end in
      let any := fix any (l : list query) : bool := match l with [] => false | x :: r => sem x d || any r end in
      all must && negb (any mustnot) &&
      match must, should with
      | [], [] => match mustnot with [] => false | _ => true end
      | [], _ => (1 <=? count should) && (minShould <=? count should)
      | _, [] => true
      | _, _ => minShould <=? count should
      end
  | QPhrase f terms slop => phrase_sem (doc_tlm d f) terms slop
  | QMulti f p => existsb (fun x => tpred_sem p (tf_term x)) (field_terms d f)
  | QDocSet _ ids => zmem (d_id d) ids
  end.

(* the global numbers of the live documents selected by the query *)
Definition sem_numbers (q : query) (sn : snapshot) : list Z :=
  map fst (filter (fun p => sem q (snd p)) (live_docs sn)).

Definition sem_ids (q : query) (sn : snapshot) : list Z :=
  map (fun p => d_id (snd p)) (filter (fun p => sem q (snd p)) (live_docs sn)).
