(* Search/Highlight.v — model of /repo/search/highlight (simple highlighter), written after
   the Go source of the tree that contains the three `fix:` commits of C20 (range guards
   `inBounds`, RuneError width test, MergeOverlapping keeps the larger end):
     term_locations.go  Overlaps 30-37, inBounds 41-43, Less 49-51, MergeOverlapping 53-68,
                        OrderTermLocations 70-85
     fragment_simple.go SimpleFragmenter.Fragment 37-139
     fragment_scorer_simple.go Score 34-48
     highlighter.go     Fragment.Overlaps 29-36
     highlighter_simple.go BestFragments 48-112, FragmentQueue 115-146 (container/heap = Base/GoHeap)
     format_html.go Format 38-65 (+ html.EscapeString), format_ansi.go Format 33-62
   Texts are byte lists (list Z), offsets are Z (Go int; no arithmetic here can wrap: every
   value is bounded by len(orig) + fragmentSize).  Every Go slice expression is written with
   `slice`, which yields `Panic` when Go would panic with "slice bounds out of range"; loops with
   a data-dependent exit carry fuel.  Term and Pos of a TermLocation never influence the output and
   are not part of the model.  No proofs here (see HighlightProofs.v). *)
From Coq Require Import ZArith List Bool.
From Bluge Require Import Base.Res Base.UTF8 Base.GoHeap Gen.ParamsHighlight.
Import ListNotations.
Open Scope Z_scope.

(* ---- term locations ---- *)
Record tloc := mkLoc { tl_start : Z; tl_end : Z }.

(* term_locations.go:30-37 (TermLocation.Overlaps) and highlighter.go:29-36 (Fragment.Overlaps):
   the same predicate on (Start, End) *)
Definition overlaps_se (s1 e1 s2 e2 : Z) : bool :=
  if (s1 <=? s2) && (s2 <? e1) then true
  else if (s2 <=? s1) && (s1 <? e2) then true
  else false.
Definition tl_overlaps (a b : tloc) : bool := overlaps_se (tl_start a) (tl_end a) (tl_start b) (tl_end b).

(* term_locations.go:41-43 *)
Definition in_bounds (t : tloc) (n : Z) : bool :=
  (0 <=? tl_start t) && (tl_start t <=? tl_end t) && (tl_end t <=? n).

(* a TermLocationMap: one entry per term, each with its locations (map iteration order is
   Go's; the sort below makes the result independent of it up to ties in Start) *)
Definition tlmap := list (list tloc).

(* term_locations.go:70-85: flatten, then sort.Sort by Start (Less 49-51).  sort.Sort is not
   stable; the model uses the stable insertion sort, which is THE sorted permutation whenever
   locations with equal Start are equal (the condition under which correspondence cases are
   emitted). *)
Fixpoint insert_loc (t : tloc) (l : list tloc) : list tloc :=
  match l with
  | [] => [t]
  | h :: r => if tl_start t <? tl_start h then t :: l else h :: insert_loc t r
  end.
Definition sort_locs (l : list tloc) : list tloc := fold_left (fun acc t => insert_loc t acc) l [].
Definition order_term_locations (m : tlmap) : list tloc := sort_locs (concat m).

(* term_locations.go:53-68.  The slice holds pointers and lastTl is set once (56-57): it stays
   the first element for the whole walk; every later element overlapping the (growing) first one
   is replaced by nil, the others stay.  Input elements are non-nil (OrderTermLocations). *)
Fixpoint merge_rest (s0 e0 : Z) (l : list tloc) : Z * list (option tloc) :=
  match l with
  | [] => (e0, [])
  | t :: r =>
      if overlaps_se s0 e0 (tl_start t) (tl_end t) then
        let e1 := if e0 <? tl_end t then tl_end t else e0 in      (* 61-63 *)
        let '(e, r') := merge_rest s0 e1 r in (e, None :: r')
      else
        let '(e, r') := merge_rest s0 e0 r in (e, Some t :: r')
  end.
Definition merge_overlapping (l : list tloc) : list (option tloc) :=
  match l with
  | [] => []
  | t0 :: r => let '(e, r') := merge_rest (tl_start t0) (tl_end t0) r in Some (mkLoc (tl_start t0) e) :: r'
  end.

(* ---- slicing ---- *)
Definition zlen {A} (p : list A) : Z := Z.of_nat (length p).
(* p[a:b]; Go panics unless 0 <= a <= b <= len (cap = len for the slices used here) *)
Definition slice (p : list Z) (a b : Z) : res (list Z) :=
  if (0 <=? a) && (a <=? b) && (b <=? zlen p)
  then Ok (firstn (Z.to_nat (b - a)) (skipn (Z.to_nat a) p))
  else Panic 1.

(* r == utf8.RuneError && size <= 1 *)
Definition bad_rune (d : Z * nat) : bool := (fst d =? rune_error) && (Nat.leb (snd d) 1).

(* ---- fragments ---- *)
Record frag := mkFrag { f_start : Z; f_end : Z; f_score : Z }.

Section Fragmenter.
  Variable orig : list Z.
  Variable n : Z.          (* len(orig) *)
  Variable fs : Z.         (* s.fragmentSize *)

  (* fragment_simple.go:51-58; None = `continue OUTER` *)
  Fixpoint fwd_loop (fuel : nat) (end_ used : Z) : res (option (Z * Z)) :=
    match fuel with
    | O => OutOfFuel
    | S f =>
        if (end_ <? n) && (used <? fs) then
          p <- slice orig end_ n ;;
          let d := decode_rune p in
          if bad_rune d then Ok None
          else fwd_loop f (end_ + Z.of_nat (snd d)) (used + 1)
        else Ok (Some (end_, used))
    end.

  (* fragment_simple.go:63-79 *)
  Fixpoint back_loop (fuel : nat) (maxbegin start used : Z) : res (option (Z * Z)) :=
    match fuel with
    | O => OutOfFuel
    | S f =>
        if (0 <? start) && (used <? fs) then
          if n <? start then Ok None
          else
            p <- slice orig 0 start ;;
            let d := decode_last_rune p in
            if bad_rune d then Ok None
            else if maxbegin <=? start - Z.of_nat (snd d)
                 then back_loop f maxbegin (start - Z.of_nat (snd d)) (used + 1)
                 else Ok (Some (start, used))
        else Ok (Some (start, used))
    end.

  (* fragment_simple.go:84-93, over ot[currTermIndex:] *)
  Fixpoint minend_loop (end_ minend : Z) (l : list tloc) : Z :=
    match l with
    | [] => minend
    | t :: r =>
        if negb (in_bounds t n) then minend_loop end_ minend r
        else if end_ <? tl_end t then minend
        else minend_loop end_ (tl_end t) r
    end.

  (* fragment_simple.go:107-120, `offset` iterations *)
  Fixpoint centre_loop (k : nat) (start end_ : Z) : res (option (Z * Z)) :=
    match k with
    | O => Ok (Some (start, end_))
    | S k' =>
        p <- slice orig 0 start ;;
        let d := decode_last_rune p in
        if bad_rune d then Ok None
        else
          let start' := start - Z.of_nat (snd d) in
          q <- slice orig 0 end_ ;;
          let d2 := decode_last_rune q in
          if bad_rune d2 then Ok None
          else centre_loop k' start' (end_ - Z.of_nat (snd d2))
    end.

  Definition loop_fuel : nat := S (length orig).

  (* one iteration of the OUTER loop for an in-bounds location t; rest = ot[currTermIndex:] *)
  Definition one_fragment (maxbegin : Z) (t : tloc) (suffix : list tloc) : res (option frag) :=
    r1 <- fwd_loop loop_fuel (tl_start t) 0 ;;
    match r1 with
    | None => Ok None
    | Some (end_, used) =>
        r2 <- back_loop loop_fuel maxbegin (tl_start t) used ;;
        match r2 with
        | None => Ok None
        | Some (start, _) =>
            let minend := minend_loop end_ end_ suffix in
            p <- slice orig minend end_ ;;                                  (* 96 *)
            let room := Z.of_nat (rune_count p) in
            room_start <- (if maxbegin <=? start                           (* 98-100 *)
                           then q <- slice orig maxbegin start ;; Ok (Z.of_nat (rune_count q))
                           else Ok 0) ;;
            let room' := if room_start <? room then room_start else room in
            let offset := Z.quot room' 2 in                                 (* 105 *)
            r3 <- centre_loop (Z.to_nat offset) start end_ ;;
            match r3 with
            | None => Ok None
            | Some (s', e') => Ok (Some (mkFrag s' e' 0))                   (* 122: offset = 0 here *)
            end
        end
    end.

  (* fragment_simple.go:41-126 *)
  Fixpoint frag_loop (maxbegin : Z) (l : list tloc) : res (list frag) :=
    match l with
    | [] => Ok []
    | t :: rest =>
        if negb (in_bounds t n) then frag_loop maxbegin rest                (* 42-45 *)
        else
          r <- one_fragment maxbegin t l ;;
          match r with
          | None => frag_loop maxbegin rest                                 (* bail: maxbegin unchanged *)
          | Some f => fr <- frag_loop (tl_end t) rest ;; Ok (f :: fr)      (* 122-125 *)
          end
    end.

  (* fragment_simple.go:37-139 *)
  Definition fragment (ot : list tloc) : res (list frag) :=
    match ot with
    | [] => let e := if n <? 0 + fs then n else 0 + fs in Ok [mkFrag 0 e 0]   (* 127-136 *)
    | _ => frag_loop 0 ot
    end.
End Fragmenter.

(* fragment_scorer_simple.go:34-48: number of terms with a location inside the fragment *)
Definition loc_inside (fstart fend : Z) (t : tloc) : bool := (fstart <=? tl_start t) && (tl_end t <=? fend).
Definition score_fragment (m : tlmap) (f : frag) : frag :=
  mkFrag (f_start f) (f_end f)
         (fold_left (fun acc locs => if existsb (loc_inside (f_start f) (f_end f)) locs then acc + 1 else acc) m 0).

(* highlighter.go:29-36 *)
Definition frag_overlaps (a b : frag) : bool := overlaps_se (f_start a) (f_end a) (f_start b) (f_end b).

(* FragmentQueue.Less: fq[i].Score > fq[j].Score *)
Definition fq_less (a b : frag) : bool := f_score b <? f_score a.
Definition dflt_frag : frag := mkFrag 0 0 0.

(* highlighter_simple.go:66-96: candidate has been popped; fq is what is left *)
Fixpoint select_loop (fuel : nat) (num : Z) (fq : list frag) (cand : frag) (best : list frag) : res (list frag) :=
  match fuel with
  | O => OutOfFuel
  | S f =>
      if zlen best <? num then
        if existsb (frag_overlaps cand) best then                           (* 74-82 *)
          match heap_pop fq_less dflt_frag fq with
          | None => Ok best
          | Some (c', fq') => select_loop f num fq' c' best
          end
        else
          let best' := best ++ [cand] in                                    (* 83-86 *)
          match heap_pop fq_less dflt_frag fq with
          | None => Ok best'
          | Some (c', fq') => select_loop f num fq' c' best'
          end
      else Ok best
  end.

Definition best_fragments_sel (num : Z) (scored : list frag) : res (list frag) :=
  let fq := fold_left (fun h f => heap_push fq_less dflt_frag h f) scored [] in     (* 59-63 *)
  match heap_pop fq_less dflt_frag fq with
  | None => Ok []
  | Some (c, fq') => select_loop (S (length scored)) num fq' c []
  end.

(* ---- formatting ---- *)
Inductive piece := Plain (s : list Z) | Marked (s : list Z).

(* format_html.go:38-65 / format_ansi.go:33-62: the walk is the same, only the rendering of the
   pieces differs.  fend = f.End, n = len(f.Orig) *)
Fixpoint format_loop (orig : list Z) (n fend curr : Z) (l : list (option tloc)) : res (list piece) :=
  match l with
  | [] => t <- slice orig curr fend ;; Ok [Plain t]
  | None :: r => format_loop orig n fend curr r
  | Some t :: r =>
      if negb (in_bounds t n) then format_loop orig n fend curr r
      else if tl_start t <? curr then format_loop orig n fend curr r
      else if fend <? tl_end t then (t <- slice orig curr fend ;; Ok [Plain t])
      else
        a <- slice orig curr (tl_start t) ;;
        b <- slice orig (tl_start t) (tl_end t) ;;
        ps <- format_loop orig n fend (tl_end t) r ;;
        Ok (Plain a :: Marked b :: ps)
  end.
Definition format_pieces (orig : list Z) (f : frag) (l : list (option tloc)) : res (list piece) :=
  format_loop orig (zlen orig) (f_end f) (f_start f) l.

(* html.EscapeString: ampersand, apostrophe, less, greater, double quote (all ASCII, so byte-wise) *)
Definition html_escape_byte (b : Z) : list Z :=
  if b =? 38 then [38; 97; 109; 112; 59]          (* &amp; *)
  else if b =? 39 then [38; 35; 51; 57; 59]       (* &#39; *)
  else if b =? 60 then [38; 108; 116; 59]         (* &lt; *)
  else if b =? 62 then [38; 103; 116; 59]         (* &gt; *)
  else if b =? 34 then [38; 35; 51; 52; 59]       (* &#34; *)
  else [b].
Definition html_escape (s : list Z) : list Z := flat_map html_escape_byte s.

Definition render_piece (esc : list Z -> list Z) (before after : list Z) (p : piece) : list Z :=
  match p with
  | Plain s => esc s
  | Marked s => before ++ esc s ++ after
  end.
Definition render (esc : list Z -> list Z) (before after : list Z) (ps : list piece) : list Z :=
  flat_map (render_piece esc before after) ps.

Inductive formatter := FHtml (before after : list Z) | FAnsi (color : list Z).
Definition render_with (fm : formatter) (ps : list piece) : list Z :=
  match fm with
  | FHtml b a => render html_escape b a ps
  | FAnsi c => render (fun s => s) c ansi_reset ps
  end.
Definition default_html : formatter := FHtml html_before html_after.
Definition default_ansi : formatter := FAnsi ansi_default_color.

(* highlighter_simple.go:99-109 *)
Definition format_one (fm : formatter) (sep orig : list Z) (merged : list (option tloc)) (f : frag) : res (list Z) :=
  ps <- format_pieces orig f merged ;;
  Ok ((if f_start f =? 0 then [] else sep) ++ render_with fm ps ++ (if f_end f =? zlen orig then [] else sep)).

(* the chosen fragments (before formatting) *)
Definition best_fragments_raw (fs : Z) (m : tlmap) (orig : list Z) (num : Z) : res (list frag) :=
  let ot := order_term_locations m in
  frs <- fragment orig (zlen orig) fs ot ;;
  best_fragments_sel num (map (score_fragment m) frs).

(* SimpleHighlighter.BestFragments (highlighter_simple.go:48-112) *)
Definition best_fragments (fm : formatter) (sep : list Z) (fs : Z) (m : tlmap) (orig : list Z) (num : Z)
  : res (list (list Z)) :=
  best <- best_fragments_raw fs m orig num ;;
  let merged := merge_overlapping (order_term_locations m) in
  rmapM (format_one fm sep orig merged) best.

(* ---- strip: what a reader does to get the text back from an HTML fragment ----
   drop every tag `<...>` and decode the five entities html.EscapeString writes *)
Fixpoint drop_tag (s : list Z) : list Z :=      (* after '<': skip up to and including '>' *)
  match s with
  | [] => []
  | b :: r => if b =? 62 then r else drop_tag r
  end.
Definition unescape_entity (s : list Z) : option (Z * list Z) :=   (* s starts after '&' *)
  match s with
  | 97 :: 109 :: 112 :: 59 :: r => Some (38, r)
  | 35 :: 51 :: 57 :: 59 :: r => Some (39, r)
  | 108 :: 116 :: 59 :: r => Some (60, r)
  | 103 :: 116 :: 59 :: r => Some (62, r)
  | 35 :: 51 :: 52 :: 59 :: r => Some (34, r)
  | _ => None
  end.
Fixpoint strip_html_fuel (fuel : nat) (s : list Z) : list Z :=
  match fuel with
  | O => []
  | S f =>
      match s with
      | [] => []
      | b :: r =>
          if b =? 60 then strip_html_fuel f (drop_tag r)
          else if b =? 38 then
            match unescape_entity r with
            | Some (c, r') => c :: strip_html_fuel f r'
            | None => b :: strip_html_fuel f r
            end
          else b :: strip_html_fuel f r
      end
  end.
Definition strip_html (s : list Z) : list Z := strip_html_fuel (S (length s)) s.

(* the same for an ANSI fragment: drop every escape sequence ESC ... 'm' *)
Fixpoint drop_esc (s : list Z) : list Z :=     (* after ESC: skip up to and including 'm' *)
  match s with
  | [] => []
  | b :: r => if b =? 109 then r else drop_esc r
  end.
Fixpoint strip_ansi_fuel (fuel : nat) (s : list Z) : list Z :=
  match fuel with
  | O => []
  | S f =>
      match s with
      | [] => []
      | b :: r => if b =? 27 then strip_ansi_fuel f (drop_esc r) else b :: strip_ansi_fuel f r
      end
  end.
Definition strip_ansi (s : list Z) : list Z := strip_ansi_fuel (S (length s)) s.

(* the text of the pieces, without markup *)
Definition piece_text (p : piece) : list Z := match p with Plain s => s | Marked s => s end.
Definition pieces_text (ps : list piece) : list Z := flat_map piece_text ps.

(* ---- search.DocumentMatch.Complete (search/search.go:188-247) and Locations.Dedupe (45-68) ----
   Field and term names are abstracted to integer ids (only equality is used); id 0 is the empty
   field name "" (the initial value of lastField).  Maps are association lists in insertion order. *)
Record sloc := mkSLoc { sp_pos : Z; sp_start : Z; sp_end : Z }.
Definition ftloc := (Z * Z * sloc)%type.          (* Field, Term, Location *)

Fixpoint assoc_get {V} (k : Z) (m : list (Z * V)) : option V :=
  match m with
  | [] => None
  | (k', v) :: r => if k' =? k then Some v else assoc_get k r
  end.
Fixpoint assoc_set {V} (k : Z) (v : V) (m : list (Z * V)) : list (Z * V) :=
  match m with
  | [] => [(k, v)]
  | (k', v') :: r => if k' =? k then (k', v) :: r else (k', v') :: assoc_set k v r
  end.

Definition sloc_eqb (a b : sloc) : bool :=
  (sp_pos a =? sp_pos b) && (sp_start a =? sp_start b) && (sp_end a =? sp_end b).

(* sort.Sort by Pos (45-50): stable insertion sort; equal to Go's result whenever locations with
   equal Pos are equal *)
Fixpoint insert_pos (l : sloc) (s : list sloc) : list sloc :=
  match s with
  | [] => [l]
  | h :: r => if sp_pos l <? sp_pos h then l :: s else h :: insert_pos l r
  end.
Definition sort_pos (s : list sloc) : list sloc := fold_left (fun acc l => insert_pos l acc) s [].
Fixpoint uniq_from (prev : sloc) (s : list sloc) : list sloc :=
  match s with
  | [] => []
  | h :: r => if sloc_eqb prev h then uniq_from prev r else h :: uniq_from h r
  end.
Definition dedupe (s : list sloc) : list sloc :=
  match s with
  | [] => []
  | [x] => [x]
  | _ => match sort_pos s with
         | [] => []
         | h :: r => h :: uniq_from h r
         end
  end.

Definition locmap := list (Z * list (Z * list sloc)).     (* FieldTermLocationMap *)
(* tlm is non-nil once lastField has changed at least once; lastField; dm.Locations; needsDedupe *)
Definition cstate := (bool * Z * locmap * bool)%type.

Definition complete_step (st : res cstate) (x : ftloc) : res cstate :=
  s <- st ;;
  let '(started, last, locs, needs) := s in
  let '(fld, term, loc) := x in
  let started' := started || negb (last =? fld) in                    (* 205-216 *)
  if negb started' then Panic 2                                        (* tlm[ftl.Term] = ... on a nil map *)
  else
    let tlm := match assoc_get fld locs with Some t => t | None => [] end in
    let ls := match assoc_get term tlm with Some l => l | None => [] end in
    let needs' := needs || match rev ls with                           (* 225-230 *)
                           | la :: _ => sp_pos loc <=? sp_pos la
                           | [] => false
                           end in
    Ok (true, fld, assoc_set fld (assoc_set term (ls ++ [loc]) tlm) locs, needs').

Definition complete (ftls : list ftloc) : res locmap :=
  st <- fold_left complete_step ftls (Ok (false, 0, [], false)) ;;
  let '(_, _, locs, needs) := st in
  if needs then Ok (map (fun ft => (fst ft, map (fun tl => (fst tl, dedupe (snd tl))) (snd ft))) locs)   (* 238-244 *)
  else Ok locs.
