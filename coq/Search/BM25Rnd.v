(* Search/BM25Rnd.v — bm25.go:99-103 Score as rounded real arithmetic: every operation of the
   float64 expression is followed by a rounding function rnd : R -> R (for binary64 in the absence
   of overflow: Flocq's round radix2 (FLT_exp (-1074) 53) ZnearestE).  No proofs here. *)
From Coq Require Import Reals.
Open Scope R_scope.

Section Rounded.
  Variable rnd : R -> R.

  (* 1 / (k1 * ((1 - b) + b*dl/avgdl)), operation by operation in Go's order *)
  Definition norm_inverse_rnd (k1 b dl avgdl : R) : R :=
    rnd (1 / rnd (k1 * rnd (rnd (1 - b) + rnd (rnd (b * dl) / avgdl)))).

  (* w - w/(1 + f*normInverse) *)
  Definition score_rnd_ni (w f ni : R) : R := rnd (w - rnd (w / rnd (1 + rnd (f * ni)))).
  Definition score_rnd (w k1 b f dl avgdl : R) : R := score_rnd_ni w f (norm_inverse_rnd k1 b dl avgdl).

  (* the length normalisation before the final reciprocal *)
  Definition len_denominator_rnd (k1 b dl avgdl : R) : R :=
    rnd (k1 * rnd (rnd (1 - b) + rnd (rnd (b * dl) / avgdl))).
End Rounded.
