(* Search/SearchersProofsBoolAdv.v — the boolean searcher, Next and Advance (the development
   of SearchersProofsBool.v extended: Advance, the optional should child, the state after a match).
   The boolean searcher (search_boolean.go) meets the iterator
   contract when its children do.  Denotation: every candidate of the primary child (must, else
   should) that the must-not child does not match and — when there are must clauses and the
   should child requires matches (Min() <> 0) — that the should child matches too.
   Invariant (DESIGN.md 3.5): currentMatch is the least candidate at or above the level L;
   currShould / currMustNot are members of their children, with no member between L and the
   cursor, or trail the candidate. *)
From Coq Require Import ZArith List Bool Lia Arith.
From Bluge Require Import Base.Res Search.Numeric Search.Postings Search.Searchers
  Search.SearchersProofsBase Search.SearchersProofsConj.
Import ListNotations.
Open Scope Z_scope.

Section Bool.
  Variable C : Type.
  Variable cnext : C -> res (option dmatch * C).
  Variable cadv : C -> Z -> res (option dmatch * C).
  Variable cmin : C -> Z.
  Variable CInv CFin : C -> (Z -> bool) -> Z -> Prop.
  Hypothesis Hnext : next_exact C cnext CInv CFin.
  Hypothesis Hadv : adv_exact C cadv CInv CFin.
  Variable CNew : C -> (Z -> bool) -> Prop.
  Hypothesis Hnew : new_exact cnext CInv CFin CNew.
  (* a child that reported the end reports it again for every target at or above that point *)
  Hypothesis Hfin : fin_adv C cadv CFin.
  (* the should child of a boolean with must clauses and should.Min() = 0 only adds to the score:
     Advance is called on it with targets below its cursor too (advanceIfTrailing), so all that is
     known of it is CAny: it answers every Advance *)
  Variable CAny : C -> Prop.
  Hypothesis Hany_adv : forall c n, CAny c -> 0 <= n -> exists r c', cadv c n = Ok (r, c') /\ CAny c'.
  (* KS: the kinds of searcher that serve as should child (the disjunctions) *)
  Variable KS : C -> Prop.
  Hypothesis HKS_next : forall c r c', KS c -> cnext c = Ok (r, c') -> KS c'.
  Hypothesis Hany_inv : forall c S lo, KS c -> 0 < lo -> CInv c S lo -> CAny c.
  Hypothesis Hany_fin : forall c S lo, KS c -> CFin c S lo -> CAny c.
  (* Min() is a static property of a searcher *)
  Hypothesis Hmin_next : forall c r c', cnext c = Ok (r, c') -> cmin c' = cmin c.
  Hypothesis Hmin_adv : forall c n r c', cadv c n = Ok (r, c') -> cmin c' = cmin c.
  Variable N : Z.

  Variable Sm Ss Sn : option (Z -> bool).   (* denotations of the children that exist *)
  Variable smin : Z.                          (* shouldSearcher.Min() *)

  Definition opt_S (o : option (Z -> bool)) (dflt : bool) (x : Z) : bool :=
    match o with Some s => s x | None => dflt end.

  Definition should_required : bool := match Ss with Some _ => negb (smin =? 0) | None => false end.

  Definition bool_S (x : Z) : bool :=
    match Sm with
    | Some sm => sm x && negb (opt_S Sn false x) && (if should_required then opt_S Ss true x else true)
    | None => match Ss with
              | Some ss => ss x && negb (opt_S Sn false x)
              | None => false
              end
    end.

  (* the child that supplies the candidates *)
  Definition prim_ok (child : C) (S : Z -> bool) (L : Z) (cursor : option dmatch) : Prop :=
    bounded N S /\
    match cursor with
    | Some m => least_from S L (dm_num m) /\ CInv child S (dm_num m + 1)
    | None => none_from S L /\ exists lo', lo' <= L /\ CFin child S lo'
    end.

  (* a child that is only consulted about the candidate *)
  Definition sec_ok (child : C) (S : Z -> bool) (L : Z) (cursor : option dmatch) : Prop :=
    match cursor with
    | Some m => S (dm_num m) = true /\ CInv child S (dm_num m + 1) /\ (forall x, L <= x < dm_num m -> S x = false)
    | None => none_from S L /\ exists lo', lo' <= L /\ CFin child S lo'
    end.

  Definition opt_sec_ok (child : option C) (S : option (Z -> bool)) (L : Z) (cursor : option dmatch) : Prop :=
    match child, S with
    | Some c, Some s => sec_ok c s L cursor
    | None, None => cursor = None
    | _, _ => False
    end.

  Definition opt_any (child : option C) : Prop :=
    match child, Ss with
    | Some c, Some _ => CAny c
    | None, None => True
    | _, _ => False
    end.

  (* the should child next to must clauses: tracked exactly when it is required *)
  Definition should_ok (child : option C) (Ls : Z) (cursor : option dmatch) : Prop :=
    if should_required then opt_sec_ok child Ss Ls cursor else opt_any child.

  (* Lp, Ln, Ls: the levels the candidates, the must-not cursor and the should cursor are valid from *)
  Definition bool_ok3 (st : bool_st C) (Lp Ln Ls : Z) : Prop :=
    b_init st = true /\ b_done st = false /\
    opt_sec_ok (b_mustnot st) Sn Ln (b_cmn st) /\
    match b_must st, Sm with
    | Some mc, Some sm =>
        prim_ok mc sm Lp (b_cm st) /\ b_cur st = b_cm st /\
        should_ok (b_should st) Ls (b_cs st) /\
        match b_should st with Some sc => cmin sc = smin | None => True end
    | None, None =>
        match b_should st, Ss with
        | Some sc, Some ss => prim_ok sc ss Lp (b_cs st) /\ b_cur st = b_cs st /\ b_cm st = None
        | _, _ => False
        end
    | _, _ => False
    end.

  Definition bool_ok (st : bool_st C) (L : Z) : Prop := bool_ok3 st L L L.

  (* ---------- consulting a secondary child about the candidate c ---------- *)

  Lemma sec_keep : forall child S L cursor c,
    sec_ok child S L cursor -> L <= c ->
    match cursor with Some m => c <= dm_num m | None => True end ->
    sec_ok child S (c + 1) cursor /\
    S c = match cursor with Some m => dm_num m =? c | None => false end.
  Proof.
    intros child S L [m|] c Hok HL Hc; simpl in *.
    - destruct Hok as [A [B0 D]]. split.
      + split; [exact A|]. split; [exact B0|]. intros x Hx. apply D. lia.
      + destruct (dm_num m =? c) eqn:E.
        * apply Z.eqb_eq in E. rewrite <- E. exact A.
        * apply Z.eqb_neq in E. apply D. lia.
    - destruct Hok as [Hn [lo' [Hlo' HF]]]. split.
      + split; [eapply none_from_mono; eauto; lia|]. exists lo'. split; [lia|exact HF].
      + apply Hn. exact HL.
  Qed.

  (* the cursor trails the candidate: Advance(c) *)
  Lemma sec_advance : forall child S L m c,
    sec_ok child S L (Some m) -> dm_num m < c ->
    exists r child', cadv child c = Ok (r, child') /\
      sec_ok child' S (c + 1) r /\
      S c = match r with Some m' => dm_num m' =? c | None => false end /\
      match r with Some m' => c <= dm_num m' | None => True end.
  Proof.
    intros child S L m c [A [B0 D]] Hlt.
    destruct (Hadv child S (dm_num m + 1) c B0 ltac:(lia)) as [r [child' [E Hpost]]].
    exists r, child'. split; [exact E|].
    destruct r as [m'|]; simpl in Hpost.
    - destruct Hpost as [[A' [B' D']] HI]. split; [|split].
      + split; [exact A'|]. split; [exact HI|]. intros x Hx. apply D'. lia.
      + destruct (dm_num m' =? c) eqn:E2.
        * apply Z.eqb_eq in E2. rewrite <- E2. exact A'.
        * apply Z.eqb_neq in E2. apply D'. lia.
      + exact B'.
    - destruct Hpost as [Hn HF]. split; [|split; [apply Hn; lia|exact I]].
      split; [eapply none_from_mono; eauto; lia|]. exists c. split; [lia|exact HF].
  Qed.

  Lemma sec_ok_mono : forall child S L L' cursor, sec_ok child S L cursor -> L <= L' -> sec_ok child S L' cursor.
  Proof.
    intros child S L L' [m|] Hok Hle; simpl in *.
    - destruct Hok as [A [B0 D]]. split; [exact A|]. split; [exact B0|]. intros x Hx. apply D. lia.
    - destruct Hok as [Hn [lo' [Hlo' HF]]]. split; [eapply none_from_mono; eauto|]. exists lo'. split; [lia|exact HF].
  Qed.

  Lemma opt_sec_ok_mono : forall child S L L' cursor, opt_sec_ok child S L cursor -> L <= L' -> opt_sec_ok child S L' cursor.
  Proof.
    intros [c|] [s|] L L' cursor H Hle; simpl in *; auto. eapply sec_ok_mono; eauto.
  Qed.

  Lemma should_ok_mono : forall child L L' cursor, should_ok child L cursor -> L <= L' -> should_ok child L' cursor.
  Proof.
    unfold should_ok. intros child L L' cursor H Hle. destruct should_required; [eapply opt_sec_ok_mono; eauto|exact H].
  Qed.

  (* consulting an optional secondary child: the shape shared by must-not and should *)
  Definition consult (child : option C) (cursor : option dmatch) (c : Z) : res (option dmatch * option C) :=
    match cursor with
    | Some m => if dm_num m <? c then opt_adv C cadv child cursor c else Ok (cursor, child)
    | None => Ok (cursor, child)
    end.

  Lemma consult_spec : forall child S L cursor c,
    opt_sec_ok child S L cursor -> L <= c ->
    exists cursor' child', consult child cursor c = Ok (cursor', child') /\
      opt_sec_ok child' S (c + 1) cursor' /\
      opt_S S false c = match cursor' with Some m' => dm_num m' =? c | None => false end /\
      match cursor' with Some m' => c <= dm_num m' | None => True end /\
      (child = None <-> child' = None) /\
      (forall ch ch', child = Some ch -> child' = Some ch' -> cmin ch' = cmin ch).
  Proof.
    intros [ch|] [s|] L cursor c Hok HL; simpl in Hok; try contradiction.
    - unfold consult. destruct cursor as [m|].
      + destruct (dm_num m <? c) eqn:E.
        * apply Z.ltb_lt in E. destruct (sec_advance ch s L m c Hok E) as [r [ch' [Ea [Hok' [Hs Hge]]]]].
          exists r, (Some ch'). simpl. rewrite Ea. simpl. split; [reflexivity|]. split; [exact Hok'|]. split; [exact Hs|].
          split; [exact Hge|]. split; [split; discriminate|].
          intros a b Ha Hb. inversion Ha; inversion Hb; subst. eapply Hmin_adv; eauto.
        * apply Z.ltb_ge in E. destruct (sec_keep ch s L (Some m) c Hok HL E) as [Hok' Hs].
          exists (Some m), (Some ch). split; [reflexivity|]. split; [exact Hok'|]. split; [exact Hs|]. split; [exact E|].
          split; [split; discriminate|]. intros a b Ha Hb. inversion Ha; inversion Hb; subst. reflexivity.
      + destruct (sec_keep ch s L None c Hok HL I) as [Hok' Hs].
        exists None, (Some ch). split; [reflexivity|]. split; [exact Hok'|]. split; [exact Hs|]. split; [exact I|].
        split; [split; discriminate|]. intros a b Ha Hb. inversion Ha; inversion Hb; subst. reflexivity.
    - subst cursor. exists None, None. unfold consult. split; [reflexivity|]. simpl. split; [reflexivity|].
      split; [reflexivity|]. split; [exact I|]. split; [split; reflexivity|]. intros a b Ha. discriminate.
  Qed.

  (* ---------- nextInternal in two stages ---------- *)

  Definition mn_stage (st : bool_st C) (cur : dmatch) : res (bool * bool_st C) :=
    match b_cmn st with
    | None => Ok (false, st)
    | Some mn =>
        if dm_num mn <? dm_num cur then
          y <- opt_adv C cadv (b_mustnot st) (b_cmn st) (dm_num cur) ;;
          let st1 := set_cmn C st (snd y) (fst y) in
          match fst y with
          | Some mn' => if dm_num mn' =? dm_num cur
                        then st2 <- bool_advance_next_must C cnext st1 ;; Ok (true, st2)
                        else Ok (false, st1)
          | None => Ok (false, st1)
          end
        else if dm_num mn =? dm_num cur then st2 <- bool_advance_next_must C cnext st ;; Ok (true, st2)
        else Ok (false, st)
    end.

  Definition matched' (stm : bool_st C) (cons : list dmatch) : res (option dmatch * bool_st C) :=
    match build_match cons with
    | None => Panic 3
    | Some rv => st3 <- bool_advance_next_must C cnext stm ;; Ok (Some rv, st3)
    end.

  Definition only_must' (stm : bool_st C) : list dmatch := match b_cm stm with Some m => [m] | None => [] end.

  Definition should_stage (k : bool_st C -> res (option dmatch * bool_st C)) (st1 : bool_st C) (cur : dmatch)
    : res (option dmatch * bool_st C) :=
    match b_cs st1 with
    | Some s =>
        if dm_num s <? dm_num cur then
          y <- opt_adv C cadv (b_should st1) (b_cs st1) (dm_num cur) ;;
          let st2 := set_cs C st1 (snd y) (fst y) in
          let hit := match fst y with Some s' => dm_num s' =? dm_num cur | None => false end in
          if hit then matched' st2 (bool_constituents C st2)
          else if should_min_zero C cmin st2 then matched' st2 (only_must' st2)
          else st3 <- bool_advance_next_must C cnext st2 ;; k st3
        else if dm_num s =? dm_num cur then matched' st1 (bool_constituents C st1)
        else if should_min_zero C cmin st1 then matched' st1 (only_must' st1)
        else st3 <- bool_advance_next_must C cnext st1 ;; k st3
    | None =>
        if should_min_zero C cmin st1 then matched' st1 (only_must' st1)
        else st3 <- bool_advance_next_must C cnext st1 ;; k st3
    end.

  Lemma bool_loop_unfold : forall f st,
    bool_loop C cnext cadv cmin (Datatypes.S f) st =
    match b_cur st with
    | None => Ok (None, st)
    | Some cur =>
        x <- mn_stage st cur ;;
        if fst x then bool_loop C cnext cadv cmin f (snd x)
        else should_stage (bool_loop C cnext cadv cmin f) (snd x) cur
    end.
  Proof. reflexivity. Qed.

  (* the denotation of the child supplying the candidates *)
  Definition prim_S (x : Z) : bool :=
    match Sm with Some sm => sm x | None => opt_S Ss false x end.

  Lemma bool_S_prim x : prim_S x = false -> bool_S x = false.
  Proof.
    unfold prim_S, bool_S. destruct Sm as [sm|]; [intros ->; reflexivity|].
    destruct Ss as [ss|]; simpl; [intros ->; reflexivity|reflexivity].
  Qed.

  (* advanceNextMust from a state whose candidate is cur *)
  Lemma anm_spec : forall st Lp Ln Ls cur,
    bool_ok3 st Lp Ln Ls -> b_cur st = Some cur -> Ln <= dm_num cur + 1 -> Ls <= dm_num cur + 1 ->
    exists st', bool_advance_next_must C cnext st = Ok st' /\ bool_ok st' (dm_num cur + 1) /\
                (Sm <> None -> b_cs st' = b_cs st).
  Proof.
    intros st Lp Ln Ls cur [Hi [Hd [Hmn Hrest]]] Hcur HLn HLs.
    unfold bool_advance_next_must.
    destruct (b_must st) as [mc|] eqn:Em; destruct Sm as [sm|] eqn:ESm; try contradiction.
    - destruct Hrest as [[HB Hp] [Hcc [Hsh Hmin]]]. rewrite Hcur in Hcc. rewrite <- Hcc in Hp.
      destruct Hp as [_ HI].
      destruct (Hnext mc sm (dm_num cur + 1) HI) as [r [mc' [E Hpost]]]. rewrite E. simpl.
      eexists. split; [reflexivity|]. split; [|intros _; reflexivity].
      unfold bool_ok, bool_ok3. simpl. rewrite ESm. split; [exact Hi|]. split; [exact Hd|].
      split; [eapply opt_sec_ok_mono; eauto|].
      split; [|split; [reflexivity|split; [eapply should_ok_mono; eauto|exact Hmin]]].
      split; [exact HB|]. destruct r as [m'|]; simpl in Hpost; [exact Hpost|].
      destruct Hpost as [Hn HF]. split; [exact Hn|]. eexists. split; [|exact HF]. lia.
    - destruct (b_should st) as [sc|] eqn:Es; destruct Ss as [ss|] eqn:ESs; try contradiction.
      destruct Hrest as [[HB Hp] [Hcc Hcm]]. rewrite Hcur in Hcc. rewrite <- Hcc in Hp.
      destruct Hp as [_ HI].
      destruct (Hnext sc ss (dm_num cur + 1) HI) as [r [sc' [E Hpost]]]. rewrite E. simpl.
      eexists. split; [reflexivity|]. split; [|intros Hne; congruence].
      unfold bool_ok, bool_ok3. simpl. rewrite ESm, ESs. split; [exact Hi|]. split; [exact Hd|].
      split; [eapply opt_sec_ok_mono; eauto|].
      split; [|split; [reflexivity|exact Hcm]].
      split; [exact HB|]. destruct r as [m'|]; simpl in Hpost; [exact Hpost|].
      destruct Hpost as [Hn HF]. split; [exact Hn|]. eexists. split; [|exact HF]. lia.
  Qed.

  (* the candidate of a valid state *)
  Lemma cur_facts : forall st Lp Ln Ls cur,
    bool_ok3 st Lp Ln Ls -> b_cur st = Some cur ->
    least_from prim_S Lp (dm_num cur) /\ dm_num cur < N.
  Proof.
    intros st Lp Ln Ls cur [Hi [Hd [Hmn Hrest]]] Hcur. unfold prim_S.
    destruct (b_must st) as [mc|]; destruct Sm as [sm|]; try contradiction.
    - destruct Hrest as [[HB Hp] [Hcc _]]. rewrite Hcur in Hcc. rewrite <- Hcc in Hp. destruct Hp as [Hl _].
      split; [exact Hl|]. destruct Hl as [A _]. apply HB in A. lia.
    - destruct (b_should st) as [sc|]; destruct Ss as [ss|]; try contradiction.
      destruct Hrest as [[HB Hp] [Hcc _]]. rewrite Hcur in Hcc. rewrite <- Hcc in Hp. destruct Hp as [Hl _].
      simpl. split; [exact Hl|]. destruct Hl as [A _]. apply HB in A. lia.
  Qed.

  Lemma set_cmn_ok : forall st Lp Ln Ls child' r Ln',
    bool_ok3 st Lp Ln Ls -> opt_sec_ok child' Sn Ln' r -> bool_ok3 (set_cmn C st child' r) Lp Ln' Ls.
  Proof.
    intros st Lp Ln Ls child' r Ln' [Hi [Hd [Hmn Hrest]]] Hok.
    unfold bool_ok3, set_cmn. simpl. split; [exact Hi|]. split; [exact Hd|]. split; [exact Hok|exact Hrest].
  Qed.

  Lemma mn_stage_spec : forall st L cur,
    bool_ok st L -> b_cur st = Some cur ->
    exists excl st1, mn_stage st cur = Ok (excl, st1) /\
      excl = opt_S Sn false (dm_num cur) /\
      if excl then bool_ok st1 (dm_num cur + 1)
      else bool_ok3 st1 L (dm_num cur + 1) L /\ b_cur st1 = Some cur.
  Proof.
    intros st L cur Hok Hcur.
    destruct (cur_facts st L L L cur Hok Hcur) as [[_ [HLc _]] _].
    pose proof Hok as [Hi [Hd [Hmn Hrest]]].
    unfold mn_stage.
    assert (Hkeep : forall Ln', L <= Ln' -> bool_ok3 st L Ln' L).
    { intros Ln' Hle. split; [exact Hi|]. split; [exact Hd|]. split; [eapply opt_sec_ok_mono; eauto|exact Hrest]. }
    destruct (b_mustnot st) as [nc|] eqn:En; destruct Sn as [sn|] eqn:ESn; simpl in Hmn; try contradiction.
    - destruct (b_cmn st) as [mn|] eqn:Ecmn.
      + destruct (dm_num mn <? dm_num cur) eqn:E1.
        * apply Z.ltb_lt in E1.
          destruct (sec_advance nc sn L mn (dm_num cur) Hmn E1) as [r [nc' [Ea [Hok' [Hs Hge]]]]].
          unfold opt_adv. rewrite Ea. cbn [rbind fst snd].
          assert (Hst1 : bool_ok3 (set_cmn C st (Some nc') r) L (dm_num cur + 1) L).
          { apply (set_cmn_ok st L L L (Some nc') r (dm_num cur + 1) Hok). rewrite ESn. exact Hok'. }
          destruct r as [mn'|].
          -- destruct (dm_num mn' =? dm_num cur) eqn:E2.
             ++ destruct (anm_spec _ _ _ _ cur Hst1) as [st2 [E3 [Hok2 _]]]; [exact Hcur|lia|lia|].
                rewrite E3. cbn [rbind]. exists true, st2. split; [reflexivity|]. split; [symmetry; exact Hs|exact Hok2].
             ++ exists false, (set_cmn C st (Some nc') (Some mn')). split; [reflexivity|]. split; [symmetry; exact Hs|].
                split; [exact Hst1|exact Hcur].
          -- exists false, (set_cmn C st (Some nc') None). split; [reflexivity|]. split; [symmetry; exact Hs|].
             split; [exact Hst1|exact Hcur].
        * apply Z.ltb_ge in E1.
          destruct (sec_keep nc sn L (Some mn) (dm_num cur) Hmn HLc E1) as [Hok' Hs]. simpl in Hs.
          destruct (dm_num mn =? dm_num cur) eqn:E2.
          -- destruct (anm_spec st L L L cur Hok Hcur) as [st2 [E3 [Hok2 _]]]; [lia|lia|].
             rewrite E3. cbn [rbind]. exists true, st2. split; [reflexivity|]. split; [symmetry; exact Hs|exact Hok2].
          -- exists false, st. split; [reflexivity|]. split; [symmetry; exact Hs|]. split; [apply Hkeep; lia|exact Hcur].
      + exists false, st. split; [reflexivity|]. split.
        * simpl. destruct Hmn as [Hn _]. symmetry. apply Hn. exact HLc.
        * split; [apply Hkeep; lia|exact Hcur].
    - subst. rewrite Hmn. exists false, st. split; [reflexivity|]. split; [reflexivity|].
      split; [apply Hkeep; lia|exact Hcur].
  Qed.

  Lemma set_cs_ok : forall st Lp Ln Ls mc child' r Ls',
    bool_ok3 st Lp Ln Ls -> b_must st = Some mc -> should_ok child' Ls' r ->
    match child' with Some sc => cmin sc = smin | None => True end ->
    bool_ok3 (set_cs C st child' r) Lp Ln Ls'.
  Proof.
    intros st Lp Ln Ls mc child' r Ls' [Hi [Hd [Hmn Hrest]]] Hm Hok Hmin.
    unfold bool_ok3, set_cs. simpl. split; [exact Hi|]. split; [exact Hd|]. split; [exact Hmn|].
    rewrite Hm in *. destruct Sm as [sm|]; [|contradiction].
    destruct Hrest as [Hp [Hcc [_ _]]]. split; [exact Hp|]. split; [exact Hcc|]. split; [exact Hok|exact Hmin].
  Qed.

  (* with must clauses and a required should child the should cursor is not ahead of the watermark
     when a match is returned: advanceIfTrailing may advance it unconditionally *)
  Definition trail (st : bool_st C) (L : Z) : Prop :=
    match Sm with
    | Some _ => should_required = true -> match b_cs st with Some s => dm_num s < L | None => True end
    | None => True
    end.

  Definition stage_result (k : bool_st C -> res (option dmatch * bool_st C)) (st1 : bool_st C) (cur : dmatch) : Prop :=
    (exists rv st3, should_stage k st1 cur = Ok (Some rv, st3) /\ dm_num rv = dm_num cur /\
                    bool_S (dm_num cur) = true /\ bool_ok st3 (dm_num cur + 1) /\ trail st3 (dm_num cur + 1)) \/
    (exists st3, should_stage k st1 cur = k st3 /\ bool_S (dm_num cur) = false /\ bool_ok st3 (dm_num cur + 1)).

  (* matched: build the match from the candidate, step the candidate child *)
  Lemma matched_spec : forall st2 L Ls cons first rest cur,
    bool_ok3 st2 L (dm_num cur + 1) Ls -> Ls <= dm_num cur + 1 -> b_cur st2 = Some cur ->
    cons = first :: rest -> dm_num first = dm_num cur ->
    exists rv st3, matched' st2 cons = Ok (Some rv, st3) /\ dm_num rv = dm_num cur /\ bool_ok st3 (dm_num cur + 1) /\
                   (Sm <> None -> b_cs st3 = b_cs st2).
  Proof.
    intros st2 L Ls cons first rest cur Hok HLs Hcur -> Hnum.
    unfold matched'. cbn [build_match].
    destruct (anm_spec st2 L _ Ls cur Hok Hcur) as [st3 [E [Hok3 Hcs3]]]; [lia|exact HLs|].
    rewrite E. cbn [rbind]. eexists _, st3. split; [reflexivity|]. split; [exact Hnum|]. split; [exact Hok3|exact Hcs3].
  Qed.

  Lemma should_stage_spec : forall k st1 L cur,
    bool_ok3 st1 L (dm_num cur + 1) L -> b_cur st1 = Some cur -> opt_S Sn false (dm_num cur) = false ->
    stage_result k st1 cur.
  Proof.
    intros k st1 L cur Hok Hcur HSn.
    destruct (cur_facts st1 L _ L cur Hok Hcur) as [[Hprim [HLc _]] _].
    pose proof Hok as [Hi [Hd [Hmn Hrest]]].
    unfold stage_result, should_stage.
    destruct (b_must st1) as [mc|] eqn:Em; destruct Sm as [sm|] eqn:ESm; try contradiction.
    - (* must clauses: the candidate is currMust *)
      destruct Hrest as [Hp [Hcc [Hsh Hmin]]].
      assert (Hcm : b_cm st1 = Some cur) by congruence.
      assert (Hsm : sm (dm_num cur) = true) by (unfold prim_S in Hprim; rewrite ESm in Hprim; exact Hprim).
      assert (Hcur0 : 0 <= dm_num cur) by (pose proof (proj1 Hp _ Hsm); lia).
      assert (HbS : forall b, (if should_required then opt_S Ss true (dm_num cur) else true) = b -> bool_S (dm_num cur) = b).
      { intros b Hb. unfold bool_S. rewrite ESm, Hsm, HSn. simpl. exact Hb. }
      (* the two ways of deciding once the should cursor is settled *)
      assert (Hdecide : forall st2 Ls (hit : bool),
                bool_ok3 st2 L (dm_num cur + 1) Ls -> Ls <= dm_num cur + 1 -> b_cur st2 = Some cur -> b_cm st2 = Some cur ->
                hit = match b_cs st2 with Some s' => dm_num s' =? dm_num cur | None => false end ->
                (should_required = true -> hit = opt_S Ss false (dm_num cur)) ->
                should_min_zero C cmin st2 = negb should_required ->
                (exists rv st3, (if hit then matched' st2 (bool_constituents C st2)
                                 else if should_min_zero C cmin st2 then matched' st2 (only_must' st2)
                                 else st3 <- bool_advance_next_must C cnext st2 ;; k st3) = Ok (Some rv, st3) /\
                                dm_num rv = dm_num cur /\ bool_S (dm_num cur) = true /\ bool_ok st3 (dm_num cur + 1) /\
                                trail st3 (dm_num cur + 1)) \/
                (exists st3, (if hit then matched' st2 (bool_constituents C st2)
                              else if should_min_zero C cmin st2 then matched' st2 (only_must' st2)
                              else st3 <- bool_advance_next_must C cnext st2 ;; k st3) = k st3 /\
                             bool_S (dm_num cur) = false /\ bool_ok st3 (dm_num cur + 1))).
      { intros st2 Ls hit Hok2 HLs Hcur2 Hcm2 Hhit Hreq Hmz.
        assert (Hcons : bool_constituents C st2 = cur :: match b_cs st2 with Some s => [s] | None => [] end).
        { unfold bool_constituents. rewrite Hcm2. reflexivity. }
        destruct hit.
        - left. destruct (matched_spec st2 L Ls _ cur _ cur Hok2 HLs Hcur2 Hcons eq_refl) as [rv [st3 [E [Hn [Hok3 Hcs3]]]]].
          exists rv, st3. split; [exact E|]. split; [exact Hn|]. split; [|split; [exact Hok3|]].
          + apply HbS. destruct should_required eqn:Ereq; [|reflexivity].
            specialize (Hreq eq_refl). destruct Ss as [ss|]; simpl in *; [symmetry; exact Hreq|reflexivity].
          + unfold trail. rewrite ESm. intros _. rewrite Hcs3 by (rewrite ESm; discriminate).
            destruct (b_cs st2) as [s'|]; [|exact I]. symmetry in Hhit. apply Z.eqb_eq in Hhit. lia.
        - rewrite Hmz. destruct should_required eqn:Ereq; simpl.
          + right. destruct (anm_spec st2 L _ Ls cur Hok2 Hcur2) as [st3 [E [Hok3 _]]]; [lia|exact HLs|].
            rewrite E. cbn [rbind]. exists st3. split; [reflexivity|]. split; [|exact Hok3].
            apply HbS. specialize (Hreq eq_refl). unfold should_required in Ereq. destruct Ss as [ss|]; [|discriminate]. simpl in *. symmetry. exact Hreq.
          + left. unfold only_must'. rewrite Hcm2.
            destruct (matched_spec st2 L Ls [cur] cur [] cur Hok2 HLs Hcur2 eq_refl eq_refl) as [rv [st3 [E [Hn [Hok3 _]]]]].
            exists rv, st3. split; [exact E|]. split; [exact Hn|]. split; [apply HbS; reflexivity|]. split; [exact Hok3|].
            unfold trail. rewrite ESm. intros Hf. rewrite Ereq in Hf. discriminate. }
      assert (Hmz_of : forall st2, b_should st2 = b_should st1 \/ (exists sc sc', b_should st1 = Some sc /\ b_should st2 = Some sc' /\ cmin sc' = cmin sc) ->
                should_min_zero C cmin st2 = negb should_required).
      { intros st2 Hs2. unfold should_min_zero, should_required.
        destruct Hs2 as [->|[sc [sc' [E1 [-> E3]]]]].
        - destruct (b_should st1) as [sc|] eqn:Esc.
          + rewrite Hmin. unfold should_ok, should_required, opt_sec_ok, opt_any in Hsh.
            destruct Ss as [ss|]; [destruct (smin =? 0); reflexivity|]. destruct (negb (smin =? 0)); contradiction.
          + unfold should_ok, should_required, opt_sec_ok, opt_any in Hsh.
            destruct Ss as [ss|]; [|reflexivity]. destruct (negb (smin =? 0)); contradiction.
        - rewrite E1 in Hmin, Hsh. rewrite E3, Hmin. unfold should_ok, should_required, opt_sec_ok, opt_any in Hsh.
          destruct Ss as [ss|]; [destruct (smin =? 0); reflexivity|]. destruct (negb (smin =? 0)); contradiction. }
      destruct should_required eqn:Ereq.
      + (* the should child is required: its cursor is tracked *)
        unfold should_ok in Hsh. rewrite Ereq in Hsh.
        assert (Hsetcs : forall child' r Ls', opt_sec_ok child' Ss Ls' r ->
                   match child' with Some sc => cmin sc = smin | None => True end ->
                   bool_ok3 (set_cs C st1 child' r) L (dm_num cur + 1) Ls').
        { intros child' r Ls' H1 H2. apply (set_cs_ok st1 L _ L mc child' r Ls' Hok Em); [|exact H2].
          unfold should_ok. rewrite Ereq. exact H1. }
        destruct (b_should st1) as [sc|] eqn:Esc; destruct Ss as [ss|] eqn:ESs; simpl in Hsh; try contradiction.
        * destruct (b_cs st1) as [s|] eqn:Ecs.
          -- destruct (dm_num s <? dm_num cur) eqn:E1.
             ++ apply Z.ltb_lt in E1.
                destruct (sec_advance sc ss L s (dm_num cur) Hsh E1) as [r [sc' [Ea [Hok' [Hs Hge]]]]].
                unfold opt_adv. rewrite Ea. cbn [rbind fst snd]. cbv zeta.
                apply (Hdecide (set_cs C st1 (Some sc') r) (dm_num cur + 1)); try assumption; try lia.
                ** apply Hsetcs; [exact Hok'|]. rewrite <- Hmin. eapply Hmin_adv; eauto.
                ** reflexivity.
                ** intros _. symmetry. exact Hs.
                ** apply Hmz_of. right. exists sc, sc'. split; [reflexivity|]. split; [reflexivity|]. eapply Hmin_adv; eauto.
             ++ apply Z.ltb_ge in E1.
                destruct (sec_keep sc ss L (Some s) (dm_num cur) Hsh HLc E1) as [_ Hs]. simpl in Hs.
                apply (Hdecide st1 L (dm_num s =? dm_num cur)); try assumption; try lia.
                ** rewrite Ecs. reflexivity.
                ** intros _. symmetry. exact Hs.
                ** apply Hmz_of; left; first [reflexivity | assumption].
          -- destruct Hsh as [Hn _].
             apply (Hdecide st1 L false); try assumption; try lia.
             ++ rewrite Ecs. reflexivity.
             ++ intros _. simpl. symmetry. apply Hn. exact HLc.
             ++ apply Hmz_of; left; first [reflexivity | assumption].
        * unfold should_required in Ereq. rewrite ESs in Ereq. discriminate.
      + (* the should child is optional: whatever it answers, the candidate is returned *)
        unfold should_ok in Hsh. rewrite Ereq in Hsh.
        assert (Hsetcs : forall child' r, opt_any child' ->
                   match child' with Some sc => cmin sc = smin | None => True end ->
                   bool_ok3 (set_cs C st1 child' r) L (dm_num cur + 1) L).
        { intros child' r H1 H2. apply (set_cs_ok st1 L _ L mc child' r L Hok Em); [|exact H2].
          unfold should_ok. rewrite Ereq. exact H1. }
        destruct (b_cs st1) as [s|] eqn:Ecs.
        * destruct (dm_num s <? dm_num cur) eqn:E1.
          -- (* Advance on the should child *)
             assert (Hadv' : exists r child', opt_adv C cadv (b_should st1) (Some s) (dm_num cur) = Ok (r, child') /\
                               opt_any child' /\ match child' with Some sc => cmin sc = smin | None => True end /\
                               (b_should st1 = child' \/ exists sc sc', b_should st1 = Some sc /\ child' = Some sc' /\ cmin sc' = cmin sc)).
             { unfold opt_any in Hsh |- *. destruct (b_should st1) as [sc|] eqn:Esc.
               - destruct Ss as [ss|]; [|contradiction].
                 destruct (Hany_adv sc (dm_num cur) Hsh ltac:(lia)) as [r [sc' [Ea Hany']]].
                 exists r, (Some sc'). unfold opt_adv. rewrite Ea. cbn [rbind fst snd]. split; [reflexivity|].
                 split; [exact Hany'|]. split; [rewrite <- Hmin; eapply Hmin_adv; eauto|].
                 right. exists sc, sc'. split; [reflexivity|]. split; [reflexivity|]. eapply Hmin_adv; eauto.
               - exists (Some s), None. split; [reflexivity|]. split; [exact Hsh|]. split; [exact I|left; reflexivity]. }
             destruct Hadv' as [r [child' [Ea [Hany' [Hmin' Hsame]]]]]. rewrite Ea. cbn [rbind fst snd]. cbv zeta.
             apply (Hdecide (set_cs C st1 child' r) L); try assumption; try lia.
             ++ apply Hsetcs; assumption.
             ++ reflexivity.
             ++ apply Hmz_of. destruct Hsame as [<-|Hs2]; [left; reflexivity|right; exact Hs2].
          -- apply (Hdecide st1 L (dm_num s =? dm_num cur)); try assumption; try lia.
             ++ rewrite Ecs. reflexivity.
             ++ apply Hmz_of; left; first [reflexivity | assumption].
        * apply (Hdecide st1 L false); try assumption; try lia.
          -- rewrite Ecs. reflexivity.
          -- apply Hmz_of; left; first [reflexivity | assumption].
    - (* only should clauses: the candidate is currShould *)
      destruct (b_should st1) as [sc|] eqn:Esc; destruct Ss as [ss|] eqn:ESs; try contradiction.
      destruct Hrest as [Hp [Hcc Hcm]].
      assert (Hcs : b_cs st1 = Some cur) by congruence.
      rewrite Hcs. rewrite Z.ltb_irrefl, Z.eqb_refl.
      left. destruct (matched_spec st1 L L (bool_constituents C st1) cur [] cur Hok ltac:(lia) Hcur) as [rv [st3 [E [Hn [Hok3 _]]]]].
      { unfold bool_constituents. rewrite Hcm, Hcs. reflexivity. }
      { reflexivity. }
      exists rv, st3. split; [exact E|]. split; [exact Hn|]. split; [|split; [exact Hok3|unfold trail; rewrite ESm; exact I]].
      unfold bool_S. rewrite ESm, ESs, HSn. unfold prim_S in Hprim. rewrite ESm, ESs in Hprim. simpl in Hprim.
      rewrite Hprim. reflexivity.
  Qed.

  (* ---------- nextInternal ---------- *)

  Lemma bool_S_excluded x : opt_S Sn false x = true -> bool_S x = false.
  Proof.
    intros H. unfold bool_S. rewrite H. destruct Sm as [sm|].
    - destruct (sm x); reflexivity.
    - destruct Ss as [ss|]; [destruct (ss x); reflexivity|reflexivity].
  Qed.

  Lemma cur_none_facts : forall st L, bool_ok st L -> b_cur st = None -> none_from prim_S L.
  Proof.
    intros st L [Hi [Hd [Hmn Hrest]]] Hcur. unfold prim_S.
    destruct (b_must st) as [mc|]; destruct Sm as [sm|]; try contradiction.
    - destruct Hrest as [[_ Hp] [Hcc _]]. rewrite Hcur in Hcc. rewrite <- Hcc in Hp. apply Hp.
    - destruct (b_should st) as [sc|]; destruct Ss as [ss|]; try contradiction.
      destruct Hrest as [[_ Hp] [Hcc _]]. rewrite Hcur in Hcc. rewrite <- Hcc in Hp. simpl. apply Hp.
  Qed.

  Definition bool_loop_post (lo : Z) (r : option dmatch) (st' : bool_st C) : Prop :=
    match r with
    | Some rv => least_from bool_S lo (dm_num rv) /\ bool_ok st' (dm_num rv + 1) /\ trail st' (dm_num rv + 1)
    | None => none_from bool_S lo /\ b_init st' = true
    end.

  Lemma bool_loop_spec : forall fuel st lo L,
    bool_ok st L -> lo <= L -> 0 <= L -> (forall x, lo <= x < L -> bool_S x = false) ->
    (Z.to_nat (N - L) + 1 < fuel)%nat ->
    exists r st', bool_loop C cnext cadv cmin fuel st = Ok (r, st') /\ bool_loop_post lo r st'.
  Proof.
    induction fuel as [| fuel IH]; intros st lo L Hok HloL HL Hbelow Hfuel; [lia|].
    rewrite bool_loop_unfold. destruct (b_cur st) as [cur|] eqn:Hcur.
    - destruct (cur_facts st L L L cur Hok Hcur) as [[Hc1 [Hc2 Hc3]] HcN].
      assert (Hbelow_c : forall x, lo <= x < dm_num cur -> bool_S x = false).
      { intros x Hx. destruct (Z_lt_ge_dec x L); [apply Hbelow; lia|]. apply bool_S_prim. apply Hc3. lia. }
      destruct (mn_stage_spec st L cur Hok Hcur) as [excl [st1 [E1 [Hexcl Hst1]]]].
      rewrite E1. cbn [rbind fst snd].
      assert (Hcont : forall st3, bool_ok st3 (dm_num cur + 1) -> bool_S (dm_num cur) = false ->
                 exists r st', bool_loop C cnext cadv cmin fuel st3 = Ok (r, st') /\ bool_loop_post lo r st').
      { intros st3 Hok3 Hfalse. apply IH with (L := dm_num cur + 1); auto; try lia.
        intros x Hx. destruct (Z.eq_dec x (dm_num cur)) as [->|Hne]; [exact Hfalse|apply Hbelow_c; lia]. }
      destruct excl.
      + apply Hcont; [exact Hst1|]. apply bool_S_excluded. symmetry. exact Hexcl.
      + destruct Hst1 as [Hst1 Hcur1].
        destruct (should_stage_spec (bool_loop C cnext cadv cmin fuel) st1 L cur Hst1 Hcur1 (eq_sym Hexcl))
          as [[rv [st3 [E [Hn [HbS Hok3]]]]]|[st3 [E [HbS Hok3]]]].
        * exists (Some rv), st3. split; [exact E|]. simpl. rewrite Hn. split; [|exact Hok3].
          split; [exact HbS|]. split; [lia|exact Hbelow_c].
        * rewrite E. apply Hcont; assumption.
    - exists None, st. split; [reflexivity|]. simpl. split; [|apply Hok].
      pose proof (cur_none_facts st L Hok Hcur) as Hn.
      intros x Hx. destruct (Z_lt_ge_dec x L); [apply Hbelow; lia|]. apply bool_S_prim. apply Hn. lia.
  Qed.

  (* ---------- Next ---------- *)

  Definition opt_new (child : option C) (S : option (Z -> bool)) : Prop :=
    match child, S with
    | Some c, Some s => bounded N s /\ CNew c s
    | None, None => True
    | _, _ => False
    end.

  Definition bool_fresh (st : bool_st C) : Prop :=
    b_init st = false /\ b_done st = false /\
    b_cm st = None /\ b_cs st = None /\ b_cmn st = None /\
    opt_new (b_must st) Sm /\ opt_new (b_should st) Ss /\ opt_new (b_mustnot st) Sn /\
    match b_should st with Some sc => cmin sc = smin /\ KS sc | None => True end /\
    (Sm <> None \/ Ss <> None).

  Definition bool_inv (st : bool_st C) (lo : Z) : Prop := bool_ok st lo \/ (bool_fresh st /\ lo = 0).

  Lemma opt_next_new : forall child S cur, opt_new child S -> cur = None ->
    exists r child', opt_next C cnext child cur = Ok (r, child') /\
      (child = None <-> child' = None) /\
      (forall ch ch', child = Some ch -> child' = Some ch' -> cmin ch' = cmin ch /\ (KS ch -> KS ch')) /\
      match child', S with
      | Some c', Some s => bounded N s /\ exact_post CInv CFin s 0 r c'
      | None, None => r = None
      | _, _ => False
      end.
  Proof.
    intros [c|] [s|] cur H ->; simpl in H; try contradiction.
    - destruct H as [HB HI]. destruct (Hnew c s HI) as [r [c' [E Hpost]]].
      exists r, (Some c'). simpl. rewrite E. simpl. split; [reflexivity|]. split; [split; discriminate|].
      split; [|split; assumption]. intros a b Ha Hb. inversion Ha; inversion Hb; subst.
      split; [eapply Hmin_next; eauto|intros HK; eapply HKS_next; eauto].
    - exists None, None. simpl. split; [reflexivity|]. split; [split; reflexivity|]. split; [|reflexivity].
      intros a b Ha. discriminate.
  Qed.

  Lemma exact_post_prim : forall c s r, bounded N s -> exact_post CInv CFin s 0 r c -> prim_ok c s 0 r.
  Proof.
    intros c s [m|] HB H; simpl in *; split; auto.
    destruct H as [Hn HF]. split; [exact Hn|]. exists 0. split; [lia|exact HF].
  Qed.

  Lemma exact_post_sec : forall c s r, exact_post CInv CFin s 0 r c -> sec_ok c s 0 r.
  Proof.
    intros c s [m|] H; simpl in *.
    - destruct H as [[A [B0 D]] HI]. split; [exact A|]. split; [exact HI|exact D].
    - destruct H as [Hn HF]. split; [exact Hn|]. exists 0. split; [lia|exact HF].
  Qed.

  Lemma bool_initialise_spec : forall st lo, bool_inv st lo ->
    exists st1, bool_initialise C cnext st = Ok st1 /\ bool_ok st1 lo.
  Proof.
    intros st lo [Hok|[Hf ->]].
    - exists st. unfold bool_initialise. destruct Hok as [Hi Hok]. rewrite Hi. split; [reflexivity|split; assumption].
    - destruct Hf as [Hi [Hd [Hcm [Hcs [Hcmn [Hm [Hs [Hn [Hmin Hne]]]]]]]]].
      unfold bool_initialise. rewrite Hi.
      destruct (opt_next_new _ _ _ Hm Hcm) as [rm [m' [Em [Hnm [_ Hpm]]]]]. rewrite Em. cbn [rbind].
      destruct (opt_next_new _ _ _ Hs Hcs) as [rs [s' [Es [Hns [Hmins Hps]]]]]. rewrite Es. cbn [rbind].
      destruct (opt_next_new _ _ _ Hn Hcmn) as [rn [n' [En [Hnn [_ Hpn]]]]]. rewrite En. cbn [rbind fst snd].
      eexists. split; [reflexivity|].
      unfold bool_ok, bool_ok3. simpl. split; [reflexivity|]. split; [exact Hd|].
      split.
      { unfold opt_sec_ok. destruct n' as [nc|]; destruct Sn as [sn|]; try contradiction; [|exact Hpn].
        apply exact_post_sec. apply Hpn. }
      destruct m' as [mc|]; destruct Sm as [sm|] eqn:ESm; try contradiction.
      + destruct Hpm as [HB Hpm]. split; [apply exact_post_prim; assumption|]. split; [reflexivity|].
        split.
        { unfold should_ok. destruct should_required.
          - unfold opt_sec_ok. destruct s' as [sc|]; destruct Ss as [ss|]; try contradiction; [|exact Hps].
            apply exact_post_sec. apply Hps.
          - unfold opt_any. destruct s' as [sc|]; destruct Ss as [ss|]; try contradiction; [|exact I].
            assert (HK : KS sc).
            { destruct (b_should st) as [sc0|] eqn:Esc; [|destruct Hns as [Hns _]; specialize (Hns eq_refl); discriminate].
              apply (proj2 (Hmins sc0 sc eq_refl eq_refl)). apply Hmin. }
            destruct Hps as [_ Hps]. destruct rs as [m|]; simpl in Hps.
            + destruct Hps as [[_ [Hge _]] HI']. eapply Hany_inv; [exact HK| |exact HI']. lia.
            + eapply Hany_fin; [exact HK|]. apply Hps. }
        destruct s' as [sc|]; [|exact I].
        destruct (b_should st) as [sc0|] eqn:Esc; [|destruct Hns as [Hns _]; specialize (Hns eq_refl); discriminate].
        rewrite (proj1 (Hmins sc0 sc eq_refl eq_refl)). apply Hmin.
      + destruct s' as [sc|]; destruct Ss as [ss|] eqn:ESs; try contradiction.
        * destruct Hps as [HB Hps]. split; [apply exact_post_prim; assumption|]. split; [reflexivity|exact Hpm].
        * destruct Hne as [Hne|Hne]; congruence.
  Qed.

  (* the state after a match was returned: Advance may follow *)
  Definition bool_ret (st : bool_st C) (L : Z) : Prop := bool_ok st L /\ trail st L.

  Lemma bool_ret_inv st L : bool_ret st L -> bool_inv st L.
  Proof. intros [H _]. left. exact H. Qed.

  Definition bool_exact_post (lo : Z) (r : option dmatch) (st' : bool_st C) : Prop :=
    match r with
    | Some rv => least_from bool_S lo (dm_num rv) /\ bool_ret st' (dm_num rv + 1)
    | None => none_from bool_S lo /\ b_done st' = true
    end.

  Lemma bool_next_spec : forall lf st lo, bool_inv st lo -> 0 <= lo -> (Z.to_nat N + 2 <= lf)%nat ->
    exists r st', bool_next C cnext cadv cmin lf st = Ok (r, st') /\ bool_exact_post lo r st'.
  Proof.
    intros lf st lo Hinv Hlo Hlf. unfold bool_next.
    assert (Hd : b_done st = false) by (destruct Hinv as [[_ [Hd _]]|[[_ [Hd _]] _]]; exact Hd).
    rewrite Hd.
    destruct (bool_initialise_spec st lo Hinv) as [st1 [E1 Hok]]. rewrite E1. cbn [rbind].
    assert (Hb0 : forall x, lo <= x < lo -> bool_S x = false) by (intros x Hx; lia).
    assert (Hfu : (Z.to_nat (N - lo) + 1 < lf)%nat) by lia.
    destruct (bool_loop_spec lf st1 lo lo Hok (Z.le_refl _) Hlo Hb0 Hfu) as [r [st' [E Hpost]]].
    rewrite E. cbn [rbind fst snd]. destruct r as [rv|]; simpl in Hpost.
    - exists (Some rv), st'. split; [reflexivity|]. simpl. destruct Hpost as [Hl Hok']. split; [exact Hl|exact Hok'].
    - exists None, (set_done C st'). split; [reflexivity|]. simpl. destruct Hpost as [Hn _]. split; [exact Hn|reflexivity].
  Qed.
  (* ---------- Advance ---------- *)

  Lemma prim_adv : forall c S L cursor n, prim_ok c S L cursor -> L <= n ->
    match cursor with Some m => dm_num m < n | None => True end ->
    exists r c', cadv c n = Ok (r, c') /\ prim_ok c' S n r.
  Proof.
    intros c S L [m|] n [HB H] HL Hlt.
    - destruct H as [_ HI]. destruct (Hadv c S (dm_num m + 1) n HI ltac:(lia)) as [r [c' [E Hpost]]].
      exists r, c'. split; [exact E|]. split; [exact HB|]. destruct r as [m'|]; simpl in Hpost; [exact Hpost|].
      destruct Hpost as [Hn HF]. split; [exact Hn|]. exists n. split; [lia|exact HF].
    - destruct H as [Hn [lo' [Hlo' HF]]].
      destruct (Hfin c S lo' n HF ltac:(lia)) as [c' [lo2 [E [Hlo2 HF']]]].
      exists None, c'. split; [exact E|]. split; [exact HB|]. split; [eapply none_from_mono; eauto|]. exists lo2. split; assumption.
  Qed.

  Lemma sec_adv_to : forall c S L cursor n, sec_ok c S L cursor -> L <= n ->
    match cursor with Some m => dm_num m < n | None => True end ->
    exists r c', cadv c n = Ok (r, c') /\ sec_ok c' S n r.
  Proof.
    intros c S L [m|] n H HL Hlt; simpl in H.
    - destruct H as [_ [HI _]]. destruct (Hadv c S (dm_num m + 1) n HI ltac:(lia)) as [r [c' [E Hpost]]].
      exists r, c'. split; [exact E|]. destruct r as [m'|]; simpl in Hpost |- *.
      + destruct Hpost as [[A [B0 D]] HI']. split; [exact A|]. split; [exact HI'|exact D].
      + destruct Hpost as [Hn HF]. split; [exact Hn|]. exists n. split; [lia|exact HF].
    - destruct H as [Hn [lo' [Hlo' HF]]].
      destruct (Hfin c S lo' n HF ltac:(lia)) as [c' [lo2 [E [Hlo2 HF']]]].
      exists None, c'. split; [exact E|]. simpl. split; [eapply none_from_mono; eauto|]. exists lo2. split; assumption.
  Qed.

  Lemma mn_adv_spec : forall mnc cmn L n, opt_sec_ok mnc Sn L cmn -> L <= n ->
    exists r child',
      match mnc with
      | None => Ok (cmn, None)
      | Some _ =>
          if match cmn with None => true | Some c => dm_num c <? n end
          then opt_adv C cadv mnc cmn n else Ok (cmn, mnc)
      end = Ok (r, child') /\ opt_sec_ok child' Sn n r.
  Proof.
    intros [nc|] cmn L n Hok HL; destruct Sn as [sn|]; cbn [opt_sec_ok] in Hok; try contradiction.
    - destruct cmn as [c|].
      + destruct (dm_num c <? n) eqn:E.
        * apply Z.ltb_lt in E. destruct (sec_adv_to nc sn L (Some c) n Hok HL E) as [r [c' [Ea Hok']]].
          exists r, (Some c'). unfold opt_adv. rewrite Ea. cbn [rbind fst snd]. split; [reflexivity|exact Hok'].
        * exists (Some c), (Some nc). split; [reflexivity|]. cbn [opt_sec_ok]. eapply sec_ok_mono; eauto.
      + destruct (sec_adv_to nc sn L None n Hok HL I) as [r [c' [Ea Hok']]].
        exists r, (Some c'). unfold opt_adv. rewrite Ea. cbn [rbind fst snd]. split; [reflexivity|exact Hok'].
    - exists cmn, None. split; [reflexivity|]. cbn [opt_sec_ok]. exact Hok.
  Qed.

  Lemma advance_if_trailing_spec : forall st L n,
    bool_ok st L -> trail st L -> L <= n -> 0 <= n ->
    match b_cur st with Some c => dm_num c < n | None => True end ->
    exists st2, bool_advance_if_trailing C cadv st n = Ok st2 /\ bool_ok st2 n.
  Proof.
    intros st L n [Hi [Hd [Hmn Hrest]]] Htr HL Hn0 Hcur.
    unfold bool_advance_if_trailing. cbv zeta.
    destruct (mn_adv_spec (b_mustnot st) (b_cmn st) L n Hmn HL) as [rn [nc' [En Hmn']]].
    destruct (b_must st) as [mc|] eqn:Em; destruct Sm as [sm|] eqn:ESm; try contradiction.
    - destruct Hrest as [Hp [Hcc [Hsh Hmin]]]. rewrite Hcc in Hcur.
      destruct (prim_adv mc sm L (b_cm st) n Hp HL Hcur) as [rm [mc' [Ea Hp']]].
      unfold opt_adv at 1. rewrite Ea. cbn [rbind fst snd].
      (* the should child *)
      assert (Hs : exists rs sc', opt_adv C cadv (b_should st) (b_cs st) n = Ok (rs, sc') /\ should_ok sc' n rs /\
                     match sc' with Some sc => cmin sc = smin | None => True end).
      { unfold should_ok in Hsh |- *. unfold trail in Htr. rewrite ESm in Htr.
        destruct should_required eqn:Ereq.
        - specialize (Htr eq_refl).
          destruct (b_should st) as [sc|] eqn:Esc; destruct Ss as [ss|] eqn:ESs; simpl in Hsh; try contradiction.
          + destruct (sec_adv_to sc ss L (b_cs st) n Hsh HL) as [rs [sc' [Eb Hsh']]].
            { destruct (b_cs st); [lia|exact I]. }
            exists rs, (Some sc'). unfold opt_adv. rewrite Eb. cbn [rbind fst snd]. split; [reflexivity|].
            split; [simpl; exact Hsh'|]. rewrite <- Hmin. eapply Hmin_adv; eauto.
          + exists (b_cs st), None. split; [reflexivity|]. split; [simpl; exact Hsh|exact I].
        - unfold opt_any in Hsh |- *.
          destruct (b_should st) as [sc|] eqn:Esc; destruct Ss as [ss|] eqn:ESs; try contradiction.
          + destruct (Hany_adv sc n Hsh Hn0) as [rs [sc' [Eb Hany']]].
            exists rs, (Some sc'). unfold opt_adv. rewrite Eb. cbn [rbind fst snd]. split; [reflexivity|].
            split; [exact Hany'|]. rewrite <- Hmin. eapply Hmin_adv; eauto.
          + exists (b_cs st), None. split; [reflexivity|]. split; [exact I|exact I]. }
      destruct Hs as [rs [sc' [Eb [Hsh' Hmin']]]]. rewrite Eb. cbn [rbind fst snd].
      rewrite En. cbn [rbind fst snd].
      eexists. split; [reflexivity|].
      unfold bool_ok, bool_ok3. cbn [b_init b_done b_mustnot b_cmn b_must b_should b_cm b_cs b_cur pick_current].
      rewrite ESm. split; [exact Hi|]. split; [exact Hd|]. split; [exact Hmn'|].
      split; [exact Hp'|]. split; [reflexivity|]. split; [exact Hsh'|exact Hmin'].
    - destruct (b_should st) as [sc|] eqn:Esc; destruct Ss as [ss|] eqn:ESs; try contradiction.
      destruct Hrest as [Hp [Hcc Hcm]]. rewrite Hcc in Hcur.
      destruct (prim_adv sc ss L (b_cs st) n Hp HL Hcur) as [rs [sc' [Ea Hp']]].
      unfold opt_adv at 1. cbn [rbind fst snd]. unfold opt_adv at 1. rewrite Ea. cbn [rbind fst snd].
      rewrite En. cbn [rbind fst snd].
      eexists. split; [reflexivity|].
      unfold bool_ok, bool_ok3. cbn [b_init b_done b_mustnot b_cmn b_must b_should b_cm b_cs b_cur pick_current].
      rewrite ESm, ESs. split; [exact Hi|]. split; [exact Hd|]. split; [exact Hmn'|].
      split; [exact Hp'|]. split; [reflexivity|exact Hcm].
  Qed.

  Lemma bool_advance_spec : forall lf st L n, bool_ret st L -> 0 <= L -> L <= n -> (Z.to_nat N + 2 <= lf)%nat ->
    exists r st', bool_advance C cnext cadv cmin lf st n = Ok (r, st') /\ bool_exact_post n r st'.
  Proof.
    intros lf st L n [Hok Htr] HL0 HL Hlf. unfold bool_advance.
    pose proof Hok as [Hi [Hd _]]. rewrite Hd. unfold bool_initialise. rewrite Hi. cbn [rbind].
    assert (Htrail : match b_cur st with Some c => dm_num c < n | None => True end ->
              exists r st', (st2 <- bool_advance_if_trailing C cadv st n ;; bool_next C cnext cadv cmin lf st2) = Ok (r, st') /\
                            bool_exact_post n r st').
    { intros Hc. destruct (advance_if_trailing_spec st L n Hok Htr HL ltac:(lia) Hc) as [st2 [E2 Hok2]].
      rewrite E2. cbn [rbind]. apply bool_next_spec; [left; exact Hok2|lia|exact Hlf]. }
    destruct (b_cur st) as [c|] eqn:Ecur.
    - destruct (dm_num c <? n) eqn:E.
      + apply Z.ltb_lt in E. apply Htrail. exact E.
      + apply Z.ltb_ge in E. cbn [rbind].
        destruct (bool_next_spec lf st L (or_introl Hok) HL0 Hlf) as [r [st' [En Hpost]]].
        exists r, st'. split; [exact En|].
        destruct (cur_facts st L L L c Hok Ecur) as [[_ [_ Hleast]] _].
        assert (Hbelow : forall x, L <= x < n -> bool_S x = false).
        { intros x Hx. apply bool_S_prim. apply Hleast. lia. }
        destruct r as [rv|]; simpl in Hpost |- *.
        * destruct Hpost as [[A [B0 D]] Hret]. split; [|exact Hret]. split; [exact A|]. split.
          -- destruct (Z_lt_ge_dec (dm_num rv) n) as [Hlt|Hge]; [|lia]. rewrite Hbelow in A by lia. discriminate.
          -- intros x Hx. apply D. lia.
        * destruct Hpost as [Hnn Hdone]. split; [|exact Hdone]. intros x Hx. apply Hnn. lia.
    - apply Htrail. exact I.
  Qed.

  (* once the end was reported (done) every call reports it again *)
  Lemma bool_done_next : forall lf st, b_done st = true -> bool_next C cnext cadv cmin lf st = Ok (None, st).
  Proof. intros lf st H. unfold bool_next. rewrite H. reflexivity. Qed.

  Lemma bool_done_adv : forall lf st n, b_done st = true -> bool_advance C cnext cadv cmin lf st n = Ok (None, st).
  Proof. intros lf st n H. unfold bool_advance. rewrite H. reflexivity. Qed.

  Theorem bool_contract : forall lf, (Z.to_nat N + 2 <= lf)%nat ->
      (forall st lo, bool_inv st lo -> 0 <= lo ->
         exists r st', bool_next C cnext cadv cmin lf st = Ok (r, st') /\ bool_exact_post lo r st') /\
      (forall st lo n, bool_ret st lo -> 0 <= lo -> lo <= n ->
         exists r st', bool_advance C cnext cadv cmin lf st n = Ok (r, st') /\ bool_exact_post n r st') /\
      (forall st n, b_done st = true ->
         bool_next C cnext cadv cmin lf st = Ok (None, st) /\ bool_advance C cnext cadv cmin lf st n = Ok (None, st)).
  Proof.
    intros lf Hlf. split; [|split].
    - intros st lo Hinv Hlo. apply bool_next_spec; assumption.
    - intros st lo n Hret Hlo Hle. eapply bool_advance_spec; eauto.
    - intros st n Hd. split; [apply bool_done_next|apply bool_done_adv]; exact Hd.
  Qed.
End Bool.
