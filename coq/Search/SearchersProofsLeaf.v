(* Search/SearchersProofsLeaf.v — the snapshot-level postings iterator (index/postings.go
   Next / Advance over several segments with offsets) meets the iterator contract: Next returns
   the least remaining global number, Advance n (above the last number returned) jumps to the
   segment holding n and returns the least remaining number at or above n, crossing into later
   segments when that segment is exhausted; once the end was reported, Advance reports it again. *)
From Coq Require Import ZArith List Bool Lia Arith.
From Bluge Require Import Base.Res Search.Numeric Search.Postings Search.Searchers Search.SearchersProofsBase.
Import ListNotations.
Open Scope Z_scope.

(* ---------- lists of postings ---------- *)

Fixpoint psorted (l : list posting) : Prop :=
  match l with
  | a :: ((b :: _) as r) => p_num a < p_num b /\ psorted r
  | _ => True
  end.

Lemma psorted_tail a l : psorted (a :: l) -> psorted l.
Proof. destruct l; simpl; tauto. Qed.

Lemma psorted_head_min a l : psorted (a :: l) -> forall q, In q l -> p_num a < p_num q.
Proof.
  revert a. induction l as [| b l IH]; intros a H q Hq; [destruct Hq|].
  destruct H as [Hab Hs]. destruct Hq as [<-|Hq]; [exact Hab|].
  specialize (IH b Hs q Hq). lia.
Qed.

Lemma drop_below_In n l p : In p (drop_below n l) -> In p l.
Proof.
  induction l as [| a l IH]; simpl; [tauto|]. destruct (p_num a <? n); [intros H; right; auto|auto].
Qed.

Lemma drop_below_sorted n l : psorted l -> psorted (drop_below n l).
Proof.
  induction l as [| a l IH]; intros H; simpl; [exact I|].
  destruct (p_num a <? n); [apply IH; eapply psorted_tail; eauto|exact H].
Qed.

Lemma drop_below_ge n l : psorted l -> forall p, In p (drop_below n l) -> n <= p_num p.
Proof.
  induction l as [| a l IH]; intros Hs p Hp; simpl in Hp; [destruct Hp|].
  destruct (p_num a <? n) eqn:E.
  - apply IH; [eapply psorted_tail; eauto|exact Hp].
  - apply Z.ltb_ge in E. destruct Hp as [<-|Hp]; [exact E|].
    pose proof (psorted_head_min a l Hs p Hp). lia.
Qed.

Lemma drop_below_keeps n l p : In p l -> n <= p_num p -> In p (drop_below n l).
Proof.
  induction l as [| a l IH]; intros Hp Hn; simpl; [destruct Hp|].
  destruct (p_num a <? n) eqn:E.
  - apply Z.ltb_lt in E. destruct Hp as [<-|Hp]; [lia|auto].
  - exact Hp.
Qed.

(* ---------- nth_or / set_nth ---------- *)

Lemma nth_or_set_eq {A} (l : list A) i x d : (i < length l)%nat -> nth_or (set_nth l i x) i d = x.
Proof. unfold nth_or. revert i. induction l as [| a l IH]; intros [| i] H; simpl in *; try lia; auto. apply IH. lia. Qed.

Lemma nth_or_set_neq {A} (l : list A) i j x d : i <> j -> nth_or (set_nth l i x) j d = nth_or l j d.
Proof.
  unfold nth_or. revert i j. induction l as [| a l IH]; intros [| i] [| j] H; simpl; auto; try congruence.
Qed.

(* ---------- offsets ---------- *)

Section Leaf.
  Variable offs : list Z.     (* the snapshot's offsets *)
  Variable N : Z.             (* total number of documents *)

  Definition offx (k : nat) : Z := nth k offs N.

  (* 0 = offs[0] < offs[1] < ... < N, at least one segment *)
  Definition offs_ok : Prop :=
    (0 < length offs)%nat /\ offx O = 0 /\ forall k, (k < length offs)%nat -> offx k < offx (Datatypes.S k).

  Lemma offx_mono : offs_ok -> forall a b, (a <= b)%nat -> (b <= length offs)%nat -> offx a <= offx b.
  Proof.
    intros [_ [_ Hinc]] a b Hab Hb. induction Hab as [| b Hab IH]; [lia|].
    specialize (IH ltac:(lia)). specialize (Hinc b ltac:(lia)). lia.
  Qed.

  (* sort.Search(len(offsets), offsets[x] > n) = the number of leading offsets <= n *)
  Lemma count_le_spec_aux : forall (l : list Z) (base : nat) (n : Z),
    (forall k, (k < length l)%nat -> nth k l N = offx (base + k)) ->
    (base + length l = length offs)%nat -> offs_ok ->
    let c := count_le l n in
    (c <= length l)%nat /\ (forall k, (k < c)%nat -> offx (base + k) <= n) /\
    ((c < length l)%nat -> n < offx (base + c)).
  Proof.
    induction l as [| o l IH]; intros base n Hnth Hlen Hok; simpl.
    - split; [lia|]. split; [intros k Hk; lia|intros Hk; lia].
    - assert (Ho : o = offx base) by (specialize (Hnth O ltac:(simpl; lia)); simpl in Hnth; rewrite Nat.add_0_r in Hnth; exact Hnth).
      destruct (o <=? n) eqn:E.
      + apply Z.leb_le in E.
        destruct (IH (Datatypes.S base) n) as [A [B0 D]].
        { intros k Hk. specialize (Hnth (Datatypes.S k) ltac:(simpl; lia)). simpl in Hnth.
          replace (Datatypes.S base + k)%nat with (base + Datatypes.S k)%nat by lia. exact Hnth. }
        { simpl in Hlen. lia. }
        { exact Hok. }
        split; [simpl; lia|]. split.
        * intros [| k] Hk; [rewrite Nat.add_0_r; lia|].
          replace (base + Datatypes.S k)%nat with (Datatypes.S base + k)%nat by lia. apply B0. lia.
        * intros Hk. replace (base + Datatypes.S (count_le l n))%nat with (Datatypes.S base + count_le l n)%nat by lia.
          apply D. simpl in Hk. lia.
      + apply Z.leb_gt in E. split; [lia|]. split; [intros k Hk; lia|].
        intros _. rewrite Nat.add_0_r. lia.
  Qed.

  Lemma count_le_spec : forall n, offs_ok -> 0 <= n ->
    exists j, count_le offs n = Datatypes.S j /\ (j < length offs)%nat /\ offx j <= n /\
              ((Datatypes.S j < length offs)%nat -> n < offx (Datatypes.S j)).
  Proof.
    intros n Hok Hn.
    destruct (count_le_spec_aux offs O n) as [A [B0 D]]; [intros k Hk; reflexivity|reflexivity|exact Hok|].
    simpl in *. destruct (count_le offs n) as [| j] eqn:E.
    - exfalso. destruct Hok as [Hlen [H0 _]]. specialize (D Hlen). lia.
    - exists j. split; [reflexivity|]. split; [lia|]. split; [apply B0; lia|]. intros H. apply D. exact H.
  Qed.

  (* ---------- well-formed iterators ---------- *)

  Definition iters_ok (iters : list (list posting)) : Prop :=
    length iters = length offs /\
    (forall k, psorted (nth_or iters k [])) /\
    (forall k p, In p (nth_or iters k []) -> 0 <= p_num p /\ p_num p + offx k < offx (Datatypes.S k)).

  (* x is a remaining number of the iterator in a segment at or after s0 *)
  Definition visible (iters : list (list posting)) (s0 : nat) (x : Z) : Prop :=
    exists k p, (s0 <= k < length offs)%nat /\ In p (nth_or iters k []) /\ x = p_num p + offx k.

  Definition PInv (it : pit) (S : Z -> bool) (lo : Z) : Prop :=
    pi_offs it = offs /\ offs_ok /\ iters_ok (pi_iters it) /\ 0 <= lo /\
    (match pi_curr it with Some c => c < lo | None => True end) /\
    exists s0, (s0 <= pi_segoff it)%nat /\ (s0 < length offs)%nat /\ offx s0 <= lo /\
               (forall k, (s0 <= k < pi_segoff it)%nat -> nth_or (pi_iters it) k [] = []) /\
               (forall x, visible (pi_iters it) s0 x -> lo <= x) /\
               (forall x, lo <= x -> (S x = true <-> visible (pi_iters it) s0 x)).

  Definition PFin (it : pit) (S : Z -> bool) (lo : Z) : Prop :=
    pi_offs it = offs /\ offs_ok /\ iters_ok (pi_iters it) /\ 0 <= lo /\
    (match pi_curr it with Some c => c < lo | None => True end) /\
    none_from S lo /\
    exists s0, (s0 < length offs)%nat /\ offx s0 <= lo /\
               (forall k, (s0 <= k < length offs)%nat -> nth_or (pi_iters it) k [] = []).

  (* ---------- Next ---------- *)

  Lemma iters_ok_set : forall iters k l,
    iters_ok iters -> psorted l -> (forall p, In p l -> In p (nth_or iters k [])) ->
    iters_ok (set_nth iters k l).
  Proof.
    intros iters k l [Hlen [Hs Hr]] Hsl Hsub. split; [rewrite set_nth_length; exact Hlen|]. split.
    - intros j. destruct (Nat.eq_dec k j) as [<-|Hne].
      + destruct (lt_dec k (length iters)) as [Hlt|Hge]; [rewrite nth_or_set_eq by exact Hlt; exact Hsl|].
        unfold nth_or. rewrite nth_overflow by (rewrite set_nth_length; lia). exact I.
      + rewrite nth_or_set_neq by exact Hne. apply Hs.
    - intros j p Hp. destruct (Nat.eq_dec k j) as [<-|Hne].
      + destruct (lt_dec k (length iters)) as [Hlt|Hge].
        * rewrite nth_or_set_eq in Hp by exact Hlt. apply Hr. apply Hsub. exact Hp.
        * unfold nth_or in Hp. rewrite nth_overflow in Hp by (rewrite set_nth_length; lia). destruct Hp.
      + rewrite nth_or_set_neq in Hp by exact Hne. apply Hr. exact Hp.
  Qed.

  (* the scan of Next: the first non-empty iterator at or after segmentOffset *)
  Lemma pit_next_loop_spec : forall fuel it,
    (length (pi_iters it) - pi_segoff it < fuel)%nat ->
    (exists j p r, (pi_segoff it <= j < length (pi_iters it))%nat /\
                   nth_or (pi_iters it) j [] = p :: r /\
                   (forall k, (pi_segoff it <= k < j)%nat -> nth_or (pi_iters it) k [] = []) /\
                   pit_next_loop fuel it =
                   Ok (Some {| p_num := p_num p + nth_or (pi_offs it) j 0; p_locs := p_locs p |},
                       {| pi_segs := pi_segs it; pi_iters := set_nth (pi_iters it) j r; pi_offs := pi_offs it;
                          pi_segoff := j; pi_curr := Some (p_num p + nth_or (pi_offs it) j 0) |})) \/
    ((forall k, (pi_segoff it <= k < length (pi_iters it))%nat -> nth_or (pi_iters it) k [] = []) /\
     exists so, (length (pi_iters it) <= so)%nat /\ (pi_segoff it <= so)%nat /\
       pit_next_loop fuel it =
       Ok (None, {| pi_segs := pi_segs it; pi_iters := pi_iters it; pi_offs := pi_offs it;
                    pi_segoff := so; pi_curr := pi_curr it |})).
  Proof.
    induction fuel as [| fuel IH]; intros it Hfuel; [lia|].
    simpl. destruct (pi_segoff it <? length (pi_iters it))%nat eqn:E.
    - apply Nat.ltb_lt in E. destruct (nth_or (pi_iters it) (pi_segoff it) []) as [| p r] eqn:En.
      + destruct (IH {| pi_segs := pi_segs it; pi_iters := pi_iters it; pi_offs := pi_offs it;
                        pi_segoff := Datatypes.S (pi_segoff it); pi_curr := pi_curr it |}) as [H|H].
        { simpl. lia. }
        * left. destruct H as [j [p [r [Hj [Hn [He Hr]]]]]]. simpl in *. exists j, p, r.
          split; [lia|]. split; [exact Hn|]. split; [|exact Hr].
          intros k Hk. destruct (Nat.eq_dec k (pi_segoff it)) as [->|Hne]; [exact En|]. apply He. lia.
        * right. destruct H as [He [so [Hso1 [Hso2 Hr]]]]. simpl in *. split.
          -- intros k Hk. destruct (Nat.eq_dec k (pi_segoff it)) as [->|Hne]; [exact En|]. apply He. lia.
          -- exists so. split; [exact Hso1|]. split; [lia|exact Hr].
      + left. exists (pi_segoff it), p, r. split; [lia|]. split; [exact En|]. split; [intros k Hk; lia|reflexivity].
    - apply Nat.ltb_ge in E. right. split; [intros k Hk; lia|].
      exists (pi_segoff it). split; [exact E|]. split; [lia|]. destruct it; reflexivity.
  Qed.

  Lemma nth_or_offx : forall k, (k < length offs)%nat -> nth_or offs k 0 = offx k.
  Proof. intros k Hk. unfold nth_or, offx. apply nth_indep. exact Hk. Qed.

  Definition pit_post (S : Z -> bool) (lo : Z) (r : option posting) (it' : pit) : Prop :=
    match r with
    | Some p => least_from S lo (p_num p) /\ PInv it' S (p_num p + 1)
    | None => none_from S lo /\ PFin it' S lo
    end.

  (* the state after the scan found posting p (rest r) in segment j: everything from lo on is
     visible from segment s0, the segments [s0, j) are empty *)
  Lemma found_exact : forall (S : Z -> bool) lo iters s0 j p r segs,
    offs_ok -> iters_ok iters -> 0 <= lo ->
    (s0 <= j < length offs)%nat -> offx s0 <= lo ->
    nth_or iters j [] = p :: r ->
    (forall k, (s0 <= k < j)%nat -> nth_or iters k [] = []) ->
    (forall x, visible iters s0 x -> lo <= x) ->
    (forall x, lo <= x -> (S x = true <-> visible iters s0 x)) ->
    pit_post S lo (Some {| p_num := p_num p + offx j; p_locs := p_locs p |})
      {| pi_segs := segs; pi_iters := set_nth iters j r; pi_offs := offs; pi_segoff := j;
         pi_curr := Some (p_num p + offx j) |}.
  Proof.
    intros S lo iters s0 j p r segs Hoffs Hit Hlo Hj Hs0 Hn Hempty Hvis HM.
    pose proof Hit as [Hlen [Hsort Hrange]].
    assert (Hpin : In p (nth_or iters j [])) by (rewrite Hn; left; reflexivity).
    assert (Hmvis : visible iters s0 (p_num p + offx j)) by (exists j, p; split; [lia|split; [exact Hpin|reflexivity]]).
    assert (Hmlo : lo <= p_num p + offx j) by (apply Hvis; exact Hmvis).
    (* every visible number is at least the found one *)
    assert (Hmin : forall x, visible iters s0 x -> p_num p + offx j <= x).
    { intros x [k [q [Hk [Hq ->]]]].
      destruct (lt_eq_lt_dec k j) as [[Hlt|Heq]|Hgt].
      - rewrite Hempty in Hq by lia. destruct Hq.
      - subst k. rewrite Hn in Hq. destruct Hq as [<-|Hq]; [lia|].
        pose proof (psorted_head_min p r) as Hh. specialize (Hsort j). rewrite Hn in Hsort. specialize (Hh Hsort q Hq). lia.
      - destruct (Hrange j p Hpin) as [_ Hp2]. destruct (Hrange k q Hq) as [Hq1 _].
        pose proof (offx_mono Hoffs (Datatypes.S j) k ltac:(lia) ltac:(lia)). lia. }
    simpl. split.
    - split; [apply HM; [exact Hmlo|exact Hmvis]|]. split; [exact Hmlo|].
      intros x Hx. apply not_true_is_false. intros HS. apply HM in HS; [|lia]. apply Hmin in HS. lia.
    - assert (Hit' : iters_ok (set_nth iters j r)).
      { apply iters_ok_set; [exact Hit| |].
        - specialize (Hsort j). rewrite Hn in Hsort. eapply psorted_tail; eauto.
        - intros q Hq. rewrite Hn. right. exact Hq. }
      assert (Hjl : (j < length iters)%nat) by lia.
      unfold PInv. simpl. split; [reflexivity|]. split; [exact Hoffs|]. split; [exact Hit'|]. split; [lia|].
      split; [lia|]. exists j. split; [lia|]. split; [lia|].
      split; [destruct (Hrange j p Hpin); lia|]. split; [intros k Hk; lia|].
      assert (Hvis' : forall x, visible (set_nth iters j r) j x <-> visible iters s0 x /\ p_num p + offx j < x).
      { intros x. split.
        - intros [k [q [Hk [Hq ->]]]]. destruct (Nat.eq_dec j k) as [<-|Hne].
          + rewrite nth_or_set_eq in Hq by exact Hjl. split.
            * exists j, q. split; [lia|]. split; [rewrite Hn; right; exact Hq|reflexivity].
            * pose proof (psorted_head_min p r) as Hh. specialize (Hsort j). rewrite Hn in Hsort. specialize (Hh Hsort q Hq). lia.
          + rewrite nth_or_set_neq in Hq by exact Hne. split.
            * exists k, q. split; [lia|]. split; [exact Hq|reflexivity].
            * destruct (Hrange j p Hpin) as [_ Hp2]. destruct (Hrange k q Hq) as [Hq1 _].
              pose proof (offx_mono Hoffs (Datatypes.S j) k ltac:(lia) ltac:(lia)). lia.
        - intros [[k [q [Hk [Hq ->]]]] Hgt].
          destruct (lt_eq_lt_dec k j) as [[Hlt|Heq]|Hgt'].
          + rewrite Hempty in Hq by lia. destruct Hq.
          + subst k. rewrite Hn in Hq. destruct Hq as [<-|Hq]; [lia|].
            exists j, q. split; [lia|]. split; [rewrite nth_or_set_eq by exact Hjl; exact Hq|reflexivity].
          + exists k, q. split; [lia|]. split; [rewrite nth_or_set_neq by lia; exact Hq|reflexivity]. }
      split.
      + intros x Hx. apply Hvis' in Hx. lia.
      + intros x Hx. rewrite Hvis'. rewrite (HM x) by lia. split; [intros H; split; [exact H|lia]|intros [H _]; exact H].
  Qed.

  Lemma pit_next_exact : forall it S lo, PInv it S lo ->
    exists r it', pit_next it = Ok (r, it') /\ pit_post S lo r it'.
  Proof.
    intros it S lo [Hoffs [Hok [Hit [Hlo [Hcurr [s0 [Hs0 [Hs0l [Hoff0 [Hempty [Hvis HM]]]]]]]]]]].
    pose proof Hit as [Hlen _].
    unfold pit_next.
    destruct (pit_next_loop_spec (Datatypes.S (length (pi_iters it))) it ltac:(lia))
      as [[j [p [r [Hj [Hn [He E]]]]]]|[He [so [Hso1 [Hso2 E]]]]].
    - rewrite E. eexists _, _. split; [reflexivity|].
      rewrite Hoffs, nth_or_offx by lia.
      apply (found_exact S lo (pi_iters it) s0 j p r (pi_segs it)); auto; try lia.
      intros k Hk. destruct (lt_dec k (pi_segoff it)); [apply Hempty; lia|apply He; lia].
    - rewrite E. eexists _, _. split; [reflexivity|]. simpl.
      assert (Hall : forall k, (s0 <= k < length offs)%nat -> nth_or (pi_iters it) k [] = []).
      { intros k Hk. destruct (lt_dec k (pi_segoff it)); [apply Hempty; lia|apply He; lia]. }
      assert (Hnone : none_from S lo).
      { intros x Hx. apply not_true_is_false. intros HS. apply HM in HS; [|exact Hx].
        destruct HS as [k [q [Hk [Hq _]]]]. rewrite Hall in Hq by lia. destruct Hq. }
      split; [exact Hnone|].
      unfold PFin. simpl. split; [exact Hoffs|]. split; [exact Hok|]. split; [exact Hit|]. split; [exact Hlo|].
      split; [exact Hcurr|]. split; [exact Hnone|]. exists s0. split; [exact Hs0l|]. split; [exact Hoff0|exact Hall].
  Qed.

  Lemma set_nth_twice {A} (l : list A) i x y : set_nth (set_nth l i x) i y = set_nth l i y.
  Proof. revert i. induction l as [| a l IH]; intros [| i]; simpl; auto. f_equal. apply IH. Qed.

  (* the segment Advance jumps to lies at or after s0 *)
  Lemma seg_ge : forall s0 j n, offs_ok -> (s0 < length offs)%nat -> offx s0 <= n ->
    ((Datatypes.S j < length offs)%nat -> n < offx (Datatypes.S j)) -> (j < length offs)%nat -> (s0 <= j)%nat.
  Proof.
    intros s0 j n Hok Hs0 Hle Hlt Hj. destruct (le_lt_dec s0 j) as [H|H]; [exact H|exfalso].
    pose proof (offx_mono Hok (Datatypes.S j) s0 ltac:(lia) ltac:(lia)). specialize (Hlt ltac:(lia)). lia.
  Qed.

  Lemma pit_advance_exact : forall it S lo n, PInv it S lo -> lo <= n ->
    exists r it', pit_advance it n = Ok (r, it') /\ pit_post S n r it'.
  Proof.
    intros it S lo n HI Hn.
    pose proof HI as [Hoffs [Hok [Hit [Hlo [Hcurr [s0 [Hs0 [Hs0l [Hoff0 [Hempty [Hvis HM]]]]]]]]]]].
    pose proof Hit as [Hlen [Hsort Hrange]].
    unfold pit_advance.
    assert (Hnorestart : match pi_curr it with
                         | Some c => if n <=? c then {| pi_segs := pi_segs it; pi_iters := pi_segs it; pi_offs := pi_offs it;
                                                        pi_segoff := O; pi_curr := None |} else it
                         | None => it end = it).
    { destruct (pi_curr it) as [c|]; [|reflexivity]. assert (n <=? c = false) by (apply Z.leb_gt; lia). rewrite H. reflexivity. }
    rewrite Hnorestart, Hoffs.
    destruct (count_le_spec n Hok ltac:(lia)) as [j [Ec [Hj [Hjle Hjlt]]]]. rewrite Ec.
    assert (Hlj : (length (pi_iters it) <=? j)%nat = false) by (apply Nat.leb_gt; lia). rewrite Hlj.
    rewrite nth_or_offx by exact Hj.
    pose proof (seg_ge s0 j n Hok Hs0l ltac:(lia) Hjlt Hj) as Hs0j.
    (* what is visible from segment j once the entries below n are dropped *)
    set (dl := drop_below (n - offx j) (nth_or (pi_iters it) j [])).
    set (iters2 := set_nth (pi_iters it) j dl).
    assert (Hjl : (j < length (pi_iters it))%nat) by lia.
    assert (Hit2 : iters_ok iters2).
    { apply iters_ok_set; [exact Hit|apply drop_below_sorted; apply Hsort|]. intros q Hq. eapply drop_below_In; eauto. }
    assert (Hvis2 : forall x, visible iters2 j x <-> visible (pi_iters it) s0 x /\ n <= x).
    { intros x. split.
      - intros [k [q [Hk [Hq ->]]]]. destruct (Nat.eq_dec j k) as [<-|Hne].
        + unfold iters2 in Hq. rewrite nth_or_set_eq in Hq by exact Hjl. split.
          * exists j, q. split; [lia|]. split; [eapply drop_below_In; eauto|reflexivity].
          * pose proof (drop_below_ge _ _ (Hsort j) q Hq). lia.
        + unfold iters2 in Hq. rewrite nth_or_set_neq in Hq by exact Hne. split.
          * exists k, q. split; [lia|]. split; [exact Hq|reflexivity].
          * destruct (Hrange k q Hq) as [Hq1 _]. specialize (Hjlt ltac:(lia)).
            pose proof (offx_mono Hok (Datatypes.S j) k ltac:(lia) ltac:(lia)). lia.
      - intros [[k [q [Hk [Hq ->]]]] Hge].
        destruct (lt_eq_lt_dec k j) as [[Hlt|Heq]|Hgt].
        + exfalso. destruct (Hrange k q Hq) as [_ Hq2].
          pose proof (offx_mono Hok (Datatypes.S k) j ltac:(lia) ltac:(lia)). lia.
        + subst k. exists j, q. split; [lia|]. split; [|reflexivity].
          unfold iters2. rewrite nth_or_set_eq by exact Hjl. apply drop_below_keeps; [exact Hq|lia].
        + exists k, q. split; [lia|]. split; [|reflexivity]. unfold iters2. rewrite nth_or_set_neq by lia. exact Hq. }
    assert (HM2 : forall x, n <= x -> (S x = true <-> visible iters2 j x)).
    { intros x Hx. rewrite Hvis2, (HM x) by lia. split; [intros H; split; [exact H|exact Hx]|intros [H _]; exact H]. }
    assert (Hvge : forall x, visible iters2 j x -> n <= x) by (intros x Hx; apply Hvis2 in Hx; lia).
    fold dl. destruct dl as [| p r] eqn:Edl.
    - (* the target segment holds nothing at or above n: Next from there *)
      apply (pit_next_exact {| pi_segs := pi_segs it; pi_iters := set_nth (pi_iters it) j []; pi_offs := offs;
                               pi_segoff := j; pi_curr := pi_curr it |} S n).
      unfold PInv. simpl. split; [reflexivity|]. split; [exact Hok|]. split; [exact Hit2|]. split; [lia|].
      split; [destruct (pi_curr it); [lia|exact I]|].
      exists j. split; [lia|]. split; [exact Hj|]. split; [exact Hjle|]. split; [intros k Hk; lia|].
      split; [exact Hvge|exact HM2].
    - eexists _, _. split; [reflexivity|].
      replace (set_nth (pi_iters it) j r) with (set_nth iters2 j r) by (unfold iters2; apply set_nth_twice).
      apply (found_exact S n iters2 j j p r (pi_segs it)); auto; try lia;
        try (intros k Hk; lia).
      unfold iters2. rewrite nth_or_set_eq by exact Hjl. reflexivity.
  Qed.

  Lemma pit_fin_advance : forall it S lo n, PFin it S lo -> lo <= n ->
    exists it', pit_advance it n = Ok (None, it') /\ PFin it' S lo.
  Proof.
    intros it S lo n [Hoffs [Hok [Hit [Hlo [Hcurr [Hnone [s0 [Hs0l [Hoff0 Hall]]]]]]]]] Hn.
    pose proof Hit as [Hlen [Hsort Hrange]].
    unfold pit_advance.
    assert (Hnorestart : match pi_curr it with
                         | Some c => if n <=? c then {| pi_segs := pi_segs it; pi_iters := pi_segs it; pi_offs := pi_offs it;
                                                        pi_segoff := O; pi_curr := None |} else it
                         | None => it end = it).
    { destruct (pi_curr it) as [c|]; [|reflexivity]. assert (n <=? c = false) by (apply Z.leb_gt; lia). rewrite H. reflexivity. }
    rewrite Hnorestart, Hoffs.
    destruct (count_le_spec n Hok ltac:(lia)) as [j [Ec [Hj [Hjle Hjlt]]]]. rewrite Ec.
    assert (Hlj : (length (pi_iters it) <=? j)%nat = false) by (apply Nat.leb_gt; lia). rewrite Hlj.
    pose proof (seg_ge s0 j n Hok Hs0l ltac:(lia) Hjlt Hj) as Hs0j.
    rewrite (Hall j) by lia. simpl drop_below. cbv iota.
    assert (Hit2 : iters_ok (set_nth (pi_iters it) j [])).
    { apply iters_ok_set; [exact Hit|exact I|intros q []]. }
    assert (Hall2 : forall k, (s0 <= k < length offs)%nat -> nth_or (set_nth (pi_iters it) j []) k [] = []).
    { intros k Hk. destruct (Nat.eq_dec j k) as [<-|Hne]; [apply nth_or_set_eq; lia|].
      rewrite nth_or_set_neq by exact Hne. apply Hall. exact Hk. }
    unfold pit_next.
    destruct (pit_next_loop_spec (Datatypes.S (length (pi_iters {| pi_segs := pi_segs it; pi_iters := set_nth (pi_iters it) j [];
                    pi_offs := offs; pi_segoff := j; pi_curr := pi_curr it |})))
                {| pi_segs := pi_segs it; pi_iters := set_nth (pi_iters it) j []; pi_offs := offs; pi_segoff := j; pi_curr := pi_curr it |}
                ltac:(simpl; lia))
      as [[k [p [r [Hk [Hnk _]]]]]|[He [so [Hso1 [Hso2 E]]]]]; simpl in *.
    - rewrite set_nth_length in Hk. rewrite Hall2 in Hnk by lia. discriminate.
    - rewrite E. eexists. split; [reflexivity|].
      unfold PFin. simpl. split; [reflexivity|]. split; [exact Hok|]. split; [exact Hit2|]. split; [exact Hlo|].
      split; [exact Hcurr|]. split; [exact Hnone|]. exists s0. split; [exact Hs0l|]. split; [exact Hoff0|exact Hall2].
  Qed.
End Leaf.
