(* Search/HighlightProofs.v — proofs about the highlighter model (Search/Highlight.v). *)
From Coq Require Import ZArith List Bool Lia Arith Permutation Sorted.
From Coq Require Import ZifyBool.
From Bluge Require Import Base.Res Base.UTF8 Base.UTF8Proofs Base.GoHeap Gen.ParamsHighlight Search.Highlight.
Import ListNotations.
Open Scope Z_scope.

(* ------------------------------------------------------------------ slices *)

Lemma zlen_nonneg {A} (p : list A) : 0 <= zlen p.
Proof. unfold zlen. lia. Qed.

Lemma slice_ok p a b : 0 <= a -> a <= b -> b <= zlen p ->
  slice p a b = Ok (firstn (Z.to_nat (b - a)) (skipn (Z.to_nat a) p)).
Proof. intros H1 H2 H3. unfold slice. replace ((0 <=? a) && (a <=? b) && (b <=? zlen p)) with true by lia. reflexivity. Qed.

Lemma slice_inv p a b v : slice p a b = Ok v ->
  0 <= a /\ a <= b /\ b <= zlen p /\ v = firstn (Z.to_nat (b - a)) (skipn (Z.to_nat a) p).
Proof.
  unfold slice. destruct ((0 <=? a) && (a <=? b) && (b <=? zlen p)) eqn:E; intros H; inversion H.
  repeat split; lia.
Qed.

Lemma slice_to p b : 0 <= b -> b <= zlen p -> slice p 0 b = Ok (firstn (Z.to_nat b) p).
Proof. intros. rewrite slice_ok by lia. rewrite Z.sub_0_r. reflexivity. Qed.

Lemma slice_from p a : 0 <= a -> a <= zlen p -> slice p a (zlen p) = Ok (skipn (Z.to_nat a) p).
Proof.
  intros. rewrite slice_ok by lia. f_equal. apply firstn_all2. rewrite skipn_length. unfold zlen in *. lia.
Qed.

Lemma bad_rune_good d : bad_rune d = false <-> good d.
Proof.
  unfold bad_rune, good. destruct d as [r s]. simpl. split.
  - intros H [H1 H2]. subst. rewrite Z.eqb_refl in H. simpl in H. apply Nat.leb_gt in H. lia.
  - intros H. destruct (r =? rune_error) eqn:E; simpl; [|reflexivity].
    apply Nat.leb_gt. apply Z.eqb_eq in E. destruct (Nat.le_gt_cases s 1); [exfalso; apply H; auto|lia].
Qed.

(* ------------------------------------------------------------------ chains of good runes *)

(* orig[a:b] is exactly k runes, each decoded forward as a good rune (not (RuneError, <=1)) *)
Inductive fchain (orig : list Z) : Z -> Z -> nat -> Prop :=
| fc_nil a : 0 <= a <= zlen orig -> fchain orig a a 0
| fc_step a b k :
    0 <= a < zlen orig ->
    good (decode_rune (skipn (Z.to_nat a) orig)) ->
    fchain orig (a + Z.of_nat (snd (decode_rune (skipn (Z.to_nat a) orig)))) b k ->
    fchain orig a b (S k).

Section Chain.
  Variable orig : list Z.
  Let n := zlen orig.

  Lemma fchain_range a b k : fchain orig a b k -> 0 <= a /\ a <= b /\ b <= zlen orig.
  Proof.
    induction 1 as [a Ha|a b k Ha Hg Hc IH]; [lia|].
    pose proof (decode_rune_size_pos (skipn (Z.to_nat a) orig)) as Hp.
    assert (Hne : skipn (Z.to_nat a) orig <> []).
    { intros E. apply (f_equal (@length Z)) in E. rewrite skipn_length in E. unfold zlen in Ha. simpl in E. lia. }
    specialize (Hp Hne). lia.
  Qed.

  Lemma fchain_lt a b k : fchain orig a b (S k) -> a < b.
  Proof.
    intros H. inversion H as [|a' b' k' Ha Hg Hc]; subst.
    pose proof (decode_rune_size_pos (skipn (Z.to_nat a) orig)) as Hp.
    assert (Hne : skipn (Z.to_nat a) orig <> []).
    { intros E. apply (f_equal (@length Z)) in E. rewrite skipn_length in E. unfold zlen in Ha. simpl in E. lia. }
    specialize (Hp Hne). apply fchain_range in Hc. lia.
  Qed.

  Lemma fchain_zero a b : fchain orig a b 0 -> a = b.
  Proof. intros H. inversion H; reflexivity. Qed.

  Lemma fchain_app a b c j k : fchain orig a b j -> fchain orig b c k -> fchain orig a c (j + k).
  Proof. induction 1 as [a Ha|a b j Ha Hg Hc IH]; intros H2; simpl; [exact H2|]. apply fc_step; auto. Qed.

  Lemma fchain_snoc a b k :
    fchain orig a b k -> b < zlen orig -> good (decode_rune (skipn (Z.to_nat b) orig)) ->
    fchain orig a (b + Z.of_nat (snd (decode_rune (skipn (Z.to_nat b) orig)))) (S k).
  Proof.
    intros H Hb Hg. replace (S k) with (k + 1)%nat by lia. eapply fchain_app; [exact H|].
    pose proof (fchain_range _ _ _ H) as Hr.
    apply fc_step; [lia|exact Hg|]. apply fc_nil.
    pose proof (decode_rune_size_le (skipn (Z.to_nat b) orig)) as Hl. rewrite skipn_length in Hl.
    unfold zlen in *. lia.
  Qed.

  (* forward decoding is deterministic: two chains from the same start are prefixes of one another *)
  Lemma fchain_prefix a b c j k : fchain orig a b j -> fchain orig a c k -> (j <= k)%nat ->
    fchain orig b c (k - j).
  Proof.
    intros H. revert c k. induction H as [a Ha|a b j Ha Hg Hc IH]; intros c k H2 Hjk.
    - rewrite Nat.sub_0_r. exact H2.
    - destruct k as [|k]; [lia|]. inversion H2 as [|a' c' k' Ha' Hg' Hc']; subst.
      simpl. apply IH; [exact Hc'|lia].
  Qed.

  Lemma fchain_det a b c k : fchain orig a b k -> fchain orig a c k -> b = c.
  Proof.
    intros H1 H2. pose proof (fchain_prefix _ _ _ _ _ H1 H2 (le_n k)) as H. rewrite Nat.sub_diag in H.
    apply fchain_zero in H. exact H.
  Qed.

  Lemma fchain_mono a b c j k : fchain orig a b j -> fchain orig a c k -> (j <= k)%nat -> b <= c.
  Proof. intros H1 H2 H. pose proof (fchain_prefix _ _ _ _ _ H1 H2 H) as Hp. apply fchain_range in Hp. lia. Qed.

  (* list facts about prefixes *)
  Lemma firstn_skipn_split (b : Z) (a : Z) : 0 <= a -> a <= b -> b <= zlen orig ->
    firstn (Z.to_nat b) orig = firstn (Z.to_nat a) orig ++ firstn (Z.to_nat (b - a)) (skipn (Z.to_nat a) orig).
  Proof.
    intros Ha Hab Hb. rewrite <- (firstn_skipn (Z.to_nat a) orig) at 1.
    rewrite firstn_app. rewrite firstn_length. unfold zlen in Hb.
    replace (Nat.min (Z.to_nat a) (length orig)) with (Z.to_nat a) by lia.
    rewrite firstn_firstn. replace (Nat.min (Z.to_nat b) (Z.to_nat a)) with (Z.to_nat a) by lia.
    f_equal. f_equal. lia.
  Qed.

  (* a forward step read backwards: DecodeLastRune of the prefix that ends after a good rune *)
  Lemma back_of_step a :
    0 <= a < zlen orig ->
    good (decode_rune (skipn (Z.to_nat a) orig)) ->
    decode_last_rune (firstn (Z.to_nat (a + Z.of_nat (snd (decode_rune (skipn (Z.to_nat a) orig))))) orig)
    = decode_rune (skipn (Z.to_nat a) orig).
  Proof.
    intros Ha Hg. set (p := skipn (Z.to_nat a) orig) in *. set (z := snd (decode_rune p)).
    pose proof (decode_rune_size_le p) as Hl. unfold p in Hl at 2. rewrite skipn_length in Hl. fold z in Hl.
    rewrite (firstn_skipn_split (a + Z.of_nat z) a) by (unfold zlen in *; lia).
    replace (Z.to_nat (a + Z.of_nat z - a)) with z by lia. fold p.
    assert (Hlen : length (firstn z p) = z).
    { rewrite firstn_length. unfold p. rewrite skipn_length. lia. }
    pose proof (decode_rune_firstn p [] Hg) as Hf. rewrite app_nil_r in Hf. fold z in Hf.
    rewrite decode_last_rune_app.
    - exact Hf.
    - apply decode_rune_shape. exact Hg.
    - rewrite Hf. exact Hg.
    - rewrite Hf. fold z. symmetry. exact Hlen.
  Qed.

  (* stepping back from the end of a non-empty chain stays on the chain *)
  Lemma fchain_last a b k :
    fchain orig a b (S k) ->
    good (decode_last_rune (firstn (Z.to_nat b) orig)) /\
    fchain orig a (b - Z.of_nat (snd (decode_last_rune (firstn (Z.to_nat b) orig)))) k.
  Proof.
    revert a. induction k as [|k IH]; intros a H.
    - inversion H as [|a' b' k' Ha Hg Hc]; subst. apply fchain_zero in Hc. subst b.
      rewrite back_of_step by assumption. split; [exact Hg|].
      replace (a + _ - _) with a by lia. apply fc_nil. lia.
    - inversion H as [|a' b' k' Ha Hg Hc]; subst. destruct (IH _ Hc) as [Hg' Hc']. split; [exact Hg'|].
      apply fc_step; assumption.
  Qed.

  (* a backward step from any position 0 < s <= len whose DecodeLastRune is good is a forward step *)
  Lemma step_of_back s :
    0 < s <= zlen orig ->
    good (decode_last_rune (firstn (Z.to_nat s) orig)) ->
    let z := Z.of_nat (snd (decode_last_rune (firstn (Z.to_nat s) orig))) in
    0 <= s - z /\ z >= 1 /\ fchain orig (s - z) s 1.
  Proof.
    intros Hs Hg z. set (p := firstn (Z.to_nat s) orig) in *.
    assert (Hlp : length p = Z.to_nat s) by (unfold p; rewrite firstn_length; unfold zlen in Hs; lia).
    assert (Hne : p <> []) by (intros E; rewrite E in Hlp; simpl in Hlp; lia).
    destruct (decode_last_rune_size p Hne) as [Hz1 Hz2].
    destruct (decode_last_rune_sound p Hg) as [_ Hd].
    set (zn := snd (decode_last_rune p)) in *.
    assert (Hz : z = Z.of_nat zn) by reflexivity.
    split; [lia|]. split; [lia|].
    (* skipn (s-z) orig = skipn (len p - zn) p ++ skipn s orig *)
    assert (Hsplit : skipn (Z.to_nat (s - z)) orig = skipn (length p - zn) p ++ skipn (Z.to_nat s) orig).
    { rewrite <- (firstn_skipn (Z.to_nat s) orig) at 1. fold p.
      rewrite skipn_app. rewrite Hlp.
      replace (Z.to_nat (s - z)) with (Z.to_nat s - zn)%nat by lia.
      replace (Z.to_nat s - zn - Z.to_nat s)%nat with 0%nat by lia. reflexivity. }
    set (e := skipn (length p - zn) p) in *.
    assert (Hle : length e = zn) by (unfold e; rewrite skipn_length; lia).
    assert (Hde : decode_rune (skipn (Z.to_nat (s - z)) orig) = decode_last_rune p).
    { rewrite Hsplit. rewrite decode_rune_app; [exact Hd|rewrite Hd; exact Hg|rewrite Hd; fold zn; lia]. }
    apply fc_step; [lia|rewrite Hde; exact Hg|]. rewrite Hde. fold zn. replace (s - z + Z.of_nat zn) with s by lia.
    apply fc_nil. lia.
  Qed.
End Chain.

Lemma slice_from_n p a n : n = zlen p -> 0 <= a <= n -> slice p a n = Ok (skipn (Z.to_nat a) p).
Proof. intros -> H. apply slice_from; lia. Qed.

(* ------------------------------------------------------------------ the fragmenter's loops *)

Section Frag.
  Variable orig : list Z.
  Variable fs : Z.
  Variable n : Z.
  Hypothesis Hn : n = zlen orig.

  Lemma skipn_nonempty a : 0 <= a < n -> skipn (Z.to_nat a) orig <> [].
  Proof.
    intros Ha E. apply (f_equal (@length Z)) in E. rewrite skipn_length in E. unfold zlen in Hn. simpl in E. lia.
  Qed.

  Lemma fwd_loop_spec fuel : forall e u,
    0 <= e <= n -> (Z.to_nat (n - e) < fuel)%nat ->
    fwd_loop orig n fs fuel e u = Ok None \/
    exists e' j, fwd_loop orig n fs fuel e u = Ok (Some (e', u + Z.of_nat j)) /\
                 fchain orig e e' j /\ (e' = n \/ fs <= u + Z.of_nat j).
  Proof.
    induction fuel as [|fuel IH]; intros e u He Hf; [lia|].
    cbn [fwd_loop]. destruct ((e <? n) && (u <? fs)) eqn:Ec.
    - assert (Hen : e < n) by lia.
      rewrite (slice_from_n orig e n Hn) by lia. cbn [rbind].
      set (d := decode_rune (skipn (Z.to_nat e) orig)).
      destruct (bad_rune d) eqn:Eb; [left; reflexivity|].
      apply bad_rune_good in Eb.
      pose proof (decode_rune_size_pos _ (skipn_nonempty e (conj (proj1 He) Hen))) as Hp. fold d in Hp.
      pose proof (decode_rune_size_le (skipn (Z.to_nat e) orig)) as Hl. fold d in Hl. rewrite skipn_length in Hl.
      assert (Hr : 0 <= e + Z.of_nat (snd d) <= n) by (unfold zlen in *; lia).
      destruct (IH (e + Z.of_nat (snd d)) (u + 1) Hr ltac:(lia)) as [H|[e' [j [H [Hc Hs]]]]].
      + left. exact H.
      + right. exists e', (S j). split; [rewrite H; f_equal; f_equal; f_equal; lia|]. split.
        * apply fc_step; [lia|exact Eb|exact Hc].
        * destruct Hs as [Hs|Hs]; [left; exact Hs|right; lia].
    - right. exists e, 0%nat. split; [f_equal; f_equal; f_equal; lia|]. split; [apply fc_nil; lia|]. lia.
  Qed.

  Lemma back_loop_spec fuel mb : forall s u,
    0 <= s <= n -> (Z.to_nat s < fuel)%nat ->
    back_loop orig n fs fuel mb s u = Ok None \/
    exists s' j, back_loop orig n fs fuel mb s u = Ok (Some (s', u + Z.of_nat j)) /\
                 fchain orig s' s j /\ (j = 0%nat \/ mb <= s').
  Proof.
    induction fuel as [|fuel IH]; intros s u Hs Hf; [lia|].
    cbn [back_loop]. destruct ((0 <? s) && (u <? fs)) eqn:Ec.
    - replace (n <? s) with false by lia.
      rewrite slice_to by lia. cbn [rbind].
      set (d := decode_last_rune (firstn (Z.to_nat s) orig)).
      destruct (bad_rune d) eqn:Eb; [left; reflexivity|].
      apply bad_rune_good in Eb.
      destruct (step_of_back orig s ltac:(lia) Eb) as [H0 [H1 Hc1]]. fold d in H0, H1, Hc1.
      destruct (mb <=? s - Z.of_nat (snd d)) eqn:Em.
      + destruct (IH (s - Z.of_nat (snd d)) (u + 1) ltac:(lia) ltac:(lia)) as [H|[s' [j [H [Hc Hm]]]]].
        * left. exact H.
        * right. exists s', (S j). split; [rewrite H; f_equal; f_equal; f_equal; lia|]. split.
          -- replace (S j) with (j + 1)%nat by lia. eapply fchain_app; eassumption.
          -- right. destruct Hm as [Hm|Hm]; [subst j; apply fchain_zero in Hc; lia|exact Hm].
      + right. exists s, 0%nat. split; [f_equal; f_equal; f_equal; lia|]. split; [apply fc_nil; lia|left; reflexivity].
    - right. exists s, 0%nat. split; [f_equal; f_equal; f_equal; lia|]. split; [apply fc_nil; lia|left; reflexivity].
  Qed.

  Lemma minend_loop_range e : forall l m0, 0 <= m0 <= e -> 0 <= minend_loop n e m0 l <= e.
  Proof.
    induction l as [|t r IH]; intros m0 Hm; cbn [minend_loop]; [exact Hm|].
    destruct (negb (in_bounds t n)) eqn:Eb; [apply IH; exact Hm|].
    destruct (e <? tl_end t) eqn:Ee; [exact Hm|].
    apply IH. unfold in_bounds in Eb. lia.
  Qed.

  Lemma centre_loop_spec k : forall s e j,
    fchain orig s e j ->
    centre_loop orig k s e = Ok None \/
    exists s' e', centre_loop orig k s e = Ok (Some (s', e')) /\ fchain orig s' e' j /\ s' <= s /\ e' <= e.
  Proof.
    induction k as [|k IH]; intros s e j Hc.
    - right. exists s, e. split; [reflexivity|]. split; [exact Hc|lia].
    - pose proof (fchain_range _ _ _ _ Hc) as Hr. cbn [centre_loop].
      rewrite slice_to by lia. cbn [rbind].
      set (d := decode_last_rune (firstn (Z.to_nat s) orig)).
      destruct (bad_rune d) eqn:Eb; [left; reflexivity|].
      apply bad_rune_good in Eb.
      assert (Hs0 : 0 < s).
      { destruct (Z.eq_dec s 0) as [E|E]; [|lia]. exfalso. unfold d in Eb. rewrite E in Eb. simpl in Eb.
        apply Eb. split; [reflexivity|simpl; lia]. }
      destruct (step_of_back orig s ltac:(lia) Eb) as [H0 [H1 Hc1]]. fold d in H0, H1, Hc1.
      rewrite slice_to by lia. cbn [rbind].
      assert (Hc2 : fchain orig (s - Z.of_nat (snd d)) e (S j)).
      { replace (S j) with (1 + j)%nat by lia. eapply fchain_app; eassumption. }
      destruct (fchain_last orig _ _ _ Hc2) as [Hg2 Hc3].
      set (d2 := decode_last_rune (firstn (Z.to_nat e) orig)) in *.
      apply bad_rune_good in Hg2. rewrite Hg2.
      destruct (IH _ _ _ Hc3) as [H|[s' [e' [H [Hc4 [Hl1 Hl2]]]]]]; [left; exact H|].
      right. exists s', e'. split; [exact H|]. split; [exact Hc4|]. lia.
  Qed.

  Definition on_chain (f : frag) : Prop := exists j, fchain orig (f_start f) (f_end f) j.

  Lemma one_fragment_total mb t suffix :
    0 <= mb -> in_bounds t n = true ->
    one_fragment orig n fs mb t suffix = Ok None \/
    exists f, one_fragment orig n fs mb t suffix = Ok (Some f) /\ on_chain f /\ f_score f = 0.
  Proof.
    intros Hmb Hb. unfold in_bounds in Hb. unfold one_fragment, loop_fuel.
    destruct (fwd_loop_spec (S (length orig)) (tl_start t) 0 ltac:(lia) ltac:(unfold zlen in *; lia))
      as [H|[e [j [H [Hc Hstop]]]]]; rewrite H; cbn [rbind]; [left; reflexivity|].
    pose proof (fchain_range _ _ _ _ Hc) as Hr.
    destruct (back_loop_spec (S (length orig)) mb (tl_start t) (0 + Z.of_nat j) ltac:(lia) ltac:(unfold zlen in *; lia))
      as [H2|[s [j2 [H2 [Hc2 Hm]]]]]; rewrite H2; cbn [rbind]; [left; reflexivity|].
    pose proof (fchain_range _ _ _ _ Hc2) as Hr2.
    pose proof (minend_loop_range e suffix e ltac:(lia)) as Hme.
    rewrite slice_ok by lia. cbn [rbind].
    assert (Hrs : exists v, (if mb <=? s then q <- slice orig mb s;; Ok (Z.of_nat (rune_count q)) else Ok 0) = Ok v).
    { destruct (mb <=? s) eqn:E; [|eexists; reflexivity]. rewrite slice_ok by lia. cbn [rbind]. eexists; reflexivity. }
    destruct Hrs as [v Hv]. rewrite Hv. cbn [rbind].
    match goal with |- context [centre_loop orig ?k s e] => set (kk := k) end.
    assert (Hc3 : fchain orig s e (j2 + j)) by (eapply fchain_app; eassumption).
    destruct (centre_loop_spec kk s e _ Hc3) as [H3|[s' [e' [H3 [Hc4 _]]]]]; rewrite H3; cbn [rbind]; [left; reflexivity|].
    right. eexists. split; [reflexivity|]. split; [|reflexivity]. exists (j2 + j)%nat. exact Hc4.
  Qed.

  Lemma frag_loop_total : forall l mb, 0 <= mb ->
    exists frs, frag_loop orig n fs mb l = Ok frs /\ Forall (fun f => on_chain f /\ f_score f = 0) frs.
  Proof.
    induction l as [|t rest IH]; intros mb Hmb; cbn [frag_loop].
    - exists []. split; [reflexivity|constructor].
    - destruct (negb (in_bounds t n)) eqn:Eb; [apply IH; exact Hmb|].
      assert (Hb : in_bounds t n = true) by (destruct (in_bounds t n); simpl in Eb; congruence).
      destruct (one_fragment_total mb t (t :: rest) Hmb Hb) as [H|[f [H [Hf Hs]]]]; rewrite H; cbn [rbind].
      + apply IH; exact Hmb.
      + destruct (IH (tl_end t) ltac:(unfold in_bounds in Hb; lia)) as [frs [Hfr Hall]].
        rewrite Hfr. cbn [rbind]. exists (f :: frs). split; [reflexivity|]. constructor; auto.
  Qed.

  Definition frag_ok (f : frag) : Prop := 0 <= f_start f /\ f_start f <= f_end f /\ f_end f <= n.

  Lemma on_chain_ok f : on_chain f -> frag_ok f.
  Proof. intros [j H]. apply fchain_range in H. unfold frag_ok. lia. Qed.

  Lemma fragment_total ot : 0 <= fs ->
    exists frs, fragment orig n fs ot = Ok frs /\ Forall frag_ok frs /\
                (ot <> [] -> Forall on_chain frs).
  Proof.
    intros Hfs. unfold fragment. destruct ot as [|t rest].
    - eexists. split; [reflexivity|]. split; [|congruence]. constructor; [|constructor].
      unfold frag_ok. cbn [f_start f_end]. pose proof (zlen_nonneg orig). destruct (n <? 0 + fs) eqn:E; lia.
    - destruct (frag_loop_total (t :: rest) 0 ltac:(lia)) as [frs [H Hall]]. exists frs. split; [exact H|].
      split.
      + rewrite Forall_forall in *. intros f Hf. apply on_chain_ok. apply Hall. exact Hf.
      + intros _. rewrite Forall_forall in *. intros f Hf. apply Hall. exact Hf.
  Qed.
End Frag.

(* ------------------------------------------------------------------ container/heap: what is needed here *)

Section HeapFacts.
  Context {A : Type}.
  Variable less : A -> A -> bool.
  Variable dflt : A.
  Variable P : A -> Prop.
  Hypothesis Pd : P dflt.

  Lemma get_P h i : Forall P h -> P (get dflt h i).
  Proof.
    intros H. unfold get. destruct (Nat.lt_ge_cases i (length h)) as [Hi|Hi].
    - rewrite Forall_forall in H. apply H. apply nth_In. exact Hi.
    - rewrite nth_overflow by exact Hi. exact Pd.
  Qed.

  Lemma set_nth_P h i x : Forall P h -> P x -> Forall P (set_nth h i x).
  Proof.
    intros H Hx. revert i. induction H as [|y t Hy Ht IH]; intros i; simpl; [constructor|].
    destruct i; constructor; auto.
  Qed.

  Lemma set_nth_length h i (x : A) : length (set_nth h i x) = length h.
  Proof. revert i. induction h as [|y t IH]; intros i; simpl; [reflexivity|]. destruct i; simpl; auto. Qed.

  Lemma swap_P h i j : Forall P h -> Forall P (swap dflt h i j).
  Proof. intros H. unfold swap. apply set_nth_P; [apply set_nth_P|]; auto using get_P. Qed.

  Lemma swap_length h i j : length (swap dflt h i j) = length h.
  Proof. unfold swap. rewrite !set_nth_length. reflexivity. Qed.

  Lemma up_fuel_P fuel : forall h j, Forall P h -> Forall P (up_fuel less dflt fuel h j).
  Proof.
    induction fuel as [|f IH]; intros h j H; cbn [up_fuel]; cbv zeta; [exact H|].
    match goal with |- context [if ?c then _ else _] => destruct c end; [exact H|].
    apply IH. apply swap_P. exact H.
  Qed.

  Lemma up_fuel_length fuel : forall h j, length (up_fuel less dflt fuel h j) = length h.
  Proof.
    induction fuel as [|f IH]; intros h j; cbn [up_fuel]; cbv zeta; [reflexivity|].
    match goal with |- context [if ?c then _ else _] => destruct c end; [reflexivity|].
    rewrite IH. apply swap_length.
  Qed.

  Lemma down_fuel_P fuel : forall h i n, Forall P h -> Forall P (fst (down_fuel less dflt fuel h i n)).
  Proof.
    induction fuel as [|f IH]; intros h i n H; cbn [down_fuel]; cbv zeta; [exact H|].
    destruct (n <=? 2 * i + 1)%nat; [exact H|].
    match goal with |- context [if negb ?c then _ else _] => destruct (negb c) end; [exact H|].
    apply IH. apply swap_P. exact H.
  Qed.

  Lemma down_fuel_length fuel : forall h i n, length (fst (down_fuel less dflt fuel h i n)) = length h.
  Proof.
    induction fuel as [|f IH]; intros h i n; cbn [down_fuel]; cbv zeta; [reflexivity|].
    destruct (n <=? 2 * i + 1)%nat; [reflexivity|].
    match goal with |- context [if negb ?c then _ else _] => destruct (negb c) end; [reflexivity|].
    rewrite IH. apply swap_length.
  Qed.

  Lemma down_P h i n : Forall P h -> Forall P (fst (down less dflt h i n)).
  Proof.
    intros H. unfold down. pose proof (down_fuel_P (S n) h i n H) as H1.
    destruct (down_fuel less dflt (S n) h i n). exact H1.
  Qed.

  Lemma down_length h i n : length (fst (down less dflt h i n)) = length h.
  Proof.
    unfold down. pose proof (down_fuel_length (S n) h i n) as H1.
    destruct (down_fuel less dflt (S n) h i n). exact H1.
  Qed.

  Lemma heap_push_P h x : Forall P h -> P x -> Forall P (heap_push less dflt h x).
  Proof.
    intros H Hx. unfold heap_push, up. apply up_fuel_P. apply Forall_app. split; [exact H|constructor; auto].
  Qed.

  Lemma heap_push_length h x : length (heap_push less dflt h x) = S (length h).
  Proof. unfold heap_push, up. rewrite up_fuel_length, app_length. simpl. lia. Qed.

  Lemma heap_pop_spec h x h' :
    Forall P h -> heap_pop less dflt h = Some (x, h') ->
    P x /\ Forall P h' /\ length h = S (length h').
  Proof.
    intros H. unfold heap_pop. destruct h as [|a t] eqn:Eh; [discriminate|]. rewrite <- Eh in *.
    intros E. inversion E; subst x h'. clear E.
    assert (Hl : (0 < length h)%nat) by (rewrite Eh; simpl; lia).
    set (h2 := fst (down less dflt (swap dflt h 0 (length h - 1)) 0 (length h - 1))).
    assert (H2 : Forall P h2) by (apply down_P; apply swap_P; exact H).
    assert (L2 : length h2 = length h) by (unfold h2; rewrite down_length, swap_length; reflexivity).
    split; [apply get_P; exact H2|]. split.
    - rewrite Forall_forall in *. intros y Hy. apply H2. rewrite <- (firstn_skipn (length h - 1) h2). apply in_or_app. left. exact Hy.
    - rewrite firstn_length. lia.
  Qed.
End HeapFacts.

(* ------------------------------------------------------------------ choosing the best fragments *)

Lemma overlaps_se_sym s1 e1 s2 e2 : overlaps_se s1 e1 s2 e2 = overlaps_se s2 e2 s1 e1.
Proof. unfold overlaps_se. case_ifs; try reflexivity; lia. Qed.

Lemma frag_overlaps_sym a b : frag_overlaps a b = frag_overlaps b a.
Proof. apply overlaps_se_sym. Qed.

(* no offset belongs to both intervals *)
Lemma overlaps_se_false_disjoint s1 e1 s2 e2 :
  overlaps_se s1 e1 s2 e2 = false -> forall x, ~ (s1 <= x < e1 /\ s2 <= x < e2).
Proof. unfold overlaps_se. case_ifs; intros H x; try discriminate; lia. Qed.

Definition no_overlap (l : list frag) : Prop := ForallOrdPairs (fun a b => frag_overlaps a b = false) l.

Lemma fop_snoc {A} (R : A -> A -> Prop) l x :
  ForallOrdPairs R l -> (forall b, In b l -> R b x) -> ForallOrdPairs R (l ++ [x]).
Proof.
  induction 1 as [|a l Ha Hl IH]; intros Hx; simpl.
  - constructor; constructor.
  - constructor.
    + apply Forall_app. split; [exact Ha|]. constructor; [|constructor]. apply Hx. left. reflexivity.
    + apply IH. intros b Hb. apply Hx. right. exact Hb.
Qed.

Lemma zlen_app {A} (a b : list A) : zlen (a ++ b) = zlen a + zlen b.
Proof. unfold zlen. rewrite app_length. lia. Qed.

Section Select.
  Variable P : frag -> Prop.
  Hypothesis Pd : P dflt_frag.

  Lemma select_loop_spec fuel num : forall fq cand best,
    Forall P fq -> P cand -> Forall P best -> no_overlap best -> zlen best <= Z.max num 0 ->
    (length fq < fuel)%nat ->
    exists out, select_loop fuel num fq cand best = Ok out /\ Forall P out /\ no_overlap out /\
                zlen out <= Z.max num 0 /\ (exists ext, out = best ++ ext) /\
                (best = [] -> 0 < num -> hd_error out = Some cand).
  Proof.
    induction fuel as [|fuel IH]; intros fq cand best Hfq Hc Hb Hno Hlen Hf; [lia|].
    cbn [select_loop]. destruct (zlen best <? num) eqn:En.
    - destruct (existsb (frag_overlaps cand) best) eqn:Eo.
      + (* overlaps one already chosen *)
        assert (Hbn : best <> []) by (intros E; subst best; simpl in Eo; discriminate).
        destruct (heap_pop fq_less dflt_frag fq) as [[c' fq']|] eqn:Ep.
        * destruct (heap_pop_spec fq_less dflt_frag P Pd fq c' fq' Hfq Ep) as [Hc' [Hfq' Hl]].
          destruct (IH fq' c' best Hfq' Hc' Hb Hno Hlen ltac:(lia)) as [out [H [H1 [H2 [H3 [H4 H5]]]]]].
          exists out. repeat split; auto. intros E; congruence.
        * exists best. repeat split; auto. exists []. rewrite app_nil_r. reflexivity. intros E; congruence.
      + assert (Hno' : no_overlap (best ++ [cand])).
        { apply fop_snoc; [exact Hno|]. intros b Hb'. rewrite frag_overlaps_sym.
          rewrite <- not_true_iff_false in Eo. destruct (frag_overlaps cand b) eqn:E; [|reflexivity].
          exfalso. apply Eo. apply existsb_exists. exists b. auto. }
        assert (Hb' : Forall P (best ++ [cand])) by (apply Forall_app; split; [exact Hb|constructor; auto]).
        assert (Hlen' : zlen (best ++ [cand]) <= Z.max num 0) by (rewrite zlen_app; unfold zlen at 2; simpl; lia).
        destruct (heap_pop fq_less dflt_frag fq) as [[c' fq']|] eqn:Ep.
        * destruct (heap_pop_spec fq_less dflt_frag P Pd fq c' fq' Hfq Ep) as [Hc' [Hfq' Hl]].
          destruct (IH fq' c' (best ++ [cand]) Hfq' Hc' Hb' Hno' Hlen' ltac:(lia)) as [out [H [H1 [H2 [H3 [[ext H4] H5]]]]]].
          exists out. repeat split; auto.
          -- exists ([cand] ++ ext). rewrite H4. rewrite <- app_assoc. reflexivity.
          -- intros E _. subst best. rewrite H4. reflexivity.
        * exists (best ++ [cand]). repeat split; auto. exists [cand]. reflexivity.
          intros E _. subst best. reflexivity.
    - exists best. repeat split; auto. exists []. rewrite app_nil_r. reflexivity. intros E Hn. subst best. unfold zlen in En. simpl in En. lia.
  Qed.

  Lemma fold_push_P : forall scored h, Forall P scored -> Forall P h ->
    Forall P (fold_left (fun h f => heap_push fq_less dflt_frag h f) scored h) /\
    length (fold_left (fun h f => heap_push fq_less dflt_frag h f) scored h) = (length h + length scored)%nat.
  Proof.
    induction scored as [|f r IH]; intros h Hs Hh; simpl; [split; [exact Hh|lia]|].
    inversion Hs as [|? ? Hf Hr]; subst.
    destruct (IH (heap_push fq_less dflt_frag h f) Hr (heap_push_P fq_less dflt_frag P Pd h f Hh Hf)) as [H1 H2].
    split; [exact H1|]. rewrite H2, heap_push_length. lia.
  Qed.

  Lemma best_fragments_sel_spec num scored :
    Forall P scored ->
    exists out, best_fragments_sel num scored = Ok out /\ Forall P out /\ no_overlap out /\ zlen out <= Z.max num 0.
  Proof.
    intros Hs. unfold best_fragments_sel.
    destruct (fold_push_P scored [] Hs (Forall_nil _)) as [Hh Hl]. simpl in Hl.
    set (fq := fold_left (fun h f => heap_push fq_less dflt_frag h f) scored []) in *.
    destruct (heap_pop fq_less dflt_frag fq) as [[c fq']|] eqn:Ep.
    - destruct (heap_pop_spec fq_less dflt_frag P Pd fq c fq' Hh Ep) as [Hc [Hfq' Hl']].
      destruct (select_loop_spec (S (length scored)) num fq' c [] Hfq' Hc (Forall_nil _) (FOP_nil _)
                  ltac:(unfold zlen; simpl; lia) ltac:(lia)) as [out [H [H1 [H2 [H3 _]]]]].
      exists out. auto.
    - exists []. repeat split; auto. constructor. unfold zlen; simpl; lia.
  Qed.
End Select.

(* ------------------------------------------------------------------ formatting *)

Definition sl (p : list Z) (a b : Z) : list Z := firstn (Z.to_nat (b - a)) (skipn (Z.to_nat a) p).

Lemma slice_sl p a b : 0 <= a -> a <= b -> b <= zlen p -> slice p a b = Ok (sl p a b).
Proof. apply slice_ok. Qed.

Lemma firstn_add {A} x y (l : list A) : firstn (x + y) l = firstn x l ++ firstn y (skipn x l).
Proof.
  revert l. induction x as [|x IH]; intros l; [reflexivity|].
  destruct l as [|a l]; simpl; [rewrite firstn_nil; reflexivity|]. f_equal. apply IH.
Qed.

Lemma sl_app p a b c : 0 <= a -> a <= b -> b <= c -> c <= zlen p -> sl p a b ++ sl p b c = sl p a c.
Proof.
  intros Ha Hab Hbc Hc. unfold sl.
  replace (Z.to_nat (c - a)) with (Z.to_nat (b - a) + Z.to_nat (c - b))%nat by lia.
  rewrite firstn_add. f_equal. f_equal. rewrite skipn_skipn'. f_equal. lia.
Qed.

(* every marked piece is the text of one element of the (merged) location list, inside the window *)
Definition marked_from (orig : list Z) (n curr fend : Z) (l : list (option tloc)) (p : piece) : Prop :=
  match p with
  | Plain _ => True
  | Marked s => exists t, In (Some t) l /\ in_bounds t n = true /\ curr <= tl_start t /\ tl_end t <= fend /\
                          s = sl orig (tl_start t) (tl_end t)
  end.

Lemma format_loop_spec orig fend : forall l curr,
  0 <= curr -> curr <= fend -> fend <= zlen orig ->
  exists ps, format_loop orig (zlen orig) fend curr l = Ok ps /\
             pieces_text ps = sl orig curr fend /\
             Forall (marked_from orig (zlen orig) curr fend l) ps.
Proof.
  induction l as [|o r IH]; intros curr H0 H1 H2; cbn [format_loop].
  - rewrite slice_sl by lia. cbn [rbind]. eexists. split; [reflexivity|]. split.
    + simpl. apply app_nil_r.
    + constructor; [exact I|constructor].
  - assert (Hweak : forall ps c', curr <= c' -> Forall (marked_from orig (zlen orig) c' fend r) ps ->
                                  Forall (marked_from orig (zlen orig) curr fend (o :: r)) ps).
    { intros ps c' Hc' Hall. rewrite Forall_forall in *. intros p Hp. specialize (Hall p Hp).
      destruct p; [exact I|]. destruct Hall as [t [Hi [Hb [Hs [He Hx]]]]]. exists t. repeat split; auto; [right; exact Hi|lia]. }
    destruct o as [t|].
    2:{ destruct (IH curr H0 H1 H2) as [ps [H [Ht Hm]]]. exists ps. repeat split; auto. eapply Hweak; [|exact Hm]. lia. }
    destruct (negb (in_bounds t (zlen orig))) eqn:Eb.
    { destruct (IH curr H0 H1 H2) as [ps [H [Ht Hm]]]. exists ps. repeat split; auto. eapply Hweak; [|exact Hm]. lia. }
    destruct (tl_start t <? curr) eqn:Es.
    { destruct (IH curr H0 H1 H2) as [ps [H [Ht Hm]]]. exists ps. repeat split; auto. eapply Hweak; [|exact Hm]. lia. }
    destruct (fend <? tl_end t) eqn:Ee.
    { rewrite slice_sl by lia. cbn [rbind]. eexists. split; [reflexivity|]. split.
      - simpl. apply app_nil_r.
      - constructor; [exact I|constructor]. }
    assert (Hb : in_bounds t (zlen orig) = true) by (destruct (in_bounds t (zlen orig)); simpl in Eb; congruence).
    unfold in_bounds in Hb.
    rewrite slice_sl by lia. cbn [rbind]. rewrite slice_sl by lia. cbn [rbind].
    destruct (IH (tl_end t) ltac:(lia) ltac:(lia) H2) as [ps [H [Ht Hm]]]. rewrite H. cbn [rbind].
    eexists. split; [reflexivity|]. split.
    + cbn [pieces_text flat_map piece_text]. fold (pieces_text ps). rewrite Ht.
      rewrite app_assoc. rewrite sl_app by lia. rewrite sl_app by lia. reflexivity.
    + constructor; [exact I|]. constructor.
      * exists t. split; [left; reflexivity|]. split; [unfold in_bounds; lia|]. repeat split; try lia; reflexivity.
      * eapply Hweak; [|exact Hm]. lia.
Qed.

Lemma rmapM_total {A B} (f : A -> res B) (Q : A -> B -> Prop) l :
  (forall x, In x l -> exists y, f x = Ok y /\ Q x y) ->
  exists ys, rmapM f l = Ok ys /\ Forall2 Q l ys.
Proof.
  induction l as [|a t IH]; intros H; simpl.
  - exists []. split; [reflexivity|constructor].
  - destruct (H a (or_introl eq_refl)) as [y [Hy Hq]]. rewrite Hy. cbn [rbind].
    destruct (IH (fun x Hx => H x (or_intror Hx))) as [ys [Hys Hall]]. rewrite Hys. cbn [rbind].
    exists (y :: ys). split; [reflexivity|constructor; auto].
Qed.

(* ------------------------------------------------------------------ strip undoes render *)

Lemma drop_tag_length s : (length (drop_tag s) <= length s)%nat.
Proof. induction s as [|b r IH]; simpl; [lia|]. destruct (b =? 62); simpl; lia. Qed.

Lemma unescape_entity_length s c r : unescape_entity s = Some (c, r) -> (length r < length s)%nat.
Proof.
  unfold unescape_entity. intros H.
  repeat (match type of H with
          | match ?x with _ => _ end = _ => destruct x; try discriminate
          end); inversion H; subst; simpl; lia.
Qed.

Lemma strip_html_fuel_enough : forall f1 f2 s, (length s < f1)%nat -> (length s < f2)%nat ->
  strip_html_fuel f1 s = strip_html_fuel f2 s.
Proof.
  induction f1 as [|f1 IH]; intros f2 s H1 H2; [lia|]. destruct f2 as [|f2]; [lia|].
  cbn [strip_html_fuel]. destruct s as [|b r]; [reflexivity|]. simpl in H1, H2.
  destruct (b =? 60).
  - apply IH; pose proof (drop_tag_length r); lia.
  - destruct (b =? 38).
    + destruct (unescape_entity r) as [[c r']|] eqn:E.
      * f_equal. apply unescape_entity_length in E. apply IH; lia.
      * f_equal. apply IH; lia.
    + f_equal. apply IH; lia.
Qed.

Lemma strip_html_fuel_S f s :
  strip_html_fuel (S f) s =
  match s with
  | [] => []
  | b :: r =>
      if b =? 60 then strip_html_fuel f (drop_tag r)
      else if b =? 38 then
        match unescape_entity r with
        | Some (c, r') => c :: strip_html_fuel f r'
        | None => b :: strip_html_fuel f r
        end
      else b :: strip_html_fuel f r
  end.
Proof. reflexivity. Qed.

Lemma strip_html_cons b r :
  strip_html (b :: r) =
  if b =? 60 then strip_html (drop_tag r)
  else if b =? 38 then match unescape_entity r with
                       | Some (c, r') => c :: strip_html r'
                       | None => b :: strip_html r
                       end
  else b :: strip_html r.
Proof.
  unfold strip_html at 1. change (length (b :: r)) with (S (length r)).
  rewrite strip_html_fuel_S. unfold strip_html.
  destruct (b =? 60).
  - apply strip_html_fuel_enough; pose proof (drop_tag_length r); simpl; lia.
  - destruct (b =? 38).
    + destruct (unescape_entity r) as [[c r']|] eqn:E.
      * f_equal. apply unescape_entity_length in E. apply strip_html_fuel_enough; simpl; lia.
      * reflexivity.
    + reflexivity.
Qed.

Lemma strip_html_escape_byte b rest : strip_html (html_escape_byte b ++ rest) = b :: strip_html rest.
Proof.
  unfold html_escape_byte.
  destruct (b =? 38) eqn:E1; [apply Z.eqb_eq in E1; subst; simpl app; rewrite strip_html_cons; reflexivity|].
  destruct (b =? 39) eqn:E2; [apply Z.eqb_eq in E2; subst; simpl app; rewrite strip_html_cons; reflexivity|].
  destruct (b =? 60) eqn:E3; [apply Z.eqb_eq in E3; subst; simpl app; rewrite strip_html_cons; reflexivity|].
  destruct (b =? 62) eqn:E4; [apply Z.eqb_eq in E4; subst; simpl app; rewrite strip_html_cons; reflexivity|].
  destruct (b =? 34) eqn:E5; [apply Z.eqb_eq in E5; subst; simpl app; rewrite strip_html_cons; reflexivity|].
  simpl app. rewrite strip_html_cons. rewrite E3, E1. reflexivity.
Qed.

Lemma strip_html_escape s rest : strip_html (html_escape s ++ rest) = s ++ strip_html rest.
Proof.
  induction s as [|b r IH]; [reflexivity|]. unfold html_escape in *. cbn [flat_map].
  rewrite <- app_assoc. rewrite strip_html_escape_byte. simpl. f_equal. exact IH.
Qed.

(* a tag: '<' body '>' with no '>' inside the body *)
Definition is_tag (t : list Z) : Prop := exists body, t = 60 :: body ++ [62] /\ ~ In 62 body.

Lemma drop_tag_body body rest : ~ In 62 body -> drop_tag (body ++ 62 :: rest) = rest.
Proof.
  induction body as [|b r IH]; intros H; simpl.
  - reflexivity.
  - destruct (b =? 62) eqn:E; [exfalso; apply H; left; lia|]. apply IH. intros Hi. apply H. right. exact Hi.
Qed.

Lemma strip_html_tag t rest : is_tag t -> strip_html (t ++ rest) = strip_html rest.
Proof.
  intros [body [-> Hb]]. simpl app. rewrite strip_html_cons. simpl.
  rewrite <- app_assoc. simpl. rewrite drop_tag_body by exact Hb. reflexivity.
Qed.

Lemma strip_html_nil : strip_html [] = [].
Proof. reflexivity. Qed.

Lemma strip_html_render before after ps :
  is_tag before -> is_tag after -> strip_html (render html_escape before after ps) = pieces_text ps.
Proof.
  intros Hb Ha. unfold render, pieces_text.
  rewrite <- (app_nil_r (flat_map (render_piece html_escape before after) ps)).
  rewrite <- (app_nil_r (flat_map piece_text ps)). rewrite <- strip_html_nil at 2.
  generalize (@nil Z) as rest. induction ps as [|p r IH]; intros rest; [reflexivity|].
  cbn [flat_map]. rewrite <- !app_assoc. destruct p as [s|s]; cbn [render_piece piece_text].
  - rewrite strip_html_escape. f_equal. apply IH.
  - rewrite <- !app_assoc. rewrite strip_html_tag by exact Hb. rewrite strip_html_escape.
    rewrite strip_html_tag by exact Ha. f_equal. apply IH.
Qed.

Lemma html_before_is_tag : is_tag html_before.
Proof. exists [109; 97; 114; 107]. split; [reflexivity|]. simpl. intuition discriminate. Qed.
Lemma html_after_is_tag : is_tag html_after.
Proof. exists [47; 109; 97; 114; 107]. split; [reflexivity|]. simpl. intuition discriminate. Qed.

(* ANSI *)
Lemma drop_esc_length s : (length (drop_esc s) <= length s)%nat.
Proof. induction s as [|b r IH]; simpl; [lia|]. destruct (b =? 109); simpl; lia. Qed.

Lemma strip_ansi_fuel_enough : forall f1 f2 s, (length s < f1)%nat -> (length s < f2)%nat ->
  strip_ansi_fuel f1 s = strip_ansi_fuel f2 s.
Proof.
  induction f1 as [|f1 IH]; intros f2 s H1 H2; [lia|]. destruct f2 as [|f2]; [lia|].
  cbn [strip_ansi_fuel]. destruct s as [|b r]; [reflexivity|]. simpl in H1, H2.
  destruct (b =? 27).
  - apply IH; pose proof (drop_esc_length r); lia.
  - f_equal. apply IH; lia.
Qed.

Lemma strip_ansi_fuel_S f s :
  strip_ansi_fuel (S f) s =
  match s with
  | [] => []
  | b :: r => if b =? 27 then strip_ansi_fuel f (drop_esc r) else b :: strip_ansi_fuel f r
  end.
Proof. reflexivity. Qed.

Lemma strip_ansi_cons b r :
  strip_ansi (b :: r) = if b =? 27 then strip_ansi (drop_esc r) else b :: strip_ansi r.
Proof.
  unfold strip_ansi at 1. change (length (b :: r)) with (S (length r)).
  rewrite strip_ansi_fuel_S. unfold strip_ansi. destruct (b =? 27).
  - apply strip_ansi_fuel_enough; pose proof (drop_esc_length r); simpl; lia.
  - reflexivity.
Qed.

Lemma strip_ansi_plain s rest : ~ In 27 s -> strip_ansi (s ++ rest) = s ++ strip_ansi rest.
Proof.
  induction s as [|b r IH]; intros H; [reflexivity|]. simpl app. rewrite strip_ansi_cons.
  destruct (b =? 27) eqn:E; [exfalso; apply H; left; lia|]. f_equal. apply IH. intros Hi. apply H. right. exact Hi.
Qed.

(* an escape sequence: ESC body 'm' with no 'm' inside the body *)
Definition is_esc (t : list Z) : Prop := exists body, t = 27 :: body ++ [109] /\ ~ In 109 body.

Lemma drop_esc_body body rest : ~ In 109 body -> drop_esc (body ++ 109 :: rest) = rest.
Proof.
  induction body as [|b r IH]; intros H; simpl.
  - reflexivity.
  - destruct (b =? 109) eqn:E; [exfalso; apply H; left; lia|]. apply IH. intros Hi. apply H. right. exact Hi.
Qed.

Lemma strip_ansi_esc t rest : is_esc t -> strip_ansi (t ++ rest) = strip_ansi rest.
Proof.
  intros [body [-> Hb]]. simpl app. rewrite strip_ansi_cons. simpl.
  rewrite <- app_assoc. simpl. rewrite drop_esc_body by exact Hb. reflexivity.
Qed.

Lemma strip_ansi_render color reset ps :
  is_esc color -> is_esc reset -> ~ In 27 (pieces_text ps) ->
  strip_ansi (render (fun s => s) color reset ps) = pieces_text ps.
Proof.
  intros Hc Hr. unfold render, pieces_text.
  rewrite <- (app_nil_r (flat_map (render_piece (fun s => s) color reset) ps)).
  rewrite <- (app_nil_r (flat_map piece_text ps)) at 2.
  assert (Hn : strip_ansi [] = []) by reflexivity. rewrite <- Hn at 2.
  generalize (@nil Z) as rest. induction ps as [|p r IH]; intros rest Hno; [reflexivity|].
  cbn [flat_map] in *. rewrite <- !app_assoc.
  assert (H1 : ~ In 27 (piece_text p)) by (intros Hi; apply Hno; apply in_or_app; left; exact Hi).
  assert (H2 : ~ In 27 (flat_map piece_text r)) by (intros Hi; apply Hno; apply in_or_app; right; exact Hi).
  destruct p as [s|s]; cbn [render_piece piece_text] in *.
  - rewrite strip_ansi_plain by exact H1. f_equal. apply IH. exact H2.
  - rewrite <- !app_assoc. rewrite strip_ansi_esc by exact Hc. rewrite strip_ansi_plain by exact H1.
    rewrite strip_ansi_esc by exact Hr. f_equal. apply IH. exact H2.
Qed.

Lemma ansi_color_is_esc : is_esc ansi_default_color.
Proof. exists [91; 52; 51]. split; [reflexivity|]. simpl. intuition discriminate. Qed.
Lemma ansi_reset_is_esc : is_esc ansi_reset.
Proof. exists [91; 48]. split; [reflexivity|]. simpl. intuition discriminate. Qed.

(* ------------------------------------------------------------------ ordering and merging of locations *)

Definition start_le (a b : tloc) : Prop := tl_start a <= tl_start b.

Lemma insert_loc_perm t l : Permutation.Permutation (t :: l) (insert_loc t l).
Proof.
  induction l as [|h r IH]; simpl; [apply Permutation.Permutation_refl|].
  destruct (tl_start t <? tl_start h); [apply Permutation.Permutation_refl|].
  eapply Permutation.perm_trans; [apply Permutation.perm_swap|]. apply Permutation.perm_skip. exact IH.
Qed.

Lemma insert_loc_sorted t l : Sorted.StronglySorted start_le l -> Sorted.StronglySorted start_le (insert_loc t l).
Proof.
  induction 1 as [|h r Hr IH Hh]; simpl.
  - constructor; constructor.
  - destruct (tl_start t <? tl_start h) eqn:E.
    + constructor; [constructor; assumption|]. constructor; [unfold start_le; lia|].
      rewrite Forall_forall in *. intros x Hx. specialize (Hh x Hx). unfold start_le in *. lia.
    + constructor; [exact IH|].
      rewrite Forall_forall in *. intros x Hx.
      apply (Permutation.Permutation_in _ (Permutation.Permutation_sym (insert_loc_perm t r))) in Hx.
      destruct Hx as [<-|Hx]; [unfold start_le; lia|apply Hh; exact Hx].
Qed.

Lemma sort_locs_spec l : Sorted.StronglySorted start_le (sort_locs l) /\ Permutation.Permutation l (sort_locs l).
Proof.
  unfold sort_locs.
  assert (H : forall acc, Sorted.StronglySorted start_le acc ->
                          Sorted.StronglySorted start_le (fold_left (fun a t => insert_loc t a) l acc) /\
                          Permutation.Permutation (l ++ acc) (fold_left (fun a t => insert_loc t a) l acc)).
  { induction l as [|t r IH]; intros acc Hacc; simpl; [split; [exact Hacc|apply Permutation.Permutation_refl]|].
    destruct (IH (insert_loc t acc) (insert_loc_sorted t acc Hacc)) as [H1 H2]. split; [exact H1|].
    eapply Permutation.perm_trans; [|exact H2].
    eapply Permutation.perm_trans; [apply Permutation.Permutation_middle|].
    apply Permutation.Permutation_app_head. apply insert_loc_perm. }
  destruct (H [] (Sorted.SSorted_nil _)) as [H1 H2]. rewrite app_nil_r in H2. auto.
Qed.

(* [s,e) built from a first location by absorbing, one after the other, locations that overlap
   what has been accumulated: "a run of overlapping occurrences" *)
Inductive run : Z -> Z -> list tloc -> Prop :=
| run_one t : run (tl_start t) (tl_end t) [t]
| run_ext s e ms t : run s e ms -> overlaps_se s e (tl_start t) (tl_end t) = true ->
                     run s (Z.max e (tl_end t)) (ms ++ [t]).

Lemma merge_rest_run : forall l s0 e0 ms, run s0 e0 ms ->
  exists ms', run s0 (fst (merge_rest s0 e0 l)) (ms ++ ms') /\ incl ms' l /\
              (forall t, In (Some t) (snd (merge_rest s0 e0 l)) -> In t l) /\
              length (snd (merge_rest s0 e0 l)) = length l.
Proof.
  induction l as [|t r IH]; intros s0 e0 ms Hrun; cbn [merge_rest].
  - exists []. rewrite app_nil_r. cbn [fst snd]. split; [exact Hrun|]. split; [intros x Hx; exact Hx|]. split; [intros t []|reflexivity].
  - destruct (overlaps_se s0 e0 (tl_start t) (tl_end t)) eqn:Eo.
    + assert (Hrun' : run s0 (if e0 <? tl_end t then tl_end t else e0) (ms ++ [t])).
      { replace (if e0 <? tl_end t then tl_end t else e0) with (Z.max e0 (tl_end t)) by (destruct (e0 <? tl_end t) eqn:E; lia).
        apply run_ext; assumption. }
      destruct (IH s0 _ _ Hrun') as [ms' [H1 [H2 [H3 H4]]]].
      destruct (merge_rest s0 (if e0 <? tl_end t then tl_end t else e0) r) as [e r'] eqn:Em. cbn [fst snd] in *.
      exists (t :: ms'). rewrite <- app_assoc in H1. repeat split.
      * exact H1.
      * intros x [<-|Hx]; [left; reflexivity|right; apply H2; exact Hx].
      * intros x [Hx|Hx]; [discriminate|right; apply H3; exact Hx].
      * simpl. f_equal. exact H4.
    + destruct (IH s0 e0 ms Hrun) as [ms' [H1 [H2 [H3 H4]]]].
      destruct (merge_rest s0 e0 r) as [e r'] eqn:Em. cbn [fst snd] in *.
      exists ms'. repeat split.
      * exact H1.
      * intros x Hx. right. apply H2. exact Hx.
      * intros x [Hx|Hx]; [inversion Hx; left; reflexivity|right; apply H3; exact Hx].
      * simpl. f_equal. exact H4.
Qed.

(* every element of the merged list is an input location or the run that starts at the first one *)
Lemma merge_overlapping_spec l t :
  In (Some t) (merge_overlapping l) ->
  In t l \/ exists ms, run (tl_start t) (tl_end t) ms /\ incl ms l.
Proof.
  unfold merge_overlapping. destruct l as [|t0 r]; [intros []|].
  destruct (merge_rest_run r (tl_start t0) (tl_end t0) [t0] (run_one t0)) as [ms' [H1 [H2 [H3 _]]]].
  destruct (merge_rest (tl_start t0) (tl_end t0) r) as [e r'] eqn:Em. cbn [fst snd] in *.
  intros [Hx|Hx].
  - inversion Hx; subst t. right. exists ([t0] ++ ms'). split; [exact H1|].
    intros x [<-|Hx']; [left; reflexivity|right; apply H2; exact Hx'].
  - left. right. apply H3. exact Hx.
Qed.

(* for locations sorted by Start, a run is exactly the union of its members *)
Lemma run_union s e ms : run s e ms -> (forall t, In t ms -> s <= tl_start t) ->
  (forall t, In t ms -> s <= tl_start t /\ tl_end t <= Z.max e s) /\
  (forall x, s <= x < e -> exists t, In t ms /\ tl_start t <= x < tl_end t).
Proof.
  induction 1 as [t|s e ms t Hrun IH Ho]; intros Hs.
  - split.
    + intros x [<-|[]]. lia.
    + intros x Hx. exists t. split; [left; reflexivity|exact Hx].
  - assert (Hs' : forall t0, In t0 ms -> s <= tl_start t0) by (intros t0 Ht0; apply Hs; apply in_or_app; left; exact Ht0).
    destruct (IH Hs') as [IH1 IH2].
    assert (Hts : s <= tl_start t) by (apply Hs; apply in_or_app; right; left; reflexivity).
    unfold overlaps_se in Ho. split.
    + intros x Hx. apply in_app_or in Hx. destruct Hx as [Hx|[<-|[]]].
      * specialize (IH1 x Hx). lia.
      * lia.
    + intros x Hx. destruct (Z_lt_ge_dec x e) as [Hlt|Hge].
      * destruct (IH2 x ltac:(lia)) as [t0 [H0 H1]]. exists t0. split; [apply in_or_app; left; exact H0|exact H1].
      * exists t. split; [apply in_or_app; right; left; reflexivity|].
        destruct ((s <=? tl_start t) && (tl_start t <? e)) eqn:E1; [lia|].
        destruct ((tl_start t <=? s) && (s <? tl_end t)) eqn:E2; [lia|discriminate].
Qed.

(* ------------------------------------------------------------------ BestFragments as a whole *)

Lemma score_fragment_ok n m f : frag_ok n f -> frag_ok n (score_fragment m f).
Proof. intros H. exact H. Qed.

Lemma dflt_frag_ok (orig : list Z) : frag_ok (zlen orig) dflt_frag.
Proof. unfold frag_ok, dflt_frag. simpl. pose proof (zlen_nonneg orig). lia. Qed.

Theorem best_raw_total fs m orig num : 0 <= fs ->
  exists best, best_fragments_raw fs m orig num = Ok best /\
               Forall (frag_ok (zlen orig)) best /\ no_overlap best /\ zlen best <= Z.max num 0.
Proof.
  intros Hfs. unfold best_fragments_raw.
  destruct (fragment_total orig fs (zlen orig) eq_refl (order_term_locations m) Hfs) as [frs [H [Hok _]]].
  rewrite H. cbn [rbind].
  assert (Hs : Forall (frag_ok (zlen orig)) (map (score_fragment m) frs)).
  { rewrite Forall_forall in *. intros f Hf. apply in_map_iff in Hf. destruct Hf as [g [<- Hg]].
    apply score_fragment_ok. apply Hok. exact Hg. }
  destruct (best_fragments_sel_spec (frag_ok (zlen orig)) (dflt_frag_ok orig) num _ Hs) as [out [H1 [H2 [H3 H4]]]].
  exists out. auto.
Qed.

(* what one formatted fragment is, in terms of its raw fragment *)
Definition formatted_as (fm : formatter) (sep orig : list Z) (merged : list (option tloc)) (f : frag) (s : list Z) : Prop :=
  exists ps,
    format_pieces orig f merged = Ok ps /\
    s = (if f_start f =? 0 then [] else sep) ++ render_with fm ps ++ (if f_end f =? zlen orig then [] else sep) /\
    pieces_text ps = sl orig (f_start f) (f_end f) /\
    Forall (marked_from orig (zlen orig) (f_start f) (f_end f) merged) ps.

Theorem best_fragments_total fm sep fs m orig num : 0 <= fs ->
  exists best out,
    best_fragments_raw fs m orig num = Ok best /\
    best_fragments fm sep fs m orig num = Ok out /\
    Forall (frag_ok (zlen orig)) best /\ no_overlap best /\ zlen best <= Z.max num 0 /\
    Forall2 (formatted_as fm sep orig (merge_overlapping (order_term_locations m))) best out.
Proof.
  intros Hfs. destruct (best_raw_total fs m orig num Hfs) as [best [H [Hok [Hno Hlen]]]].
  unfold best_fragments. rewrite H. cbn [rbind].
  set (merged := merge_overlapping (order_term_locations m)).
  destruct (rmapM_total (format_one fm sep orig merged) (formatted_as fm sep orig merged) best) as [out [Ho Hall]].
  { intros f Hf. rewrite Forall_forall in Hok. specialize (Hok f Hf). unfold frag_ok in Hok.
    destruct (format_loop_spec orig (f_end f) merged (f_start f) ltac:(lia) ltac:(lia) ltac:(lia)) as [ps [Hp [Ht Hm]]].
    unfold format_one, format_pieces. rewrite Hp. cbn [rbind]. eexists. split; [reflexivity|].
    exists ps. repeat split; auto. }
  exists best, out. repeat split; auto.
Qed.

(* ---- the clauses of the property, as corollaries ---- *)

(* Highlighting never panics and never runs out of fuel, whatever the text (any byte list, valid
   UTF-8 or not) and the locations (negative, inverted, beyond the text, unsorted, overlapping),
   for every formatter, separator, number of fragments and non-negative fragment size. *)
Theorem no_panic_adversarial_all fm sep fs m orig num :
  0 <= fs -> exists out, best_fragments fm sep fs m orig num = Ok out.
Proof. intros H. destruct (best_fragments_total fm sep fs m orig num H) as [best [out [_ [Ho _]]]]. exists out. exact Ho. Qed.

(* the entry points Fragment and Format called directly with arbitrary location lists *)
Theorem fragment_no_panic orig fs ot : 0 <= fs ->
  exists frs, fragment orig (zlen orig) fs ot = Ok frs /\ Forall (frag_ok (zlen orig)) frs.
Proof. intros H. destruct (fragment_total orig fs (zlen orig) eq_refl ot H) as [frs [H1 [H2 _]]]. exists frs. auto. Qed.

Theorem format_no_panic orig f l : frag_ok (zlen orig) f -> exists ps, format_pieces orig f l = Ok ps.
Proof.
  intros [H0 [H1 H2]]. destruct (format_loop_spec orig (f_end f) l (f_start f) H0 H1 H2) as [ps [H _]].
  exists ps. exact H.
Qed.

Lemma Forall2_length' {A B} (R : A -> B -> Prop) l1 l2 : Forall2 R l1 l2 -> length l1 = length l2.
Proof. induction 1; simpl; auto. Qed.

Theorem best_count_all fm sep fs m orig num out :
  0 <= fs -> best_fragments fm sep fs m orig num = Ok out -> zlen out <= Z.max num 0.
Proof.
  intros Hfs Ho. destruct (best_fragments_total fm sep fs m orig num Hfs) as [best [out' [_ [Ho' [_ [_ [Hl Hall]]]]]]].
  rewrite Ho in Ho'. inversion Ho'; subst out'. apply Forall2_length' in Hall. unfold zlen in *. lia.
Qed.

(* the fragments behind the returned strings are pairwise disjoint pieces of the text *)
Theorem best_disjoint_all fs m orig num best :
  0 <= fs -> best_fragments_raw fs m orig num = Ok best ->
  ForallOrdPairs (fun a b => forall x, ~ (f_start a <= x < f_end a /\ f_start b <= x < f_end b)) best.
Proof.
  intros Hfs Hb. destruct (best_raw_total fs m orig num Hfs) as [best' [Hb' [_ [Hno _]]]].
  rewrite Hb in Hb'. inversion Hb'; subst best'. clear Hb' Hb.
  unfold no_overlap in Hno. induction Hno as [|a l Ha Hl IH]; constructor.
  - rewrite Forall_forall in *. intros b Hbb. apply overlaps_se_false_disjoint. apply Ha. exact Hbb.
  - exact IH.
Qed.

(* every fragment lies inside the text *)
Theorem fragment_in_text_all fs m orig num best :
  0 <= fs -> best_fragments_raw fs m orig num = Ok best ->
  Forall (fun f => 0 <= f_start f /\ f_start f <= f_end f /\ f_end f <= zlen orig) best.
Proof.
  intros Hfs Hb. destruct (best_raw_total fs m orig num Hfs) as [best' [Hb' [Hok _]]].
  rewrite Hb in Hb'. inversion Hb'; subst best'. exact Hok.
Qed.

(* removing the markup from the body of a formatted fragment gives back orig[Start:End]:
   HTML (tags dropped, entities decoded) for every text; ANSI when the text has no ESC byte *)
Theorem strip_html_is_substring orig f merged ps :
  frag_ok (zlen orig) f -> format_pieces orig f merged = Ok ps ->
  strip_html (render_with default_html ps) = sl orig (f_start f) (f_end f).
Proof.
  intros [H0 [H1 H2]] Hp. destruct (format_loop_spec orig (f_end f) merged (f_start f) H0 H1 H2) as [ps' [Hp' [Ht _]]].
  unfold format_pieces in Hp. rewrite Hp in Hp'. inversion Hp'; subst ps'.
  unfold render_with, default_html. rewrite strip_html_render by (apply html_before_is_tag || apply html_after_is_tag).
  exact Ht.
Qed.

Theorem strip_ansi_is_substring orig f merged ps :
  frag_ok (zlen orig) f -> format_pieces orig f merged = Ok ps -> ~ In 27 orig ->
  strip_ansi (render_with default_ansi ps) = sl orig (f_start f) (f_end f).
Proof.
  intros [H0 [H1 H2]] Hp Hesc. destruct (format_loop_spec orig (f_end f) merged (f_start f) H0 H1 H2) as [ps' [Hp' [Ht _]]].
  unfold format_pieces in Hp. rewrite Hp in Hp'. inversion Hp'; subst ps'.
  unfold render_with, default_ansi. rewrite strip_ansi_render.
  - exact Ht.
  - apply ansi_color_is_esc.
  - apply ansi_reset_is_esc.
  - rewrite Ht. unfold sl. intros Hi. apply Hesc.
    set (k := Z.to_nat (f_start f)) in *. rewrite <- (firstn_skipn k orig). apply in_or_app. right.
    set (j := Z.to_nat (f_end f - f_start f)) in *. rewrite <- (firstn_skipn j (skipn k orig)). apply in_or_app. left. exact Hi.
Qed.

(* ---- marked spans ---- *)

Lemma merge_overlapping_spec' l t :
  In (Some t) (merge_overlapping l) ->
  In t l \/ exists ms t0 r, l = t0 :: r /\ tl_start t = tl_start t0 /\ run (tl_start t) (tl_end t) ms /\ incl ms l.
Proof.
  unfold merge_overlapping. destruct l as [|t0 r]; [intros []|].
  destruct (merge_rest_run r (tl_start t0) (tl_end t0) [t0] (run_one t0)) as [ms' [H1 [H2 [H3 _]]]].
  destruct (merge_rest (tl_start t0) (tl_end t0) r) as [e r'] eqn:Em. cbn [fst snd] in *.
  intros [Hx|Hx].
  - inversion Hx; subst t. right. exists ([t0] ++ ms'), t0, r. split; [reflexivity|]. split; [reflexivity|].
    split; [exact H1|]. intros x [<-|Hx']; [left; reflexivity|right; apply H2; exact Hx'].
  - left. right. apply H3. exact Hx.
Qed.

(* what a marked span may be: the text of one location of the map, or of the union [a,b) of a run
   of locations each overlapping what the previous ones cover *)
Definition match_or_run (m : tlmap) (a b : Z) : Prop :=
  (exists t, In t (concat m) /\ tl_start t = a /\ tl_end t = b) \/
  (exists ms, run a b ms /\ incl ms (concat m) /\
              (forall t, In t ms -> a <= tl_start t /\ tl_end t <= Z.max b a) /\
              (forall x, a <= x < b -> exists t, In t ms /\ tl_start t <= x < tl_end t)).

Theorem marks_are_matches_all orig f m ps s :
  frag_ok (zlen orig) f ->
  format_pieces orig f (merge_overlapping (order_term_locations m)) = Ok ps ->
  In (Marked s) ps ->
  exists a b, s = sl orig a b /\ f_start f <= a /\ a <= b /\ b <= f_end f /\ match_or_run m a b.
Proof.
  intros [H0 [H1 H2]] Hp Hin.
  destruct (format_loop_spec orig (f_end f) (merge_overlapping (order_term_locations m)) (f_start f) H0 H1 H2)
    as [ps' [Hp' [_ Hm]]].
  unfold format_pieces in Hp. rewrite Hp in Hp'. inversion Hp'; subst ps'. clear Hp'.
  rewrite Forall_forall in Hm. specialize (Hm _ Hin). cbn [marked_from] in Hm.
  destruct Hm as [t [Ht [Hb [Hs [He Hx]]]]]. unfold in_bounds in Hb.
  exists (tl_start t), (tl_end t). split; [exact Hx|]. split; [exact Hs|]. split; [lia|]. split; [exact He|].
  unfold order_term_locations in *. destruct (sort_locs_spec (concat m)) as [Hsorted Hperm].
  destruct (merge_overlapping_spec' _ _ Ht) as [Hl|[ms [t0 [r [El [Est [Hrun Hincl]]]]]]].
  - left. exists t. split; [|split; reflexivity].
    eapply Permutation_in; [apply Permutation_sym; exact Hperm|exact Hl].
  - right. exists ms. split; [exact Hrun|].
    assert (Hge : forall x, In x ms -> tl_start t <= tl_start x).
    { intros x Hx'. apply Hincl in Hx'. rewrite El in Hsorted, Hx'. inversion Hsorted as [|? ? Hr Hall]; subst.
      destruct Hx' as [<-|Hx']; [lia|]. rewrite Forall_forall in Hall. specialize (Hall x Hx'). unfold start_le in Hall. lia. }
    destruct (run_union _ _ _ Hrun Hge) as [U1 U2].
    split; [|split; assumption].
    intros x Hx'. eapply Permutation_in; [apply Permutation_sym; exact Hperm|apply Hincl; exact Hx'].
Qed.

(* ------------------------------------------------------------------ the fragment queue is a max-heap on Score *)

Section HeapOrder.
  Notation geth := (get dflt_frag).
  Notation sc h k := (f_score (get dflt_frag h k)).

  Lemma get_set_nth_same (h : list frag) i x : (i < length h)%nat -> geth (set_nth h i x) i = x.
  Proof. revert i. induction h as [|y t IH]; intros i Hi; simpl in *; [lia|]. destruct i; simpl; [reflexivity|]. apply IH. lia. Qed.

  Lemma get_set_nth_other (h : list frag) i k x : k <> i -> geth (set_nth h i x) k = geth h k.
  Proof.
    revert i k. induction h as [|y t IH]; intros i k Hk; simpl; [reflexivity|].
    destruct i; destruct k; simpl; try reflexivity; try congruence. apply IH. congruence.
  Qed.

  Lemma get_swap (h : list frag) i j k : (i < length h)%nat -> (j < length h)%nat ->
    geth (swap dflt_frag h i j) k = if (k =? j)%nat then geth h i else if (k =? i)%nat then geth h j else geth h k.
  Proof.
    intros Hi Hj. unfold swap. destruct (k =? j)%nat eqn:Ej.
    - apply Nat.eqb_eq in Ej. subst k. apply get_set_nth_same. rewrite set_nth_length. exact Hj.
    - apply Nat.eqb_neq in Ej. rewrite get_set_nth_other by exact Ej. destruct (k =? i)%nat eqn:Ei.
      + apply Nat.eqb_eq in Ei. subst k. apply get_set_nth_same. exact Hi.
      + apply Nat.eqb_neq in Ei. apply get_set_nth_other. exact Ei.
  Qed.

  Definition parent (c : nat) : nat := ((c - 1) / 2)%nat.

  Lemma parent_lt c : (0 < c)%nat -> (parent c < c)%nat.
  Proof. intros H. unfold parent. apply Nat.div_lt_upper_bound; lia. Qed.

  (* every element scores at most its parent *)
  Definition hp (h : list frag) : Prop := forall c, (0 < c < length h)%nat -> sc h c <= sc h (parent c).

  Lemma hp_root_max h : hp h -> forall k, (k < length h)%nat -> sc h k <= sc h 0.
  Proof.
    intros H k. induction k as [k IH] using lt_wf_ind. intros Hk. destruct k as [|k]; [lia|].
    pose proof (parent_lt (S k) ltac:(lia)) as Hp. specialize (H (S k) ltac:(lia)).
    specialize (IH (parent (S k)) Hp ltac:(lia)). lia.
  Qed.

  (* sift-up: heap order everywhere except possibly between j and its parent *)
  Definition hp_except (h : list frag) (j : nat) : Prop :=
    (j < length h)%nat /\
    (forall c, (0 < c < length h)%nat -> c <> j -> sc h c <= sc h (parent c)) /\
    (forall c, (0 < c < length h)%nat -> parent c = j -> (0 < j)%nat -> sc h c <= sc h (parent j)).

  Lemma up_fuel_hp fuel : forall h j, hp_except h j -> (j < fuel)%nat -> hp (up_fuel fq_less dflt_frag fuel h j).
  Proof.
    induction fuel as [|fuel IH]; intros h j [Hj [H2 H3]] Hf; [lia|].
    cbn [up_fuel]; cbv zeta. fold (parent j).
    destruct ((parent j =? j)%nat || negb (fq_less (geth h j) (geth h (parent j)))) eqn:Ec.
    - intros c Hc. destruct (Nat.eq_dec c j) as [->|Hne]; [|apply H2; assumption].
      apply orb_true_iff in Ec. destruct Ec as [Ec|Ec].
      + apply Nat.eqb_eq in Ec. pose proof (parent_lt j ltac:(lia)). lia.
      + unfold fq_less in Ec. lia.
    - apply orb_false_iff in Ec. destruct Ec as [E1 E2]. apply Nat.eqb_neq in E1.
      assert (Hj0 : (0 < j)%nat) by (destruct j; [exfalso; apply E1; reflexivity|lia]).
      pose proof (parent_lt j Hj0) as Hpj.
      assert (Hlt : sc h (parent j) < sc h j) by (unfold fq_less in E2; lia).
      apply IH; [|lia]. set (i := parent j) in *.
      assert (Hi : (i < length h)%nat) by lia.
      unfold hp_except. rewrite swap_length. split; [exact Hi|]. split.
      + intros c Hc Hci. rewrite !get_swap by assumption.
        destruct (c =? j)%nat eqn:Ecj.
        * apply Nat.eqb_eq in Ecj. subst c. fold i. rewrite Nat.eqb_refl.
          replace (i =? j)%nat with false by (symmetry; apply Nat.eqb_neq; lia). lia.
        * apply Nat.eqb_neq in Ecj. replace (c =? i)%nat with false by (symmetry; apply Nat.eqb_neq; lia).
          destruct (parent c =? j)%nat eqn:Epj.
          -- apply Nat.eqb_eq in Epj. specialize (H3 c Hc Epj Hj0). fold i in H3. exact H3.
          -- destruct (parent c =? i)%nat eqn:Epi.
             ++ apply Nat.eqb_eq in Epi. specialize (H2 c Hc Ecj). rewrite Epi in H2. lia.
             ++ apply H2; assumption.
      + intros c Hc Hpc Hi0. rewrite !get_swap by assumption.
        pose proof (parent_lt i Hi0) as Hpi.
        replace (parent i =? j)%nat with false by (symmetry; apply Nat.eqb_neq; lia).
        replace (parent i =? i)%nat with false by (symmetry; apply Nat.eqb_neq; lia).
        assert (Hii : sc h i <= sc h (parent i)) by (apply H2; lia).
        destruct (c =? j)%nat eqn:Ecj; [lia|]. apply Nat.eqb_neq in Ecj.
        destruct (c =? i)%nat eqn:Eci.
        * apply Nat.eqb_eq in Eci. subst c. pose proof (parent_lt i Hi0). lia.
        * specialize (H2 c Hc Ecj). rewrite Hpc in H2. lia.
  Qed.

  Lemma get_app_l (h : list frag) x k : (k < length h)%nat -> geth (h ++ [x]) k = geth h k.
  Proof. intros H. unfold get. apply app_nth1. exact H. Qed.

  Lemma heap_push_hp h x : hp h -> hp (heap_push fq_less dflt_frag h x).
  Proof.
    intros H. unfold heap_push, up. apply up_fuel_hp; [|lia].
    unfold hp_except. rewrite app_length. simpl length. split; [lia|]. split.
    - intros c Hc Hne. assert (Hcl : (c < length h)%nat) by lia.
      pose proof (parent_lt c ltac:(lia)). rewrite !get_app_l by lia. apply H. lia.
    - intros c Hc Hp _. pose proof (parent_lt c ltac:(lia)). lia.
  Qed.

  (* an element satisfying Q stays in the heap (somewhere) *)
  Definition has (Q : frag -> Prop) (h : list frag) : Prop := exists k, (k < length h)%nat /\ Q (geth h k).

  Lemma swap_has Q h i j : (i < length h)%nat -> (j < length h)%nat -> has Q h -> has Q (swap dflt_frag h i j).
  Proof.
    intros Hi Hj [k [Hk HQ]]. unfold has. rewrite swap_length.
    destruct (Nat.eq_dec k i) as [->|Hki].
    - exists j. split; [exact Hj|]. rewrite get_swap by assumption. rewrite Nat.eqb_refl. exact HQ.
    - destruct (Nat.eq_dec k j) as [->|Hkj].
      + exists i. split; [exact Hi|]. rewrite get_swap by assumption.
        destruct (i =? j)%nat eqn:E; [apply Nat.eqb_eq in E; subst; exact HQ|]. rewrite Nat.eqb_refl. exact HQ.
      + exists k. split; [exact Hk|]. rewrite get_swap by assumption.
        replace (k =? j)%nat with false by (symmetry; apply Nat.eqb_neq; lia).
        replace (k =? i)%nat with false by (symmetry; apply Nat.eqb_neq; lia). exact HQ.
  Qed.

  Lemma up_fuel_has Q fuel : forall h j, (j < length h)%nat -> has Q h -> has Q (up_fuel fq_less dflt_frag fuel h j).
  Proof.
    induction fuel as [|fuel IH]; intros h j Hj H; [exact H|].
    cbn [up_fuel]; cbv zeta. fold (parent j).
    destruct ((parent j =? j)%nat || negb (fq_less (geth h j) (geth h (parent j)))) eqn:Ec; [exact H|].
    apply orb_false_iff in Ec. destruct Ec as [E1 _]. apply Nat.eqb_neq in E1.
    assert (Hj0 : (0 < j)%nat) by (destruct j; [exfalso; apply E1; reflexivity|lia]).
    pose proof (parent_lt j Hj0). apply IH; [rewrite swap_length; lia|]. apply swap_has; [lia|lia|exact H].
  Qed.

  Lemma heap_push_has_old Q h x : has Q h -> has Q (heap_push fq_less dflt_frag h x).
  Proof.
    intros [k [Hk HQ]]. unfold heap_push, up. apply up_fuel_has; [rewrite app_length; simpl; lia|].
    exists k. split; [rewrite app_length; simpl; lia|]. rewrite get_app_l by exact Hk. exact HQ.
  Qed.

  Lemma heap_push_has_new (Q : frag -> Prop) h x : Q x -> has Q (heap_push fq_less dflt_frag h x).
  Proof.
    intros HQ. unfold heap_push, up. apply up_fuel_has; [rewrite app_length; simpl; lia|].
    exists (length h). split; [rewrite app_length; simpl; lia|]. unfold get. rewrite app_nth2 by lia.
    rewrite Nat.sub_diag. exact HQ.
  Qed.

  Lemma fold_push_hp : forall scored h, hp h -> hp (fold_left (fun h f => heap_push fq_less dflt_frag h f) scored h).
  Proof. induction scored as [|f r IH]; intros h H; simpl; [exact H|]. apply IH. apply heap_push_hp. exact H. Qed.

  Lemma fold_push_has Q : forall scored h, (has Q h \/ Exists Q scored) ->
    has Q (fold_left (fun h f => heap_push fq_less dflt_frag h f) scored h).
  Proof.
    induction scored as [|f r IH]; intros h H; simpl.
    - destruct H as [H|H]; [exact H|inversion H].
    - apply IH. destruct H as [H|H].
      + left. apply heap_push_has_old. exact H.
      + inversion H as [? ? Hf|? ? Hr]; subst; [left; apply heap_push_has_new; exact Hf|right; exact Hr].
  Qed.

  (* down(h, i, n) never touches an index >= n *)
  Lemma down_fuel_keeps fuel : forall h i n k, (i < n)%nat -> (n <= k)%nat -> (n <= length h)%nat ->
    geth (fst (down_fuel fq_less dflt_frag fuel h i n)) k = geth h k.
  Proof.
    induction fuel as [|fuel IH]; intros h i n k Hi Hk Hn; cbn [down_fuel]; cbv zeta; [reflexivity|].
    destruct (n <=? 2 * i + 1)%nat eqn:E1; [reflexivity|]. apply Nat.leb_gt in E1.
    set (j := if ((2 * i + 1 + 1 <? n)%nat && fq_less (geth h (2 * i + 1 + 1)) (geth h (2 * i + 1)))%bool then (2 * i + 1 + 1)%nat else (2 * i + 1)%nat).
    assert (Hj : (j < n)%nat).
    { unfold j. destruct ((2 * i + 1 + 1 <? n)%nat && _)%bool eqn:E2; [|lia].
      apply andb_true_iff in E2. destruct E2 as [E2 _]. apply Nat.ltb_lt in E2. lia. }
    destruct (negb (fq_less (geth h j) (geth h i))); [reflexivity|].
    rewrite IH by (try rewrite swap_length; lia).
    rewrite get_swap by lia.
    replace (k =? j)%nat with false by (symmetry; apply Nat.eqb_neq; lia).
    replace (k =? i)%nat with false by (symmetry; apply Nat.eqb_neq; lia). reflexivity.
  Qed.

  (* heap.Pop returns the root *)
  Lemma heap_pop_root h x h' : heap_pop fq_less dflt_frag h = Some (x, h') -> x = geth h 0.
  Proof.
    unfold heap_pop. destruct h as [|a t] eqn:Eh; [discriminate|]. rewrite <- Eh. intros E. inversion E; subst x h'. clear E.
    assert (Hl : (0 < length h)%nat) by (rewrite Eh; simpl; lia).
    set (n := (length h - 1)%nat).
    destruct (Nat.eq_dec n 0) as [E0|E0].
    - rewrite E0. unfold down. cbn [down_fuel]. cbv zeta. simpl Nat.leb. cbn [fst].
      unfold swap. rewrite get_set_nth_same by (rewrite set_nth_length; lia). reflexivity.
    - unfold down. pose proof (down_fuel_keeps (S n) (swap dflt_frag h 0 n) 0 n n ltac:(lia) ltac:(lia) ltac:(rewrite swap_length; lia)) as Hk.
      destruct (down_fuel fq_less dflt_frag (S n) (swap dflt_frag h 0 n) 0 n) as [h2 i2]. cbn [fst] in *.
      rewrite Hk. rewrite get_swap by lia. rewrite Nat.eqb_refl. reflexivity.
  Qed.
End HeapOrder.

(* the first fragment returned has the highest score of all *)
Lemma best_first_max num scored out f0 :
  0 < num -> best_fragments_sel num scored = Ok out -> In f0 scored ->
  exists f, hd_error out = Some f /\ f_score f0 <= f_score f.
Proof.
  intros Hnum Hb Hin. unfold best_fragments_sel in Hb.
  set (fq := fold_left (fun h f => heap_push fq_less dflt_frag h f) scored []) in *.
  assert (Hhp : hp fq) by (apply fold_push_hp; intros c Hc; simpl in Hc; lia).
  assert (Hhas : has (fun f => f = f0) fq).
  { apply fold_push_has. right. apply Exists_exists. exists f0. auto. }
  destruct (heap_pop fq_less dflt_frag fq) as [[c fq']|] eqn:Ep.
  - pose proof (heap_pop_root _ _ _ Ep) as Hc.
    destruct Hhas as [k [Hk Hf0]].
    pose proof (hp_root_max fq Hhp k Hk) as Hmax. rewrite Hf0 in Hmax. rewrite <- Hc in Hmax.
    assert (HT : Forall (fun _ : frag => True) fq') by (apply Forall_forall; intros; exact I).
    destruct (select_loop_spec (fun _ => True) I (S (length scored)) num fq' c [] HT I (Forall_nil _) (FOP_nil _)
                ltac:(unfold zlen; simpl; lia)) as [out' [H [_ [_ [_ [_ H5]]]]]].
    { assert (Hl : length fq = length scored).
      { destruct (fold_push_P (fun _ => True) I scored [] (proj2 (Forall_forall _ _) (fun _ _ => I)) (Forall_nil _)) as [_ Hl]. exact Hl. }
      destruct (heap_pop_spec fq_less dflt_frag (fun _ => True) I fq c fq' (proj2 (Forall_forall _ _) (fun _ _ => I)) Ep) as [_ [_ Hl']].
      fold fq in Hl. lia. }
    rewrite H in Hb. inversion Hb; subst out'. exists c. split; [apply H5; auto|exact Hmax].
  - destruct Hhas as [k [Hk _]]. unfold heap_pop in Ep. destruct fq; [simpl in Hk; lia|discriminate].
Qed.

(* ------------------------------------------------------------------ valid texts: chains, rune counts *)

Lemma valid_utf8_chain orig : valid_utf8 orig = true -> exists k, fchain orig 0 (zlen orig) k.
Proof.
  unfold valid_utf8.
  assert (H : forall fuel a, 0 <= a <= zlen orig -> (length (skipn (Z.to_nat a) orig) <= fuel)%nat ->
                             valid_utf8_fuel fuel (skipn (Z.to_nat a) orig) = true ->
                             exists k, fchain orig a (zlen orig) k).
  { induction fuel as [|fuel IH]; intros a Ha Hl Hv.
    - exists 0%nat. rewrite skipn_length in Hl. unfold zlen in *. replace a with (Z.of_nat (length orig)) by lia.
      apply fc_nil. unfold zlen. lia.
    - destruct (skipn (Z.to_nat a) orig) as [|b p'] eqn:Ep.
      + exists 0%nat. apply (f_equal (@length Z)) in Ep. rewrite skipn_length in Ep. simpl in Ep.
        unfold zlen in *. replace a with (Z.of_nat (length orig)) by lia. apply fc_nil. unfold zlen. lia.
      + cbn [valid_utf8_fuel] in Hv. rewrite <- Ep in *.
        destruct (decode_rune (skipn (Z.to_nat a) orig)) as [r size] eqn:Ed.
        destruct ((r =? rune_error) && (size =? 1)%nat) eqn:Eb; [discriminate|].
        assert (Hne : skipn (Z.to_nat a) orig <> []) by (rewrite Ep; discriminate).
        pose proof (decode_rune_size_pos _ Hne) as Hp. pose proof (decode_rune_size_le (skipn (Z.to_nat a) orig)) as Hle.
        rewrite Ed in Hp, Hle. cbn [snd] in Hp, Hle. rewrite skipn_length in Hle.
        assert (Han : a < zlen orig).
        { apply (f_equal (@length Z)) in Ep. rewrite skipn_length in Ep. simpl in Ep. unfold zlen. lia. }
        rewrite skipn_skipn' in Hv.
        replace (size + Z.to_nat a)%nat with (Z.to_nat (a + Z.of_nat size)) in Hv by lia.
        destruct (IH (a + Z.of_nat size) ltac:(unfold zlen in *; lia)) as [k Hk].
        * rewrite skipn_length in *. lia.
        * exact Hv.
        * exists (S k). apply fc_step; [lia| |].
          -- rewrite Ed. unfold good. cbn [fst snd]. intros [E1 E2]. subst r.
             assert (size = 1%nat) by lia. subst size. rewrite Z.eqb_refl in Eb. simpl in Eb. discriminate.
          -- rewrite Ed. cbn [snd]. exact Hk. }
  intros Hv. apply (H (length orig) 0); [pose proof (zlen_nonneg orig); lia|simpl; lia|exact Hv].
Qed.

Lemma skipn_firstn_app {A} k (a b : list A) : length a = k -> skipn k (a ++ b) = b.
Proof. intros <-. rewrite skipn_app, skipn_all, Nat.sub_diag. reflexivity. Qed.

Lemma sl_step orig a b :
  0 <= a -> a + Z.of_nat (snd (decode_rune (skipn (Z.to_nat a) orig))) <= b -> b <= zlen orig ->
  sl orig a b = firstn (snd (decode_rune (skipn (Z.to_nat a) orig))) (skipn (Z.to_nat a) orig)
                ++ sl orig (a + Z.of_nat (snd (decode_rune (skipn (Z.to_nat a) orig)))) b.
Proof.
  intros Ha Hb Hn. set (z := snd (decode_rune (skipn (Z.to_nat a) orig))) in *.
  rewrite <- (sl_app orig a (a + Z.of_nat z) b) by lia. f_equal. unfold sl. f_equal. lia.
Qed.

Lemma rune_count_chain orig a b k : fchain orig a b k -> rune_count (sl orig a b) = k.
Proof.
  unfold rune_count.
  assert (H : forall fuel, fchain orig a b k -> (length (sl orig a b) <= fuel)%nat -> rune_count_fuel fuel (sl orig a b) = k).
  { intros fuel Hc. revert fuel. induction Hc as [a Ha|a b k Ha Hg Hc IH]; intros fuel Hl.
    - unfold sl. rewrite Z.sub_diag. simpl. destruct fuel; reflexivity.
    - pose proof (fchain_range _ _ _ _ Hc) as Hr.
      set (p := skipn (Z.to_nat a) orig) in *. set (z := snd (decode_rune p)) in *.
      assert (Hz : (1 <= z)%nat).
      { apply decode_rune_size_pos. intros E. apply (f_equal (@length Z)) in E. unfold p in E. rewrite skipn_length in E.
        unfold zlen in Ha. simpl in E. lia. }
      assert (Hstep : sl orig a b = firstn z p ++ sl orig (a + Z.of_nat z) b) by (apply sl_step; fold p; fold z; lia).
      rewrite Hstep in Hl |- *.
      assert (Hfl : length (firstn z p) = z).
      { rewrite firstn_length. pose proof (decode_rune_size_le p). fold z in H. lia. }
      rewrite app_length, Hfl in Hl.
      destruct fuel as [|fuel]; [lia|].
      destruct (firstn z p ++ sl orig (a + Z.of_nat z) b) as [|x rest] eqn:El.
      { apply (f_equal (@length Z)) in El. rewrite app_length, Hfl in El. simpl in El. lia. }
      cbn [rune_count_fuel]. rewrite <- El. rewrite (decode_rune_firstn p _ Hg). fold z.
      rewrite skipn_firstn_app by exact Hfl. f_equal. apply IH. lia. }
  intros Hc. apply H; [exact Hc|lia].
Qed.

(* two chains ending at the same offset: the shorter one starts later *)
Lemma fchain_suffix_mono orig : forall k j a b e, fchain orig a e j -> fchain orig b e k -> (k <= j)%nat -> a <= b.
Proof.
  induction k as [|k IH]; intros j a b e Ha Hb Hkj.
  - apply fchain_zero in Hb. subst b. apply fchain_range in Ha. lia.
  - destruct j as [|j]; [lia|].
    destruct (fchain_last orig _ _ _ Ha) as [_ Ha']. destruct (fchain_last orig _ _ _ Hb) as [_ Hb'].
    eapply IH; [exact Ha'|exact Hb'|lia].
Qed.

(* two boundaries of the same text are joined by a chain *)
Lemma chain_between orig a b ja jb : fchain orig 0 a ja -> fchain orig 0 b jb -> a <= b -> exists r, fchain orig a b r.
Proof.
  intros Ha Hb Hab. destruct (Nat.le_gt_cases ja jb) as [H|H].
  - exists (jb - ja)%nat. eapply fchain_prefix; eassumption.
  - pose proof (fchain_prefix orig _ _ _ _ _ Hb Ha ltac:(lia)) as Hc.
    destruct (ja - jb)%nat eqn:E; [lia|]. apply fchain_lt in Hc. lia.
Qed.

(* ------------------------------------------------------------------ the fragmenter on valid text with boundary locations *)

Section FragValid.
  Variable orig : list Z.
  Variable fs : Z.
  Variable n : Z.
  Hypothesis Hn : n = zlen orig.

  Definition boundary (x : Z) : Prop := exists j, fchain orig 0 x j.

  Lemma fwd_loop_valid fuel : forall e u j0,
    fchain orig e n j0 -> (Z.to_nat (n - e) < fuel)%nat ->
    exists e' j, fwd_loop orig n fs fuel e u = Ok (Some (e', u + Z.of_nat j)) /\
                 fchain orig e e' j /\ (e' = n \/ fs <= u + Z.of_nat j).
  Proof.
    induction fuel as [|fuel IH]; intros e u j0 Hc Hf; [lia|].
    pose proof (fchain_range _ _ _ _ Hc) as Hr.
    cbn [fwd_loop]. destruct ((e <? n) && (u <? fs)) eqn:Ec.
    - assert (Hen : e < n) by lia.
      rewrite (slice_from_n orig e n Hn) by lia. cbn [rbind].
      inversion Hc as [|a' b' k' Ha Hg Hc']; subst; [lia|].
      set (d := decode_rune (skipn (Z.to_nat e) orig)) in *.
      pose proof Hg as Hg'. apply bad_rune_good in Hg'. rewrite Hg'.
      pose proof (fchain_range _ _ _ _ Hc') as Hr'.
      assert (Hp : (1 <= snd d)%nat).
      { apply decode_rune_size_pos. intros E. apply (f_equal (@length Z)) in E. rewrite skipn_length in E.
        unfold zlen in *. simpl in E. lia. }
      destruct (IH (e + Z.of_nat (snd d)) (u + 1) _ Hc' ltac:(lia)) as [e' [j [H [Hcc Hs]]]].
      exists e', (S j). split; [rewrite H; f_equal; f_equal; f_equal; lia|]. split.
      + apply fc_step; [lia|exact Hg|exact Hcc].
      + destruct Hs as [Hs|Hs]; [left; exact Hs|right; lia].
    - exists e, 0%nat. split; [f_equal; f_equal; f_equal; lia|]. split; [apply fc_nil; lia|]. lia.
  Qed.

  Lemma back_loop_valid fuel mb : forall s u j0,
    fchain orig 0 s j0 -> s <= n -> (Z.to_nat s < fuel)%nat ->
    exists s' j, back_loop orig n fs fuel mb s u = Ok (Some (s', u + Z.of_nat j)) /\
                 fchain orig s' s j /\ (j <= j0)%nat /\ fchain orig 0 s' (j0 - j).
  Proof.
    induction fuel as [|fuel IH]; intros s u j0 Hc Hsn Hf; [lia|].
    pose proof (fchain_range _ _ _ _ Hc) as Hr.
    cbn [back_loop]. destruct ((0 <? s) && (u <? fs)) eqn:Ec.
    - replace (n <? s) with false by lia.
      rewrite slice_to by lia. cbn [rbind].
      destruct j0 as [|j0]; [apply fchain_zero in Hc; lia|].
      destruct (fchain_last orig _ _ _ Hc) as [Hg Hc'].
      set (d := decode_last_rune (firstn (Z.to_nat s) orig)) in *.
      pose proof Hg as Hg'. apply bad_rune_good in Hg'. rewrite Hg'.
      destruct (step_of_back orig s ltac:(lia) Hg) as [H0 [H1 Hc1]]. fold d in H0, H1, Hc1.
      destruct (mb <=? s - Z.of_nat (snd d)) eqn:Em.
      + destruct (IH (s - Z.of_nat (snd d)) (u + 1) j0 Hc' ltac:(lia) ltac:(lia)) as [s' [j [H [Hcc [Hj Hpre]]]]].
        exists s', (S j). split; [rewrite H; f_equal; f_equal; f_equal; lia|]. split.
        * replace (S j) with (j + 1)%nat by lia. eapply fchain_app; eassumption.
        * split; [lia|]. replace (S j0 - S j)%nat with (j0 - j)%nat by lia. exact Hpre.
      + exists s, 0%nat. split; [f_equal; f_equal; f_equal; lia|]. split; [apply fc_nil; lia|]. split; [lia|].
        rewrite Nat.sub_0_r. exact Hc.
    - exists s, 0%nat. split; [f_equal; f_equal; f_equal; lia|]. split; [apply fc_nil; lia|]. split; [lia|].
      rewrite Nat.sub_0_r. exact Hc.
  Qed.

  Lemma centre_loop_valid k : forall s e js j,
    fchain orig 0 s js -> fchain orig s e j -> (k <= js)%nat ->
    exists s' e', centre_loop orig k s e = Ok (Some (s', e')) /\
                  fchain orig s' s k /\ fchain orig e' e k /\ fchain orig s' e' j.
  Proof.
    induction k as [|k IH]; intros s e js j Hpre Hc Hk.
    - pose proof (fchain_range _ _ _ _ Hc) as Hr.
      exists s, e. split; [reflexivity|]. split; [apply fc_nil; lia|]. split; [apply fc_nil; lia|exact Hc].
    - pose proof (fchain_range _ _ _ _ Hc) as Hr. cbn [centre_loop].
      rewrite slice_to by lia. cbn [rbind].
      destruct js as [|js]; [lia|].
      destruct (fchain_last orig _ _ _ Hpre) as [Hg Hpre'].
      set (d := decode_last_rune (firstn (Z.to_nat s) orig)) in *.
      pose proof Hg as Hg'. apply bad_rune_good in Hg'. rewrite Hg'.
      assert (Hs0 : 0 < s) by (apply fchain_lt in Hpre; exact Hpre).
      destruct (step_of_back orig s ltac:(lia) Hg) as [H0 [H1 Hc1]]. fold d in H0, H1, Hc1.
      rewrite slice_to by lia. cbn [rbind].
      assert (Hc2 : fchain orig (s - Z.of_nat (snd d)) e (S j)).
      { replace (S j) with (1 + j)%nat by lia. eapply fchain_app; eassumption. }
      destruct (fchain_last orig _ _ _ Hc2) as [Hg2 Hc3].
      set (d2 := decode_last_rune (firstn (Z.to_nat e) orig)) in *.
      pose proof Hg2 as Hg2'. apply bad_rune_good in Hg2'. rewrite Hg2'.
      destruct (step_of_back orig e ltac:(lia) Hg2) as [H0' [H1' Hc1']]. fold d2 in H0', H1', Hc1'.
      destruct (IH _ _ js j Hpre' Hc3 ltac:(lia)) as [s' [e' [H [Ha [Hb Hcc]]]]].
      exists s', e'. split; [exact H|]. split; [|split; [|exact Hcc]].
      + replace (S k) with (k + 1)%nat by lia. eapply fchain_app; eassumption.
      + replace (S k) with (k + 1)%nat by lia. eapply fchain_app; eassumption.
  Qed.

  (* a well-formed location: inside the text, both ends on rune boundaries *)
  Definition wf_loc (t : tloc) : Prop := in_bounds t n = true /\ boundary (tl_start t) /\ boundary (tl_end t).

  (* what minend is: the initial value (= end) or the End of an in-bounds location of the list *)
  Lemma minend_loop_spec e : forall l m0,
    minend_loop n e m0 l = m0 \/
    exists t, In t l /\ in_bounds t n = true /\ tl_end t <= e /\ minend_loop n e m0 l = tl_end t.
  Proof.
    induction l as [|t r IH]; intros m0; cbn [minend_loop]; [left; reflexivity|].
    destruct (negb (in_bounds t n)) eqn:Eb.
    { destruct (IH m0) as [H|[t' [Hi H]]]; [left; exact H|right; exists t'; split; [right; exact Hi|exact H]]. }
    destruct (e <? tl_end t) eqn:Ee; [left; reflexivity|].
    assert (Hb : in_bounds t n = true) by (destruct (in_bounds t n); simpl in Eb; congruence).
    destruct (IH (tl_end t)) as [H|[t' [Hi H]]].
    - right. exists t. split; [left; reflexivity|]. split; [exact Hb|]. split; [lia|exact H].
    - right. exists t'. split; [right; exact Hi|exact H].
  Qed.

  Lemma minend_loop_head e t r : in_bounds t n = true -> tl_end t <= e ->
    exists t', In t' (t :: r) /\ in_bounds t' n = true /\ tl_end t' <= e /\ minend_loop n e e (t :: r) = tl_end t'.
  Proof.
    intros Hb He. cbn [minend_loop]. rewrite Hb. cbn [negb]. replace (e <? tl_end t) with false by lia.
    destruct (minend_loop_spec e r (tl_end t)) as [H|[t' [Hi [H1 [H2 H3]]]]].
    - exists t. split; [left; reflexivity|]. auto.
    - exists t'. split; [right; exact Hi|]. auto.
  Qed.

  Lemma one_fragment_valid mb t rest :
    boundary mb -> wf_loc t -> Forall wf_loc rest -> Forall (fun t' => tl_start t <= tl_start t') rest ->
    (exists jn, fchain orig 0 n jn) ->
    exists f, one_fragment orig n fs mb t (t :: rest) = Ok (Some f) /\ on_chain orig f /\ f_score f = 0 /\
              ((exists k, fchain orig (tl_start t) (tl_end t) k /\ Z.of_nat k <= fs) ->
               exists t', In t' (t :: rest) /\ f_start f <= tl_start t' /\ tl_end t' <= f_end f).
  Proof.
    intros [jm Hmb] [Hb [[j1 Hts] [j1' Hte]]] Hrest Hsorted [jn Hfull].
    pose proof Hb as Hb'. unfold in_bounds in Hb'.
    (* the suffix chain from tl_start t to the end of the text *)
    destruct (chain_between orig (tl_start t) n _ _ Hts Hfull ltac:(lia)) as [j2 Hsuf].
    unfold one_fragment, loop_fuel.
    destruct (fwd_loop_valid (S (length orig)) (tl_start t) 0 j2 Hsuf ltac:(unfold zlen in *; lia))
      as [e [j [H [Hc Hstop]]]]. rewrite H. cbn [rbind].
    pose proof (fchain_range _ _ _ _ Hc) as Hr.
    destruct (back_loop_valid (S (length orig)) mb (tl_start t) (0 + Z.of_nat j) j1 Hts ltac:(lia) ltac:(unfold zlen in *; lia))
      as [s [jb [H2 [Hc2 [Hjb Hpre]]]]]. rewrite H2. cbn [rbind].
    pose proof (fchain_range _ _ _ _ Hc2) as Hr2.
    (* minend is a boundary <= e *)
    set (minend := minend_loop n e e (t :: rest)).
    assert (Hme : 0 <= minend <= e) by (apply minend_loop_range; lia).
    assert (Hpe : fchain orig 0 e (j1 + j)) by (eapply fchain_app; eassumption).
    assert (Hmb' : boundary minend).
    { destruct (minend_loop_spec e (t :: rest) e) as [Hm|[t' [Hi [_ [_ Hm]]]]]; fold minend in Hm; rewrite Hm.
      - exists (j1 + j)%nat. exact Hpe.
      - destruct Hi as [<-|Hi]; [exists j1'; exact Hte|].
        rewrite Forall_forall in Hrest. destruct (Hrest t' Hi) as [_ [_ Hbe]]. exact Hbe. }
    destruct Hmb' as [jme Hmec].
    destruct (chain_between orig minend e _ _ Hmec Hpe ltac:(lia)) as [r Hroom].
    rewrite slice_sl by lia. cbn [rbind]. rewrite (rune_count_chain _ _ _ _ Hroom).
    (* room at the start *)
    assert (Hrs : exists rs, (if mb <=? s then q <- slice orig mb s;; Ok (Z.of_nat (rune_count q)) else Ok 0) = Ok (Z.of_nat rs) /\
                             (rs <= j1 - jb)%nat).
    { destruct (mb <=? s) eqn:E.
      - pose proof (fchain_range _ _ _ _ Hmb) as Hrm.
        destruct (chain_between orig mb s _ _ Hmb Hpre ltac:(lia)) as [rs Hcs].
        rewrite slice_sl by lia. cbn [rbind]. rewrite (rune_count_chain _ _ _ _ Hcs). exists rs. split; [reflexivity|].
        (* jm + rs = j1 - jb by determinism *)
        pose proof (fchain_app orig _ _ _ _ _ Hmb Hcs) as Hsum.
        destruct (Nat.le_gt_cases (jm + rs) (j1 - jb)) as [Hle|Hgt]; [lia|].
        pose proof (fchain_prefix orig _ _ _ _ _ Hpre Hsum ltac:(lia)) as Hx.
        destruct (jm + rs - (j1 - jb))%nat eqn:E2; [lia|]. apply fchain_lt in Hx. lia.
      - exists 0%nat. split; [reflexivity|lia]. }
    destruct Hrs as [rs [Hv Hrsle]]. rewrite Hv. cbn [rbind].
    set (room' := if Z.of_nat rs <? Z.of_nat r then Z.of_nat rs else Z.of_nat r).
    set (kk := Z.to_nat (Z.quot room' 2)).
    assert (Hq : 0 <= Z.quot room' 2 /\ 2 * Z.quot room' 2 <= room').
    { assert (Hr0 : 0 <= room') by (unfold room'; destruct (Z.of_nat rs <? Z.of_nat r); lia).
      pose proof (Z.quot_pos room' 2 Hr0 Z.lt_0_2) as Hq1. pose proof (Z.mul_quot_le room' 2 Hr0 ltac:(discriminate)) as Hq2.
      split; [exact Hq1|exact (proj2 Hq2)]. }
    assert (Hkk1 : (kk <= j1 - jb)%nat) by (unfold kk, room' in *; destruct (Z.of_nat rs <? Z.of_nat r) eqn:E; lia).
    assert (Hkk2 : (kk <= r)%nat) by (unfold kk, room' in *; destruct (Z.of_nat rs <? Z.of_nat r) eqn:E; lia).
    assert (Hc3 : fchain orig s e (jb + j)) by (eapply fchain_app; eassumption).
    destruct (centre_loop_valid kk s e (j1 - jb) (jb + j) Hpre Hc3 Hkk1) as [s' [e' [H3 [Ha [Hbk Hcc]]]]].
    rewrite H3. cbn [rbind].
    eexists. split; [reflexivity|]. split; [exists (jb + j)%nat; exact Hcc|]. split; [reflexivity|].
    intros [k [Hfit Hk]]. cbn [f_start f_end].
    (* the location itself ends before the forward window does *)
    assert (Hte_e : tl_end t <= e).
    { destruct Hstop as [Hs|Hs]; [lia|]. eapply (fchain_mono orig); [exact Hfit|exact Hc|lia]. }
    destruct (minend_loop_head e t rest Hb Hte_e) as [t' [Hi [_ [_ Hm]]]]. fold minend in Hm.
    exists t'. split; [exact Hi|].
    pose proof (fchain_range _ _ _ _ Ha) as Hra.
    pose proof (fchain_suffix_mono orig _ _ _ _ _ Hroom Hbk Hkk2) as Hge.
    split.
    - destruct Hi as [<-|Hi]; [lia|]. rewrite Forall_forall in Hsorted. specialize (Hsorted t' Hi). lia.
    - lia.
  Qed.

  Lemma frag_loop_valid : forall l mb,
    boundary mb -> Forall wf_loc l -> StronglySorted start_le l -> (exists jn, fchain orig 0 n jn) ->
    exists frs, frag_loop orig n fs mb l = Ok frs /\
                forall t, In t l -> (exists k, fchain orig (tl_start t) (tl_end t) k /\ Z.of_nat k <= fs) ->
                          exists f t', In f frs /\ In t' l /\ f_start f <= tl_start t' /\ tl_end t' <= f_end f.
  Proof.
    induction l as [|t rest IH]; intros mb Hmb Hwf Hsorted Hfull; cbn [frag_loop].
    - exists []. split; [reflexivity|]. intros t [].
    - inversion Hwf as [|? ? Ht Hrest]; subst. inversion Hsorted as [|? ? Hs Hall]; subst.
      destruct Ht as [Hb Ht']. rewrite Hb. cbn [negb].
      destruct (one_fragment_valid mb t rest Hmb (conj Hb Ht') Hrest Hall Hfull) as [f [H [_ [_ Hfit]]]].
      rewrite H. cbn [rbind].
      destruct (IH (tl_end t) (proj2 Ht') Hrest Hs Hfull) as [frs [Hfr Hprop]]. rewrite Hfr. cbn [rbind].
      exists (f :: frs). split; [reflexivity|].
      intros t0 [<-|Hi] Hk.
      + destruct (Hfit Hk) as [t' [Hi' [H1 H2]]]. exists f, t'. split; [left; reflexivity|]. auto.
      + destruct (Hprop t0 Hi Hk) as [f' [t' [Hf' [Ht'' [H1 H2]]]]]. exists f', t'. split; [right; exact Hf'|].
        split; [right; exact Ht''|]. auto.
  Qed.
End FragValid.

(* ------------------------------------------------------------------ the best fragment contains a match *)

Definition count_step (s e : Z) (acc : Z) (locs : list tloc) : Z :=
  if existsb (loc_inside s e) locs then acc + 1 else acc.

Lemma score_fragment_eq m f : f_score (score_fragment m f) = fold_left (count_step (f_start f) (f_end f)) m 0.
Proof. reflexivity. Qed.

Lemma count_mono s e : forall m acc, acc <= fold_left (count_step s e) m acc.
Proof.
  induction m as [|locs r IH]; intros acc; simpl; [lia|]. specialize (IH (count_step s e acc locs)).
  unfold count_step in *. destruct (existsb (loc_inside s e) locs); lia.
Qed.

Lemma count_pos s e : forall m acc locs, In locs m -> existsb (loc_inside s e) locs = true ->
  acc + 1 <= fold_left (count_step s e) m acc.
Proof.
  induction m as [|l0 r IH]; intros acc locs Hin Hex; [destruct Hin|]. simpl. destruct Hin as [->|Hin].
  - assert (Heq : count_step s e acc locs = acc + 1) by (unfold count_step; rewrite Hex; reflexivity).
    rewrite Heq. apply count_mono.
  - specialize (IH (count_step s e acc l0) locs Hin Hex).
    assert (Hle : acc <= count_step s e acc l0) by (unfold count_step; destruct (existsb (loc_inside s e) l0); lia).
    lia.
Qed.

Lemma count_inv s e : forall m acc, acc < fold_left (count_step s e) m acc ->
  exists locs, In locs m /\ existsb (loc_inside s e) locs = true.
Proof.
  induction m as [|l0 r IH]; intros acc H; simpl in H; [lia|].
  destruct (existsb (loc_inside s e) l0) eqn:E.
  - exists l0. split; [left; reflexivity|exact E].
  - assert (Heq : count_step s e acc l0 = acc) by (unfold count_step; rewrite E; reflexivity).
    rewrite Heq in H. destruct (IH acc H) as [locs [Hi Hx]]. exists locs. split; [right; exact Hi|exact Hx].
Qed.

Lemma score_pos m f t : In t (concat m) -> f_start f <= tl_start t -> tl_end t <= f_end f ->
  1 <= f_score (score_fragment m f).
Proof.
  intros Hin H1 H2. apply in_concat in Hin. destruct Hin as [locs [Hl Ht]]. rewrite score_fragment_eq.
  apply (count_pos _ _ m 0 locs Hl). apply existsb_exists. exists t. split; [exact Ht|]. unfold loc_inside. lia.
Qed.

Lemma score_inv m f : 1 <= f_score (score_fragment m f) ->
  exists t, In t (concat m) /\ f_start f <= tl_start t /\ tl_end t <= f_end f.
Proof.
  rewrite score_fragment_eq. intros H. destruct (count_inv (f_start f) (f_end f) m 0 ltac:(lia)) as [locs [Hl Hx]].
  apply existsb_exists in Hx. destruct Hx as [t [Ht Hi]]. exists t. split.
  - apply in_concat. exists locs. auto.
  - unfold loc_inside in Hi. lia.
Qed.

(* For a valid UTF-8 text and locations that lie inside the text on rune boundaries: when some location
   is at most fs runes long (it fits the fragment size) and at least one fragment is asked for, the
   first fragment returned contains a location of the map entirely. *)
Theorem best_has_match_all fs m orig num :
  valid_utf8 orig = true ->
  Forall (wf_loc orig (zlen orig)) (concat m) ->
  0 < num ->
  (exists t k, In t (concat m) /\ fchain orig (tl_start t) (tl_end t) k /\ Z.of_nat k <= fs) ->
  exists f rest t', best_fragments_raw fs m orig num = Ok (f :: rest) /\
                    In t' (concat m) /\ f_start f <= tl_start t' /\ tl_end t' <= f_end f.
Proof.
  intros Hvalid Hwf Hnum [t [k [Hin [Hfit Hk]]]].
  destruct (valid_utf8_chain orig Hvalid) as [jn Hfull].
  destruct (sort_locs_spec (concat m)) as [Hsorted Hperm].
  unfold best_fragments_raw, order_term_locations.
  set (ot := sort_locs (concat m)) in *.
  assert (Hwf' : Forall (wf_loc orig (zlen orig)) ot).
  { rewrite Forall_forall in *. intros x Hx. apply Hwf. eapply Permutation_in; [apply Permutation_sym; exact Hperm|exact Hx]. }
  assert (Hin' : In t ot) by (eapply Permutation_in; [exact Hperm|exact Hin]).
  assert (Hb0 : boundary orig 0) by (exists 0%nat; apply fc_nil; pose proof (zlen_nonneg orig); lia).
  destruct (frag_loop_valid orig fs (zlen orig) eq_refl ot 0 Hb0 Hwf' Hsorted (ex_intro _ jn Hfull)) as [frs [Hfr Hprop]].
  destruct (Hprop t Hin' (ex_intro _ k (conj Hfit Hk))) as [f0 [t'' [Hf0 [Ht'' [H1 H2]]]]].
  unfold fragment. destruct ot as [|t0 r0] eqn:Eot; [destruct Hin'|]. rewrite <- Eot in *. rewrite Hfr. cbn [rbind].
  set (scored := map (score_fragment m) frs).
  assert (Hg0 : In (score_fragment m f0) scored) by (apply in_map; exact Hf0).
  assert (Hs0 : 1 <= f_score (score_fragment m f0)).
  { apply (score_pos m f0 t''); [eapply Permutation_in; [apply Permutation_sym; exact Hperm|exact Ht'']|exact H1|exact H2]. }
  set (P := fun f : frag => f = dflt_frag \/ exists g, f = score_fragment m g).
  assert (HP : Forall P scored).
  { apply Forall_forall. intros x Hx. apply in_map_iff in Hx. destruct Hx as [g [<- _]]. right. exists g. reflexivity. }
  destruct (best_fragments_sel_spec P (or_introl eq_refl) num scored HP) as [out [Hout [HPout _]]].
  destruct (best_first_max num scored out _ Hnum Hout Hg0) as [f [Hhd Hmax]].
  rewrite Hout. destruct out as [|f' rest]; [discriminate|]. simpl in Hhd. inversion Hhd; subst f'.
  inversion HPout as [|? ? HPf _]; subst.
  destruct HPf as [->|[g ->]].
  - unfold dflt_frag in Hmax. cbn [f_score] in Hmax. lia.
  - destruct (score_inv m g ltac:(lia)) as [t' [Ht' [Ha Hb]]].
    exists (score_fragment m g), rest, t'. split; [reflexivity|]. auto.
Qed.

(* fragments built around locations consist of whole, well-formed runes — for EVERY text and location
   list (a fragment is never cut inside a rune that decodes), because every step of the window walks
   decodes a rune that is not (RuneError, width <= 1) *)
Theorem fragment_whole_runes orig fs ot frs :
  0 <= fs -> ot <> [] -> fragment orig (zlen orig) fs ot = Ok frs ->
  Forall (fun f => exists j, fchain orig (f_start f) (f_end f) j) frs.
Proof.
  intros Hfs Hne H. destruct (fragment_total orig fs (zlen orig) eq_refl ot Hfs) as [frs' [H' [_ Hc]]].
  rewrite H in H'. inversion H'; subst frs'. apply Hc. exact Hne.
Qed.

(* without locations the default fragment is cut after fragmentSize BYTES: inside a rune *)
Lemma default_fragment_rune_boundary_refuted :
  exists orig fs frs, valid_utf8 orig = true /\ fragment orig (zlen orig) fs [] = Ok frs /\
                      ~ Forall (fun f => exists j, fchain orig (f_start f) (f_end f) j) frs.
Proof.
  exists [230; 151; 165; 230; 156; 172], 1, [mkFrag 0 1 0]. split; [reflexivity|]. split; [reflexivity|].
  intros H. inversion H as [|? ? [j Hj] _]; subst. cbn [f_start f_end] in Hj.
  inversion Hj as [|a b k Ha Hg Hc]; subst. simpl in Hc. apply fchain_range in Hc. lia.
Qed.

(* ------------------------------------------------------------------ a checker for chains (used by the Examples) *)

Fixpoint chain_check (orig : list Z) (fuel : nat) (a b : Z) : option nat :=
  match fuel with
  | O => None
  | S f =>
      if a =? b then (if (0 <=? a) && (a <=? zlen orig) then Some 0%nat else None)
      else if (0 <=? a) && (a <? zlen orig) then
        let d := decode_rune (skipn (Z.to_nat a) orig) in
        if bad_rune d then None
        else match chain_check orig f (a + Z.of_nat (snd d)) b with
             | Some k => Some (S k)
             | None => None
             end
      else None
  end.

Lemma chain_check_sound orig : forall fuel a b k, chain_check orig fuel a b = Some k -> fchain orig a b k.
Proof.
  induction fuel as [|fuel IH]; intros a b k H; [discriminate|]. cbn [chain_check] in H.
  destruct (a =? b) eqn:Eab.
  - destruct ((0 <=? a) && (a <=? zlen orig)) eqn:E; [|discriminate]. inversion H; subst k.
    apply Z.eqb_eq in Eab. subst b. apply fc_nil. lia.
  - destruct ((0 <=? a) && (a <? zlen orig)) eqn:E; [|discriminate].
    destruct (bad_rune (decode_rune (skipn (Z.to_nat a) orig))) eqn:Eb; [discriminate|].
    destruct (chain_check orig fuel (a + Z.of_nat (snd (decode_rune (skipn (Z.to_nat a) orig)))) b) as [k'|] eqn:Ec; [|discriminate].
    inversion H; subst k. apply fc_step; [lia|apply bad_rune_good; exact Eb|apply IH; exact Ec].
Qed.

(* "héllo wörld": h é(2) l l o ' ' w ö(2) r l d = 13 bytes; locations héllo [0,6) and wörld [7,13) *)
Definition ex_text : list Z := [104; 195; 169; 108; 108; 111; 32; 119; 195; 182; 114; 108; 100].
Definition ex_map : tlmap := [[mkLoc 7 13]; [mkLoc 0 6]].

Example ex_best_has_match_hyps :
  valid_utf8 ex_text = true /\
  Forall (wf_loc ex_text (zlen ex_text)) (concat ex_map) /\
  (exists t k, In t (concat ex_map) /\ fchain ex_text (tl_start t) (tl_end t) k /\ Z.of_nat k <= 5) /\
  best_fragments default_html default_separator 5 ex_map ex_text 2
  = Ok [[60; 109; 97; 114; 107; 62; 104; 195; 169; 108; 108; 111; 60; 47; 109; 97; 114; 107; 62; 226; 128; 166];
        [226; 128; 166; 60; 109; 97; 114; 107; 62; 119; 195; 182; 114; 108; 100; 60; 47; 109; 97; 114; 107; 62]].
Proof.
  split; [reflexivity|]. split; [|split].
  - repeat constructor; try reflexivity; unfold boundary; cbn [tl_start tl_end];
      try (exists 0%nat; apply (chain_check_sound ex_text 20); reflexivity);
      try (exists 5%nat; apply (chain_check_sound ex_text 20); reflexivity);
      try (exists 6%nat; apply (chain_check_sound ex_text 20); reflexivity);
      try (exists 11%nat; apply (chain_check_sound ex_text 20); reflexivity).
  - exists (mkLoc 0 6), 5%nat. split; [right; left; reflexivity|]. split; [|simpl; lia].
    apply (chain_check_sound ex_text 20). reflexivity.
  - vm_compute. reflexivity.
Qed.

(* the replayed defect D5: location {Start:-3, End:2} on "hello world" — no panic, the location is ignored *)
Example ex_d5_input :
  best_fragments default_html default_separator 200 [[mkLoc (-3) 2]]
                 [104; 101; 108; 108; 111; 32; 119; 111; 114; 108; 100] 1 = Ok [].
Proof. vm_compute. reflexivity. Qed.

(* a nested location no longer shrinks the marked span (fix 0996d48): "quick brown fox j" with
   [0,15) and [6,11) marks the whole of "quick brown fox" *)
Example ex_nested :
  best_fragments default_html default_separator 200 [[mkLoc 0 15]; [mkLoc 6 11]]
                 [113; 117; 105; 99; 107; 32; 98; 114; 111; 119; 110; 32; 102; 111; 120; 32; 106] 1
  = Ok [[60; 109; 97; 114; 107; 62; 113; 117; 105; 99; 107; 32; 98; 114; 111; 119; 110; 32; 102; 111; 120;
         60; 47; 109; 97; 114; 107; 62; 32; 106]].
Proof. vm_compute. reflexivity. Qed.

(* ------------------------------------------------------------------ DocumentMatch.Complete *)

Lemma assoc_get_in {V} k (m : list (Z * V)) v : assoc_get k m = Some v -> In (k, v) m.
Proof.
  induction m as [|[k' v'] r IH]; simpl; [discriminate|]. destruct (k' =? k) eqn:E.
  - intros H. inversion H; subst. apply Z.eqb_eq in E. subst. left. reflexivity.
  - intros H. right. apply IH. exact H.
Qed.

Lemma in_assoc_set {V} k (v : V) m k' v' : In (k', v') (assoc_set k v m) -> (k' = k /\ v' = v) \/ In (k', v') m.
Proof.
  induction m as [|[k0 v0] r IH]; simpl.
  - intros [H|[]]. inversion H. left. auto.
  - destruct (k0 =? k) eqn:E.
    + intros [H|H]; [inversion H; subst; apply Z.eqb_eq in E; left; auto|right; right; exact H].
    + intros [H|H]; [right; left; exact H|]. destruct (IH H) as [H'|H']; [left; exact H'|right; right; exact H'].
Qed.

Lemma insert_pos_in l s x : In x (insert_pos l s) -> x = l \/ In x s.
Proof.
  induction s as [|h r IH]; simpl; [intros [H|[]]; auto|].
  destruct (sp_pos l <? sp_pos h); simpl.
  - intros [H|[H|H]]; auto.
  - intros [H|H]; [auto|]. destruct (IH H); auto.
Qed.

Lemma sort_pos_in s x : In x (sort_pos s) -> In x s.
Proof.
  unfold sort_pos. assert (H : forall acc, In x (fold_left (fun acc l => insert_pos l acc) s acc) -> In x acc \/ In x s).
  { induction s as [|l r IH]; intros acc; simpl; [auto|]. intros Hx. destruct (IH _ Hx) as [H|H]; [|auto].
    apply insert_pos_in in H. destruct H; auto. }
  intros Hx. destruct (H [] Hx) as [[]|H']; exact H'.
Qed.

Lemma uniq_from_in prev s x : In x (uniq_from prev s) -> In x s.
Proof.
  revert prev. induction s as [|h r IH]; intros prev; simpl; [auto|].
  destruct (sloc_eqb prev h); simpl; [intros H; right; eapply IH; exact H|].
  intros [H|H]; [left; exact H|right; eapply IH; exact H].
Qed.

Lemma dedupe_in s x : In x (dedupe s) -> In x s.
Proof.
  unfold dedupe. destruct s as [|a [|b r]]; [auto|auto|].
  destruct (sort_pos (a :: b :: r)) as [|h t] eqn:E; [intros []|].
  intros [H|H]; apply sort_pos_in; rewrite E; [left; exact H|right; eapply uniq_from_in; exact H].
Qed.

Definition locmap_sound (locs : locmap) (l : list ftloc) : Prop :=
  forall f tlm t ls x, In (f, tlm) locs -> In (t, ls) tlm -> In x ls -> In (f, t, x) l.

Lemma complete_fold_sound : forall l st done,
  (forall s, st = Ok s -> locmap_sound (snd (fst s)) done) ->
  forall s, fold_left complete_step l st = Ok s -> locmap_sound (snd (fst s)) (done ++ l).
Proof.
  induction l as [|x r IH]; intros st done Hst s Hf; simpl in Hf.
  - rewrite app_nil_r. apply Hst. exact Hf.
  - replace (done ++ x :: r) with ((done ++ [x]) ++ r) by (rewrite <- app_assoc; reflexivity).
    eapply IH; [|exact Hf]. intros s' Hs'.
    destruct st as [s0| | |]; try discriminate. specialize (Hst s0 eq_refl).
    destruct s0 as [[[started last] locs] needs]. destruct x as [[fld term] loc]. cbn [complete_step rbind] in Hs'.
    destruct (negb (started || negb (last =? fld))); [discriminate|]. inversion Hs'; subst s'. clear Hs'. cbn [fst snd] in *.
    set (tlm := match assoc_get fld locs with Some t => t | None => [] end) in *.
    set (ls := match assoc_get term tlm with Some l0 => l0 | None => [] end) in *.
    intros f tlm' t ls' y Hf' Ht' Hy.
    apply in_assoc_set in Hf'. destruct Hf' as [[-> ->]|Hf'].
    + apply in_assoc_set in Ht'. destruct Ht' as [[-> ->]|Ht'].
      * apply in_app_or in Hy. destruct Hy as [Hy|[<-|[]]]; [|apply in_or_app; right; left; reflexivity].
        apply in_or_app. left. unfold ls in Hy. destruct (assoc_get term tlm) as [l0|] eqn:E1; [|destruct Hy].
        unfold tlm in E1. destruct (assoc_get fld locs) as [t0|] eqn:E2; [|simpl in E1; discriminate].
        eapply Hst; [apply assoc_get_in; exact E2|apply assoc_get_in; exact E1|exact Hy].
      * apply in_or_app. left. unfold tlm in Ht'. destruct (assoc_get fld locs) as [t0|] eqn:E2; [|destruct Ht'].
        eapply Hst; [apply assoc_get_in; exact E2|exact Ht'|exact Hy].
    + apply in_or_app. left. eapply Hst; eassumption.
Qed.

(* every location of the map Complete builds is a location of that field and term in the match's
   FieldTermLocations: in particular in-range, ordered (Start <= End) locations stay so *)
Theorem complete_sound l m : complete l = Ok m ->
  forall f tlm t ls x, In (f, tlm) m -> In (t, ls) tlm -> In x ls -> In (f, t, x) l.
Proof.
  unfold complete. destruct (fold_left complete_step l (Ok (false, 0, [], false))) as [s| | |] eqn:Ef; try discriminate.
  cbn [rbind].
  assert (H0 : forall s0, Ok (false, 0, @nil (Z * list (Z * list sloc)), false) = Ok s0 -> locmap_sound (snd (fst s0)) []).
  { intros s0 E. inversion E; subst. unfold locmap_sound. cbn [fst snd]. intros f tlm t ls x []. }
  pose proof (complete_fold_sound l _ [] H0 s Ef) as Hs.
  simpl in Hs. destruct s as [[[started last] locs] needs]. cbn [fst snd] in Hs.
  destruct needs; intros Hm; inversion Hm; subst m; clear Hm; [|exact Hs].
  intros f tlm t ls x Hf Ht Hx. apply in_map_iff in Hf. destruct Hf as [[f0 tlm0] [E0 Hf0]]. cbn [fst snd] in E0.
  inversion E0; subst f tlm. clear E0. apply in_map_iff in Ht. destruct Ht as [[t0 ls0] [E1 Ht0]]. cbn [fst snd] in E1.
  inversion E1; subst t ls. clear E1. apply dedupe_in in Hx. eapply Hs; eassumption.
Qed.

(* Complete panics exactly when the first location belongs to the field named "" (id 0): no query
   addresses that field, so searches never produce it *)
Lemma complete_fold_started : forall l last locs needs,
  exists s, fold_left complete_step l (Ok (true, last, locs, needs)) = Ok s.
Proof.
  induction l as [|[[fld term] loc] r IH]; intros last locs needs; simpl; [eexists; reflexivity|]. apply IH.
Qed.

Lemma complete_fold_panic : forall l c, fold_left complete_step l (Panic c) = Panic c.
Proof. induction l as [|x r IH]; intros c; simpl; [reflexivity|apply IH]. Qed.

Theorem complete_panics_iff l :
  (exists c, complete l = Panic c) <-> (exists t loc r, l = (0, t, loc) :: r).
Proof.
  unfold complete. destruct l as [|[[fld term] loc] r].
  - simpl. split; [intros [c H]; discriminate|intros [t [loc [r H]]]; discriminate].
  - cbn [fold_left]. destruct (fld =? 0) eqn:E.
    + apply Z.eqb_eq in E. subst fld.
      assert (H1 : complete_step (Ok (false, 0, [], false)) (0, term, loc) = Panic 2) by reflexivity.
      rewrite H1, complete_fold_panic. cbn [rbind]. split.
      * intros _. exists term, loc, r. reflexivity.
      * intros _. exists 2%nat. reflexivity.
    + assert (H1 : exists locs' needs', complete_step (Ok (false, 0, [], false)) (fld, term, loc) = Ok (true, fld, locs', needs')).
      { unfold complete_step. cbn [rbind]. replace (negb (false || negb (0 =? fld))) with false by (rewrite Z.eqb_sym, E; reflexivity).
        eexists. eexists. reflexivity. }
      destruct H1 as [locs' [needs' H1]]. rewrite H1.
      destruct (complete_fold_started r fld locs' needs') as [s Hs]. rewrite Hs. cbn [rbind].
      destruct s as [[[a b] c0] d]. split.
      * intros [c H]. destruct d; discriminate.
      * intros [t [loc' [r' H]]]. inversion H. subst. rewrite Z.eqb_refl in E. discriminate.
Qed.
