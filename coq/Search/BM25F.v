(* Search/BM25F.v — the BM25 similarity of /repo/search/similarity/{bm25,composite}.go over
   IEEE-754 binary64 (Coq primitive floats: round-to-nearest-even, no fused multiply-add, as Go
   on amd64), operation by operation in Go's evaluation order.  math.Log is not modelled: its
   results come from a per-case table (bit pattern of the argument -> bit pattern of the
   result) supplied by the harness.  No proofs here. *)
From Coq Require Import ZArith Floats Uint63 QArith List Bool.
From Bluge Require Import Base.Int64 Gen.ParamsBM25.
Import ListNotations.
Open Scope Z_scope.

(* ---- bit patterns <-> primitive floats (math.Float64frombits / math.Float64bits) ---- *)
Definition f64_of_bits (z : Z) : float :=
  let s := Z.odd (z / 2 ^ 63) in
  let e := (z / 2 ^ 52) mod 2 ^ 11 in
  let m := z mod 2 ^ 52 in
  if e =? 0 then (if m =? 0 then SF2Prim (S754_zero s) else SF2Prim (S754_finite s (Z.to_pos m) (-1074)))
  else if e =? 2047 then (if m =? 0 then SF2Prim (S754_infinity s) else SF2Prim S754_nan)
  else SF2Prim (S754_finite s (Z.to_pos (m + 2 ^ 52)) (e - 1075)).

Definition nan_bits : Z := 2047 * 2 ^ 52 + 2 ^ 51.   (* every NaN is reported as the quiet NaN *)

Definition bits_of_f64 (f : float) : Z :=
  match Prim2SF f with
  | S754_zero s => if s then 2 ^ 63 else 0
  | S754_infinity s => (if s then 2 ^ 63 else 0) + 2047 * 2 ^ 52
  | S754_nan => nan_bits
  | S754_finite s m e =>
      let m := Zpos m in
      (if s then 2 ^ 63 else 0) + (if m <? 2 ^ 52 then m else (e + 1075) * 2 ^ 52 + (m - 2 ^ 52))
  end.

Definition is_nan_bits (z : Z) : bool := ((z / 2 ^ 52) mod 2 ^ 11 =? 2047) && negb (z mod 2 ^ 52 =? 0).
Definition is_inf_bits (z : Z) : bool := ((z / 2 ^ 52) mod 2 ^ 11 =? 2047) && (z mod 2 ^ 52 =? 0).
Definition is_finite_bits (z : Z) : bool := negb ((z / 2 ^ 52) mod 2 ^ 11 =? 2047).

(* bit-pattern equality of an observed value with a model value; NaN payloads are not compared *)
Definition feqb (f : float) (bits : Z) : bool :=
  if is_nan_bits bits then bits_of_f64 f =? nan_bits else bits_of_f64 f =? bits.

(* ---- integer -> float64 conversions ---- *)
(* float64(x) for x : uint64.  Below 2^63 the primitive conversion rounds to nearest even; above,
   the amd64 sequence Go emits: halve keeping a sticky bit, convert, double. *)
Definition f_of_u64 (z : Z) : float :=
  if z <? 2 ^ 63 then of_uint63 (Uint63.of_Z z)
  else (of_uint63 (Uint63.of_Z (Z.lor (z / 2) (z mod 2))) * 2)%float.

(* float64(x) for x : int (64 bit) *)
Definition f_of_int (z : Z) : float := if z <? 0 then (- f_of_u64 (- z))%float else f_of_u64 z.

(* an untyped Go constant converted to float64: the nearest binary64 to the exact rational *)
Definition f_of_Q (q : Q) : float := (f_of_int (Qnum q) / f_of_int (Zpos (Qden q)))%float.
Definition litF (l : list Q) (i : nat) : float := f_of_Q (nth i l 0%Q).

Definition default_b_f : float := f_of_Q bm25_default_b.    (* bm25.go:26 *)
Definition default_k1_f : float := f_of_Q bm25_default_k1.  (* bm25.go:27 *)
Definition no_boost_f : float := f_of_Q bm25_no_boost.      (* bm25.go:122 *)

(* ---- math.Log as a table ---- *)
Definition log_table := list (Z * Z).
Fixpoint log_lookup (t : log_table) (argbits : Z) : option Z :=
  match t with
  | [] => None
  | (a, r) :: t' => if a =? argbits then Some r else log_lookup t' argbits
  end.
(* the table answers for the argument's bit pattern; a missing entry yields NaN, which no
   finite observation equals *)
Definition log_f (t : log_table) (x : float) : float :=
  match log_lookup t (bits_of_f64 x) with
  | Some r => f64_of_bits r
  | None => nan
  end.

Open Scope float_scope.

(* bm25.go:51-53  math.Log(1.0 + float64(docCount-docFreq) + 0.5/(float64(docFreq)+0.5));
   docCount-docFreq is a uint64 subtraction (wraps when docFreq > docCount) *)
Definition idf_arg_f (n N : Z) : float :=
  (litF idf_literals 0 + f_of_u64 (uwrap64 (N - n))) + litF idf_literals 1 / (f_of_u64 n + litF idf_literals 2).
Definition idf_f (t : log_table) (n N : Z) : float := log_f t (idf_arg_f n N).

(* bm25.go:67-72 AverageFieldLength (0 when the collection statistics are nil) *)
Definition avg_field_length_f (stats : option (Z * Z)) : float :=   (* (SumTotalTermFrequency, DocumentCount) *)
  match stats with
  | Some (sum_ttf, doc_count) => f_of_u64 sum_ttf / f_of_u64 doc_count
  | None => 0
  end.

(* bm25.go:101  1 / (b.k1 * ((1 - b.b) + b.b*float64(docLen)/b.avgDocLen)); docLen : uint32.
   The *_ff forms take the converted float64(docLen) / float64(freq). *)
Definition norm_inverse_ff (lits : list Q) (k1 b dl avgdl : float) : float :=
  litF lits 0 / (k1 * ((litF lits 1 - b) + b * dl / avgdl)).
Definition norm_inverse_f (lits : list Q) (k1 b : float) (dl : Z) (avgdl : float) : float :=
  norm_inverse_ff lits k1 b (f_of_u64 dl) avgdl.

(* bm25.go:96 *)
Definition weight_f (boost idfv : float) : float := boost * idfv.

(* bm25.go:99-103 Score *)
Definition score_ff (w k1 b f dl avgdl : float) : float :=
  w - w / (litF score_literals 2 + f * norm_inverse_ff score_literals k1 b dl avgdl).
Definition score_f (w k1 b : float) (freq dl : Z) (avgdl : float) : float :=
  score_ff w k1 b (f_of_int freq) (f_of_u64 dl) avgdl.

(* every intermediate float64 value of Score, in evaluation order; "no overflow, no division by
   zero, no NaN" is: all of them are finite (checkable by evaluation) *)
Definition score_trace (w k1 b f dl avgdl : float) : list float :=
  let t1 := litF score_literals 1 - b in
  let t2 := b * dl in
  let t3 := t2 / avgdl in
  let t4 := t1 + t3 in
  let t5 := k1 * t4 in
  let ni := litF score_literals 0 / t5 in
  let t6 := f * ni in
  let t7 := litF score_literals 2 + t6 in
  let t8 := w / t7 in
  [t1; t2; t3; t4; t5; ni; t6; t7; t8; w - t8].
Definition score_finite (w k1 b f dl avgdl : float) : bool :=
  forallb PrimFloat.is_finite (w :: k1 :: b :: f :: dl :: avgdl :: score_trace w k1 b f dl avgdl).

(* bm25.go:105-120 explainTf *)
Definition tf_f (k1 b : float) (freq dl : Z) (avgdl : float) : float :=
  litF explain_tf_literals 2 -
  litF explain_tf_literals 3 / (litF explain_tf_literals 4 + f_of_int freq * norm_inverse_f explain_tf_literals k1 b dl avgdl).

(* bm25.go:124-136 Explain *)
Definition explain_score_f (w k1 b : float) (freq dl : Z) (avgdl : float) : float :=
  w - w / (litF explain_literals 2 + f_of_int freq * norm_inverse_f explain_literals k1 b dl avgdl).

(* composite.go:39-45 ScoreComposite *)
Definition sum_scores_f (l : list float) : float := fold_left PrimFloat.add l 0.
Definition composite_score_f (boost : float) (l : list float) : float := sum_scores_f l * boost.

Close Scope float_scope.

(* ---- the field length carried in the norm (bm25.go:47-49 ComputeNorm, 100 Score) ----
   ComputeNorm(numTerms) = math.Float32frombits(uint32(numTerms)); the posting hands the norm
   back as float64(float32); Score recovers docLen = math.Float32bits(float32(norm)). *)
Definition compute_norm_bits (num_terms : Z) : Z := num_terms mod 2 ^ 32.   (* uint32(int) truncates *)

(* float64(x) for x : float32 given by its bits: exact.  The value as a specification float
   (sign, mantissa, exponent), then the primitive float. *)
Definition sf_of_f32bits (z : Z) : spec_float :=
  let s := Z.odd (z / 2 ^ 31) in
  let e := (z / 2 ^ 23) mod 2 ^ 8 in
  let m := z mod 2 ^ 23 in
  if e =? 0 then (if m =? 0 then S754_zero s else S754_finite s (Z.to_pos m) (-149))
  else if e =? 255 then (if m =? 0 then S754_infinity s else S754_nan)
  else S754_finite s (Z.to_pos (m + 2 ^ 23)) (e - 150).
(* the same value with the 53-bit mantissa binary64 uses (the widening is exact) *)
Definition sf64_canon (x : spec_float) : spec_float :=
  match x with
  | S754_finite s m e => let k := 52 - Z.log2 (Zpos m) in S754_finite s (Z.to_pos (Zpos m * 2 ^ k)) (e - k)
  | _ => x
  end.
Definition f64_of_f32bits (z : Z) : float := SF2Prim (sf64_canon (sf_of_f32bits z)).

(* round m * 2^-sh to an integer, ties to even (sh > 0) *)
Definition rne_shift (m sh : Z) : Z :=
  let q := m / 2 ^ sh in
  let r := m mod 2 ^ sh in
  let half := 2 ^ (sh - 1) in
  if r <? half then q else if half <? r then q + 1 else if Z.even q then q else q + 1.

(* math.Float32bits(float32(x)) for x : float64, round to nearest even; on the specification
   float (any mantissa/exponent pair denoting the value) *)
Definition f32bits_of_sf (x : spec_float) : Z :=
  match x with
  | S754_zero s => if s then 2 ^ 31 else 0
  | S754_infinity s => (if s then 2 ^ 31 else 0) + 255 * 2 ^ 23
  | S754_nan => 255 * 2 ^ 23 + 2 ^ 22
  | S754_finite s m e =>
      let m := Zpos m in
      let lead := e + Z.log2 m in                 (* exponent of the leading bit *)
      let q := if lead <? -126 then -149 else lead - 23 in   (* exponent of the binary32 unit in the last place *)
      let sh := q - e in
      let mant := if sh <=? 0 then m * 2 ^ (- sh) else rne_shift m sh in
      let bits := (q + 149) * 2 ^ 23 + mant in
      (if s then 2 ^ 31 else 0) + (if 255 * 2 ^ 23 <=? bits then 255 * 2 ^ 23 else bits)
  end.
Definition f32bits_of_f64 (f : float) : Z := f32bits_of_sf (Prim2SF f).

Definition doc_len_of_norm (norm : float) : Z := f32bits_of_f64 norm.
