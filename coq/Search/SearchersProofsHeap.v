(* Search/SearchersProofsHeap.v — the heap disjunction searcher (search_disjunction_heap.go)
   meets the iterator contract when its children do: it returns, in increasing order, exactly
   the numbers matched by at least max(min, 1) children.
   The heap is Go's container/heap (Base/GoHeap.v); its order/multiset lemmas come from
   Base/GoHeapProofs.v.  State: every live child sits in the heap or in `matching` together with
   its current match; a child that reported the end is dropped for good.
   Invariant: every entry's match is the least member of its child at or above the watermark;
   `matching` holds the entries with the least number, the heap the others (heap order). *)
From Coq Require Import ZArith List Bool Lia Arith Permutation.
From Bluge Require Import Base.Res Base.GoHeap Base.GoHeapProofs Search.Numeric Search.Postings Search.Searchers
  Search.SearchersProofsBase Search.SearchersProofsConj Search.SearchersProofsDisj.
Import ListNotations.
Open Scope Z_scope.

(* ---------- counting over permuted lists ---------- *)

Lemma count_true_app l1 l2 x : count_true (l1 ++ l2) x = (count_true l1 x + count_true l2 x)%nat.
Proof. unfold count_true. rewrite filter_app, app_length. reflexivity. Qed.

Lemma count_true_perm l l' x : Permutation l l' -> count_true l x = count_true l' x.
Proof.
  unfold count_true. induction 1 as [| s l l' HP IH | s t l | l1 l2 l3 H1 IH1 H2 IH2]; simpl.
  - reflexivity.
  - destruct (s x); simpl; lia.
  - destruct (s x), (t x); reflexivity.
  - lia.
Qed.

Lemma count_true_all_false l x : (forall s, In s l -> s x = false) -> count_true l x = O.
Proof.
  unfold count_true. induction l as [| s l IH]; intros H; [reflexivity|]. simpl.
  rewrite (H s (or_introl eq_refl)). apply IH. intros t Ht. apply H. right. exact Ht.
Qed.

Lemma count_true_all_true l x : (forall s, In s l -> s x = true) -> count_true l x = length l.
Proof.
  unfold count_true. induction l as [| s l IH]; intros H; [reflexivity|]. simpl.
  rewrite (H s (or_introl eq_refl)). simpl. f_equal. apply IH. intros t Ht. apply H. right. exact Ht.
Qed.

Lemma Forall2_perm {A B} (R : A -> B -> Prop) : forall l1 l1', Permutation l1 l1' ->
  forall l2, Forall2 R l1 l2 -> exists l2', Forall2 R l1' l2' /\ Permutation l2 l2'.
Proof.
  induction 1 as [| a l l' HP IH | a b l | l1 l2 l3 H1 IH1 H2 IH2]; intros m HF.
  - inversion HF; subst. exists []. split; constructor.
  - inversion HF as [| a' y la lb Hay Hrest]; subst.
    destruct (IH _ Hrest) as [m' [F P]]. exists (y :: m'). split; [constructor; assumption|constructor; exact P].
  - inversion HF as [| a' y la lb Hay Hrest]; subst. inversion Hrest as [| b' z la' lb' Hbz Hrest']; subst.
    exists (z :: y :: lb'). split; [repeat constructor; assumption|apply perm_swap].
  - destruct (IH1 _ HF) as [m2 [F2 P2]]. destruct (IH2 _ F2) as [m3 [F3 P3]].
    exists m3. split; [exact F3|eapply Permutation_trans; eauto].
Qed.

Lemma Forall2_app_inv_l' {A B} (R : A -> B -> Prop) l1 l2 m :
  Forall2 R (l1 ++ l2) m -> exists m1 m2, m = m1 ++ m2 /\ Forall2 R l1 m1 /\ Forall2 R l2 m2.
Proof. intros H. apply Forall2_app_inv_l in H. destruct H as [m1 [m2 [A1 [A2 E]]]]. eauto. Qed.

Lemma Forall2_length' {A B} (R : A -> B -> Prop) l m : Forall2 R l m -> length l = length m.
Proof. induction 1; simpl; congruence. Qed.

Lemma Forall2_impl' {A B} (R Q : A -> B -> Prop) l m : (forall a b, R a b -> Q a b) -> Forall2 R l m -> Forall2 Q l m.
Proof. intros H. induction 1; constructor; auto. Qed.

Section Heap.
  Variable C : Type.
  Variable cnext : C -> res (option dmatch * C).
  Variable cadv : C -> Z -> res (option dmatch * C).
  Variable CInv CFin : C -> (Z -> bool) -> Z -> Prop.
  Hypothesis Hct : contract cnext cadv CInv CFin.
  (* a child that was not called yet: only Next is used on it *)
  Variable CNew : C -> (Z -> bool) -> Prop.
  Hypothesis Hnew : forall c S, CNew c S -> exists r c', cnext c = Ok (r, c') /\ exact_post CInv CFin S 0 r c'.
  Variable N : Z.
  Variable Ss0 : list (Z -> bool).
  Variable dmin : Z.
  Variable cdflt : C.

  Notation hl := (h_less C).
  Notation hd := (h_dflt C cdflt).
  Notation hok := (heap_ok (h_less C) (h_dflt C cdflt)).

  Definition num (e : hentry C) : Z := dm_num (snd e).

  Lemma hl_irrefl : forall a, hl a a = false.
  Proof. intros a. unfold h_less. apply Z.ltb_irrefl. Qed.
  Lemma hl_trans : forall a b c, hl a b = true -> hl b c = true -> hl a c = true.
  Proof. unfold h_less. intros a b c H1 H2. apply Z.ltb_lt in H1, H2. apply Z.ltb_lt. lia. Qed.
  Lemma hl_ntrans : forall a b c, hl a b = false -> hl b c = false -> hl a c = false.
  Proof. unfold h_less. intros a b c H1 H2. apply Z.ltb_ge in H1, H2. apply Z.ltb_ge. lia. Qed.

  Definition hpush := push_correct hl hd hl_irrefl hl_trans hl_ntrans.
  Definition hpop := pop_correct hl hd hl_irrefl hl_trans hl_ntrans.

  Lemma hok_nil : hok [].
  Proof. intros k Hk. simpl in Hk. lia. Qed.

  (* the root of a heap is a minimum *)
  Lemma hok_head_min : forall top rest e, hok (top :: rest) -> In e (top :: rest) -> num top <= num e.
  Proof.
    intros top rest e Hh Hin.
    destruct (In_nth _ _ hd Hin) as [k [Hk Hnth]].
    pose proof (root_min hl hd hl_irrefl hl_trans hl_ntrans (top :: rest) (length (top :: rest)) Hh k Hk) as Hm.
    unfold GoHeap.get in Hm. rewrite Hnth in Hm. simpl in Hm. unfold h_less in Hm. apply Z.ltb_ge in Hm. exact Hm.
  Qed.

  (* an entry with the denotation of its child *)
  Definition entry_ok (lo : Z) (e : hentry C) (S : Z -> bool) : Prop :=
    bounded N S /\ least_from S lo (num e) /\ CInv (fst e) S (num e + 1).

  Lemma entry_ok_raise lo lo' e S : entry_ok lo e S -> lo <= lo' -> lo' <= num e -> entry_ok lo' e S.
  Proof.
    intros [HB [[A [B0 D]] HI]] H1 H2. split; [exact HB|]. split; [|exact HI].
    split; [exact A|]. split; [exact H2|]. intros x Hx. apply D. lia.
  Qed.

  (* ---------- updateMatches ---------- *)

  Lemma pop_equal_spec : forall fuel lo d heap acc Sh Sa,
    hok heap -> Forall2 (entry_ok lo) heap Sh -> Forall2 (entry_ok lo) acc Sa ->
    (forall e, In e heap -> d <= num e) -> (forall e, In e acc -> num e = d) ->
    (length heap <= fuel)%nat ->
    exists heap' acc' Sh' Sa',
      dhp_pop_equal C cdflt fuel d heap acc = (heap', acc') /\
      hok heap' /\ Forall2 (entry_ok lo) heap' Sh' /\ Forall2 (entry_ok lo) acc' Sa' /\
      Permutation (Sh ++ Sa) (Sh' ++ Sa') /\
      (forall e, In e heap' -> d < num e) /\ (forall e, In e acc' -> num e = d) /\
      (length acc <= length acc')%nat.
  Proof.
    induction fuel as [| fuel IH]; intros lo d heap acc Sh Sa Hh HFh HFa Hge Heq Hlen.
    - destruct heap; [|simpl in Hlen; lia]. exists [], acc, Sh, Sa. simpl.
      split; [reflexivity|]. split; [exact Hh|]. split; [exact HFh|]. split; [exact HFa|].
      split; [apply Permutation_refl|]. split; [intros e []|]. split; [exact Heq|lia].
    - destruct heap as [| top rest].
      + exists [], acc, Sh, Sa. simpl.
        split; [reflexivity|]. split; [exact Hh|]. split; [exact HFh|]. split; [exact HFa|].
        split; [apply Permutation_refl|]. split; [intros e []|]. split; [exact Heq|lia].
      + cbn [dhp_pop_equal]. fold (num top).
        destruct (num top =? d) eqn:Et.
        * apply Z.eqb_eq in Et.
          destruct (hpop (top :: rest) Hh ltac:(discriminate)) as [x [h' [Ep [Hh' [HP [Hl Hmin]]]]]].
          rewrite Ep.
          assert (Hx : num x = d).
          { assert (Hin : In x (top :: rest)) by (eapply Permutation_in; [apply Permutation_sym; exact HP|left; reflexivity]).
            pose proof (Hge x Hin). pose proof (Hmin top (or_introl eq_refl)) as Hm.
            unfold h_less in Hm. apply Z.ltb_ge in Hm. unfold num in *. lia. }
          destruct (Forall2_perm _ _ _ HP _ HFh) as [Sp [HFp HPp]].
          inversion HFp as [| x' Sx h'' Sh'' Hxok HFh' Ex1 Ex2]; try subst x'; try subst h''; try subst Sp.
          destruct (IH lo d h' (acc ++ [x]) Sh'' (Sa ++ [Sx]) Hh' HFh') as [heap2 [acc2 [Sh2 [Sa2 [E [K1 [K2 [K3 [K4 [K5 [K6 K7]]]]]]]]]]].
          { apply Forall2_app; [exact HFa|constructor; [exact Hxok|constructor]]. }
          { intros e He. apply Hge. eapply Permutation_in; [apply Permutation_sym; exact HP|right; exact He]. }
          { intros e He. apply in_app_or in He. destruct He as [He|[<-|[]]]; [apply Heq; exact He|exact Hx]. }
          { simpl in Hl, Hlen. lia. }
          exists heap2, acc2, Sh2, Sa2. split; [exact E|]. split; [exact K1|]. split; [exact K2|]. split; [exact K3|].
          split.
          { eapply Permutation_trans; [|exact K4].
            eapply Permutation_trans; [apply Permutation_app_tail; exact HPp|].
            simpl. rewrite app_assoc. apply Permutation_cons_append. }
          split; [exact K5|]. split; [exact K6|]. rewrite app_length in K7. simpl in K7. lia.
        * apply Z.eqb_neq in Et.
          exists (top :: rest), acc, Sh, Sa. split; [reflexivity|]. split; [exact Hh|]. split; [exact HFh|].
          split; [exact HFa|]. split; [apply Permutation_refl|]. split; [|split; [exact Heq|lia]].
          intros e He. pose proof (hok_head_min top rest e Hh He). pose proof (Hge top (or_introl eq_refl)). lia.
  Qed.

  (* the result of updateMatches on a heap of valid entries *)
  Lemma update_matches_heap_spec : forall lo heap Sh,
    hok heap -> Forall2 (entry_ok lo) heap Sh ->
    exists heap' ms Sh' Sm,
      dhp_update_matches C cdflt heap = (heap', ms) /\
      hok heap' /\ Forall2 (entry_ok lo) heap' Sh' /\ Forall2 (entry_ok lo) ms Sm /\
      Permutation Sh (Sh' ++ Sm) /\
      match ms with
      | [] => heap = [] /\ heap' = []
      | m0 :: _ => (forall e, In e ms -> num e = num m0) /\ (forall e, In e heap' -> num m0 < num e)
      end.
  Proof.
    intros lo heap Sh Hh HF. unfold dhp_update_matches.
    destruct heap as [| top rest].
    - inversion HF; subst. exists [], [], [], []. simpl. split; [reflexivity|]. split; [exact hok_nil|].
      split; [constructor|]. split; [constructor|]. split; [constructor|split; reflexivity].
    - destruct (hpop (top :: rest) Hh ltac:(discriminate)) as [x [h' [Ep [Hh' [HP [Hl Hmin]]]]]].
      rewrite Ep.
      destruct (Forall2_perm _ _ _ HP _ HF) as [Sp [HFp HPp]].
      inversion HFp as [| x' Sx h'' Sh'' Hxok HFh' Ex1 Ex2]; try subst x'; try subst h''; try subst Sp.
      destruct (pop_equal_spec (length h') lo (num x) h' [x] Sh'' [Sx] Hh' HFh') as [heap2 [acc2 [Sh2 [Sa2 [E [K1 [K2 [K3 [K4 [K5 [K6 K7]]]]]]]]]]].
      { constructor; [exact Hxok|constructor]. }
      { intros e He. assert (Hin : In e (top :: rest)) by (eapply Permutation_in; [apply Permutation_sym; exact HP|right; exact He]).
        pose proof (Hmin e Hin) as Hm. unfold h_less in Hm. apply Z.ltb_ge in Hm. exact Hm. }
      { intros e [<-|[]]. reflexivity. }
      { lia. }
      unfold num in E at 1. rewrite E.
      exists heap2, acc2, Sh2, Sa2. split; [reflexivity|]. split; [exact K1|]. split; [exact K2|]. split; [exact K3|].
      split.
      { eapply Permutation_trans; [exact HPp|]. eapply Permutation_trans; [|exact K4].
        change (Sx :: Sh'') with ([Sx] ++ Sh''). apply Permutation_app_comm. }
      destruct acc2 as [| m0 mr]; [simpl in K7; lia|].
      assert (Hm0 : num m0 = num x) by (apply K6; left; reflexivity).
      split.
      + intros e He. rewrite Hm0. apply K6. exact He.
      + intros e He. rewrite Hm0. apply K5. exact He.
  Qed.

  (* ---------- the state invariant ---------- *)

  Definition dropped_ok (lo : Z) (S : Z -> bool) : Prop := bounded N S /\ none_from S lo.

  Definition dhp_ready (st : dhp_st C) (lo : Z) : Prop :=
    dh_init st = true /\ dh_min st = dmin /\ hok (dh_heap st) /\
    exists Sh Sm Sd,
      Forall2 (entry_ok lo) (dh_heap st) Sh /\ Forall2 (entry_ok lo) (dh_matching st) Sm /\
      Forall (dropped_ok lo) Sd /\ Permutation Ss0 (Sh ++ Sm ++ Sd) /\
      match dh_matching st with
      | [] => dh_heap st = []
      | m0 :: _ => (forall e, In e (dh_matching st) -> num e = num m0) /\
                   (forall e, In e (dh_heap st) -> num m0 < num e)
      end.

  Definition dhp_fin (st : dhp_st C) : Prop :=
    dh_init st = true /\ dh_min st = dmin /\ dh_heap st = [] /\ dh_matching st = [].

  Definition dhp_exact_post (lo : Z) (r : option dmatch) (st' : dhp_st C) : Prop :=
    match r with
    | Some rv => least_from (disj_S Ss0 dmin) lo (dm_num rv) /\ dhp_ready st' (dm_num rv + 1)
    | None => none_from (disj_S Ss0 dmin) lo /\ dhp_fin st'
    end.

  Lemma ents_false : forall lo l Sl x, Forall2 (entry_ok lo) l Sl -> lo <= x ->
    (forall e, In e l -> x < num e) -> forall s, In s Sl -> s x = false.
  Proof.
    intros lo l Sl x HF. induction HF as [| e S l Sl He HF IH]; intros Hx Hlt s Hs; [destruct Hs|].
    destruct Hs as [<-|Hs].
    - destruct He as [_ [[_ [_ D]] _]]. apply D. pose proof (Hlt e (or_introl eq_refl)). lia.
    - apply IH; auto. intros e' He'. apply Hlt. right. exact He'.
  Qed.

  Lemma ents_true : forall lo l Sl x, Forall2 (entry_ok lo) l Sl ->
    (forall e, In e l -> num e = x) -> forall s, In s Sl -> s x = true.
  Proof.
    intros lo l Sl x HF. induction HF as [| e S l Sl He HF IH]; intros Heq s Hs; [destruct Hs|].
    destruct Hs as [<-|Hs].
    - destruct He as [_ [[A _] _]]. rewrite <- (Heq e (or_introl eq_refl)). exact A.
    - apply IH; auto. intros e' He'. apply Heq. right. exact He'.
  Qed.

  Lemma dropped_false : forall lo Sd x, Forall (dropped_ok lo) Sd -> lo <= x -> forall s, In s Sd -> s x = false.
  Proof.
    intros lo Sd x HF Hx s Hs. rewrite Forall_forall in HF. destruct (HF s Hs) as [_ Hn]. apply Hn. exact Hx.
  Qed.

  Lemma ready_count : forall lo heap ms Sh Sm Sd d,
    Forall2 (entry_ok lo) heap Sh -> Forall2 (entry_ok lo) ms Sm -> Forall (dropped_ok lo) Sd ->
    Permutation Ss0 (Sh ++ Sm ++ Sd) -> lo <= d ->
    (forall e, In e ms -> num e = d) -> (forall e, In e heap -> d < num e) ->
    count_true Ss0 d = length ms /\ forall x, lo <= x < d -> count_true Ss0 x = O.
  Proof.
    intros lo heap ms Sh Sm Sd d HFh HFm HFd HP Hd Heq Hlt. split.
    - rewrite (count_true_perm _ _ d HP), !count_true_app.
      rewrite (count_true_all_false Sh) by (eapply ents_false; eauto).
      rewrite (count_true_all_true Sm) by (eapply ents_true; eauto).
      rewrite (count_true_all_false Sd) by (eapply dropped_false; eauto).
      rewrite (Forall2_length' _ _ _ HFm). lia.
    - intros x Hx. rewrite (count_true_perm _ _ x HP), !count_true_app.
      rewrite (count_true_all_false Sh).
      2:{ eapply ents_false; eauto; [lia|]. intros e He. pose proof (Hlt e He). lia. }
      rewrite (count_true_all_false Sm).
      2:{ eapply ents_false; eauto; [lia|]. intros e He. rewrite (Heq e He). lia. }
      rewrite (count_true_all_false Sd) by (eapply dropped_false; eauto; lia). reflexivity.
  Qed.

  Lemma dropped_raise lo lo' Sd : Forall (dropped_ok lo) Sd -> lo <= lo' -> Forall (dropped_ok lo') Sd.
  Proof.
    intros HF Hle. eapply Forall_impl; [|exact HF]. intros s [HB Hn]. split; [exact HB|eapply none_from_mono; eauto].
  Qed.

  Lemma ents_raise : forall lo lo' l Sl, Forall2 (entry_ok lo) l Sl -> lo <= lo' ->
    (forall e, In e l -> lo' <= num e) -> Forall2 (entry_ok lo') l Sl.
  Proof.
    intros lo lo' l Sl HF Hle. induction HF as [| e S l Sl He HF IH]; intros Hge; constructor.
    - eapply entry_ok_raise; eauto. apply Hge. left. reflexivity.
    - apply IH. intros e' He'. apply Hge. right. exact He'.
  Qed.

  (* ---------- stepping the matching children ---------- *)

  Lemma next_matching_spec : forall lo d ms Sm,
    Forall2 (entry_ok lo) ms Sm -> (forall e, In e ms -> num e = d) ->
    forall heap Sh, hok heap -> Forall2 (entry_ok (d + 1)) heap Sh ->
    exists heap' Sh' Sd', dhp_next_matching C cnext cdflt ms heap = Ok heap' /\
      hok heap' /\ Forall2 (entry_ok (d + 1)) heap' Sh' /\ Forall (dropped_ok (d + 1)) Sd' /\
      Permutation (Sh ++ Sm) (Sh' ++ Sd').
  Proof.
    intros lo d ms Sm HF. induction HF as [| e S ms Sm He HF IH]; intros Heq heap Sh Hh HFh.
    - exists heap, Sh, []. simpl. split; [reflexivity|]. split; [exact Hh|]. split; [exact HFh|].
      split; [constructor|]. apply Permutation_refl.
    - destruct He as [HB [_ HI]]. rewrite (Heq e (or_introl eq_refl)) in HI.
      destruct (ct_next _ _ _ _ _ Hct (fst e) S (d + 1) HI) as [r [c' [E Hpost]]].
      cbn [dhp_next_matching]. rewrite E. cbn [rbind fst snd].
      assert (Heq' : forall e', In e' ms -> num e' = d) by (intros e' He'; apply Heq; right; exact He').
      destruct r as [m|]; simpl in Hpost.
      + destruct Hpost as [Hl HI'].
        destruct (hpush heap (c', m) Hh) as [Hh2 [HP2 _]].
        destruct (Forall2_perm (entry_ok (d + 1)) _ _ HP2 (S :: Sh)) as [Sh2 [HF2 HPs]].
        { constructor; [|exact HFh]. split; [exact HB|]. split; [exact Hl|exact HI']. }
        destruct (IH Heq' _ Sh2 Hh2 HF2) as [heap' [Sh' [Sd' [E2 [K1 [K2 [K3 K4]]]]]]].
        exists heap', Sh', Sd'. split; [exact E2|]. split; [exact K1|]. split; [exact K2|]. split; [exact K3|].
        eapply Permutation_trans; [|exact K4].
        eapply Permutation_trans; [apply Permutation_sym, Permutation_middle|].
        change (S :: Sh ++ Sm) with ((S :: Sh) ++ Sm). apply Permutation_app_tail. exact HPs.
      + destruct Hpost as [Hn _].
        destruct (IH Heq' heap Sh Hh HFh) as [heap' [Sh' [Sd' [E2 [K1 [K2 [K3 K4]]]]]]].
        exists heap', Sh', (S :: Sd'). split; [exact E2|]. split; [exact K1|]. split; [exact K2|].
        split; [constructor; [split; assumption|exact K3]|].
        apply Permutation_elt. exact K4.
  Qed.

  Lemma dhp_loop_unfold : forall fuel st,
    dhp_loop C cnext cdflt (Datatypes.S fuel) st =
    match dh_matching st with
    | [] => Ok (None, st)
    | _ :: _ =>
        let found := dh_min st <=? Z.of_nat (length (dh_matching st)) in
        heap <- dhp_next_matching C cnext cdflt (dh_matching st) (dh_heap st) ;;
        let um := dhp_update_matches C cdflt heap in
        let st' := {| dh_s := dh_s st; dh_min := dh_min st; dh_heap := fst um; dh_matching := snd um; dh_init := true |} in
        if found then Ok (build_match (map snd (dh_matching st)), st') else dhp_loop C cnext cdflt fuel st'
    end.
  Proof. reflexivity. Qed.

  Lemma perm_regroup {A} (a b c d e f : list A) :
    Permutation (a ++ b) (c ++ d) -> Permutation c (e ++ f) ->
    forall g, Permutation (a ++ b ++ g) (e ++ f ++ d ++ g).
  Proof.
    intros H1 H2 g. rewrite app_assoc. rewrite (app_assoc f d g), (app_assoc e (f ++ d) g), (app_assoc e f d).
    apply Permutation_app_tail. eapply Permutation_trans; [exact H1|]. apply Permutation_app_tail. exact H2.
  Qed.

  Lemma dhp_loop_spec : forall fuel st lo,
    dhp_ready st lo -> 0 <= lo -> (Z.to_nat (N - lo) < fuel)%nat ->
    exists r st', dhp_loop C cnext cdflt fuel st = Ok (r, st') /\ dhp_exact_post lo r st'.
  Proof.
    induction fuel as [| fuel IH]; intros st lo HR Hlo Hfuel; [lia|].
    rewrite dhp_loop_unfold.
    destruct HR as [Hi [Hmin [Hh [Sh [Sm [Sd [HFh [HFm [HFd [HP Hstruct]]]]]]]]]].
    destruct (dh_matching st) as [| m0 mr] eqn:Em.
    - (* every child is dropped *)
      exists None, st. split; [reflexivity|]. simpl. split.
      + intros x Hx. apply disj_S_zero. rewrite Hstruct in HFh. inversion HFh; subst. inversion HFm; subst.
        rewrite (count_true_perm _ _ x HP). simpl. apply count_true_all_false. eapply dropped_false; eauto.
      + split; [exact Hi|]. split; [exact Hmin|]. split; [exact Hstruct|exact Em].
    - destruct Hstruct as [Heq Hlt].
      set (d := num m0) in *.
      assert (Hm0 : exists S0 Sr, Sm = S0 :: Sr /\ entry_ok lo m0 S0).
      { inversion HFm; subst. eauto. }
      destruct Hm0 as [S0 [Sr [_ [HB0 [[A0 [Hd _]] _]]]]]. fold d in A0, Hd.
      assert (HdN : d < N) by (apply HB0 in A0; lia).
      destruct (ready_count lo (dh_heap st) (m0 :: mr) Sh Sm Sd d HFh HFm HFd HP Hd Heq Hlt) as [Hcount Hbelow0].
      assert (Hbelow : forall x, lo <= x < d -> disj_S Ss0 dmin x = false).
      { intros x Hx. apply disj_S_zero. apply Hbelow0. exact Hx. }
      assert (HFh1 : Forall2 (entry_ok (d + 1)) (dh_heap st) Sh).
      { eapply ents_raise; eauto; [lia|]. intros e He. pose proof (Hlt e He). lia. }
      destruct (next_matching_spec lo d (m0 :: mr) Sm HFm Heq (dh_heap st) Sh Hh HFh1)
        as [heap1 [Sh1 [Sd1 [E1 [Hh1 [HF1 [HFd1 HP1]]]]]]].
      rewrite E1. cbn [rbind].
      destruct (update_matches_heap_spec (d + 1) heap1 Sh1 Hh1 HF1) as [heap' [ms' [Sh' [Sm' [E2 [Hh' [HF' [HFm' [HP' Hstruct']]]]]]]]].
      rewrite E2. cbn [fst snd].
      set (st' := {| dh_s := dh_s st; dh_min := dh_min st; dh_heap := heap'; dh_matching := ms'; dh_init := true |}).
      assert (HR' : dhp_ready st' (d + 1)).
      { unfold dhp_ready, st'. simpl. split; [reflexivity|]. split; [exact Hmin|]. split; [exact Hh'|].
        exists Sh', Sm', (Sd1 ++ Sd). split; [exact HF'|]. split; [exact HFm'|].
        split; [apply Forall_app; split; [exact HFd1|eapply dropped_raise; eauto; lia]|].
        split.
        - eapply Permutation_trans; [exact HP|]. apply (perm_regroup Sh Sm Sh1 Sd1 Sh' Sm' HP1 HP').
        - destruct ms' as [| m1 mr']; [apply Hstruct'|exact Hstruct']. }
      assert (HdS : disj_S Ss0 dmin d = (dh_min st <=? Z.of_nat (length (m0 :: mr)))).
      { unfold disj_S. rewrite Hcount, Hmin.
        assert (1 <= Z.of_nat (length (m0 :: mr))) by (simpl length; lia).
        destruct (dmin <=? Z.of_nat (length (m0 :: mr))) eqn:E3.
        - apply Z.leb_le in E3. apply Z.leb_le. lia.
        - apply Z.leb_gt in E3. apply Z.leb_gt. lia. }
      destruct (dh_min st <=? Z.of_nat (length (m0 :: mr))) eqn:Efound.
      + exists (build_match (map snd (m0 :: mr))), st'. split; [reflexivity|].
        cbn [map build_match dhp_exact_post dm_num]. fold (num m0). fold d.
        split; [|exact HR']. split; [exact HdS|]. split; [exact Hd|exact Hbelow].
      + destruct (IH st' (d + 1) HR' ltac:(lia)) as [r [st'' [E3 Hpost]]].
        { assert (Z.to_nat (N - (d + 1)) < Z.to_nat (N - lo))%nat by (apply Z2Nat.inj_lt; lia). lia. }
        exists r, st''. split; [exact E3|].
        assert (Hbelow' : forall x, lo <= x < d + 1 -> disj_S Ss0 dmin x = false).
        { intros x Hx. destruct (Z.eq_dec x d) as [->|Hne]; [exact HdS|]. apply Hbelow. lia. }
        destruct r as [rv|]; simpl in *.
        * destruct Hpost as [[A [B0 D]] HR'']. split; [|exact HR'']. split; [exact A|]. split; [lia|].
          intros x Hx. destruct (Z_lt_ge_dec x (d + 1)); [apply Hbelow'; lia|apply D; lia].
        * destruct Hpost as [Hn HF'']. split; [|exact HF''].
          intros x Hx. destruct (Z_lt_ge_dec x (d + 1)); [apply Hbelow'; lia|apply Hn; lia].
  Qed.

  (* ---------- initSearchers, Next ---------- *)

  Definition dhp_fresh (st : dhp_st C) : Prop :=
    dh_init st = false /\ dh_min st = dmin /\ dh_heap st = [] /\ dh_matching st = [] /\
    Forall2 (fun c S => bounded N S /\ CNew c S) (dh_s st) Ss0.

  Definition dhp_inv (st : dhp_st C) (lo : Z) : Prop := dhp_ready st lo \/ (dhp_fresh st /\ lo = 0).

  Lemma init_push_spec : forall cs Ss, Forall2 (fun c S => bounded N S /\ CNew c S) cs Ss ->
    forall heap Sh, hok heap -> Forall2 (entry_ok 0) heap Sh ->
    exists heap' Sh' Sd', dhp_init_push C cnext cdflt cs heap = Ok heap' /\ hok heap' /\
      Forall2 (entry_ok 0) heap' Sh' /\ Forall (dropped_ok 0) Sd' /\ Permutation (Sh ++ Ss) (Sh' ++ Sd').
  Proof.
    intros cs Ss HF. induction HF as [| c S cs Ss [HB Hc] HF IH]; intros heap Sh Hh HFh.
    - exists heap, Sh, []. simpl. split; [reflexivity|]. split; [exact Hh|]. split; [exact HFh|].
      split; [constructor|]. apply Permutation_refl.
    - destruct (Hnew c S Hc) as [r [c' [E Hpost]]].
      cbn [dhp_init_push]. rewrite E. cbn [rbind fst snd].
      destruct r as [m|]; simpl in Hpost.
      + destruct Hpost as [Hl HI'].
        destruct (hpush heap (c', m) Hh) as [Hh2 [HP2 _]].
        destruct (Forall2_perm (entry_ok 0) _ _ HP2 (S :: Sh)) as [Sh2 [HF2 HPs]].
        { constructor; [|exact HFh]. split; [exact HB|]. split; [exact Hl|exact HI']. }
        destruct (IH _ Sh2 Hh2 HF2) as [heap' [Sh' [Sd' [E2 [K1 [K2 [K3 K4]]]]]]].
        exists heap', Sh', Sd'. split; [exact E2|]. split; [exact K1|]. split; [exact K2|]. split; [exact K3|].
        eapply Permutation_trans; [|exact K4].
        eapply Permutation_trans; [apply Permutation_sym, Permutation_middle|].
        change (S :: Sh ++ Ss) with ((S :: Sh) ++ Ss). apply Permutation_app_tail. exact HPs.
      + destruct Hpost as [Hn _].
        destruct (IH heap Sh Hh HFh) as [heap' [Sh' [Sd' [E2 [K1 [K2 [K3 K4]]]]]]].
        exists heap', Sh', (S :: Sd'). split; [exact E2|]. split; [exact K1|]. split; [exact K2|].
        split; [constructor; [split; assumption|exact K3]|].
        apply Permutation_elt. exact K4.
  Qed.

  (* updateMatches re-establishes the state invariant *)
  Lemma ready_of_update : forall lo heap Sh Sd cs,
    hok heap -> Forall2 (entry_ok lo) heap Sh -> Forall (dropped_ok lo) Sd -> Permutation Ss0 (Sh ++ Sd) ->
    dhp_ready {| dh_s := cs; dh_min := dmin; dh_heap := fst (dhp_update_matches C cdflt heap);
                 dh_matching := snd (dhp_update_matches C cdflt heap); dh_init := true |} lo.
  Proof.
    intros lo heap Sh Sd cs Hh HF HFd HP.
    destruct (update_matches_heap_spec lo heap Sh Hh HF) as [heap' [ms' [Sh' [Sm' [E2 [Hh' [HF' [HFm' [HP' Hstruct']]]]]]]]].
    rewrite E2. unfold dhp_ready. simpl. split; [reflexivity|]. split; [reflexivity|]. split; [exact Hh'|].
    exists Sh', Sm', Sd. split; [exact HF'|]. split; [exact HFm'|]. split; [exact HFd|]. split.
    - eapply Permutation_trans; [exact HP|]. rewrite app_assoc. apply Permutation_app_tail. exact HP'.
    - destruct ms' as [| m1 mr']; [apply Hstruct'|exact Hstruct'].
  Qed.

  Lemma dhp_initialise_spec : forall st lo, dhp_inv st lo ->
    exists st1, dhp_initialise C cnext cdflt st = Ok st1 /\ dhp_ready st1 lo.
  Proof.
    intros st lo [HR|[[Hi [Hmin [Hh [Hm HF]]]] ->]].
    - exists st. unfold dhp_initialise. destruct HR as [Hi HR]. rewrite Hi. split; [reflexivity|split; assumption].
    - unfold dhp_initialise. rewrite Hi, Hh.
      destruct (init_push_spec (dh_s st) Ss0 HF [] [] hok_nil ltac:(constructor)) as [heap' [Sh' [Sd' [E [K1 [K2 [K3 K4]]]]]]].
      rewrite E. cbn [rbind]. eexists. split; [reflexivity|]. rewrite Hmin.
      apply (ready_of_update 0 heap' Sh' Sd'); assumption.
  Qed.

  Lemma dhp_next_spec : forall lf st lo, dhp_inv st lo -> 0 <= lo -> (Z.to_nat N + 2 <= lf)%nat ->
    exists r st', dhp_next C cnext lf cdflt st = Ok (r, st') /\ dhp_exact_post lo r st'.
  Proof.
    intros lf st lo Hinv Hlo Hlf. unfold dhp_next.
    destruct (dhp_initialise_spec st lo Hinv) as [st1 [E1 HR]]. rewrite E1. cbn [rbind].
    apply dhp_loop_spec; [exact HR|exact Hlo|lia].
  Qed.

  (* ---------- Advance ---------- *)

  Lemma push_all_spec : forall lo ms Sm, Forall2 (entry_ok lo) ms Sm ->
    forall heap Sh, hok heap -> Forall2 (entry_ok lo) heap Sh ->
    hok (fold_left (fun h e => heap_push hl hd h e) ms heap) /\
    exists Sh', Forall2 (entry_ok lo) (fold_left (fun h e => heap_push hl hd h e) ms heap) Sh' /\ Permutation (Sh ++ Sm) Sh'.
  Proof.
    intros lo ms Sm HF. induction HF as [| e S ms Sm He HF IH]; intros heap Sh Hh HFh.
    - simpl. split; [exact Hh|]. exists Sh. split; [exact HFh|]. rewrite app_nil_r. apply Permutation_refl.
    - cbn [fold_left].
      destruct (hpush heap e Hh) as [Hh2 [HP2 _]].
      destruct (Forall2_perm (entry_ok lo) _ _ HP2 (S :: Sh)) as [Sh2 [HF2 HPs]].
      { constructor; assumption. }
      destruct (IH _ Sh2 Hh2 HF2) as [K1 [Sh' [K2 K3]]].
      split; [exact K1|]. exists Sh'. split; [exact K2|].
      eapply Permutation_trans; [|exact K3].
      eapply Permutation_trans; [apply Permutation_sym, Permutation_middle|].
      change (S :: Sh ++ Sm) with ((S :: Sh) ++ Sm). apply Permutation_app_tail. exact HPs.
  Qed.

  Lemma adv_loop_spec : forall fuel lo n heap Sh kept Sk Sd,
    lo <= n -> hok heap -> Forall2 (entry_ok lo) heap Sh -> Forall2 (entry_ok n) kept Sk ->
    Forall (dropped_ok n) Sd -> (length heap < fuel)%nat ->
    exists heap' kept' Sh' Sk' Sd',
      dhp_adv_loop C cadv cdflt fuel heap kept n = Ok (heap', kept') /\
      hok heap' /\ Forall2 (entry_ok n) heap' Sh' /\ Forall2 (entry_ok n) kept' Sk' /\
      Forall (dropped_ok n) Sd' /\ Permutation (Sh ++ Sk ++ Sd) (Sh' ++ Sk' ++ Sd').
  Proof.
    induction fuel as [| fuel IH]; intros lo n heap Sh kept Sk Sd Hn Hh HFh HFk HFd Hlen; [lia|].
    destruct heap as [| top rest].
    - inversion HFh; subst. exists [], kept, [], Sk, Sd. simpl. split; [reflexivity|]. split; [exact hok_nil|].
      split; [constructor|]. split; [exact HFk|]. split; [exact HFd|]. apply Permutation_refl.
    - cbn [dhp_adv_loop]. fold (num top). destruct (num top <? n) eqn:Et.
      + apply Z.ltb_lt in Et.
        destruct (hpop (top :: rest) Hh ltac:(discriminate)) as [x [h' [Ep [Hh' [HP [Hl Hmin]]]]]].
        rewrite Ep.
        assert (Hx : num x < n).
        { pose proof (Hmin top (or_introl eq_refl)) as Hm. unfold h_less in Hm. apply Z.ltb_ge in Hm. unfold num in *. lia. }
        destruct (Forall2_perm _ _ _ HP _ HFh) as [Sp [HFp HPp]].
        inversion HFp as [| x' Sx h'' Sh'' Hxok HFh' Ex1 Ex2]; try subst x'; try subst h''; try subst Sp.
        destruct Hxok as [HBx [_ HIx]].
        destruct (ct_adv _ _ _ _ _ Hct (fst x) Sx (num x + 1) n HIx ltac:(lia)) as [r [c' [E Hpost]]].
        rewrite E. cbn [rbind fst snd].
        destruct r as [m|]; simpl in Hpost.
        * destruct Hpost as [Hlm HIm].
          destruct (IH lo n h' Sh'' (kept ++ [(c', m)]) (Sk ++ [Sx]) Sd Hn Hh' HFh') as [heap2 [kept2 [Sh2 [Sk2 [Sd2 [E2 [K1 [K2 [K3 [K4 K5]]]]]]]]]].
          { apply Forall2_app; [exact HFk|]. constructor; [|constructor]. split; [exact HBx|]. split; [exact Hlm|exact HIm]. }
          { exact HFd. }
          { simpl in Hl, Hlen. lia. }
          exists heap2, kept2, Sh2, Sk2, Sd2. split; [exact E2|]. split; [exact K1|]. split; [exact K2|].
          split; [exact K3|]. split; [exact K4|].
          eapply Permutation_trans; [|exact K5].
          eapply Permutation_trans; [apply Permutation_app_tail; exact HPp|].
          simpl. rewrite <- app_assoc. simpl. rewrite !app_assoc.
          apply Permutation_cons_app. apply Permutation_refl.
        * destruct Hpost as [Hnn _].
          destruct (IH lo n h' Sh'' kept Sk (Sx :: Sd) Hn Hh' HFh' HFk) as [heap2 [kept2 [Sh2 [Sk2 [Sd2 [E2 [K1 [K2 [K3 [K4 K5]]]]]]]]]].
          { constructor; [split; assumption|exact HFd]. }
          { simpl in Hl, Hlen. lia. }
          exists heap2, kept2, Sh2, Sk2, Sd2. split; [exact E2|]. split; [exact K1|]. split; [exact K2|].
          split; [exact K3|]. split; [exact K4|].
          eapply Permutation_trans; [|exact K5].
          eapply Permutation_trans; [apply Permutation_app_tail; exact HPp|].
          simpl. rewrite !app_assoc. apply Permutation_cons_app. apply Permutation_refl.
      + apply Z.ltb_ge in Et.
        exists (top :: rest), kept, Sh, Sk, Sd. split; [reflexivity|]. split; [exact Hh|].
        split; [|split; [exact HFk|split; [exact HFd|apply Permutation_refl]]].
        eapply ents_raise; eauto. intros e He. pose proof (hok_head_min top rest e Hh He). lia.
  Qed.

  Lemma adv_loop_noop : forall fuel heap n, (forall e, In e heap -> n <= num e) ->
    dhp_adv_loop C cadv cdflt (Datatypes.S fuel) heap [] n = Ok (heap, []).
  Proof.
    intros fuel [| top rest] n H; [reflexivity|]. cbn [dhp_adv_loop]. fold (num top).
    pose proof (H top (or_introl eq_refl)). destruct (num top <? n) eqn:E; [apply Z.ltb_lt in E; lia|reflexivity].
  Qed.

  Lemma dhp_advance_spec : forall lf st lo n, dhp_inv st lo -> 0 <= lo -> lo <= n -> (Z.to_nat N + 2 <= lf)%nat ->
    exists r st', dhp_advance C cnext cadv lf cdflt st n = Ok (r, st') /\ dhp_exact_post n r st'.
  Proof.
    intros lf st lo n Hinv Hlo Hn Hlf. unfold dhp_advance.
    destruct (dhp_initialise_spec st lo Hinv) as [st1 [E1 HR]]. rewrite E1. cbn [rbind].
    destruct HR as [Hi [Hmin [Hh [Sh [Sm [Sd [HFh [HFm [HFd [HP _]]]]]]]]]].
    destruct (push_all_spec lo (dh_matching st1) Sm HFm (dh_heap st1) Sh Hh HFh) as [Hh1 [Sh1 [HF1 HP1]]].
    set (heap1 := fold_left (fun h e => heap_push hl hd h e) (dh_matching st1) (dh_heap st1)) in *.
    destruct (adv_loop_spec (Datatypes.S (length heap1)) lo n heap1 Sh1 [] [] [] Hn Hh1 HF1 ltac:(constructor) ltac:(constructor) ltac:(lia))
      as [heap2 [kept [Sh2 [Sk [Sd2 [E2 [Hh2 [HF2 [HFk [HFd2 HP2]]]]]]]]]].
    rewrite E2. cbn [rbind fst snd].
    destruct (push_all_spec n kept Sk HFk heap2 Sh2 Hh2 HF2) as [Hh3 [Sh3 [HF3 HP3]]].
    set (heap3 := fold_left (fun h e => heap_push hl hd h e) kept heap2) in *.
    rewrite Hmin.
    apply dhp_loop_spec; [|lia|lia].
    apply (ready_of_update n heap3 Sh3 (Sd2 ++ Sd)); [exact Hh3|exact HF3| |].
    - apply Forall_app. split; [exact HFd2|eapply dropped_raise; eauto].
    - eapply Permutation_trans; [exact HP|]. rewrite !app_assoc. apply Permutation_app_tail.
      eapply Permutation_trans; [exact HP1|]. simpl in HP2. rewrite app_nil_r in HP2.
      eapply Permutation_trans; [exact HP2|]. rewrite app_assoc. apply Permutation_app_tail. exact HP3.
  Qed.

  (* a target below the watermark: the entries stay, the answer is the one of Next *)
  Lemma dhp_advance_below_spec : forall lf st lo n, dhp_ready st lo -> 0 <= lo -> n <= lo -> (Z.to_nat N + 2 <= lf)%nat ->
    exists r st', dhp_advance C cnext cadv lf cdflt st n = Ok (r, st') /\ dhp_exact_post lo r st'.
  Proof.
    intros lf st lo n HR Hlo Hn Hlf. unfold dhp_advance.
    destruct (dhp_initialise_spec st lo (or_introl HR)) as [st1 [E1 HR1]]. rewrite E1. cbn [rbind].
    destruct HR1 as [Hi [Hmin [Hh [Sh [Sm [Sd [HFh [HFm [HFd [HP _]]]]]]]]]].
    destruct (push_all_spec lo (dh_matching st1) Sm HFm (dh_heap st1) Sh Hh HFh) as [Hh1 [Sh1 [HF1 HP1]]].
    set (heap1 := fold_left (fun h e => heap_push hl hd h e) (dh_matching st1) (dh_heap st1)) in *.
    rewrite adv_loop_noop.
    2:{ intros e He. destruct (In_nth_error _ _ He) as [k Hk].
        assert (Hex : exists S, entry_ok lo e S).
        { clear -HF1 He. induction HF1 as [| a b l m Hab HF IH]; [destruct He|]. destruct He as [<-|He]; eauto. }
        destruct Hex as [S [_ [[_ [Hge _]] _]]]. lia. }
    cbn [rbind fst snd fold_left]. rewrite Hmin.
    apply dhp_loop_spec; [|lia|lia].
    apply (ready_of_update lo heap1 Sh1 Sd); [exact Hh1|exact HF1|exact HFd|].
    eapply Permutation_trans; [exact HP|]. rewrite app_assoc. apply Permutation_app_tail. exact HP1.
  Qed.

  (* once the end was reported every child is gone: the end is reported again, whatever the target *)
  Lemma dhp_fin_next : forall lf st, dhp_fin st -> (1 <= lf)%nat ->
    dhp_next C cnext lf cdflt st = Ok (None, st).
  Proof.
    intros lf st [Hi [_ [_ Hm]]] Hlf. unfold dhp_next, dhp_initialise. rewrite Hi. cbn [rbind].
    destruct lf; [lia|]. rewrite dhp_loop_unfold, Hm. reflexivity.
  Qed.

  Lemma dhp_fin_adv : forall lf st n, dhp_fin st -> (1 <= lf)%nat ->
    exists st', dhp_advance C cnext cadv lf cdflt st n = Ok (None, st') /\ dhp_fin st'.
  Proof.
    intros lf st n [Hi [Hmin [Hh Hm]]] Hlf. unfold dhp_advance, dhp_initialise. rewrite Hi. cbn [rbind].
    rewrite Hm, Hh. cbn [fold_left dhp_adv_loop rbind fst snd].
    unfold dhp_update_matches. cbn [heap_pop fst snd].
    destruct lf; [lia|]. rewrite dhp_loop_unfold. cbn [dh_matching].
    eexists. split; [reflexivity|]. split; [reflexivity|]. split; [exact Hmin|]. split; reflexivity.
  Qed.

  Lemma dhp_fin_none : forall st lo, dhp_ready st lo -> dh_matching st = [] -> none_from (disj_S Ss0 dmin) lo.
  Proof.
    intros st lo [Hi [Hmin [Hh [Sh [Sm [Sd [HFh [HFm [HFd [HP Hstruct]]]]]]]]]] Em. rewrite Em in *.
    intros x Hx. apply disj_S_zero. rewrite Hstruct in HFh. inversion HFh; subst. inversion HFm; subst.
    rewrite (count_true_perm _ _ x HP). simpl. apply count_true_all_false. eapply dropped_false; eauto.
  Qed.

  Theorem dhp_contract : forall lf st lo,
    dhp_inv st lo -> 0 <= lo -> (Z.to_nat N + 2 <= lf)%nat ->
    (exists r st', dhp_next C cnext lf cdflt st = Ok (r, st') /\ dhp_exact_post lo r st') /\
    (forall n, lo <= n -> exists r st', dhp_advance C cnext cadv lf cdflt st n = Ok (r, st') /\ dhp_exact_post n r st').
  Proof.
    intros lf st lo Hinv Hlo Hlf. split; [apply dhp_next_spec; assumption|].
    intros n Hn. eapply dhp_advance_spec; eauto.
  Qed.
End Heap.
