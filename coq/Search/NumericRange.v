(* Search/NumericRange.v — the numeric / date range front end
   (search/searcher/search_numeric_range.go:27-50 NewNumericRangeSearcher, query.go:338-378
   DateRangeQuery) combined with split_exact and f2i_order: which document values a range query
   selects, including the behaviour at the MaxInt64 / MinInt64 guards and at the +-Inf patterns. *)
From Coq Require Import ZArith List Bool Lia.
From Coq Require Import ZifyBool.
From Bluge Require Import Base.Int64 Base.NumBits Base.Res Gen.ParamsNumeric Search.Numeric
  Search.NumericProofs Search.NumericPrefix Search.NumericSplit.
Import ListNotations.
Open Scope Z_scope.

(* finite float64 bit patterns: exponent field not all ones *)
Definition finite (b : Z) : Prop := f_mag b < bits_pos_inf.

Lemma f2i_inj a b : in_uint64 a -> in_uint64 b -> f2i a = f2i b -> a = b.
Proof.
  intros Ha Hb E. rewrite <- (f2i_roundtrip_all a Ha), <- (f2i_roundtrip_all b Hb), E. reflexivity.
Qed.

Lemma finite_f2i x : in_uint64 x -> finite x -> min_int64 < f2i x < max_int64.
Proof.
  intros Hx Hf. rewrite f2i_arith by assumption. unfold finite, bits_pos_inf in Hf.
  destruct (sign_mag x Hx) as [(L & S & Mg)|(L & S & Mg)]; rewrite Mg in Hf;
    unfold in_uint64, two63, two64, min_int64, max_int64 in *.
  - destruct (Z.ltb_spec x 9223372036854775808); lia.
  - destruct (Z.ltb_spec x 9223372036854775808); lia.
Qed.

Definition lo_bound (lo : Z) (il : bool) : Z := fst (range_bounds lo 0 il true).
Definition hi_bound (hi : Z) (ih : bool) : Z := snd (range_bounds 0 hi true ih).

Lemma range_bounds_split lo hi il ih : range_bounds lo hi il ih = (lo_bound lo il, hi_bound hi ih).
Proof. reflexivity. Qed.

(* the int64 bounds handed to splitInt64Range, for every pair of bit patterns:
   -Inf as min / +Inf as max are the int64 extremes; an exclusive end is moved by one, EXCEPT
   that an exclusive min equal to MaxInt64 (resp. exclusive max equal to MinInt64) is left in
   place by the guard, i.e. behaves as inclusive *)
Lemma range_bounds_guards lo hi il ih v : in_uint64 lo -> in_uint64 hi -> in_int64 v ->
  in_int64 (lo_bound lo il) /\ in_int64 (hi_bound hi ih) /\
  (lo_bound lo il <= v <->
     if lo =? bits_neg_inf then il = true \/ min_int64 < v
     else f2i lo < v \/ (f2i lo = v /\ (il = true \/ v = max_int64))) /\
  (v <= hi_bound hi ih <->
     if hi =? bits_pos_inf then ih = true \/ v < max_int64
     else v < f2i hi \/ (f2i hi = v /\ (ih = true \/ v = min_int64))).
Proof.
  intros Hlo Hhi Hv. unfold lo_bound, hi_bound, range_bounds. cbn [fst snd].
  pose proof (f2i_range lo Hlo) as Rl. pose proof (f2i_range hi Hhi) as Rh.
  unfold in_int64, min_int64, max_int64 in *.
  destruct (Z.eqb_spec lo bits_neg_inf) as [El|El]; destruct (Z.eqb_spec hi bits_pos_inf) as [Eh|Eh];
    destruct il, ih; cbn [negb andb];
    repeat match goal with
           | |- context [?a =? ?b] => destruct (Z.eqb_spec a b)
           end; cbn [negb]; lia.
Qed.

(* ---------- numeric range queries ---------- *)

Definition lower_ok (lo : Z) (il : bool) (x : Z) : Prop :=
  lo = bits_neg_inf \/ float_lt lo x \/ (il = true /\ lo = x).
Definition upper_ok (hi : Z) (ih : bool) (x : Z) : Prop :=
  hi = bits_pos_inf \/ float_lt x hi \/ (ih = true /\ hi = x).

(* a finite document value x is selected iff it lies in the interval, in the float_lt order
   (-0 immediately below +0), with the stated inclusivity; the -Inf pattern as min and the +Inf
   pattern as max are open ends.  Holds for ALL end-point patterns (NaN patterns are ordered by
   sign/magnitude like everything else); the guards cannot be observed by a finite x. *)
Lemma numeric_range_exact_all lo hi il ih x :
  in_uint64 lo -> in_uint64 hi -> in_uint64 x -> finite x ->
  exists rs,
    split_range (fst (range_bounds lo hi il ih)) (snd (range_bounds lo hi il ih)) query_precision_step = Ok rs /\
    (covered rs (f2i x) <-> lower_ok lo il x /\ upper_ok hi ih x).
Proof.
  intros Hlo Hhi Hx Hf. rewrite range_bounds_split. cbn [fst snd].
  pose proof (f2i_range x Hx) as Rx.
  destruct (range_bounds_guards lo hi il ih (f2i x) Hlo Hhi Rx) as (Il & Ih & Gl & Gh).
  destruct (split_exact_all _ _ Il Ih) as (rs & E & C). exists rs. split; [exact E|].
  unfold covered, covers. rewrite (C (f2i x) Rx), Gl, Gh.
  pose proof (finite_f2i x Hx Hf) as Fx.
  assert (Hneg : ~ finite bits_neg_inf) by (unfold finite; vm_compute; discriminate).
  assert (Hpos : ~ finite bits_pos_inf) by (unfold finite; vm_compute; discriminate).
  unfold lower_ok, upper_ok.
  assert (Flt1 : float_lt lo x <-> f2i lo < f2i x) by (apply f2i_order_all; assumption).
  assert (Flt2 : float_lt x hi <-> f2i x < f2i hi) by (apply f2i_order_all; assumption).
  assert (Feq1 : lo = x <-> f2i lo = f2i x) by (split; [intros ->; reflexivity | apply f2i_inj; assumption]).
  assert (Feq2 : hi = x <-> f2i hi = f2i x) by (split; [intros ->; reflexivity | apply f2i_inj; assumption]).
  assert (Nl : lo = bits_neg_inf -> lo <> x) by (intros -> <-; contradiction).
  assert (Nh : hi = bits_pos_inf -> hi <> x) by (intros -> <-; contradiction).
  rewrite Flt1, Flt2, Feq1, Feq2. rewrite Feq1 in Nl. rewrite Feq2 in Nh.
  clear Flt1 Flt2 Feq1 Feq2 Gl Gh C E Il Ih Hneg Hpos Hf.
  generalize dependent (f2i x). generalize dependent (f2i lo). generalize dependent (f2i hi).
  intros fh fl fx _ Fx Nl Nh.
  assert (HL : (if lo =? bits_neg_inf then il = true \/ min_int64 < fx
                else fl < fx \/ fl = fx /\ (il = true \/ fx = max_int64))
               <-> (lo = bits_neg_inf \/ fl < fx \/ il = true /\ fl = fx)).
  { destruct (Z.eqb_spec lo bits_neg_inf) as [El|El]; destruct il; split; intros H; lia. }
  assert (HU : (if hi =? bits_pos_inf then ih = true \/ fx < max_int64
                else fx < fh \/ fh = fx /\ (ih = true \/ fx = min_int64))
               <-> (hi = bits_pos_inf \/ fx < fh \/ ih = true /\ fh = fx)).
  { destruct (Z.eqb_spec hi bits_pos_inf) as [Eh|Eh]; destruct ih; split; intros H; lia. }
  rewrite HL, HU. reflexivity.
Qed.

(* the guard made visible: an exclusive lower end at the pattern whose sortable integer is MaxInt64
   (0x7fffffffffffffff, a NaN) still selects that value *)
Lemma range_guard_max_inclusive :
  let nan := max_int64 in
  exists rs, split_range (fst (range_bounds nan bits_pos_inf false true))
                         (snd (range_bounds nan bits_pos_inf false true)) query_precision_step = Ok rs /\
             covered rs (f2i nan) /\ ~ float_lt nan nan.
Proof.
  cbv zeta.
  assert (Hn : in_uint64 max_int64) by (unfold in_uint64, max_int64, two64; lia).
  assert (Hp : in_uint64 bits_pos_inf) by (unfold in_uint64, bits_pos_inf, two64; lia).
  rewrite range_bounds_split. cbn [fst snd].
  assert (Rx : in_int64 (f2i max_int64)) by (apply f2i_range; exact Hn).
  destruct (range_bounds_guards max_int64 bits_pos_inf false true (f2i max_int64) Hn Hp Rx) as (Il & Ih & Gl & Gh).
  destruct (split_exact_all _ _ Il Ih) as (rs & E & C). exists rs. split; [exact E|]. split.
  - unfold covered, covers. apply (C _ Rx). split.
    + apply Gl. vm_compute. right. split; [reflexivity|right; reflexivity].
    + apply Gh. vm_compute. left. reflexivity.
  - unfold float_lt. lia.
Qed.

(* ---------- date range queries: end points and values are int64 nanoseconds ---------- *)

(* DateRangeQuery turns its int64 end points into float64 with Int64ToFloat64 and calls the numeric
   searcher, which turns them back with Float64ToInt64 unless the float is +-Inf.  Two instants
   alias the infinities: *)
Definition nanos_neg_inf_alias : Z := f2i bits_neg_inf. (* -9218868437227405313 ns = 1677-11-12T03:12:42.772594687Z *)
Definition nanos_pos_inf_alias : Z := f2i bits_pos_inf. (*  9218868437227405312 ns = 2262-02-18T20:47:17.227405312Z *)

Lemma i2f_range i : in_int64 i -> in_uint64 (i2f i).
Proof.
  intros H. rewrite i2f_arith by assumption.
  unfold in_int64, in_uint64, min_int64, max_int64, two63, two64 in *.
  destruct (Z.ltb_spec i 0); lia.
Qed.

Lemma date_range_exact_all a b il ih v : in_int64 a -> in_int64 b -> in_int64 v ->
  a <> nanos_neg_inf_alias -> b <> nanos_pos_inf_alias ->
  exists rs,
    split_range (fst (range_bounds (i2f a) (i2f b) il ih)) (snd (range_bounds (i2f a) (i2f b) il ih))
                datetime_precision_step = Ok rs /\
    (covered rs v <->
       (a < v \/ (a = v /\ (il = true \/ v = max_int64))) /\
       (v < b \/ (b = v /\ (ih = true \/ v = min_int64)))).
Proof.
  intros Ha Hb Hv Na Nb. rewrite range_bounds_split. cbn [fst snd].
  pose proof (i2f_range a Ha) as Ua. pose proof (i2f_range b Hb) as Ub.
  destruct (range_bounds_guards (i2f a) (i2f b) il ih v Ua Ub Hv) as (Il & Ih & Gl & Gh).
  destruct (split_exact_all _ _ Il Ih) as (rs & E & C). exists rs. split; [exact E|].
  unfold covered, covers. rewrite (C v Hv), Gl, Gh. rewrite !i2f_roundtrip_all by assumption.
  destruct (Z.eqb_spec (i2f a) bits_neg_inf) as [Ea|Ea].
  { exfalso. apply Na. unfold nanos_neg_inf_alias. rewrite <- Ea. symmetry. apply i2f_roundtrip_all. exact Ha. }
  destruct (Z.eqb_spec (i2f b) bits_pos_inf) as [Eb|Eb].
  { exfalso. apply Nb. unfold nanos_pos_inf_alias. rewrite <- Eb. symmetry. apply i2f_roundtrip_all. exact Hb. }
  reflexivity.
Qed.

(* at the two aliasing instants the date range is NOT exact: an inclusive end at
   nanos_pos_inf_alias also selects every later instant (it is read as +Inf) *)
Lemma date_range_inf_alias_refuted_all :
  exists a b v rs, in_int64 a /\ in_int64 b /\ in_int64 v /\
    split_range (fst (range_bounds (i2f a) (i2f b) true true)) (snd (range_bounds (i2f a) (i2f b) true true))
                datetime_precision_step = Ok rs /\
    covered rs v /\ b < v.
Proof.
  set (b := nanos_pos_inf_alias). set (v := b + 1000).
  assert (Ha : in_int64 0) by (unfold in_int64, min_int64, max_int64; lia).
  assert (Hb : in_int64 b) by (vm_compute; split; discriminate).
  assert (Hv : in_int64 v) by (vm_compute; split; discriminate).
  pose proof (i2f_range 0 Ha) as Ua. pose proof (i2f_range b Hb) as Ub.
  destruct (range_bounds_guards (i2f 0) (i2f b) true true v Ua Ub Hv) as (Il & Ih & Gl & Gh).
  destruct (split_exact_all _ _ Il Ih) as (rs & E & C).
  exists 0, b, v, rs.
  split; [exact Ha|]. split; [exact Hb|]. split; [exact Hv|]. split; [|split].
  - rewrite range_bounds_split. cbn [fst snd]. exact E.
  - unfold covered, covers in *. apply (C v Hv). split.
    + apply Gl. vm_compute. left. reflexivity.
    + apply Gh. vm_compute. left. reflexivity.
  - vm_compute. reflexivity.
Qed.
