(* Search/SearchersProofsDisj.v — the slice disjunction searcher (search_disjunction_slice.go)
   meets the iterator contract when its children do: it returns, in increasing order, exactly
   the numbers matched by at least max(min, 1) children.
   Invariant (DESIGN.md 3.5): every currs[i] is the least member of child i at or above the
   watermark; `matching` = the children whose cursor equals the minimum cursor. *)
From Coq Require Import ZArith List Bool Lia Arith.
From Bluge Require Import Base.Res Search.Numeric Search.Postings Search.Searchers
  Search.SearchersProofsBase Search.SearchersProofsConj.
Import ListNotations.
Open Scope Z_scope.

Definition count_true (Ss : list (Z -> bool)) (x : Z) : nat := length (filter (fun s => s x) Ss).

(* at least max(min, 1) of the children match *)
Definition disj_S (Ss : list (Z -> bool)) (min : Z) (x : Z) : bool :=
  (Z.max min 1 <=? Z.of_nat (count_true Ss x)).

Section Disj.
  Variable C : Type.
  Variable cnext : C -> res (option dmatch * C).
  Variable cadv : C -> Z -> res (option dmatch * C).
  Variable CInv CFin : C -> (Z -> bool) -> Z -> Prop.
  Hypothesis Hct : contract cnext cadv CInv CFin.
  Variable CNew : C -> (Z -> bool) -> Prop.
  Hypothesis Hnew : new_exact cnext CInv CFin CNew.
  Variable N : Z.
  Variable Ss0 : list (Z -> bool).
  Variable dmin : Z.

  Definition dchild_ok (lo : Z) (c : C) (S : Z -> bool) (cur : option dmatch) : Prop :=
    bounded N S /\
    match cur with
    | Some m => least_from S lo (dm_num m) /\ CInv c S (dm_num m + 1)
    | None => none_from S lo /\ exists lo', lo' <= lo /\ CFin c S lo'
    end.

  Lemma dchild_ok_raise lo lo' c S cur :
    dchild_ok lo c S cur -> lo <= lo' -> (forall m, cur = Some m -> lo' <= dm_num m) -> dchild_ok lo' c S cur.
  Proof.
    intros [HB H] Hle Hc. split; [exact HB|]. destruct cur as [m|].
    - destruct H as [[A [B0 D]] HI]. split; [|exact HI]. split; [exact A|]. split; [apply Hc; reflexivity|].
      intros x Hx. apply D. lia.
    - destruct H as [Hn [l [Hl HF]]]. split; [eapply none_from_mono; eauto|]. exists l. split; [lia|exact HF].
  Qed.

  (* ---------- the minimum cursor ---------- *)

  Definition cur_is (d : Z) (c : option dmatch) : bool :=
    match c with Some m => dm_num m =? d | None => false end.

  Definition count_at (d : Z) (currs : list (option dmatch)) : nat := length (filter (cur_is d) currs).

  (* with every cursor the least member at or above lo and lo <= d <= every cursor: the children
     whose cursor is d are exactly those matching d *)
  Lemma count_at_count_true : forall cs Ss currs lo d,
    all3 (dchild_ok lo) cs Ss currs -> lo <= d ->
    (forall i m, nth_error currs i = Some (Some m) -> d <= dm_num m) ->
    count_at d currs = count_true Ss d.
  Proof.
    intros cs Ss currs lo d H. induction H as [| c S cur cs Ss currs Hok H IH]; intros Hd Hmin; [reflexivity|].
    unfold count_at, count_true in *. simpl.
    assert (IH' : length (filter (cur_is d) currs) = length (filter (fun s => s d) Ss)).
    { apply IH; [exact Hd|]. intros i m Hi. apply (Hmin (Datatypes.S i) m). exact Hi. }
    destruct Hok as [HB Hok]. destruct cur as [m|]; simpl.
    - destruct Hok as [[A [B0 D]] _]. pose proof (Hmin O m eq_refl) as Hm.
      destruct (dm_num m =? d) eqn:E.
      + apply Z.eqb_eq in E. rewrite <- E in *. rewrite A. simpl. congruence.
      + apply Z.eqb_neq in E. rewrite (D d) by lia. exact IH'.
    - destruct Hok as [Hn _]. rewrite (Hn d) by lia. exact IH'.
  Qed.

  (* update_matches: specification *)
  Definition um_inv (i : nat) (seen rest : list (option dmatch)) (matching : list dmatch) (idxs : list nat) : Prop :=
    length matching = length idxs /\
    match matching with
    | [] => forall c, In c seen -> c = None
    | m0 :: _ =>
        (forall c m, In c seen -> c = Some m -> dm_num m0 <= dm_num m) /\
        Forall (fun m => dm_num m = dm_num m0) matching /\
        length matching = count_at (dm_num m0) seen /\
        (forall j, In j idxs <-> exists m, nth_error seen j = Some (Some m) /\ dm_num m = dm_num m0)
    end.

  Lemma count_at_app d l1 l2 : count_at d (l1 ++ l2) = (count_at d l1 + count_at d l2)%nat.
  Proof. unfold count_at. rewrite filter_app, app_length. reflexivity. Qed.

  Lemma update_matches_from_spec : forall rest seen matching idxs,
    um_inv (length seen) seen rest matching idxs ->
    let r := update_matches_from (length seen) rest matching idxs in
    um_inv (length (seen ++ rest)) (seen ++ rest) [] (fst r) (snd r).
  Proof.
    induction rest as [| c rest IH]; intros seen matching idxs Hinv; simpl.
    - rewrite app_nil_r. exact Hinv.
    - assert (Hseen : seen ++ c :: rest = (seen ++ [c]) ++ rest) by (rewrite <- app_assoc; reflexivity).
      assert (Hlen : Datatypes.S (length seen) = length (seen ++ [c])) by (rewrite app_length; simpl; lia).
      destruct c as [c|].
      + destruct matching as [| m0 mr].
        * (* first cursor *)
          rewrite Hseen, Hlen. apply IH. destruct Hinv as [Hl Hnone]. split; [reflexivity|].
          split; [|split; [|split]].
          -- intros c' m Hin Hc'. apply in_app_or in Hin. destruct Hin as [Hin|[<-|[]]].
             ++ apply Hnone in Hin. congruence.
             ++ inversion Hc'; subst. lia.
          -- constructor; [reflexivity|constructor].
          -- rewrite count_at_app. unfold count_at at 2. simpl. rewrite Z.eqb_refl. simpl.
             assert (count_at (dm_num c) seen = O).
             { unfold count_at. clear -Hnone. induction seen as [| a s IHs]; [reflexivity|]. simpl.
               rewrite (Hnone a (or_introl eq_refl)). simpl. apply IHs. intros x Hx. apply Hnone. right. exact Hx. }
             lia.
          -- intros j. split.
             ++ intros [<-|[]]. exists c. split; [|reflexivity]. rewrite nth_error_app2 by lia. rewrite Nat.sub_diag. reflexivity.
             ++ intros [m [Hj Hm]]. left.
                destruct (lt_dec j (length seen)) as [Hlt|Hge].
                ** rewrite nth_error_app1 in Hj by exact Hlt. apply nth_error_In in Hj. apply Hnone in Hj. discriminate.
                ** assert (Hjl : (j < length (seen ++ [Some c]))%nat) by (eapply nth_error_Some_lt; eauto).
                   rewrite app_length in Hjl. simpl in Hjl. lia.
        * destruct Hinv as [Hl [Hmin [Hall [Hcnt Hidx]]]].
          destruct (dm_num m0 <? dm_num c) eqn:E1.
          { (* a larger cursor: skipped *)
            apply Z.ltb_lt in E1. rewrite Hseen, Hlen. apply IH. split; [exact Hl|].
            split; [|split; [exact Hall|split]].
            - intros c' m Hin Hc'. apply in_app_or in Hin. destruct Hin as [Hin|[<-|[]]]; [eapply Hmin; eauto|].
              inversion Hc'; subst. lia.
            - rewrite count_at_app. unfold count_at at 2. simpl.
              assert (dm_num c =? dm_num m0 = false) by (apply Z.eqb_neq; lia). rewrite H. simpl in Hcnt |- *. lia.
            - intros j. rewrite Hidx. split; intros [m [Hj Hm]]; exists m; split; auto.
              + rewrite nth_error_app1; [exact Hj|]. eapply nth_error_Some_lt; eauto.
              + destruct (lt_dec j (length seen)) as [Hlt|Hge]; [rewrite nth_error_app1 in Hj by exact Hlt; exact Hj|].
                assert (Hjl : (j < length (seen ++ [Some c]))%nat) by (eapply nth_error_Some_lt; eauto).
                rewrite app_length in Hjl. simpl in Hjl. assert (j = length seen) by lia. subst j.
                rewrite nth_error_app2 in Hj by lia. rewrite Nat.sub_diag in Hj. simpl in Hj. inversion Hj; subst. lia. }
          apply Z.ltb_ge in E1.
          destruct (dm_num c <? dm_num m0) eqn:E2.
          { (* a smaller cursor: restart the matching list *)
            apply Z.ltb_lt in E2. rewrite Hseen, Hlen. apply IH. split; [reflexivity|].
            split; [|split; [|split]].
            - intros c' m Hin Hc'. apply in_app_or in Hin. destruct Hin as [Hin|[<-|[]]].
              + specialize (Hmin c' m Hin Hc'). lia.
              + inversion Hc'; subst. lia.
            - constructor; [reflexivity|constructor].
            - rewrite count_at_app. unfold count_at at 2. simpl. rewrite Z.eqb_refl. simpl.
              assert (count_at (dm_num c) seen = O).
              { unfold count_at. clear -Hmin E2. induction seen as [| a s IHs]; [reflexivity|]. simpl.
                destruct a as [a|]; simpl.
                - pose proof (Hmin (Some a) a (or_introl eq_refl) eq_refl).
                  assert (dm_num a =? dm_num c = false) by (apply Z.eqb_neq; lia). rewrite H0. simpl.
                  apply IHs. intros x m Hx. apply Hmin. right. exact Hx.
                - apply IHs. intros x m Hx. apply Hmin. right. exact Hx. }
              lia.
            - intros j. split.
              + intros [<-|[]]. exists c. split; [|reflexivity]. rewrite nth_error_app2 by lia. rewrite Nat.sub_diag. reflexivity.
              + intros [m [Hj Hm]]. left.
                destruct (lt_dec j (length seen)) as [Hlt|Hge].
                * rewrite nth_error_app1 in Hj by exact Hlt. pose proof (nth_error_In _ _ Hj) as Hin.
                  specialize (Hmin _ m Hin eq_refl). lia.
                * assert (Hjl : (j < length (seen ++ [Some c]))%nat) by (eapply nth_error_Some_lt; eauto).
                  rewrite app_length in Hjl. simpl in Hjl. lia. }
          apply Z.ltb_ge in E2. assert (Heq : dm_num c = dm_num m0) by lia.
          (* an equal cursor: appended *)
          rewrite Hseen, Hlen. apply IH. split; [rewrite !app_length; simpl; simpl in Hl; lia|].
          simpl. split; [|split; [|split]].
          -- intros c' m Hin Hc'. apply in_app_or in Hin. destruct Hin as [Hin|[<-|[]]]; [eapply Hmin; eauto|].
             inversion Hc'; subst. lia.
          -- change (m0 :: mr ++ [c]) with ((m0 :: mr) ++ [c]). apply Forall_app. split; [exact Hall|].
             constructor; [exact Heq|constructor].
          -- rewrite count_at_app. unfold count_at at 2. simpl. rewrite Heq, Z.eqb_refl. simpl.
             rewrite app_length. simpl. simpl in Hcnt. lia.
          -- intros j. rewrite in_app_iff, Hidx. split.
             ++ intros [[m [Hj Hm]]|[<-|[]]].
                ** exists m. split; [|exact Hm]. rewrite nth_error_app1; [exact Hj|]. eapply nth_error_Some_lt; eauto.
                ** exists c. split; [|exact Heq]. rewrite nth_error_app2 by lia. rewrite Nat.sub_diag. reflexivity.
             ++ intros [m [Hj Hm]].
                destruct (lt_dec j (length seen)) as [Hlt|Hge].
                ** left. exists m. rewrite nth_error_app1 in Hj by exact Hlt. split; assumption.
                ** right. left. assert (Hjl : (j < length (seen ++ [Some c]))%nat) by (eapply nth_error_Some_lt; eauto).
                   rewrite app_length in Hjl. simpl in Hjl. lia.
      + (* a finished child: skipped *)
        rewrite Hseen, Hlen. apply IH.
        destruct Hinv as [Hl Hinv]. split; [exact Hl|]. destruct matching as [| m0 mr].
        * intros c' Hin. apply in_app_or in Hin. destruct Hin as [Hin|[<-|[]]]; [apply Hinv; exact Hin|reflexivity].
        * destruct Hinv as [Hmin [Hall [Hcnt Hidx]]]. split; [|split; [exact Hall|split]].
          -- intros c' m Hin Hc'. apply in_app_or in Hin. destruct Hin as [Hin|[<-|[]]]; [eapply Hmin; eauto|discriminate].
          -- rewrite count_at_app. unfold count_at at 2. simpl in Hcnt |- *. lia.
          -- intros j. rewrite Hidx. split; intros [m [Hj Hm]]; exists m; split; auto.
             ++ rewrite nth_error_app1; [exact Hj|]. eapply nth_error_Some_lt; eauto.
             ++ destruct (lt_dec j (length seen)) as [Hlt|Hge]; [rewrite nth_error_app1 in Hj by exact Hlt; exact Hj|].
                assert (Hjl : (j < length (seen ++ [None]))%nat) by (eapply nth_error_Some_lt; eauto).
                rewrite app_length in Hjl. simpl in Hjl. assert (j = length seen) by lia. subst j.
                rewrite nth_error_app2 in Hj by lia. rewrite Nat.sub_diag in Hj. simpl in Hj. discriminate.
  Qed.

  Lemma update_matches_spec : forall currs,
    um_inv (length currs) currs [] (fst (update_matches currs)) (snd (update_matches currs)).
  Proof.
    intros currs. unfold update_matches.
    pose proof (update_matches_from_spec currs [] [] []) as H. simpl in H. apply H.
    split; [reflexivity|]. intros c [].
  Qed.

  Lemma update_matches_from_idxs : forall rest i matching idxs,
    NoDup idxs -> (forall j, In j idxs -> (j < i)%nat) ->
    let r := update_matches_from i rest matching idxs in
    NoDup (snd r) /\ (forall j, In j (snd r) -> (j < i + length rest)%nat).
  Proof.
    induction rest as [| c rest IH]; intros i matching idxs Hnd Hb; simpl.
    - split; [exact Hnd|]. intros j Hj. apply Hb in Hj. lia.
    - assert (Hfresh : NoDup (idxs ++ [i]) /\ (forall j, In j (idxs ++ [i]) -> (j < Datatypes.S i)%nat)).
      { split.
        - clear -Hnd Hb. induction idxs as [| a l IHl]; simpl; [constructor; [intros []|constructor]|].
          inversion Hnd as [| a' l' Hnin Hnd']; subst. constructor.
          + intros Hin. apply in_app_or in Hin. destruct Hin as [Hin|[Heq|[]]]; [contradiction|].
            pose proof (Hb a (or_introl eq_refl)). lia.
          + apply IHl; [assumption|]. intros j Hj. apply Hb. right. exact Hj.
        - intros j Hj. apply in_app_or in Hj. destruct Hj as [Hj|[<-|[]]]; [apply Hb in Hj; lia|lia]. }
      assert (Hone : NoDup [i] /\ (forall j, In j [i] -> (j < Datatypes.S i)%nat)).
      { split; [constructor; [intros []|constructor]|]. intros j [<-|[]]. lia. }
      assert (Hkeep : forall j, In j idxs -> (j < Datatypes.S i)%nat) by (intros j Hj; apply Hb in Hj; lia).
      replace (i + Datatypes.S (length rest))%nat with (Datatypes.S i + length rest)%nat by lia.
      destruct c as [c|]; [|apply IH; assumption].
      destruct matching as [| m0 mr]; [apply IH; apply Hone|].
      destruct (dm_num m0 <? dm_num c); [apply IH; assumption|].
      destruct (dm_num c <? dm_num m0); [apply IH; apply Hone|apply IH; apply Hfresh].
  Qed.

  Lemma update_matches_idxs : forall currs,
    NoDup (snd (update_matches currs)) /\ (forall j, In j (snd (update_matches currs)) -> (j < length currs)%nat).
  Proof.
    intros currs. unfold update_matches.
    pose proof (update_matches_from_idxs currs O [] [] (NoDup_nil _)) as H. simpl in H. apply H. intros j [].
  Qed.

  Lemma all3_intro {A B D} (P : A -> B -> D -> Prop) : forall la lb ld,
    length la = length lb -> length lb = length ld ->
    (forall j a b d, nth_error la j = Some a -> nth_error lb j = Some b -> nth_error ld j = Some d -> P a b d) ->
    all3 P la lb ld.
  Proof.
    induction la as [| a la IH]; intros [| b lb] [| d ld] H1 H2 HP; simpl in *; try discriminate; constructor.
    - apply (HP O a b d); reflexivity.
    - apply IH; [lia|lia|]. intros j a' b' d' Ha Hb Hd. apply (HP (Datatypes.S j) a' b' d'); assumption.
  Qed.

  (* ---------- stepping the matching children ---------- *)

  (* child j still sits on the candidate d and is exact from d+1 *)
  Definition pending (d : Z) (c : C) (S : Z -> bool) (cur : option dmatch) : Prop :=
    bounded N S /\ CInv c S (d + 1) /\ exists m, cur = Some m /\ dm_num m = d.

  Lemma next_idxs_spec : forall idxs cs currs d,
    NoDup idxs ->
    length cs = length Ss0 -> length Ss0 = length currs ->
    (forall j c S cur, nth_error cs j = Some c -> nth_error Ss0 j = Some S -> nth_error currs j = Some cur ->
        (In j idxs -> pending d c S cur) /\ (~ In j idxs -> dchild_ok (d + 1) c S cur)) ->
    (forall j, In j idxs -> (j < length currs)%nat) ->
    exists cs' currs', next_idxs C cnext idxs cs currs = Ok (cs', currs') /\ all3 (dchild_ok (d + 1)) cs' Ss0 currs'.
  Proof.
    induction idxs as [| i idxs IH]; intros cs currs d Hnd Hl1 Hl2 Hall Hb.
    - exists cs, currs. simpl. split; [reflexivity|]. apply all3_intro; [exact Hl1|exact Hl2|].
      intros j c S cur Hc HS Hcur. apply (Hall j c S cur Hc HS Hcur). intros [].
    - inversion Hnd as [| i' l' Hnin Hnd']; subst.
      assert (Hi : (i < length currs)%nat) by (apply Hb; left; reflexivity).
      destruct (nth_error cs i) as [c|] eqn:Hc; [|apply nth_error_None in Hc; lia].
      destruct (nth_error Ss0 i) as [S|] eqn:HS; [|apply nth_error_None in HS; lia].
      destruct (nth_error currs i) as [cur|] eqn:Hcur; [|apply nth_error_None in Hcur; lia].
      destruct (Hall i c S cur Hc HS Hcur) as [Hp _]. destruct (Hp (or_introl eq_refl)) as [HB [HI [m [-> Hm]]]].
      destruct (ct_next _ _ _ _ _ Hct c S (d + 1) HI) as [r [c' [E Hpost]]].
      simpl. unfold next_child. rewrite Hc. simpl. rewrite E. simpl.
      apply IH; auto.
      + rewrite set_nth_length. exact Hl1.
      + rewrite set_nth_length. exact Hl2.
      + intros j cj Sj curj Hcj HSj Hcurj. destruct (Nat.eq_dec j i) as [->|Hne].
        * assert (Hlc : (i < length cs)%nat) by lia.
          rewrite nth_error_set_nth_eq in Hcj by exact Hlc. rewrite nth_error_set_nth_eq in Hcurj by exact Hi.
          inversion Hcj; subst cj. inversion Hcurj; subst curj. rewrite HS in HSj. inversion HSj; subst Sj.
          split; [intros Hin; contradiction|]. intros _. split; [exact HB|].
          destruct r as [m'|]; simpl in Hpost.
          -- exact Hpost.
          -- destruct Hpost as [Hn HF]. split; [exact Hn|]. exists (d + 1). split; [lia|exact HF].
        * rewrite nth_error_set_nth_neq in Hcj by congruence. rewrite nth_error_set_nth_neq in Hcurj by congruence.
          destruct (Hall j cj Sj curj Hcj HSj Hcurj) as [H1 H2]. split.
          -- intros Hin. apply H1. right. exact Hin.
          -- intros Hnin'. apply H2. intros [Heq|Hin]; [congruence|contradiction].
      + intros j Hj. rewrite set_nth_length. apply Hb. right. exact Hj.
  Qed.

  (* ---------- the loop ---------- *)

  Definition dsl_ready (st : dsl_st C) (lo : Z) : Prop :=
    ds_init st = true /\ ds_min st = dmin /\
    all3 (dchild_ok lo) (ds_s st) Ss0 (ds_currs st) /\
    ds_matching st = fst (update_matches (ds_currs st)) /\ ds_idxs st = snd (update_matches (ds_currs st)).

  (* the end: every child finished; when no candidate is ever skipped (min <= 1) the children
     finished at the watermark itself *)
  Definition dsl_fin (st : dsl_st C) (lo : Z) : Prop :=
    exists lo', lo <= lo' /\ dsl_ready st lo' /\ ds_matching st = [] /\ (dmin <= 1 -> lo' = lo).

  Definition dsl_exact_post (lo : Z) (r : option dmatch) (st' : dsl_st C) : Prop :=
    match r with
    | Some rv => least_from (disj_S Ss0 dmin) lo (dm_num rv) /\ dsl_ready st' (dm_num rv + 1)
    | None => none_from (disj_S Ss0 dmin) lo /\ dsl_fin st' lo
    end.

  Lemma count_true_zero : forall cs Ss currs lo x,
    all3 (dchild_ok lo) cs Ss currs -> lo <= x ->
    (forall i m, nth_error currs i = Some (Some m) -> x < dm_num m) -> count_true Ss x = O.
  Proof.
    intros cs Ss currs lo x H. induction H as [| c S cur cs Ss currs Hok H IH]; intros Hx Hlt; [reflexivity|].
    unfold count_true in *. simpl.
    assert (S x = false).
    { destruct Hok as [_ Hok]. destruct cur as [m|].
      - destruct Hok as [[_ [_ D]] _]. apply D. pose proof (Hlt O m eq_refl). lia.
      - destruct Hok as [Hn _]. apply Hn. lia. }
    rewrite H0. apply IH; [exact Hx|]. intros i m Hi. apply (Hlt (Datatypes.S i) m). exact Hi.
  Qed.

  Lemma disj_S_zero x : count_true Ss0 x = O -> disj_S Ss0 dmin x = false.
  Proof. intros H. unfold disj_S. rewrite H. apply Z.leb_gt. simpl. lia. Qed.

  Lemma dsl_loop_unfold : forall fuel st,
    dsl_loop C cnext (Datatypes.S fuel) st =
    match ds_matching st with
    | [] => Ok (None, st)
    | _ :: _ =>
        let found := ds_min st <=? Z.of_nat (length (ds_matching st)) in
        y <- next_idxs C cnext (ds_idxs st) (ds_s st) (ds_currs st) ;;
        let um := update_matches (snd y) in
        let st' := {| ds_s := fst y; ds_currs := snd y; ds_min := ds_min st;
                      ds_matching := fst um; ds_idxs := snd um; ds_init := true |} in
        if found then Ok (build_match (ds_matching st), st') else dsl_loop C cnext fuel st'
    end.
  Proof. reflexivity. Qed.

  Lemma dsl_loop_spec : forall fuel st lo,
    dsl_ready st lo -> 0 <= lo -> (Z.to_nat (N - lo) + 1 < fuel)%nat ->
    exists r st', dsl_loop C cnext fuel st = Ok (r, st') /\ dsl_exact_post lo r st'.
  Proof.
    induction fuel as [| fuel IH]; intros st lo HR Hlo Hfuel; [lia|].
    pose proof HR as [Hi [Hmin [H3 [Hm Hx]]]].
    destruct (all3_length _ _ _ _ H3) as [Hl1 Hl2].
    pose proof (update_matches_spec (ds_currs st)) as [Hlen Hum].
    pose proof (update_matches_idxs (ds_currs st)) as [Hnd Hbound].
    rewrite <- Hm in Hlen, Hum. rewrite <- Hx in Hlen, Hnd, Hbound, Hum.
    rewrite dsl_loop_unfold. destruct (ds_matching st) as [| m0 mr] eqn:Em.
    - (* every child finished *)
      exists None, st. split; [reflexivity|]. simpl. split.
      + intros x Hxlo. apply disj_S_zero. eapply count_true_zero; eauto.
        intros i m Hin. apply nth_error_In in Hin. apply Hum in Hin. discriminate.
      + exists lo. split; [lia|]. split; [exact HR|]. split; [exact Em|reflexivity].
    - destruct Hum as [Hleast [Hall [Hcnt Hidx]]].
      remember (dm_num m0) as d eqn:Ed.
      (* some child sits on d *)
      assert (Hex : exists j m, nth_error (ds_currs st) j = Some (Some m) /\ dm_num m = d).
      { destruct (ds_idxs st) as [| j0 jr] eqn:Ej; [simpl in Hlen; discriminate|].
        destruct (proj1 (Hidx j0) (or_introl eq_refl)) as [m [Hj Hmj]]. eauto. }
      assert (Hge : forall i m, nth_error (ds_currs st) i = Some (Some m) -> d <= dm_num m).
      { intros i m Hin. apply (Hleast (Some m) m); [eapply nth_error_In; eauto|reflexivity]. }
      assert (Hd : lo <= d < N).
      { destruct Hex as [j [m [Hj Hmj]]].
        destruct (all3_lookup_gen _ _ _ _ j H3 (nth_error_Some_lt _ _ _ Hj)) as [c [S [cur [_ [_ [Hcur [HB Hok]]]]]]].
        rewrite Hj in Hcur. inversion Hcur; subst cur. destruct Hok as [[A [B0 _]] _].
        apply HB in A. lia. }
      assert (Hcount : length (m0 :: mr) = count_true Ss0 d).
      { rewrite Hcnt. eapply count_at_count_true; eauto. lia. }
      assert (Hbelow : forall x, lo <= x < d -> disj_S Ss0 dmin x = false).
      { intros x Hxd. apply disj_S_zero. eapply count_true_zero; eauto; [lia|].
        intros i m Hin. specialize (Hge i m Hin). lia. }
      (* step the matching children *)
      destruct (next_idxs_spec (ds_idxs st) (ds_s st) (ds_currs st) d Hnd Hl1 Hl2) as [cs' [currs' [E H3']]].
      { intros j c S cur Hc HS Hcur.
        pose proof (all3_nth _ _ _ _ _ _ _ _ H3 Hc HS Hcur) as Hok. split.
        - intros Hin. apply Hidx in Hin. destruct Hin as [m [Hj Hmj]]. rewrite Hj in Hcur. inversion Hcur; subst cur.
          destruct Hok as [HB [_ HI]]. split; [exact HB|]. split; [rewrite <- Hmj; exact HI|]. eauto.
        - intros Hnin. apply dchild_ok_raise with (lo := lo); [exact Hok|lia|].
          intros m ->. pose proof (Hge j m Hcur).
          destruct (Z.eq_dec (dm_num m) d) as [Heq|Hne]; [|lia].
          exfalso. apply Hnin. apply Hidx. eauto. }
      { exact Hbound. }
      cbv zeta. rewrite E. cbn [rbind fst snd].
      set (st' := {| ds_s := cs'; ds_currs := currs'; ds_min := ds_min st;
                     ds_matching := fst (update_matches currs'); ds_idxs := snd (update_matches currs'); ds_init := true |}).
      assert (HR' : dsl_ready st' (d + 1)).
      { unfold dsl_ready, st'. simpl. split; [reflexivity|]. split; [exact Hmin|]. split; [exact H3'|]. split; reflexivity. }
      assert (HdS : disj_S Ss0 dmin d = (ds_min st <=? Z.of_nat (length (m0 :: mr)))).
      { unfold disj_S. rewrite <- Hcount, Hmin.
        assert (1 <= Z.of_nat (length (m0 :: mr))) by (simpl length; lia).
        destruct (dmin <=? Z.of_nat (length (m0 :: mr))) eqn:E1.
        - apply Z.leb_le in E1. apply Z.leb_le. lia.
        - apply Z.leb_gt in E1. apply Z.leb_gt. lia. }
      destruct (ds_min st <=? Z.of_nat (length (m0 :: mr))) eqn:Efound.
      + (* found *)
        exists (build_match (m0 :: mr)), st'. split; [reflexivity|].
        cbn [build_match dsl_exact_post dm_num]. rewrite <- Ed.
        split; [|exact HR']. split; [exact HdS|]. split; [lia|exact Hbelow].
      + (* fewer than min children match d: skip it *)
        destruct (IH st' (d + 1) HR' ltac:(lia)) as [r [st'' [E2 Hpost]]].
        { assert (Z.to_nat (N - (d + 1)) < Z.to_nat (N - lo))%nat by (apply Z2Nat.inj_lt; lia). lia. }
        exists r, st''. split; [exact E2|].
        assert (Hbelow' : forall x, lo <= x < d + 1 -> disj_S Ss0 dmin x = false).
        { intros x Hxd. destruct (Z.eq_dec x d) as [->|Hne]; [exact HdS|]. apply Hbelow. lia. }
        destruct r as [rv|]; simpl in *.
        * destruct Hpost as [[A [B0 D]] HR'']. split; [|exact HR'']. split; [exact A|]. split; [lia|].
          intros x Hxd. destruct (Z_lt_ge_dec x (d + 1)); [apply Hbelow'; lia|apply D; lia].
        * destruct Hpost as [Hn [lo' [Hlo' [HR'' [Hm'' Hmin1]]]]]. split.
          -- intros x Hxd. destruct (Z_lt_ge_dec x (d + 1)); [apply Hbelow'; lia|apply Hn; lia].
          -- exists lo'. split; [lia|]. split; [exact HR''|]. split; [exact Hm''|].
             intros Hle. exfalso.
             (* min <= 1: the candidate cannot have been skipped *)
             apply Z.leb_gt in Efound. rewrite Hmin in Efound. simpl length in Efound. lia.
  Qed.

  (* ---------- Next, Advance ---------- *)

  Definition dsl_fresh (st : dsl_st C) : Prop :=
    ds_init st = false /\ ds_min st = dmin /\ length (ds_s st) = length Ss0 /\
    forall i c S, nth_error (ds_s st) i = Some c -> nth_error Ss0 i = Some S -> bounded N S /\ CNew c S.

  Definition dsl_inv (st : dsl_st C) (lo : Z) : Prop := dsl_ready st lo \/ (dsl_fresh st /\ lo = 0).

  Lemma dsl_initialise_spec : forall st lo, dsl_inv st lo ->
    exists st1, dsl_initialise C cnext st = Ok st1 /\ dsl_ready st1 lo.
  Proof.
    intros st lo [HR|[[Hi [Hmin [Hlen Hall]]] ->]].
    - exists st. unfold dsl_initialise. destruct HR as [Hi HR]. rewrite Hi. split; [reflexivity|split; assumption].
    - unfold dsl_initialise. rewrite Hi.
      destruct (next_all_new C cnext CInv CFin CNew Hnew N (ds_s st) Ss0 Hlen) as [currs [cs' [E [H3 [Hgap [Hnone [Hfrom Hfin]]]]]]].
      { intros i c S Hc HS. exact (Hall i c S Hc HS). }
      rewrite E. simpl. eexists. split; [reflexivity|].
      destruct (all3_length _ _ _ _ H3) as [Hl1 Hl2].
      unfold dsl_ready. simpl. split; [reflexivity|]. split; [exact Hmin|]. split; [|split; reflexivity].
      apply all3_intro; [exact Hl1|exact Hl2|].
      intros j c S cur Hc HS Hcur. pose proof (all3_nth _ _ _ _ _ _ _ _ H3 Hc HS Hcur) as [HB Hok].
      split; [exact HB|]. destruct cur as [m|].
      + destruct Hok as [A HI]. split; [|exact HI]. split; [exact A|]. split.
        * pose proof (Hfrom j m Hcur). lia.
        * intros x Hx. apply (Hgap j m S x Hcur HS). lia.
      + split; [apply (Hnone j S Hcur HS)|]. exists 0. split; [lia|]. exact (Hfin j c S Hc HS Hcur).
  Qed.

  Lemma dsl_next_spec : forall lf st lo, dsl_inv st lo -> 0 <= lo -> (Z.to_nat N + 2 <= lf)%nat ->
    exists r st', dsl_next C cnext lf st = Ok (r, st') /\ dsl_exact_post lo r st'.
  Proof.
    intros lf st lo Hinv Hlo Hlf. unfold dsl_next.
    destruct (dsl_initialise_spec st lo Hinv) as [st1 [E1 HR]]. rewrite E1. simpl.
    apply dsl_loop_spec; [exact HR|exact Hlo|].
    lia.
  Qed.

  Lemma dsl_adv_trailing_spec : forall cnt i cs currs n lo,
    lo <= n -> length cs = length Ss0 -> length Ss0 = length currs ->
    (forall j c S cur, nth_error cs j = Some c -> nth_error Ss0 j = Some S -> nth_error currs j = Some cur ->
        ((j < i)%nat -> dchild_ok n c S cur) /\ ((i <= j)%nat -> dchild_ok lo c S cur)) ->
    (i + cnt = length currs)%nat ->
    exists cs' currs', adv_trailing C cadv cnt i cs currs n = Ok (cs', currs') /\ all3 (dchild_ok n) cs' Ss0 currs'.
  Proof.
    induction cnt as [| cnt IH]; intros i cs currs n lo Hn Hl1 Hl2 Hall Hlen.
    - exists cs, currs. simpl. split; [reflexivity|]. apply all3_intro; [exact Hl1|exact Hl2|].
      intros j c S cur Hc HS Hcur. apply (Hall j c S cur Hc HS Hcur). apply nth_error_Some_lt in Hcur. lia.
    - assert (Hi : (i < length currs)%nat) by lia.
      destruct (nth_error cs i) as [c|] eqn:Hc; [|apply nth_error_None in Hc; lia].
      destruct (nth_error Ss0 i) as [S|] eqn:HS; [|apply nth_error_None in HS; lia].
      destruct (nth_error currs i) as [cur|] eqn:Hcur; [|apply nth_error_None in Hcur; lia].
      destruct (Hall i c S cur Hc HS Hcur) as [_ Hok]. specialize (Hok (le_n _)).
      simpl. rewrite Hcur.
      assert (Hstep : forall c' r, dchild_ok n c' S r ->
                 exists cs' currs', adv_trailing C cadv cnt (Datatypes.S i) (set_nth cs i c') (set_nth currs i r) n = Ok (cs', currs') /\
                                    all3 (dchild_ok n) cs' Ss0 currs').
      { intros c' r Hr. apply IH with (lo := lo); auto.
        - rewrite set_nth_length. exact Hl1.
        - rewrite set_nth_length. exact Hl2.
        - intros j cj Sj curj Hcj HSj Hcurj. destruct (Nat.eq_dec j i) as [->|Hne].
          + assert (Hlc : (i < length cs)%nat) by lia.
            rewrite nth_error_set_nth_eq in Hcj by exact Hlc. rewrite nth_error_set_nth_eq in Hcurj by exact Hi.
            inversion Hcj; subst cj. inversion Hcurj; subst curj. rewrite HS in HSj. inversion HSj; subst Sj.
            split; [intros _; exact Hr|intros Hle; lia].
          + rewrite nth_error_set_nth_neq in Hcj by congruence. rewrite nth_error_set_nth_neq in Hcurj by congruence.
            destruct (Hall j cj Sj curj Hcj HSj Hcurj) as [H1 H2]. split; intros Hj; [apply H1; lia|apply H2; lia].
        - rewrite set_nth_length. lia. }
      destruct Hok as [HB Hok]. destruct cur as [m|].
      + destruct Hok as [Hleast HI].
        destruct (n <=? dm_num m) eqn:En.
        * apply Z.leb_le in En.
          destruct (Hstep c (Some m)) as [cs' [currs' [E H3']]].
          { apply dchild_ok_raise with (lo := lo); [split; [exact HB|split; assumption]|exact Hn|].
            intros m' Hm'. inversion Hm'; subst. exact En. }
          rewrite (set_nth_same cs i c Hc), (set_nth_same currs i (Some m) Hcur) in E. eauto.
        * apply Z.leb_gt in En.
          destruct (ct_adv _ _ _ _ _ Hct c S (dm_num m + 1) n HI ltac:(lia)) as [r [c' [E Hpost]]].
          unfold adv_child. rewrite Hc. simpl. rewrite E. simpl.
          apply Hstep. split; [exact HB|]. destruct r as [m'|]; simpl in Hpost.
          -- exact Hpost.
          -- destruct Hpost as [Hnn HF]. split; [exact Hnn|]. exists n. split; [lia|exact HF].
      + destruct Hok as [Hnn [lo' [Hlo' HF]]].
        destruct (ct_fin_adv _ _ _ _ _ Hct c S lo' n HF ltac:(lia)) as [c' [lo2 [E [Hlo2 HF']]]].
        unfold adv_child. rewrite Hc. simpl. rewrite E. simpl.
        apply Hstep. split; [exact HB|]. split; [eapply none_from_mono; eauto|]. exists lo2. split; assumption.
  Qed.

  Lemma dsl_advance_spec : forall lf st lo n, dsl_inv st lo -> 0 <= lo -> lo <= n -> (Z.to_nat N + 2 <= lf)%nat ->
    exists r st', dsl_advance C cnext cadv lf st n = Ok (r, st') /\ dsl_exact_post n r st'.
  Proof.
    intros lf st lo n Hinv Hlo Hn Hlf. unfold dsl_advance.
    destruct (dsl_initialise_spec st lo Hinv) as [st1 [E1 [Hi [Hmin [H3 [Hm Hx]]]]]]. rewrite E1. simpl.
    destruct (all3_length _ _ _ _ H3) as [Hl1 Hl2].
    destruct (dsl_adv_trailing_spec (length (ds_s st1)) O (ds_s st1) (ds_currs st1) n lo Hn Hl1 Hl2) as [cs' [currs' [E2 H3']]].
    { intros j c S cur Hc HS Hcur. split; [intros Hj; lia|]. intros _. exact (all3_nth _ _ _ _ _ _ _ _ H3 Hc HS Hcur). }
    { lia. }
    rewrite E2. simpl.
    apply dsl_loop_spec.
    - unfold dsl_ready. simpl. split; [reflexivity|]. split; [exact Hmin|]. split; [exact H3'|]. split; reflexivity.
    - lia.
    - lia.
  Qed.

  (* a disjunction that never skips a candidate (min <= 1) reports the end again when advanced *)
  Lemma dsl_fin_adv : forall lf st lo n, dmin <= 1 -> dsl_fin st lo -> 0 <= lo -> lo <= n -> (Z.to_nat N + 2 <= lf)%nat ->
    exists st', dsl_advance C cnext cadv lf st n = Ok (None, st') /\ dsl_fin st' n.
  Proof.
    intros lf st lo n Hmin1 [lo' [Hlo' [HR [Hm Heq]]]] Hlo Hn Hlf.
    specialize (Heq Hmin1). subst lo'.
    destruct (dsl_advance_spec lf st lo n (or_introl HR) Hlo Hn Hlf) as [r [st' [E Hpost]]].
    destruct r as [rv|]; simpl in Hpost.
    - exfalso. destruct Hpost as [[A [B0 _]] _].
      (* nothing matches at or above lo: every child is finished *)
      destruct HR as [_ [_ [H3 [Hmm _]]]].
      pose proof (update_matches_spec (ds_currs st)) as [_ Hum]. rewrite <- Hmm, Hm in Hum.
      assert (count_true Ss0 (dm_num rv) = O).
      { eapply count_true_zero; eauto; [lia|]. intros i m Hin. apply nth_error_In in Hin. apply Hum in Hin. discriminate. }
      rewrite (disj_S_zero _ H) in A. discriminate.
    - exists st'. split; [exact E|]. apply Hpost.
  Qed.

  Lemma dsl_contract : forall lf st lo,
    dsl_inv st lo -> 0 <= lo -> (Z.to_nat N + 2 <= lf)%nat ->
    (exists r st', dsl_next C cnext lf st = Ok (r, st') /\ dsl_exact_post lo r st') /\
    (forall n, lo <= n -> exists r st', dsl_advance C cnext cadv lf st n = Ok (r, st') /\ dsl_exact_post n r st').
  Proof.
    intros lf st lo Hinv Hlo Hlf. split; [apply dsl_next_spec; assumption|].
    intros n Hn. eapply dsl_advance_spec; eauto.
  Qed.
End Disj.
