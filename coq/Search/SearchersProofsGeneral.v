(* Search/SearchersProofsGeneral.v — search_exact and searcher_spec for arbitrarily nested boolean
   queries over term and match-none clauses (any number of must / should / must-not clauses: slice
   and heap disjunctions; any minShould >= 0), with the conjunction push-down switched off:
     run sn copts_plain q = Ok (sem_numbers q sn)
   The compiled tree of a query of depth d is a fresh clause-level searcher of depth d
   (SearchersProofsTree.Cl); its denotation qS is the set of live numbers whose document satisfies
   sem q.  The contract of that family (Cl_good) drives the collector loop and every call script. *)
From Coq Require Import ZArith List Bool Lia Arith.
From Bluge Require Import Base.Res Gen.ParamsSearch Search.Numeric Search.Postings Search.Searchers Search.Semantics
  Search.SearchersProofsBase Search.SearchersProofsConj Search.SearchersProofsDisj Search.SearchersProofsHeap
  Search.SearchersProofsLeaf Search.SearchersProofsSnap Search.SearchersProofsLeafWeak Search.SearchersProofsAll Search.SearchersProofsWeak
  Search.SearchersProofsExact Search.SearchersProofsTree.
From Bluge Require Search.SearchersProofsBoolAdv.
Module B := SearchersProofsBoolAdv.
Import ListNotations.
Open Scope Z_scope.

(* ---------- the denotation of a query over the live numbers ---------- *)

Definition qS (sn : snapshot) (q : query) (x : Z) : bool :=
  existsb (fun p => (fst p =? x) && sem q (snd p)) (live_docs sn).

Lemma qS_live : forall sn q x d, In (x, d) (live_docs sn) -> qS sn q x = sem q d.
Proof.
  intros sn q x d Hin. unfold qS. destruct (sem q d) eqn:E.
  - apply existsb_exists. exists (x, d). split; [exact Hin|]. simpl. rewrite Z.eqb_refl, E. reflexivity.
  - apply not_true_is_false. intros H. apply existsb_exists in H. destruct H as [[n e] [Hin' Hp]].
    simpl in Hp. apply andb_prop in Hp. destruct Hp as [En He]. apply Z.eqb_eq in En. subst n.
    rewrite (live_docs_unique sn x d e Hin Hin') in E. congruence.
Qed.

Lemma qS_not_live : forall sn q x, (forall d, ~ In (x, d) (live_docs sn)) -> qS sn q x = false.
Proof.
  intros sn q x H. apply not_true_is_false. intros Ht. unfold qS in Ht. apply existsb_exists in Ht.
  destruct Ht as [[n e] [Hin Hp]]. simpl in Hp. apply andb_prop in Hp. destruct Hp as [En _]. apply Z.eqb_eq in En. subst n.
  exact (H e Hin).
Qed.

Lemma qS_term : forall sn f t x, qS sn (QTerm f t) x = term_S sn f t x.
Proof. reflexivity. Qed.

Lemma live_bounded : forall sn x d, In (x, d) (live_docs sn) -> 0 <= x < total_docs sn.
Proof.
  intros sn x d Hin.
  unfold live_docs in Hin. apply live_from_In in Hin. destruct Hin as [k [s [Hk Hin]]]. simpl in Hin.
  apply seg_live_range in Hin.
  assert (Hkl : (k < length sn)%nat) by (apply nth_error_Some; congruence).
  pose proof (total_firstn_le sn (Datatypes.S k)) as H.
  rewrite total_firstn_step in H by exact Hkl. rewrite (nth_error_nth sn k _ Hk) in H.
  pose proof (total_docs_nonneg (firstn k sn)). lia.
Qed.

Lemma qS_bounded : forall sn q, bounded (total_docs sn) (qS sn q).
Proof.
  intros sn q x H. unfold qS in H. apply existsb_exists in H. destruct H as [[n d] [Hin Hp]].
  simpl in Hp. apply andb_prop in Hp. destruct Hp as [E _]. apply Z.eqb_eq in E. subst n. eapply live_bounded; eauto.
Qed.

(* ---------- sem of a boolean query through forallb / existsb / a count ---------- *)

Definition sall (d : doc) (l : list query) : bool := forallb (fun q => sem q d) l.
Definition sany (d : doc) (l : list query) : bool := existsb (fun q => sem q d) l.
Definition scount (d : doc) (l : list query) : Z := fold_right (fun q a => (if sem q d then 1 else 0) + a) 0 l.

Lemma sem_bool : forall m s n ms d,
  sem (QBool m s n ms) d =
  sall d m && negb (sany d n) &&
  match m, s with
  | [], [] => match n with [] => false | _ => true end
  | [], _ => (1 <=? scount d s) && (ms <=? scount d s)
  | _, [] => true
  | _, _ => ms <=? scount d s
  end.
Proof.
  intros m s n ms d. cbn [sem].
  assert (Hall : forall l, (fix all (l0 : list query) : bool := match l0 with [] => true | x :: r => sem x d && all r end) l = sall d l).
  { induction l as [| a l IH]; [reflexivity|]. rewrite IH. reflexivity. }
  assert (Hany : forall l, (fix any (l0 : list query) : bool := match l0 with [] => false | x :: r => sem x d || any r end) l = sany d l).
  { induction l as [| a l IH]; [reflexivity|]. rewrite IH. reflexivity. }
  assert (Hcnt : forall l, (fix count (l0 : list query) : Z := match l0 with [] => 0 | x :: r => (if sem x d then 1 else 0) + count r end) l = scount d l).
  { induction l as [| a l IH]; [reflexivity|]. rewrite IH. reflexivity. }
  rewrite Hall, Hany, Hcnt. reflexivity.
Qed.

Lemma scount_nonneg d l : 0 <= scount d l.
Proof. unfold scount. induction l as [| q0 l IH]; cbn [fold_right]; [lia|]. destruct (sem q0 d); lia. Qed.

Lemma sany_count d l : sany d l = (1 <=? scount d l).
Proof.
  unfold sany, scount. induction l as [| q0 l IH]; cbn [existsb fold_right]; [reflexivity|].
  pose proof (scount_nonneg d l) as Hc. unfold scount in Hc.
  destruct (sem q0 d); cbn [orb].
  - symmetry. apply Z.leb_le. lia.
  - rewrite IH. reflexivity.
Qed.

Lemma conj_qS_live : forall sn l x d, In (x, d) (live_docs sn) -> l <> [] -> conj_S (map (qS sn) l) x = sall d l.
Proof.
  intros sn l x d Hin Hne. unfold conj_S. destruct (map (qS sn) l) eqn:E; [destruct l; [congruence|discriminate]|].
  rewrite <- E. unfold sall. clear E Hne. induction l as [| q0 l IH]; cbn [map forallb]; [reflexivity|].
  rewrite (qS_live sn q0 x d Hin), IH. reflexivity.
Qed.

Lemma count_qS_live : forall sn l x d, In (x, d) (live_docs sn) -> Z.of_nat (count_true (map (qS sn) l) x) = scount d l.
Proof.
  intros sn l x d Hin. unfold count_true, scount. induction l as [| q0 l IH]; cbn [map filter fold_right]; [reflexivity|].
  rewrite (qS_live sn q0 x d Hin). destruct (sem q0 d); cbn [length]; lia.
Qed.

Lemma disj_qS_live : forall sn l k x d, In (x, d) (live_docs sn) -> disj_S (map (qS sn) l) k x = (Z.max k 1 <=? scount d l).
Proof. intros. unfold disj_S. rewrite (count_qS_live sn l x d H). reflexivity. Qed.

Lemma count_qS_not_live : forall sn l x, (forall d, ~ In (x, d) (live_docs sn)) -> count_true (map (qS sn) l) x = O.
Proof.
  intros sn l x H. unfold count_true. induction l as [| q0 l IH]; cbn [map filter]; [reflexivity|].
  rewrite (qS_not_live sn q0 x H). exact IH.
Qed.

(* the denotations of the three children of the compiled boolean *)
Definition den_m (sn : snapshot) (m : list query) : option (Z -> bool) :=
  match m with [] => None | _ => Some (conj_S (map (qS sn) m)) end.
Definition den_s (sn : snapshot) (s : list query) (ms : Z) : option (Z -> bool) :=
  match s with [] => None | _ => Some (disj_S (map (qS sn) s) ms) end.
Definition den_n (sn : snapshot) (n : list query) : option (Z -> bool) :=
  match n with [] => None | _ => Some (disj_S (map (qS sn) n) must_not_disjunction_min) end.

Lemma bool_den : forall sn m s n ms x, 0 <= ms -> (m <> [] \/ s <> []) ->
  qS sn (QBool m s n ms) x = B.bool_S (den_m sn m) (den_s sn s ms) (den_n sn n) ms x.
Proof.
  intros sn m s n ms x Hms Hne.
  destruct (in_dec Z.eq_dec x (map fst (live_docs sn))) as [Hin|Hnin].
  - apply in_map_iff in Hin. destruct Hin as [[x' d] [E Hin]]. simpl in E. subst x'.
    rewrite (qS_live sn _ x d Hin), sem_bool. unfold B.bool_S, B.should_required.
    assert (Hn : B.opt_S (den_n sn n) false x = sany d n).
    { unfold den_n. destruct n as [| n0 nr]; [reflexivity|]. unfold B.opt_S.
      rewrite (disj_qS_live sn (n0 :: nr) _ x d Hin), sany_count. reflexivity. }
    rewrite Hn. pose proof (scount_nonneg d s) as Hc.
    destruct m as [| m0 mr].
    + destruct s as [| s0 sr]; [destruct Hne; congruence|].
      cbn [den_m den_s]. rewrite (disj_qS_live sn _ ms x d Hin). cbn [sall forallb andb].
      destruct (Z.max ms 1 <=? scount d (s0 :: sr)) eqn:E1.
      * apply Z.leb_le in E1. assert (E2 : (1 <=? scount d (s0 :: sr)) = true) by (apply Z.leb_le; lia).
        assert (E3 : (ms <=? scount d (s0 :: sr)) = true) by (apply Z.leb_le; lia). rewrite E2, E3.
        destruct (sany d n); reflexivity.
      * apply Z.leb_gt in E1.
        destruct (1 <=? scount d (s0 :: sr)) eqn:E2; destruct (ms <=? scount d (s0 :: sr)) eqn:E3;
          try (apply Z.leb_le in E2); try (apply Z.leb_le in E3); try lia; destruct (sany d n); reflexivity.
    + cbn [den_m]. rewrite (conj_qS_live sn (m0 :: mr) x d Hin) by discriminate.
      destruct s as [| s0 sr]; cbn [den_s].
      * destruct (sall d (m0 :: mr)); destruct (sany d n); reflexivity.
      * destruct (ms =? 0) eqn:E0; cbn [negb B.opt_S].
        -- apply Z.eqb_eq in E0. subst ms. assert (E3 : (0 <=? scount d (s0 :: sr)) = true) by (apply Z.leb_le; lia).
           rewrite E3. reflexivity.
        -- apply Z.eqb_neq in E0. rewrite (disj_qS_live sn _ ms x d Hin).
           replace (Z.max ms 1) with ms by lia. reflexivity.
  - assert (Hnl : forall d, ~ In (x, d) (live_docs sn)).
    { intros d Hd. apply Hnin. apply in_map_iff. exists (x, d). split; [reflexivity|exact Hd]. }
    rewrite (qS_not_live sn _ x Hnl). symmetry. apply B.bool_S_prim. unfold B.prim_S.
    destruct m as [| m0 mr].
    + destruct s as [| s0 sr]; [destruct Hne; congruence|]. cbn [den_m den_s B.opt_S].
      unfold disj_S. rewrite (count_qS_not_live sn _ x Hnl). apply Z.leb_gt. simpl. lia.
    + cbn [den_m]. unfold conj_S. cbn [map forallb]. rewrite (qS_not_live sn _ x Hnl). reflexivity.
Qed.

(* ---------- the queries covered: depth budget d ---------- *)

Fixpoint qok (d : nat) (q : query) : Prop :=
  match q with
  | QTerm _ _ => True
  | QNone => True
  | QAll => True
  | QBool m s n ms =>
      match d with
      | O => False
      | Datatypes.S d' =>
          Forall (qok d') m /\ Forall (qok d') s /\ Forall (qok d') n /\ 0 <= ms /\
          (m <> [] \/ s <> [] \/ n = [])     (* only must-not clauses: a match-all searcher, not covered *)
      end
  | _ => False
  end.

Lemma qok_mono : forall d q, qok d q -> qok (Datatypes.S d) q.
Proof.
  induction d as [| d IH]; intros q H; destruct q; simpl in H |- *; try exact H; try contradiction.
  destruct H as [A [B0 [D E]]]. split; [|split; [|split; [|exact E]]]; eapply Forall_impl; try apply IH; assumption.
Qed.

(* ---------- bounded denotations ---------- *)

Lemma conj_qS_bounded : forall sn l, l <> [] -> bounded (total_docs sn) (conj_S (map (qS sn) l)).
Proof.
  intros sn [| a l] Hne x Hx; [congruence|]. unfold conj_S in Hx. cbn [map forallb] in Hx.
  apply andb_prop in Hx. destruct Hx as [Hx _]. eapply qS_bounded; eauto.
Qed.

Lemma disj_qS_bounded : forall sn l k, bounded (total_docs sn) (disj_S (map (qS sn) l) k).
Proof.
  intros sn l k x Hx. unfold disj_S in Hx. apply Z.leb_le in Hx.
  assert (Hpos : (0 < count_true (map (qS sn) l) x)%nat) by lia. clear Hx.
  unfold count_true in Hpos. induction l as [| a l IH]; cbn [map filter length] in Hpos; [lia|].
  destruct (qS sn a x) eqn:E; [eapply qS_bounded; eauto|apply IH; exact Hpos].
Qed.

(* ---------- compilation with the push-down switched off ---------- *)

Lemma new_conjunction_plain : forall sn cs, new_conjunction sn copts_plain cs = mk_conj cs.
Proof.
  intros sn cs. unfold new_conjunction, copts_plain. cbn [co_score_none co_tv co_conj co_conj_un].
  destruct (1 <? length cs)%nat; reflexivity.
Qed.

Lemma new_disjunction_plain : forall sn cs k, new_disjunction sn copts_plain cs k =
  if disjunction_heap_takeover <? Z.of_nat (length cs) then mk_disj_heap cs k else mk_disj_slice cs k.
Proof.
  intros sn cs k. unfold new_disjunction, copts_plain. cbn [co_score_none co_tv co_disj_un].
  destruct (1 <? length cs)%nat; destruct (k <=? 1); reflexivity.
Qed.

Section Compile.
  Variable sn : snapshot.
  Hypothesis Hwf : wf_sn sn.
  Let N := total_docs sn.

  (* the compiled searcher of q: fresh, of depth d, for every width bound that covers it *)
  Definition cnew (d : nat) (q : query) (s : searcher) : Prop :=
    forall W, (swidth s <= W)%nat -> pNew (Cl sn W d) s (qS sn q).

  Lemma Cl_new_lift : forall W d s S, pNew (Cl sn W O) s S -> pNew (Cl sn W d) s S.
  Proof. induction d as [| d IH]; intros s S H; [exact H|]. left. apply IH. exact H. Qed.

  Lemma Cl_new_step : forall W d s S, pNew (Cl sn W d) s S -> pNew (Cl sn W (Datatypes.S d)) s S.
  Proof. intros. left. assumption. Qed.

  Lemma term_new : forall W d f t, pNew (Cl sn W d) (term_searcher sn copts_plain f t) (qS sn (QTerm f t)).
  Proof.
    intros W d f t. apply Cl_new_lift. left. left. unfold term_searcher. eexists _, _, _. split; [reflexivity|].
    split; [apply mk_pit_inv; exact Hwf|].
    split; [apply iters_ok_snapshot; exact Hwf|]. split; [intros k q H; exact H|].
    intros x Hx. change (term_S sn f t x = true). apply term_S_visible; [exact Hwf|exact Hx].
  Qed.

  Lemma all_new : forall W d, pNew (Cl sn W d) (SAll (mk_ait sn)) (qS sn QAll).
  Proof.
    intros W d. apply Cl_new_lift. left. right. exists (mk_ait sn). split; [reflexivity|].
    apply (AInv_ext _ _ _ (all_S sn)); [|apply mk_ait_inv; exact Hwf].
    intros x. unfold all_S, qS. induction (live_docs sn) as [| p l IH]; [reflexivity|].
    cbn [existsb sem]. rewrite andb_true_r, IH. reflexivity.
  Qed.

  Lemma none_new : forall W d q, (forall dd, sem q dd = false) -> pNew (Cl sn W d) SNone (qS sn q).
  Proof.
    intros W d q Hq. apply Cl_new_lift. right. split; [reflexivity|]. intros x. unfold qS.
    apply not_true_is_false. intros H. apply existsb_exists in H. destruct H as [[n e] [_ Hp]].
    simpl in Hp. rewrite Hq in Hp. rewrite andb_false_r in Hp. discriminate.
  Qed.

  (* compiling a clause list *)
  Lemma clist_ok : forall d l, Forall (fun q => exists s, compile sn copts_plain q = Ok s /\ cnew d q s) l ->
    exists ss,
      (fix clist (qs : list query) : res (list searcher) :=
         match qs with
         | [] => Ok []
         | q1 :: r => s1 <- compile sn copts_plain q1 ;; ss <- clist r ;; Ok (s1 :: ss)
         end) l = Ok ss /\ Forall2 (cnew d) l ss.
  Proof.
    intros d l H. induction H as [| q l [s [E Hs]] H IH].
    - exists []. split; [reflexivity|constructor].
    - destruct IH as [ss [E2 HF]]. exists (s :: ss). rewrite E. cbn [rbind]. rewrite E2. cbn [rbind].
      split; [reflexivity|constructor; assumption].
  Qed.

  Fixpoint lmaxw (l : list searcher) : nat := match l with [] => O | x :: r => Nat.max (swidth x) (lmaxw r) end.

  (* the children of a fresh node, index by index *)
  Lemma children_new : forall W d l cs, Forall2 (cnew d) l cs -> (lmaxw cs <= W)%nat ->
    forall i c S, nth_error cs i = Some c -> nth_error (map (qS sn) l) i = Some S ->
    bounded N S /\ pNew (Cl sn W d) c S.
  Proof.
    intros W d l cs HF. induction HF as [| q c0 l cs Hq HF IH]; intros HW i c S Hc HS; [destruct i; discriminate|].
    simpl in HW. destruct i as [| i]; simpl in Hc, HS.
    - inversion Hc; inversion HS; subst. split; [apply qS_bounded|]. apply Hq. lia.
    - apply (IH ltac:(lia) i c S Hc HS).
  Qed.

  Lemma children_new_F2 : forall W d l cs, Forall2 (cnew d) l cs -> (lmaxw cs <= W)%nat ->
    Forall2 (fun c S => bounded N S /\ pNew (Cl sn W d) c S) cs (map (qS sn) l).
  Proof.
    intros W d l cs HF. induction HF as [| q c0 l cs Hq HF IH]; intros HW; [constructor|].
    simpl in HW. cbn [map]. constructor; [split; [apply qS_bounded|apply Hq; lia]|apply IH; lia].
  Qed.

  Lemma swidth_conj : forall cs, swidth (mk_conj cs) = Nat.max (length cs) (lmaxw cs).
  Proof. intros cs. reflexivity. Qed.
  Lemma swidth_dsl : forall cs k, swidth (mk_disj_slice cs k) = Nat.max (length cs) (lmaxw cs).
  Proof. intros cs k. reflexivity. Qed.
  Lemma swidth_dhp : forall cs k, swidth (mk_disj_heap cs k) = Nat.max (length cs) (lmaxw cs).
  Proof. intros cs k. reflexivity. Qed.

  Lemma F2_length {A B0} (R : A -> B0 -> Prop) l m : Forall2 R l m -> length l = length m.
  Proof. induction 1; simpl; congruence. Qed.

  (* fresh kid-level searchers *)
  Lemma conj_knew : forall W d l cs, Forall2 (cnew d) l cs -> (swidth (mk_conj cs) <= W)%nat ->
    KNew sn W (Cl sn W d) (mk_conj cs) (conj_S (map (qS sn) l)).
  Proof.
    intros W d l cs HF HW. rewrite swidth_conj in HW. pose proof (F2_length _ _ _ HF) as Hlen.
    split; [lia|]. left. eexists _, (map (qS sn) l). split; [reflexivity|].
    split; [|split; [rewrite map_length; lia|intros x; reflexivity]].
    right. split; [|reflexivity]. unfold conj_fresh, mk_conj. cbn [cj_init cj_max cj_s].
    split; [reflexivity|]. split; [reflexivity|]. split; [rewrite map_length; lia|].
    intros i c S Hc HS. eapply children_new; eauto. lia.
  Qed.

  Lemma disj_knew : forall W d l cs k, Forall2 (cnew d) l cs ->
    (swidth (new_disjunction sn copts_plain cs k) <= W)%nat ->
    KNew sn W (Cl sn W d) (new_disjunction sn copts_plain cs k) (disj_S (map (qS sn) l) k) /\
    smin (new_disjunction sn copts_plain cs k) = k /\ KS (new_disjunction sn copts_plain cs k).
  Proof.
    intros W d l cs k HF HW. rewrite new_disjunction_plain in HW |- *. pose proof (F2_length _ _ _ HF) as Hlen.
    destruct (disjunction_heap_takeover <? Z.of_nat (length cs)).
    - rewrite swidth_dhp in HW. split; [|split; [reflexivity|exact I]].
      split; [lia|]. right. right. eexists _, (map (qS sn) l), k. split; [reflexivity|]. split; [|intros x; reflexivity].
      right. split; [|reflexivity]. unfold dhp_fresh, mk_disj_heap. cbn [dh_init dh_min dh_heap dh_matching dh_s].
      split; [reflexivity|]. split; [reflexivity|]. split; [reflexivity|]. split; [reflexivity|].
      apply children_new_F2; [exact HF|lia].
    - rewrite swidth_dsl in HW. split; [|split; [reflexivity|exact I]].
      split; [lia|]. right. left. eexists _, (map (qS sn) l), k. split; [reflexivity|]. split; [|intros x; reflexivity].
      right. split; [|reflexivity]. unfold dsl_fresh, mk_disj_slice. cbn [ds_init ds_min ds_s].
      split; [reflexivity|]. split; [reflexivity|]. split; [rewrite map_length; lia|].
      intros i c S Hc HS. eapply children_new; eauto. lia.
  Qed.

  Lemma compile_new : forall d q, qok d q -> exists s, compile sn copts_plain q = Ok s /\ cnew d q s.
  Proof.
    induction d as [| d IH]; intros q Hq.
    - destruct q; simpl in Hq; try contradiction.
      + eexists. split; [reflexivity|]. intros W _. apply term_new.
      + eexists. split; [reflexivity|]. intros W _. apply all_new.
      + eexists. split; [reflexivity|]. intros W _. apply none_new. intros dd. reflexivity.
    - destruct q as [f t| | |m s n ms| | |]; simpl in Hq; try contradiction.
      + eexists. split; [reflexivity|]. intros W _. apply term_new.
      + eexists. split; [reflexivity|]. intros W _. apply all_new.
      + eexists. split; [reflexivity|]. intros W _. apply none_new. intros dd. reflexivity.
      + destruct Hq as [Hm [Hs [Hn [Hms Hne]]]].
        destruct (clist_ok d n) as [cn [En HFn]]; [eapply Forall_impl; [|exact Hn]; intros a Ha; apply IH; exact Ha|].
        destruct (clist_ok d m) as [cm [Em HFm]]; [eapply Forall_impl; [|exact Hm]; intros a Ha; apply IH; exact Ha|].
        destruct (clist_ok d s) as [cs [Es HFs]]; [eapply Forall_impl; [|exact Hs]; intros a Ha; apply IH; exact Ha|].
        cbn [compile]. rewrite En. cbn [rbind]. rewrite Em. cbn [rbind]. rewrite Es. cbn [rbind].
        rewrite new_conjunction_plain.
        destruct m as [| m0 mr]; destruct s as [| s0 sr].
        * (* no must, no should: by qok no must-not either *)
          destruct Hne as [H|[H|H]]; try congruence. subst n. cbn [replace_none].
          eexists. split; [reflexivity|]. intros W _. apply none_new. intros dd. rewrite sem_bool. reflexivity.
        * set (sd := new_disjunction sn copts_plain cs ms).
          set (nd := new_disjunction sn copts_plain cn must_not_disjunction_min).
          assert (Hsd : replace_none (Some sd) = Some sd).
          { unfold sd. rewrite new_disjunction_plain. destruct (disjunction_heap_takeover <? Z.of_nat (length cs)); reflexivity. }
          assert (Hnd : replace_none (Some nd) = Some nd).
          { unfold nd. rewrite new_disjunction_plain. destruct (disjunction_heap_takeover <? Z.of_nat (length cn)); reflexivity. }
          assert (Hnn : replace_none (match n with [] => None | _ => Some nd end) = match n with [] => None | _ => Some nd end)
            by (destruct n; [reflexivity|exact Hnd]).
          rewrite Hsd, Hnn. cbn [replace_none].
          exists (mk_bool None (Some sd) (match n with [] => None | _ => Some nd end)).
          split; [reflexivity|].
          intros W HW. right. unfold mk_bool in HW |- *. cbn [swidth] in HW.
          eexists _, None, (den_s sn (s0 :: sr) ms), (den_n sn n), ms. split; [reflexivity|].
          split; [|intros x; apply bool_den; [exact Hms|right; discriminate]].
          destruct (disj_knew W d (s0 :: sr) cs ms HFs ltac:(fold sd; lia)) as [Ks [Kmin KK]]. fold sd in Ks, Kmin, KK.
          unfold B.bool_fresh. cbn [b_init b_done b_cm b_cs b_cmn b_must b_should b_mustnot].
          split; [reflexivity|]. split; [reflexivity|]. split; [reflexivity|]. split; [reflexivity|]. split; [reflexivity|].
          split; [exact I|]. split; [split; [apply disj_qS_bounded|exact Ks]|]. split.
          { destruct n as [| n0 nr]; [exact I|]. cbn [den_n B.opt_new].
            destruct (disj_knew W d (n0 :: nr) cn must_not_disjunction_min HFn ltac:(fold nd; lia)) as [Kn _]. fold nd in Kn.
            split; [apply disj_qS_bounded|exact Kn]. }
          split; [split; assumption|]. right. discriminate.
        * set (nd := new_disjunction sn copts_plain cn must_not_disjunction_min).
          assert (Hnd : replace_none (Some nd) = Some nd).
          { unfold nd. rewrite new_disjunction_plain. destruct (disjunction_heap_takeover <? Z.of_nat (length cn)); reflexivity. }
          assert (Hnn : replace_none (match n with [] => None | _ => Some nd end) = match n with [] => None | _ => Some nd end)
            by (destruct n; [reflexivity|exact Hnd]).
          rewrite Hnn. change (replace_none (Some (mk_conj cm))) with (Some (mk_conj cm)). cbn [replace_none].
          exists (mk_bool (Some (mk_conj cm)) None (match n with [] => None | _ => Some nd end)).
          split; [reflexivity|].
          intros W HW. right. unfold mk_bool in HW |- *. cbn [swidth] in HW.
          eexists _, (den_m sn (m0 :: mr)), None, (den_n sn n), ms. split; [reflexivity|].
          split; [|intros x; apply bool_den; [exact Hms|left; discriminate]].
          unfold B.bool_fresh. cbn [b_init b_done b_cm b_cs b_cmn b_must b_should b_mustnot].
          split; [reflexivity|]. split; [reflexivity|]. split; [reflexivity|]. split; [reflexivity|]. split; [reflexivity|].
          split; [split; [apply conj_qS_bounded; discriminate|apply conj_knew; [exact HFm|lia]]|].
          split; [exact I|]. split.
          { destruct n as [| n0 nr]; [exact I|]. cbn [den_n B.opt_new].
            destruct (disj_knew W d (n0 :: nr) cn must_not_disjunction_min HFn ltac:(fold nd; lia)) as [Kn _]. fold nd in Kn.
            split; [apply disj_qS_bounded|exact Kn]. }
          split; [exact I|]. left. discriminate.
        * set (sd := new_disjunction sn copts_plain cs ms).
          set (nd := new_disjunction sn copts_plain cn must_not_disjunction_min).
          assert (Hsd : replace_none (Some sd) = Some sd).
          { unfold sd. rewrite new_disjunction_plain. destruct (disjunction_heap_takeover <? Z.of_nat (length cs)); reflexivity. }
          assert (Hnd : replace_none (Some nd) = Some nd).
          { unfold nd. rewrite new_disjunction_plain. destruct (disjunction_heap_takeover <? Z.of_nat (length cn)); reflexivity. }
          assert (Hnn : replace_none (match n with [] => None | _ => Some nd end) = match n with [] => None | _ => Some nd end)
            by (destruct n; [reflexivity|exact Hnd]).
          rewrite Hsd, Hnn. cbn [replace_none].
          exists (mk_bool (Some (mk_conj cm)) (Some sd) (match n with [] => None | _ => Some nd end)).
          split; [reflexivity|].
          intros W HW. right. unfold mk_bool in HW |- *. cbn [swidth] in HW.
          eexists _, (den_m sn (m0 :: mr)), (den_s sn (s0 :: sr) ms), (den_n sn n), ms. split; [reflexivity|].
          split; [|intros x; apply bool_den; [exact Hms|left; discriminate]].
          destruct (disj_knew W d (s0 :: sr) cs ms HFs ltac:(fold sd; lia)) as [Ks [Kmin KK]]. fold sd in Ks, Kmin, KK.
          unfold B.bool_fresh. cbn [b_init b_done b_cm b_cs b_cmn b_must b_should b_mustnot].
          split; [reflexivity|]. split; [reflexivity|]. split; [reflexivity|]. split; [reflexivity|]. split; [reflexivity|].
          split; [split; [apply conj_qS_bounded; discriminate|apply conj_knew; [exact HFm|lia]]|].
          split; [split; [apply disj_qS_bounded|exact Ks]|]. split.
          { destruct n as [| n0 nr]; [exact I|]. cbn [den_n B.opt_new].
            destruct (disj_knew W d (n0 :: nr) cn must_not_disjunction_min HFn ltac:(fold nd; lia)) as [Kn _]. fold nd in Kn.
            split; [apply disj_qS_bounded|exact Kn]. }
          split; [split; assumption|]. left. discriminate.
  Qed.
End Compile.

(* ---------- draining a fresh searcher with Next; call scripts ---------- *)

Section Run.
  Variable sn : snapshot.
  Hypothesis Hwf : wf_sn sn.
  Let N := total_docs sn.
  Variable W lf : nat.
  Variable P : preds.
  Variable f0 : nat.
  Hypothesis HP : good lf P f0.
  Variable S : Z -> bool.
  Hypothesis HB : bounded N S.

  Definition gmembers (lo : Z) : list Z := filter S (zseq lo (Z.to_nat (N - lo))).

  Lemma gfilter_none : forall (l : list Z), (forall x, In x l -> S x = false) -> filter S l = [].
  Proof.
    induction l as [| a l IH]; intros H; simpl; [reflexivity|].
    rewrite (H a (or_introl eq_refl)). apply IH. intros x Hx. apply H. right. exact Hx.
  Qed.

  Lemma gmembers_least : forall lo d, 0 <= lo -> least_from S lo d -> gmembers lo = d :: gmembers (d + 1).
  Proof.
    intros lo d Hlo [A [B0 D]]. pose proof (HB d A) as Hd. unfold gmembers.
    replace (Z.to_nat (N - lo)) with (Z.to_nat (d - lo) + (1 + Z.to_nat (N - (d + 1))))%nat by lia.
    rewrite zseq_app, filter_app. rewrite gfilter_none.
    - simpl. replace (lo + Z.of_nat (Z.to_nat (d - lo))) with d by lia. rewrite A. reflexivity.
    - intros x Hx. apply zseq_In in Hx. apply D. lia.
  Qed.

  Lemma gmembers_none : forall lo, none_from S lo -> gmembers lo = [].
  Proof.
    intros lo Hn. unfold gmembers. apply gfilter_none. intros x Hx. apply zseq_In in Hx. apply Hn. lia.
  Qed.

  Lemma run_loop_inv : forall fuel cnt s lo acc, (f0 <= fuel)%nat ->
    pInv P s S lo -> 0 <= lo -> (Z.to_nat (N - lo) < cnt)%nat ->
    run_loop lf fuel cnt s acc = Ok (rev acc ++ gmembers lo).
  Proof.
    intros fuel. induction cnt as [| cnt IH]; intros s lo acc Hf HI Hlo Hcnt; [lia|].
    cbn [run_loop].
    destruct (g_next lf P f0 HP fuel Hf s S lo HI) as [r [s' [E Hpost]]].
    rewrite E. cbn [rbind fst snd]. destruct r as [rv|]; simpl in Hpost.
    - destruct Hpost as [Hl HI']. pose proof (HB _ (proj1 Hl)) as Hb.
      rewrite (IH s' (dm_num rv + 1) (dm_num rv :: acc) Hf HI'); [|destruct Hl as [_ [Hl _]]; lia|destruct Hl as [_ [Hl _]]; lia].
      rewrite (gmembers_least lo (dm_num rv) Hlo Hl). simpl. rewrite <- app_assoc. reflexivity.
    - destruct Hpost as [Hn _]. rewrite (gmembers_none lo Hn), app_nil_r. reflexivity.
  Qed.

  Lemma run_loop_new : forall fuel cnt s, (f0 <= fuel)%nat -> pNew P s S -> (Datatypes.S (Z.to_nat N) <= cnt)%nat ->
    run_loop lf fuel cnt s [] = Ok (gmembers 0).
  Proof.
    intros fuel [| cnt] s Hf HN Hcnt; [lia|]. cbn [run_loop].
    destruct (g_new lf P f0 HP fuel Hf s S HN) as [r [s' [E Hpost]]].
    rewrite E. cbn [rbind fst snd]. destruct r as [rv|]; simpl in Hpost.
    - destruct Hpost as [Hl HI']. pose proof (HB _ (proj1 Hl)) as Hb.
      rewrite (run_loop_inv fuel cnt s' (dm_num rv + 1) [dm_num rv] Hf HI'); [|lia|lia].
      rewrite (gmembers_least 0 (dm_num rv) ltac:(lia) Hl). reflexivity.
    - destruct Hpost as [Hn _]. rewrite (gmembers_none 0 Hn). reflexivity.
  Qed.

  (* a script on a fresh searcher starts with Next *)
  Definition starts_with_next (ops : list op) : Prop := match ops with OAdvance _ :: _ => False | _ => True end.

  Lemma script_new : forall fuel s ops outs, (f0 <= fuel)%nat -> pNew P s S -> starts_with_next ops ->
    script_ok S 0 ops outs -> run_script lf fuel s ops = Ok outs.
  Proof.
    intros fuel s ops outs Hf HN Hst Hs.
    destruct ops as [| [|n] r]; [inversion Hs; subst; reflexivity| |destruct Hst].
    cbn [run_script].
    destruct (g_new lf P f0 HP fuel Hf s S HN) as [res [s' [E Hpost]]]. rewrite E. cbn [rbind fst snd].
    inversion Hs as [ | lo' d r' outs' Hl0 Hrest | lo' Hnone0 | | ]; subst.
    - destruct res as [m|]; simpl in Hpost.
      + destruct Hpost as [Hl HI']. pose proof (least_from_unique S 0 _ _ Hl Hl0). subst d.
        rewrite (script_spec lf fuel (pInv P) (pFin P) (g_next lf P f0 HP fuel Hf) (g_adv lf P f0 HP fuel Hf) r s' S _ outs' HI' Hrest).
        reflexivity.
      + destruct Hpost as [Hnone _]. exfalso. eapply least_none_false; eauto.
    - destruct res as [m|]; simpl in Hpost; [|reflexivity].
      destruct Hpost as [Hl _]. exfalso. eapply least_none_false; eauto.
  Qed.
End Run.

(* ---------- the members of qS are the numbers sem selects ---------- *)

Lemma gmembers_sem_numbers : forall sn q, gmembers sn (qS sn q) 0 = sem_numbers q sn.
Proof.
  intros sn q. unfold gmembers, sem_numbers.
  apply incr_ext_eq.
  - apply incr_filter. apply zseq_incr.
  - apply incr_map_fst_filter. apply live_docs_incr.
  - intros x. rewrite filter_In, zseq_In, in_map_iff. split.
    + intros [Hr HS].
      destruct (in_dec Z.eq_dec x (map fst (live_docs sn))) as [Hin|Hnin].
      * apply in_map_iff in Hin. destruct Hin as [[n d] [E Hin]]. simpl in E. subst n.
        exists (x, d). split; [reflexivity|]. apply filter_In. split; [exact Hin|]. cbn [snd].
        rewrite <- (qS_live sn q x d Hin). exact HS.
      * rewrite qS_not_live in HS; [discriminate|]. intros d Hd. apply Hnin. apply in_map_iff. exists (x, d). auto.
    + intros [[n d] [E Hp]]. simpl in E. subst n. apply filter_In in Hp. destruct Hp as [Hin Hsem]. cbn [snd] in Hsem.
      pose proof (live_bounded sn x d Hin) as Hb. split; [lia|]. rewrite (qS_live sn q x d Hin). exact Hsem.
Qed.

Lemma qsize_pos : forall q, (1 <= qsize q)%nat.
Proof. destruct q; simpl; lia. Qed.

(* ================= search_exact for nested boolean queries ================= *)

Theorem search_exact_nested : forall sn q d,
  wf_sn sn -> qok d q -> (2 * d + 1 <= depth_fuel q)%nat ->
  run sn copts_plain q = Ok (sem_numbers q sn).
Proof.
  intros sn q d Hwf Hq Hd. unfold run.
  destruct (compile_new sn Hwf d q Hq) as [s [E Hnew]]. rewrite E. cbn [rbind].
  pose proof (fuel_ok_loop_fuel sn (swidth s)) as Hfuel.
  rewrite (run_loop_new sn (loop_fuel sn (swidth s)) (Cl sn (swidth s) d) (2 * d + 1)
             (Cl_good sn Hwf (swidth s) _ Hfuel d) (qS sn q) (qS_bounded sn q)
             (depth_fuel q) (Datatypes.S (Z.to_nat (total_docs sn))) s Hd (Hnew _ (le_n _)) (le_n _)).
  f_equal. apply gmembers_sem_numbers.
Qed.

(* searcher_spec: every script of Next / Advance calls that starts with Next, whose Advance
   targets lie at or above the watermark, on the compiled tree of a nested boolean query *)
Theorem searcher_spec_nested : forall sn q d s W lf fuel ops outs,
  wf_sn sn -> qok d q -> compile sn copts_plain q = Ok s ->
  fuel_ok sn W lf -> (swidth s <= W)%nat -> (2 * d + 1 <= fuel)%nat ->
  starts_with_next ops -> script_ok (qS sn q) 0 ops outs ->
  run_script lf fuel s ops = Ok outs.
Proof.
  intros sn q d s W lf fuel ops outs Hwf Hq E Hfuel HW Hf Hst Hs.
  destruct (compile_new sn Hwf d q Hq) as [s' [E' Hnew]]. rewrite E in E'. inversion E'; subst s'.
  eapply (script_new lf (Cl sn W d) (2 * d + 1) (Cl_good sn Hwf W lf Hfuel d) (qS sn q)); eauto.
Qed.

(* the hypotheses are satisfiable: a query of depth 2 (a boolean whose must clauses are a boolean
   of should clauses and a term, with an optional should clause that is a boolean with a must-not
   clause) on the example index (2 segments, a pending delete) *)
From Bluge Require Import Search.SearchersProofs.

Definition ex_nested : query :=
  QBool [QBool [] [QTerm 0 t_ab; QTerm 0 t_cab] [] 1; QTerm 0 t_ba]
        [QBool [QTerm 0 t_ab] [] [QTerm 0 t_cab] 0] [] 0.

Lemma search_exact_nested_example :
  wf_sn ex_sn /\ qok 2 ex_nested /\ (2 * 2 + 1 <= depth_fuel ex_nested)%nat /\
  run ex_sn copts_plain ex_nested = Ok [0; 3].
Proof.
  split; [exact ex_sn_wf|]. split.
  - unfold ex_nested. cbn [qok].
    repeat (first [apply Forall_nil | apply Forall_cons; cbn beta iota | split | exact I | lia
                  | left; discriminate | right; left; discriminate | right; right; reflexivity]).
  - split; [vm_compute; lia|vm_compute; reflexivity].
Qed.

(* ================= multi-term leaves ================= *)

(* NewMultiTermSearcher: a disjunction (slice, or heap above DisjunctionHeapTakeover) over the term
   searchers of the candidate terms.  For every list of terms it is a fresh kid-level searcher over
   term leaves whose denotation is "at least max(min, 1) of the terms occur in the field". *)
Definition multi_S (sn : snapshot) (f : Z) (ts : list (list Z)) : Z -> bool :=
  disj_S (map (fun t => term_S sn f t) ts) multi_term_disjunction_min.

Lemma multi_term_new : forall sn W f ts, wf_sn sn ->
  (swidth (multi_term sn copts_plain f ts) <= W)%nat ->
  KNew sn W (Cl sn W O) (multi_term sn copts_plain f ts) (multi_S sn f ts).
Proof.
  intros sn W f ts Hwf HW. unfold multi_term in *.
  assert (HF : Forall2 (cnew sn O) (map (fun t => QTerm f t) ts) (map (term_searcher sn copts_plain f) ts)).
  { clear HW. induction ts as [| t ts IH]; [constructor|]. cbn [map]. constructor; [|exact IH].
    intros W' _. apply term_new. exact Hwf. }
  destruct (disj_knew sn W O _ _ multi_term_disjunction_min HF HW) as [K _].
  unfold multi_S. rewrite map_map in K. exact K.
Qed.

(* multi_term_spec: every script of Next / Advance calls (targets at or above the watermark) on the
   searcher of a multi-term leaf returns exactly the remaining members of its denotation *)
Theorem multi_term_spec : forall sn f ts W lf fuel ops outs,
  wf_sn sn -> fuel_ok sn W lf -> (swidth (multi_term sn copts_plain f ts) <= W)%nat -> (2 <= fuel)%nat ->
  script_ok (multi_S sn f ts) 0 ops outs ->
  run_script lf fuel (multi_term sn copts_plain f ts) ops = Ok outs.
Proof.
  intros sn f ts W lf fuel ops outs Hwf Hfuel HW Hf Hs.
  destruct fuel as [| [| fuel]]; try lia.
  pose proof (leaf_good sn Hwf lf) as HL.
  eapply (script_spec lf (Datatypes.S (Datatypes.S fuel)) (KInv sn W (leafP sn)) (KFin sn W (leafP sn))
            (K_next sn W lf Hfuel (leafP sn) 1 HL (Datatypes.S fuel) ltac:(lia))
            (K_adv sn W lf Hfuel (leafP sn) 1 HL (Datatypes.S fuel) ltac:(lia))); [|exact Hs].
  apply (multi_term_new sn W f ts Hwf HW).
Qed.
