(* Search/BM25RndProofs.v — weak monotonicity of the float64 score: rounding is monotone, so the
   rounded evaluation is non-decreasing in the frequency and non-increasing in the field length.
   Strictness is a fact about the reals (BM25RProofs); rounded values can coincide. *)
From Coq Require Import Reals Lra ZArith Lia.
From Flocq Require Import Core.
From Bluge Require Import Search.BM25Rnd.
Open Scope R_scope.

Section Mono.
  Variable rnd : R -> R.
  Hypothesis rnd_le : forall x y, x <= y -> rnd x <= rnd y.
  Hypothesis rnd_0 : rnd 0 = 0.
  Hypothesis rnd_1 : rnd 1 = 1.

  Lemma rnd_nonneg : forall x, 0 <= x -> 0 <= rnd x.
  Proof. intros x H. rewrite <- rnd_0. apply rnd_le. exact H. Qed.

  Lemma rnd_ge_1 : forall x, 1 <= x -> 1 <= rnd x.
  Proof. intros x H. rewrite <- rnd_1. apply rnd_le. exact H. Qed.

  Lemma score_rnd_ni_mono : forall w f1 f2 ni1 ni2,
    0 <= w -> 0 <= f1 -> 0 <= ni1 -> f1 * ni1 <= f2 * ni2 ->
    score_rnd_ni rnd w f1 ni1 <= score_rnd_ni rnd w f2 ni2.
  Proof.
    intros w f1 f2 ni1 ni2 Hw Hf1 Hni1 Hle. unfold score_rnd_ni.
    assert (H0 : 0 <= f1 * ni1) by (apply Rmult_le_pos; assumption).
    assert (Hx : rnd (f1 * ni1) <= rnd (f2 * ni2)) by (apply rnd_le; exact Hle).
    assert (Hx0 : 0 <= rnd (f1 * ni1)) by (apply rnd_nonneg; exact H0).
    assert (Hd1 : 1 <= rnd (1 + rnd (f1 * ni1))) by (apply rnd_ge_1; lra).
    assert (Hd : rnd (1 + rnd (f1 * ni1)) <= rnd (1 + rnd (f2 * ni2))) by (apply rnd_le; lra).
    apply rnd_le. apply Rplus_le_compat_l. apply Ropp_le_contravar. apply rnd_le.
    unfold Rdiv. apply Rmult_le_compat_l; [exact Hw|].
    apply Rinv_le_contravar; [lra | exact Hd].
  Qed.

  (* more occurrences never score lower *)
  Lemma score_rnd_mono_freq : forall w k1 b f1 f2 dl avgdl,
    0 <= w -> 0 <= f1 -> f1 <= f2 -> 0 <= norm_inverse_rnd rnd k1 b dl avgdl ->
    score_rnd rnd w k1 b f1 dl avgdl <= score_rnd rnd w k1 b f2 dl avgdl.
  Proof.
    intros w k1 b f1 f2 dl avgdl Hw Hf1 Hle Hni. unfold score_rnd.
    apply score_rnd_ni_mono; try assumption. apply Rmult_le_compat_r; assumption.
  Qed.

  Lemma len_denominator_mono : forall k1 b dl1 dl2 avgdl,
    0 <= k1 -> 0 <= b -> 0 < avgdl -> dl1 <= dl2 ->
    len_denominator_rnd rnd k1 b dl1 avgdl <= len_denominator_rnd rnd k1 b dl2 avgdl.
  Proof.
    intros k1 b dl1 dl2 avgdl Hk Hb Ha Hle. unfold len_denominator_rnd.
    apply rnd_le. apply Rmult_le_compat_l; [exact Hk|]. apply rnd_le. apply Rplus_le_compat_l.
    apply rnd_le. unfold Rdiv. apply Rmult_le_compat_r; [left; apply Rinv_0_lt_compat; exact Ha|].
    apply rnd_le. apply Rmult_le_compat_l; assumption.
  Qed.

  (* a longer field never scores higher *)
  Lemma score_rnd_anti_len : forall w k1 b f dl1 dl2 avgdl,
    0 <= w -> 0 <= f -> 0 <= k1 -> 0 <= b -> 0 < avgdl -> dl1 <= dl2 ->
    0 < len_denominator_rnd rnd k1 b dl1 avgdl ->
    score_rnd rnd w k1 b f dl2 avgdl <= score_rnd rnd w k1 b f dl1 avgdl.
  Proof.
    intros w k1 b f dl1 dl2 avgdl Hw Hf Hk Hb Ha Hle Hpos. unfold score_rnd.
    pose proof (len_denominator_mono k1 b dl1 dl2 avgdl Hk Hb Ha Hle) as Hd.
    unfold norm_inverse_rnd. fold (len_denominator_rnd rnd k1 b dl1 avgdl). fold (len_denominator_rnd rnd k1 b dl2 avgdl).
    set (D1 := len_denominator_rnd rnd k1 b dl1 avgdl) in *. set (D2 := len_denominator_rnd rnd k1 b dl2 avgdl) in *.
    assert (Hni : rnd (1 / D2) <= rnd (1 / D1)).
    { apply rnd_le. unfold Rdiv. rewrite !Rmult_1_l. apply Rinv_le_contravar; assumption. }
    assert (Hni2 : 0 <= rnd (1 / D2)).
    { apply rnd_nonneg. unfold Rdiv. rewrite Rmult_1_l. left. apply Rinv_0_lt_compat. lra. }
    apply score_rnd_ni_mono; try assumption. apply Rmult_le_compat_l; assumption.
  Qed.
End Mono.

(* ---- binary64: round to nearest even on the format with 53 bits and minimal exponent -1074 ---- *)
Definition rnd64 : R -> R := round radix2 (FLT_exp (-1074) 53) ZnearestE.

Lemma rnd64_le : forall x y, x <= y -> rnd64 x <= rnd64 y.
Proof. intros x y H. unfold rnd64. apply round_le; [apply FLT_exp_valid; reflexivity | apply valid_rnd_N | exact H]. Qed.

Lemma rnd64_0 : rnd64 0 = 0.
Proof. unfold rnd64. apply round_0. apply valid_rnd_N. Qed.

Lemma rnd64_1 : rnd64 1 = 1.
Proof.
  unfold rnd64. apply round_generic; [apply valid_rnd_N|].
  apply generic_format_FLT. exists (Float radix2 1 0); [unfold F2R; simpl; lra | simpl; lia | simpl; lia].
Qed.

Lemma float_weak_mono_freq64 : forall w k1 b f1 f2 dl avgdl,
  0 <= w -> 0 <= f1 -> f1 <= f2 -> 0 <= norm_inverse_rnd rnd64 k1 b dl avgdl ->
  score_rnd rnd64 w k1 b f1 dl avgdl <= score_rnd rnd64 w k1 b f2 dl avgdl.
Proof. apply score_rnd_mono_freq; [exact rnd64_le | exact rnd64_0 | exact rnd64_1]. Qed.

Lemma float_weak_anti_len64 : forall w k1 b f dl1 dl2 avgdl,
  0 <= w -> 0 <= f -> 0 <= k1 -> 0 <= b -> 0 < avgdl -> dl1 <= dl2 ->
  0 < len_denominator_rnd rnd64 k1 b dl1 avgdl ->
  score_rnd rnd64 w k1 b f dl2 avgdl <= score_rnd rnd64 w k1 b f dl1 avgdl.
Proof. apply score_rnd_anti_len; [exact rnd64_le | exact rnd64_0 | exact rnd64_1]. Qed.

Lemma float_weak_mono_all : forall w k1 b f1 f2 dl1 dl2 avgdl,
  0 <= w -> 0 <= f1 -> f1 <= f2 -> 0 <= k1 -> 0 <= b -> 0 < avgdl -> dl1 <= dl2 ->
  0 < len_denominator_rnd rnd64 k1 b dl1 avgdl ->
  score_rnd rnd64 w k1 b f1 dl1 avgdl <= score_rnd rnd64 w k1 b f2 dl1 avgdl /\
  score_rnd rnd64 w k1 b f1 dl2 avgdl <= score_rnd rnd64 w k1 b f1 dl1 avgdl.
Proof.
  intros w k1 b f1 f2 dl1 dl2 avgdl Hw Hf1 Hf Hk Hb Ha Hdl Hpos. split.
  - apply float_weak_mono_freq64; try assumption.
    unfold norm_inverse_rnd. fold (len_denominator_rnd rnd64 k1 b dl1 avgdl).
    rewrite <- rnd64_0. apply rnd64_le. unfold Rdiv. rewrite Rmult_1_l. left. apply Rinv_0_lt_compat. exact Hpos.
  - apply float_weak_anti_len64; assumption.
Qed.

(* the hypotheses hold on an instance: k1 = 1, b = 0 *)
Lemma float_weak_mono_instance : 0 < len_denominator_rnd rnd64 1 0 7 12.
Proof.
  unfold len_denominator_rnd.
  replace (0 * 7) with 0 by ring. rewrite rnd64_0. replace (0 / 12) with 0 by (unfold Rdiv; ring). rewrite rnd64_0.
  replace (1 - 0) with 1 by ring. rewrite rnd64_1. replace (1 + 0) with 1 by ring. rewrite rnd64_1.
  replace (1 * 1) with 1 by ring. rewrite rnd64_1. lra.
Qed.
